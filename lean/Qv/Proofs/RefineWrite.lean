import Qv.Props.C01Model
import Qv.Proofs.Acct
import Qv.Proofs.AllocRunEnd
/-
Helper lemmas for `Qv/Props/C01Refine.lean`: the refinement step of the device model
against the flat reference disk for writes that allocate.

1. the well-formedness invariant (`Static`, `TabOK`, `MapOK`, `NewOK`) and the
   refinement relation for states in the middle of a write (`RefinesN`: a mapped
   cluster that is still in the new-cluster list shows zeros);
2. congruence lemmas (`mapping_of_l2Entry`, `guestSec_congr`, transfer of the invariant);
3. the steps of the mapping phase: `allocateClusters` (`alloc_step`), `ensureL2`
   (`ensureL2_step`), mapping one cluster (`mapOne_step`);
4. the write of one in-cluster piece (`doWrite_piece`), new cluster or in place;
5. `populateSingle` (`populateSingle_step`).
The loops of the multi-cluster path are in `Qv/Proofs/RefineWriteMulti.lean`.
-/
namespace Qv.Model.RW
open Qv Qv.Codec Qv.Model
open Qv.Props.C15 (Geom)
open Qv.Props.C11 (L1Distinct)

/-! ## 0. the device monad -/

theorem bind_ok_inv {α β : Type} {x : M α} {f : α → M β} {d d' : Dev} {b : β}
    (h : (x >>= f) d = (d', .ok b)) : ∃ d1 a, x d = (d1, .ok a) ∧ f a d1 = (d', .ok b) := by
  change M.bind x f d = (d', .ok b) at h
  unfold M.bind at h
  generalize hx : x d = r at h
  rcases r with ⟨d1, a | e | p⟩
  · exact ⟨d1, a, rfl, h⟩
  · simp at h
  · simp at h

theorem bind_eq {α β : Type} {x : M α} {f : α → M β} {d d1 : Dev} {a : α}
    (hx : x d = (d1, .ok a)) : (x >>= f) d = f a d1 := by
  change M.bind x f d = _
  unfold M.bind
  rw [hx]

/-! ## 1. invariants -/

/-- what never changes during a write that does not grow the reftable -/
structure Static (d : Dev) : Prop where
  geom : Geom d.info
  cb9 : 9 ≤ d.info.cb
  bsb9 : 9 ≤ d.info.bsb
  bsbcb : d.info.bsb ≤ d.info.cb
  slice : d.info.rbSliceBits ≤ d.info.cb
  noBackName : d.info.hasBack = false
  noBack : d.back = none
  rt56 : d.rtLen * d.info.rbEntries * d.info.clusterSize ≤ 2^56
  l1len : ∀ o, o < d.info.vsize → Split.l1Index d.info o < d.l1Len

/-- the entry of guest offset `o` is not compressed; if it maps to the data file, it is
    COPIED, cluster aligned, and its host cluster has a refcount -/
def EntOK (d : Dev) (o : Nat) : Prop :=
  (d.mapping o).source ≠ .compressed ∧
  ∀ h, (d.mapping o).source = .dataFile → (d.mapping o).clusterOffset = some h →
    (d.mapping o).copied = true ∧ h % d.info.clusterSize = 0 ∧ 1 ≤ d.rc.get (h / d.info.clusterSize)

/-- L2 tables: no two L1 slots share a table; every table's cluster has a refcount -/
structure TabOK (d : Dev) : Prop where
  distinct : L1Distinct d
  l2rc : ∀ o, L1.isZero (d.l1Entry o) = false →
    1 ≤ d.rc.get ((L1.l2Offset (d.l1Entry o)).toNat / d.info.clusterSize)

/-- guest clusters inside the virtual disk -/
structure MapOK (d : Dev) : Prop where
  ent : ∀ o, o < d.info.vsize → EntOK d o
  inj : MapInj d
  hdr : d.rc.get 0 ≠ 0

/-- guest offset `o` is mapped to a data-file cluster that is still in the new-cluster list -/
def IsNewAt (d : Dev) (o : Nat) : Prop :=
  ∃ h, (d.mapping o).source = .dataFile ∧ (d.mapping o).clusterOffset = some h ∧
    h / d.info.clusterSize ∈ d.newData

/-- no mapped cluster inside the virtual disk is still new (holds between operations) -/
def NewOK (d : Dev) : Prop := ∀ o, o < d.info.vsize → ¬ IsNewAt d o

/-- every mapped cluster that is still new belongs to guest range `[a, b)` -/
def NewIn (d : Dev) (a b : Nat) : Prop := ∀ o, o < d.info.vsize → IsNewAt d o → a ≤ o ∧ o < b

/-- refinement in the middle of a write: clusters that are mapped and still new show
    zeros in the flat disk (the device zeroes them before their first data write); every
    other sector is the one the device shows -/
def RefinesN (d : Dev) (f : Qv.Spec.Flat) : Prop :=
  ∀ s, (s + 1) * 512 ≤ d.info.vsize →
    (IsNewAt d (s * 512) → f.sec.get s = 0) ∧ (¬ IsNewAt d (s * 512) → guestSec d s = f.sec.get s)

/-- host cluster at `h` is not the target of any data-file mapping inside the virtual disk -/
def Fresh (d : Dev) (h : Nat) : Prop :=
  ∀ o ho, o < d.info.vsize → (d.mapping o).source = .dataFile → (d.mapping o).clusterOffset = some ho →
    ho + d.info.clusterSize ≤ h ∨ h + d.info.clusterSize ≤ ho

theorem refinesN_of_refines {d : Dev} {f : Qv.Spec.Flat} (hn : NewOK d) (hr : Refines d f) :
    RefinesN d f := by
  intro s hs
  have hlt : s * 512 < d.info.vsize := by omega
  exact ⟨fun h => absurd h (hn _ hlt), fun _ => hr s hs⟩

theorem refines_of_refinesN {d : Dev} {f : Qv.Spec.Flat} (hn : NewOK d) (hr : RefinesN d f) :
    Refines d f := by
  intro s hs
  have hlt : s * 512 < d.info.vsize := by omega
  exact (hr s hs).2 (hn _ hlt)

/-! ## 2. congruence -/

theorem mapping_of_l2Entry {d d' : Dev} (hi : d'.info = d.info) {o : Nat}
    (h : d'.l2Entry o = d.l2Entry o) : d'.mapping o = d.mapping o := by
  unfold Dev.mapping
  rw [hi, h]

theorem doRead_congr_fields (d d' : Dev) (hi : d'.info = d.info) (hd : d'.data = d.data)
    (hb : d'.back = d.back) (hc : d'.comp = d.comp) (e : E64) (off n : Nat) :
    doRead d' e off n = doRead d e off n := by
  unfold doRead compressedPlain Dev.spc
  rw [hi, hd, hb, hc]

theorem guestSec_congr {d d' : Dev} (hi : d'.info = d.info) (hd : d'.data = d.data)
    (hb : d'.back = d.back) (hc : d'.comp = d.comp) {s : Nat}
    (h : d'.l2Entry (s * 512) = d.l2Entry (s * 512)) : guestSec d' s = guestSec d s := by
  unfold guestSec
  rw [h, doRead_congr_fields d d' hi hd hb hc]

theorem isNewAt_congr {d d' : Dev} (hi : d'.info = d.info) (hn : d'.newData = d.newData) {o : Nat}
    (h : d'.l2Entry o = d.l2Entry o) : IsNewAt d' o ↔ IsNewAt d o := by
  unfold IsNewAt
  rw [mapping_of_l2Entry hi h, hi, hn]

/-- a data-file mapping always carries its host offset -/
theorem dataFile_offset {cb : Nat} {hb : Bool} {g : Nat} {e : E64}
    (h : (L2.intoMapping cb hb g e).source = .dataFile) :
    ∃ ho, (L2.intoMapping cb hb g e).clusterOffset = some ho := by
  unfold L2.intoMapping at h ⊢
  split
  · rename_i h1; rw [h1] at h; cases h
  · rename_i h1
    rw [h1] at h
    dsimp only at h ⊢
    split
    · rename_i h2; rw [if_pos h2] at h; cases h
    · rename_i h2
      rw [if_neg h2] at h
      split
      · rename_i h3
        rw [if_pos h3] at h
        split at h <;> cases h
      · exact ⟨_, rfl⟩

theorem mapping_dataFile_offset {d : Dev} {o : Nat} (h : (d.mapping o).source = .dataFile) :
    ∃ ho, (d.mapping o).clusterOffset = some ho := dataFile_offset h

/-- a sector that is neither data-file mapped nor compressed reads as zeros when there is
    no backing image -/
theorem guestSec_nondata (d : Dev) (s : Nat) (hb : d.back = none)
    (h1 : (d.mapping (s * 512)).source ≠ .dataFile)
    (h2 : (d.mapping (s * 512)).source ≠ .compressed) : guestSec d s = 0 := by
  unfold guestSec doRead
  dsimp only
  rw [doRead_mapping]
  cases hs : (d.mapping (s * 512)).source with
  | dataFile => exact absurd hs h1
  | compressed => exact absurd hs h2
  | zero => rfl
  | unallocated => rfl
  | backing => dsimp only; rw [hb]; rfl

/-- `need_make_mapping` on a well-formed entry of an image without backing file -/
theorem needMake_true_nondata {d : Dev} {o : Nat} (e : EntOK d o)
    (h : needMakeMapping d.info (d.mapping o) = true) : (d.mapping o).source ≠ .dataFile := by
  intro hs
  obtain ⟨ho, hco⟩ := mapping_dataFile_offset hs
  obtain ⟨hcop, _, _⟩ := e.2 ho hs hco
  have hp := needMake_plain_none h
  unfold L2.plainOffset at hp
  rw [if_pos ⟨hs, hcop⟩, hco] at hp
  simp at hp

theorem needMake_false_plain {d : Dev} {o : Nat} (hb : d.info.hasBack = false) (e : EntOK d o)
    (h : needMakeMapping d.info (d.mapping o) = false) : ∃ ho, L2.plainOffset (d.mapping o) 0 = some ho := by
  unfold needMakeMapping at h
  split at h
  · rename_i h1
    cases hp : L2.plainOffset (d.mapping o) 0 with
    | none => rw [hp] at h1; simp at h1
    | some x => exact ⟨x, rfl⟩
  · split at h
    · rename_i h2; exact absurd h2 e.1
    · rw [hb] at h
      simp at h

theorem plain_needMake_false {d : Dev} {o ho : Nat} (h : L2.plainOffset (d.mapping o) 0 = some ho) :
    needMakeMapping d.info (d.mapping o) = false := needMakeMapping_plain h

/-! ### arithmetic of guest clusters -/

theorem cs512 {d : Dev} (st : Static d) : d.info.clusterSize = 512 * d.spc := by
  have h := mod512_of_mod_cs st.cb9 (Nat.mod_self d.info.clusterSize)
  unfold Dev.spc
  omega

/-- offsets in different guest clusters differ in their L1 index or their L2 index -/
theorem index_ne_of_cluster_ne (i : Info) {a b : Nat} (h : a / i.clusterSize ≠ b / i.clusterSize) :
    Split.l1Index i a ≠ Split.l1Index i b ∨ Split.l2Index i a ≠ Split.l2Index i b := by
  unfold Info.clusterSize at h
  by_cases h1 : Split.l1Index i a = Split.l1Index i b
  · right
    intro h2
    apply h
    have ea := Arith.recompose_cluster a i.cb i.l2IndexShift
    have eb := Arith.recompose_cluster b i.cb i.l2IndexShift
    unfold Split.l1Index at h1
    unfold Split.l2Index at h2
    rw [← ea, ← eb, h1, h2]
  · left; exact h1

theorem same_cluster_lt {cs a b lo hi : Nat} (hcs : 0 < cs) (h : a / cs = b / cs)
    (hlo : lo % cs = 0) (hhi : hi % cs = 0) (ha : lo ≤ a ∧ a < hi) : lo ≤ b ∧ b < hi := by
  obtain ⟨ql, hql⟩ := Nat.dvd_of_mod_eq_zero hlo
  obtain ⟨qh, hqh⟩ := Nat.dvd_of_mod_eq_zero hhi
  subst hql hqh
  have h1 : ql ≤ a / cs := by
    rw [Nat.le_div_iff_mul_le hcs, Nat.mul_comm]; exact ha.1
  have h2 : a / cs < qh := by
    rw [Nat.div_lt_iff_lt_mul hcs, Nat.mul_comm]; exact ha.2
  rw [h] at h1 h2
  constructor
  · have := (Nat.le_div_iff_mul_le hcs).1 h1
    rw [Nat.mul_comm]; exact this
  · have := (Nat.div_lt_iff_lt_mul hcs).1 h2
    rw [Nat.mul_comm]; exact this

/-! ### transfer of the invariant along steps that keep the view -/

/-- refcounts that were positive stay positive -/
def RcPos (d d' : Dev) : Prop := ∀ c, 1 ≤ d.rc.get c → 1 ≤ d'.rc.get c

theorem RcPos.refl (d : Dev) : RcPos d d := fun _ h => h
theorem RcPos.trans {a b c : Dev} (h1 : RcPos a b) (h2 : RcPos b c) : RcPos a c :=
  fun x h => h2 x (h1 x h)

theorem Static.transfer {d d' : Dev} (st : Static d) (hi : d'.info = d.info) (hb : d'.back = d.back)
    (hr : d'.rtLen = d.rtLen) (hl : d'.l1Len = d.l1Len) : Static d' := by
  obtain ⟨a1, a2, a3, a4, a5, a6, a7, a8, a9⟩ := st
  refine ⟨?_, ?_, ?_, ?_, ?_, ?_, ?_, ?_, ?_⟩
  · rw [hi]; exact a1
  · rw [hi]; exact a2
  · rw [hi]; exact a3
  · rw [hi]; exact a4
  · rw [hi]; exact a5
  · rw [hi]; exact a6
  · rw [hb]; exact a7
  · rw [hi, hr]; exact a8
  · rw [hi, hl]; exact a9

theorem entOK_transfer {d d' : Dev} (hi : d'.info = d.info) (hrc : RcPos d d') {o : Nat}
    (hl : d'.l2Entry o = d.l2Entry o) (e : EntOK d o) : EntOK d' o := by
  unfold EntOK
  rw [mapping_of_l2Entry hi hl, hi]
  refine ⟨e.1, fun h hs hco => ?_⟩
  obtain ⟨a, b, c⟩ := e.2 h hs hco
  exact ⟨a, b, hrc _ c⟩

theorem mapInj_transfer {d d' : Dev} (hi : d'.info = d.info)
    (hl : ∀ o, o < d.info.vsize → d'.l2Entry o = d.l2Entry o) (h : MapInj d) : MapInj d' := by
  intro a b ha hb hav hbv hne sa ca sb cb
  rw [hi] at hav hbv hne ⊢
  rw [mapping_of_l2Entry hi (hl a hav)] at sa ca
  rw [mapping_of_l2Entry hi (hl b hbv)] at sb cb
  exact h a b ha hb hav hbv hne sa ca sb cb

theorem MapOK.transfer {d d' : Dev} (mo : MapOK d) (hi : d'.info = d.info) (hrc : RcPos d d')
    (hl : ∀ o, o < d.info.vsize → d'.l2Entry o = d.l2Entry o) : MapOK d' := by
  refine ⟨?_, mapInj_transfer hi hl mo.inj, ?_⟩
  · intro o ho
    rw [hi] at ho
    exact entOK_transfer hi hrc (hl o ho) (mo.ent o ho)
  · have := hrc 0 (Nat.pos_of_ne_zero mo.hdr)
    omega

theorem l1Entry_congr_fields {d d' : Dev} (hi : d'.info = d.info) (h1 : d'.l1 = d.l1)
    (hl : d'.l1Len = d.l1Len) (o : Nat) : d'.l1Entry o = d.l1Entry o := by
  unfold Dev.l1Entry; rw [hi, h1, hl]

theorem l2Entry_congr_fields {d d' : Dev} (hi : d'.info = d.info) (h1 : d'.l1 = d.l1)
    (hl : d'.l1Len = d.l1Len) (h2 : d'.l2 = d.l2) (o : Nat) : d'.l2Entry o = d.l2Entry o := by
  unfold Dev.l2Entry
  rw [l1Entry_congr_fields hi h1 hl, h2, hi]

theorem TabOK.transfer {d d' : Dev} (t : TabOK d) (hi : d'.info = d.info) (hrc : RcPos d d')
    (hl : ∀ o, d'.l1Entry o = d.l1Entry o) : TabOK d' := by
  refine ⟨?_, ?_⟩
  · intro a b hne ha hb
    rw [hi] at hne
    rw [hl] at ha ⊢
    rw [hl] at hb ⊢
    exact t.distinct a b hne ha hb
  · intro o ho
    rw [hl] at ho ⊢
    rw [hi]
    exact hrc _ (t.l2rc o ho)

theorem refinesN_transfer {d d' : Dev} {f : Qv.Spec.Flat} (hi : d'.info = d.info)
    (hd : d'.data = d.data) (hn : d'.newData = d.newData) (hb : d'.back = d.back) (hc : d'.comp = d.comp)
    (hl : ∀ o, o < d.info.vsize → d'.l2Entry o = d.l2Entry o) (h : RefinesN d f) : RefinesN d' f := by
  intro s hs
  rw [hi] at hs
  have hlt : s * 512 < d.info.vsize := by omega
  rw [isNewAt_congr hi hn (hl _ hlt), guestSec_congr hi hd hb hc (hl _ hlt)]
  exact h s hs

theorem newIn_transfer {d d' : Dev} {a b : Nat} (hi : d'.info = d.info) (hn : d'.newData = d.newData)
    (hl : ∀ o, o < d.info.vsize → d'.l2Entry o = d.l2Entry o) (h : NewIn d a b) : NewIn d' a b := by
  intro o ho hnew
  rw [hi] at ho
  rw [isNewAt_congr hi hn (hl o ho)] at hnew
  exact h o ho hnew

/-- a cluster with refcount 0 is not the target of any mapping -/
theorem fresh_of_rc_zero {d : Dev} (mo : MapOK d) {h : Nat} (hal : h % d.info.clusterSize = 0)
    (h0 : d.rc.get (h / d.info.clusterSize) = 0) : Fresh d h := by
  intro o ho hov hs hco
  obtain ⟨_, hal', hrc⟩ := (mo.ent o hov).2 ho hs hco
  have hcs := cs_pos d.info
  generalize d.info.clusterSize = cs at *
  have e1 := Nat.div_add_mod h cs
  have e2 := Nat.div_add_mod ho cs
  rw [hal, Nat.add_zero] at e1
  rw [hal', Nat.add_zero] at e2
  have hne : ho / cs ≠ h / cs := by
    intro heq; rw [heq] at hrc; omega
  rcases Nat.lt_or_gt_of_ne hne with hlt | hlt
  · left
    have : cs * (ho / cs + 1) ≤ cs * (h / cs) := Nat.mul_le_mul_left _ hlt
    rw [Nat.mul_add, Nat.mul_one] at this
    omega
  · right
    have : cs * (h / cs + 1) ≤ cs * (ho / cs) := Nat.mul_le_mul_left _ hlt
    rw [Nat.mul_add, Nat.mul_one] at this
    omega

theorem fresh_transfer {d d' : Dev} {h : Nat} (hi : d'.info = d.info)
    (hl : ∀ o, o < d.info.vsize → d'.l2Entry o = d.l2Entry o) (fr : Fresh d h) : Fresh d' h := by
  intro o ho hov hs hco
  rw [hi] at hov ⊢
  rw [mapping_of_l2Entry hi (hl o hov)] at hs hco
  exact fr o ho hov hs hco

/-! ## 3. steps of the mapping phase -/

/-- a step that changes nothing the guest view depends on (allocator, header update,
    installation of an empty L2 table) -/
structure ViewStep (d d' : Dev) : Prop where
  info : d'.info = d.info
  data : d'.data = d.data
  newData : d'.newData = d.newData
  back : d'.back = d.back
  comp : d'.comp = d.comp
  l1Len : d'.l1Len = d.l1Len
  rtLen : d'.rtLen = d.rtLen
  rcpos : RcPos d d'
  l2 : ∀ o, d'.l2Entry o = d.l2Entry o

theorem ViewStep.refl (d : Dev) : ViewStep d d :=
  ⟨rfl, rfl, rfl, rfl, rfl, rfl, rfl, RcPos.refl d, fun _ => rfl⟩

theorem ViewStep.trans {a b c : Dev} (h1 : ViewStep a b) (h2 : ViewStep b c) : ViewStep a c :=
  ⟨h2.info.trans h1.info, h2.data.trans h1.data, h2.newData.trans h1.newData, h2.back.trans h1.back,
   h2.comp.trans h1.comp, h2.l1Len.trans h1.l1Len, h2.rtLen.trans h1.rtLen, h1.rcpos.trans h2.rcpos,
   fun o => (h2.l2 o).trans (h1.l2 o)⟩

theorem ViewStep.static {d d' : Dev} (v : ViewStep d d') (st : Static d) : Static d' :=
  st.transfer v.info v.back v.rtLen v.l1Len
theorem ViewStep.mapOK {d d' : Dev} (v : ViewStep d d') (mo : MapOK d) : MapOK d' :=
  mo.transfer v.info v.rcpos (fun o _ => v.l2 o)
theorem ViewStep.refinesN {d d' : Dev} {f : Qv.Spec.Flat} (v : ViewStep d d') (h : RefinesN d f) :
    RefinesN d' f :=
  refinesN_transfer v.info v.data v.newData v.back v.comp (fun o _ => v.l2 o) h
theorem ViewStep.newIn {d d' : Dev} {a b : Nat} (v : ViewStep d d') (h : NewIn d a b) : NewIn d' a b :=
  newIn_transfer v.info v.newData (fun o _ => v.l2 o) h
theorem ViewStep.fresh {d d' : Dev} {h : Nat} (v : ViewStep d d') (fr : Fresh d h) : Fresh d' h :=
  fresh_transfer v.info (fun o _ => v.l2 o) fr
theorem ViewStep.mapping {d d' : Dev} (v : ViewStep d d') (o : Nat) : d'.mapping o = d.mapping o :=
  mapping_of_l2Entry v.info (v.l2 o)

theorem AllocFrame.viewStep {d d1 : Dev} (fr : AllocFrame d d1) (hrc : RcPos d d1) : ViewStep d d1 := by
  obtain ⟨_, _, _, _, rfl⟩ := fr
  exact ⟨rfl, rfl, rfl, rfl, rfl, rfl, rfl, hrc, fun _ => rfl⟩

theorem AllocFrame.l1Entry {d d1 : Dev} (fr : AllocFrame d d1) (o : Nat) : d1.l1Entry o = d.l1Entry o := by
  obtain ⟨_, _, _, _, rfl⟩ := fr; rfl

/-- what a successful `allocate_clusters(count)` that does not grow the reftable means for
    the invariant: the view is unchanged, positive refcounts stay positive, and the run is
    aligned, non-empty, was free, is not cluster 0 and lies below 2^56 -/
theorem alloc_step {d d1 : Dev} {count h n : Nat} (st : Static d) (mo : MapOK d)
    (ha : allocateClusters count d = (d1, .ok (some (h, n)))) (hng : d1.rtLen = d.rtLen) :
    AllocFrame d d1 ∧ RcPos d d1 ∧ h % d.info.clusterSize = 0 ∧ 1 ≤ n ∧ n ≤ count ∧ 0 < h ∧
    h + n * d.info.clusterSize ≤ 2^56 ∧
    (∀ c, h / d.info.clusterSize ≤ c → c < h / d.info.clusterSize + n →
      d.rc.get c = 0 ∧ d1.rc.get c = 1) := by
  have post := allocateClusters_post count d (by rw [ha]; exact hng)
  rw [ha] at post
  obtain ⟨⟨fr, _⟩, n1, n2, hal, hrun, hother⟩ := post
  dsimp only at hrun hother
  have hrange := allocateClusters_run_end count d d1 st.geom st.slice h n ha
  rw [hng] at hrange
  have hcs := cs_pos d.info
  have hrc : RcPos d d1 := by
    intro c hc
    by_cases hin : h / d.info.clusterSize ≤ c ∧ c < h / d.info.clusterSize + n
    · rw [(hrun c hin.1 hin.2).2]; exact Nat.le_refl _
    · rcases hother c hin with e | ⟨_, _, _, e⟩
      · rw [e]; exact hc
      · rw [e]; exact Nat.le_refl _
  have hpos : 0 < h := by
    apply Nat.pos_of_ne_zero
    intro h0
    subst h0
    have := (hrun 0 (by simp) (by simp; omega)).1
    exact mo.hdr this
  refine ⟨fr, hrc, hal, n1, n2, hpos, ?_, hrun⟩
  have := st.rt56
  omega

/-- facts about cluster `k` of an aligned run starting at `h` -/
theorem run_cluster {cs h k : Nat} (hcs : 0 < cs) (hal : h % cs = 0) :
    (h + k * cs) % cs = 0 ∧ (h + k * cs) / cs = h / cs + k := by
  constructor
  · rw [Nat.add_mul_mod_self_right]; exact hal
  · rw [Nat.add_mul_div_right _ _ hcs]

/-- the header-update step of `ensure_l2_offset` -/
def hdrStep (d : Dev) (off : Nat) : Dev × Outcome Unit :=
  if Split.l1Index d.info off < d.l1HdrEntries then (d, .ok ())
  else if Split.l1Index d.info off ≥ d.l1Len then (d, .err .unsupported)
  else if min d.info.maxL1Entries d.l1Len > d.info.maxL1Entries then
    (d, .panic "write.rs:flush_header_for_l1_table:assert")
  else ({ d with hdrL1Entries := min d.info.maxL1Entries d.l1Len,
                 l1HdrEntries := min d.info.maxL1Entries d.l1Len }, .ok ())

theorem hdrStep_frame (d : Dev) (off : Nat) :
    ∃ a b, (hdrStep d off).1 = { d with hdrL1Entries := a, l1HdrEntries := b } := by
  unfold hdrStep
  repeat' split
  all_goals first
    | exact ⟨d.hdrL1Entries, d.l1HdrEntries, rfl⟩
    | exact ⟨_, _, rfl⟩

theorem ensureL2_eq (off : Nat) (d : Dev) :
    ensureL2 off d =
      if ¬ L1.isZero (d.l1Entry off) then (d, .ok ()) else
      match hdrStep d off with
      | (d0, .ok ()) =>
        if ¬ L1.isZero (d0.l1Entry off) then (d0, .ok ()) else
        match allocateClusters 1 d0 with
        | (d1, .ok (some (l2off, _))) =>
          ({ d1 with l2 := d1.l2.set l2off (FMap.empty 0#64),
                     l1 := d1.l1.set (Split.l1Index d.info off) (L1.mapEntry l2off),
                     needFlush := true }, .ok ())
        | (d1, .ok none) => (d1, .err .nospace)
        | (d1, .err e) => (d1, .err e)
        | (d1, .panic p) => (d1, .panic p)
      | (d0, .err e) => (d0, .err e)
      | (d0, .panic p) => (d0, .panic p) := rfl

/-- the state after `ensure_l2_offset` installed an empty table at `h` for L1 slot `idx` -/
def withTable (d1 : Dev) (idx h : Nat) : Dev :=
  { d1 with l2 := d1.l2.set h (FMap.empty 0#64), l1 := d1.l1.set idx (L1.mapEntry h), needFlush := true }

/-- installing an empty L2 table at a cluster no L1 slot points to, for a slot that had
    no table: no L2 entry of the view changes -/
theorem withTable_step {d1 : Dev} {off h : Nat} (t : TabOK d1)
    (hidx : Split.l1Index d1.info off < d1.l1Len)
    (hz : L1.isZero (d1.l1Entry off) = true)
    (h512 : h % 512 = 0) (hpos : 0 < h) (h56 : h < 2^56)
    (hrc : d1.rc.get (h / d1.info.clusterSize) = 1)
    (hnt : ∀ o, L1.isZero (d1.l1Entry o) = false → (L1.l2Offset (d1.l1Entry o)).toNat ≠ h) :
    ViewStep d1 (withTable d1 (Split.l1Index d1.info off) h) ∧
    TabOK (withTable d1 (Split.l1Index d1.info off) h) ∧
    L1.isZero ((withTable d1 (Split.l1Index d1.info off) h).l1Entry off) = false := by
  obtain ⟨m1, m3⟩ := l1_mapEntry_facts h h512 hpos h56
  generalize hD : withTable d1 (Split.l1Index d1.info off) h = D
  have hDi : D.info = d1.info := by rw [← hD]; rfl
  have hl1 : ∀ o, D.l1Entry o =
      if Split.l1Index d1.info o = Split.l1Index d1.info off then L1.mapEntry h else d1.l1Entry o := by
    intro o
    rw [← hD]
    unfold Dev.l1Entry withTable
    dsimp only
    by_cases hx : Split.l1Index d1.info o = Split.l1Index d1.info off
    · rw [if_pos hx, hx, if_pos hidx, FMap.get_set_same]
    · rw [if_neg hx, FMap.get_set_other _ _ _ _ (fun x => hx x.symm)]
  have hl2 : D.l2 = d1.l2.set h (FMap.empty 0#64) := by rw [← hD]; rfl
  have hsame : ∀ o, Split.l1Index d1.info o = Split.l1Index d1.info off → d1.l1Entry o = d1.l1Entry off := by
    intro o hx; unfold Dev.l1Entry; rw [hx]
  refine ⟨⟨hDi, by rw [← hD]; rfl, by rw [← hD]; rfl, by rw [← hD]; rfl, by rw [← hD]; rfl,
    by rw [← hD]; rfl, by rw [← hD]; rfl, ?_, ?_⟩, ⟨?_, ?_⟩, ?_⟩
  · intro c hc; rw [← hD]; exact hc
  · intro o
    unfold Dev.l2Entry
    dsimp only
    rw [hl1 o, hDi]
    by_cases hx : Split.l1Index d1.info o = Split.l1Index d1.info off
    · rw [if_pos hx, hsame o hx, hz, m3, m1, hl2, FMap.get_set_same, FMap.get_empty]
      simp
    · rw [if_neg hx]
      by_cases hzo : L1.isZero (d1.l1Entry o) = true
      · rw [if_pos hzo, if_pos hzo]
      · rw [if_neg hzo, if_neg hzo, hl2, FMap.get_set_other]
        intro heq
        exact hnt o (by simpa using hzo) heq.symm
  · -- distinct
    intro a b hne ha hb
    rw [hDi] at hne
    rw [hl1] at ha ⊢
    rw [hl1] at hb ⊢
    by_cases hxa : Split.l1Index d1.info a = Split.l1Index d1.info off
    · have hxb : ¬ Split.l1Index d1.info b = Split.l1Index d1.info off := fun x => hne (hxa.trans x.symm)
      rw [if_pos hxa, m1]
      rw [if_neg hxb] at hb ⊢
      exact fun x => hnt b hb x.symm
    · rw [if_neg hxa] at ha ⊢
      by_cases hxb : Split.l1Index d1.info b = Split.l1Index d1.info off
      · rw [if_pos hxb, m1]
        exact hnt a ha
      · rw [if_neg hxb] at hb ⊢
        exact t.distinct a b hne ha hb
  · -- l2rc
    intro o ho
    rw [hl1] at ho ⊢
    have hrcD : D.rc = d1.rc := by rw [← hD]; rfl
    rw [hDi, hrcD]
    by_cases hx : Split.l1Index d1.info o = Split.l1Index d1.info off
    · rw [if_pos hx, m1, hrc]; exact Nat.le_refl _
    · rw [if_neg hx] at ho ⊢
      exact t.l2rc o ho
  · rw [hl1 off, if_pos rfl]; exact m3

/-- `ensure_l2_offset` on a well-formed state, without reftable growth: the view is
    unchanged, the table of `off` exists afterwards -/
theorem ensureL2_step {d d' : Dev} {off : Nat} (st : Static d) (t : TabOK d) (mo : MapOK d)
    (hov : off < d.info.vsize)
    (h : ensureL2 off d = (d', .ok ())) (hng : d'.rtLen = d.rtLen) :
    ViewStep d d' ∧ TabOK d' ∧ L1.isZero (d'.l1Entry off) = false := by
  rw [ensureL2_eq] at h
  by_cases hz : L1.isZero (d.l1Entry off) = true
  · rw [if_neg (by simp [hz])] at h
    obtain ⟨a, b, hfr⟩ := hdrStep_frame d off
    generalize hr : hdrStep d off = r at h hfr
    obtain ⟨d0, (_ | e | p)⟩ := r
    · dsimp only at h hfr
      have v0 : ViewStep d d0 := by
        rw [hfr]; exact ⟨rfl, rfl, rfl, rfl, rfl, rfl, rfl, fun _ x => x, fun _ => rfl⟩
      have hl10 : ∀ o, d0.l1Entry o = d.l1Entry o := by intro o; rw [hfr]; rfl
      have hz0 : L1.isZero (d0.l1Entry off) = true := by rw [hl10]; exact hz
      rw [if_neg (by simp [hz0])] at h
      have st0 := v0.static st
      have mo0 := v0.mapOK mo
      have t0 : TabOK d0 := t.transfer v0.info v0.rcpos hl10
      generalize hal : allocateClusters 1 d0 = ra at h
      obtain ⟨d1, ((_ | ⟨l2off, n⟩) | e | p)⟩ := ra
      · simp at h
      · dsimp only at h
        simp only [Prod.mk.injEq, and_true] at h
        have hng1 : d1.rtLen = d0.rtLen := by
          rw [v0.rtLen, ← hng, ← h]
        have hcs := cs_pos d0.info
        obtain ⟨fr, hrc, hal', n1, n2, hpos, h56, hrun⟩ :=
          alloc_step st0 mo0 hal hng1
        have v1 := AllocFrame.viewStep fr hrc
        have hl11 := AllocFrame.l1Entry fr
        have t1 : TabOK d1 := t0.transfer v1.info v1.rcpos hl11
        obtain ⟨r0, r1⟩ := hrun (l2off / d0.info.clusterSize) (Nat.le_refl _) (by omega)
        have hidx : Split.l1Index d1.info off < d1.l1Len := by
          rw [v1.info, v1.l1Len, v0.info, v0.l1Len]; exact st.l1len off hov
        have hnt : ∀ o, L1.isZero (d1.l1Entry o) = false → (L1.l2Offset (d1.l1Entry o)).toNat ≠ l2off := by
          intro o ho heq
          rw [hl11] at ho heq
          have := t0.l2rc o ho
          rw [heq, r0] at this
          omega
        have hi1 : d.info = d1.info := by rw [v1.info, v0.info]
        rw [hi1] at h
        have hw := withTable_step (d1 := d1) (off := off) (h := l2off) t1 hidx (by rw [hl11]; exact hz0)
          (mod512_of_mod_cs st0.cb9 hal') hpos
          (by have := Nat.mul_pos (show 0 < n from n1) (cs_pos d0.info); omega)
          (by rw [v1.info]; exact r1) hnt
        unfold withTable at hw
        rw [h] at hw
        exact ⟨v0.trans (v1.trans hw.1), hw.2.1, hw.2.2⟩
      · simp at h
      · simp at h
    · simp at h
    · simp at h
  · rw [if_pos hz] at h
    simp only [Prod.mk.injEq, and_true] at h
    subst h
    exact ⟨ViewStep.refl d, t, by simpa using hz⟩

/-- `ensure_l2_offset` never shrinks the reftable, whatever its outcome -/
theorem ensureL2_rtLen (off : Nat) (d : Dev) : d.rtLen ≤ (ensureL2 off d).1.rtLen := by
  rw [ensureL2_eq]
  split
  · exact Nat.le_refl _
  · obtain ⟨a, b, hfr⟩ := hdrStep_frame d off
    generalize hdrStep d off = r at hfr
    obtain ⟨d0, (_ | e | p)⟩ := r
    · dsimp only at hfr ⊢
      have h0 : d0.rtLen = d.rtLen := by rw [hfr]
      split
      · show d.rtLen ≤ d0.rtLen
        omega
      · generalize hra : allocateClusters 1 d0 = ra
        obtain ⟨d1, ra⟩ := ra
        have hm := (Qv.Props.C01Model.allocateClusters_frame 1 d0 d1 ra hra).1.2.2.2.2.2.2.2.2.2.1
        obtain ((_ | ⟨l2off, n⟩) | e | p) := ra
        all_goals (dsimp only at hm ⊢; omega)
    · dsimp only at hfr ⊢; rw [hfr]; exact Nat.le_refl _
    · dsimp only at hfr ⊢; rw [hfr]; exact Nat.le_refl _

/-! ### mapping one cluster -/

/-- `D2` is `D1` with the entry of guest cluster `this` set to `map_cluster(h)` and the
    cluster of `h` added to the new-cluster list (`alloc_and_map_cluster` after the
    allocation; one iteration of `__make_multiple_write_mapping`) -/
structure MapOne (D1 D2 : Dev) (this h : Nat) : Prop where
  info : D2.info = D1.info
  l1 : D2.l1 = D1.l1
  l1Len : D2.l1Len = D1.l1Len
  l2 : D2.l2 = (D1.setL2 this (L2.mapClusterEntry h)).l2
  rc : D2.rc = D1.rc
  data : D2.data = D1.data
  back : D2.back = D1.back
  comp : D2.comp = D1.comp
  rtLen : D2.rtLen = D1.rtLen
  newData : D2.newData = (h / D1.info.clusterSize) :: D1.newData

theorem div_ne_of_disjoint {cs a b : Nat} (hcs : 0 < cs) (h : a + cs ≤ b ∨ b + cs ≤ a) : a / cs ≠ b / cs := by
  intro heq
  have h1 := Arith.lt_round_down_add a cs hcs
  have h2 := Arith.lt_round_down_add b cs hcs
  have h3 := Nat.div_mul_le_self a cs
  have h4 := Nat.div_mul_le_self b cs
  rw [heq] at h1 h3
  omega

/-- the record `map_cluster(h)` decodes to -/
def plainMapping (h : Nat) : Mapping :=
  { source := .dataFile, clusterOffset := some h, compressedLength := none, copied := true }

theorem plainMapping_plain (h : Nat) : L2.plainOffset (plainMapping h) 0 = some h := rfl

/-- the entries of the view after mapping one cluster -/
theorem mapOne_entries {D1 D2 : Dev} {this h : Nat} (st : Static D1) (t : TabOK D1)
    (hl1 : L1.isZero (D1.l1Entry this) = false)
    (hal : h % D1.info.clusterSize = 0) (hpos : 0 < h) (h56 : h < 2^56)
    (m : MapOne D1 D2 this h) :
    D2.l2Entry this = L2.mapClusterEntry h ∧
    (∀ o, o / D1.info.clusterSize ≠ this / D1.info.clusterSize → D2.l2Entry o = D1.l2Entry o) ∧
    (∀ o, o / D1.info.clusterSize = this / D1.info.clusterSize → D2.mapping o = plainMapping h) := by
  obtain ⟨he, hf⟩ := l2Entry_setL2_distinct t.distinct hl1 m.info m.l1 m.l1Len m.l2
  refine ⟨he, fun o hne => hf o (index_ne_of_cluster_ne D1.info hne), ?_⟩
  intro o heq
  have h512 := mod512_of_mod_cs st.cb9 hal
  have : D2.l2Entry o = L2.mapClusterEntry h := by
    rw [← he]
    apply l2Entry_congr
    rw [m.info]; exact heq
  unfold Dev.mapping
  rw [this]
  exact L2.mapClusterEntry_intoMapping _ _ _ h h512 hpos h56

/-- mapping a cluster that needed a mapping to a host cluster nobody maps keeps the invariant -/
theorem mapOne_inv {D1 D2 : Dev} {this h : Nat} (st : Static D1) (t : TabOK D1) (mo : MapOK D1)
    (hl1 : L1.isZero (D1.l1Entry this) = false)
    (hal : h % D1.info.clusterSize = 0) (hpos : 0 < h) (h56 : h < 2^56)
    (hrc : 1 ≤ D1.rc.get (h / D1.info.clusterSize)) (fr : Fresh D1 h)
    (m : MapOne D1 D2 this h) :
    Static D2 ∧ TabOK D2 ∧ MapOK D2 := by
  obtain ⟨he, hf, hmap⟩ := mapOne_entries st t hl1 hal hpos h56 m
  have hrcp : RcPos D1 D2 := by intro c hc; rw [m.rc]; exact hc
  refine ⟨st.transfer m.info m.back m.rtLen m.l1Len,
    t.transfer m.info hrcp (l1Entry_congr_fields m.info m.l1 m.l1Len), ⟨?_, ?_, ?_⟩⟩
  · intro o ho
    rw [m.info] at ho
    by_cases hc : o / D1.info.clusterSize = this / D1.info.clusterSize
    · unfold EntOK
      rw [hmap o hc, m.info, m.rc]
      refine ⟨by simp [plainMapping], ?_⟩
      intro h' _ hco
      have : h' = h := by simp [plainMapping] at hco; exact hco.symm
      subst this
      exact ⟨rfl, hal, hrc⟩
    · exact entOK_transfer m.info hrcp (hf o hc) (mo.ent o ho)
  · intro a b ha hb hav hbv hne sa ca sb cb
    rw [m.info] at hav hbv hne ⊢
    by_cases hca : a / D1.info.clusterSize = this / D1.info.clusterSize
    · have hcb : ¬ b / D1.info.clusterSize = this / D1.info.clusterSize := fun x => hne (hca.trans x.symm)
      rw [hmap a hca] at ca
      have e : ha = h := by simp [plainMapping] at ca; exact ca.symm
      subst e
      rw [mapping_of_l2Entry m.info (hf b hcb)] at sb cb
      exact (fr b hb hbv sb cb).symm
    · rw [mapping_of_l2Entry m.info (hf a hca)] at sa ca
      by_cases hcb : b / D1.info.clusterSize = this / D1.info.clusterSize
      · rw [hmap b hcb] at cb
        have e : hb = h := by simp [plainMapping] at cb; exact cb.symm
        subst e
        exact fr a ha hav sa ca
      · rw [mapping_of_l2Entry m.info (hf b hcb)] at sb cb
        exact mo.inj a b ha hb hav hbv hne sa ca sb cb
  · rw [m.rc]; exact mo.hdr

/-- `IsNewAt` after mapping one cluster -/
theorem mapOne_isNewAt {D1 D2 : Dev} {this h : Nat} (st : Static D1) (t : TabOK D1)
    (hl1 : L1.isZero (D1.l1Entry this) = false)
    (hal : h % D1.info.clusterSize = 0) (hpos : 0 < h) (h56 : h < 2^56) (fr : Fresh D1 h)
    (m : MapOne D1 D2 this h) (o : Nat) (hov : o < D1.info.vsize) :
    (o / D1.info.clusterSize = this / D1.info.clusterSize → IsNewAt D2 o) ∧
    (o / D1.info.clusterSize ≠ this / D1.info.clusterSize → (IsNewAt D2 o ↔ IsNewAt D1 o)) := by
  obtain ⟨he, hf, hmap⟩ := mapOne_entries st t hl1 hal hpos h56 m
  constructor
  · intro hc
    refine ⟨h, by rw [hmap o hc]; rfl, by rw [hmap o hc]; rfl, ?_⟩
    rw [m.info, m.newData]
    exact List.mem_cons_self
  · intro hc
    unfold IsNewAt
    rw [mapping_of_l2Entry m.info (hf o hc), m.info, m.newData]
    constructor
    · rintro ⟨ho, hs, hco, hmem⟩
      refine ⟨ho, hs, hco, ?_⟩
      rcases List.mem_cons.1 hmem with e | e
      · exact absurd e (div_ne_of_disjoint (cs_pos D1.info) (fr o ho hov hs hco))
      · exact e
    · rintro ⟨ho, hs, hco, hmem⟩
      exact ⟨ho, hs, hco, List.mem_cons_of_mem _ hmem⟩

theorem mapOne_refinesN {D1 D2 : Dev} {this h : Nat} {f : Qv.Spec.Flat}
    (st : Static D1) (t : TabOK D1) (mo : MapOK D1)
    (hv : this < D1.info.vsize)
    (hl1 : L1.isZero (D1.l1Entry this) = false)
    (hneed : needMakeMapping D1.info (D1.mapping this) = true)
    (hal : h % D1.info.clusterSize = 0) (hpos : 0 < h) (h56 : h < 2^56) (fr : Fresh D1 h)
    (m : MapOne D1 D2 this h) (hr : RefinesN D1 f) : RefinesN D2 f := by
  obtain ⟨he, hf, hmap⟩ := mapOne_entries st t hl1 hal hpos h56 m
  intro s hs
  rw [m.info] at hs
  have hlt : s * 512 < D1.info.vsize := by omega
  obtain ⟨n1, n2⟩ := mapOne_isNewAt st t hl1 hal hpos h56 fr m (s * 512) hlt
  by_cases hc : s * 512 / D1.info.clusterSize = this / D1.info.clusterSize
  · refine ⟨fun _ => ?_, fun hn => absurd (n1 hc) hn⟩
    have hmeq : D1.mapping (s * 512) = D1.mapping this := mapping_congr D1 hc
    have hnd : (D1.mapping (s * 512)).source ≠ .dataFile := by
      rw [hmeq]; exact needMake_true_nondata (mo.ent this hv) hneed
    have hnc : (D1.mapping (s * 512)).source ≠ .compressed := (mo.ent _ hlt).1
    have hnn : ¬ IsNewAt D1 (s * 512) := by
      rintro ⟨_, hs', _⟩; exact hnd hs'
    rw [← (hr s hs).2 hnn]
    exact guestSec_nondata D1 s st.noBack hnd hnc
  · rw [n2 hc, guestSec_congr m.info m.data m.back m.comp (hf _ hc)]
    exact hr s hs

theorem mapOne_newIn {D1 D2 : Dev} {this h a b : Nat}
    (st : Static D1) (t : TabOK D1)
    (hl1 : L1.isZero (D1.l1Entry this) = false)
    (hal : h % D1.info.clusterSize = 0) (hpos : 0 < h) (h56 : h < 2^56) (fr : Fresh D1 h)
    (m : MapOne D1 D2 this h)
    (ha : a % D1.info.clusterSize = 0) (hb : b % D1.info.clusterSize = 0) (hab : a ≤ this ∧ this < b)
    (hn : NewIn D1 a b) : NewIn D2 a b := by
  intro o ho hnew
  rw [m.info] at ho
  obtain ⟨_, n2⟩ := mapOne_isNewAt st t hl1 hal hpos h56 fr m o ho
  by_cases hc : o / D1.info.clusterSize = this / D1.info.clusterSize
  · exact same_cluster_lt (cs_pos D1.info) hc.symm ha hb hab
  · exact hn o ho ((n2 hc).1 hnew)

theorem mapOne_fresh {D1 D2 : Dev} {this h h' : Nat}
    (st : Static D1) (t : TabOK D1)
    (hl1 : L1.isZero (D1.l1Entry this) = false)
    (hal : h % D1.info.clusterSize = 0) (hpos : 0 < h) (h56 : h < 2^56)
    (m : MapOne D1 D2 this h)
    (hd : h + D1.info.clusterSize ≤ h' ∨ h' + D1.info.clusterSize ≤ h)
    (fr : Fresh D1 h') : Fresh D2 h' := by
  obtain ⟨he, hf, hmap⟩ := mapOne_entries st t hl1 hal hpos h56 m
  intro o ho hov hs hco
  rw [m.info] at hov ⊢
  by_cases hc : o / D1.info.clusterSize = this / D1.info.clusterSize
  · rw [hmap o hc] at hco
    have e : ho = h := by simp [plainMapping] at hco; exact hco.symm
    subst e
    exact hd
  · rw [mapping_of_l2Entry m.info (hf o hc)] at hs hco
    exact fr o ho hov hs hco

/-- entries of clusters that were plain are not touched -/
theorem mapOne_keeps {D1 D2 : Dev} {this h : Nat} (st : Static D1) (t : TabOK D1)
    (hl1 : L1.isZero (D1.l1Entry this) = false)
    (hneed : needMakeMapping D1.info (D1.mapping this) = true)
    (hal : h % D1.info.clusterSize = 0) (hpos : 0 < h) (h56 : h < 2^56)
    (m : MapOne D1 D2 this h) (o : Nat)
    (hp : needMakeMapping D1.info (D1.mapping o) = false) : D2.l2Entry o = D1.l2Entry o := by
  obtain ⟨_, hf, _⟩ := mapOne_entries st t hl1 hal hpos h56 m
  apply hf
  intro hc
  rw [mapping_congr D1 hc, hneed] at hp
  cases hp

/-! ## 4. the data write of one in-cluster piece -/

/-- `D'` differs from `D` at most in the data plane and the new-cluster list -/
def DataStep (D D' : Dev) : Prop := D' = { D with data := D'.data, newData := D'.newData }

theorem DataStep.refl (D : Dev) : DataStep D D := rfl
theorem DataStep.trans {a b c : Dev} (h1 : DataStep a b) (h2 : DataStep b c) : DataStep a c := by
  unfold DataStep at *
  rw [h2, h1]

theorem DataStep.l2Entry {D D' : Dev} (h : DataStep D D') (o : Nat) : D'.l2Entry o = D.l2Entry o := by
  rw [h]; rfl
theorem DataStep.mapping {D D' : Dev} (h : DataStep D D') (o : Nat) : D'.mapping o = D.mapping o := by
  rw [h]; rfl
theorem DataStep.info {D D' : Dev} (h : DataStep D D') : D'.info = D.info := by rw [h]
theorem DataStep.rtLen {D D' : Dev} (h : DataStep D D') : D'.rtLen = D.rtLen := by rw [h]
theorem DataStep.rc {D D' : Dev} (h : DataStep D D') : D'.rc = D.rc := by rw [h]
theorem DataStep.back {D D' : Dev} (h : DataStep D D') : D'.back = D.back := by rw [h]
theorem DataStep.l1Len {D D' : Dev} (h : DataStep D D') : D'.l1Len = D.l1Len := by rw [h]
theorem DataStep.l1Entry {D D' : Dev} (h : DataStep D D') (o : Nat) : D'.l1Entry o = D.l1Entry o := by
  rw [h]; rfl

theorem DataStep.static {D D' : Dev} (h : DataStep D D') (st : Static D) : Static D' :=
  st.transfer h.info h.back h.rtLen h.l1Len
theorem DataStep.tabOK {D D' : Dev} (h : DataStep D D') (t : TabOK D) : TabOK D' :=
  t.transfer h.info (by intro c hc; rw [h.rc]; exact hc) h.l1Entry
theorem DataStep.mapOK {D D' : Dev} (h : DataStep D D') (mo : MapOK D) : MapOK D' :=
  mo.transfer h.info (by intro c hc; rw [h.rc]; exact hc) (fun o _ => h.l2Entry o)

/-- a sector of a piece lies in the piece's cluster -/
theorem piece_sector_cluster {cs o n s : Nat} (hfit : o % cs + n * 512 ≤ cs)
    (h1 : o / 512 ≤ s) (h2 : s < o / 512 + n) (ho : o % 512 = 0) : s * 512 / cs = o / cs := by
  have e : o / cs * cs + o % cs = o := by rw [Nat.mul_comm]; exact Nat.div_add_mod o cs
  apply Nat.div_eq_of_lt_le
  · omega
  · rw [Nat.add_mul, Nat.one_mul]; omega

/-- the effect of the data write of one piece on the refinement, from a description of
    the new data plane and new-cluster list (`nw`: the cluster was still new) -/
theorem piece_refinesN {D D' : Dev} {f : Qv.Spec.Flat} {o ho : Nat} {toks : List Nat} (nw : Bool)
    (st : Static D) (mo : MapOK D)
    (ho512 : o % 512 = 0) (hfit : o % D.info.clusterSize + toks.length * 512 ≤ D.info.clusterSize)
    (hov : o < D.info.vsize)
    (hp : L2.plainOffset (D.mapping o) 0 = some ho)
    (hnw : nw = true ↔ ho / D.info.clusterSize ∈ D.newData)
    (hfr : DataStep D D')
    (hmem : ∀ c, c ∈ D'.newData ↔ (c ∈ D.newData ∧ c ≠ ho / D.info.clusterSize))
    (hdata : ∀ σ, D'.data.get σ =
      if (ho + o % D.info.clusterSize) / 512 ≤ σ ∧ σ < (ho + o % D.info.clusterSize) / 512 + toks.length
      then toks.getD (σ - (ho + o % D.info.clusterSize) / 512) 0
      else if nw = true ∧ ho / 512 ≤ σ ∧ σ < ho / 512 + D.spc then 0 else D.data.get σ)
    (hr : RefinesN D f) : RefinesN D' (f.write o toks) := by
  obtain ⟨hs, hcop, hco⟩ := plainOffset_some hp
  obtain ⟨_, hal, _⟩ := (mo.ent o hov).2 ho hs hco
  have hcs := cs_pos D.info
  have hspc := cs512 st
  have hcs512 : D.info.clusterSize % 512 = 0 := by omega
  have ho5 : ho % 512 = 0 := mod512_of_mod_cs st.cb9 hal
  intro s hsv
  rw [hfr.info] at hsv
  have hlt : s * 512 < D.info.vsize := by omega
  rw [flat_write_sec]
  have hmapeq : D'.mapping (s * 512) = D.mapping (s * 512) := hfr.mapping _
  have hrp5 : s * 512 % D.info.clusterSize % 512 = 0 := by
    rw [Nat.mod_mod_of_dvd _ (Nat.dvd_of_mod_eq_zero hcs512)]; exact Nat.mul_mod_left _ _
  have hro5 : o % D.info.clusterSize % 512 = 0 := by
    rw [Nat.mod_mod_of_dvd _ (Nat.dvd_of_mod_eq_zero hcs512)]; exact ho512
  have hrplt := Nat.mod_lt (s * 512) hcs
  have hrolt := Nat.mod_lt o hcs
  by_cases hc : s * 512 / D.info.clusterSize = o / D.info.clusterSize
  · -- inside the cluster of the piece
    have hm : D.mapping (s * 512) = D.mapping o := mapping_congr D hc
    have hnn : ¬ IsNewAt D' (s * 512) := by
      rintro ⟨h', hs', hco', hmem'⟩
      rw [hmapeq, hm, hco] at hco'
      have e : ho = h' := by injection hco'
      subst e
      rw [hfr.info] at hmem'
      exact ((hmem _).1 hmem').2 rfl
    refine ⟨fun hx => absurd hx hnn, fun _ => ?_⟩
    rw [guestSec_dataFile D' s ho (by rw [hmapeq, hm]; exact hs) (by rw [hmapeq, hm]; exact hco),
      hfr.info, hdata]
    have e1 := Nat.div_add_mod (s * 512) D.info.clusterSize
    have e2 := Nat.div_add_mod o D.info.clusterSize
    rw [hc] at e1
    generalize D.info.clusterSize * (o / D.info.clusterSize) = B at e1 e2
    generalize hrp : s * 512 % D.info.clusterSize = rp at *
    generalize hro : o % D.info.clusterSize = ro at *
    by_cases hin : o / 512 ≤ s ∧ s < o / 512 + toks.length
    · rw [if_pos hin, if_pos (by omega)]
      congr 1
      omega
    · rw [if_neg hin, if_neg (by omega)]
      by_cases hn : nw = true
      · rw [if_pos ⟨hn, by omega, by omega⟩]
        have hnew : IsNewAt D (s * 512) := ⟨ho, by rw [hm]; exact hs, by rw [hm]; exact hco, hnw.1 hn⟩
        exact ((hr s hsv).1 hnew).symm
      · rw [if_neg (fun x => hn x.1)]
        have hnn' : ¬ IsNewAt D (s * 512) := by
          rintro ⟨h', _, hco', hmem'⟩
          rw [hm, hco] at hco'
          have e : ho = h' := by injection hco'
          subst e
          exact hn (hnw.2 hmem')
        rw [← (hr s hsv).2 hnn', guestSec_dataFile D s ho (by rw [hm]; exact hs) (by rw [hm]; exact hco), hrp]
  · -- another cluster
    have hout : ¬ (o / 512 ≤ s ∧ s < o / 512 + toks.length) := by
      intro hin
      exact hc (piece_sector_cluster hfit hin.1 hin.2 ho512)
    rw [if_neg hout]
    have hnew : IsNewAt D' (s * 512) ↔ IsNewAt D (s * 512) := by
      unfold IsNewAt
      rw [hmapeq, hfr.info]
      constructor
      · rintro ⟨h', hs', hco', hmem'⟩
        exact ⟨h', hs', hco', ((hmem _).1 hmem').1⟩
      · rintro ⟨h', hs', hco', hmem'⟩
        refine ⟨h', hs', hco', (hmem _).2 ⟨hmem', ?_⟩⟩
        exact div_ne_of_disjoint hcs (mo.inj (s * 512) o h' ho hlt hov hc hs' hco' hs hco)
    rw [hnew]
    have hg : guestSec D' s = guestSec D s := by
      by_cases hsd : (D.mapping (s * 512)).source = .dataFile
      · obtain ⟨h', hco'⟩ := mapping_dataFile_offset hsd
        obtain ⟨_, hal', _⟩ := (mo.ent _ hlt).2 h' hsd hco'
        have h5' : h' % 512 = 0 := mod512_of_mod_cs st.cb9 hal'
        have hdis := mo.inj (s * 512) o h' ho hlt hov hc hsd hco' hs hco
        rw [guestSec_dataFile D' s h' (by rw [hmapeq]; exact hsd) (by rw [hmapeq]; exact hco'),
          guestSec_dataFile D s h' hsd hco', hfr.info, hdata]
        generalize hrp : s * 512 % D.info.clusterSize = rp at *
        generalize hro : o % D.info.clusterSize = ro at *
        rw [if_neg (by omega), if_neg (by omega)]
      · have hnc := (mo.ent _ hlt).1
        rw [guestSec_nondata D s st.noBack hsd hnc,
          guestSec_nondata D' s (by rw [hfr.back]; exact st.noBack) (by rw [hmapeq]; exact hsd)
            (by rw [hmapeq]; exact hnc)]
    rw [hg]
    exact hr s hsv

/-- `do_write` on a plainly mapped cluster: zero-once if the cluster is still new, then
    the payload -/
theorem doWrite_plain (D : Dev) (o ho : Nat) (toks : List Nat)
    (hp : L2.plainOffset (D.mapping o) 0 = some ho) :
    doWrite (D.l2Entry o) o toks D =
      (if D.newData.contains (ho / D.info.clusterSize) then zeroedWrite D o ho toks
       else afterWrite D o ho toks, .ok ()) := by
  by_cases hnew : D.newData.contains (ho / D.info.clusterSize) = true
  · rw [if_pos hnew]
    obtain ⟨hs, _, hco⟩ := plainOffset_some hp
    have hm : L2.intoMapping D.info.cb D.info.hasBack
        (Split.clusterOffset D.info (D.info.clusterRoundDown o)) (D.l2Entry o) = D.mapping o := rfl
    unfold doWrite
    dsimp only
    rw [hm, hs]
    dsimp only
    unfold doWriteDataFile
    rw [hco]
    dsimp only
    rw [if_pos hnew]
    rfl
  · rw [if_neg hnew]
    exact doWrite_inplace D o toks ho hp (by simpa using hnew)

/-- **one piece.**  The write of `toks` at `o` (inside one cluster, plainly mapped) on a
    well-formed state succeeds, changes only the data plane and the new-cluster list, removes
    the cluster from the new-cluster list, and the device then shows the flat disk with
    the piece written. -/
theorem doWrite_piece {D : Dev} {f : Qv.Spec.Flat} {o ho : Nat} {toks : List Nat}
    (st : Static D) (mo : MapOK D)
    (ho512 : o % 512 = 0) (hfit : o % D.info.clusterSize + toks.length * 512 ≤ D.info.clusterSize)
    (hov : o < D.info.vsize)
    (hp : L2.plainOffset (D.mapping o) 0 = some ho)
    (hr : RefinesN D f) :
    ∃ D', doWrite (D.l2Entry o) o toks D = (D', .ok ()) ∧ DataStep D D' ∧
      (∀ c, c ∈ D'.newData ↔ (c ∈ D.newData ∧ c ≠ ho / D.info.clusterSize)) ∧
      RefinesN D' (f.write o toks) := by
  rw [doWrite_plain D o ho toks hp]
  by_cases hnew : D.newData.contains (ho / D.info.clusterSize) = true
  · rw [if_pos hnew]
    have hfr : DataStep D (zeroedWrite D o ho toks) := rfl
    have hmem : ∀ c, c ∈ (zeroedWrite D o ho toks).newData ↔ (c ∈ D.newData ∧ c ≠ ho / D.info.clusterSize) := by
      intro c
      show c ∈ D.newData.filter (· ≠ ho / D.info.clusterSize) ↔ _
      simp [List.mem_filter]
    refine ⟨_, rfl, hfr, hmem, ?_⟩
    apply piece_refinesN true st mo ho512 hfit hov hp (by simpa using hnew) hfr hmem _ hr
    intro σ
    show ((D.data.setRange (ho / 512) D.spc (fun _ => 0)).setRange
      ((ho + o % D.info.clusterSize) / 512) toks.length (fun k => toks.getD k 0)).get σ = _
    rw [FMap.setRange_get, FMap.setRange_get]
    simp
  · rw [if_neg hnew]
    have hfr : DataStep D (afterWrite D o ho toks) := rfl
    have hnm : ho / D.info.clusterSize ∉ D.newData := by simpa using hnew
    have hmem : ∀ c, c ∈ (afterWrite D o ho toks).newData ↔ (c ∈ D.newData ∧ c ≠ ho / D.info.clusterSize) := by
      intro c
      show c ∈ D.newData ↔ _
      constructor
      · intro hc; exact ⟨hc, fun e => hnm (e ▸ hc)⟩
      · exact fun hc => hc.1
    refine ⟨_, rfl, hfr, hmem, ?_⟩
    apply piece_refinesN false st mo ho512 hfit hov hp (by simpa using hnew) hfr hmem _ hr
    intro σ
    show (D.data.setRange ((ho + o % D.info.clusterSize) / 512) toks.length (fun k => toks.getD k 0)).get σ = _
    rw [FMap.setRange_get]
    simp

/-! ## 5. `populate_single_write_mapping` -/

theorem allocAndMap_eq (off : Nat) (d : Dev) : allocAndMap off d =
    match allocateClusters 1 d with
    | (d1, .ok (some (h, _))) =>
      (({ d1 with newData := (h / d1.info.clusterSize) :: d1.newData } : Dev).setL2 off (L2.mapClusterEntry h), .ok ())
    | (d1, .ok none) => (d1, .err .nospace)
    | (d1, .err e) => (d1, .err e)
    | (d1, .panic p) => (d1, .panic p) := by
  unfold allocAndMap
  simp only [bind, M.bind]
  generalize allocateClusters 1 d = r
  obtain ⟨d1, ((_ | ⟨h, n⟩) | e | p)⟩ := r <;> rfl

theorem makeSingle_eq (off : Nat) (d : Dev) : makeSingleWriteMapping off d =
    match ensureL2 off d with
    | (dA, .ok ()) =>
      if (L2.plainOffset (dA.mapping off) 0).isNone then
        match allocAndMap off dA with
        | (dB, .ok ()) => ({ dB with needFlush := true }, .ok (({ dB with needFlush := true } : Dev).l2Entry off))
        | (dB, .err e) => (dB, .err e)
        | (dB, .panic p) => (dB, .panic p)
      else (dA, .ok (dA.l2Entry off))
    | (dA, .err e) => (dA, .err e)
    | (dA, .panic p) => (dA, .panic p) := by
  unfold makeSingleWriteMapping
  simp only [bind, M.bind]
  generalize ensureL2 off d = r
  obtain ⟨dA, (_ | e | p)⟩ := r
  · simp only [M.get]
    split
    · unfold M.bind
      generalize allocAndMap off dA = r2
      obtain ⟨dB, (_ | e | p)⟩ := r2 <;> rfl
    · rfl
  · rfl
  · rfl

theorem populateSingle_eq (off : Nat) (d : Dev) : populateSingle off d =
    if needMakeMapping d.info (d.mapping off) then makeSingleWriteMapping off d
    else (d, .ok (d.l2Entry off)) := by
  unfold populateSingle
  simp only [bind, M.bind, M.get]
  split <;> rfl

/-- the invariant of the mapping phase of a write: `f` is the flat disk before the
    write, `[a, b)` the cluster-aligned guest range the write may map -/
structure MInv (f : Qv.Spec.Flat) (a b : Nat) (D : Dev) : Prop where
  st : Static D
  tab : TabOK D
  map : MapOK D
  ref : RefinesN D f
  new : NewIn D a b

theorem ViewStep.mInv {d d' : Dev} {f : Qv.Spec.Flat} {a b : Nat} (v : ViewStep d d') (t : TabOK d')
    (i : MInv f a b d) : MInv f a b d' :=
  ⟨v.static i.st, t, v.mapOK i.map, v.refinesN i.ref, v.newIn i.new⟩

/-- `alloc_and_map_cluster` (+ the `needFlush` update that follows it) on a cluster that
    needs a mapping and whose L2 table exists -/
theorem allocAndMap_step {dA dB : Dev} {f : Qv.Spec.Flat} {a b off : Nat} (i : MInv f a b dA)
    (hov : off < dA.info.vsize)
    (ha : a % dA.info.clusterSize = 0) (hb : b % dA.info.clusterSize = 0) (hab : a ≤ off ∧ off < b)
    (hl1 : L1.isZero (dA.l1Entry off) = false)
    (hneed : needMakeMapping dA.info (dA.mapping off) = true)
    (h : allocAndMap off dA = (dB, .ok ())) (hng : dB.rtLen = dA.rtLen) :
    MInv f a b { dB with needFlush := true } ∧ dB.info = dA.info ∧
    (∃ ho, L2.plainOffset (({ dB with needFlush := true } : Dev).mapping off) 0 = some ho) := by
  rw [allocAndMap_eq] at h
  generalize hal : allocateClusters 1 dA = ra at h
  obtain ⟨d1, ((_ | ⟨h0, n⟩) | e | p)⟩ := ra
  · simp at h
  · dsimp only at h
    simp only [Prod.mk.injEq, and_true] at h
    have hng1 : d1.rtLen = dA.rtLen := by rw [← hng, ← h]; rfl
    have hcs := cs_pos dA.info
    obtain ⟨fr, hrc, hal', n1, n2, hpos, h56, hrun⟩ :=
      alloc_step i.st i.map hal hng1
    have v1 := AllocFrame.viewStep fr hrc
    have t1 : TabOK d1 := i.tab.transfer v1.info v1.rcpos (AllocFrame.l1Entry fr)
    have i1 := v1.mInv t1 i
    obtain ⟨r0, r1⟩ := hrun (h0 / dA.info.clusterSize) (Nat.le_refl _) (by omega)
    have fr1 : Fresh d1 h0 := v1.fresh (fresh_of_rc_zero i.map hal' r0)
    have hlt56 : h0 < 2^56 := by
      have := Nat.mul_pos (show 0 < n from n1) hcs; omega
    have hl11 : L1.isZero (d1.l1Entry off) = false := by rw [AllocFrame.l1Entry fr]; exact hl1
    have hneed1 : needMakeMapping d1.info (d1.mapping off) = true := by
      rw [v1.info, v1.mapping]; exact hneed
    have m : MapOne d1 { dB with needFlush := true } off h0 := by
      rw [← h]
      exact ⟨rfl, rfl, rfl, rfl, rfl, rfl, rfl, rfl, rfl, rfl⟩
    rw [← v1.info] at hal' hov ha hb
    obtain ⟨s2, t2, m2⟩ := mapOne_inv i1.st i1.tab i1.map hl11 hal' hpos hlt56
      (by rw [v1.info, r1]; exact Nat.le_refl _) fr1 m
    refine ⟨⟨s2, t2, m2, ?_, ?_⟩, ?_, ?_⟩
    · exact mapOne_refinesN i1.st i1.tab i1.map hov hl11 hneed1 hal' hpos hlt56 fr1 m i1.ref
    · exact mapOne_newIn i1.st i1.tab hl11 hal' hpos hlt56 fr1 m ha hb hab i1.new
    · rw [← h]; exact v1.info
    · obtain ⟨_, _, hmap⟩ := mapOne_entries i1.st i1.tab hl11 hal' hpos hlt56 m
      exact ⟨h0, by rw [hmap off rfl]; rfl⟩
  · simp at h
  · simp at h

theorem allocAndMap_rtLen (off : Nat) (d : Dev) : d.rtLen ≤ (allocAndMap off d).1.rtLen := by
  rw [allocAndMap_eq]
  generalize hra : allocateClusters 1 d = ra
  obtain ⟨d1, ra⟩ := ra
  have hm := (Qv.Props.C01Model.allocateClusters_frame 1 d d1 ra hra).1.2.2.2.2.2.2.2.2.2.1
  obtain ((_ | ⟨l2off, n⟩) | e | p) := ra
  all_goals exact hm

/-- **mapping phase of the single-cluster path.**  A successful
    `populate_single_write_mapping` that does not grow the reftable keeps the invariant,
    returns the current entry, and the cluster is plainly mapped afterwards. -/
theorem populateSingle_step {d d1 : Dev} {f : Qv.Spec.Flat} {a b off : Nat} {e : E64} (i : MInv f a b d)
    (hov : off < d.info.vsize)
    (ha : a % d.info.clusterSize = 0) (hb : b % d.info.clusterSize = 0) (hab : a ≤ off ∧ off < b)
    (h : populateSingle off d = (d1, .ok e)) (hng : d1.rtLen = d.rtLen) :
    MInv f a b d1 ∧ d1.info = d.info ∧ e = d1.l2Entry off ∧
    (∃ ho, L2.plainOffset (d1.mapping off) 0 = some ho) := by
  rw [populateSingle_eq] at h
  by_cases hneed : needMakeMapping d.info (d.mapping off) = true
  · rw [if_pos hneed, makeSingle_eq] at h
    have hmono := ensureL2_rtLen off d
    generalize hen : ensureL2 off d = r at h hmono
    obtain ⟨dA, (_ | e' | p)⟩ := r
    · dsimp only at h hmono
      by_cases hpl : (L2.plainOffset (dA.mapping off) 0).isNone = true
      · rw [if_pos hpl] at h
        have hmono2 := allocAndMap_rtLen off dA
        generalize hamap : allocAndMap off dA = r2 at h hmono2
        obtain ⟨dB, (_ | e' | p)⟩ := r2
        · dsimp only at h hmono2
          simp only [Prod.mk.injEq, Outcome.ok.injEq] at h
          obtain ⟨h1, h2⟩ := h
          have hB : dB.rtLen = d1.rtLen := by rw [← h1]
          obtain ⟨vA, tA, hl1A⟩ := ensureL2_step i.st i.tab i.map hov hen (by omega)
          have iA := vA.mInv tA i
          rw [← vA.info] at hov ha hb
          obtain ⟨iB, hiB, hpB⟩ := allocAndMap_step iA hov ha hb hab hl1A
            (by rw [vA.info, vA.mapping]; exact hneed) hamap (by rw [vA.rtLen]; omega)
          rw [h1] at iB hpB
          refine ⟨iB, ?_, ?_, hpB⟩
          · rw [← h1]; exact hiB.trans vA.info
          · rw [← h2, h1]
        · simp at h
        · simp at h
      · rw [if_neg hpl] at h
        simp only [Prod.mk.injEq, Outcome.ok.injEq] at h
        obtain ⟨h1, h2⟩ := h
        subst h1
        obtain ⟨vA, tA, _⟩ := ensureL2_step i.st i.tab i.map hov hen hng
        have hx := needMake_plain_none hneed
        rw [← vA.mapping] at hx
        exact absurd hx hpl
    · simp at h
    · simp at h
  · rw [if_neg hneed] at h
    simp only [Prod.mk.injEq, Outcome.ok.injEq] at h
    obtain ⟨h1, h2⟩ := h
    subst h1
    exact ⟨i, rfl, h2.symm, needMake_false_plain i.st.noBackName (i.map.ent off hov) (by simpa using hneed)⟩

end Qv.Model.RW
