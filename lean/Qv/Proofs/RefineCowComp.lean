import Qv.Proofs.RefineCow
import Qv.Proofs.AcctCow
/-
Helper lemmas for `Qv/Props/C10Refine.lean`: the refinement of a copy-on-write from a
COMPRESSED cluster (`do_write_cow` with a compressed source, single-cluster request).

The model keeps the plaintext of a compressed cluster in `Dev.comp`, keyed by the HOST BYTE
OFFSET of the compressed data (the `clusterOffset` of the compressed mapping, which is not
cluster aligned), then by sector index.  `guestSec` of a sector of a compressed cluster is
`(d.comp.get byteOffset).get k` (`guestSec_compressed` below).  No operation of the model
changes `comp` (`SameBack`, C10), and `do_write_cow` only decrements the refcounts of the
host clusters the compressed data occupied — it does not touch the data plane there.  So
two compressed guest clusters that share a host cluster (different byte offsets inside it:
different keys of `comp`) do not interfere: after the COW of one, the other still reads
its plaintext, and the shared host cluster keeps a refcount ≥ 1 (`WInv`).

1. `guestSec_compressed`: the guest view of a compressed cluster;
2. `WFC`: well-formedness of a device that may hold compressed clusters (with or without a
   backing image — nothing is assumed on `d.back` / `has_back_file`);
3. `doWriteCow_compressed_state`: the state after `do_write_cow` from the compressed source;
4. `cowc_refines`, `cowc_wfc`: refinement and well-formedness from the state description.
-/
namespace Qv.Proofs.RefineCowComp
open Qv Qv.Codec Qv.Model
open Qv.Props.C15 (Geom)
open Qv.Props.C11 (L1Distinct)
open Qv.Proofs.RefineDiscard
open Qv.Proofs.RefineCow
open Qv.Spec (Flat)

/-! ## 1. the guest view of a compressed cluster -/

/-- a sector of a compressed cluster shows the plaintext the model keeps for the compressed
    data at host byte offset `co`: sector `s mod spc` of `d.comp[co]` -/
theorem guestSec_compressed (d : Dev) (s : Nat) (hs : (d.mapping (s * 512)).source = .compressed) :
    guestSec d s =
      if s * 512 % d.info.clusterSize / 512 < d.spc then
        (d.comp.get ((d.mapping (s * 512)).clusterOffset.getD 0)).get (s * 512 % d.info.clusterSize / 512)
      else 0 := by
  unfold guestSec doRead
  dsimp only
  rw [doRead_mapping, hs]
  dsimp only
  rw [List.take_one]
  generalize hl : List.drop (d.info.inClusterOffset (s * 512) / 512) (compressedPlain d (d.mapping (s * 512))) = l
  have : l.head?.toList.getD 0 0 = l.getD 0 0 := by
    cases l <;> rfl
  rw [this, ← hl, List.getD_eq_getElem?_getD, List.getElem?_drop, ← List.getD_eq_getElem?_getD,
    Nat.add_zero, getD_compressedPlain]
  rfl

/-! ## 2. well-formedness with compressed clusters -/

/-- a device that may hold compressed clusters (and may or may not have a backing image):
    * `winv`: the accounting invariant of C03Write — geometry (`Shape`), every host cluster's
      refcount is its number of references (`Acct`: a host cluster that holds compressed data
      of `n` guest clusters, or a data cluster, or a table, is counted), refcounts exist only
      where refblocks do;
    * the block size is at least a sector;
    * `ent`: data-file entries inside the virtual disk are COPIED and their hosts cluster
      aligned (nothing is asked of compressed, zero, unallocated or backing entries);
    * `inj`: distinct guest clusters map to distinct data-file host clusters;
    * `new`: no mapped cluster is still in the new-cluster list. -/
structure WFC (d : Dev) : Prop where
  winv : WInv d
  bsb9 : 9 ≤ d.info.bsb
  ent : ∀ o, o < d.info.vsize → ∀ h, (d.mapping o).source = .dataFile →
    (d.mapping o).clusterOffset = some h → (d.mapping o).copied = true ∧ h % d.info.clusterSize = 0
  inj : MapInj d
  new : RW.NewOK d

/-- a well-formed device with a backing image (`WFB`: no compressed cluster) is `WFC` -/
theorem WFB.wfc {d : Dev} {b : Back} (wf : WFB d b) : WFC d :=
  ⟨wf.winv, wf.bsb9, fun o ho => (wf.ent o ho).2, wf.inj, wf.new⟩

/-! ## 3. the state after a COW from a compressed cluster -/

/-- the state `d'` after a successful single-cluster write of `toks` at `off` that moved the
    guest cluster to the fresh host cluster `x`; `base k` is the content the rest of the
    cluster gets at sector `k` (the plaintext for a COW from a compressed cluster, zeros for
    a zero-flagged cluster) -/
structure CowStateG (d d' : Dev) (off x : Nat) (toks : List Nat) (base : Nat → Nat) : Prop where
  aligned : x % d.info.clusterSize = 0
  pos : 0 < x
  lt56 : x < 2^56
  info : d'.info = d.info
  back : d'.back = d.back
  comp : d'.comp = d.comp
  version : d'.version = d.version
  /-- the guest cluster of `off` is mapped (COPIED, data file) to `x` -/
  mapped : ∀ o, o / d.info.clusterSize = off / d.info.clusterSize → d'.mapping o = RW.plainMapping x
  /-- no other entry changes -/
  other : ∀ o, o / d.info.clusterSize ≠ off / d.info.clusterSize → d'.l2Entry o = d.l2Entry o
  /-- `x` was not a data cluster -/
  fresh : ∀ o h', o < d.info.vsize → (d.mapping o).source = .dataFile →
    (d.mapping o).clusterOffset = some h' → h' / d.info.clusterSize ≠ x / d.info.clusterSize
  /-- the new cluster holds the request laid over `base` -/
  dataIn : ∀ k, k < d.spc → d'.data.get (x / 512 + k) =
    if off % d.info.clusterSize / 512 ≤ k ∧ k < off % d.info.clusterSize / 512 + toks.length
    then toks.getD (k - off % d.info.clusterSize / 512) 0
    else base k
  dataOut : ∀ j, j < x / 512 ∨ x / 512 + d.spc ≤ j → d'.data.get j = d.data.get j
  newData : ∀ c, c ∈ d'.newData → c ∈ d.newData ∧ c ≠ x / d.info.clusterSize

/-- COW from a compressed cluster: `base` is the plaintext `d.comp[byte offset]` -/
abbrev compBase (d : Dev) (off : Nat) : Nat → Nat :=
  fun k => (d.comp.get ((d.mapping off).clusterOffset.getD 0)).get k

theorem l1_nonzero_of_compressed {d : Dev} {off : Nat} (hc : L2.isCompressed (d.l2Entry off) = true) :
    L1.isZero (d.l1Entry off) = false := by
  cases hz : L1.isZero (d.l1Entry off) with
  | false => rfl
  | true =>
    rw [l2Entry_of_l1_zero d off hz] at hc
    exact absurd hc (by decide)

theorem doWriteCow_compressed_state {d d' : Dev} {off : Nat} {toks : List Nat}
    (wf : WFC d) (hsrc : (d.mapping off).source = .compressed)
    (h : doWriteCow off (d.mapping off) toks d = (d', .ok ())) (hng : d'.rtLen = d.rtLen) :
    ∃ x, CowStateG d d' off x toks (compBase d off) := by
  have w := wf.winv
  have hcs := cs_pos d.info
  have hc : L2.isCompressed (d.l2Entry off) = true := (source_compressed_iff _ _ _ _).1 hsrc
  have hl1 : L1.isZero (d.l1Entry off) = false := l1_nonzero_of_compressed hc
  obtain ⟨co, cl, _, hmap, _⟩ := compressed_entry d.info.cb d.info.hasBack
    (Split.clusterOffset d.info (d.info.clusterRoundDown off)) (d.l2Entry off) hc
  have hmap' : d.mapping off =
      { source := .compressed, clusterOffset := some co, compressedLength := some cl, copied := false } := hmap
  rw [doWriteCow_eq_compressed off _ toks d hsrc, if_pos (Or.inl hsrc)] at h
  have hmB := RW.allocAndMap_rtLen off d
  generalize ham : allocAndMap off d = rB at h hmB
  obtain ⟨dB, (_ | e | p)⟩ := rB
  · dsimp only at h hmB
    have hfr3 := (doWriteDataFile_mframe off (({ dB with needFlush := true } : Dev).mapping off)
      (some (d.mapping off)) toks { dB with needFlush := true }).1
    generalize h3 : doWriteDataFile off (({ dB with needFlush := true } : Dev).mapping off)
      (some (d.mapping off)) toks { dB with needFlush := true } = r3 at h hfr3
    obtain ⟨d3, (_ | e | p)⟩ := r3
    · dsimp only at h hfr3
      have hco : (d.mapping off).clusterOffset = some co := by rw [hmap']
      have hcl : (d.mapping off).compressedLength = some cl := by rw [hmap']
      rw [hco, hcl] at h
      dsimp only at h
      have hf4 : RcFrame d3 d' := freeClusters_rcFrame h
      have e4 : d'.info = d3.info ∧ d'.data = d3.data ∧ d'.newData = d3.newData ∧ d'.back = d3.back ∧
          d'.comp = d3.comp ∧ d'.version = d3.version ∧ d'.rtLen = d3.rtLen ∧
          (∀ o, d'.l2Entry o = d3.l2Entry o) := by
        obtain ⟨_, _, _, rfl⟩ := hf4
        exact ⟨rfl, rfl, rfl, rfl, rfl, rfl, rfl, fun _ => rfl⟩
      obtain ⟨e4i, e4d, e4n, e4b, e4c, e4v, e4r, e4l⟩ := e4
      have hrt3 : d3.rtLen = dB.rtLen := hfr3.rtLen
      have hrtB : dB.rtLen = d.rtLen := by omega
      rw [RW.allocAndMap_eq] at ham
      generalize hal : allocateClusters 1 d = ra at ham
      obtain ⟨dC, ((_ | ⟨x, n⟩) | e | p)⟩ := ra
      · simp at ham
      · dsimp only at ham
        simp only [Prod.mk.injEq, and_true] at ham
        subst ham
        have hrtC : dC.rtLen = d.rtLen := hrtB
        obtain ⟨fr, hal', n1, hpos, h56, hrun⟩ := alloc_stepW w hal hrtC
        obtain ⟨c1, c2, c3, c4, _⟩ := alloc_view hal
        have hfrC : dC.data = d.data ∧ dC.newData = d.newData ∧ dC.back = d.back ∧ dC.comp = d.comp := by
          obtain ⟨_, _, _, _, rfl⟩ := fr; exact ⟨rfl, rfl, rfl, rfl⟩
        have hverC : dC.version = d.version := by
          obtain ⟨_, _, _, _, rfl⟩ := fr; rfl
        obtain ⟨r0, _⟩ := hrun (x / d.info.clusterSize) (Nat.le_refl _) (by omega)
        have hx56 : x < 2^56 := by
          have := Nat.mul_pos (show 0 < n from n1) hcs; omega
        have hx512 : x % 512 = 0 := mod512_of_mod_cs w.shape.cb9 hal'
        -- the state the data write starts from
        generalize hD2 : ({ RW.mappedAt dC off x with needFlush := true } : Dev) = D2
        have hw2 : doWriteDataFile off (D2.mapping off) (some (d.mapping off)) toks D2 = (d3, .ok ()) := by
          rw [← hD2]; exact h3
        have e_info : D2.info = dC.info := by rw [← hD2]; rfl
        have e_l1 : D2.l1 = dC.l1 := by rw [← hD2]; rfl
        have e_l1Len : D2.l1Len = dC.l1Len := by rw [← hD2]; rfl
        have e_l2 : D2.l2 = (dC.setL2 off (L2.mapClusterEntry x)).l2 := by rw [← hD2]; rfl
        have e_data : D2.data = dC.data := by rw [← hD2]; rfl
        have e_back : D2.back = dC.back := by rw [← hD2]; rfl
        have e_comp : D2.comp = dC.comp := by rw [← hD2]; rfl
        have e_ver : D2.version = dC.version := by rw [← hD2]; rfl
        have e_new : D2.newData = (x / dC.info.clusterSize) :: dC.newData := by rw [← hD2]; rfl
        have hiC : dC.info = d.info := c1
        have hi2 : D2.info = d.info := e_info.trans hiC
        have hdistC : L1Distinct dC := l1Distinct_congr c1 c2 c3 w.shape.l1d
        have hl1C : L1.isZero (dC.l1Entry off) = false := by
          rw [RW.l1Entry_congr_fields c1 c2 c3]; exact hl1
        obtain ⟨he2, hf2⟩ := l2Entry_setL2_distinct hdistC hl1C e_info e_l1 e_l1Len e_l2
        have hmap2 : ∀ o, o / d.info.clusterSize = off / d.info.clusterSize →
            D2.mapping o = RW.plainMapping x := by
          intro o ho
          have : D2.l2Entry o = L2.mapClusterEntry x := by
            rw [← he2]
            apply l2Entry_congr
            rw [hi2]; exact ho
          unfold Dev.mapping
          rw [this]
          exact L2.mapClusterEntry_intoMapping _ _ _ x hx512 hpos hx56
        have hnew2 : D2.newData.contains (x / D2.cs) = true := by
          have : D2.cs = dC.info.clusterSize := by unfold Dev.cs; rw [e_info]
          rw [this, e_new]
          simp
        obtain ⟨m1, m2, m3, m4, _⟩ := Qv.Props.C10.cow_merge D2 off x (D2.mapping off) (d.mapping off) toks
          (by rw [hmap2 off rfl]; rfl) hnew2 (Or.inl hsrc)
        rw [hw2] at m1 m2 m3 m4
        dsimp only at m1 m2 m3 m4
        have hds : RW.DataStep D2 d3 := m4
        have hspc2 : D2.spc = d.spc := by unfold Dev.spc; rw [hi2]
        have hin2 : D2.info.inClusterOffset off = off % d.info.clusterSize := by
          unfold Info.inClusterOffset; rw [hi2]
        have hc2 : D2.comp = d.comp := by rw [e_comp, hfrC.2.2.2]
        have hbase : ∀ k, k < d.spc → (cowBase D2 off (d.mapping off)).getD k 0 =
            (d.comp.get ((d.mapping off).clusterOffset.getD 0)).get k := by
          intro k hk
          unfold cowBase
          rw [if_pos hsrc, getD_compressedPlain, hspc2, if_pos hk, hc2]
        rw [hspc2, hin2] at m1
        rw [hspc2] at m2
        refine ⟨x, ⟨hal', hpos, hx56, e4i.trans (hds.info.trans hi2), ?_, ?_, ?_, ?_, ?_, ?_, ?_, ?_, ?_⟩⟩
        · rw [e4b, hds.back, e_back, hfrC.2.2.1]
        · have : d3.comp = D2.comp := by rw [m4]
          rw [e4c, this, hc2]
        · have : d3.version = D2.version := by rw [m4]
          rw [e4v, this, e_ver, hverC]
        · intro o ho
          have : d'.mapping o = d3.mapping o := RW.mapping_of_l2Entry e4i (e4l o)
          rw [this, hds.mapping]; exact hmap2 o ho
        · intro o ho
          rw [e4l, hds.l2Entry, hf2 o (RW.index_ne_of_cluster_ne dC.info (by rw [hiC]; exact ho)),
            RW.l2Entry_congr_fields c1 c2 c3 c4]
        · intro o h' ho hs hco'
          have := winv_datarc w (o := o) (h := h') ho hs hco'
          intro e
          rw [e, r0] at this
          omega
        · intro k hk
          rw [e4d, m1 k hk]
          split
          · rfl
          · exact hbase k hk
        · intro j hj
          rw [e4d, m2 j hj, e_data, hfrC.1]
        · intro c hc
          rw [e4n, m3, List.mem_filter, e_new] at hc
          obtain ⟨hc1, hc2'⟩ := hc
          have hne : c ≠ x / d.info.clusterSize := by
            have : D2.cs = d.info.clusterSize := by unfold Dev.cs; rw [hi2]
            rw [this] at hc2'
            simpa using hc2'
          refine ⟨?_, hne⟩
          rcases List.mem_cons.1 hc1 with e | e
          · rw [hiC] at e; exact absurd e hne
          · rw [hfrC.2.1] at e; exact e
      · simp at ham
      · simp at ham
    · simp at h
    · simp at h
  · simp at h
  · simp at h

/-! ## 4. refinement and well-formedness from the state description -/

/-- the device after the COW shows the flat disk with the request written: inside the
    cluster the request over the decompressed content, every other cluster as before -/
theorem cowg_refines {d d' : Dev} {f : Flat} {off x : Nat} {toks : List Nat} {base : Nat → Nat}
    (wf : WFC d) (hr : Refines d f) (st : CowStateG d d' off x toks base) (ho512 : off % 512 = 0)
    (hfit : off % d.info.clusterSize + toks.length * 512 ≤ d.info.clusterSize)
    (hbase : ∀ s, (s + 1) * 512 ≤ d.info.vsize → s * 512 / d.info.clusterSize = off / d.info.clusterSize →
      guestSec d s = base (s * 512 % d.info.clusterSize / 512)) :
    Refines d' (f.write off toks) := by
  have w := wf.winv
  have hcs := cs_pos d.info
  have hspc := cs512W w
  have hcs512 : d.info.clusterSize % 512 = 0 := by omega
  have hx512 : x % 512 = 0 := mod512_of_mod_cs w.shape.cb9 st.aligned
  intro s hsv
  rw [st.info] at hsv
  have hlt : s * 512 < d.info.vsize := by omega
  rw [flat_write_sec]
  have hrp5 : s * 512 % d.info.clusterSize % 512 = 0 := by
    rw [Nat.mod_mod_of_dvd _ (Nat.dvd_of_mod_eq_zero hcs512)]; exact Nat.mul_mod_left _ _
  have hro5 : off % d.info.clusterSize % 512 = 0 := by
    rw [Nat.mod_mod_of_dvd _ (Nat.dvd_of_mod_eq_zero hcs512)]; exact ho512
  have hrplt := Nat.mod_lt (s * 512) hcs
  have hrolt := Nat.mod_lt off hcs
  by_cases hc : s * 512 / d.info.clusterSize = off / d.info.clusterSize
  · -- inside the cluster of the request
    have hm := st.mapped (s * 512) hc
    rw [guestSec_dataFile d' s x (by rw [hm]; rfl) (by rw [hm]; rfl), st.info]
    have e1 := Nat.div_add_mod (s * 512) d.info.clusterSize
    have e2 := Nat.div_add_mod off d.info.clusterSize
    rw [hc] at e1
    have hold : f.sec.get s = base (s * 512 % d.info.clusterSize / 512) := by
      rw [← hr s hsv]; exact hbase s hsv hc
    generalize d.info.clusterSize * (off / d.info.clusterSize) = B at e1 e2
    generalize hrp : s * 512 % d.info.clusterSize = rp at *
    generalize hro : off % d.info.clusterSize = ro at *
    have hk : (x + rp) / 512 = x / 512 + rp / 512 := by omega
    rw [hk, st.dataIn (rp / 512) (by omega), hro]
    by_cases hin : off / 512 ≤ s ∧ s < off / 512 + toks.length
    · rw [if_pos hin, if_pos (by omega)]
      congr 1
      omega
    · rw [if_neg hin, if_neg (by omega), hold]
  · -- another cluster
    have hout : ¬ (off / 512 ≤ s ∧ s < off / 512 + toks.length) := by
      intro hin
      exact hc (RW.piece_sector_cluster hfit hin.1 hin.2 ho512)
    rw [if_neg hout, ← hr s hsv]
    have he := st.other _ hc
    have hm : d'.mapping (s * 512) = d.mapping (s * 512) := RW.mapping_of_l2Entry st.info he
    by_cases hsd : (d.mapping (s * 512)).source = .dataFile
    · obtain ⟨h', hco'⟩ := RW.mapping_dataFile_offset hsd
      have hal' := (wf.ent _ hlt h' hsd hco').2
      have h5' : h' % 512 = 0 := mod512_of_mod_cs w.shape.cb9 hal'
      have hne := st.fresh _ h' hlt hsd hco'
      rw [guestSec_dataFile d' s h' (by rw [hm]; exact hsd) (by rw [hm]; exact hco'),
        guestSec_dataFile d s h' hsd hco', st.info]
      apply st.dataOut
      have hdis := aligned_disjoint hal' st.aligned hne
      generalize s * 512 % d.info.clusterSize = rp at *
      omega
    · -- a read-only source: zeros, the backing image, or ANOTHER compressed cluster (its
      -- plaintext is in `comp`, which is unchanged, whether or not it shares a host cluster
      -- with the released compressed data)
      unfold guestSec
      rw [he]
      rw [Qv.Props.C10.doRead_readonly_source_stable d d' ⟨st.back, st.comp, st.info, st.version⟩ _ _ _
        (by rw [doRead_mapping]; exact hsd)]

/-- COW from a compressed cluster: the rest of the cluster keeps the decompressed content -/
theorem cowc_refines {d d' : Dev} {f : Flat} {off x : Nat} {toks : List Nat}
    (wf : WFC d) (hr : Refines d f) (st : CowStateG d d' off x toks (compBase d off)) (ho512 : off % 512 = 0)
    (hfit : off % d.info.clusterSize + toks.length * 512 ≤ d.info.clusterSize)
    (hsrc : (d.mapping off).source = .compressed) :
    Refines d' (f.write off toks) := by
  apply cowg_refines wf hr st ho512 hfit
  intro s _ hc
  have hcs := cs_pos d.info
  have hspc := cs512W wf.winv
  have hlt := Nat.mod_lt (s * 512) hcs
  have hmc : d.mapping (s * 512) = d.mapping off := mapping_congr d hc
  rw [guestSec_compressed d s (by rw [hmc]; exact hsrc), if_pos (by omega), hmc]

/-- the device after the COW is well-formed again (given the accounting invariant, which
    `writeAt_single_compressed_winv` of AcctCow provides) -/
theorem cowc_wfc {d d' : Dev} {off x : Nat} {toks : List Nat} {base : Nat → Nat}
    (wf : WFC d) (st : CowStateG d d' off x toks base) (w' : WInv d') : WFC d' := by
  refine ⟨w', by rw [st.info]; exact wf.bsb9, ?_, ?_, ?_⟩
  · intro o ho
    rw [st.info] at ho ⊢
    by_cases hc : o / d.info.clusterSize = off / d.info.clusterSize
    · rw [st.mapped o hc]
      intro h _ hco
      have : h = x := by simp [RW.plainMapping] at hco; exact hco.symm
      rw [this]; exact ⟨rfl, st.aligned⟩
    · rw [RW.mapping_of_l2Entry st.info (st.other o hc)]
      exact wf.ent o ho
  · intro p q hp hq hpv hqv hne sp cp sq cq
    rw [st.info] at hpv hqv hne ⊢
    by_cases hcp : p / d.info.clusterSize = off / d.info.clusterSize
    · have hcq : ¬ q / d.info.clusterSize = off / d.info.clusterSize := fun e => hne (hcp.trans e.symm)
      rw [st.mapped p hcp] at cp
      have e : hp = x := by simp [RW.plainMapping] at cp; exact cp.symm
      subst e
      rw [RW.mapping_of_l2Entry st.info (st.other q hcq)] at sq cq
      have hal := (wf.ent q hqv hq sq cq).2
      exact (aligned_disjoint hal st.aligned (st.fresh q hq hqv sq cq)).symm
    · rw [RW.mapping_of_l2Entry st.info (st.other p hcp)] at sp cp
      by_cases hcq : q / d.info.clusterSize = off / d.info.clusterSize
      · rw [st.mapped q hcq] at cq
        have e : hq = x := by simp [RW.plainMapping] at cq; exact cq.symm
        subst e
        have hal := (wf.ent p hpv hp sp cp).2
        exact aligned_disjoint hal st.aligned (st.fresh p hp hpv sp cp)
      · rw [RW.mapping_of_l2Entry st.info (st.other q hcq)] at sq cq
        exact wf.inj p q hp hq hpv hqv hne sp cp sq cq
  · intro o ho hn
    rw [st.info] at ho
    obtain ⟨h, hs, hco, hmem⟩ := hn
    rw [st.info] at hmem
    obtain ⟨hm1, hm2⟩ := st.newData _ hmem
    by_cases hc : o / d.info.clusterSize = off / d.info.clusterSize
    · rw [st.mapped o hc] at hco
      have : h = x := by simp [RW.plainMapping] at hco; exact hco.symm
      rw [this] at hm2
      exact hm2 rfl
    · rw [RW.mapping_of_l2Entry st.info (st.other o hc)] at hs hco
      exact wf.new o ho ⟨h, hs, hco, hm1⟩

/-! ## 5. a success criterion, and an accounting step to build examples -/

/-- a single-cluster request into a compressed cluster runs `do_write_cow` on the mapping of
    the entry -/
theorem writeAt_compressed_eq {d : Dev} {off len : Nat} (toks : List Nat)
    (hc : writeCheck d.info off len = none) (hl : len ≠ 0)
    (hsingle : off / d.info.clusterSize = (off + len - 1) / d.info.clusterSize)
    (hsrc : (d.mapping off).source = .compressed) :
    writeAt off len toks d = doWriteCow off (d.mapping off) toks d := by
  have hnm : needMakeMapping d.info (d.mapping off) = false := by
    unfold needMakeMapping
    have : L2.plainOffset (d.mapping off) 0 = none := by
      unfold L2.plainOffset; rw [hsrc]; simp
    rw [this, hsrc]; simp
  unfold writeAt
  simp only [hc]
  rw [if_neg hl, if_pos hsingle, populateSingle_eq, if_neg (by rw [hnm]; simp)]
  dsimp only
  unfold doWrite
  dsimp only
  have hm : L2.intoMapping d.info.cb d.info.hasBack
      (Split.clusterOffset d.info (d.info.clusterRoundDown off)) (d.l2Entry off) = d.mapping off := rfl
  rw [hm, hsrc]

/-- when `allocate_clusters(1)` succeeds without growing the reftable, a single-cluster write
    into a compressed cluster returns `Ok` (the COW data write cannot fail, and the release
    of the compressed clusters succeeds because the accounting invariant gives each of them
    a refblock and a refcount ≥ 1) and does not grow the reftable -/
theorem write_cow_compressed_succeeds {d dB : Dev} {off len h n : Nat} (toks : List Nat)
    (wf : WFC d)
    (hc : writeCheck d.info off len = none) (hl : len ≠ 0)
    (hsingle : off / d.info.clusterSize = (off + len - 1) / d.info.clusterSize)
    (hsrc : (d.mapping off).source = .compressed)
    (hal : allocateClusters 1 d = (dB, .ok (some (h, n)))) (hngB : dB.rtLen = d.rtLen) :
    ∃ d', writeAt off len toks d = (d', .ok ()) ∧ d'.rtLen = d.rtLen := by
  have w := wf.winv
  obtain ⟨hv, _, _, _⟩ := writeCheck_none hc
  have hov : off < d.info.vsize := by omega
  have hidx : Split.l1Index d.info off < d.hdrL1Entries := w.shape.l1cov off hov
  have hcomp : L2.isCompressed (d.l2Entry off) = true := (source_compressed_iff _ _ _ _).1 hsrc
  have hl1 : L1.isZero (d.l1Entry off) = false := l1_nonzero_of_compressed hcomp
  obtain ⟨co, cl, hrange, hmap, hlen⟩ := compressed_entry d.info.cb d.info.hasBack
    (Split.clusterOffset d.info (d.info.clusterRoundDown off)) (d.l2Entry off) hcomp
  have hmap' : d.mapping off =
      { source := .compressed, clusterOffset := some co, compressedLength := some cl, copied := false } := hmap
  obtain ⟨c1, _, _, _, _⟩ := alloc_view hal
  have h2 : allocAndMap off d = (mappedAt dB off h, .ok ()) := by rw [allocAndMap_eq, hal]
  have hl2 : Cap (mappedAt dB off h) := w.shape.cap56.of_eq (show (mappedAt dB off h).info = d.info from c1)
    (show (mappedAt dB off h).rtLen = d.rtLen from hngB)
  obtain ⟨s2, dom2, i2, n2, _, _, ok2, _⟩ := allocAndMap_plus w hl1 hidx h2 hl2
  obtain ⟨P2, x, hx⟩ := ok2 rfl
  rw [writeAt_compressed_eq toks hc hl hsingle hsrc, doWriteCow_eq_compressed off _ toks d hsrc,
    if_pos (Or.inl hsrc), h2]
  dsimp only
  generalize hd2 : mappedAt dB off h = d2 at *
  generalize h3 : doWriteDataFile off (({ d2 with needFlush := true } : Dev).mapping off)
    (some (d.mapping off)) toks { d2 with needFlush := true } = r3
  obtain ⟨d3, o3⟩ := r3
  obtain ⟨f3, l3, _⟩ := doWriteDataFile_mframe off (({ d2 with needFlush := true } : Dev).mapping off)
    (some (d.mapping off)) toks { d2 with needFlush := true }
  rw [h3] at f3 l3
  dsimp only at f3 l3
  have fr23 : MFrame d2 d3 := (nf_mframe d2).trans f3
  have hl23 : d3.l2 = d2.l2 := l3
  have hok3 : o3 = .ok () := by
    have hdm : (({ d2 with needFlush := true } : Dev).mapping off).clusterOffset = some x := by
      have e : ({ d2 with needFlush := true } : Dev).mapping off = d2.mapping off := rfl
      rw [e]
      unfold Dev.mapping
      rw [hx.1, intoMapping_mapClusterEntry _ _ _ x hx.2.1 hx.2.2.1 hx.2.2.2]
    have := doWriteDataFile_cow_compressed_ok off _ (d.mapping off) toks { d2 with needFlush := true }
      hdm hsrc
    rw [h3] at this
    exact this
  subst hok3
  dsimp only
  rw [hmap']
  dsimp only
  have P3 : AcctPlus d3 (covers d.cs (L2.allocation d.info.cb (d.l2Entry off))) := fr23.plus hl23 P2
  have dom3 : RcDom d3 := fr23.dom dom2
  have hi3 : d3.info = d.info := fr23.info.trans i2
  have hcov : ∀ c, covers d.cs (L2.allocation d.info.cb (d.l2Entry off)) c =
      covers d3.cs (some (d2.info.clusterRoundDown co, compressedReleaseCount d2.info co cl)) c := by
    intro c
    rw [i2, cs_congr hi3]
    exact covers_compressed hrange hlen d.info rfl c
  have P3' : AcctPlus d3 (covers d3.cs (some (d2.info.clusterRoundDown co, compressedReleaseCount d2.info co cl))) :=
    acctPlus_congr P3 hcov
  obtain ⟨d4, h4⟩ := freeClusters_succeeds_of_plus (host := d2.info.clusterRoundDown co)
    (n := compressedReleaseCount d2.info co cl) true P3' dom3
    (by rw [hi3, i2]; exact Nat.mul_mod_left _ _) (by
      intro c c1 c2
      rw [covers_some, if_pos (show _ / d3.cs ≤ c ∧ c < _ / d3.cs + _ from ⟨c1, c2⟩)]
      exact Nat.le_refl _)
  rw [h4]
  refine ⟨d4, rfl, ?_⟩
  have f4 := freeClusters_rcFrame h4
  have : d4.rtLen = d3.rtLen := by obtain ⟨_, _, _, rfl⟩ := f4; rfl
  rw [this, fr23.rtLen, ← hd2]
  exact hngB

/-- accounting through a change of ONE L2 slot from an entry without allocation to an entry
    `e`: if the refcounts go up by exactly what `e` references, the accounting stays exact
    (used to build example devices with compressed clusters) -/
theorem acct_set_slot {d d' : Dev} {i0 j0 : Nat} {e : E64} (hA : Acct d)
    (hh : HdrSame d d') (hl1 : ∀ i, i < d.hdrL1Entries → d'.l1At i = d.l1At i)
    (hrt : d'.rt = d.rt) (hrtLen : d'.rtLen = d.rtLen)
    (hi : i0 < d.hdrL1Entries) (hj : j0 < d.info.l2Entries)
    (hold : L2.allocation d.info.cb (d.slot i0 j0) = none)
    (hslot : ∀ i j, i < d.hdrL1Entries → j < d.info.l2Entries →
      d'.slot i j = if i = i0 ∧ j = j0 then e else d.slot i j)
    (hrc : ∀ c, d'.rc.get c = d.rc.get c + covers d.cs (L2.allocation d.info.cb e) c) : Acct d' := by
  intro c
  have key := refs_slot_change hh hl1 hrt hrtLen hi hj hslot c
  rw [hold, covers_none] at key
  rw [hrc c, hA c]
  omega

/-! ## 6. a partial write into a zero-flagged cluster (with or without a backing image)

`need_make_mapping` is true for a zero-flagged entry whatever `has_back_file` says: the
write allocates a cluster, maps it, zeroes it once and lays the request over the zeros; no
copy from the backing image takes place (the cluster read zeros, not the backing content). -/

theorem zero_entry_source (cb : Nat) (hb : Bool) (g : Nat) : (L2.intoMapping cb hb g 0#64).source ≠ .zero := by
  have h1 : L2.compressedRange cb 0#64 = none := by
    unfold L2.compressedRange; rw [if_neg (by decide)]
  unfold L2.intoMapping
  rw [h1]
  simp only []
  rw [if_neg (by decide), if_pos (by decide)]
  split <;> simp

theorem l1_nonzero_of_zero {d : Dev} {off : Nat} (hz : (d.mapping off).source = .zero) :
    L1.isZero (d.l1Entry off) = false := by
  cases h : L1.isZero (d.l1Entry off) with
  | false => rfl
  | true =>
    exfalso
    unfold Dev.mapping at hz
    rw [l2Entry_of_l1_zero d off h] at hz
    exact zero_entry_source _ _ _ hz

/-- a zero-flagged cluster reads zeros (also on a device with a backing image) -/
theorem guestSec_zero (d : Dev) (s : Nat) (hs : (d.mapping (s * 512)).source = .zero) : guestSec d s = 0 := by
  unfold guestSec doRead
  dsimp only
  rw [doRead_mapping, hs]
  rfl

theorem needMake_zero {i : Info} {m : Mapping} (h : m.source = .zero) : needMakeMapping i m = true := by
  unfold needMakeMapping L2.plainOffset
  rw [h]
  simp

/-- the state after a successful single-cluster write into a zero-flagged cluster -/
theorem writeAt_zero_state {d d' : Dev} {off len : Nat} {toks : List Nat}
    (wf : WFC d) (hc : writeCheck d.info off len = none) (hl : len ≠ 0)
    (hsingle : off / d.info.clusterSize = (off + len - 1) / d.info.clusterSize)
    (hfit : off % d.info.clusterSize + toks.length * 512 ≤ d.info.clusterSize)
    (hsrc : (d.mapping off).source = .zero)
    (hw : writeAt off len toks d = (d', .ok ())) (hng : d'.rtLen = d.rtLen) :
    ∃ x, CowStateG d d' off x toks (fun _ => 0) := by
  have w := wf.winv
  have hcs := cs_pos d.info
  have hspc := cs512W w
  have hl1 := l1_nonzero_of_zero hsrc
  have hpn : (L2.plainOffset (d.mapping off) 0).isNone = true := by
    unfold L2.plainOffset; rw [hsrc]; simp
  unfold writeAt at hw
  dsimp only at hw
  rw [hc] at hw
  dsimp only at hw
  rw [if_neg hl, if_pos hsingle, RW.populateSingle_eq, needMake_zero hsrc, if_pos rfl, RW.makeSingle_eq,
    ensureL2_noop off d hl1] at hw
  dsimp only at hw
  rw [if_pos hpn] at hw
  generalize ham : allocAndMap off d = rB at hw
  obtain ⟨dB, (_ | e | p)⟩ := rB
  · dsimp only at hw
    have hmn := (doWrite_mn _ off toks).of_eq hw
    rw [RW.allocAndMap_eq] at ham
    generalize hal : allocateClusters 1 d = ra at ham
    obtain ⟨dC, ((_ | ⟨x, n⟩) | e | p)⟩ := ra
    · simp at ham
    · dsimp only at ham
      simp only [Prod.mk.injEq, and_true] at ham
      subst ham
      obtain ⟨c1, c2, c3, c4, c5⟩ := alloc_view hal
      have hrtC : dC.rtLen = d.rtLen := by
        have hmn' : dC.rtLen ≤ d'.rtLen := hmn
        omega
      obtain ⟨fr, hal', n1, hpos, h56, hrun⟩ := alloc_stepW w hal hrtC
      have hfrC : dC.data = d.data ∧ dC.newData = d.newData ∧ dC.back = d.back ∧ dC.comp = d.comp := by
        obtain ⟨_, _, _, _, rfl⟩ := fr; exact ⟨rfl, rfl, rfl, rfl⟩
      have hverC : dC.version = d.version := by
        obtain ⟨_, _, _, _, rfl⟩ := fr; rfl
      obtain ⟨r0, _⟩ := hrun (x / d.info.clusterSize) (Nat.le_refl _) (by omega)
      have hx56 : x < 2^56 := by
        have := Nat.mul_pos (show 0 < n from n1) hcs; omega
      have hx512 : x % 512 = 0 := mod512_of_mod_cs w.shape.cb9 hal'
      clear hmn
      generalize hD2 : ({ RW.mappedAt dC off x with needFlush := true } : Dev) = D2
      have hw2 : doWrite (D2.l2Entry off) off toks D2 = (d', .ok ()) := by
        rw [← hD2]; exact hw
      clear hw
      have e_info : D2.info = dC.info := by rw [← hD2]; rfl
      have e_l1 : D2.l1 = dC.l1 := by rw [← hD2]; rfl
      have e_l1Len : D2.l1Len = dC.l1Len := by rw [← hD2]; rfl
      have e_l2 : D2.l2 = (dC.setL2 off (L2.mapClusterEntry x)).l2 := by rw [← hD2]; rfl
      have e_data : D2.data = dC.data := by rw [← hD2]; rfl
      have e_back : D2.back = dC.back := by rw [← hD2]; rfl
      have e_comp : D2.comp = dC.comp := by rw [← hD2]; rfl
      have e_ver : D2.version = dC.version := by rw [← hD2]; rfl
      have e_new : D2.newData = (x / dC.info.clusterSize) :: dC.newData := by rw [← hD2]; rfl
      have hiC : dC.info = d.info := c1
      have hi2 : D2.info = d.info := e_info.trans hiC
      have hdistC : L1Distinct dC := l1Distinct_congr c1 c2 c3 w.shape.l1d
      have hl1C : L1.isZero (dC.l1Entry off) = false := by
        rw [RW.l1Entry_congr_fields c1 c2 c3]; exact hl1
      obtain ⟨he2, hf2⟩ := l2Entry_setL2_distinct hdistC hl1C e_info e_l1 e_l1Len e_l2
      have hmap2 : ∀ o, o / d.info.clusterSize = off / d.info.clusterSize →
          D2.mapping o = RW.plainMapping x := by
        intro o ho
        have : D2.l2Entry o = L2.mapClusterEntry x := by
          rw [← he2]
          apply l2Entry_congr
          rw [hi2]; exact ho
        unfold Dev.mapping
        rw [this]
        exact L2.mapClusterEntry_intoMapping _ _ _ x hx512 hpos hx56
      have hnew2 : D2.newData.contains (x / D2.info.clusterSize) = true := by
        rw [e_info, e_new]
        simp
      have hp2 : L2.plainOffset (D2.mapping off) 0 = some x := by rw [hmap2 off rfl]; rfl
      rw [RW.doWrite_plain D2 off x toks hp2, if_pos hnew2] at hw2
      simp only [Prod.mk.injEq, and_true] at hw2
      subst hw2
      have hds : RW.DataStep D2 (zeroedWrite D2 off x toks) := rfl
      have hspc2 : D2.spc = d.spc := by unfold Dev.spc; rw [hi2]
      have hk0 : (x + off % d.info.clusterSize) / 512 = x / 512 + off % d.info.clusterSize / 512 := by omega
      have hdata : ∀ j, (zeroedWrite D2 off x toks).data.get j =
          if x / 512 + off % d.info.clusterSize / 512 ≤ j ∧
              j < x / 512 + off % d.info.clusterSize / 512 + toks.length
          then toks.getD (j - (x / 512 + off % d.info.clusterSize / 512)) 0
          else if x / 512 ≤ j ∧ j < x / 512 + d.spc then 0 else d.data.get j := by
        intro j
        show ((D2.data.setRange (x / 512) D2.spc (fun _ => 0)).setRange
          ((x + off % D2.info.clusterSize) / 512) toks.length (fun k => toks.getD k 0)).get j = _
        rw [FMap.setRange_get, FMap.setRange_get, hi2, hspc2, hk0, e_data, hfrC.1]
      refine ⟨x, ⟨hal', hpos, hx56, hi2, ?_, ?_, ?_, ?_, ?_, ?_, ?_, ?_, ?_⟩⟩
      · show D2.back = d.back
        rw [e_back, hfrC.2.2.1]
      · show D2.comp = d.comp
        rw [e_comp, hfrC.2.2.2]
      · show D2.version = d.version
        rw [e_ver, hverC]
      · intro o ho
        rw [hds.mapping]; exact hmap2 o ho
      · intro o ho
        rw [hds.l2Entry, hf2 o (RW.index_ne_of_cluster_ne dC.info (by rw [hiC]; exact ho)),
          RW.l2Entry_congr_fields c1 c2 c3 c4]
      · intro o h' ho hs hco'
        have := winv_datarc w (o := o) (h := h') ho hs hco'
        intro e
        rw [e, r0] at this
        omega
      · intro k hk
        rw [hdata]
        generalize off % d.info.clusterSize / 512 = q
        by_cases hin : q ≤ k ∧ k < q + toks.length
        · rw [if_pos (by omega), if_pos hin]
          congr 1
          omega
        · rw [if_neg (by omega), if_neg hin, if_pos (by omega)]
      · intro j hj
        rw [hdata, if_neg (by omega), if_neg (by omega)]
      · intro c hc'
        have hc'' : c ∈ D2.newData.filter (· ≠ x / D2.info.clusterSize) := hc'
        rw [List.mem_filter, e_new] at hc''
        obtain ⟨hc1, hc2'⟩ := hc''
        have hne : c ≠ x / d.info.clusterSize := by
          rw [hi2] at hc2'
          simpa using hc2'
        refine ⟨?_, hne⟩
        rcases List.mem_cons.1 hc1 with e | e
        · rw [hiC] at e; exact absurd e hne
        · rw [hfrC.2.1] at e; exact e
    · simp at ham
    · simp at ham
  · simp at hw
  · simp at hw

/-- a zero-flagged cluster: the rest of the cluster keeps reading zeros -/
theorem zero_refines {d d' : Dev} {f : Flat} {off x : Nat} {toks : List Nat}
    (wf : WFC d) (hr : Refines d f) (st : CowStateG d d' off x toks (fun _ => 0)) (ho512 : off % 512 = 0)
    (hfit : off % d.info.clusterSize + toks.length * 512 ≤ d.info.clusterSize)
    (hsrc : (d.mapping off).source = .zero) :
    Refines d' (f.write off toks) := by
  apply cowg_refines wf hr st ho512 hfit
  intro s _ hc
  exact guestSec_zero d s (by rw [mapping_congr d hc]; exact hsrc)

end Qv.Proofs.RefineCowComp
