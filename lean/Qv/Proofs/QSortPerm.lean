module
import all Init.Data.Array.QSort.Basic
public import Init

/-!
`Array.qsort` only permutes its input.  The toolchain (Lean 4.33.0 core, Std) has no
lemma about `Array.qsort`; its helper functions are private to
`Init.Data.Array.QSort.Basic`, which is why this file is a `module` with `import all`.
-/

namespace Array

theorem qpartition_loop_perm {α : Type u} {n : Nat} (lt : α → α → Bool) (lo hi : Nat)
    (hhi : hi < n) (pivot : α) (as : Vector α n) (i k : Nat)
    (ilo : lo ≤ i) (ik : i ≤ k) (w : k ≤ hi) :
    (qpartition.loop lt lo hi hhi pivot as i k ilo ik w).2.Perm as := by
  fun_induction qpartition.loop lt lo hi hhi pivot as i k ilo ik w with
  | case1 as i k ilo ik w h hlt ih =>
    exact ih.trans (Vector.swap_perm (by omega) (by omega))
  | case2 as i k ilo ik w h hlt ih => exact ih
  | case3 as i k ilo ik w h => exact Vector.swap_perm (by omega) (by omega)

theorem qpartition_perm {α : Type u} {n : Nat} (as : Vector α n) (lt : α → α → Bool) (lo hi : Nat)
    (w : lo ≤ hi) (hlo : lo < n) (hhi : hi < n) :
    (qpartition as lt lo hi w hlo hhi).2.Perm as := by
  unfold qpartition
  dsimp only
  refine (qpartition_loop_perm ..).trans ?_
  repeat' first
    | exact Vector.Perm.rfl
    | split
    | refine (Vector.swap_perm (by omega) (by omega)).trans ?_

theorem qsort_sort_perm {α : Type u} (lt : α → α → Bool) {n : Nat} (as : Vector α n) (lo hi : Nat)
    (w : lo ≤ hi) (hlo : lo < n) (hhi : hi < n) :
    (qsort.sort lt as lo hi w hlo hhi).Perm as := by
  fun_induction qsort.sort lt as lo hi w hlo hhi with
  | case1 as lo hi w hlo hhi h₁ mid hmid as' heq h₂ =>
    have := qpartition_perm as lt lo hi w hlo hhi
    rw [heq] at this
    exact this
  | case2 as lo hi w hlo hhi h₁ mid hmid as' heq h₂ _ ih2 ih3 =>
    have := qpartition_perm as lt lo hi w hlo hhi
    rw [heq] at this
    exact ih3.trans (ih2.trans this)
  | case3 as lo hi w hlo hhi h₁ => exact Vector.Perm.rfl

public theorem qsort_perm {α : Type u} (as : Array α) (lt : α → α → Bool) (lo hi : Nat) :
    (as.qsort lt lo hi).Perm as := by
  unfold qsort
  split
  · exact Perm.rfl
  · exact (qsort_sort_perm ..).toArray

public theorem qsort_toList_perm {α : Type u} (l : List α) (lt : α → α → Bool) :
    (l.toArray.qsort lt).toList.Perm l :=
  (qsort_perm l.toArray lt 0 (l.toArray.size - 1)).toList

end Array
