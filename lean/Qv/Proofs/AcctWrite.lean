import Qv.Proofs.RtMono
/-
Refcount accounting through the mapping functions of the write path
(`ensure_l2_offset`, `alloc_and_map_cluster`, `make_single_write_mapping`,
`__make_multiple_write_mapping`, `make_multiple_write_mappings`, `do_write*`,
`__write_at`): helpers for `Qv/Props/C03Write.lean`.

The refcount table may grow during a call; the only hypothesis about that is `Cap d'`:
afterwards the table still describes host offsets below 2^56 only.  The entries that are
replaced have no allocation (the known leak — zero flag with a preallocated
cluster — is excluded by hypothesis).
-/
namespace Qv.Model
open Qv Qv.Codec
open Qv.Props.C15 (Geom)
open Qv.Props.C11 (L1Distinct)

/-! ### frames -/

/-- what the mapping steps (L2 entry, new-cluster marks, flags, data plane) keep -/
structure MFrame (d d' : Dev) : Prop where
  info : d'.info = d.info
  hdrL1Off : d'.hdrL1Off = d.hdrL1Off
  hdrL1Entries : d'.hdrL1Entries = d.hdrL1Entries
  hdrRtOff : d'.hdrRtOff = d.hdrRtOff
  hdrRtClusters : d'.hdrRtClusters = d.hdrRtClusters
  l1 : d'.l1 = d.l1
  l1Len : d'.l1Len = d.l1Len
  l1HdrEntries : d'.l1HdrEntries = d.l1HdrEntries
  rt : d'.rt = d.rt
  rtLen : d'.rtLen = d.rtLen
  rc : d'.rc = d.rc

theorem MFrame.refl (d : Dev) : MFrame d d := ⟨rfl, rfl, rfl, rfl, rfl, rfl, rfl, rfl, rfl, rfl, rfl⟩

theorem MFrame.trans {a b c : Dev} (h1 : MFrame a b) (h2 : MFrame b c) : MFrame a c :=
  ⟨h2.info.trans h1.info, h2.hdrL1Off.trans h1.hdrL1Off, h2.hdrL1Entries.trans h1.hdrL1Entries,
    h2.hdrRtOff.trans h1.hdrRtOff, h2.hdrRtClusters.trans h1.hdrRtClusters, h2.l1.trans h1.l1,
    h2.l1Len.trans h1.l1Len, h2.l1HdrEntries.trans h1.l1HdrEntries, h2.rt.trans h1.rt,
    h2.rtLen.trans h1.rtLen, h2.rc.trans h1.rc⟩

theorem MFrame.hdrSame {d d' : Dev} (f : MFrame d d') : HdrSame d d' :=
  ⟨f.info, f.hdrL1Off, f.hdrL1Entries, f.hdrRtOff, f.hdrRtClusters⟩

theorem MFrame.shape {d d' : Dev} (f : MFrame d d') (s : Shape d) : Shape d' :=
  s.congr f.info f.l1 f.l1Len f.hdrL1Entries f.l1HdrEntries f.rtLen

theorem MFrame.dom {d d' : Dev} (f : MFrame d d') (h : RcDom d) : RcDom d' := by
  refine ⟨?_, by rw [f.rtLen, f.hdrRtClusters, f.info]; exact h.sync,
    fun i hi => by rw [f.rt]; exact h.tail i (by rw [← f.rtLen]; exact hi)⟩
  intro c hz
  rw [f.info, rtEntryAt_congr f.info f.rt f.rtLen] at hz
  rw [f.rc]; exact h.zero c hz

theorem MFrame.cap {d d' : Dev} (f : MFrame d d') (h : Cap d') : Cap d := h.mono f.info (Nat.le_of_eq f.rtLen.symm)

theorem MFrame.l1Entry {d d' : Dev} (f : MFrame d d') (o : Nat) : d'.l1Entry o = d.l1Entry o := by
  unfold Dev.l1Entry; rw [f.info, f.l1, f.l1Len]

/-- … and the L2 tables: nothing the counts or the view depend on changes -/
theorem MFrame.plus {d d' : Dev} (f : MFrame d d') (h2 : d'.l2 = d.l2) {x : Nat → Nat}
    (h : AcctPlus d x) : AcctPlus d' x := by
  intro c
  rw [refs_congr f.hdrSame f.l1 f.l1Len h2 f.rt f.rtLen, f.rc]
  exact h c

theorem MFrame.winv {d d' : Dev} (f : MFrame d d') (h2 : d'.l2 = d.l2) (w : WInv d) : WInv d' :=
  ⟨f.shape w.shape, f.dom w.dom, acctPlus_zero.1 (f.plus h2 (acctPlus_zero.2 w.acct))⟩

theorem MFrame.l2Entry {d d' : Dev} (f : MFrame d d') (h2 : d'.l2 = d.l2) (o : Nat) :
    d'.l2Entry o = d.l2Entry o := by
  unfold Dev.l2Entry; rw [f.l1Entry, h2, f.info]

theorem MFrame.of_allocFrame_eq {d d' : Dev} (h : AllocFrame d d') (hrt : d'.rt = d.rt)
    (hrc : d'.rc = d.rc) : MFrame d d' := by
  obtain ⟨_, _, _, _, rfl⟩ := h
  exact ⟨rfl, rfl, rfl, rfl, rfl, rfl, rfl, rfl, hrt, rfl, hrc⟩

theorem mapping_congr' {d d' : Dev} (hi : d'.info = d.info) {o : Nat} (h : d'.l2Entry o = d.l2Entry o) :
    d'.mapping o = d.mapping o := by
  unfold Dev.mapping; rw [hi, h]

/-- the data write touches the data plane and the new-cluster marks only -/
theorem doWriteDataFile_mframe (off : Nat) (m : Mapping) (cow : Option Mapping) (toks : List Nat)
    (d : Dev) : MFrame d (doWriteDataFile off m cow toks d).1 ∧ (doWriteDataFile off m cow toks d).1.l2 = d.l2 ∧
      (doWriteDataFile off m cow toks d).1.l1HdrEntries = d.l1HdrEntries := by
  unfold doWriteDataFile zeroCluster writeSectors M.modify
  dsimp only
  repeat' split
  all_goals exact ⟨⟨rfl, rfl, rfl, rfl, rfl, rfl, rfl, rfl, rfl, rfl, rfl⟩, rfl, rfl⟩

theorem doWriteDataFile_nopanic (off : Nat) (m : Mapping) (cow : Option Mapping) (toks : List Nat)
    (d : Dev) (p : String) : (doWriteDataFile off m cow toks d).2 ≠ .panic p := by
  unfold doWriteDataFile zeroCluster writeSectors M.modify
  dsimp only
  repeat' split
  all_goals simp

/-! ### mapping a cluster of the run -/

theorem mapClusterEntry_needNot (i : Info) (gc h : Nat) (h512 : h % 512 = 0) (hpos : 0 < h)
    (h56 : h < 2^56) :
    needMakeMapping i (L2.intoMapping i.cb i.hasBack gc (L2.mapClusterEntry h)) = false := by
  rw [intoMapping_mapClusterEntry _ _ _ h h512 hpos h56]
  rfl

/-- **map one cluster of the surplus run**: the first cluster of the run `(h, n+1)`
    becomes the data cluster of guest cluster `off`, whose entry had no allocation;
    the rest of the run stays the surplus.  Every other entry of the view is kept. -/
theorem map_step {d d' : Dev} {off h n : Nat} (s : Shape d) (dom : RcDom d)
    (hP : AcctPlus d (covers d.cs (some (h, n + 1)))) (hal : h % d.info.clusterSize = 0)
    (hpos : 0 < h)
    (hl1 : L1.isZero (d.l1Entry off) = false) (hidx : Split.l1Index d.info off < d.hdrL1Entries)
    (hold : L2.allocation d.info.cb (d.l2Entry off) = none)
    (fr : MFrame d d') (hl2 : d'.l2 = (d.setL2 off (L2.mapClusterEntry h)).l2) :
    AcctPlus d' (covers d'.cs (some (h + d.info.clusterSize, n))) ∧ Shape d' ∧ RcDom d' ∧
    d'.l2Entry off = L2.mapClusterEntry h ∧
    (∀ o, Split.l1Index d.info o ≠ Split.l1Index d.info off ∨
        Split.l2Index d.info o ≠ Split.l2Index d.info off → d'.l2Entry o = d.l2Entry o) ∧
    h < 2^56 ∧ h % 512 = 0 := by
  have g := s.geo
  have hcs : 0 < d.info.clusterSize := cs_pos _
  have hrc1 : d.rc.get (h / d.info.clusterSize) ≠ 0 := by
    have := hP (h / d.info.clusterSize)
    rw [covers_some, if_pos (show h / d.cs ≤ h / d.info.clusterSize ∧ h / d.info.clusterSize < h / d.cs + (n + 1)
      from ⟨Nat.le_refl _, Nat.lt_succ_of_le (Nat.le_add_right _ _)⟩)] at this
    omega
  have h56 : h < 2^56 := by
    have := dom.lt56 s hrc1
    rw [aligned_div_mul hal] at this
    omega
  have h512 : h % 512 = 0 := mod512_of_mod_cs s.cb9 hal
  obtain ⟨he, hf⟩ := l2Entry_setL2_distinct s.l1d hl1 fr.info fr.l1 fr.l1Len hl2
  refine ⟨?_, fr.shape s, fr.dom dom, he, hf, h56, h512⟩
  intro c
  have key := refs_slot_change fr.hdrSame (fun i _ => l1At_congr fr.l1 fr.l1Len i) fr.rt fr.rtLen hidx
    (Qv.Props.C15.split_bounds g off).1
    (fun i j _ hj => slot_change_of_l2Entry g fr.info off _ he hf i j hj) c
  rw [← d.l2Entry_eq_slot, hold, allocation_mapClusterEntry _ _ h512 hpos h56, covers_none] at key
  have hm := covers_merge d.cs h 1 (h + d.info.clusterSize) n c (add_cs_div d.info h)
  have := hP c
  rw [fr.rc, cs_congr fr.info]
  rw [Nat.add_comm 1 n] at hm
  omega

/-! ### a new L2 table -/

/-- `acct_new_l2_table` from a state in which the table's cluster is the surplus -/
theorem acctPlus_new_l2_table {d d' : Dev} {i0 h : Nat} (s : Shape d)
    (hP : AcctPlus d (covers d.cs (some (h, 1)))) (hal : h % d.info.clusterSize = 0)
    (hrc1 : d.rc.get (h / d.info.clusterSize) = 1) (h56 : h < 2^56)
    (hi : i0 < d.hdrL1Entries) (hlen : i0 < d.l1Len) (hz : L1.isZero (d.l1At i0) = true)
    (fr : HdrSame d d') (hl1Len : d'.l1Len = d.l1Len) (hrt : d'.rt = d.rt) (hrtLen : d'.rtLen = d.rtLen)
    (hrc : d'.rc = d.rc)
    (hl1 : d'.l1 = d.l1.set i0 (L1.mapEntry h))
    (hl2 : d'.l2 = d.l2.set h (FMap.empty 0#64)) : Acct d' := by
  have hh : h / d.info.clusterSize * d.cs = h := aligned_div_mul hal
  -- the state before the allocation of `h`, as far as the counts can tell
  have hA0 : Acct ({ d with rc := d.rc.set (h / d.info.clusterSize) 0 } : Dev) := by
    intro c
    have e : ({ d with rc := d.rc.set (h / d.info.clusterSize) 0 } : Dev).refs c = d.refs c :=
      refs_congr ⟨rfl, rfl, rfl, rfl, rfl⟩ rfl rfl rfl rfl rfl c
    rw [e]
    show (d.rc.set (h / d.info.clusterSize) 0).get c = _
    have hPc : d.rc.get c = d.refs c +
        (if h / d.info.clusterSize ≤ c ∧ c < h / d.info.clusterSize + 1 then 1 else 0) := hP c
    rw [FMap.get_set]
    by_cases hc : h / d.info.clusterSize = c
    · subst hc
      rw [if_pos rfl]
      rw [if_pos (by omega), hrc1] at hPc
      omega
    · rw [if_neg hc]
      rw [if_neg (by omega)] at hPc
      omega
  refine acct_new_l2_table (d := { d with rc := d.rc.set (h / d.info.clusterSize) 0 }) (d' := d')
    (i0 := i0) (c0 := h / d.info.clusterSize) s.cb9 hA0 hi hlen hz ?_
    (by show h / d.info.clusterSize * d.cs < 2^56; rw [hh]; exact h56)
    ⟨fr.info, fr.hdrL1Off, fr.hdrL1Entries, fr.hdrRtOff, fr.hdrRtClusters⟩ hl1Len hrt hrtLen
    (by show d'.l1 = d.l1.set i0 (L1.mapEntry (h / d.info.clusterSize * d.cs)); rw [hh]; exact hl1)
    (by show d'.l2 = d.l2.set (h / d.info.clusterSize * d.cs) _; rw [hh]; exact hl2) ?_
  · show (d.rc.set (h / d.info.clusterSize) 0).get (h / d.info.clusterSize) = 0
    rw [FMap.get_set_same]
  · intro c
    rw [hrc]
    show d.rc.get c = if c = h / d.info.clusterSize then 1 else (d.rc.set (h / d.info.clusterSize) 0).get c
    by_cases hc : c = h / d.info.clusterSize
    · rw [if_pos hc, hc, hrc1]
    · rw [if_neg hc, FMap.get_set_other _ _ _ _ (fun x => hc x.symm)]

/-! ### `ensure_l2_offset` -/

/-- the state after `ensure_l2_offset` installed the table at `h` -/
def withL2Table (d1 : Dev) (idx h : Nat) : Dev :=
  { d1 with l2 := d1.l2.set h (FMap.empty 0#64), l1 := d1.l1.set idx (L1.mapEntry h), needFlush := true }

theorem ensureL2_zero_eq {d : Dev} {off : Nat} (hz : L1.isZero (d.l1Entry off) = true)
    (hhdr : Split.l1Index d.info off < d.l1HdrEntries) :
    ensureL2 off d =
      match allocateClusters 1 d with
      | (d1, .ok (some (h, _))) => (withL2Table d1 (Split.l1Index d.info off) h, .ok ())
      | (d1, .ok none) => (d1, .err .nospace)
      | (d1, .err e) => (d1, .err e)
      | (d1, .panic p) => (d1, .panic p) := by
  unfold ensureL2
  dsimp only
  rw [if_neg (by simp [hz]), if_pos hhdr]
  dsimp only
  rw [if_neg (by simp [hz])]
  rfl

/-- the view of a state with a new, empty L2 table on an unreferenced cluster -/
theorem withL2Table_view {d1 : Dev} {idx h : Nat} (hlen : idx < d1.l1Len)
    (hz : L1.isZero (d1.l1At idx) = true)
    (hm : (L1.l2Offset (L1.mapEntry h)).toNat = h ∧ L1.isZero (L1.mapEntry h) = false)
    (hfresh : ∀ i, L1.isZero (d1.l1At i) = false → (L1.l2Offset (d1.l1At i)).toNat ≠ h) :
    (∀ i, (withL2Table d1 idx h).l1At i = if i = idx then L1.mapEntry h else d1.l1At i) ∧
    (∀ i j, (withL2Table d1 idx h).slot i j = d1.slot i j) := by
  have hat : ∀ i, (withL2Table d1 idx h).l1At i = if i = idx then L1.mapEntry h else d1.l1At i := by
    intro i
    unfold Dev.l1At
    show (if i < d1.l1Len then (d1.l1.set idx (L1.mapEntry h)).get i else 0#64) = _
    by_cases hx : i = idx
    · subst hx; rw [if_pos rfl, if_pos hlen, FMap.get_set_same]
    · rw [if_neg hx, FMap.get_set_other _ _ _ _ (fun x => hx x.symm)]
  refine ⟨hat, ?_⟩
  intro i j
  unfold Dev.slot
  rw [hat i]
  by_cases hx : i = idx
  · subst hx
    rw [if_pos rfl, if_neg (by simp [hm.2]), if_pos hz, hm.1]
    show ((d1.l2.set h (FMap.empty 0#64)).get h).get j = 0#64
    rw [FMap.get_set_same, FMap.get_empty]
  · rw [if_neg hx]
    by_cases hzi : L1.isZero (d1.l1At i) = true
    · rw [if_pos hzi, if_pos hzi]
    · rw [if_neg hzi, if_neg hzi]
      show ((d1.l2.set h (FMap.empty 0#64)).get _).get j = _
      rw [FMap.get_set_other]
      intro heq
      exact hfresh i (by simpa using hzi) heq.symm

theorem slot_eq_l2Entry {d d' : Dev} (hi : d'.info = d.info)
    (h : ∀ i j, d'.slot i j = d.slot i j) (o : Nat) : d'.l2Entry o = d.l2Entry o := by
  rw [d'.l2Entry_eq_slot, d.l2Entry_eq_slot, hi, h]

/-- a cluster with refcount 1 that is the surplus is referenced by nothing; in
    particular no L1 entry the header covers points to it -/
theorem surplus_unreferenced {d : Dev} {h n : Nat} (hP : AcctPlus d (covers d.cs (some (h, n + 1))))
    (hrc1 : d.rc.get (h / d.info.clusterSize) = 1) (hpos : 0 < h)
    (i : Nat) (hi : i < d.hdrL1Entries) : (L1.l2Offset (d.l1At i)).toNat ≠ h := by
  intro heq
  have hPc : d.rc.get (h / d.info.clusterSize) = d.refs (h / d.info.clusterSize) +
      (if h / d.info.clusterSize ≤ h / d.info.clusterSize ∧
        h / d.info.clusterSize < h / d.info.clusterSize + (n + 1) then 1 else 0) := hP _
  rw [if_pos (by omega), hrc1] at hPc
  have h0 : d.refsL2Tables (h / d.info.clusterSize) = 0 := by
    unfold Dev.refs at hPc; omega
  have := (sumTo_eq_zero_iff.1 h0) i hi
  unfold pointsTo at this
  rw [heq, if_pos ⟨by omega, rfl⟩] at this
  cases this

/-- **`ensure_l2_offset`**, any outcome: the invariant is kept, the view (every L2
    entry as the device sees it) is unchanged, and on success the L2 table of `off`
    exists.  The L1 slot of `off` is covered by the header. -/
theorem ensureL2_winv {d d' : Dev} {off : Nat} {r : Outcome Unit} (w : WInv d)
    (hidx : Split.l1Index d.info off < d.hdrL1Entries)
    (h : ensureL2 off d = (d', r)) (hl : Cap d') :
    WInv d' ∧ (∀ o, d'.l2Entry o = d.l2Entry o) ∧ d'.info = d.info ∧
      d'.hdrL1Entries = d.hdrL1Entries ∧ (∀ p, r ≠ .panic p) ∧
      (r = .ok () → L1.isZero (d'.l1Entry off) = false) := by
  have g := w.shape.geo
  by_cases hz : L1.isZero (d.l1Entry off) = true
  · rw [ensureL2_zero_eq hz (by rw [w.shape.hdrEq]; exact hidx)] at h
    generalize ha : allocateClusters 1 d = ra at h
    obtain ⟨d1, r1⟩ := ra
    have hl1 : Cap d1 := by
      rcases r1 with (_ | ⟨x, y⟩) | e | p <;>
        (simp only [Prod.mk.injEq] at h; obtain ⟨rfl, _⟩ := h)
      · exact hl
      · exact hl
      · exact hl
      · exact hl
    obtain ⟨post, fr⟩ := allocateClusters_acct w (by decide) ha hl1
    have hview1 : ∀ o, d1.l2Entry o = d.l2Entry o := by
      obtain ⟨_, _, _, _, _, _, _, rfl⟩ := fr; intro o; rfl
    have hi1 : d1.info = d.info := fr.info
    have hn1 : d1.hdrL1Entries = d.hdrL1Entries := by
      obtain ⟨_, _, _, _, _, _, _, rfl⟩ := fr; rfl
    rcases r1 with (_ | ⟨x, n⟩) | e | p
    · simp only [Prod.mk.injEq] at h
      obtain ⟨rfl, rfl⟩ := h
      exact ⟨⟨post.1, post.2.1, post.2.2⟩, hview1, hi1, hn1, fun p hp => (by cases hp), fun hr => (by cases hr)⟩
    · simp only [Prod.mk.injEq] at h
      obtain ⟨rfl, rfl⟩ := h
      obtain ⟨s1, dom1, P1, n1, n2, hal, hpos⟩ := post
      have hn : n = 1 := by omega
      subst hn
      dsimp only at s1 dom1 P1 hal
      have hrc1 : d1.rc.get (x / d1.info.clusterSize) = 1 := by
        have := (Qv.Props.C01Model.allocateClusters_sound_general 1 d d1 x 1 ha).2.2.2
          (x / d.info.clusterSize) (Nat.le_refl _) (by omega)
        rw [hi1]; exact this
      have h56 : x < 2^56 := by
        have := dom1.lt56 s1 (c := x / d1.info.clusterSize) (by omega)
        rw [aligned_div_mul hal] at this
        have := cs_pos d1.info
        omega
      have hm := l1_mapEntry_facts x (mod512_of_mod_cs s1.cb9 hal) hpos h56
      have hlen : Split.l1Index d.info off < d1.l1Len := by
        have := s1.hdrLe; omega
      have hz1 : L1.isZero (d1.l1At (Split.l1Index d.info off)) = true := by
        have : d1.l1Entry off = d.l1Entry off := by
          obtain ⟨_, _, _, _, _, _, _, rfl⟩ := fr; rfl
        rw [← hi1, ← d1.l1Entry_eq, this]; exact hz
      have hfresh : ∀ i, L1.isZero (d1.l1At i) = false → (L1.l2Offset (d1.l1At i)).toNat ≠ x := by
        intro i hnz
        by_cases hi : i < d1.hdrL1Entries
        · exact surplus_unreferenced P1 hrc1 hpos i hi
        · have := s1.l1tail i (by omega)
          rw [this] at hnz; cases hnz
      obtain ⟨hat, hslot⟩ := withL2Table_view (d1 := d1) (idx := Split.l1Index d.info off) (h := x)
        hlen hz1 hm hfresh
      have hA : Acct (withL2Table d1 (Split.l1Index d.info off) x) :=
        acctPlus_new_l2_table s1 P1 hal hrc1 h56 (by omega) hlen hz1 ⟨rfl, rfl, rfl, rfl, rfl⟩ rfl rfl rfl
          rfl rfl rfl
      have hent : ∀ o, (withL2Table d1 (Split.l1Index d.info off) x).l1Entry o =
          if Split.l1Index d.info o = Split.l1Index d.info off then L1.mapEntry x else d1.l1Entry o := by
        intro o
        rw [Dev.l1Entry_eq, hat, d1.l1Entry_eq]
        show (if Split.l1Index d1.info o = _ then _ else d1.l1At (Split.l1Index d1.info o)) = _
        rw [hi1]
      have hS : Shape (withL2Table d1 (Split.l1Index d.info off) x) := by
        refine ⟨s1.geo, s1.cb9, s1.hsl, ?_, ?_, s1.hdrEq, s1.hdrLe, s1.l1cov, s1.cap56⟩
        · intro a b hne ha' hb'
          have hne' : Split.l1Index d.info a ≠ Split.l1Index d.info b := by
            rw [← hi1]; exact hne
          rw [hent] at ha' hb' ⊢
          rw [hent]
          by_cases hxa : Split.l1Index d.info a = Split.l1Index d.info off
          · have hxb : ¬ Split.l1Index d.info b = Split.l1Index d.info off := fun hb2 => hne' (hxa.trans hb2.symm)
            rw [if_pos hxa]
            rw [if_neg hxb] at hb' ⊢
            rw [hm.1]
            rw [d1.l1Entry_eq] at hb' ⊢
            exact fun he => hfresh _ hb' he.symm
          · rw [if_neg hxa] at ha' ⊢
            by_cases hxb : Split.l1Index d.info b = Split.l1Index d.info off
            · rw [if_pos hxb, hm.1]
              rw [d1.l1Entry_eq] at ha' ⊢
              exact hfresh _ ha'
            · rw [if_neg hxb] at hb' ⊢
              exact s1.l1d a b hne ha' hb'
        · intro i hi
          rw [hat]
          have hi' : d1.hdrL1Entries ≤ i := hi
          rw [if_neg (by omega)]
          exact s1.l1tail i hi'
      have hD : RcDom (withL2Table d1 (Split.l1Index d.info off) x) := ⟨dom1.zero, dom1.sync, dom1.tail⟩
      refine ⟨⟨hS, hD, hA⟩, ?_, hi1, hn1, fun p hp => (by cases hp), fun _ => ?_⟩
      · intro o
        rw [← hview1 o]
        exact slot_eq_l2Entry (d := d1) (d' := withL2Table d1 (Split.l1Index d.info off) x) rfl hslot o
      · rw [hent, if_pos rfl]; exact hm.2
    · simp only [Prod.mk.injEq] at h
      obtain ⟨rfl, rfl⟩ := h
      exact ⟨⟨post.1, post.2.1, post.2.2⟩, hview1, hi1, hn1, fun p hp => (by cases hp), fun hr => (by cases hr)⟩
    · exact post.2.2.elim
  · have hz' : L1.isZero (d.l1Entry off) = false := by simpa using hz
    rw [ensureL2_mapped hz'] at h
    simp only [Prod.mk.injEq] at h
    obtain ⟨rfl, rfl⟩ := h
    exact ⟨w, fun _ => rfl, rfl, rfl, fun p hp => (by cases hp), fun _ => hz'⟩

/-! ### `alloc_and_map_cluster` -/

/-- the state after `alloc_and_map_cluster` mapped `off` to the new cluster `h` -/
def mappedAt (d1 : Dev) (off h : Nat) : Dev :=
  ({ d1 with newData := (h / d1.info.clusterSize) :: d1.newData } : Dev).setL2 off (L2.mapClusterEntry h)

theorem allocAndMap_eq (off : Nat) (d : Dev) :
    allocAndMap off d =
      match allocateClusters 1 d with
      | (d1, .ok (some (h, _))) => (mappedAt d1 off h, .ok ())
      | (d1, .ok none) => (d1, .err .nospace)
      | (d1, .err e) => (d1, .err e)
      | (d1, .panic p) => (d1, .panic p) := by
  unfold allocAndMap markNewData mappedAt
  simp only [bind, M.bind]
  generalize allocateClusters 1 d = ra
  rcases ra with ⟨d1, (_ | ⟨h, n⟩) | e | p⟩ <;> rfl

theorem mappedAt_mframe (d1 : Dev) (off h : Nat) : MFrame d1 (mappedAt d1 off h) :=
  ⟨rfl, rfl, rfl, rfl, rfl, rfl, rfl, rfl, rfl, rfl, rfl⟩

/-- **`alloc_and_map_cluster`**, any outcome, on a guest cluster whose L2 table
    exists and whose entry has no allocation: the invariant is kept; on success the
    entry is `map_cluster(x)` for a new cluster `x`; every other entry of the view
    is unchanged; on failure nothing of the view changes. -/
theorem allocAndMap_winv {d d' : Dev} {off : Nat} {r : Outcome Unit} (w : WInv d)
    (hl1 : L1.isZero (d.l1Entry off) = false) (hidx : Split.l1Index d.info off < d.hdrL1Entries)
    (hold : L2.allocation d.info.cb (d.l2Entry off) = none)
    (h : allocAndMap off d = (d', r)) (hl : Cap d') :
    WInv d' ∧ d'.info = d.info ∧ d'.hdrL1Entries = d.hdrL1Entries ∧ (∀ p, r ≠ .panic p) ∧
    (∀ o, Split.l1Index d.info o ≠ Split.l1Index d.info off ∨
        Split.l2Index d.info o ≠ Split.l2Index d.info off → d'.l2Entry o = d.l2Entry o) ∧
    (∀ o, d'.l1Entry o = d.l1Entry o) ∧
    (r = .ok () → ∃ x, d'.l2Entry off = L2.mapClusterEntry x ∧ x % 512 = 0 ∧ 0 < x ∧ x < 2^56) ∧
    (r ≠ .ok () → ∀ o, d'.l2Entry o = d.l2Entry o) := by
  rw [allocAndMap_eq] at h
  generalize ha : allocateClusters 1 d = ra at h
  obtain ⟨d1, r1⟩ := ra
  have hl1' : Cap d1 := by
    rcases r1 with (_ | ⟨x, y⟩) | e | p <;>
      (simp only [Prod.mk.injEq] at h; obtain ⟨rfl, _⟩ := h)
    · exact hl
    · exact hl
    · exact hl
    · exact hl
  obtain ⟨post, fr⟩ := allocateClusters_acct w (by decide) ha hl1'
  have hview1 : ∀ o, d1.l2Entry o = d.l2Entry o := by
    obtain ⟨_, _, _, _, _, _, _, rfl⟩ := fr; intro o; rfl
  have hl1e : ∀ o, d1.l1Entry o = d.l1Entry o := by
    obtain ⟨_, _, _, _, _, _, _, rfl⟩ := fr; intro o; rfl
  have hi1 : d1.info = d.info := fr.info
  have hn1 : d1.hdrL1Entries = d.hdrL1Entries := by
    obtain ⟨_, _, _, _, _, _, _, rfl⟩ := fr; rfl
  rcases r1 with (_ | ⟨x, n⟩) | e | p
  · simp only [Prod.mk.injEq] at h
    obtain ⟨rfl, rfl⟩ := h
    exact ⟨⟨post.1, post.2.1, post.2.2⟩, hi1, hn1, fun p hp => (by cases hp), fun o _ => hview1 o, hl1e,
      fun hr => (by cases hr), fun _ => hview1⟩
  · simp only [Prod.mk.injEq] at h
    obtain ⟨rfl, rfl⟩ := h
    obtain ⟨s1, dom1, P1, n1, n2, hal, hpos⟩ := post
    have hn : n = 1 := by omega
    subst hn
    dsimp only at s1 dom1 P1 hal
    obtain ⟨P2, s2, dom2, hent, hframe, h56, h512⟩ := map_step (d := d1) (d' := mappedAt d1 off x) (n := 0)
      s1 dom1 P1 hal hpos (by rw [hl1e]; exact hl1) (by rw [hi1, hn1]; exact hidx)
      (by rw [hi1, hview1]; exact hold) (mappedAt_mframe d1 off x) rfl
    have hA : Acct (mappedAt d1 off x) := acct_of_plus P2 (fun c => covers_zero_len _ _ _)
    refine ⟨⟨s2, dom2, hA⟩, hi1, hn1, fun p hp => (by cases hp), ?_, ?_,
      fun _ => ⟨x, hent, h512, hpos, h56⟩, fun hr => absurd rfl hr⟩
    · intro o ho
      rw [← hview1 o]
      apply hframe
      rw [hi1]; exact ho
    · intro o
      rw [← hl1e o]
      exact (mappedAt_mframe d1 off x).l1Entry o
  · simp only [Prod.mk.injEq] at h
    obtain ⟨rfl, rfl⟩ := h
    exact ⟨⟨post.1, post.2.1, post.2.2⟩, hi1, hn1, fun p hp => (by cases hp), fun o _ => hview1 o, hl1e,
      fun hr => (by cases hr), fun _ => hview1⟩
  · exact post.2.2.elim

/-! ### the single-cluster path -/

theorem allocation_none_of_backing {cb : Nat} {hb : Bool} {g : Nat} {e : E64}
    (h : (L2.intoMapping cb hb g e).source = .backing) : L2.allocation cb e = none := by
  unfold L2.intoMapping at h
  unfold L2.allocation
  split at h
  · cases h
  · split at h
    · cases h
    · split at h
      · rename_i h0; rw [if_pos h0]
      · cases h

theorem mapClusterEntry_source (cb : Nat) (hb : Bool) (gc x : Nat) (h512 : x % 512 = 0) (hpos : 0 < x)
    (h56 : x < 2^56) : (L2.intoMapping cb hb gc (L2.mapClusterEntry x)).source = .dataFile := by
  rw [intoMapping_mapClusterEntry _ _ _ x h512 hpos h56]

theorem makeSingle_eq (off : Nat) (d : Dev) :
    makeSingleWriteMapping off d =
      match ensureL2 off d with
      | (d1, .ok ()) =>
        if (L2.plainOffset (d1.mapping off) 0).isNone then
          match allocAndMap off d1 with
          | (d2, .ok ()) =>
            ({ d2 with needFlush := true }, .ok (({ d2 with needFlush := true } : Dev).l2Entry off))
          | (d2, .err e) => (d2, .err e)
          | (d2, .panic p) => (d2, .panic p)
        else (d1, .ok (d1.l2Entry off))
      | (d1, .err e) => (d1, .err e)
      | (d1, .panic p) => (d1, .panic p) := by
  unfold makeSingleWriteMapping
  simp only [bind, M.bind, M.get, pure]
  generalize ensureL2 off d = r1
  rcases r1 with ⟨d1, _ | e | p⟩
  · dsimp only
    split
    · simp only [M.bind, M.get, M.modify, M.pure]
      generalize allocAndMap off d1 = r2
      rcases r2 with ⟨d2, _ | e | p⟩ <;> rfl
    · rfl
  · rfl
  · rfl

/-- what the mapping functions of the single-cluster path guarantee about the entry
    of the target cluster: unchanged, or `map_cluster(x)` for a new cluster `x` -/
def EntryKept (d d' : Dev) (off : Nat) : Prop :=
  d'.l2Entry off = d.l2Entry off ∨
    ∃ x, d'.l2Entry off = L2.mapClusterEntry x ∧ x % 512 = 0 ∧ 0 < x ∧ x < 2^56

theorem nf_mframe (d : Dev) : MFrame d { d with needFlush := true } :=
  ⟨rfl, rfl, rfl, rfl, rfl, rfl, rfl, rfl, rfl, rfl, rfl⟩

/-- **`make_single_write_mapping`**, any outcome; `hnp`: when the entry of the target is
    replaced (it has no plain offset) it has no allocation. -/
theorem makeSingle_winv {d d' : Dev} {off : Nat} {r : Outcome E64} (w : WInv d)
    (hidx : Split.l1Index d.info off < d.hdrL1Entries)
    (hnp : L2.plainOffset (d.mapping off) 0 = none → L2.allocation d.info.cb (d.l2Entry off) = none)
    (h : makeSingleWriteMapping off d = (d', r)) (hl : Cap d') :
    WInv d' ∧ d'.info = d.info ∧ d'.hdrL1Entries = d.hdrL1Entries ∧ (∀ p, r ≠ .panic p) ∧
    EntryKept d d' off ∧ (∀ e, r = .ok e → e = d'.l2Entry off) ∧
    (∀ o, Split.l1Index d.info o ≠ Split.l1Index d.info off ∨
        Split.l2Index d.info o ≠ Split.l2Index d.info off → d'.l2Entry o = d.l2Entry o) := by
  rw [makeSingle_eq] at h
  generalize h1 : ensureL2 off d = r1 at h
  obtain ⟨d1, o1⟩ := r1
  rcases o1 with _ | e | p
  · dsimp only at h
    by_cases hp : (L2.plainOffset (d1.mapping off) 0).isNone = true
    · rw [if_pos hp] at h
      generalize h2 : allocAndMap off d1 = r2 at h
      obtain ⟨d2, o2⟩ := r2
      have m2 := (allocAndMap_mn off).rm_of_eq h2
      have hl2 : Cap d2 := by
        rcases o2 with _ | e | p <;> (simp only [Prod.mk.injEq] at h; obtain ⟨rfl, _⟩ := h)
        · exact hl
        · exact hl
        · exact hl
      obtain ⟨w1, v1, i1, n1, _, z1⟩ := ensureL2_winv w hidx h1 (m2.cap hl2)
      have hmap1 : d1.mapping off = d.mapping off := mapping_congr' i1 (v1 off)
      obtain ⟨w2, i2, n2, np2, f2, _, ok2, nok2⟩ := allocAndMap_winv w1 (z1 rfl) (by rw [i1, n1]; exact hidx)
        (by rw [i1, v1]; apply hnp
            rw [← hmap1]
            cases hx : L2.plainOffset (d1.mapping off) 0 with
            | none => rfl
            | some v => rw [hx] at hp; cases hp) h2 hl2
      rcases o2 with _ | e | p
      · simp only [Prod.mk.injEq] at h
        obtain ⟨rfl, rfl⟩ := h
        obtain ⟨x, hx⟩ := ok2 rfl
        have fr := nf_mframe d2
        refine ⟨fr.winv rfl w2, i2.trans i1, n2.trans n1, fun p hp => (by cases hp), Or.inr ⟨x, ?_, hx.2⟩,
          fun e he => ?_, fun o ho => ?_⟩
        · rw [fr.l2Entry rfl]; exact hx.1
        · simp only [Outcome.ok.injEq] at he; exact he.symm
        · rw [fr.l2Entry rfl, f2 o (by rw [i1]; exact ho), v1]
      · simp only [Prod.mk.injEq] at h
        obtain ⟨rfl, rfl⟩ := h
        refine ⟨w2, i2.trans i1, n2.trans n1, fun p hp => (by cases hp), Or.inl ?_, fun e he => (by cases he),
          fun o _ => ?_⟩
        · rw [nok2 (fun hx => by cases hx), v1]
        · rw [nok2 (fun hx => by cases hx), v1]
      · exact absurd rfl (np2 p)
    · rw [if_neg hp] at h
      simp only [Prod.mk.injEq] at h
      obtain ⟨rfl, rfl⟩ := h
      obtain ⟨w1, v1, i1, n1, _, _⟩ := ensureL2_winv w hidx h1 hl
      refine ⟨w1, i1, n1, fun p hp => (by cases hp), Or.inl (v1 off), fun e he => ?_, fun o _ => v1 o⟩
      simp only [Outcome.ok.injEq] at he; exact he.symm
  · simp only [Prod.mk.injEq] at h
    obtain ⟨rfl, rfl⟩ := h
    obtain ⟨w1, v1, i1, n1, _, _⟩ := ensureL2_winv w hidx h1 hl
    exact ⟨w1, i1, n1, fun p hp => (by cases hp), Or.inl (v1 off), fun e he => (by cases he), fun o _ => v1 o⟩
  · simp only [Prod.mk.injEq] at h
    obtain ⟨rfl, rfl⟩ := h
    obtain ⟨_, _, _, _, np, _⟩ := ensureL2_winv w hidx h1 hl
    exact absurd rfl (np p)

theorem populateSingle_eq (off : Nat) (d : Dev) :
    populateSingle off d =
      if needMakeMapping d.info (d.mapping off) then makeSingleWriteMapping off d
      else (d, .ok (d.l2Entry off)) := by
  unfold populateSingle
  simp only [bind, M.bind, M.get]
  split <;> rfl

/-- **`populate_single_write_mapping`**, any outcome -/
theorem populateSingle_winv {d d' : Dev} {off : Nat} {r : Outcome E64} (w : WInv d)
    (hidx : Split.l1Index d.info off < d.hdrL1Entries)
    (hnp : L2.plainOffset (d.mapping off) 0 = none → needMakeMapping d.info (d.mapping off) = true →
      L2.allocation d.info.cb (d.l2Entry off) = none)
    (h : populateSingle off d = (d', r)) (hl : Cap d') :
    WInv d' ∧ d'.info = d.info ∧ d'.hdrL1Entries = d.hdrL1Entries ∧ (∀ p, r ≠ .panic p) ∧
    EntryKept d d' off ∧ (∀ e, r = .ok e → e = d'.l2Entry off) ∧
    (∀ o, Split.l1Index d.info o ≠ Split.l1Index d.info off ∨
        Split.l2Index d.info o ≠ Split.l2Index d.info off → d'.l2Entry o = d.l2Entry o) := by
  rw [populateSingle_eq] at h
  by_cases hn : needMakeMapping d.info (d.mapping off) = true
  · rw [if_pos hn] at h
    exact makeSingle_winv w hidx (fun hp => hnp hp hn) h hl
  · rw [if_neg hn] at h
    simp only [Prod.mk.injEq] at h
    obtain ⟨rfl, rfl⟩ := h
    refine ⟨w, rfl, rfl, fun p hp => (by cases hp), Or.inl rfl, fun e he => ?_, fun _ _ => rfl⟩
    simp only [Outcome.ok.injEq] at he; exact he.symm

theorem doWriteCow_eq_plain (off : Nat) (m : Mapping) (toks : List Nat) (d : Dev)
    (hm : m.source ≠ .compressed) :
    doWriteCow off m toks d =
      match ensureL2 off d with
      | (d1, .ok ()) =>
        if (d1.mapping off).source = .compressed ∨ (d1.mapping off).source = .backing then
          match allocAndMap off d1 with
          | (d2, .ok ()) =>
            doWriteDataFile off (({ d2 with needFlush := true } : Dev).mapping off) (some m) toks
              { d2 with needFlush := true }
          | (d2, .err e) => (d2, .err e)
          | (d2, .panic p) => (d2, .panic p)
        else (d1, .err .other)
      | (d1, .err e) => (d1, .err e)
      | (d1, .panic p) => (d1, .panic p) := by
  unfold doWriteCow
  simp only [bind, M.bind, M.get, hm, not_false_eq_true, if_true, if_false]
  generalize ensureL2 off d = r1
  rcases r1 with ⟨d1, _ | e | p⟩
  · dsimp only
    split
    · simp only [M.bind, M.get, M.modify]
      generalize allocAndMap off d1 = r2
      rcases r2 with ⟨d2, _ | e | p⟩
      · dsimp only
        generalize doWriteDataFile off _ (some m) toks _ = r3
        rcases r3 with ⟨d3, _ | e | p⟩ <;> rfl
      · rfl
      · rfl
    · rfl
  · rfl
  · rfl

/-- **`do_write_cow`** from the backing file (the target is not a compressed cluster),
    any outcome: a new cluster is allocated and mapped, nothing is released -/
theorem doWriteCow_plain_winv {d d' : Dev} {off : Nat} {m : Mapping} {toks : List Nat}
    {r : Outcome Unit} (w : WInv d) (hidx : Split.l1Index d.info off < d.hdrL1Entries)
    (hm : m.source ≠ .compressed) (hsrc : (d.mapping off).source ≠ .compressed)
    (h : doWriteCow off m toks d = (d', r)) (hl : Cap d') :
    WInv d' ∧ d'.info = d.info ∧ d'.hdrL1Entries = d.hdrL1Entries ∧ (∀ p, r ≠ .panic p) ∧
    EntryKept d d' off ∧
    (∀ o, Split.l1Index d.info o ≠ Split.l1Index d.info off ∨
        Split.l2Index d.info o ≠ Split.l2Index d.info off → d'.l2Entry o = d.l2Entry o) := by
  rw [doWriteCow_eq_plain off m toks d hm] at h
  generalize h1 : ensureL2 off d = r1 at h
  obtain ⟨d1, o1⟩ := r1
  rcases o1 with _ | e | p
  · dsimp only at h
    by_cases hc : (d1.mapping off).source = .compressed ∨ (d1.mapping off).source = .backing
    · rw [if_pos hc] at h
      generalize h2 : allocAndMap off d1 = r2 at h
      obtain ⟨d2, o2⟩ := r2
      have m2 := (allocAndMap_mn off).rm_of_eq h2
      have hl2 : Cap d2 := by
        rcases o2 with _ | e | p
        · dsimp only at h
          have := (doWriteDataFile_mframe off (({ d2 with needFlush := true } : Dev).mapping off) (some m)
            toks { d2 with needFlush := true }).1
          rw [h] at this
          dsimp only at this
          exact ((nf_mframe d2).trans this).cap hl
        · simp only [Prod.mk.injEq] at h; obtain ⟨rfl, _⟩ := h; exact hl
        · simp only [Prod.mk.injEq] at h; obtain ⟨rfl, _⟩ := h; exact hl
      obtain ⟨w1, v1, i1, n1, _, z1⟩ := ensureL2_winv w hidx h1 (m2.cap hl2)
      have hmap1 : d1.mapping off = d.mapping off := mapping_congr' i1 (v1 off)
      have hback : (d1.mapping off).source = .backing := by
        rcases hc with hc | hc
        · rw [hmap1] at hc; exact absurd hc hsrc
        · exact hc
      obtain ⟨w2, i2, n2, np2, fr2, _, ok2, nok2⟩ := allocAndMap_winv w1 (z1 rfl)
        (by rw [i1, n1]; exact hidx) (allocation_none_of_backing hback) h2 hl2
      have hframe2 : ∀ o, Split.l1Index d.info o ≠ Split.l1Index d.info off ∨
          Split.l2Index d.info o ≠ Split.l2Index d.info off → d2.l2Entry o = d.l2Entry o := by
        intro o ho
        rw [fr2 o (by rw [i1]; exact ho), v1]
      rcases o2 with _ | e | p
      · dsimp only at h
        obtain ⟨x, hx⟩ := ok2 rfl
        obtain ⟨f3, l3, _⟩ := doWriteDataFile_mframe off (({ d2 with needFlush := true } : Dev).mapping off)
          (some m) toks { d2 with needFlush := true }
        have np3 := doWriteDataFile_nopanic off (({ d2 with needFlush := true } : Dev).mapping off)
          (some m) toks { d2 with needFlush := true }
        rw [h] at f3 l3 np3
        dsimp only at f3 l3 np3
        have fr := (nf_mframe d2).trans f3
        have hl2' : d'.l2 = d2.l2 := l3
        refine ⟨fr.winv hl2' w2, (fr.info.trans i2).trans i1, (fr.hdrL1Entries.trans n2).trans n1, np3,
          Or.inr ⟨x, ?_, hx.2⟩, ?_⟩
        · rw [fr.l2Entry hl2']; exact hx.1
        · intro o ho
          rw [fr.l2Entry hl2']; exact hframe2 o ho
      · simp only [Prod.mk.injEq] at h
        obtain ⟨rfl, rfl⟩ := h
        have hv := nok2 (fun hx => by cases hx)
        refine ⟨w2, i2.trans i1, n2.trans n1, fun p hp => (by cases hp), Or.inl ?_, fun o _ => ?_⟩
        · rw [hv, v1]
        · rw [hv, v1]
      · exact absurd rfl (np2 p)
    · rw [if_neg hc] at h
      simp only [Prod.mk.injEq] at h
      obtain ⟨rfl, rfl⟩ := h
      obtain ⟨w1, v1, i1, n1, _, _⟩ := ensureL2_winv w hidx h1 hl
      exact ⟨w1, i1, n1, fun p hp => (by cases hp), Or.inl (v1 off), fun o _ => v1 o⟩
  · simp only [Prod.mk.injEq] at h
    obtain ⟨rfl, rfl⟩ := h
    obtain ⟨w1, v1, i1, n1, _, _⟩ := ensureL2_winv w hidx h1 hl
    exact ⟨w1, i1, n1, fun p hp => (by cases hp), Or.inl (v1 off), fun o _ => v1 o⟩
  · simp only [Prod.mk.injEq] at h
    obtain ⟨rfl, rfl⟩ := h
    obtain ⟨_, _, _, _, np, _⟩ := ensureL2_winv w hidx h1 hl
    exact absurd rfl (np p)

end Qv.Model
