import Qv.Model.Dev
import Qv.Proofs.Flat
import Qv.Model.Format
import Qv.Model.Requests
import Qv.Proofs.Alloc
import Qv.Props.C08
import Qv.Props.C13
import Qv.Props.C15
import Qv.Proofs.Codec
/-
Helpers for C10 (read-only sources are never written), C02 (reopen preserves
every byte) and C16 (alignment of every backend request):
  * `FMap.get_setRange`
  * divisibility facts for the request arithmetic, `pieces`
  * the frame predicate `SameBack` and its proof for every state-changing
    function of `Qv.Model.Dev`, bottom-up
  * the operation histories `Op` / `run`
-/
namespace Qv

/-! ### finite maps -/
namespace FMap
variable {α : Type}

theorem setRange_succ (f : FMap α) (k n : Nat) (g : Nat → α) :
    f.setRange k (n + 1) g = (f.setRange k n g).set (k + n) (g n) := by
  unfold setRange
  rw [List.range_succ, List.foldl_append]
  rfl

theorem get_setRange_outside' (f : FMap α) (k n : Nat) (g : Nat → α) (j : Nat)
    (h : j < k ∨ k + n ≤ j) : (f.setRange k n g).get j = f.get j := by
  rw [get_setRange]
  have : ¬ (k ≤ j ∧ j < k + n) := by omega
  simp only [this, if_false]

end FMap

/-! ### divisibility / alignment arithmetic (C16) -/
namespace Arith16

theorem mod_zero_of_dvd_of_mod {a b x : Nat} (hab : a ∣ b) (h : x % b = 0) : x % a = 0 :=
  Nat.mod_eq_zero_of_dvd (Nat.dvd_trans hab (Nat.dvd_of_mod_eq_zero h))

theorem add_mod_zero {a x y : Nat} (hx : x % a = 0) (hy : y % a = 0) : (x + y) % a = 0 :=
  Nat.mod_eq_zero_of_dvd (Nat.dvd_add (Nat.dvd_of_mod_eq_zero hx) (Nat.dvd_of_mod_eq_zero hy))

theorem sub_mod_zero {a x y : Nat} (hx : x % a = 0) (hy : y % a = 0) : (x - y) % a = 0 :=
  Nat.mod_eq_zero_of_dvd (Nat.dvd_sub (Nat.dvd_of_mod_eq_zero hx) (Nat.dvd_of_mod_eq_zero hy))

theorem mul_mod_zero_right {a y : Nat} (x : Nat) (hy : y % a = 0) : (x * y) % a = 0 :=
  Nat.mod_eq_zero_of_dvd (Nat.dvd_trans (Nat.dvd_of_mod_eq_zero hy) (Nat.dvd_mul_left y x))

theorem two_pow_mod {a b : Nat} (h : a ≤ b) : 2^b % 2^a = 0 :=
  Nat.mod_eq_zero_of_dvd (Nat.pow_dvd_pow 2 h)

theorem alignUp_mod (x a : Nat) : Codec.Info.alignUp x a % a = 0 := by
  unfold Codec.Info.alignUp; exact Nat.mul_mod_left _ _

theorem alignUp_ge (x a : Nat) (ha : 0 < a) : x ≤ Codec.Info.alignUp x a := by
  unfold Codec.Info.alignUp
  have h1 := Nat.div_add_mod (x + a - 1) a
  have h2 := Nat.mod_lt (x + a - 1) ha
  rw [Nat.mul_comm] at h1
  omega

/-- `x % c` is a multiple of `a` when `a ∣ c` and `a ∣ x` -/
theorem mod_mod_zero {a c x : Nat} (hac : a ∣ c) (hx : x % a = 0) : (x % c) % a = 0 := by
  rw [Nat.mod_mod_of_dvd x hac]; exact hx

theorem min_mod_zero {a x y : Nat} (hx : x % a = 0) (hy : y % a = 0) : (min x y) % a = 0 := by
  rcases Nat.le_total x y with h | h
  · rw [Nat.min_eq_left h]; exact hx
  · rw [Nat.min_eq_right h]; exact hy

end Arith16

/-! ### `pieces` -/
namespace Model

/-- the pieces `ps` tile `[a, b)` in order; each is non-empty, a whole number of
    sectors, and stays inside one cluster of size `cs` -/
def Tiles (cs : Nat) : Nat → List (Nat × Nat) → Nat → Prop
  | a, [], b => a = b
  | a, (o, n) :: ps, b =>
    o = a ∧ 0 < n ∧ (o + n * 512 - 1) / cs = o / cs ∧ Tiles cs (o + n * 512) ps b

theorem pieces_len_zero (cs fuel off : Nat) : pieces cs fuel off 0 = [] := by
  cases fuel <;> simp [pieces]

theorem pieces_succ (cs fuel off len : Nat) (h : len ≠ 0) :
    pieces cs (fuel + 1) off len
      = (off, min (cs - off % cs) len / 512)
          :: pieces cs fuel (off + min (cs - off % cs) len) (len - min (cs - off % cs) len) := by
  simp [pieces, h]

theorem pieces_range (cs : Nat) :
    ∀ (fuel off len : Nat), ∀ p ∈ pieces cs fuel off len, off ≤ p.1 ∧ p.1 < off + len := by
  intro fuel
  induction fuel with
  | zero => intro off len p hp; simp [pieces] at hp
  | succ fuel ih =>
    intro off len p hp
    by_cases hz : len = 0
    · subst hz; rw [pieces_len_zero] at hp; cases hp
    · rw [pieces_succ _ _ _ _ hz] at hp
      have hle2 := Nat.min_le_right (cs - off % cs) len
      rcases List.mem_cons.1 hp with rfl | hp
      · dsimp only; omega
      · have := ih _ _ p hp
        omega

/-! ### reopen (C02) -/
open Qv.Codec
open Qv.Props.C15 (Geom)

/-- the RAM L1 table is sized by `Qcow2Dev::new` for the virtual size -/
def L1Sized (d : Dev) : Prop := d.l1Len = ramL1Len d.info.vsize d.info.cb d.info.bsb

theorem reopenDev_ok {d d' : Dev} {p : Params} (h : reopenDev d p = .ok d') :
    ∃ info, Info.new { clusterBits := d.info.cb, refcountOrder := d.info.ro, size := d.info.vsize,
                       hasBackingName := d.info.hasBack } p = .ok info ∧
      d' = { d with info := info, l1Len := ramL1Len d.info.vsize d.info.cb p.bsBits,
                    l1HdrEntries := d.hdrL1Entries, newData := [], hint := 0, needFlush := false } := by
  unfold reopenDev at h
  cases hn : Info.new { clusterBits := d.info.cb, refcountOrder := d.info.ro, size := d.info.vsize,
                        hasBackingName := d.info.hasBack } p with
  | ok info =>
    rw [hn] at h
    simp only [Outcome.bind_ok, Outcome.ok.injEq] at h
    exact ⟨info, rfl, h.symm⟩
  | err e => rw [hn] at h; cases h
  | panic s => rw [hn] at h; cases h

/-- the geometry fields of the info computed at reopen that the data path reads -/
theorem reopen_info {d d' : Dev} {p : Params} (h : reopenDev d p = .ok d') :
    d'.info.cb = d.info.cb ∧ d'.info.vsize = d.info.vsize ∧ d'.info.ro = d.info.ro ∧
    d'.info.hasBack = d.info.hasBack ∧ d'.info.bsb = p.bsBits ∧ d'.info.readOnly = p.readOnly ∧
    d'.info.l2IndexShift = tz 64 (2^d.info.cb / 8) ∧ 3 ≤ d.info.cb ∧ d.info.cb < 64 := by
  obtain ⟨info, hn, rfl⟩ := reopenDev_ok h
  obtain ⟨h3, h64, _, l2sb, l2cnt, rbsb, rbcnt, _, _, _, _, rfl⟩ := Info.new_ok hn
  exact ⟨rfl, rfl, rfl, rfl, rfl, rfl, rfl, h3, h64⟩

theorem geom_l2IndexShift {i : Info} (g : Geom i) : i.l2IndexShift = i.cb - 3 := by
  have h : 2^i.l2IndexShift = 2^(i.cb - 3) := by
    rw [g.l2IndexShift_eq, g.l2Entries_eq, Arith.two_pow_div_eight g.cb_ge]
  exact Nat.le_antisymm (Arith.pow_le_of_two_pow_le (Nat.le_of_eq h))
    (Arith.pow_le_of_two_pow_le (Nat.le_of_eq h.symm))

theorem reopen_l2IndexShift {d d' : Dev} {p : Params} (g : Geom d.info) (h : reopenDev d p = .ok d') :
    d'.info.l2IndexShift = d.info.l2IndexShift := by
  obtain ⟨_, _, _, _, _, _, hs, h3, h64⟩ := reopen_info h
  rw [hs, Arith.two_pow_div_eight h3, tz_two_pow _ _ (by omega), geom_l2IndexShift g]

/-- an in-range guest offset indexes inside the RAM L1 table, as long as the
    virtual size is within what the 32 MiB L1 limit can map (otherwise
    `__max_l1_entries` caps the table and the statement is false) -/
theorem l1Index_lt_ramL1Len {i : Info} (g : Geom i) (size bsb off : Nat) (h : off < size)
    (hcap : (size + (2^i.cb / 8) * 2^i.cb - 1) / ((2^i.cb / 8) * 2^i.cb) ≤ (32 * 2^20) / 8) :
    Split.l1Index i off < ramL1Len size i.cb bsb := by
  unfold ramL1Len Info.maxL1Size Info.maxL1EntriesOf Split.l1Index
  dsimp only
  rw [Nat.min_eq_left hcap]
  have hper : 2^(i.cb + i.l2IndexShift) = (2^i.cb / 8) * 2^i.cb := by
    rw [Nat.pow_add, g.l2IndexShift_eq, g.l2Entries_eq, Nat.mul_comm]
  rw [hper]
  generalize hP : (2^i.cb / 8) * 2^i.cb = per
  have hppos : 0 < per := by
    rw [← hP, Arith.two_pow_div_eight g.cb_ge]
    exact Nat.mul_pos (Nat.two_pow_pos _) (Nat.two_pow_pos _)
  have h1 : off / per < (size + per - 1) / per := by
    have a1 : (off + per) / per = off / per + 1 := Nat.add_div_right off hppos
    have a2 : (off + per) / per ≤ (size + per - 1) / per := Nat.div_le_div_right (by omega)
    omega
  have h2 := Arith16.alignUp_ge ((size + per - 1) / per * 8) (2^bsb) (Nat.two_pow_pos _)
  omega

/-! ### C10: the frame `SameBack` of every state-changing function -/

/-- what no operation on the top device may change: the backing chain's
    content, the plaintext oracle of compressed clusters, geometry, version -/
def SameBack (d d' : Dev) : Prop :=
  d'.back = d.back ∧ d'.comp = d.comp ∧ d'.info = d.info ∧ d'.version = d.version

theorem SameBack.refl (d : Dev) : SameBack d d := ⟨rfl, rfl, rfl, rfl⟩
theorem SameBack.trans {a b c : Dev} (h1 : SameBack a b) (h2 : SameBack b c) : SameBack a c :=
  ⟨h2.1.trans h1.1, h2.2.1.trans h1.2.1, h2.2.2.1.trans h1.2.2.1, h2.2.2.2.trans h1.2.2.2⟩

/-- a computation of the device monad that keeps the read-only sources, whatever its outcome -/
structure Fr {α : Type} (x : M α) : Prop where
  same : ∀ d, SameBack d (x d).1

namespace Fr
variable {α β : Type}

theorem of_eq {x : M α} (hx : Fr x) {d d' : Dev} {r : Outcome α} (h : x d = (d', r)) : SameBack d d' := by
  have := hx.same d; rw [h] at this; exact this

theorem pure (a : α) : Fr (Pure.pure a : M α) := ⟨fun d => SameBack.refl d⟩
theorem pure' (a : α) : Fr (M.pure a : M α) := ⟨fun d => SameBack.refl d⟩
theorem get : Fr M.get := ⟨fun d => SameBack.refl d⟩
theorem fail (e : Err) : Fr (M.fail e : M α) := ⟨fun d => SameBack.refl d⟩
theorem panic (p : String) : Fr (M.panic p : M α) := ⟨fun d => SameBack.refl d⟩
theorem lift (o : Outcome α) : Fr (M.lift o) := ⟨fun d => SameBack.refl d⟩
theorem modify {g : Dev → Dev} (h : ∀ d, SameBack d (g d)) : Fr (M.modify g) := ⟨fun d => h d⟩

theorem bind {x : M α} {f : α → M β} (hx : Fr x) (hf : ∀ a, Fr (f a)) : Fr (x >>= f) := by
  refine ⟨fun d => ?_⟩
  show SameBack d (M.bind x f d).1
  unfold M.bind
  have := hx.same d
  generalize x d = r at this
  rcases r with ⟨d1, a | e | p⟩
  · exact this.trans ((hf a).same d1)
  · exact this
  · exact this

end Fr

theorem freeClusters_sameBack (host n : Nat) (fz : Bool) (d : Dev) :
    SameBack d (freeClusters host n fz d).1 := by
  rw [(freeClusters_frame host n fz d).1]; exact ⟨rfl, rfl, rfl, rfl⟩

/-- statement unchanged; re-proved through the growth path (`growReftable` touches only
    `rc`, `rt`, `rtLen`, the header's reftable fields and `needFlush`) -/
theorem ensureRefblock_fr (off : Nat) : Fr (ensureRefblock off) := by
  refine ⟨fun d => ?_⟩
  apply ensureRefblock_rel SameBack SameBack.refl (fun _ _ _ => SameBack.trans)
  · intro i d _; rw [growReftable_frame]; exact ⟨rfl, rfl, rfl, rfl⟩
  · intro i d; rw [ensureRefblockIn_frame]; exact ⟨rfl, rfl, rfl, rfl⟩
  · exact freeClusters_sameBack

theorem allocRange_fr (c0 s n : Nat) : Fr (allocRange c0 s n) := by
  refine ⟨fun d => ?_⟩; rw [allocRange_frame]; exact ⟨rfl, rfl, rfl, rfl⟩

theorem tryAlloc_fr (off count : Nat) (fixed : Bool) : Fr (tryAllocFromRbSlice off count fixed) := by
  refine ⟨fun d => ?_⟩
  obtain ⟨d', r, h⟩ := tryAlloc_total off count fixed d
  rw [h]
  cases r with
  | none => rw [(tryAlloc_none h).1]; exact SameBack.refl d
  | some x =>
    obtain ⟨o, n⟩ := x
    obtain ⟨s, _, _, _, _, _, _, _, _, _, h10⟩ := tryAlloc_some h
    dsimp only; rw [h10]; exact ⟨rfl, rfl, rfl, rfl⟩

theorem freeClusters_fr (host n : Nat) (fz : Bool) : Fr (freeClusters host n fz) := by
  refine ⟨fun d => ?_⟩; rw [(freeClusters_frame host n fz d).1]; exact ⟨rfl, rfl, rfl, rfl⟩

theorem loopStep_sameBack (rbEnd allocCnt host count outOff done : Nat) (d : Dev) :
    match loopStep rbEnd allocCnt host count outOff done d with
    | .ret r => SameBack d r.1
    | .cont _ _ _ _ d' => SameBack d d' := by
  unfold loopStep
  dsimp only
  by_cases hc : count > 0 ∧ host < rbEnd
  · rw [if_neg (not_not_intro hc)]
    generalize hr : tryAllocFromRbSlice host (min count d.info.rbSliceEntries) (decide (done ≠ 0)) d = r
    rcases r with ⟨d1, (_ | ⟨o, n⟩) | e | p⟩
    all_goals (try dsimp only)
    · by_cases h0 : done = 0
      · rw [if_pos h0]; exact (tryAlloc_fr _ _ _).of_eq hr
      · rw [if_neg h0]; exact (tryAlloc_fr _ _ _).of_eq hr
    · have m1 := (tryAlloc_fr _ _ _).of_eq hr
      by_cases hf : done ≠ 0 ∧ host ≠ o
      · rw [if_pos hf]
        generalize hr2 : freeClusters outOff done true d1 = r2
        rcases r2 with ⟨d2, _ | e | p⟩
        all_goals (try dsimp only)
        · have m2 := (freeClusters_fr _ _ _).of_eq hr2
          generalize hr3 : freeClusters o n true d2 = r3
          rcases r3 with ⟨d3, _ | e | p⟩ <;>
            exact m1.trans (m2.trans ((freeClusters_fr _ _ _).of_eq hr3))
        · exact m1.trans ((freeClusters_fr _ _ _).of_eq hr2)
        · exact m1.trans ((freeClusters_fr _ _ _).of_eq hr2)
      · rw [if_neg hf]
        by_cases hn : n > count
        · rw [if_pos hn]; exact m1
        · rw [if_neg hn]; exact m1
    · exact (tryAlloc_fr _ _ _).of_eq hr
    · exact (tryAlloc_fr _ _ _).of_eq hr
  · rw [if_pos hc]; exact SameBack.refl d

theorem tryAllocateLoop_fr (rbEnd allocCnt fuel host count outOff done : Nat) :
    Fr (tryAllocateLoop rbEnd allocCnt fuel host count outOff done) := by
  refine ⟨fun d => ?_⟩
  induction fuel generalizing host count outOff done d with
  | zero => exact SameBack.refl d
  | succ fuel ih =>
    rw [tryAllocateLoop_succ]
    have := loopStep_sameBack rbEnd allocCnt host count outOff done d
    split <;> rename_i heq <;> rw [heq] at this
    · exact this
    · exact SameBack.trans this (ih _ _ _ _ _)

theorem tryAllocateFrom_fr (host allocCnt : Nat) : Fr (tryAllocateFrom host allocCnt) := by
  refine ⟨fun d => ?_⟩
  unfold tryAllocateFrom
  split
  · exact SameBack.refl d
  · have h1 := (ensureRefblock_fr host).same d
    generalize ensureRefblock host d = r at h1
    rcases r with ⟨d1, _ | e | p⟩
    · exact h1.trans ((tryAllocateLoop_fr _ _ _ _ _ _ _).same d1)
    · exact h1
    · exact h1

theorem allocateLoop_fr (count fuel hostOff : Nat) : Fr (allocateLoop count fuel hostOff) := by
  refine ⟨fun d => ?_⟩
  induction fuel generalizing hostOff d with
  | zero => exact SameBack.refl d
  | succ fuel ih =>
    rw [allocateLoop]
    dsimp only
    have h1 := (tryAllocateFrom_fr hostOff count).same d
    generalize tryAllocateFrom hostOff count d = r at h1
    rcases r with ⟨d1, (_ | ⟨o, n⟩) | e | p⟩
    all_goals (try dsimp only)
    · exact h1.trans (ih _ d1)
    · split
      · exact h1.trans ⟨rfl, rfl, rfl, rfl⟩
      · exact h1
    · exact h1
    · exact h1

theorem allocateClusters_fr (count : Nat) : Fr (allocateClusters count) :=
  ⟨fun d => (allocateLoop_fr count _ _).same d⟩

theorem markNewData_fr (h : Nat) : Fr (markNewData h) :=
  Fr.modify fun _ => ⟨rfl, rfl, rfl, rfl⟩

theorem setL2_sameBack (d : Dev) (off : Nat) (e : E64) : SameBack d (d.setL2 off e) := ⟨rfl, rfl, rfl, rfl⟩

theorem ensureL2_fr (off : Nat) : Fr (ensureL2 off) := by
  refine ⟨fun d => ?_⟩
  unfold ensureL2
  dsimp only
  split
  · exact SameBack.refl d
  · -- the header-update step
    generalize hr : (if Split.l1Index d.info off < d.l1HdrEntries then (d, Outcome.ok ())
        else if Split.l1Index d.info off ≥ d.l1Len then (d, Outcome.err Err.unsupported)
        else if min d.info.maxL1Entries d.l1Len > d.info.maxL1Entries then
          (d, Outcome.panic "write.rs:flush_header_for_l1_table:assert")
        else ({ d with hdrL1Entries := min d.info.maxL1Entries d.l1Len,
                       l1HdrEntries := min d.info.maxL1Entries d.l1Len }, Outcome.ok ())) = r
    have h0 : SameBack d r.1 := by
      rw [← hr]; repeat' split
      all_goals exact ⟨rfl, rfl, rfl, rfl⟩
    rcases r with ⟨d0, _ | e | p⟩
    all_goals dsimp only at h0 ⊢
    · split
      · exact h0
      · have h1 := (allocateClusters_fr 1).same d0
        generalize allocateClusters 1 d0 = r1 at h1
        rcases r1 with ⟨d1, (_ | ⟨o, n⟩) | e | p⟩
        all_goals dsimp only at h1 ⊢
        · exact h0.trans h1
        · exact h0.trans (h1.trans ⟨rfl, rfl, rfl, rfl⟩)
        · exact h0.trans h1
        · exact h0.trans h1
    · exact h0
    · exact h0

theorem releaseZeroPrealloc_fr (old : E64) : Fr (releaseZeroPrealloc old) := by
  refine ⟨fun d => ?_⟩
  unfold releaseZeroPrealloc
  split
  · split
    · exact (freeClusters_fr _ _ _).same d
    · exact SameBack.refl d
  · exact SameBack.refl d

theorem allocAndMap_fr (off : Nat) : Fr (allocAndMap off) := by
  unfold allocAndMap
  apply Fr.bind (allocateClusters_fr 1)
  intro a
  split
  · apply Fr.bind (markNewData_fr _); intro _
    refine Fr.modify ?_
    intro _; exact ⟨rfl, rfl, rfl, rfl⟩
  · exact Fr.fail _

theorem makeSingleWriteMapping_fr (off : Nat) : Fr (makeSingleWriteMapping off) := by
  unfold makeSingleWriteMapping
  apply Fr.bind (ensureL2_fr off); intro _
  apply Fr.bind Fr.get; intro d
  dsimp only
  have hjp : Fr (do let d ← M.get; Pure.pure (d.l2Entry off) : M E64) :=
    Fr.bind Fr.get fun _ => Fr.pure _
  split
  · apply Fr.bind (allocAndMap_fr off); intro _
    refine Fr.bind (Fr.modify ?_) ?_
    · intro _; exact ⟨rfl, rfl, rfl, rfl⟩
    · intro _; exact hjp
  · exact hjp

theorem populateSingle_fr (off : Nat) : Fr (populateSingle off) := by
  unfold populateSingle
  apply Fr.bind Fr.get; intro d
  split
  · exact makeSingleWriteMapping_fr off
  · exact Fr.pure _

theorem mapRun_fr (cstart ccnt stop fuel this idx : Nat) (acc : List E64) :
    Fr (mapRun cstart ccnt stop fuel this idx acc) := by
  refine ⟨fun d => ?_⟩
  induction fuel generalizing this idx acc d with
  | zero => exact SameBack.refl d
  | succ fuel ih =>
    rw [mapRun]
    dsimp only
    split
    · exact SameBack.refl d
    · split
      · generalize hd2 : Dev.setL2 _ this _ = d2
        have h2 : SameBack d d2 := by rw [← hd2]; exact ⟨rfl, rfl, rfl, rfl⟩
        split
        · exact h2
        · exact h2.trans (ih _ _ _ d2)
      · split
        · exact SameBack.refl d
        · exact ih _ _ _ d

/-- structural frame prover for `do` blocks of the device monad -/
macro "fr_auto" : tactic => `(tactic| repeat' (first
  | exact Fr.pure _ | exact Fr.pure' _ | exact Fr.get | exact Fr.fail _ | exact Fr.panic _
  | (refine Fr.modify ?_; intro _; exact ⟨rfl, rfl, rfl, rfl⟩)
  | exact allocateClusters_fr _ | exact ensureL2_fr _ | exact allocAndMap_fr _
  | exact freeClusters_fr _ _ _
  | exact mapRun_fr _ _ _ _ _ _ _
  | apply Fr.bind
  | intro _
  | split))

theorem makeMultiple_fr (start stop : Nat) : Fr (makeMultiple start stop) := by
  unfold makeMultiple
  apply Fr.bind (ensureL2_fr start); intro _
  apply Fr.bind Fr.get; intro d
  dsimp only
  fr_auto

theorem makeMultiples_fr (stop fuel start : Nat) (acc : List E64) : Fr (makeMultiples stop fuel start acc) := by
  refine ⟨fun d => ?_⟩
  induction fuel generalizing start acc d with
  | zero => exact SameBack.refl d
  | succ fuel ih =>
    rw [makeMultiples]
    dsimp only
    split
    · exact SameBack.refl d
    · split
      · have h1 := (makeMultiple_fr start stop).same d
        generalize makeMultiple start stop d = r at h1
        rcases r with ⟨d1, ⟨es, done⟩ | e | p⟩
        all_goals dsimp only at h1 ⊢
        · split
          · exact h1
          · exact h1.trans (ih _ _ d1)
        · exact h1
        · exact h1
      · exact ih _ _ d

theorem zeroCluster_fr (h : Nat) : Fr (zeroCluster h) := Fr.modify fun _ => ⟨rfl, rfl, rfl, rfl⟩
theorem writeSectors_fr (h : Nat) (toks : List Nat) : Fr (writeSectors h toks) :=
  Fr.modify fun _ => ⟨rfl, rfl, rfl, rfl⟩

theorem doWriteDataFile_fr (off : Nat) (m : Mapping) (cow : Option Mapping) (toks : List Nat) :
    Fr (doWriteDataFile off m cow toks) := by
  refine ⟨fun d => ?_⟩
  unfold doWriteDataFile zeroCluster writeSectors M.modify
  dsimp only
  repeat' split
  all_goals exact ⟨rfl, rfl, rfl, rfl⟩

theorem doWriteCow_fr (off : Nat) (m : Mapping) (toks : List Nat) : Fr (doWriteCow off m toks) := by
  unfold doWriteCow
  dsimp only
  repeat' (first
    | exact Fr.pure _ | exact Fr.get | exact Fr.fail _
    | (refine Fr.modify ?_; intro _; exact ⟨rfl, rfl, rfl, rfl⟩)
    | exact ensureL2_fr _ | exact allocAndMap_fr _ | exact freeClusters_fr _ _ _
    | exact doWriteDataFile_fr _ _ _ _
    | apply Fr.bind
    | intro _
    | split)

theorem doWrite_fr (e : E64) (off : Nat) (toks : List Nat) : Fr (doWrite e off toks) := by
  refine ⟨fun d => ?_⟩
  unfold doWrite
  dsimp only
  repeat' split
  all_goals first
    | exact SameBack.refl d
    | exact (doWriteDataFile_fr _ _ _ _).same d
    | exact (doWriteCow_fr _ _ _).same d

theorem doWrites_fr (ps : List (Nat × Nat)) (es : List E64) (toks : List Nat) : Fr (doWrites ps es toks) := by
  refine ⟨fun d => ?_⟩
  induction ps generalizing es toks d with
  | nil => exact SameBack.refl d
  | cons q ps ih =>
    obtain ⟨off, n⟩ := q
    rw [doWrites]
    cases es with
    | nil => exact SameBack.refl d
    | cons e es' =>
      dsimp only
      have h1 := (doWrite_fr e off (toks.take n)).same d
      generalize doWrite e off (toks.take n) d = r1 at h1
      obtain ⟨d1, r1⟩ := r1
      have h2 := ih es' (toks.drop n) d1
      generalize doWrites ps es' (toks.drop n) d1 = r2 at h2
      obtain ⟨d2, r2⟩ := r2
      have h12 : SameBack d d2 := h1.trans h2
      dsimp only
      split <;> exact h12

theorem writeAt_fr (off len : Nat) (toks : List Nat) : Fr (writeAt off len toks) := by
  refine ⟨fun d => ?_⟩
  unfold writeAt
  dsimp only
  split
  · exact SameBack.refl d
  · split
    · exact SameBack.refl d
    · split
      · have h1 := (populateSingle_fr off).same d
        generalize populateSingle off d = r at h1
        rcases r with ⟨d1, e | e | p⟩
        · exact h1.trans ((doWrite_fr e off toks).same d1)
        · exact h1
        · exact h1
      · have h1 := (makeMultiples_fr ((off + len + d.info.clusterSize - 1) / d.info.clusterSize * d.info.clusterSize)
            (((off + len + d.info.clusterSize - 1) / d.info.clusterSize * d.info.clusterSize
                - d.info.clusterRoundDown off) / d.info.clusterSize + 1) (d.info.clusterRoundDown off) []).same d
        generalize makeMultiples _ _ _ [] d = r at h1
        rcases r with ⟨d1, es | e | p⟩
        · dsimp only
          have h2 := (doWrites_fr (pieces d.info.clusterSize
            (((off + len + d.info.clusterSize - 1) / d.info.clusterSize * d.info.clusterSize
                - d.info.clusterRoundDown off) / d.info.clusterSize + 1) off len) es toks).same d1
          generalize doWrites _ es toks d1 = r2 at h2
          rcases r2 with ⟨d2, _ | e | p⟩ <;> exact h1.trans h2
        · exact h1
        · exact h1

theorem discardOne_fr (g : Nat) : Fr (discardOne g) := by
  refine ⟨fun d => ?_⟩
  unfold discardOne
  dsimp only
  split
  · exact SameBack.refl d
  · split
    · exact SameBack.refl d
    · split
      · exact SameBack.refl d
      · rename_i host cnt _
        split
        · exact ⟨rfl, rfl, rfl, rfl⟩
        · generalize hd1 : ({ d.setL2 g (if d.info.hasBack = true then 1#64 else 0#64) with needFlush := true } : Dev) = d1
          have h1 : SameBack d d1 := by rw [← hd1]; exact ⟨rfl, rfl, rfl, rfl⟩
          have h2 := (freeClusters_fr host cnt true).same d1
          generalize freeClusters host cnt true d1 = r at h2
          rcases r with ⟨d2, _ | e | p⟩
          · exact h1.trans (h2.trans ⟨rfl, rfl, rfl, rfl⟩)
          · exact h1.trans h2
          · exact h1.trans h2

theorem discardLoop_fr (stop fuel g : Nat) : Fr (discardLoop stop fuel g) := by
  refine ⟨fun d => ?_⟩
  induction fuel generalizing g d with
  | zero => exact SameBack.refl d
  | succ fuel ih =>
    rw [discardLoop]
    dsimp only
    split
    · exact SameBack.refl d
    · have h1 := (discardOne_fr g).same d
      generalize discardOne g d = r at h1
      rcases r with ⟨d1, _ | e | p⟩
      · exact h1.trans (ih _ d1)
      · exact h1
      · exact h1

theorem discard_fr (off len : Nat) : Fr (discard off len) := by
  refine ⟨fun d => ?_⟩
  unfold discard
  dsimp only
  split
  · exact SameBack.refl d
  · split
    · exact SameBack.refl d
    · exact SameBack.refl d
    · exact SameBack.refl d
    · exact (discardLoop_fr _ _ _).same d

theorem flushMeta_fr : Fr flushMeta := Fr.modify fun _ => ⟨rfl, rfl, rfl, rfl⟩


/-! ### operation histories -/
inductive Op where
  | write (off len : Nat) (toks : List Nat)
  | discard (off len : Nat)
  | flush

def step (d : Dev) : Op → Dev
  | .write off len toks => (writeAt off len toks d).1
  | .discard off len => (discard off len d).1
  | .flush => (flushMeta d).1

def run (d : Dev) (ops : List Op) : Dev := ops.foldl step d

theorem step_sameBack (d : Dev) (op : Op) : SameBack d (step d op) := by
  cases op with
  | write off len toks => exact (writeAt_fr off len toks).same d
  | discard off len => exact (discard_fr off len).same d
  | flush => exact flushMeta_fr.same d

theorem run_sameBack_aux (d : Dev) (ops : List Op) : SameBack d (run d ops) := by
  induction ops generalizing d with
  | nil => exact SameBack.refl d
  | cons op ops ih => exact (step_sameBack d op).trans (ih (step d op))

/-! ### the COW merge -/

theorem getD_map_range (n : Nat) (f : Nat → Nat) (k : Nat) :
    ((List.range n).map f).getD k 0 = if k < n then f k else 0 := by
  rw [List.getD_eq_getElem?_getD, List.getElem?_map]
  by_cases h : k < n
  · rw [List.getElem?_range h, if_pos h]; rfl
  · rw [if_neg h, List.getElem?_eq_none (by simp; omega)]; rfl

/-- the cluster image `do_back_cow` / `do_compressed_cow` write: the source
    cluster `base` with the request's sectors `toks` laid over it at sector `inSec` -/
def cowMerged (spc inSec : Nat) (toks base : List Nat) : List Nat :=
  (List.range spc).map (fun k =>
    if inSec ≤ k ∧ k < inSec + toks.length then toks.getD (k - inSec) 0 else base.getD k 0)

/-- the source cluster of a COW -/
def cowBase (d : Dev) (off : Nat) (cm : Mapping) : List Nat :=
  if cm.source = .compressed then compressedPlain d cm
  else if cm.source = .backing then
    match d.back with
    | some b => backRead b (off - d.info.inClusterOffset off) d.spc
    | none => []
  else []

theorem doWriteDataFile_cow_state (d : Dev) (off host : Nat) (m cm : Mapping) (toks : List Nat)
    (hm : m.clusterOffset = some host)
    (hnew : d.newData.contains (host / d.info.clusterSize) = true)
    (hsrc : cm.source = .compressed ∨ cm.source = .backing) :
    doWriteDataFile off m (some cm) toks d =
      ({ d with
        data := (d.data.setRange (host / 512) d.spc (fun _ => 0)).setRange (host / 512) d.spc
                  (fun k => (cowMerged d.spc (d.info.inClusterOffset off / 512) toks (cowBase d off cm)).getD k 0),
        newData := d.newData.filter (· ≠ host / d.info.clusterSize) },
       if cm.source = .backing ∧ d.back.isNone then .err .other else .ok ()) := by
  unfold doWriteDataFile zeroCluster writeSectors M.modify
  simp only [hm, hnew, if_true, hsrc, Option.isSome_some, List.length_map, List.length_range]
  split <;> rfl


theorem getD_backRead (b : Back) (off n k : Nat) :
    (backRead b off n).getD k 0
      = if k < n ∧ off + k * 512 + 512 ≤ b.vsize then b.sec (off / 512 + k) else 0 := by
  unfold backRead
  rw [getD_map_range]
  by_cases h1 : k < n <;> by_cases h2 : off + k * 512 + 512 ≤ b.vsize <;> simp [h1, h2]

theorem getD_cowMerged (spc inSec : Nat) (toks base : List Nat) (k : Nat) (hk : k < spc) :
    (cowMerged spc inSec toks base).getD k 0
      = if inSec ≤ k ∧ k < inSec + toks.length then toks.getD (k - inSec) 0 else base.getD k 0 := by
  unfold cowMerged
  rw [getD_map_range, if_pos hk]

theorem getD_compressedPlain (d : Dev) (m : Mapping) (k : Nat) :
    (compressedPlain d m).getD k 0
      = if k < d.spc then (d.comp.get (m.clusterOffset.getD 0)).get k else 0 := by
  unfold compressedPlain
  exact getD_map_range _ _ _

/-! ### example devices (non-vacuity of C10 / C02) -/
open Qv.Props.C15 (infoEx prmEx)

/-- backing image of 64 KiB + one sector; sector `k` holds token `100 + k` -/
def exBack : Back := { vsize := 0x10000 + 512, sec := fun k => 100 + k }

/-- 64 KiB clusters, a backing image, host cluster 5 allocated and not yet
    zeroed, a compressed cluster at 0x70000 whose plaintext sector `k` is `50 + k` -/
def exDev : Dev :=
  { (default : Dev) with
    info := { infoEx with hasBack := true }, version := 3, back := some exBack, newData := [5],
    comp := (FMap.empty (FMap.empty 0)).set 0x70000 ((FMap.empty 0).setRange 0 128 (fun k => 50 + k)) }

theorem exDev_comp (k : Nat) (hk : k < 128) : (exDev.comp.get 0x70000).get k = 50 + k := by
  show (((FMap.empty (FMap.empty 0)).set 0x70000 ((FMap.empty 0).setRange 0 128 (fun k => 50 + k))).get 0x70000).get k = _
  rw [FMap.get_set_same]
  have := FMap.get_setRange_inside (FMap.empty 0) 0 128 (fun k => 50 + k) k hk
  rwa [Nat.zero_add] at this

/-- the data-file mapping of the freshly allocated cluster -/
def exMap : Mapping := { source := .dataFile, clusterOffset := some 0x50000, compressedLength := none, copied := true }
/-- COW sources: the backing image / the compressed cluster -/
def exCow : Mapping := { source := .backing, clusterOffset := none, compressedLength := none, copied := false }
def exCowC : Mapping :=
  { source := .compressed, clusterOffset := some 0x70000, compressedLength := some 1000, copied := false }

/-- a read-only device -/
def exRo : Dev := { (default : Dev) with info := { infoEx with readOnly := true } }

/-- a 1 GiB device with 64 KiB clusters opened with 512-byte blocks … -/
def exReopen : Dev :=
  { (default : Dev) with info := infoEx, version := 3, l1Len := ramL1Len infoEx.vsize infoEx.cb infoEx.bsb,
                         data := (FMap.empty 0).set 0x280 7, hint := 0x50000, needFlush := true, newData := [5] }

/-- … to be reopened with 4096-byte blocks -/
def exReopenParams : Params := { prmEx with bsBits := 12 }

end Model
end Qv
