import Qv.Props.C12
import Qv.Props.C01Model
/-
Refcount accounting through the allocator (helpers for `Qv/Props/C03Write.lean`).

`AcctPlus d x` (Qv/Proofs/GrowAcct.lean) is accounting up to a surplus `x`.  The
allocator is followed with the surplus "the run handed out so far"
(`covers cs (some (outOff, done))`): allocated, not yet referenced.

Besides `Acct` two more facts are carried:
* `RcDom d`  — a cluster whose refcount-table entry is missing (zero or beyond the
  table) has refcount 0 (in the file such a cluster has no refcount at all; the
  model keeps all refcounts in one map);
* `Shape d`  — the geometry equations, the L1 table facts and the bound that keeps
  host offsets below 2^56 (what an L2 entry can hold).

Growth of the refcount table (`ensure_refblock_offset` for an index beyond the table:
relocation, new refblock, release of the old table — C12) is included: the only
hypothesis about it is that the table after the call still describes host offsets
below 2^56 (`Cap`).
-/
namespace Qv.Model
open Qv Qv.Codec
open Qv.Props.C15 (Geom)
open Qv.Props.C11 (L1Distinct)

/-! ### the invariants -/

/-- refcounts live only where a refblock exists; the RAM refcount table is as long as
    the table on disk and has nothing behind its end -/
structure RcDom (d : Dev) : Prop where
  zero : ∀ c, RT.isZero (rtEntryAt d (c * d.info.clusterSize)) = true → d.rc.get c = 0
  sync : d.rtLen * 8 = d.hdrRtClusters * d.info.clusterSize
  tail : ∀ i, d.rtLen ≤ i → d.rt.get i = 0#64

/-- the refcount table describes host offsets below 2^56 only (what an L2 entry can hold) -/
def Cap (d : Dev) : Prop := d.rtLen * d.info.rbEntries * d.info.clusterSize ≤ 2^56

instance (d : Dev) : Decidable (Cap d) := by unfold Cap; infer_instance

theorem Cap.mono {d d' : Dev} (hc : Cap d') (hi : d'.info = d.info) (hle : d.rtLen ≤ d'.rtLen) : Cap d := by
  unfold Cap at hc ⊢
  rw [hi] at hc
  exact Nat.le_trans (Nat.mul_le_mul_right _ (Nat.mul_le_mul_right _ hle)) hc

theorem Cap.of_eq {d d' : Dev} (hc : Cap d) (hi : d'.info = d.info) (hl : d'.rtLen = d.rtLen) : Cap d' := by
  unfold Cap at hc ⊢
  rw [hi, hl]; exact hc

/-- the part of the well-formedness the allocator never touches -/
structure Shape (d : Dev) : Prop where
  geo : Geom d.info
  cb9 : 9 ≤ d.info.cb
  hsl : d.info.rbSliceBits ≤ d.info.cb
  l1d : L1Distinct d
  /-- L1 entries the header does not cover are unmapped -/
  l1tail : ∀ i, d.hdrL1Entries ≤ i → L1.isZero (d.l1At i) = true
  hdrEq : d.l1HdrEntries = d.hdrL1Entries
  hdrLe : d.hdrL1Entries ≤ d.l1Len
  /-- the header's `l1_size` covers the virtual disk -/
  l1cov : ∀ off, off < d.info.vsize → Split.l1Index d.info off < d.hdrL1Entries
  /-- the refcount table describes host offsets below 2^56 only -/
  cap56 : Cap d

/-- the invariant of the write path -/
structure WInv (d : Dev) : Prop where
  shape : Shape d
  dom : RcDom d
  acct : Acct d

theorem Shape.congr {d d' : Dev} (s : Shape d) (hi : d'.info = d.info) (h1 : d'.l1 = d.l1)
    (hlen : d'.l1Len = d.l1Len) (hn : d'.hdrL1Entries = d.hdrL1Entries)
    (hh : d'.l1HdrEntries = d.l1HdrEntries) (hr : d'.rtLen = d.rtLen) : Shape d' := by
  have hat : ∀ i, d'.l1At i = d.l1At i := l1At_congr h1 hlen
  have hen : ∀ o, d'.l1Entry o = d.l1Entry o := by
    intro o; rw [d'.l1Entry_eq, d.l1Entry_eq, hi, hat]
  refine ⟨hi ▸ s.geo, hi ▸ s.cb9, hi ▸ s.hsl, ?_, ?_, by rw [hh, hn]; exact s.hdrEq,
    by rw [hn, hlen]; exact s.hdrLe, ?_, s.cap56.of_eq hi hr⟩
  · intro a b hne ha hb
    rw [hen] at ha hb ⊢
    rw [hen]
    rw [hi] at hne
    exact s.l1d a b hne ha hb
  · intro i h
    rw [hat]; rw [hn] at h; exact s.l1tail i h
  · intro off h
    rw [hi] at h ⊢
    rw [hn]; exact s.l1cov off h

theorem Shape.of_allocFrame {d d' : Dev} (s : Shape d) (h : AllocFrame d d') : Shape d' := by
  obtain ⟨_, _, _, _, rfl⟩ := h
  exact s.congr rfl rfl rfl rfl rfl rfl

/-- … also when the refcount table grew, as long as it stays below the bound -/
theorem Shape.of_growFrame {d d' : Dev} (s : Shape d) (h : GrowFrame d d') (hc : Cap d') : Shape d' := by
  obtain ⟨_, _, _, _, _, _, _, rfl⟩ := h
  exact ⟨s.geo, s.cb9, s.hsl, s.l1d, s.l1tail, s.hdrEq, s.hdrLe, s.l1cov, hc⟩

theorem AllocFrame.toGrow {d d' : Dev} (h : AllocFrame d d') : GrowFrame d d' := by
  obtain ⟨t, r, hh, n, rfl⟩ := h
  exact ⟨t, r, hh, n, d.rtLen, d.hdrRtOff, d.hdrRtClusters, rfl⟩

/-! ### refcount-table index of a cluster -/

theorem rtIndex_cluster {i : Info} (g : Geom i) (c : Nat) :
    Host.rtIndex i (c * i.clusterSize) = c / i.rbEntries := by
  unfold Host.rtIndex
  rw [Nat.pow_add, g.rbIndexShift_eq]
  exact Nat.mul_div_mul_right _ _ (cs_pos i)

theorem rtEntryAt_congr {d d' : Dev} (hi : d'.info = d.info) (hrt : d'.rt = d.rt)
    (hl : d'.rtLen = d.rtLen) (off : Nat) : rtEntryAt d' off = rtEntryAt d off := by
  unfold rtEntryAt; rw [hi, hrt, hl]

theorem rtEntryAt_of_index {d : Dev} {a b : Nat} (h : Host.rtIndex d.info a = Host.rtIndex d.info b) :
    rtEntryAt d a = rtEntryAt d b := by
  unfold rtEntryAt; rw [h]

/-- a cluster in use lies inside the area the refcount table describes -/
theorem RcDom.nz {d : Dev} (h : RcDom d) {c : Nat} (hc : d.rc.get c ≠ 0) :
    ¬ RT.isZero (rtEntryAt d (c * d.info.clusterSize)) = true :=
  fun hz => hc (h.zero c hz)

theorem RcDom.lt {d : Dev} (h : RcDom d) (g : Geom d.info) {c : Nat} (hc : d.rc.get c ≠ 0) :
    c / d.info.rbEntries < d.rtLen := by
  have := h.nz hc
  unfold rtEntryAt at this
  rw [rtIndex_cluster g] at this
  by_cases hl : c / d.info.rbEntries < d.rtLen
  · exact hl
  · rw [if_neg hl] at this
    exact absurd rt_isZero_zero this

/-- … hence below 2^56 -/
theorem RcDom.lt56 {d : Dev} (h : RcDom d) (s : Shape d) {c : Nat} (hc : d.rc.get c ≠ 0) :
    c * d.info.clusterSize + d.info.clusterSize ≤ 2^56 := by
  have h1 := h.lt s.geo hc
  have hrb : 0 < d.info.rbEntries := by
    rw [← s.geo.rbIndexShift_eq]; exact Nat.two_pow_pos _
  have h2 : c < d.rtLen * d.info.rbEntries := (Nat.div_lt_iff_lt_mul hrb).1 h1
  have h3 : (c + 1) * d.info.clusterSize ≤ d.rtLen * d.info.rbEntries * d.info.clusterSize :=
    Nat.mul_le_mul_right _ h2
  have : d.rtLen * d.info.rbEntries * d.info.clusterSize ≤ 2^56 := s.cap56
  rw [Nat.add_mul, Nat.one_mul] at h3
  omega

theorem aligned_div_mul {cs h : Nat} (ha : h % cs = 0) : h / cs * cs = h := by
  have := Nat.div_add_mod h cs
  rw [ha, Nat.mul_comm] at this
  exact this

/-! ### surplus bookkeeping -/

theorem acctPlus_congr {d : Dev} {x y : Nat → Nat} (h : AcctPlus d x) (hxy : ∀ c, x c = y c) :
    AcctPlus d y := fun c => by rw [h c, hxy c]

theorem acct_of_plus {d : Dev} {x : Nat → Nat} (h : AcctPlus d x) (hx : ∀ c, x c = 0) : Acct d :=
  acctPlus_zero.1 (acctPlus_congr h hx)

theorem covers_zero_len (cs o c : Nat) : covers cs (some (o, 0)) c = 0 := by
  rw [covers_some, if_neg (by omega)]

theorem refs_of_rcFrame {d d' : Dev} (h : RcFrame d d') (c : Nat) : d'.refs c = d.refs c := by
  obtain ⟨_, _, _, rfl⟩ := h
  exact refs_congr ⟨rfl, rfl, rfl, rfl, rfl⟩ rfl rfl rfl rfl rfl c

theorem acctPlus_rcFrame {d d' : Dev} {x y : Nat → Nat} (hP : AcctPlus d x) (hf : RcFrame d d')
    (hrc : ∀ c, d'.rc.get c + x c = d.rc.get c + y c) : AcctPlus d' y := by
  intro c
  have := hP c
  have := hrc c
  rw [refs_of_rcFrame hf]
  omega

/-- `try_alloc_from_rb_slice` adds its run to the surplus -/
theorem tryAlloc_acctPlus {off count : Nat} {fixed : Bool} {d d' : Dev} {host n : Nat} {x : Nat → Nat}
    (h : tryAllocFromRbSlice off count fixed d = (d', .ok (some (host, n)))) (hP : AcctPlus d x) :
    AcctPlus d' (fun c => x c + covers d.cs (some (host, n)) c) := by
  obtain ⟨_, _, _, _, s5, s6, _⟩ := Qv.Props.C08.tryAlloc_sound off count fixed d d' host n h
  apply acctPlus_rcFrame hP (tryAlloc_rcFrame h)
  intro c
  rw [covers_some]
  show _ = _ + (_ + if host / d.info.clusterSize ≤ c ∧ c < host / d.info.clusterSize + n then 1 else 0)
  by_cases hc : host / d.info.clusterSize ≤ c ∧ c < host / d.info.clusterSize + n
  · obtain ⟨z1, z2⟩ := s5 c hc.1 hc.2
    rw [if_pos hc, z1, z2]; omega
  · rw [if_neg hc, s6 c hc]; omega

/-- `free_clusters` of a run inside the surplus removes it from the surplus -/
theorem freeClusters_acctPlus {host n : Nat} {fz : Bool} {d d' : Dev} {x y : Nat → Nat}
    (h : freeClusters host n fz d = (d', .ok ())) (hP : AcctPlus d x)
    (hxy : ∀ c, x c = y c + covers d.cs (some (host, n)) c) : AcctPlus d' y := by
  obtain ⟨a, b, _⟩ := freeClusters_ok h
  apply acctPlus_rcFrame hP (freeClusters_rcFrame h)
  intro c
  have hx := hxy c
  rw [covers_some] at hx
  rw [a c]
  by_cases hc : host / d.info.clusterSize ≤ c ∧ c < host / d.info.clusterSize + n
  · have := b c hc.1 hc.2
    rw [if_pos hc]
    rw [if_pos (show host / d.cs ≤ c ∧ c < host / d.cs + n from hc)] at hx
    omega
  · rw [if_neg hc]
    rw [if_neg (show ¬ (host / d.cs ≤ c ∧ c < host / d.cs + n) from hc)] at hx
    omega

/-- … and it does succeed when every cluster of the run is in the surplus -/
theorem freeClusters_succeeds_of_plus {host n : Nat} (fz : Bool) {d : Dev} {x : Nat → Nat}
    (hP : AcctPlus d x) (hD : RcDom d) (hal : host % d.info.clusterSize = 0)
    (hx : ∀ c, host / d.info.clusterSize ≤ c → c < host / d.info.clusterSize + n → 1 ≤ x c) :
    ∃ d', freeClusters host n fz d = (d', .ok ()) := by
  have hrc : ∀ k, host / d.info.clusterSize ≤ k → k < host / d.info.clusterSize + n → 1 ≤ d.rc.get k := by
    intro k k1 k2
    have := hP k
    have := hx k k1 k2
    omega
  apply freeClusters_succeeds _ _ _ _ _ hrc
  intro k hk
  have h1 := hrc (host / d.info.clusterSize + k) (by omega) (by omega)
  have h2 := hD.nz (c := host / d.info.clusterSize + k) (by omega)
  rw [Nat.add_mul, aligned_div_mul hal] at h2
  exact h2

/-- `RcDom` survives a change of refcounts that leaves uncovered clusters alone -/
theorem RcDom.of_rcFrame {d d' : Dev} (h : RcDom d) (hf : RcFrame d d')
    (hrc : ∀ c, RT.isZero (rtEntryAt d (c * d.info.clusterSize)) = true → d'.rc.get c ≤ d.rc.get c) :
    RcDom d' := by
  have hi : d'.info = d.info := hf.info
  refine ⟨?_, ?_, ?_⟩
  · intro c hz
    rw [hi, rtEntryAt_congr hi hf.rt hf.rtLen] at hz
    have := hrc c hz
    have := h.zero c hz
    omega
  · obtain ⟨_, _, _, rfl⟩ := hf
    exact h.sync
  · obtain ⟨_, _, _, rfl⟩ := hf
    exact h.tail

/-! ### the `try_allocate_from` loop -/

/-- invariant of the loop: the run handed out so far is the only surplus -/
structure LInv (d : Dev) (host0 allocCnt host count outOff done : Nat) : Prop where
  shape : Shape d
  dom : RcDom d
  plus : AcctPlus d (covers d.cs (some (outOff, done)))
  rtnz : ¬ RT.isZero (rtEntryAt d host0) = true
  ge : host0 ≤ host
  cnt : count + done = allocCnt
  run : done ≠ 0 → host = outOff + done * d.info.clusterSize ∧ outOff % d.info.clusterSize = 0 ∧
    0 < outOff

/-- what a finished loop guarantees; the only error is the exhaustion of the fuel
    (unreachable, `tryAllocateFrom_no_nospace`), it never panics -/
def LPost (allocCnt : Nat) (r : Dev × Outcome (Option (Nat × Nat))) : Prop :=
  match r.2 with
  | .ok none => Shape r.1 ∧ RcDom r.1 ∧ Acct r.1
  | .ok (some (o, n)) => Shape r.1 ∧ RcDom r.1 ∧ AcctPlus r.1 (covers r.1.cs (some (o, n))) ∧
      1 ≤ n ∧ n ≤ allocCnt ∧ o % r.1.info.clusterSize = 0 ∧ 0 < o
  | .err e => e = .nospace
  | .panic _ => False

theorem covers_merge (cs a m o n c : Nat) (h : o / cs = a / cs + m) :
    covers cs (some (a, m)) c + covers cs (some (o, n)) c = covers cs (some (a, m + n)) c := by
  rw [covers_some, covers_some, covers_some, h]
  repeat' split
  all_goals omega

theorem plus_rc0_pos {d : Dev} {x : Nat → Nat} (h : AcctPlus d x) : 1 ≤ d.rc.get 0 := by
  have := h 0
  unfold Dev.refs Dev.refsHeader at this
  rw [if_pos rfl] at this
  omega

theorem loopStep_acct (allocCnt host count outOff done host0 : Nat) (d : Dev)
    (inv : LInv d host0 allocCnt host count outOff done) :
    match loopStep (Host.rbHostEnd d.info host0) allocCnt host count outOff done d with
    | .ret r => LPost allocCnt r
    | .cont h c o dn d' => LInv d' host0 allocCnt h c o dn ∧ RcFrame d d' := by
  have g := inv.shape.geo
  have hcs := cs_pos d.info
  unfold loopStep
  dsimp only
  by_cases hc : count > 0 ∧ host < Host.rbHostEnd d.info host0
  · rw [if_neg (not_not_intro hc)]
    have hse := rbSliceEntries_pos g
    obtain ⟨_, _, ⟨hp3a, hp3b⟩, _, ⟨hp5a, _⟩⟩ := Qv.Props.C15.host_partition g host
    have hp0 := (Qv.Props.C15.host_partition g host0).2.2.2.2.1
    have hRhost : Host.rtIndex d.info host = Host.rtIndex d.info host0 :=
      rtIndex_of_rb d.info host0 host (by have := inv.ge; omega) (by rw [← rbHostEnd_eq g]; exact hc.2)
    have hnz : ¬ RT.isZero (rtEntryAt d host) = true := by
      rw [rtEntryAt_of_index hRhost]; exact inv.rtnz
    generalize hr : tryAllocFromRbSlice host (min count d.info.rbSliceEntries) (decide (done ≠ 0)) d = r
    rcases r with ⟨d1, (_ | ⟨o, n⟩) | e | p⟩
    all_goals (try dsimp only)
    · -- no fit in this slice
      have hd1 : d1 = d := (tryAlloc_none hr).1
      subst hd1
      by_cases h0 : done = 0
      · rw [if_pos h0]
        refine ⟨⟨inv.shape, inv.dom, inv.plus, inv.rtnz, by have := inv.ge; omega, inv.cnt,
          fun h => absurd h0 h⟩, RcFrame.refl _⟩
      · rw [if_neg h0]
        have := inv.cnt
        exact ⟨inv.shape, inv.dom, inv.plus, by omega, by omega, (inv.run h0).2⟩
    · obtain ⟨s1, s2, _, s4, s5, s6, ⟨s7a, s7b⟩, _, _⟩ :=
        Qv.Props.C08.tryAlloc_sound host _ _ d d1 o n hr
      have hn1 : 1 ≤ n := s1 (by omega)
      have hnc : n ≤ count := by omega
      have f1 : RcFrame d d1 := tryAlloc_rcFrame hr
      have hi1 : d1.info = d.info := f1.info
      have hcs1 : d1.cs = d.cs := cs_congr hi1
      have sh1 : Shape d1 := inv.shape.of_allocFrame f1.toAlloc
      have P1 := tryAlloc_acctPlus hr inv.plus
      have ho : o / d.info.clusterSize * d.info.clusterSize = o := aligned_div_mul s4
      have dom1 : RcDom d1 := by
        apply inv.dom.of_rcFrame f1
        intro c hz
        by_cases hin : o / d.info.clusterSize ≤ c ∧ c < o / d.info.clusterSize + n
        · exfalso
          apply hnz
          rw [← hz]
          congr 1
          apply rtEntryAt_of_index
          symm
          apply rtIndex_of_slice g inv.shape.hsl host (c * d.info.clusterSize)
          · have : o / d.info.clusterSize * d.info.clusterSize ≤ c * d.info.clusterSize :=
              Nat.mul_le_mul_right _ hin.1
            omega
          · have : (c + 1) * d.info.clusterSize ≤ (o / d.info.clusterSize + n) * d.info.clusterSize :=
              Nat.mul_le_mul_right _ hin.2
            rw [Nat.add_mul, Nat.add_mul, Nat.one_mul, ho] at this
            omega
        · rw [s6 c hin]; exact Nat.le_refl _
      have rtnz1 : ¬ RT.isZero (rtEntryAt d1 host0) = true := by
        rw [rtEntryAt_congr hi1 f1.rt f1.rtLen]; exact inv.rtnz
      by_cases hf : done ≠ 0 ∧ host ≠ o
      · rw [if_pos hf]
        obtain ⟨_, hal, _⟩ := inv.run hf.1
        -- release of the run handed out so far
        obtain ⟨d2, hr2⟩ := freeClusters_succeeds_of_plus (host := outOff) (n := done) true P1 dom1
          (by rw [hi1]; exact hal) (by
            intro c c1 c2
            rw [hi1] at c1 c2
            show 1 ≤ covers d.cs (some (outOff, done)) c + _
            rw [covers_some, if_pos (show outOff / d.cs ≤ c ∧ c < outOff / d.cs + done from ⟨c1, c2⟩)]
            omega)
        rw [hr2]
        dsimp only
        have f2 := freeClusters_rcFrame hr2
        have hi2 : d2.info = d.info := f2.info.trans hi1
        have P2 : AcctPlus d2 (covers d.cs (some (o, n))) :=
          freeClusters_acctPlus hr2 P1 (fun c => by rw [hcs1]; exact Nat.add_comm _ _)
        have dom2 : RcDom d2 := by
          apply dom1.of_rcFrame f2
          intro c _
          rw [(freeClusters_ok hr2).1 c]
          split <;> omega
        -- release of the new fragment
        obtain ⟨d3, hr3⟩ := freeClusters_succeeds_of_plus (host := o) (n := n) true P2 dom2
          (by rw [hi2]; exact s4) (by
            intro c c1 c2
            rw [hi2] at c1 c2
            rw [covers_some, if_pos (show o / d.cs ≤ c ∧ c < o / d.cs + n from ⟨c1, c2⟩)]
            omega)
        rw [hr3]
        dsimp only
        have f3 := freeClusters_rcFrame hr3
        have hi3 : d3.info = d.info := f3.info.trans hi2
        have P3 : AcctPlus d3 (covers d3.cs (some (0, 0))) :=
          freeClusters_acctPlus hr3 P2 (fun c => by
            rw [covers_zero_len, cs_congr hi2, Nat.zero_add])
        have dom3 : RcDom d3 := by
          apply dom2.of_rcFrame f3
          intro c _
          rw [(freeClusters_ok hr3).1 c]
          split <;> omega
        have f13 := f1.trans (f2.trans f3)
        refine ⟨⟨inv.shape.of_allocFrame f13.toAlloc, dom3, P3, ?_, inv.ge, by omega,
          fun h => absurd rfl h⟩, f13⟩
        rw [rtEntryAt_congr hi3 f13.rt f13.rtLen]; exact inv.rtnz
      · rw [if_neg hf, if_neg (by omega)]
        have hff := (Qv.Props.C08.tryAlloc_first_fit host _ _ d d1 o n g hr).1
        have hlt := Arith.lt_round_down_add host d.info.clusterSize hcs
        have hmul : 1 * d.info.clusterSize ≤ n * d.info.clusterSize := Nat.mul_le_mul_right _ hn1
        refine ⟨⟨sh1, dom1, ?_, rtnz1, by have := inv.ge; omega, by have := inv.cnt; omega, ?_⟩, f1⟩
        · by_cases h0 : done = 0
          · rw [if_pos h0]
            subst h0
            apply acctPlus_congr P1
            intro c
            rw [covers_zero_len, Nat.zero_add, Nat.zero_add, hcs1]
          · rw [if_neg h0]
            have hho : host = o := by
              apply Classical.byContradiction; intro hne; exact hf ⟨h0, hne⟩
            obtain ⟨a1, _⟩ := inv.run h0
            apply acctPlus_congr P1
            intro c
            rw [hcs1]
            apply covers_merge
            rw [← hho, a1]
            exact add_mul_cs_div d.info outOff done
        · intro _
          rw [hi1]
          by_cases h0 : done = 0
          · rw [if_pos h0, h0, Nat.zero_add]
            refine ⟨rfl, s4, ?_⟩
            have hz := (s5 (o / d.info.clusterSize) (Nat.le_refl _) (by omega)).1
            have h1 := plus_rc0_pos inv.plus
            rcases Nat.eq_zero_or_pos o with ho0 | ho0
            · rw [ho0, Nat.zero_div] at hz; omega
            · exact ho0
          · rw [if_neg h0]
            have hho : host = o := by
              apply Classical.byContradiction; intro hne; exact hf ⟨h0, hne⟩
            obtain ⟨a1, a2⟩ := inv.run h0
            refine ⟨?_, a2⟩
            rw [← hho, a1, Nat.add_mul, Nat.add_assoc]
    · obtain ⟨_, _, h'⟩ := tryAlloc_total host (min count d.info.rbSliceEntries) (decide (done ≠ 0)) d
      rw [h'] at hr; cases hr
    · obtain ⟨_, _, h'⟩ := tryAlloc_total host (min count d.info.rbSliceEntries) (decide (done ≠ 0)) d
      rw [h'] at hr; cases hr
  · rw [if_pos hc]
    by_cases h0 : done = 0
    · rw [if_neg (not_not_intro h0)]
      refine ⟨inv.shape, inv.dom, acct_of_plus inv.plus (fun c => ?_)⟩
      rw [h0]; exact covers_zero_len _ _ _
    · rw [if_pos h0]
      have := inv.cnt
      exact ⟨inv.shape, inv.dom, inv.plus, by omega, by omega, (inv.run h0).2⟩

theorem tryAllocateLoop_acct (allocCnt host0 : Nat) (i : Info) (fuel : Nat) :
    ∀ host count outOff done (d : Dev), d.info = i → LInv d host0 allocCnt host count outOff done →
      LPost allocCnt (tryAllocateLoop (Host.rbHostEnd i host0) allocCnt fuel host count outOff done d) ∧
      RcFrame d (tryAllocateLoop (Host.rbHostEnd i host0) allocCnt fuel host count outOff done d).1 := by
  induction fuel with
  | zero => intro host count outOff done d _ inv; exact ⟨rfl, RcFrame.refl d⟩
  | succ fuel ih =>
    intro host count outOff done d hi inv
    subst hi
    rw [tryAllocateLoop_succ]
    have hst := loopStep_acct allocCnt host count outOff done host0 d inv
    have hsm := loopStep_rel RcFrame RcFrame.refl (fun _ _ _ => RcFrame.trans)
      (fun o n fz a => freeClusters_rcFrame (r := (freeClusters o n fz a).2) rfl)
      (fun off cnt fixed a => tryAlloc_rcFrame (r := (tryAllocFromRbSlice off cnt fixed a).2) rfl)
      (Host.rbHostEnd d.info host0) allocCnt host count outOff done d
    cases hstep : loopStep (Host.rbHostEnd d.info host0) allocCnt host count outOff done d with
    | ret r =>
      rw [hstep] at hst hsm
      exact ⟨hst, hsm⟩
    | cont h' c o' dn d' =>
      rw [hstep] at hst
      dsimp only at hst ⊢
      obtain ⟨a, b⟩ := ih h' c o' dn d' hst.2.info hst.1
      exact ⟨a, hst.2.trans b⟩

/-! ### `ensure_refblock_offset` -/

theorem rbEntries_pos {i : Info} (g : Geom i) : 0 < i.rbEntries := by
  rw [← g.rbIndexShift_eq]; exact Nat.two_pow_pos _

theorem rtIndex_region_first {i : Info} (g : Geom i) (k : Nat) :
    Host.rtIndex i (k * i.rbEntries * i.clusterSize) = k := by
  rw [rtIndex_cluster g, Nat.mul_div_cancel _ (rbEntries_pos g)]

theorem region_lt64_of {i : Info} (g : Geom i) {k n : Nat} (hk : k < n)
    (hc : n * i.rbEntries * i.clusterSize ≤ 2^56) : k * i.rbEntries * i.clusterSize < 2^64 := by
  have h1 : (k + 1) * (i.rbEntries * i.clusterSize) ≤ n * (i.rbEntries * i.clusterSize) :=
    Nat.mul_le_mul_right _ hk
  have h3 : 0 < i.rbEntries * i.clusterSize := Nat.mul_pos (rbEntries_pos g) (cs_pos _)
  rw [Nat.add_mul, Nat.one_mul, ← Nat.mul_assoc, ← Nat.mul_assoc] at h1
  have : (2:Nat)^56 < 2^64 := by decide
  omega

theorem region_lt64 {d : Dev} (s : Shape d) {k : Nat} (hk : k < d.rtLen) :
    k * d.info.rbEntries * d.info.clusterSize < 2^64 :=
  region_lt64_of s.geo hk s.cap56

/-- a new refblock keeps the whole invariant -/
theorem withRefblockAt_winv {d : Dev} (w : WInv d) {k : Nat} (hk : k < d.rtLen)
    (hz : RT.isZero (d.rt.get k) = true) :
    WInv (withRefblockAt d k) ∧
      ∀ off, Host.rtIndex d.info off = k → ¬ RT.isZero (rtEntryAt (withRefblockAt d k) off) = true := by
  have g := w.shape.geo
  have hcs := cs_pos d.info
  have hidx := rtIndex_region_first g k
  have h0 : d.rc.get (k * d.info.rbEntries) = 0 := by
    apply w.dom.zero
    unfold rtEntryAt
    rw [hidx, if_pos hk]; exact hz
  have hpos : 0 < k * d.info.rbEntries := acct_free_ne_zero w.acct h0
  have h64 := region_lt64 w.shape hk
  have hnzv : RT.isZero (BitVec.ofNat 64 (k * d.info.rbEntries * d.info.clusterSize)) = false :=
    rt_isZero_ofNat (cluster_mul_mod512 d w.shape.cb9 _) h64 (Nat.mul_pos hpos hcs)
  have hfr : AllocFrame d (withRefblockAt d k) := ⟨_, _, d.hint, true, rfl⟩
  have hent : ∀ off, Host.rtIndex d.info off = k →
      rtEntryAt (withRefblockAt d k) off = BitVec.ofNat 64 (k * d.info.rbEntries * d.info.clusterSize) := by
    intro off ho
    unfold rtEntryAt
    show (if Host.rtIndex d.info off < d.rtLen then (d.rt.set k _).get (Host.rtIndex d.info off) else 0#64) = _
    rw [ho, if_pos hk, FMap.get_set_same]
  refine ⟨⟨w.shape.of_allocFrame hfr, ⟨?_, w.dom.sync, ?_⟩, ?_⟩, ?_⟩
  · intro c hzc
    show (d.rc.set (k * d.info.rbEntries * d.info.clusterSize / d.info.clusterSize) 1).get c = 0
    rw [Nat.mul_div_cancel _ hcs]
    change RT.isZero (rtEntryAt (withRefblockAt d k) (c * d.info.clusterSize)) = true at hzc
    by_cases hck : c / d.info.rbEntries = k
    · rw [hent _ ((rtIndex_cluster g c).trans hck), hnzv] at hzc
      cases hzc
    · have hne : k * d.info.rbEntries ≠ c := by
        intro he; apply hck; rw [← he]; exact Nat.mul_div_cancel _ (rbEntries_pos g)
      rw [FMap.get_set_other _ _ _ _ hne]
      apply w.dom.zero
      unfold rtEntryAt at hzc ⊢
      change RT.isZero (if Host.rtIndex d.info (c * d.info.clusterSize) < d.rtLen then
        (d.rt.set k _).get (Host.rtIndex d.info (c * d.info.clusterSize)) else 0#64) = true at hzc
      rw [rtIndex_cluster g] at hzc ⊢
      rw [FMap.get_set_other _ _ _ _ (fun x => hck x.symm)] at hzc
      exact hzc
  · intro i hi
    show (d.rt.set k _).get i = 0#64
    have hi' : d.rtLen ≤ i := hi
    rw [FMap.get_set_other _ _ _ _ (by omega)]
    exact w.dom.tail i hi'
  · rw [withRefblockAt_eq]
    exact acctPlus_zero.1 (acctPlus_withRefblock w.shape.cb9 (acctPlus_zero.2 w.acct) hk hz h0 h64)
  · intro off ho
    rw [hent off ho, hnzv]
    simp

theorem growFrame_of_rcFrame {d d' : Dev} (h : RcFrame d d') : GrowFrame d d' := h.toGrow

/-- the frame of `ensure_refblock_offset`, whatever it does -/
theorem ensureRefblock_growFrame (off : Nat) (d : Dev) : GrowFrame d (ensureRefblock off d).1 := by
  apply ensureRefblock_rel GrowFrame GrowFrame.refl (fun _ _ _ => GrowFrame.trans)
  · intro i a _
    have := growReftable_frame i a
    exact ⟨_, _, a.hint, _, _, _, _, this⟩
  · intro i a
    have := ensureRefblockIn_frame i a
    exact ⟨_, _, a.hint, _, a.rtLen, a.hdrRtOff, a.hdrRtClusters, this⟩
  · intro o n fz a
    exact (freeClusters_rcFrame (r := (freeClusters o n fz a).2) rfl).toGrow

/-- **`ensure_refblock_offset` with relocation of the refcount table** keeps the whole
    invariant (C12 `ensureRefblock_growth_acct` for the accounting): the new table and
    its refblock are put on free clusters (they lie in a region that had no refblock),
    the old table is released — which succeeds, its clusters have refblocks —, and the
    table in RAM is again as long as the one on disk. -/
theorem ensureRefblock_growth_winv {d d1 : Dev} {off : Nat} {r : Outcome Unit} (w : WInv d)
    (hoob : d.rtLen ≤ Host.rtIndex d.info off) (hfit : GrowFits d (Host.rtIndex d.info off))
    (hnip : ¬ GrowInPlace d (Host.rtIndex d.info off))
    (h : ensureRefblock off d = (d1, r)) (hc : Cap d1) :
    WInv d1 ∧ r = .ok () ∧ ¬ RT.isZero (rtEntryAt d1 off) = true := by
  have g := w.shape.geo
  have hcs := cs_pos d.info
  have hrb := rbEntries_pos g
  have hfr : GrowFrame d d1 := by
    have := ensureRefblock_growFrame off d; rw [h] at this; exact this
  have hi1 : d1.info = d.info := hfr.info
  generalize hk : Host.rtIndex d.info off = k at hoob hfit hnip
  have hlt : ¬ Host.rtIndex d.info off < d.rtLen := by omega
  -- the length of the table afterwards
  obtain ⟨d2, hd2, he⟩ : ∃ d2, ensureRefblockIn k (growRelocated d k) = (d2, .ok ()) ∧
      ensureRefblock off d = freeClusters d.hdrRtOff (growOldCl d) true d2 := by
    rcases ensureRefblock_oob_cases hlt with ⟨_, hnf, _⟩ | ⟨hip, _⟩ | ⟨_, _, d2, h2, e⟩
    · rw [hk] at hnf; exact absurd hfit hnf
    · rw [hk] at hip; exact absurd hip hnip
    · rw [hk] at h2; exact ⟨d2, h2, e⟩
  have hkl : k < (growRelocated d k).rtLen := by
    show k < growNewSize d k / 8
    have := growNewSize_covers d k; omega
  have hLlt : d.rtLen < growNewSize d k / 8 := by
    have := growNewSize_covers d k; omega
  have hkl' : k < growNewSize d k / 8 := hkl
  have hlen1 : d1.rtLen = growNewSize d k / 8 := by
    obtain ⟨d2', h2', _, hl2, _⟩ := ensureRefblockIn_inb hkl
    rw [hd2] at h2'
    simp only [Prod.mk.injEq, and_true] at h2'
    subst h2'
    have hm := freeClusters_sameMeta (r := (freeClusters d.hdrRtOff (growOldCl d) true d2).2) rfl
    rw [← he, h] at hm
    rw [hm.2.1, hl2]; rfl
  have hc' : growNewSize d k / 8 * d.info.rbEntries * d.info.clusterSize ≤ 2^56 := by
    have := hc; unfold Cap at this; rw [hi1, hlen1] at this; exact this
  have h64 : k * d.info.rbEntries * d.info.clusterSize < 2^64 := region_lt64_of g hkl hc'
  -- hypotheses of C12
  have hbeyond : ∀ c, d.rtLen ≤ c / d.info.rbEntries → d.rc.get c = 0 := by
    intro c hc
    apply w.dom.zero
    unfold rtEntryAt
    rw [rtIndex_cluster g, if_neg (by omega)]
    exact rt_isZero_zero
  have hnc : growNewCl d k + 1 ≤ d.info.rbEntries := by have := hfit.1; omega
  have hfree : ∀ c, d.rtLen * d.info.rbEntries ≤ c →
      c ≤ d.rtLen * d.info.rbEntries + growNewCl d k → d.rc.get c = 0 := by
    intro c c1 c2
    apply hbeyond
    rw [Nat.le_div_iff_mul_le hrb]; exact c1
  have hfree2 : k ≠ d.rtLen → d.rc.get (k * d.info.rbEntries) = 0 := by
    intro _
    apply hbeyond
    rw [Nat.mul_div_cancel _ hrb]; exact hoob
  have hcov : ∀ j, j < d.hdrRtClusters →
      ¬ RT.isZero (rtEntryAt d (d.hdrRtOff + j * d.info.clusterSize)) := by
    intro j hj
    have hrefs : 1 ≤ d.refs (d.hdrRtOff / d.info.clusterSize + j) := by
      have : d.refsRtTable (d.hdrRtOff / d.info.clusterSize + j) = 1 := by
        unfold Dev.refsRtTable
        rw [if_pos (show d.hdrRtOff / d.cs ≤ d.hdrRtOff / d.info.clusterSize + j ∧
          d.hdrRtOff / d.info.clusterSize + j < d.hdrRtOff / d.cs + d.hdrRtClusters from
          ⟨Nat.le_add_right _ _, Nat.add_lt_add_left hj _⟩)]
      unfold Dev.refs; omega
    have hrc : d.rc.get (d.hdrRtOff / d.info.clusterSize + j) ≠ 0 := by rw [w.acct]; omega
    have := w.dom.nz hrc
    have hix : Host.rtIndex d.info (d.hdrRtOff + j * d.info.clusterSize) =
        Host.rtIndex d.info ((d.hdrRtOff / d.info.clusterSize + j) * d.info.clusterSize) := by
      unfold Host.rtIndex
      rw [Nat.add_comm d.info.rbIndexShift, Nat.pow_add, ← Nat.div_div_eq_div_mul, ← Nat.div_div_eq_div_mul]
      show (d.hdrRtOff + j * d.info.clusterSize) / d.info.clusterSize / _ =
        (d.hdrRtOff / d.info.clusterSize + j) * d.info.clusterSize / d.info.clusterSize / _
      rw [add_mul_cs_div, Nat.mul_div_cancel _ hcs]
    rw [rtEntryAt_of_index hix]
    exact this
  obtain ⟨_, hsucc⟩ := Qv.Props.C12.ensureRefblock_growth_acct off d w.shape.cb9 w.acct (by rw [hk]; exact hoob)
    w.dom.sync (by rw [hk]; exact hfit) (fun i hi => w.dom.tail i (by omega))
    (by rw [hk]; exact hfree) (by rw [hk]; exact hfree2) (by rw [hk]; exact h64)
  obtain ⟨d', heq, hA, e1, e2, e3, hnz, hrc⟩ := hsucc hcov
  rw [heq] at h
  simp only [Prod.mk.injEq] at h
  obtain ⟨rfl, rfl⟩ := h
  rw [hk] at e1 e3 hrc
  -- the refcount table afterwards
  have hrt : ∀ j, j ≠ d.rtLen → j ≠ k → d'.rt.get j = d.rt.get j := by
    intro j j1 j2
    have hfr2 := freeClusters_rcFrame (r := (freeClusters d.hdrRtOff (growOldCl d) true d2).2) rfl
    rw [← he, heq] at hfr2
    rw [hfr2.rt]
    have hX : (growRelocated d k).rt.get j = d.rt.get j := by
      show (d.rt.set d.rtLen _).get j = _
      exact FMap.get_set_other _ _ _ _ (fun x => j1 x.symm)
    rw [ensureRefblockIn_eq, if_neg (not_not_intro hkl)] at hd2
    split at hd2
    · simp only [Prod.mk.injEq, and_true] at hd2
      rw [← hd2]
      show ((growRelocated d k).rt.set k _).get j = _
      rw [FMap.get_set_other _ _ _ _ (fun x => j2 x.symm)]; exact hX
    · simp only [Prod.mk.injEq, and_true] at hd2
      rw [← hd2]; exact hX
  have hnzL : d.rtLen ≠ k → ¬ RT.isZero (d'.rt.get d.rtLen) = true := by
    intro hne
    have hfr2 := freeClusters_rcFrame (r := (freeClusters d.hdrRtOff (growOldCl d) true d2).2) rfl
    rw [← he, heq] at hfr2
    rw [hfr2.rt]
    have hpos : 0 < d.rtLen * d.info.rbEntries :=
      acct_free_ne_zero w.acct (hfree _ (Nat.le_refl _) (Nat.le_add_right _ _))
    have hv : RT.isZero (BitVec.ofNat 64 (d.rtLen * d.info.rbEntries * d.info.clusterSize)) = false :=
      rt_isZero_ofNat (cluster_mul_mod512 d w.shape.cb9 _)
        (region_lt64_of g hLlt hc') (Nat.mul_pos hpos hcs)
    have hX : (growRelocated d k).rt.get d.rtLen =
        BitVec.ofNat 64 (d.rtLen * d.info.rbEntries * d.info.clusterSize) := by
      show (d.rt.set d.rtLen _).get d.rtLen = _
      exact FMap.get_set_same _ _ _
    rw [ensureRefblockIn_eq, if_neg (not_not_intro hkl)] at hd2
    split at hd2
    · simp only [Prod.mk.injEq, and_true] at hd2
      rw [← hd2]
      show ¬ RT.isZero (((growRelocated d k).rt.set k _).get d.rtLen) = true
      rw [FMap.get_set_other _ _ _ _ (fun x => hne x.symm), hX, hv]; simp
    · simp only [Prod.mk.injEq, and_true] at hd2
      rw [← hd2, hX, hv]; simp
  have hnzK : ¬ RT.isZero (d'.rt.get k) = true := by
    unfold rtEntryAt at hnz
    rw [hi1, hk, if_pos (by rw [e1]; exact hkl)] at hnz
    exact hnz
  have hdom : RcDom d' := by
    refine ⟨?_, ?_, ?_⟩
    · intro c hz
      rw [hi1] at hz
      unfold rtEntryAt at hz
      rw [hi1, rtIndex_cluster g] at hz
      have hle : d'.rc.get c ≤ (if (d.rtLen * d.info.rbEntries ≤ c ∧
          c ≤ d.rtLen * d.info.rbEntries + growNewCl d k) ∨ c = k * d.info.rbEntries then 1
          else d.rc.get c) := by rw [hrc c]; exact Nat.sub_le _ _
      have hjL : (d.rtLen * d.info.rbEntries ≤ c ∧ c ≤ d.rtLen * d.info.rbEntries + growNewCl d k) →
          c / d.info.rbEntries = d.rtLen := by
        intro hin
        apply Nat.div_eq_of_lt_le
        · exact hin.1
        · rw [Nat.add_mul, Nat.one_mul]; omega
      have hjK : c = k * d.info.rbEntries → c / d.info.rbEntries = k := by
        intro hcK; rw [hcK]; exact Nat.mul_div_cancel _ hrb
      by_cases hin : (d.rtLen * d.info.rbEntries ≤ c ∧ c ≤ d.rtLen * d.info.rbEntries + growNewCl d k)
          ∨ c = k * d.info.rbEntries
      · exfalso
        have hj : c / d.info.rbEntries = d.rtLen ∨ c / d.info.rbEntries = k := by
          rcases hin with hin | hin
          · exact Or.inl (hjL hin)
          · exact Or.inr (hjK hin)
        rcases hj with hj | hj
        · rw [hj, if_pos (by rw [e1]; omega)] at hz
          by_cases hLk : d.rtLen = k
          · rw [hLk] at hz; exact hnzK hz
          · exact hnzL hLk hz
        · rw [hj, if_pos (by rw [e1]; exact hkl)] at hz
          exact hnzK hz
      · rw [if_neg hin] at hle
        have h0 : d.rc.get c = 0 := by
          by_cases hjl : c / d.info.rbEntries < d.rtLen
          · apply w.dom.zero
            unfold rtEntryAt
            rw [rtIndex_cluster g, if_pos hjl]
            rw [if_pos (by rw [e1]; omega), hrt _ (by omega) (by omega)] at hz
            exact hz
          · exact hbeyond c (by omega)
        omega
    · rw [e1, e3, hi1]
      have h1 := growNewCl_mul d k
      have h2 := growNewSize_mod d k
      have h8 : growNewSize d k % 8 = 0 := by
        apply Arith16.mod_zero_of_dvd_of_mod (a := 8) (b := d.info.clusterSize) _ h2
        unfold Info.clusterSize
        exact Nat.pow_dvd_pow 2 (show 3 ≤ d.info.cb from Nat.le_trans (by decide) w.shape.cb9)
      have := Nat.div_add_mod (growNewSize d k) 8
      omega
    · intro i hi
      rw [e1] at hi
      rw [hrt i (by omega) (by omega)]
      exact w.dom.tail i (by have := growNewSize_covers d k; omega)
  refine ⟨⟨w.shape.of_growFrame hfr hc, hdom, hA⟩, rfl, ?_⟩
  unfold rtEntryAt
  rw [hi1, hk, if_pos (by rw [e1]; exact hkl)]
  exact hnzK

/-- **`ensure_refblock_offset`**, any outcome, with or without growth of the table -/
theorem ensureRefblock_winv {d d1 : Dev} {off : Nat} {r : Outcome Unit} (w : WInv d)
    (h : ensureRefblock off d = (d1, r)) (hc : Cap d1) :
    WInv d1 ∧ GrowFrame d d1 ∧ (∀ p, r ≠ .panic p) ∧
      (r = .ok () → ¬ RT.isZero (rtEntryAt d1 off) = true) := by
  have hfr : GrowFrame d d1 := by
    have := ensureRefblock_growFrame off d; rw [h] at this; exact this
  by_cases hlt : Host.rtIndex d.info off < d.rtLen
  · rw [ensureRefblock_inb hlt, ensureRefblockIn_eq, if_neg (not_not_intro hlt)] at h
    by_cases hz : RT.isZero (d.rt.get (Host.rtIndex d.info off)) = true
    · rw [if_pos hz] at h
      simp only [Prod.mk.injEq] at h
      obtain ⟨rfl, rfl⟩ := h
      obtain ⟨a, b⟩ := withRefblockAt_winv w hlt hz
      exact ⟨a, hfr, fun p hp => (by cases hp), fun _ => b off rfl⟩
    · rw [if_neg hz] at h
      simp only [Prod.mk.injEq] at h
      obtain ⟨rfl, rfl⟩ := h
      refine ⟨w, hfr, fun p hp => (by cases hp), fun _ => ?_⟩
      unfold rtEntryAt
      rw [if_pos hlt]; exact hz
  · have hnip : ¬ GrowInPlace d (Host.rtIndex d.info off) := by
      intro hip
      have := hip.1
      have := w.dom.sync
      omega
    by_cases hfit : GrowFits d (Host.rtIndex d.info off)
    · obtain ⟨a, rfl, c⟩ := ensureRefblock_growth_winv w (by omega) hfit hnip h hc
      exact ⟨a, hfr, fun p hp => (by cases hp), fun _ => c⟩
    · rcases ensureRefblock_oob_cases hlt with ⟨_, _, e⟩ | ⟨hip, _⟩ | ⟨_, hf, _⟩
      · rw [e] at h
        simp only [Prod.mk.injEq] at h
        obtain ⟨rfl, rfl⟩ := h
        exact ⟨w, hfr, fun p hp => (by cases hp), fun hr => by cases hr⟩
      · exact absurd hip hnip
      · exact absurd hf hfit

/-! ### `try_allocate_from`, `allocate_clusters` -/

/-- outcome of the allocator on a state satisfying the invariant: a returned run is the
    only surplus; on `Ok(None)` and on every error the accounting is exact; no panic -/
def APost (count : Nat) (r : Dev × Outcome (Option (Nat × Nat))) : Prop :=
  Shape r.1 ∧ RcDom r.1 ∧
  match r.2 with
  | .ok none => Acct r.1
  | .ok (some (o, n)) => AcctPlus r.1 (covers r.1.cs (some (o, n))) ∧
      1 ≤ n ∧ n ≤ count ∧ o % r.1.info.clusterSize = 0 ∧ 0 < o
  | .err _ => Acct r.1
  | .panic _ => False

theorem APost.of_winv {count : Nat} {d : Dev} (w : WInv d) (e : Err) : APost count (d, .err e) :=
  ⟨w.shape, w.dom, w.acct⟩

theorem tryAllocateFrom_acct (host count : Nat) (d : Dev) (w : WInv d) (h0 : count ≠ 0)
    (hc : Cap (tryAllocateFrom host count d).1) :
    APost count (tryAllocateFrom host count d) ∧ GrowFrame d (tryAllocateFrom host count d).1 := by
  have hns := tryAllocateFrom_no_nospace host count d w.shape.geo
  unfold tryAllocateFrom at hc hns ⊢
  rw [if_neg h0] at hc hns ⊢
  generalize he : ensureRefblock host d = re at hc hns
  rcases re with ⟨d1, _ | e | p⟩
  · dsimp only at hc hns ⊢
    have hsm := tryAllocateLoop_sameMeta (Host.rbHostEnd d1.info host) count
      (2 * (d1.info.rbEntries / max d1.info.rbSliceEntries 1 + 2 + count) + 4) host count 0 0 d1
    obtain ⟨w1, fr1, _, hnz⟩ := ensureRefblock_winv w he (hc.mono hsm.1 (Nat.le_of_eq hsm.2.1.symm))
    have inv : LInv d1 host count host count 0 0 :=
      ⟨w1.shape, w1.dom, acctPlus_congr (acctPlus_zero.2 w1.acct) (fun c => (covers_zero_len _ _ _).symm),
        hnz rfl, Nat.le_refl _, rfl, fun h => absurd rfl h⟩
    obtain ⟨post, fr2⟩ := tryAllocateLoop_acct count host d1.info
      (2 * (d1.info.rbEntries / max d1.info.rbSliceEntries 1 + 2 + count) + 4) host count 0 0 d1 rfl inv
    generalize tryAllocateLoop (Host.rbHostEnd d1.info host) count
      (2 * (d1.info.rbEntries / max d1.info.rbSliceEntries 1 + 2 + count) + 4) host count 0 0 d1 = r
      at post fr2 hns
    refine ⟨?_, fr1.trans fr2.toGrow⟩
    obtain ⟨d2, (_ | ⟨o, n⟩) | e | p⟩ := r
    · exact ⟨post.1, post.2.1, post.2.2⟩
    · exact ⟨post.1, post.2.1, post.2.2⟩
    · exfalso
      have : e = .nospace := post
      subst this
      exact hns rfl
    · exact post.elim
  · obtain ⟨w1, fr1, _, _⟩ := ensureRefblock_winv w he hc
    exact ⟨APost.of_winv w1 e, fr1⟩
  · obtain ⟨_, _, np, _⟩ := ensureRefblock_winv w he hc
    exact absurd rfl (np p)

theorem allocateLoop_acct (count : Nat) (h0 : count ≠ 0) (fuel : Nat) :
    ∀ hostOff (d : Dev), WInv d → Cap (allocateLoop count fuel hostOff d).1 →
      APost count (allocateLoop count fuel hostOff d) ∧
      GrowFrame d (allocateLoop count fuel hostOff d).1 := by
  induction fuel with
  | zero => intro hostOff d w _; exact ⟨APost.of_winv w _, GrowFrame.refl d⟩
  | succ fuel ih =>
    intro hostOff d w hc
    rw [allocateLoop] at hc ⊢
    dsimp only at hc ⊢
    have post := tryAllocateFrom_acct hostOff count d w h0
    generalize tryAllocateFrom hostOff count d = r at post hc
    obtain ⟨d1, (_ | ⟨o, n⟩) | e | p⟩ := r
    · dsimp only at hc post ⊢
      obtain ⟨hm1, hm2, _⟩ := allocateLoop_rtLen_mono count fuel (Host.rbHostEnd d1.info hostOff) d1
      obtain ⟨⟨a, b, c⟩, fr⟩ := post (hc.mono hm1 hm2)
      obtain ⟨p2, fr2⟩ := ih (Host.rbHostEnd d1.info hostOff) d1 ⟨a, b, c⟩ hc
      exact ⟨p2, fr.trans fr2⟩
    · dsimp only at hc post ⊢
      split
      · rename_i hc1
        rw [if_pos hc1] at hc
        obtain ⟨⟨a, b, c, e⟩, fr⟩ := post hc
        have f : RcFrame d1 { d1 with hint := max d1.hint (o + d1.info.clusterSize) } :=
          ⟨d1.rc, _, d1.needFlush, rfl⟩
        refine ⟨⟨a.of_allocFrame f.toAlloc, b.of_rcFrame f (fun _ _ => Nat.le_refl _), ?_, e⟩,
          fr.trans f.toGrow⟩
        exact acctPlus_rcFrame c f (fun _ => rfl)
      · rename_i hc1
        rw [if_neg hc1] at hc
        exact post hc
    · exact post hc
    · exact post hc

/-- **the allocator and the accounting**: on a state satisfying the invariant, a call
    of `allocate_clusters(count)` (`count ≠ 0`) after which the refcount table still
    describes host offsets below 2^56 only — it may have grown — either returns a run,
    which is then the only surplus (allocated, referenced by nothing yet), or fails and
    leaves the accounting exact.  It does not panic, and changes nothing but `rt`, `rc`,
    the hint, the flush flag and (growth) `rtLen` and the header's table fields. -/
theorem allocateClusters_acct {count : Nat} {d d' : Dev} {r : Outcome (Option (Nat × Nat))}
    (w : WInv d) (h0 : count ≠ 0) (h : allocateClusters count d = (d', r))
    (hc : Cap d') : APost count (d', r) ∧ GrowFrame d d' := by
  have := allocateLoop_acct count h0 (d.rtLen + 2) d.hint d w (by
    show Cap (allocateClusters count d).1
    rw [h]; exact hc)
  change APost count (allocateClusters count d) ∧ GrowFrame d (allocateClusters count d).1 at this
  rw [h] at this
  exact this

end Qv.Model
