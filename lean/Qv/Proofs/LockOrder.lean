/-
Helper lemmas for C07 (lock-order discipline ⇒ no deadlock).
Spec: Qv/Spec/LockOrder.lean.  Property theorems: Qv/Props/C07.lean.
-/
import Qv.Spec.LockOrder

namespace Qv.Spec.Lock

/-- a program releases everything it acquires (and everything already held):
    running it from `held` ends with nothing held -/
def balanced : List Req → List Act → Bool
  | held, [] => held.isEmpty
  | held, .acq r :: rest => balanced (r :: held) rest
  | held, .rel l :: rest => balanced (held.filter (fun h => h.lock != l)) rest
  | held, .io :: rest => balanced held rest

/-- every task's remaining program releases everything the task holds / will acquire -/
def Balanced (s : State) : Prop := ∀ t ∈ s, balanced t.held t.prog = true

/-- no finished task still holds a lock -/
def LeakFree (s : State) : Prop := ∀ t ∈ s, finished t = true → t.held = []

end Qv.Spec.Lock

namespace Qv.Proofs.LockOrder
open Qv.Spec.Lock

/-! ### unfolding lemmas -/

theorem conflicts_comm (a b : Mode) : conflicts a b = conflicts b a := by
  cases a <;> cases b <;> rfl

theorem conflicts_rd_rd : conflicts .rd .rd = false := rfl

theorem conflicts_eq_false {a b : Mode} : conflicts a b = false ↔ a = .rd ∧ b = .rd := by
  cases a <;> cases b <;> simp [conflicts]

theorem nextReq_eq_some {t : Task} {r : Req} :
    nextReq t = some r ↔ ∃ rest, t.prog = .acq r :: rest := by
  unfold nextReq
  split
  · next r' rest h => simp [h]
  · next h =>
    constructor
    · intro h'; cases h'
    · rintro ⟨rest, hp⟩; exact absurd hp (h r rest)

theorem holdsConflict_eq_true {u : Task} {r : Req} :
    holdsConflict u r = true ↔
      ∃ h, h ∈ u.held ∧ h.lock = r.lock ∧ conflicts h.mode r.mode = true := by
  simp [holdsConflict, List.any_eq_true]

theorem blockedReq_eq_true {s : State} {i : Nat} {r : Req} :
    blockedReq s i r = true ↔
      ∃ k u, s[k]? = some u ∧ k ≠ i ∧ holdsConflict u r = true := by
  unfold blockedReq
  rw [List.any_eq_true]
  constructor
  · rintro ⟨⟨u, k⟩, hm, hp⟩
    rw [List.mem_zipIdx_iff_getElem?] at hm
    simp only [Bool.and_eq_true, bne_iff_ne, ne_eq] at hp
    exact ⟨k, u, hm, hp.1, hp.2⟩
  · rintro ⟨k, u, hk, hne, hc⟩
    refine ⟨(u, k), ?_, ?_⟩
    · rw [List.mem_zipIdx_iff_getElem?]; exact hk
    · simp only [Bool.and_eq_true, bne_iff_ne, ne_eq]; exact ⟨hne, hc⟩

theorem blockedReq_eq_false {s : State} {i : Nat} {r : Req} (h : blockedReq s i r = false)
    {k : Nat} {u : Task} (hk : s[k]? = some u) (hne : k ≠ i) : holdsConflict u r = false := by
  cases hc : holdsConflict u r with
  | false => rfl
  | true =>
    have : blockedReq s i r = true := blockedReq_eq_true.2 ⟨k, u, hk, hne, hc⟩
    rw [h] at this; cases this

theorem blocked_eq_true {s : State} {i : Nat} :
    blocked s i = true ↔
      ∃ t r, s[i]? = some t ∧ nextReq t = some r ∧ blockedReq s i r = true := by
  unfold blocked
  cases hs : s[i]? with
  | none => simp
  | some t =>
    cases hr : nextReq t with
    | none => simp [hr]
    | some r => simp [hr]

theorem blocked_of {s : State} {i : Nat} {t : Task} {r : Req}
    (hs : s[i]? = some t) (hr : nextReq t = some r) : blocked s i = blockedReq s i r := by
  simp [blocked, hs, hr]

theorem blocked_lt_length {s : State} {i : Nat} (h : blocked s i = true) : i < s.length := by
  obtain ⟨t, _, hs, _, _⟩ := blocked_eq_true.1 h
  exact (List.getElem?_eq_some_iff.1 hs).1

theorem progOk_acq {rank : Nat → Nat} {held : List Req} {r : Req} {rest : List Act}
    (h : progOk rank held (.acq r :: rest) = true) :
    (∀ g ∈ held, okPair rank g r = true) ∧ progOk rank (r :: held) rest = true := by
  simpa [progOk, List.all_eq_true] using h

theorem okPair_iff {rank : Nat → Nat} {h a : Req} :
    okPair rank h a = true ↔
      rank h.lock < rank a.lock ∨
        (rank h.lock = rank a.lock ∧ h.mode = .rd ∧ a.mode = .rd ∧ h.lock ≠ a.lock) := by
  simp [okPair, and_assoc]

/-- shapes of a successful step -/
theorem stepTask_eq_some {s s' : State} {i : Nat} (h : stepTask s i = some s') :
    ∃ t, s[i]? = some t ∧
      ((∃ r rest, t.prog = .acq r :: rest ∧ blockedReq s i r = false ∧
          s' = s.set i { held := r :: t.held, prog := rest }) ∨
       (∃ l rest, t.prog = .rel l :: rest ∧
          s' = s.set i { held := t.held.filter (fun h => h.lock != l), prog := rest }) ∨
       (∃ rest, t.prog = .io :: rest ∧ s' = s.set i { held := t.held, prog := rest })) := by
  unfold stepTask at h
  cases hs : s[i]? with
  | none => simp [hs] at h
  | some t =>
    refine ⟨t, rfl, ?_⟩
    simp only [hs] at h
    cases hp : t.prog with
    | nil => simp [hp] at h
    | cons a rest =>
      cases a with
      | acq r =>
        simp only [hp] at h
        cases hb : blockedReq s i r with
        | true => simp [hb] at h
        | false =>
          simp only [hb, Bool.false_eq_true, if_false, Option.some.injEq] at h
          exact Or.inl ⟨r, rest, rfl, hb, h.symm⟩
      | rel l =>
        simp only [hp, Option.some.injEq] at h
        exact Or.inr (Or.inl ⟨l, rest, rfl, h.symm⟩)
      | io =>
        simp only [hp, Option.some.injEq] at h
        exact Or.inr (Or.inr ⟨rest, rfl, h.symm⟩)

/-- invariant principle for per-task properties -/
theorem stepTask_forall_mem {P : Task → Prop} {s s' : State} {i : Nat}
    (hstep : stepTask s i = some s') (hP : ∀ t ∈ s, P t)
    (hacq : ∀ held r rest, P ⟨held, .acq r :: rest⟩ → P ⟨r :: held, rest⟩)
    (hrel : ∀ held l rest, P ⟨held, .rel l :: rest⟩ →
      P ⟨held.filter (fun h => h.lock != l), rest⟩)
    (hio : ∀ held rest, P ⟨held, .io :: rest⟩ → P ⟨held, rest⟩) :
    ∀ t ∈ s', P t := by
  obtain ⟨t, hs, hcase⟩ := stepTask_eq_some hstep
  have htm : t ∈ s := List.mem_iff_getElem?.2 ⟨i, hs⟩
  have hPt : P t := hP t htm
  have key : ∀ t', P t' → ∀ x ∈ s.set i t', P x := by
    intro t' ht' x hx
    rcases List.mem_or_eq_of_mem_set hx with hx | hx
    · exact hP x hx
    · exact hx ▸ ht'
  obtain ⟨held, prog⟩ := t
  rcases hcase with ⟨r, rest, hp, _, rfl⟩ | ⟨l, rest, hp, rfl⟩ | ⟨rest, hp, rfl⟩
  · simp only at hp; subst hp; exact key _ (hacq _ _ _ hPt)
  · simp only at hp; subst hp; exact key _ (hrel _ _ _ hPt)
  · simp only at hp; subst hp; exact key _ (hio _ _ hPt)

theorem runSched_invariant {I : State → Prop}
    (hstep : ∀ s i s', stepTask s i = some s' → I s → I s')
    (s : State) (sched : List Nat) (h : I s) : I (runSched s sched) := by
  induction sched generalizing s with
  | nil => exact h
  | cons i is ih =>
    unfold runSched
    cases hs : stepTask s i with
    | none => exact ih s h
    | some s' => exact ih s' (hstep s i s' hs h)

/-! ### (a) discipline is preserved -/

theorem stepTask_disciplined {rank : Nat → Nat} {s s' : State} {i : Nat}
    (hstep : stepTask s i = some s') (h : Disciplined rank s) : Disciplined rank s' := by
  refine stepTask_forall_mem (P := fun t => progOk rank t.held t.prog = true) hstep h ?_ ?_ ?_
  · intro held r rest hp; exact (progOk_acq hp).2
  · intro held l rest hp; simpa [progOk] using hp
  · intro held rest hp; simpa [progOk] using hp

theorem runSched_disciplined {rank : Nat → Nat} {s : State} (sched : List Nat)
    (h : Disciplined rank s) : Disciplined rank (runSched s sched) :=
  runSched_invariant (I := Disciplined rank) (fun _ _ _ hs hI => stepTask_disciplined hs hI)
    s sched h

/-! ### balanced programs never leak -/

theorem stepTask_balanced {s s' : State} {i : Nat}
    (hstep : stepTask s i = some s') (h : Balanced s) : Balanced s' := by
  refine stepTask_forall_mem (P := fun t => balanced t.held t.prog = true) hstep h ?_ ?_ ?_
  · intro held r rest hp; simpa [balanced] using hp
  · intro held l rest hp; simpa [balanced] using hp
  · intro held rest hp; simpa [balanced] using hp

theorem runSched_balanced {s : State} (sched : List Nat)
    (h : Balanced s) : Balanced (runSched s sched) :=
  runSched_invariant (I := Balanced) (fun _ _ _ hs hI => stepTask_balanced hs hI) s sched h

theorem Balanced.leakFree {s : State} (h : Balanced s) : LeakFree s := by
  intro t ht hf
  have hb := h t ht
  obtain ⟨held, prog⟩ := t
  simp only [finished, List.isEmpty_iff] at hf
  subst hf
  simpa [balanced] using hb

/-! ### (b) consistency is preserved -/

theorem consistent_set {s : State} {i : Nat} {t t' : Task} (hc : Consistent s)
    (hs : s[i]? = some t)
    (hnew : ∀ h ∈ t'.held, h ∈ t.held ∨
      ∀ k u, s[k]? = some u → k ≠ i → ∀ g ∈ u.held, g.lock = h.lock →
        conflicts g.mode h.mode = false) :
    Consistent (s.set i t') := by
  have hlt : i < s.length := (List.getElem?_eq_some_iff.1 hs).1
  intro a b ta tb ha hb hab h hh g hg hlock
  rw [List.getElem?_set] at ha hb
  by_cases hai : i = a
  · subst hai
    have hbi : ¬ i = b := hab
    simp only [hlt, if_true, Option.some.injEq] at ha
    simp only [hbi, if_false] at hb
    subst ha
    rcases hnew h hh with hold | hfresh
    · exact hc i b t tb hs hb hab h hold g hg hlock
    · rw [conflicts_comm]
      exact hfresh b tb hb (Ne.symm hab) g hg hlock.symm
  · simp only [hai, if_false] at ha
    by_cases hbi : i = b
    · subst hbi
      simp only [hlt, if_true, Option.some.injEq] at hb
      subst hb
      rcases hnew g hg with hold | hfresh
      · exact hc a i ta t ha hs hab h hh g hold hlock
      · exact hfresh a ta ha (Ne.symm hai) h hh hlock
    · simp only [hbi, if_false] at hb
      exact hc a b ta tb ha hb hab h hh g hg hlock

theorem stepTask_consistent {s s' : State} {i : Nat}
    (hstep : stepTask s i = some s') (hc : Consistent s) : Consistent s' := by
  obtain ⟨t, hs, hcase⟩ := stepTask_eq_some hstep
  rcases hcase with ⟨r, rest, _, hnb, rfl⟩ | ⟨l, rest, _, rfl⟩ | ⟨rest, _, rfl⟩
  · refine consistent_set hc hs ?_
    intro h hh
    rcases List.mem_cons.1 hh with rfl | hh
    · right
      intro k u hk hne g hg hlock
      have hf := blockedReq_eq_false hnb hk hne
      cases hcf : conflicts g.mode h.mode with
      | false => rfl
      | true =>
        have : holdsConflict u h = true := holdsConflict_eq_true.2 ⟨g, hg, hlock, hcf⟩
        rw [hf] at this; cases this
    · exact Or.inl hh
  · refine consistent_set hc hs ?_
    intro h hh
    exact Or.inl (List.mem_filter.1 hh).1
  · exact consistent_set hc hs (fun h hh => Or.inl hh)

theorem runSched_consistent {s : State} (sched : List Nat)
    (h : Consistent s) : Consistent (runSched s sched) :=
  runSched_invariant (I := Consistent) (fun _ _ _ hs hI => stepTask_consistent hs hI) s sched h

theorem initState_getElem? {progs : List (List Act)} {i : Nat} {t : Task}
    (h : (initState progs)[i]? = some t) : t.held = [] := by
  simp only [initState, List.getElem?_map, Option.map_eq_some_iff] at h
  obtain ⟨p, _, rfl⟩ := h
  rfl

theorem initState_consistent (progs : List (List Act)) : Consistent (initState progs) := by
  intro i j ti tj hi _ _ h hh
  rw [initState_getElem? hi] at hh
  cases hh

theorem initState_disciplined {rank : Nat → Nat} {progs : List (List Act)}
    (h : ∀ p ∈ progs, progOk rank [] p = true) : Disciplined rank (initState progs) := by
  intro t ht
  simp only [initState, List.mem_map] at ht
  obtain ⟨p, hp, rfl⟩ := ht
  exact h p hp

theorem initState_balanced {progs : List (List Act)}
    (h : ∀ p ∈ progs, balanced [] p = true) : Balanced (initState progs) := by
  intro t ht
  simp only [initState, List.mem_map] at ht
  obtain ⟨p, hp, rfl⟩ := ht
  exact h p hp

/-! ### (c) the maximal-rank argument -/

/-- a bounded nonempty predicate on `Nat` has an `f`-maximal witness -/
theorem exists_max (P : Nat → Prop) (f : Nat → Nat) :
    ∀ n, (∃ i, i < n ∧ P i) → ∃ m, m < n ∧ P m ∧ ∀ j, j < n → P j → f j ≤ f m := by
  intro n
  induction n with
  | zero => rintro ⟨i, hi, _⟩; omega
  | succ n ih =>
    rintro ⟨i, hi, hPi⟩
    by_cases hex : ∃ i, i < n ∧ P i
    · obtain ⟨m, hm, hPm, hmax⟩ := ih hex
      by_cases hn : P n ∧ f m < f n
      · refine ⟨n, by omega, hn.1, ?_⟩
        intro j hj hPj
        by_cases hjn : j = n
        · subst hjn; omega
        · have := hmax j (by omega) hPj; omega
      · refine ⟨m, by omega, hPm, ?_⟩
        intro j hj hPj
        by_cases hjn : j = n
        · subst hjn
          have : ¬ f m < f j := fun hlt => hn ⟨hPj, hlt⟩
          omega
        · exact hmax j (by omega) hPj
    · have hin : i = n := by
        by_cases hlt : i < n
        · exact absurd ⟨i, hlt, hPi⟩ hex
        · omega
      subst hin
      refine ⟨i, by omega, hPi, ?_⟩
      intro j hj hPj
      by_cases hji : j = i
      · subst hji; omega
      · exact absurd ⟨j, by omega, hPj⟩ hex

/-- rank of the request task `i` is suspended on (`0` if none) -/
def reqRank (rank : Nat → Nat) (s : State) (i : Nat) : Nat :=
  match s[i]? with
  | some t => match nextReq t with
    | some r => rank r.lock
    | none => 0
  | none => 0

theorem reqRank_of {rank : Nat → Nat} {s : State} {i : Nat} {t : Task} {r : Req}
    (hs : s[i]? = some t) (hr : nextReq t = some r) : reqRank rank s i = rank r.lock := by
  simp [reqRank, hs, hr]

/-- `m` is a blocked task whose requested lock has maximal rank among blocked tasks -/
def MaxBlocked (rank : Nat → Nat) (s : State) (m : Nat) : Prop :=
  blocked s m = true ∧ ∀ j, blocked s j = true → reqRank rank s j ≤ reqRank rank s m

theorem exists_maxBlocked (rank : Nat → Nat) {s : State} {i : Nat} (hi : blocked s i = true) :
    ∃ m, MaxBlocked rank s m := by
  obtain ⟨m, _, hPm, hmax⟩ :=
    exists_max (fun j => blocked s j = true) (reqRank rank s) s.length
      ⟨i, blocked_lt_length hi, hi⟩
  exact ⟨m, hPm, fun j hj => hmax j (blocked_lt_length hj) hj⟩

/-- the heart of the argument: a *blocked* task `k` that holds a lock conflicting with the
    request of a max-rank blocked task `m` holds it in read mode and is itself waiting for a
    read lock of the same (maximal) rank -/
theorem blocked_blocker_of_maxBlocked {rank : Nat → Nat} {s : State}
    (hd : Disciplined rank s) {m : Nat} (hm : MaxBlocked rank s m)
    {tm : Task} {rm : Req} (hsm : s[m]? = some tm) (hrm : nextReq tm = some rm)
    {k : Nat} {u : Task} (hsk : s[k]? = some u) {h : Req} (hh : h ∈ u.held)
    (hlock : h.lock = rm.lock) (hbk : blocked s k = true) :
    ∃ r', nextReq u = some r' ∧ rank r'.lock = rank rm.lock ∧ r'.mode = .rd ∧ h.mode = .rd := by
  obtain ⟨u', r', hsk', hr', _⟩ := blocked_eq_true.1 hbk
  have : u' = u := by rw [hsk] at hsk'; exact (Option.some.inj hsk').symm
  subst this
  obtain ⟨rest, hprog⟩ := nextReq_eq_some.1 hr'
  have hok := hd u' (List.mem_iff_getElem?.2 ⟨k, hsk⟩)
  rw [hprog] at hok
  have hpair := okPair_iff.1 ((progOk_acq hok).1 h hh)
  have hle := hm.2 k hbk
  rw [reqRank_of hsk hr', reqRank_of hsm hrm] at hle
  rw [hlock] at hpair
  refine ⟨r', hr', ?_⟩
  rcases hpair with hlt | ⟨heq, hmh, hmr, _⟩
  · omega
  · exact ⟨heq.symm, hmr, hmh⟩

/-- core of (c), without the leak-freedom part -/
theorem exists_blocked_with_unblocked_blockers {rank : Nat → Nat} {s : State}
    (hd : Disciplined rank s) {i : Nat} (hi : blocked s i = true) :
    ∃ j tj r, s[j]? = some tj ∧ nextReq tj = some r ∧ blocked s j = true ∧
      ∀ k u, s[k]? = some u → holdsConflict u r = true → blocked s k = false := by
  obtain ⟨m, hm⟩ := exists_maxBlocked rank hi
  obtain ⟨tm, rm, hsm, hrm, _⟩ := blocked_eq_true.1 hm.1
  by_cases hex : ∃ k u, s[k]? = some u ∧ holdsConflict u rm = true ∧ blocked s k = true
  · -- a blocker `k` of `m` is blocked: then `k` is the witness
    obtain ⟨k, u, hsk, hcf, hbk⟩ := hex
    obtain ⟨h, hh, hlock, _⟩ := holdsConflict_eq_true.1 hcf
    obtain ⟨r', hr', hrank, hrd, _⟩ :=
      blocked_blocker_of_maxBlocked hd hm hsm hrm hsk hh hlock hbk
    have hk : MaxBlocked rank s k := by
      refine ⟨hbk, fun j hj => ?_⟩
      have := hm.2 j hj
      rw [reqRank_of hsk hr', hrank, ← reqRank_of (rank := rank) hsm hrm]
      exact this
    refine ⟨k, u, r', hsk, hr', hbk, ?_⟩
    intro n v hsn hcv
    cases hbn : blocked s n with
    | false => rfl
    | true =>
      obtain ⟨g, hg, hglock, hgc⟩ := holdsConflict_eq_true.1 hcv
      obtain ⟨_, _, _, _, hgrd⟩ :=
        blocked_blocker_of_maxBlocked hd hk hsk hr' hsn hg hglock hbn
      rw [hgrd, hrd, conflicts_rd_rd] at hgc
      cases hgc
  · refine ⟨m, tm, rm, hsm, hrm, hm.1, ?_⟩
    intro k u hsk hcf
    cases hbk : blocked s k with
    | false => rfl
    | true => exact absurd ⟨k, u, hsk, hcf, hbk⟩ hex

/-! ### deadlock, unfolded -/

theorem deadlocked_eq_true {s : State} :
    deadlocked s = true ↔
      (∃ t ∈ s, finished t = false) ∧
        ∀ i t, s[i]? = some t → finished t = true ∨ blocked s i = true := by
  unfold deadlocked
  rw [Bool.and_eq_true, List.any_eq_true, List.all_eq_true]
  constructor
  · rintro ⟨⟨t, ht, hf⟩, hall⟩
    refine ⟨⟨t, ht, by simpa using hf⟩, ?_⟩
    intro i t hs
    have := hall (t, i) (List.mem_zipIdx_iff_getElem?.2 hs)
    simpa using this
  · rintro ⟨⟨t, ht, hf⟩, hall⟩
    refine ⟨⟨t, ht, by simpa using hf⟩, ?_⟩
    rintro ⟨t, i⟩ hmem
    have := hall i t (List.mem_zipIdx_iff_getElem?.1 hmem)
    simpa using this

theorem holdsConflict_held_ne_nil {u : Task} {r : Req} (h : holdsConflict u r = true) :
    u.held ≠ [] := by
  obtain ⟨g, hg, _⟩ := holdsConflict_eq_true.1 h
  intro hnil; rw [hnil] at hg; cases hg

/-- an unfinished, unblocked task can step -/
theorem stepTask_isSome_of_unblocked {s : State} {i : Nat} {t : Task} (hs : s[i]? = some t)
    (hf : finished t = false) (hb : blocked s i = false) : (stepTask s i).isSome = true := by
  unfold stepTask
  simp only [hs]
  cases hp : t.prog with
  | nil => simp [finished, hp] at hf
  | cons a rest =>
    cases a with
    | acq r =>
      have hr : nextReq t = some r := nextReq_eq_some.2 ⟨rest, hp⟩
      rw [blocked_of hs hr] at hb
      simp [hb]
    | rel l => simp
    | io => simp

end Qv.Proofs.LockOrder
