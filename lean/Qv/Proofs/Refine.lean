import Qv.Props.C08
import Qv.Props.C13
import Qv.Spec.Flat
/-
Helper lemmas for the model side of C01 (sequential reads equal a flat
reference disk) and for the lifting of C08 through the allocator loops:

0. `FMap.setRange_get`; a kernel-checked decoding of `L2.mapClusterEntry`;
1. the allocator: loop invariant of `try_allocate_from` (`RunInv`, `LoopPost`),
   refblock creation (`Created`, `RtGrow`, `RbGrow`), `AllocSound`,
   `allocateClusters_post`; location of the run (`allocateClusters_range`); a
   successful single-cluster allocation (`allocateClusters_one_free_hint`);
2. the write path without allocation (`populateSingle_noalloc`, `doWrite_inplace`,
   `writeAt_inplace`) and the read path (`doRead_dataFile`, `doRead_congr_data`,
   `pieces_spec`, `readAt_single`, `readAt_congr`, `MapInj`, `piece_disjoint`);
3. first write into an unallocated cluster (`populateSingle_alloc`, `doWrite_new`,
   `write_new_cluster`, `read_zeroedWrite`);
4. multi-cluster in-place writes (`makeMultiples_noalloc`, `pieces_fuel`, `dataAfter`,
   `doWrites_inplace`, `writeAt_inplace_multi`, `doReads_dataAfter`, …);
5. sector-wise reads (`guestSec`, `doRead_sectorwise`, `readAt_sectorwise`) and the
   refinement relation `Refines` to `Qv.Spec.Flat`.
-/
namespace Qv.FMap
variable {α : Type}
/-- pointwise content after `setRange` (the same statement as `FMap.get_setRange` of
    `Qv/Proofs/Flat.lean` in the main tree; named differently so that both files can be
    imported together) -/
theorem setRange_get (f : FMap α) (k n : Nat) (g : Nat → α) (j : Nat) :
    (f.setRange k n g).get j = if k ≤ j ∧ j < k + n then g (j - k) else f.get j := by
  unfold FMap.setRange
  induction n with
  | zero => rw [if_neg (by omega)]; rfl
  | succ n ih =>
    rw [List.range_succ, List.foldl_append]
    simp only [List.foldl_cons, List.foldl_nil]
    rw [FMap.get_set, ih]
    by_cases h : k + n = j
    · subst h; simp
    · rw [if_neg h]
      by_cases h2 : k ≤ j ∧ j < k + n
      · rw [if_pos h2, if_pos (by omega)]
      · rw [if_neg h2, if_neg (by omega)]

end Qv.FMap

namespace Qv.Codec.L2

theorem mapClusterEntry_toNat (h : Nat) (h63 : h < 2^63) : (mapClusterEntry h).toNat = 2^63 + h := by
  unfold mapClusterEntry
  rw [BitVec.toNat_or, one_shiftLeft_toNat 63 (by decide), BitVec.toNat_ofNat,
    Nat.mod_eq_of_lt (by omega : h < 2^64)]
  have := Nat.two_pow_add_eq_or_of_lt h63 1
  rw [Nat.mul_one] at this
  exact this.symm

theorem bit_of_toNat (e : E64) (i : Nat) : (e.extractLsb' i 1 == 1#1) = decide (e.toNat / 2^i % 2 = 1) := by
  have h : (e.extractLsb' i 1).toNat = e.toNat / 2^i % 2 := by
    rw [BitVec.extractLsb'_toNat, Nat.shiftRight_eq_div_pow]
  by_cases hb : e.toNat / 2^i % 2 = 1
  · rw [decide_eq_true hb]
    rw [beq_iff_eq]
    apply BitVec.eq_of_toNat_eq
    rw [h, hb]; rfl
  · rw [decide_eq_false hb]
    rw [beq_eq_false_iff_ne]
    intro hc
    apply hb
    rw [← h, hc]; rfl

/-- kernel-checked (no `bv_decide`) decoding of the entry `map_cluster` stores -/
theorem mapClusterEntry_intoMapping (cb : Nat) (hasBack : Bool) (gcOff host : Nat)
    (h512 : host % 512 = 0) (hpos : 0 < host) (h56 : host < 2^56) :
    intoMapping cb hasBack gcOff (mapClusterEntry host)
      = { source := .dataFile, clusterOffset := some host, compressedLength := none, copied := true } := by
  have hT := mapClusterEntry_toNat host (by omega)
  have hcomp : isCompressed (mapClusterEntry host) = false := by
    rw [isCompressed_eq, bit_of_toNat, hT]
    apply decide_eq_false; omega
  have hcop : isCopied (mapClusterEntry host) = true := by
    rw [isCopied_eq, bit_of_toNat, hT]
    apply decide_eq_true; omega
  have hz : isZero (mapClusterEntry host) = false := by
    rw [isZero_eq, bit_of_toNat, hT]
    apply decide_eq_false; omega
  have hoff : (clusterOffset (mapClusterEntry host)).toNat = host := by
    rw [clusterOffset_toNat, BitVec.extractLsb'_toNat, Nat.shiftRight_eq_div_pow, hT]
    omega
  have hne : ¬ clusterOffset (mapClusterEntry host) = 0#64 := by
    intro h; rw [h] at hoff; simp at hoff; omega
  have hcr : compressedRange cb (mapClusterEntry host) = none := by
    unfold compressedRange; rw [hcomp]; rfl
  unfold intoMapping
  rw [hcr]
  simp only []
  rw [hz, hcop, if_neg Bool.false_ne_true, if_neg hne, hoff]
end Qv.Codec.L2

namespace Qv.Model
open Qv Qv.Codec
open Qv.Props.C15 (Geom)

/-! ## 1. the allocator loops -/

-- (`cs_pos` now lives in `Qv/Proofs/Grow.lean`)

/-- `d'` differs from `d` at most in `rc`, `hint`, `needFlush` -/
def RcFrame (d d' : Dev) : Prop :=
  ∃ rc hint nf, d' = { d with rc := rc, hint := hint, needFlush := nf }

theorem RcFrame.refl (d : Dev) : RcFrame d d := ⟨d.rc, d.hint, d.needFlush, rfl⟩
theorem RcFrame.trans {a b c : Dev} (h1 : RcFrame a b) (h2 : RcFrame b c) : RcFrame a c := by
  obtain ⟨r1, h1, n1, rfl⟩ := h1
  obtain ⟨r2, h2, n2, rfl⟩ := h2
  exact ⟨r2, h2, n2, rfl⟩
theorem RcFrame.info {d d' : Dev} (h : RcFrame d d') : d'.info = d.info := by
  obtain ⟨_, _, _, rfl⟩ := h; rfl

theorem tryAlloc_rcFrame {off count : Nat} {fixed : Bool} {d d' : Dev} {r : Outcome (Option (Nat × Nat))}
    (h : tryAllocFromRbSlice off count fixed d = (d', r)) : RcFrame d d' := by
  obtain ⟨d'', r', h'⟩ := tryAlloc_total off count fixed d
  rw [h'] at h
  simp only [Prod.mk.injEq] at h
  obtain ⟨rfl, rfl⟩ := h
  cases r' with
  | none => rw [(tryAlloc_none h').1]; exact RcFrame.refl d
  | some x =>
    obtain ⟨o, n⟩ := x
    obtain ⟨s, _, _, _, _, _, _, _, _, _, h10⟩ := tryAlloc_some h'
    exact ⟨d''.rc, d.hint, true, h10⟩

theorem freeClusters_rcFrame {host n : Nat} {fz : Bool} {d d' : Dev} {r : Outcome Unit}
    (h : freeClusters host n fz d = (d', r)) : RcFrame d d' := by
  have := (freeClusters_frame host n fz d).1
  rw [h] at this
  exact ⟨_, _, _, this⟩

/-- invariant of the `try_allocate_from` loop relative to the state `d0` at loop entry -/
structure RunInv (d0 d : Dev) (allocCnt host count outOff done : Nat) : Prop where
  frame : RcFrame d0 d
  cnt : count + done = allocCnt
  zero : done = 0 → ∀ c, d.rc.get c = d0.rc.get c
  run : done ≠ 0 →
    host = outOff + done * d0.info.clusterSize ∧ outOff % d0.info.clusterSize = 0 ∧
    (∀ c, outOff / d0.info.clusterSize ≤ c → c < outOff / d0.info.clusterSize + done →
      d0.rc.get c = 0 ∧ d.rc.get c = 1) ∧
    (∀ c, ¬ (outOff / d0.info.clusterSize ≤ c ∧ c < outOff / d0.info.clusterSize + done) →
      d.rc.get c = d0.rc.get c)

/-- what a finished loop guarantees relative to the state `d0` at loop entry -/
def LoopPost (d0 : Dev) (allocCnt : Nat) (r : Dev × Outcome (Option (Nat × Nat))) : Prop :=
  RcFrame d0 r.1 ∧
  match r.2 with
  | .ok none => ∀ c, r.1.rc.get c = d0.rc.get c
  | .ok (some (o, n)) =>
    1 ≤ n ∧ n ≤ allocCnt ∧ o % d0.info.clusterSize = 0 ∧
    (∀ c, o / d0.info.clusterSize ≤ c → c < o / d0.info.clusterSize + n →
      d0.rc.get c = 0 ∧ r.1.rc.get c = 1) ∧
    (∀ c, ¬ (o / d0.info.clusterSize ≤ c ∧ c < o / d0.info.clusterSize + n) →
      r.1.rc.get c = d0.rc.get c)
  | _ => True

theorem loopStep_inv (rbEnd allocCnt host count outOff done : Nat) (d0 d : Dev)
    (inv : RunInv d0 d allocCnt host count outOff done) :
    match loopStep rbEnd allocCnt host count outOff done d with
    | .ret r => LoopPost d0 allocCnt r
    | .cont h c o dn d' => RunInv d0 d' allocCnt h c o dn := by
  have hi : d.info = d0.info := inv.frame.info
  unfold loopStep
  dsimp only
  by_cases hc : count > 0 ∧ host < rbEnd
  · rw [if_neg (not_not_intro hc)]
    generalize hr : tryAllocFromRbSlice host (min count d.info.rbSliceEntries) (decide (done ≠ 0)) d = r
    rcases r with ⟨d1, (_ | ⟨o, n⟩) | e | p⟩
    all_goals (try dsimp only)
    · -- no fit in this slice
      have hd1 : d1 = d := (tryAlloc_none hr).1
      subst hd1
      by_cases h0 : done = 0
      · rw [if_pos h0]
        exact ⟨inv.frame, inv.cnt, inv.zero, fun h => absurd h0 h⟩
      · rw [if_neg h0]
        obtain ⟨_, a2, a3, a4⟩ := inv.run h0
        have := inv.cnt
        exact ⟨inv.frame, by omega, by omega, a2, a3, a4⟩
    · obtain ⟨_, s2, _, s4, s5, s6, _, _, s9⟩ :=
        Qv.Props.C08.tryAlloc_sound host _ _ d d1 o n hr
      rw [hi] at s4 s5 s6
      have f1 : RcFrame d d1 := tryAlloc_rcFrame hr
      by_cases hf : done ≠ 0 ∧ host ≠ o
      · rw [if_pos hf]
        generalize hr2 : freeClusters outOff done true d1 = r2
        rcases r2 with ⟨d2, _ | e | p⟩
        all_goals (try dsimp only)
        · have f2 := freeClusters_rcFrame hr2
          generalize hr3 : freeClusters o n true d2 = r3
          rcases r3 with ⟨d3, _ | e | p⟩
          all_goals (try dsimp only)
          · have f3 := freeClusters_rcFrame hr3
            obtain ⟨b1, _⟩ := freeClusters_ok hr2
            obtain ⟨c1, _⟩ := freeClusters_ok hr3
            have hi1 : d1.info = d0.info := f1.info.trans hi
            have hi2 : d2.info = d0.info := f2.info.trans hi1
            rw [hi1] at b1
            rw [hi2] at c1
            obtain ⟨_, _, a3, a4⟩ := inv.run hf.1
            refine ⟨inv.frame.trans (f1.trans (f2.trans f3)), by omega, ?_, fun h => absurd rfl h⟩
            intro _ c
            rw [c1 c, b1 c]
            by_cases hn : o / d0.info.clusterSize ≤ c ∧ c < o / d0.info.clusterSize + n
            · obtain ⟨z1, z2⟩ := s5 c hn.1 hn.2
              have hold : ¬ (outOff / d0.info.clusterSize ≤ c ∧ c < outOff / d0.info.clusterSize + done) := by
                intro ho
                have := (a3 c ho.1 ho.2).2
                omega
              rw [if_pos hn, if_neg hold, z2, ← a4 c hold, z1]
            · rw [if_neg hn, s6 c hn]
              by_cases ho : outOff / d0.info.clusterSize ≤ c ∧ c < outOff / d0.info.clusterSize + done
              · obtain ⟨y1, y2⟩ := a3 c ho.1 ho.2
                rw [if_pos ho, y2, y1]
              · rw [if_neg ho, a4 c ho]
          · exact ⟨inv.frame.trans (f1.trans (f2.trans (freeClusters_rcFrame hr3))), trivial⟩
          · exact ⟨inv.frame.trans (f1.trans (f2.trans (freeClusters_rcFrame hr3))), trivial⟩
        · exact ⟨inv.frame.trans (f1.trans (freeClusters_rcFrame hr2)), trivial⟩
        · exact ⟨inv.frame.trans (f1.trans (freeClusters_rcFrame hr2)), trivial⟩
      · rw [if_neg hf]
        by_cases hn : n > count
        · rw [if_pos hn]; exact ⟨inv.frame.trans f1, trivial⟩
        · rw [if_neg hn]
          rw [hi]
          refine ⟨inv.frame.trans f1, by have := inv.cnt; omega, ?_, ?_⟩
          · intro hz c
            have hd0 : done = 0 := by omega
            have hn0 : n = 0 := by omega
            rw [s6 c (by omega), inv.zero hd0 c]
          · intro _
            by_cases h0 : done = 0
            · rw [if_pos h0]
              subst h0
              have z := inv.zero rfl
              refine ⟨by rw [Nat.zero_add], s4, ?_, ?_⟩
              · intro c c1 c2
                obtain ⟨z1, z2⟩ := s5 c c1 (by omega)
                exact ⟨by rw [← z c]; exact z1, z2⟩
              · intro c hc'
                rw [s6 c (by omega), z c]
            · rw [if_neg h0]
              have ho : host = o := by
                apply Classical.byContradiction; intro hne; exact hf ⟨h0, hne⟩
              obtain ⟨a1, a2, a3, a4⟩ := inv.run h0
              have hdiv : o / d0.info.clusterSize = outOff / d0.info.clusterSize + done := by
                rw [← ho, a1]; exact add_mul_cs_div d0.info outOff done
              rw [hdiv] at s5 s6
              refine ⟨by rw [← ho, a1, Nat.add_mul, Nat.add_assoc], a2, ?_, ?_⟩
              · intro c c1 c2
                by_cases hold : c < outOff / d0.info.clusterSize + done
                · obtain ⟨y1, y2⟩ := a3 c c1 hold
                  exact ⟨y1, by rw [s6 c (by omega)]; exact y2⟩
                · obtain ⟨z1, z2⟩ := s5 c (by omega) (by omega)
                  exact ⟨by rw [← a4 c (by omega)]; exact z1, z2⟩
              · intro c hc'
                rw [s6 c (by omega), a4 c (by omega)]
    · exact ⟨inv.frame.trans (tryAlloc_rcFrame hr), trivial⟩
    · exact ⟨inv.frame.trans (tryAlloc_rcFrame hr), trivial⟩
  · rw [if_pos hc]
    refine ⟨inv.frame, ?_⟩
    dsimp only
    by_cases h0 : done = 0
    · rw [if_neg (not_not_intro h0)]
      exact inv.zero h0
    · rw [if_pos h0]
      obtain ⟨_, a2, a3, a4⟩ := inv.run h0
      have := inv.cnt
      exact ⟨by omega, by omega, a2, a3, a4⟩

theorem tryAllocateLoop_post (rbEnd allocCnt : Nat) (d0 : Dev) (fuel : Nat) :
    ∀ host count outOff done d, RunInv d0 d allocCnt host count outOff done →
      LoopPost d0 allocCnt (tryAllocateLoop rbEnd allocCnt fuel host count outOff done d) := by
  induction fuel with
  | zero => intro host count outOff done d inv; exact ⟨inv.frame, trivial⟩
  | succ fuel ih =>
    intro host count outOff done d inv
    rw [tryAllocateLoop_succ]
    have := loopStep_inv rbEnd allocCnt host count outOff done d0 d inv
    split <;> rename_i heq <;> rw [heq] at this
    · exact this
    · exact ih _ _ _ _ _ this

/-! ### refblock creation and the outer loop -/

/-- host offset at which `ensure_refblock_offset` places the refblock of reftable entry `idx` -/
def rbOffOf (i : Info) (idx : Nat) : Nat := idx * i.rbEntries * i.clusterSize

/-- reftable entry `idx` had no refblock in `d` and holds a freshly created one in `d'` -/
def Created (d d' : Dev) (idx : Nat) : Prop :=
  idx < d.rtLen ∧ RT.isZero (d.rt.get idx) = true ∧
    d'.rt.get idx = BitVec.ofNat 64 (rbOffOf d.info idx)

/-- `d'` differs from `d` at most in the allocator's own fields -/
def AllocFrame (d d' : Dev) : Prop :=
  ∃ rt rc hint nf, d' = { d with rt := rt, rc := rc, hint := hint, needFlush := nf }

theorem AllocFrame.refl (d : Dev) : AllocFrame d d := ⟨d.rt, d.rc, d.hint, d.needFlush, rfl⟩
theorem AllocFrame.trans {a b c : Dev} (h1 : AllocFrame a b) (h2 : AllocFrame b c) : AllocFrame a c := by
  obtain ⟨t1, r1, h1, n1, rfl⟩ := h1
  obtain ⟨t2, r2, h2, n2, rfl⟩ := h2
  exact ⟨t2, r2, h2, n2, rfl⟩
theorem RcFrame.toAlloc {d d' : Dev} (h : RcFrame d d') : AllocFrame d d' := by
  obtain ⟨r, h, n, rfl⟩ := h
  exact ⟨d.rt, r, h, n, rfl⟩
theorem RcFrame.rt {d d' : Dev} (h : RcFrame d d') : d'.rt = d.rt := by
  obtain ⟨_, _, _, rfl⟩ := h; rfl
theorem AllocFrame.info {d d' : Dev} (h : AllocFrame d d') : d'.info = d.info := by
  obtain ⟨_, _, _, _, rfl⟩ := h; rfl
theorem AllocFrame.rtLen {d d' : Dev} (h : AllocFrame d d') : d'.rtLen = d.rtLen := by
  obtain ⟨_, _, _, _, rfl⟩ := h; rfl

/-- frame + reftable growth only -/
structure RtGrow (d d' : Dev) : Prop where
  frame : AllocFrame d d'
  rt : ∀ idx, d'.rt.get idx = d.rt.get idx ∨ Created d d' idx

/-- … and refcounts changed only for the clusters of created refblocks -/
structure RbGrow (d d' : Dev) : Prop extends RtGrow d d' where
  rc : ∀ c, d'.rc.get c = d.rc.get c ∨
    ∃ idx, Created d d' idx ∧ c = rbOffOf d.info idx / d.info.clusterSize ∧ d'.rc.get c = 1

theorem RbGrow.refl (d : Dev) : RbGrow d d :=
  ⟨⟨AllocFrame.refl d, fun _ => Or.inl rfl⟩, fun _ => Or.inl rfl⟩

theorem RtGrow.rcFrame {d dk dk' : Dev} (g : RtGrow d dk) (f : RcFrame dk dk') : RtGrow d dk' := by
  refine ⟨g.frame.trans f.toAlloc, ?_⟩
  intro idx
  unfold Created
  rw [f.rt]
  exact g.rt idx

theorem RbGrow.rcFrame {d dk dk' : Dev} (g : RbGrow d dk) (f : RcFrame dk dk')
    (hrc : ∀ c, dk'.rc.get c = dk.rc.get c) : RbGrow d dk' := by
  refine ⟨g.toRtGrow.rcFrame f, ?_⟩
  intro c
  unfold Created
  rw [f.rt, hrc c]
  exact g.rc c

/-- CHANGED (reftable growth): hypothesis `hl1` added — the call did not grow the table
    (`rtLen` never decreases and every growth raises it, `ensureRefblock_oob_grows`).
    With growth `RbGrow` is false: the relocation rewrites refcounts of the new table
    region and releases the old table; see `RtGrowG` for what holds in general. -/
theorem ensureRefblock_grow {d dk dk1 : Dev} {off : Nat} {r : Outcome Unit} (g : RbGrow d dk)
    (h : ensureRefblock off dk = (dk1, r)) (hl1 : dk1.rtLen = dk.rtLen) : RbGrow d dk1 := by
  have hi : dk.info = d.info := g.frame.info
  have hl : dk.rtLen = d.rtLen := g.frame.rtLen
  by_cases hlt' : Host.rtIndex dk.info off < dk.rtLen
  · rw [ensureRefblock_inb hlt', ensureRefblockIn_eq, if_neg (not_not_intro hlt')] at h
    by_cases hz' : RT.isZero (dk.rt.get (Host.rtIndex dk.info off)) = true
    · rw [if_pos hz'] at h
      unfold withRefblockAt at h
      simp only [Prod.mk.injEq] at h
      obtain ⟨hd, _⟩ := h
      generalize hidx : Host.rtIndex dk.info off = rtIdx at hd hlt' hz'
      have hoff : rtIdx * dk.info.rbEntries * dk.info.clusterSize = rbOffOf d.info rtIdx := by
        rw [hi]; rfl
      rw [hoff] at hd
      have hrt1 : dk1.rt = dk.rt.set rtIdx (BitVec.ofNat 64 (rbOffOf d.info rtIdx)) := by rw [← hd]
      have hrc1 : dk1.rc = dk.rc.set (rbOffOf d.info rtIdx / dk.info.clusterSize) 1 := by rw [← hd]
      rw [hi] at hrc1
      have hfr : AllocFrame dk dk1 := ⟨_, _, dk.hint, true, hd.symm⟩
      -- the freshly written entry
      have hnew : Created d dk1 rtIdx := by
        refine ⟨by omega, ?_, by rw [hrt1, FMap.get_set_same]⟩
        rcases g.rt rtIdx with e | c
        · rw [← e]; exact hz'
        · exact c.2.1
      have hmono : ∀ idx, Created d dk idx → Created d dk1 idx := by
        intro idx c
        by_cases hx : idx = rtIdx
        · subst hx; exact hnew
        · refine ⟨c.1, c.2.1, ?_⟩
          rw [hrt1, FMap.get_set_other _ _ _ _ (Ne.symm hx)]; exact c.2.2
      refine ⟨⟨g.frame.trans hfr, ?_⟩, ?_⟩
      · intro idx
        by_cases hx : idx = rtIdx
        · subst hx; exact Or.inr hnew
        · rcases g.rt idx with e | c
          · left; rw [hrt1, FMap.get_set_other _ _ _ _ (Ne.symm hx)]; exact e
          · exact Or.inr (hmono idx c)
      · intro c
        by_cases hx : c = rbOffOf d.info rtIdx / d.info.clusterSize
        · right
          exact ⟨rtIdx, hnew, hx, by rw [hrc1, hx, FMap.get_set_same]⟩
        · have e1 : dk1.rc.get c = dk.rc.get c := by
            rw [hrc1, FMap.get_set_other _ _ _ _ (Ne.symm hx)]
          rcases g.rc c with e | ⟨idx, cr, hc, h1⟩
          · left; rw [e1]; exact e
          · right; exact ⟨idx, hmono idx cr, hc, by rw [e1]; exact h1⟩
    · rw [if_neg hz'] at h
      simp only [Prod.mk.injEq] at h; rw [← h.1]; exact g
  · rcases ensureRefblock_oob_grows hlt' with e | e
    · rw [e] at h
      simp only [Prod.mk.injEq] at h; rw [← h.1]; exact g
    · rw [h] at e; dsimp only at e; omega

/-- what a successful `allocate_clusters` guarantees -/
structure AllocSound (d d' : Dev) (count host n : Nat) : Prop extends RtGrow d d' where
  n_pos : 1 ≤ n
  n_le : n ≤ count
  aligned : host % d.info.clusterSize = 0
  run : ∀ c, host / d.info.clusterSize ≤ c → c < host / d.info.clusterSize + n →
    d.rc.get c = 0 ∧ d'.rc.get c = 1
  other : ∀ c, ¬ (host / d.info.clusterSize ≤ c ∧ c < host / d.info.clusterSize + n) →
    d'.rc.get c = d.rc.get c ∨
    ∃ idx, Created d d' idx ∧ c = rbOffOf d.info idx / d.info.clusterSize ∧ d'.rc.get c = 1

/-- result of the allocator functions relative to the state `d` at the start of `allocate_clusters` -/
def AllocPost (d : Dev) (count : Nat) (r : Dev × Outcome (Option (Nat × Nat))) : Prop :=
  match r.2 with
  | .ok (some (o, n)) => AllocSound d r.1 count o n
  | .ok none => RbGrow d r.1
  | _ => RtGrow d r.1

/-- CHANGED (reftable growth): hypothesis `hl` added (no growth in this call) -/
theorem tryAllocateFrom_post {d dk : Dev} (g : RbGrow d dk) (hostOff count : Nat)
    (hl : (tryAllocateFrom hostOff count dk).1.rtLen = dk.rtLen) :
    AllocPost d count (tryAllocateFrom hostOff count dk) := by
  unfold tryAllocateFrom at hl ⊢
  by_cases h0 : count = 0
  · rw [if_pos h0]; exact g.toRtGrow
  · rw [if_neg h0] at hl ⊢
    generalize he : ensureRefblock hostOff dk = re at hl
    rcases re with ⟨dk1, _ | e | p⟩
    · dsimp only at hl
      have hsm := tryAllocateLoop_sameMeta (Host.rbHostEnd dk1.info hostOff) count
        (2 * (dk1.info.rbEntries / max dk1.info.rbSliceEntries 1 + 2 + count) + 4) hostOff count 0 0 dk1
      have g1 := ensureRefblock_grow g he (by rw [← hl]; exact hsm.2.1.symm)
      dsimp only
      have post := tryAllocateLoop_post (Host.rbHostEnd dk1.info hostOff) count dk1
        (2 * (dk1.info.rbEntries / max dk1.info.rbSliceEntries 1 + 2 + count) + 4) hostOff count 0 0 dk1
        ⟨RcFrame.refl dk1, rfl, fun _ _ => rfl, fun h => absurd rfl h⟩
      generalize tryAllocateLoop (Host.rbHostEnd dk1.info hostOff) count
        (2 * (dk1.info.rbEntries / max dk1.info.rbSliceEntries 1 + 2 + count) + 4) hostOff count 0 0 dk1 = r at post
      obtain ⟨d1, (_ | ⟨o, n⟩) | e | p⟩ := r
      · exact g1.rcFrame post.1 post.2
      · obtain ⟨fr, p1, p2, p3, p4, p5⟩ := post
        dsimp only at fr p4 p5
        have hi1 : dk1.info = d.info := g1.frame.info
        rw [hi1] at p3 p4 p5
        have gt := g1.toRtGrow.rcFrame fr
        have hcr : ∀ idx, Created d dk1 idx → Created d d1 idx := by
          intro idx c; unfold Created; rw [fr.rt]; exact c
        refine ⟨gt, p1, p2, p3, ?_, ?_⟩
        · intro c c1 c2
          obtain ⟨z1, z2⟩ := p4 c c1 c2
          refine ⟨?_, z2⟩
          rcases g1.rc c with e | ⟨idx, _, _, h1⟩
          · rw [← e]; exact z1
          · omega
        · intro c hc
          show d1.rc.get c = _ ∨ _
          rw [p5 c hc]
          rcases g1.rc c with e | ⟨idx, cr, hc', h1⟩
          · exact Or.inl e
          · exact Or.inr ⟨idx, hcr idx cr, hc', h1⟩
      · exact g1.toRtGrow.rcFrame post.1
      · exact g1.toRtGrow.rcFrame post.1
    · exact (ensureRefblock_grow g he hl).toRtGrow
    · exact (ensureRefblock_grow g he hl).toRtGrow

theorem AllocSound.setHint {d d1 : Dev} {count o n : Nat} (h : AllocSound d d1 count o n) (x : Nat) :
    AllocSound d { d1 with hint := x } count o n := by
  obtain ⟨⟨fr, rt⟩, a, b, c, e, f⟩ := h
  refine ⟨⟨fr.trans ⟨d1.rt, d1.rc, x, d1.needFlush, rfl⟩, rt⟩, a, b, c, e, f⟩

/-- CHANGED (reftable growth): for runs of the loop that do not grow the table -/
theorem allocateLoop_post (d : Dev) (count : Nat) (fuel : Nat) :
    ∀ hostOff dk, RbGrow d dk → (allocateLoop count fuel hostOff dk).1.rtLen = dk.rtLen →
      AllocPost d count (allocateLoop count fuel hostOff dk) := by
  induction fuel with
  | zero => intro hostOff dk g _; exact g.toRtGrow
  | succ fuel ih =>
    intro hostOff dk g hl
    rw [allocateLoop] at hl ⊢
    dsimp only at hl ⊢
    have post := tryAllocateFrom_post g hostOff count
    have e2 := (tryAllocateFrom_sameInfo hostOff count dk).2.1
    generalize tryAllocateFrom hostOff count dk = r at post hl e2
    obtain ⟨d1, (_ | ⟨o, n⟩) | e | p⟩ := r
    · dsimp only at hl e2 post ⊢
      have hm := (allocateLoop_rtLen_mono count fuel (Host.rbHostEnd d1.info hostOff) d1).2.1
      have h1 : d1.rtLen = dk.rtLen := by omega
      exact ih _ d1 (post h1) (by omega)
    · dsimp only at hl e2 post ⊢
      split
      · rename_i hc
        rw [if_pos hc] at hl
        exact AllocSound.setHint (post hl) _
      · rename_i hc
        rw [if_neg hc] at hl
        exact post hl
    · exact post hl
    · exact post hl

/-- CHANGED (reftable growth; was unconditional): the post-condition of a call of
    `allocate_clusters` that did not grow the reftable.  `rtLen` never decreases and
    each growth raises it, so `d'.rtLen = d.rtLen` says exactly that no growth happened. -/
theorem allocateClusters_post (count : Nat) (d : Dev)
    (hl : (allocateClusters count d).1.rtLen = d.rtLen) :
    AllocPost d count (allocateClusters count d) :=
  allocateLoop_post d count _ _ d (RbGrow.refl d) hl

/-! ### what holds with reftable growth -/

/-- `d'` differs from `d` at most in the allocator's own fields and in those the
    relocation of the reftable writes (`rtLen`, the header's reftable offset / size) -/
def GrowFrame (d d' : Dev) : Prop :=
  ∃ rt rc hint nf len o c, d' = { d with rt := rt, rc := rc, hint := hint, needFlush := nf,
                                         rtLen := len, hdrRtOff := o, hdrRtClusters := c }

theorem GrowFrame.refl (d : Dev) : GrowFrame d d :=
  ⟨d.rt, d.rc, d.hint, d.needFlush, d.rtLen, d.hdrRtOff, d.hdrRtClusters, rfl⟩
theorem GrowFrame.trans {a b c : Dev} (h1 : GrowFrame a b) (h2 : GrowFrame b c) : GrowFrame a c := by
  obtain ⟨t1, r1, h1, n1, l1, o1, c1, rfl⟩ := h1
  obtain ⟨t2, r2, h2, n2, l2, o2, c2, rfl⟩ := h2
  exact ⟨t2, r2, h2, n2, l2, o2, c2, rfl⟩
theorem GrowFrame.info {d d' : Dev} (h : GrowFrame d d') : d'.info = d.info := by
  obtain ⟨_, _, _, _, _, _, _, rfl⟩ := h; rfl
theorem RcFrame.toGrow {d d' : Dev} (h : RcFrame d d') : GrowFrame d d' := by
  obtain ⟨r, h, n, rfl⟩ := h
  exact ⟨d.rt, r, h, n, d.rtLen, d.hdrRtOff, d.hdrRtClusters, rfl⟩
theorem RcFrame.rtLen {d d' : Dev} (h : RcFrame d d') : d'.rtLen = d.rtLen := by
  obtain ⟨_, _, _, rfl⟩ := h; rfl

/-- frame + the table never shrinks + the entries of the original table are kept or
    (if they had no refblock) created.  Holds for every outcome of `allocate_clusters`,
    with or without growth. -/
structure RtGrowG (d d' : Dev) : Prop where
  frame : GrowFrame d d'
  len : d.rtLen ≤ d'.rtLen
  rt : ∀ idx, idx < d.rtLen → d'.rt.get idx = d.rt.get idx ∨ Created d d' idx

theorem RtGrowG.refl (d : Dev) : RtGrowG d d := ⟨GrowFrame.refl d, Nat.le_refl _, fun _ _ => Or.inl rfl⟩

/-- `b` is reached from `a` by a step that keeps `RtGrowG` relative to any start -/
def GrowPres (a b : Dev) : Prop := ∀ d, RtGrowG d a → RtGrowG d b

theorem GrowPres.refl (a : Dev) : GrowPres a a := fun _ h => h
theorem GrowPres.trans (a b c : Dev) (h1 : GrowPres a b) (h2 : GrowPres b c) : GrowPres a c :=
  fun d h => h2 d (h1 d h)

theorem RcFrame.growPres {a b : Dev} (f : RcFrame a b) : GrowPres a b := by
  intro d g
  refine ⟨g.frame.trans f.toGrow, by rw [f.rtLen]; exact g.len, ?_⟩
  intro idx hidx
  unfold Created
  rw [f.rt]
  exact g.rt idx hidx

theorem growReftable_growPres (i : Nat) (a : Dev) (hle : a.rtLen ≤ i) :
    GrowPres a (growReftable i a).1 := by
  intro d g
  generalize hr : growReftable i a = r
  obtain ⟨b, o⟩ := r
  have hfr : GrowFrame a b := by
    have := growReftable_frame i a
    rw [hr] at this
    exact ⟨_, _, a.hint, _, _, _, _, this⟩
  rcases growReftable_cases hr with ⟨hip, rfl, _⟩ | ⟨_, _, rfl, _⟩ | ⟨_, _, rfl, _⟩
  · refine ⟨g.frame.trans hfr, ?_, ?_⟩
    · have := g.len; have := hip.1
      show d.rtLen ≤ a.hdrRtClusters * a.info.clusterSize / 8
      omega
    · intro idx hidx; exact g.rt idx hidx
  · refine ⟨g.frame.trans hfr, ?_, ?_⟩
    · have := g.len
      have := growNewSize_covers a i
      show d.rtLen ≤ growNewSize a i / 8
      omega
    · intro idx hidx
      have := g.len
      have e : (growRelocated a i).rt.get idx = a.rt.get idx :=
        FMap.get_set_other _ _ _ _ (by omega)
      unfold Created
      rw [e]
      exact g.rt idx hidx
  · exact g

theorem ensureRefblockIn_growPres (i : Nat) (a : Dev) : GrowPres a (ensureRefblockIn i a).1 := by
  intro d g
  rw [ensureRefblockIn_eq]
  split
  · exact g
  · rename_i hlt
    split
    · rename_i hz
      have hi : a.info = d.info := g.frame.info
      have hfr : GrowFrame a (withRefblockAt a i) :=
        ⟨_, _, a.hint, true, a.rtLen, a.hdrRtOff, a.hdrRtClusters, rfl⟩
      refine ⟨g.frame.trans hfr, g.len, ?_⟩
      intro idx hidx
      have hrt1 : (withRefblockAt a i).rt = a.rt.set i (BitVec.ofNat 64 (rbOffOf d.info i)) := by
        unfold withRefblockAt rbOffOf; rw [hi]
      by_cases hx : idx = i
      · subst hx
        right
        refine ⟨hidx, ?_, by rw [hrt1, FMap.get_set_same]⟩
        rcases g.rt idx hidx with e | c
        · rw [← e]; exact hz
        · exact c.2.1
      · rcases g.rt idx hidx with e | c
        · left; rw [hrt1, FMap.get_set_other _ _ _ _ (Ne.symm hx)]; exact e
        · right
          refine ⟨c.1, c.2.1, ?_⟩
          rw [hrt1, FMap.get_set_other _ _ _ _ (Ne.symm hx)]; exact c.2.2
    · exact g

/-- NEW: the general frame of `allocate_clusters`, whatever its outcome and whether or
    not the reftable grew -/
theorem allocateClusters_growFrame (count : Nat) (d : Dev) : RtGrowG d (allocateClusters count d).1 := by
  refine allocateClusters_rel GrowPres GrowPres.refl GrowPres.trans growReftable_growPres
    ensureRefblockIn_growPres ?_ ?_ ?_ count d d (RtGrowG.refl d)
  · intro o n fz a
    exact (freeClusters_rcFrame (r := (freeClusters o n fz a).2) rfl).growPres
  · intro off cnt fixed a
    exact (tryAlloc_rcFrame (r := (tryAllocFromRbSlice off cnt fixed a).2) rfl).growPres
  · intro a x
    exact (show RcFrame a { a with hint := x } from ⟨a.rc, x, a.needFlush, rfl⟩).growPres

/-! ### the run lies inside the area covered by the reftable -/

/-- all offsets of a refblock's host range share its reftable index -/
theorem rtIndex_of_rb (i : Info) (a x : Nat)
    (h1 : Host.rbHostStart i a ≤ x) (h2 : x < Host.rbHostStart i a + 2^(i.cb + i.rbIndexShift)) :
    Host.rtIndex i x = Host.rtIndex i a := by
  unfold Host.rbHostStart at h1 h2
  unfold Host.rtIndex
  rw [Nat.add_comm i.rbIndexShift i.cb]
  apply Nat.div_eq_of_lt_le h1
  rw [Nat.add_mul, Nat.one_mul]; exact h2

theorem rbHostEnd_eq {i : Info} (g : Geom i) (a : Nat) :
    Host.rbHostEnd i a = Host.rbHostStart i a + 2^(i.cb + i.rbIndexShift) := by
  unfold Host.rbHostEnd
  rw [← g.rbIndexShift_eq, Nat.pow_add, Nat.mul_comm]

theorem rbSliceEntries_pos {i : Info} (g : Geom i) : 0 < i.rbSliceEntries := by
  rw [← g.rbSliceIndexShift_eq]; exact Nat.two_pow_pos _

/-- one loop iteration keeps the scan inside the refblock range of `hostOff0` -/
theorem loopStep_range (allocCnt host count outOff done hostOff0 : Nat) (d : Dev)
    (g : Geom d.info) (hsl : d.info.rbSliceBits ≤ d.info.cb)
    (j1 : hostOff0 ≤ host)
    (j2 : done ≠ 0 → Host.rtIndex d.info outOff = Host.rtIndex d.info hostOff0) :
    match loopStep (Host.rbHostEnd d.info hostOff0) allocCnt host count outOff done d with
    | .ret r => ∀ o n, r.2 = .ok (some (o, n)) → Host.rtIndex d.info o = Host.rtIndex d.info hostOff0
    | .cont h _ o dn _ => hostOff0 ≤ h ∧ (dn ≠ 0 → Host.rtIndex d.info o = Host.rtIndex d.info hostOff0) := by
  unfold loopStep
  dsimp only
  by_cases hc : count > 0 ∧ host < Host.rbHostEnd d.info hostOff0
  · rw [if_neg (not_not_intro hc)]
    have hse := rbSliceEntries_pos g
    have hcs := cs_pos d.info
    obtain ⟨_, _, ⟨hp3a, hp3b⟩, _, ⟨hp5a, _⟩⟩ := Qv.Props.C15.host_partition g host
    have hp0 := (Qv.Props.C15.host_partition g hostOff0).2.2.2.2.1
    have hRhost : Host.rtIndex d.info host = Host.rtIndex d.info hostOff0 :=
      rtIndex_of_rb d.info hostOff0 host (by omega) (by rw [← rbHostEnd_eq g]; exact hc.2)
    generalize hr : tryAllocFromRbSlice host (min count d.info.rbSliceEntries) (decide (done ≠ 0)) d = r
    rcases r with ⟨d1, (_ | ⟨o, n⟩) | e | p⟩
    all_goals (try dsimp only)
    · by_cases h0 : done = 0
      · rw [if_pos h0]
        exact ⟨by omega, fun h => absurd h0 h⟩
      · rw [if_neg h0]
        intro o n h
        simp only [Outcome.ok.injEq, Option.some.injEq, Prod.mk.injEq] at h
        rw [← h.1]; exact j2 h0
    · obtain ⟨s1, _, _, _, _, _, ⟨s7a, s7b⟩, _, _⟩ :=
        Qv.Props.C08.tryAlloc_sound host _ _ d d1 o n hr
      have hn1 : 1 ≤ n := s1 (by omega)
      have hff := (Qv.Props.C08.tryAlloc_first_fit host _ _ d d1 o n g hr).1
      have hRo : Host.rtIndex d.info o = Host.rtIndex d.info hostOff0 := by
        rw [← hRhost]
        apply rtIndex_of_slice g hsl host o s7a
        have : 1 * d.info.clusterSize ≤ n * d.info.clusterSize := Nat.mul_le_mul_right _ hn1
        omega
      by_cases hf : done ≠ 0 ∧ host ≠ o
      · rw [if_pos hf]
        generalize freeClusters outOff done true d1 = r2
        rcases r2 with ⟨d2, _ | e | p⟩
        all_goals (try dsimp only)
        · generalize freeClusters o n true d2 = r3
          rcases r3 with ⟨d3, _ | e | p⟩
          all_goals (try dsimp only)
          · exact ⟨j1, fun h => absurd rfl h⟩
          · intro o n h; cases h
          · intro o n h; cases h
        · intro o n h; cases h
        · intro o n h; cases h
      · rw [if_neg hf]
        by_cases hn : n > count
        · rw [if_pos hn]; intro o n h; cases h
        · rw [if_neg hn]
          refine ⟨?_, ?_⟩
          · have h1 : 1 * d.info.clusterSize ≤ n * d.info.clusterSize := Nat.mul_le_mul_right _ hn1
            have h2 := Arith.lt_round_down_add host d.info.clusterSize hcs
            omega
          · intro _
            by_cases h0 : done = 0
            · rw [if_pos h0]; exact hRo
            · rw [if_neg h0]; exact j2 h0
    · intro o n h; cases h
    · intro o n h; cases h
  · rw [if_pos hc]
    intro o n h
    dsimp only at h
    by_cases h0 : done = 0
    · rw [if_neg (not_not_intro h0)] at h; cases h
    · rw [if_pos h0] at h
      simp only [Outcome.ok.injEq, Option.some.injEq, Prod.mk.injEq] at h
      rw [← h.1]; exact j2 h0

theorem tryAllocateLoop_range (allocCnt hostOff0 : Nat) (i : Info) (g : Geom i) (hsl : i.rbSliceBits ≤ i.cb)
    (fuel : Nat) :
    ∀ host count outOff done (d : Dev), d.info = i → hostOff0 ≤ host →
      (done ≠ 0 → Host.rtIndex i outOff = Host.rtIndex i hostOff0) →
      ∀ o n, (tryAllocateLoop (Host.rbHostEnd i hostOff0) allocCnt fuel host count outOff done d).2
          = .ok (some (o, n)) →
        Host.rtIndex i o = Host.rtIndex i hostOff0 := by
  induction fuel with
  | zero => intro host count outOff done d _ _ _ o n h; cases h
  | succ fuel ih =>
    intro host count outOff done d hi j1 j2 o n h
    subst hi
    rw [tryAllocateLoop_succ] at h
    have hst := loopStep_range allocCnt host count outOff done hostOff0 d g hsl j1 j2
    have hsm := loopStep_sameMeta (Host.rbHostEnd d.info hostOff0) allocCnt host count outOff done d
    cases hstep : loopStep (Host.rbHostEnd d.info hostOff0) allocCnt host count outOff done d with
    | ret r =>
      rw [hstep] at h hst
      exact hst o n h
    | cont h' c o' dn d' =>
      rw [hstep] at h hst hsm
      dsimp only at h hst hsm
      exact ih h' c o' dn d' hsm.1 hst.1 hst.2 o n h

/-- CHANGED (reftable growth): the bound is the length of the table after the call -/
theorem tryAllocateFrom_range (hostOff count : Nat) (d : Dev) (g : Geom d.info)
    (hsl : d.info.rbSliceBits ≤ d.info.cb) (o n : Nat)
    (h : (tryAllocateFrom hostOff count d).2 = .ok (some (o, n))) :
    Host.rtIndex d.info o < (tryAllocateFrom hostOff count d).1.rtLen := by
  have hlt := (tryAllocateFrom_sameInfo hostOff count d).2.2.2 _ h
  unfold tryAllocateFrom at h
  by_cases h0 : count = 0
  · rw [if_pos h0] at h; cases h
  · rw [if_neg h0] at h
    have hi := (ensureRefblock_facts hostOff d).1
    generalize ensureRefblock hostOff d = re at h hi
    rcases re with ⟨d1, _ | e | p⟩
    · dsimp only at h hi
      rw [hi] at h
      have := tryAllocateLoop_range count hostOff d.info g hsl _ hostOff count 0 0 d1 hi
        (Nat.le_refl _) (fun hne => absurd rfl hne) o n h
      rw [this]; exact hlt
    · cases h
    · cases h

theorem allocateLoop_range (count : Nat) (i : Info) (g : Geom i) (hsl : i.rbSliceBits ≤ i.cb) (fuel : Nat) :
    ∀ hostOff (d : Dev), d.info = i → ∀ o n,
      (allocateLoop count fuel hostOff d).2 = .ok (some (o, n)) →
        Host.rtIndex i o < (allocateLoop count fuel hostOff d).1.rtLen := by
  induction fuel with
  | zero => intro hostOff d _ o n h; cases h
  | succ fuel ih =>
    intro hostOff d hi o n h
    subst hi
    rw [allocateLoop] at h ⊢
    dsimp only at h ⊢
    have hr := tryAllocateFrom_range hostOff count d g hsl
    obtain ⟨e1, _⟩ := tryAllocateFrom_sameInfo hostOff count d
    generalize tryAllocateFrom hostOff count d = r at h hr e1 ⊢
    rcases r with ⟨d1, (_ | ⟨o', n'⟩) | e | p⟩
    · dsimp only at h hr e1 ⊢
      have := ih (Host.rbHostEnd d1.info hostOff) d1 e1 o n h
      exact this
    · dsimp only at h hr ⊢
      simp only [Outcome.ok.injEq, Option.some.injEq, Prod.mk.injEq] at h
      rw [← h.1]
      split <;> exact hr o' n' rfl
    · cases h
    · cases h

/-- the run handed out by `allocate_clusters` starts inside the area covered by the
    reftable (needs the geometry equations and `rb_slice_bits ≤ cluster_bits`).
    CHANGED (reftable growth): the reftable meant is the one after the call (`d'.rtLen`;
    it was `d.rtLen`, which is the same when the call did not grow the table). -/
theorem allocateClusters_range (count : Nat) (d d' : Dev) (g : Geom d.info)
    (hsl : d.info.rbSliceBits ≤ d.info.cb) (host n : Nat)
    (h : allocateClusters count d = (d', .ok (some (host, n)))) :
    Host.rtIndex d.info host < d'.rtLen ∧
    host < d'.rtLen * d.info.rbEntries * d.info.clusterSize := by
  have h1 : Host.rtIndex d.info host < d'.rtLen := by
    have := allocateLoop_range count d.info g hsl (d.rtLen + 2) d.hint d rfl host n (by
      unfold allocateClusters at h
      rw [h])
    unfold allocateClusters at h
    rw [h] at this
    exact this
  refine ⟨h1, ?_⟩
  unfold Host.rtIndex at h1
  rw [Nat.div_lt_iff_lt_mul (Nat.two_pow_pos _), Nat.pow_add, g.rbIndexShift_eq] at h1
  unfold Info.clusterSize
  rw [Nat.mul_assoc]
  exact h1

/-! ### the run itself, with or without growth -/

/-- a returned run is non-empty, no longer than requested, cluster aligned, and its
    clusters end with refcount 1 -/
def RunOk (i : Info) (count : Nat) (r : Dev × Outcome (Option (Nat × Nat))) : Prop :=
  ∀ o n, r.2 = .ok (some (o, n)) → 1 ≤ n ∧ n ≤ count ∧ o % i.clusterSize = 0 ∧
    ∀ c, o / i.clusterSize ≤ c → c < o / i.clusterSize + n → r.1.rc.get c = 1

theorem tryAllocateFrom_runOk (hostOff count : Nat) (d : Dev) :
    RunOk d.info count (tryAllocateFrom hostOff count d) := by
  unfold tryAllocateFrom
  by_cases h0 : count = 0
  · rw [if_pos h0]; intro o n h; cases h
  · rw [if_neg h0]
    have hi := (ensureRefblock_facts hostOff d).1
    generalize ensureRefblock hostOff d = re at hi
    rcases re with ⟨d1, _ | e | p⟩
    · dsimp only at hi ⊢
      have post := tryAllocateLoop_post (Host.rbHostEnd d1.info hostOff) count d1
        (2 * (d1.info.rbEntries / max d1.info.rbSliceEntries 1 + 2 + count) + 4) hostOff count 0 0 d1
        ⟨RcFrame.refl d1, rfl, fun _ _ => rfl, fun h => absurd rfl h⟩
      generalize tryAllocateLoop (Host.rbHostEnd d1.info hostOff) count
        (2 * (d1.info.rbEntries / max d1.info.rbSliceEntries 1 + 2 + count) + 4) hostOff count 0 0 d1 = r at post
      intro o n h
      obtain ⟨d2, o2⟩ := r
      dsimp only at h
      subst h
      obtain ⟨_, p1, p2, p3, p4, _⟩ := post
      rw [hi] at p3 p4
      exact ⟨p1, p2, p3, fun c c1 c2 => (p4 c c1 c2).2⟩
    · intro o n h; cases h
    · intro o n h; cases h

theorem allocateLoop_runOk (count : Nat) (i : Info) (fuel : Nat) :
    ∀ hostOff (d : Dev), d.info = i → RunOk i count (allocateLoop count fuel hostOff d) := by
  induction fuel with
  | zero => intro hostOff d _ o n h; cases h
  | succ fuel ih =>
    intro hostOff d hi
    subst hi
    rw [allocateLoop]
    dsimp only
    have hr := tryAllocateFrom_runOk hostOff count d
    obtain ⟨e1, _⟩ := tryAllocateFrom_sameInfo hostOff count d
    generalize tryAllocateFrom hostOff count d = r at hr e1
    rcases r with ⟨d1, (_ | ⟨o', n'⟩) | e | p⟩
    · exact ih _ d1 e1
    · dsimp only
      intro o n h
      have := hr o' n' rfl
      dsimp only at h this ⊢
      simp only [Outcome.ok.injEq, Option.some.injEq, Prod.mk.injEq] at h
      obtain ⟨rfl, rfl⟩ := h
      split
      · exact this
      · exact this
    · intro o n h; cases h
    · intro o n h; cases h

/-- NEW: what a successful `allocate_clusters` guarantees about the run whether or not
    the reftable grew (what is lost with growth: "the run was free before" and "no
    other refcount changes", which need the accounting invariant, see C12) -/
theorem allocateClusters_runOk (count : Nat) (d : Dev) :
    RunOk d.info count (allocateClusters count d) :=
  allocateLoop_runOk count d.info _ _ d rfl

/-! ### a successful single-cluster allocation (non-vacuity of the above) -/

/-- a single cluster is found right at `off` when that cluster is free -/
theorem tryAlloc_one_free (off : Nat) (fixed : Bool) (d : Dev) (g : Geom d.info)
    (hfree : d.rc.get (off / d.info.clusterSize) = 0) :
    ∃ d', tryAllocFromRbSlice off 1 fixed d =
      (d', .ok (some (off / d.info.clusterSize * d.info.clusterSize, 1))) := by
  obtain ⟨_, hp2, hp3, hp4, _⟩ := Qv.Props.C15.host_partition g off
  obtain ⟨_, hb⟩ := Qv.Props.C15.host_bounds g off
  have hdiv0 := clusterOffFromSlice_div d.info off (Host.rbSliceIndex d.info off)
  rw [hp4] at hdiv0
  have hoc : off / 2^d.info.cb * 2^d.info.cb / d.info.clusterSize = off / d.info.clusterSize :=
    Nat.mul_div_cancel _ (Nat.two_pow_pos _)
  rw [hoc] at hdiv0
  -- `hdiv0 : off / cs = sliceStart / cs + idx`
  have hfree' : d.rc.get (sliceC0 d.info off + Host.rbSliceIndex d.info off) = 0 := by
    unfold sliceC0; rw [← hdiv0]; exact hfree
  rcases tryAlloc_cases off 1 fixed d with ⟨_, hc⟩ | ⟨s, e, d1, h1, h2, h3, h4, h5, h6, h7, h8, h9, h10⟩
  · exfalso
    obtain ⟨j, j1, j2, j3⟩ := hc (by omega) (Host.rbSliceIndex d.info off) (Nat.le_refl _) (by omega)
    have : j = Host.rbSliceIndex d.info off := by omega
    subst this; exact j3 hfree'
  · have hs : s = Host.rbSliceIndex d.info off := by
      apply Classical.byContradiction; intro hne
      obtain ⟨j, j1, j2, j3⟩ := h8 (Host.rbSliceIndex d.info off) (Nat.le_refl _) (by omega)
      have : j = Host.rbSliceIndex d.info off := by omega
      subst this; exact j3 hfree'
    have he : e = s + 1 := by
      have := h5 (Nat.le_refl _)
      rcases h6 with h6 | ⟨_, _, h6, _⟩ <;> omega
    subst hs he
    refine ⟨{ d1 with needFlush := true }, ?_⟩
    rw [h10, hp4, Nat.add_sub_cancel_left]
    rfl

theorem ensureRefblock_present (off : Nat) (d : Dev)
    (hrt : Host.rtIndex d.info off < d.rtLen)
    (hnz : RT.isZero (d.rt.get (Host.rtIndex d.info off)) = false) :
    ensureRefblock off d = (d, .ok ()) := by
  rw [ensureRefblock_inb hrt, ensureRefblockIn_eq, if_neg (not_not_intro hrt), if_neg (by rw [hnz]; simp)]

theorem tryAllocateFrom_one_free (off : Nat) (d : Dev) (g : Geom d.info)
    (hrt : Host.rtIndex d.info off < d.rtLen)
    (hnz : RT.isZero (d.rt.get (Host.rtIndex d.info off)) = false)
    (hfree : d.rc.get (off / d.info.clusterSize) = 0) :
    ∃ d', tryAllocateFrom off 1 d =
      (d', .ok (some (off / d.info.clusterSize * d.info.clusterSize, 1))) ∧ d'.info = d.info ∧
      d'.rtLen = d.rtLen := by
  obtain ⟨_, _, _, _, _, hend⟩ := Qv.Props.C15.host_partition g off
  obtain ⟨_, hb⟩ := Qv.Props.C15.host_bounds g off
  obtain ⟨d', hd'⟩ := tryAlloc_one_free off (decide ((0:Nat) ≠ 0)) d g hfree
  have hi' : d'.info = d.info := (tryAlloc_rcFrame hd').info
  refine ⟨d', ?_, hi', (tryAlloc_rcFrame hd').rtLen⟩
  unfold tryAllocateFrom
  rw [if_neg (by decide), ensureRefblock_present off d hrt hnz]
  dsimp only
  rw [tryAllocateLoop_succ]
  have hmin : min 1 d.info.rbSliceEntries = 1 := by omega
  have step1 : loopStep (Host.rbHostEnd d.info off) 1 off 1 0 0 d =
      .cont (off / d.info.clusterSize * d.info.clusterSize + 1 * d.info.clusterSize) (1 - 1)
        (off / d.info.clusterSize * d.info.clusterSize) (0 + 1) d' := by
    unfold loopStep
    dsimp only
    rw [if_neg (not_not_intro ⟨by decide, hend⟩), hmin, hd']
    simp
  rw [step1]
  dsimp only
  rw [tryAllocateLoop_succ]
  have step2 : loopStep (Host.rbHostEnd d.info off) 1
      (off / d.info.clusterSize * d.info.clusterSize + 1 * d.info.clusterSize) (1 - 1)
        (off / d.info.clusterSize * d.info.clusterSize) (0 + 1) d' =
      .ret (d', .ok (some (off / d.info.clusterSize * d.info.clusterSize, 1))) := by
    unfold loopStep
    dsimp only
    rw [if_pos (by simp)]
    simp
  rw [step2]

/-- `allocate_clusters(1)` succeeds at the hint when the hinted cluster is free
    and its refblock exists (and then the reftable does not grow: `d'.rtLen = d.rtLen`,
    added to the conclusion for the no-growth hypothesis of `allocateClusters_sound`) -/
theorem allocateClusters_one_free_hint (d : Dev) (g : Geom d.info)
    (hrt : Host.rtIndex d.info d.hint < d.rtLen)
    (hnz : RT.isZero (d.rt.get (Host.rtIndex d.info d.hint)) = false)
    (hfree : d.rc.get (d.hint / d.info.clusterSize) = 0) :
    ∃ d', allocateClusters 1 d =
      (d', .ok (some (d.hint / d.info.clusterSize * d.info.clusterSize, 1))) ∧
      d'.rtLen = d.rtLen := by
  obtain ⟨d', hd', _, hl'⟩ := tryAllocateFrom_one_free d.hint d g hrt hnz hfree
  unfold allocateClusters
  rw [allocateLoop, ]
  dsimp only
  rw [hd']
  dsimp only
  rw [if_pos rfl]
  exact ⟨_, rfl, hl'⟩

/-! ## 2. write and read path -/

theorem range_map_getD (l : List Nat) : (List.range l.length).map (fun k => l.getD k 0) = l := by
  apply List.ext_getElem
  · simp
  · intro i h1 h2
    simp at h1
    simp [h1]

theorem plainOffset_some {m : Mapping} {h : Nat} (hp : L2.plainOffset m 0 = some h) :
    m.source = .dataFile ∧ m.copied = true ∧ m.clusterOffset = some h := by
  unfold L2.plainOffset at hp
  split at hp
  · rename_i hc
    refine ⟨hc.1, hc.2, ?_⟩
    cases hco : m.clusterOffset with
    | none => rw [hco] at hp; simp at hp
    | some a => rw [hco] at hp; simp at hp; rw [hp]
  · simp at hp

theorem needMakeMapping_plain {i : Info} {m : Mapping} {h : Nat} (hp : L2.plainOffset m 0 = some h) :
    needMakeMapping i m = false := by
  unfold needMakeMapping
  rw [hp]; rfl

theorem populateSingle_noalloc (off : Nat) (d : Dev)
    (h : needMakeMapping d.info (d.mapping off) = false) :
    populateSingle off d = (d, .ok (d.l2Entry off)) := by
  simp only [populateSingle, bind, M.bind, M.get, h, pure]
  rfl

theorem doWrite_inplace (d : Dev) (off : Nat) (toks : List Nat) (h : Nat)
    (hp : L2.plainOffset (d.mapping off) 0 = some h)
    (hnew : d.newData.contains (h / d.info.clusterSize) = false) :
    doWrite (d.l2Entry off) off toks d =
      ({ d with data := d.data.setRange ((h + off % d.info.clusterSize) / 512) toks.length
                  (fun k => toks.getD k 0) }, .ok ()) := by
  obtain ⟨hs, _, hco⟩ := plainOffset_some hp
  have hm : L2.intoMapping d.info.cb d.info.hasBack
      (Split.clusterOffset d.info (d.info.clusterRoundDown off)) (d.l2Entry off) = d.mapping off := rfl
  unfold doWrite
  dsimp only
  rw [hm, hs]
  dsimp only
  unfold doWriteDataFile
  rw [hco]
  dsimp only
  rw [hnew]
  rfl

/-- state after an in-place write of `toks` at guest offset `off` whose cluster is
    mapped to the data-file cluster at host offset `h`: only the data plane changes -/
def afterWrite (d : Dev) (off h : Nat) (toks : List Nat) : Dev :=
  { d with data := d.data.setRange ((h + off % d.info.clusterSize) / 512) toks.length
                    (fun k => toks.getD k 0) }

theorem writeAt_inplace (d : Dev) (off len : Nat) (toks : List Nat) (h : Nat)
    (hc : writeCheck d.info off len = none) (hl : len ≠ 0)
    (hsingle : off / d.info.clusterSize = (off + len - 1) / d.info.clusterSize)
    (hp : L2.plainOffset (d.mapping off) 0 = some h)
    (hnew : d.newData.contains (h / d.info.clusterSize) = false) :
    writeAt off len toks d =
      ({ d with data := d.data.setRange ((h + off % d.info.clusterSize) / 512) toks.length
                  (fun k => toks.getD k 0) }, .ok ()) := by
  unfold writeAt
  dsimp only
  rw [hc]
  dsimp only
  rw [if_neg hl, if_pos hsingle, populateSingle_noalloc off d (needMakeMapping_plain hp)]
  exact doWrite_inplace d off toks h hp hnew


theorem sub_mod_eq (off cs : Nat) : off - off % cs = off / cs * cs := by
  have := Nat.div_add_mod off cs
  rw [Nat.mul_comm] at this
  omega

/-- the mapping `do_read` decodes for the entry of `off` is `get_mapping(off)` -/
theorem doRead_mapping (d : Dev) (off : Nat) :
    L2.intoMapping d.info.cb d.info.hasBack
      (Split.clusterOffset d.info (off - d.info.inClusterOffset off)) (d.l2Entry off) = d.mapping off := by
  unfold Info.inClusterOffset
  rw [sub_mod_eq]
  rfl

theorem doRead_dataFile (d : Dev) (off n h : Nat)
    (hs : (d.mapping off).source = .dataFile) (hco : (d.mapping off).clusterOffset = some h) :
    doRead d (d.l2Entry off) off n =
      .ok ((List.range n).map (fun k => d.data.get ((h + off % d.info.clusterSize) / 512 + k))) := by
  unfold doRead
  dsimp only
  rw [doRead_mapping, hs]
  dsimp only
  rw [hco]
  rfl

/-- `do_read` depends on the data plane only through the sectors it reads -/
theorem doRead_congr_data (d : Dev) (D : FMap Nat) (off n : Nat)
    (hd : ∀ hb, (d.mapping off).source = .dataFile → (d.mapping off).clusterOffset = some hb →
      ∀ k, k < n → D.get ((hb + off % d.info.clusterSize) / 512 + k)
        = d.data.get ((hb + off % d.info.clusterSize) / 512 + k)) :
    doRead { d with data := D } (d.l2Entry off) off n = doRead d (d.l2Entry off) off n := by
  cases hs : (d.mapping off).source with
  | dataFile =>
    cases hco : (d.mapping off).clusterOffset with
    | none =>
      unfold doRead
      dsimp only
      rw [doRead_mapping, hs]
      dsimp only
      rw [hco]
    | some hb =>
      have e1 := doRead_dataFile d off n hb hs hco
      have e2 := doRead_dataFile { d with data := D } off n hb hs hco
      rw [e1]
      refine e2.trans ?_
      congr 1
      apply List.map_congr_left
      intro k hk
      exact hd hb hs hco k (List.mem_range.mp hk)
  | _ =>
    unfold doRead
    dsimp only
    rw [doRead_mapping, hs]
    try rfl

theorem pieces_spec {cs : Nat} (hcs : 0 < cs) (fuel : Nat) :
    ∀ off len p, p ∈ pieces cs fuel off len →
      off ≤ p.1 ∧ p.1 % cs + p.2 * 512 ≤ cs ∧ p.1 + p.2 * 512 ≤ off + len := by
  induction fuel with
  | zero => intro off len p hp; simp [pieces] at hp
  | succ fuel ih =>
    intro off len p hp
    rw [pieces] at hp
    split at hp
    · simp at hp
    · have hm := Nat.mod_lt off hcs
      have hdm := Nat.div_mul_le_self (min (cs - off % cs) len) 512
      rcases List.mem_cons.mp hp with rfl | hp
      · dsimp only
        exact ⟨Nat.le_refl _, by omega, by omega⟩
      · obtain ⟨a, b, c⟩ := ih _ _ p hp
        exact ⟨by omega, b, by omega⟩

theorem doReads_congr (d d' : Dev) (ps : List (Nat × Nat))
    (hl : ∀ off, d'.l2Entry off = d.l2Entry off)
    (h : ∀ p, p ∈ ps → doRead d' (d.l2Entry p.1) p.1 p.2 = doRead d (d.l2Entry p.1) p.1 p.2) :
    doReads d' ps = doReads d ps := by
  induction ps with
  | nil => rfl
  | cons p ps ih =>
    obtain ⟨o, n⟩ := p
    unfold doReads
    rw [hl, h (o, n) List.mem_cons_self, ih (fun p hp => h p (List.mem_cons_of_mem _ hp))]

theorem single_cluster_fits {cs off len : Nat} (hcs : 0 < cs)
    (h : off / cs = (off + len - 1) / cs) : off % cs + len ≤ cs := by
  have h1 : (off + len - 1) / cs < off / cs + 1 := by omega
  rw [Nat.div_lt_iff_lt_mul hcs, Nat.add_mul, Nat.one_mul] at h1
  have h2 := Nat.div_add_mod off cs
  rw [Nat.mul_comm] at h2
  omega

theorem pieces_single {cs fuel off len : Nat} (hf : fuel ≠ 0) (hl : len ≠ 0) (h : off % cs + len ≤ cs) :
    pieces cs fuel off len = [(off, len / 512)] := by
  cases fuel with
  | zero => exact absurd rfl hf
  | succ fuel =>
    rw [pieces, if_neg hl]
    have : min (cs - off % cs) len = len := by omega
    simp only [this, Nat.sub_self]
    cases fuel with
    | zero => rfl
    | succ f => rw [pieces, if_pos rfl]

/-- an accepted, unclamped read that stays inside one cluster is one `do_read` -/
theorem readAt_single (d : Dev) (off len : Nat) (hv : off + len ≤ d.info.vsize) (hl : len ≠ 0)
    (hlb : len % d.info.bs = 0) (hob : off % d.info.bs = 0)
    (hfit : off % d.info.clusterSize + len ≤ d.info.clusterSize) :
    readAt d off len =
      match doRead d (d.l2Entry off) off (len / 512) with
      | .ok a => .ok (len, a)
      | .err e => .err e
      | .panic p => .panic p := by
  unfold readAt readPlan
  dsimp only
  rw [if_neg (show ¬ off ≥ d.info.vsize by omega), if_neg hl,
    if_neg (show ¬ len % d.info.bs ≠ 0 by omega), if_neg (show ¬ off % d.info.bs ≠ 0 by omega),
    if_neg (show ¬ len > d.info.vsize - off by omega)]
  dsimp only
  have hp := pieces_single (fuel := (len + d.info.clusterSize - 1) / d.info.clusterSize + 2)
    (Nat.succ_ne_zero _) hl hfit
  rw [if_neg hl, hp]
  unfold doReads doReads
  cases doRead d (d.l2Entry off) off (len / 512) with
  | ok a => simp
  | err e => rfl
  | panic p => rfl

theorem readAt_congr (d d' : Dev) (off len : Nat) (hi : d'.info = d.info)
    (h : ∀ fuel clen, clen ≤ len → off + clen ≤ d.info.vsize →
      doReads d' (pieces d.info.clusterSize fuel off clen)
        = doReads d (pieces d.info.clusterSize fuel off clen)) :
    readAt d' off len = readAt d off len := by
  unfold readAt
  dsimp only
  rw [hi]
  cases hp : readPlan d.info off len with
  | reject e => rfl
  | empty => rfl
  | run c =>
    obtain ⟨hc, hlt⟩ := Qv.Props.C13.read_clamp_plan _ _ _ _ hp
    have hdm := Nat.div_mul_le_self (d.info.vsize - off) d.info.bs
    have hb : c ≤ len ∧ off + c ≤ d.info.vsize := by
      rw [hc]; split <;> omega
    dsimp only
    rw [h _ c hb.1 hb.2]

theorem writeCheck_none {i : Info} {off len : Nat} (h : writeCheck i off len = none) :
    off + len ≤ i.vsize ∧ len % i.bs = 0 ∧ off % i.bs = 0 ∧ i.readOnly = false := by
  unfold writeCheck at h
  split at h
  · simp at h
  · split at h
    · simp at h
    · split at h
      · simp at h
      · split at h
        · simp at h
        · rename_i h1 h2 h3 h4
          exact ⟨by omega, by omega, by omega, by simpa using h4⟩

/-- guest clusters inside the virtual disk that map to data-file clusters occupy
    pairwise non-overlapping host clusters -/
def MapInj (d : Dev) : Prop :=
  ∀ a b ha hb, a < d.info.vsize → b < d.info.vsize →
    a / d.info.clusterSize ≠ b / d.info.clusterSize →
    (d.mapping a).source = .dataFile → (d.mapping a).clusterOffset = some ha →
    (d.mapping b).source = .dataFile → (d.mapping b).clusterOffset = some hb →
    ha + d.info.clusterSize ≤ hb ∨ hb + d.info.clusterSize ≤ ha

theorem l2Entry_congr (d : Dev) {a b : Nat} (h : a / d.info.clusterSize = b / d.info.clusterSize) :
    d.l2Entry a = d.l2Entry b := by
  unfold Info.clusterSize at h
  have h1 : Split.l1Index d.info a = Split.l1Index d.info b := by
    unfold Split.l1Index; rw [Arith.div_two_pow_add, Arith.div_two_pow_add, h]
  have h2 : Split.l2Index d.info a = Split.l2Index d.info b := by
    unfold Split.l2Index; rw [h]
  unfold Dev.l2Entry Dev.l1Entry
  rw [h1, h2]

theorem mapping_congr (d : Dev) {a b : Nat} (h : a / d.info.clusterSize = b / d.info.clusterSize) :
    d.mapping a = d.mapping b := by
  unfold Dev.mapping Info.clusterRoundDown
  rw [l2Entry_congr d h, h]

theorem sector_lt {A B len k : Nat} (h : A + len ≤ B) (hk : k < len / 512) : A / 512 + k < B / 512 := by
  omega

/-- a single-cluster piece disjoint from a single-cluster in-place write does not see it -/
theorem piece_disjoint (d : Dev) (hinj : MapInj d) (off len h N : Nat) (g : Nat → Nat)
    (hv : off < d.info.vsize)
    (hfit : off % d.info.clusterSize + len ≤ d.info.clusterSize)
    (hN : N ≤ len / 512)
    (hs : (d.mapping off).source = .dataFile) (hco : (d.mapping off).clusterOffset = some h)
    (o n : Nat) (hov : o + n * 512 ≤ d.info.vsize)
    (hofit : o % d.info.clusterSize + n * 512 ≤ d.info.clusterSize)
    (hdisj : o + n * 512 ≤ off ∨ off + len ≤ o)
    (hb : Nat) (hs' : (d.mapping o).source = .dataFile) (hco' : (d.mapping o).clusterOffset = some hb)
    (k : Nat) (hk : k < n) :
    (d.data.setRange ((h + off % d.info.clusterSize) / 512) N g).get
        ((hb + o % d.info.clusterSize) / 512 + k)
      = d.data.get ((hb + o % d.info.clusterSize) / 512 + k) := by
  rw [FMap.setRange_get, if_neg]
  have hcs := cs_pos d.info
  generalize hcsv : d.info.clusterSize = cs at *
  have e1 := Nat.div_add_mod off cs
  have e2 := Nat.div_add_mod o cs
  have hn512 : (n * 512) / 512 = n := Nat.mul_div_cancel _ (by decide)
  -- the byte ranges in the host file are disjoint
  have key : (hb + o % cs) + n * 512 ≤ h + off % cs ∨ (h + off % cs) + len ≤ hb + o % cs := by
    by_cases hq : o / cs = off / cs
    · have hm : d.mapping o = d.mapping off := mapping_congr d (by rw [hcsv]; exact hq)
      rw [hm, hco] at hco'
      have : hb = h := by injection hco' with e; exact e.symm
      subst this
      rw [hq] at e2
      rcases hdisj with hd | hd
      · left; omega
      · right; omega
    · have := hinj o off hb h (by omega) hv (by rw [hcsv]; exact hq) hs' hco' hs hco
      rw [hcsv] at this
      rcases this with hd | hd
      · left; omega
      · right; omega
  rcases key with hd | hd
  · have := sector_lt hd (k := k) (by rw [hn512]; exact hk)
    omega
  · intro hc
    have := sector_lt hd (k := (hb + o % cs) / 512 + k - (h + off % cs) / 512) (by omega)
    omega

/-! ## 3. first write into an unallocated cluster -/

theorem intoMapping_zero_entry (cb g : Nat) :
    L2.intoMapping cb false g 0#64 =
      { source := .unallocated, clusterOffset := some 0, compressedLength := none, copied := false } := by
  have h1 : L2.compressedRange cb 0#64 = none := by
    unfold L2.compressedRange; rw [if_neg (by decide)]
  unfold L2.intoMapping
  rw [h1]
  simp only []
  rw [if_neg (by decide), if_pos (by decide), if_neg (by decide)]

theorem releaseZeroPrealloc_nonzero (old : E64) (d : Dev) (h : L2.isZero old = false) :
    releaseZeroPrealloc old d = (d, .ok ()) := by
  unfold releaseZeroPrealloc
  rw [if_neg (by rw [h]; simp)]

/-- (`hz` is needed only by the variant of the model in which `allocAndMap` releases the
    preallocated cluster of a replaced zero-flagged entry) -/
theorem allocAndMap_ok (off : Nat) (d d1 : Dev) (h n : Nat)
    (ha : allocateClusters 1 d = (d1, .ok (some (h, n))))
    (hz : L2.isZero (d1.l2Entry off) = false)
    (cs : Nat) (hcs : d1.info.clusterSize = cs) (nd : List Nat) (hnd : d1.newData = nd) :
    allocAndMap off d =
      (({ d1 with newData := (h / cs) :: nd }).setL2 off (L2.mapClusterEntry h), .ok ()) := by
  subst hcs hnd
  -- robust against both variants of the model: with and without the
  -- `releaseZeroPrealloc old` step at the end of `allocAndMap`
  set_option linter.unusedSimpArgs false in
  simp only [allocAndMap, bind, M.bind, ha, markNewData, M.modify, M.get]
  all_goals first
    | rfl
    | (have hl2 : ({ d1 with newData := (h / d1.info.clusterSize) :: d1.newData }).l2Entry off
          = d1.l2Entry off := rfl
       rw [hl2]
       exact releaseZeroPrealloc_nonzero _ _ hz)

theorem ensureL2_noop (off : Nat) (d : Dev) (h : L1.isZero (d.l1Entry off) = false) :
    ensureL2 off d = (d, .ok ()) := by
  unfold ensureL2
  dsimp only
  rw [if_pos (by rw [h]; simp)]

theorem l2Entry_setL2_same (d : Dev) (off : Nat) (e : E64) (h : L1.isZero (d.l1Entry off) = false) :
    (d.setL2 off e).l2Entry off = e := by
  have hl1 : (d.setL2 off e).l1Entry off = d.l1Entry off := rfl
  unfold Dev.l2Entry
  rw [hl1]
  dsimp only
  rw [h]
  simp only [Bool.false_eq_true, if_false]
  show ((d.l2.set _ ((d.l2.get _).set (Split.l2Index d.info off) e)).get _).get
    (Split.l2Index d.info off) = e
  rw [FMap.get_set_same, FMap.get_set_same]

/-- facts about an entry that decodes to `Unallocated` -/
theorem unallocated_entry {cb : Nat} {hb : Bool} {g : Nat} {e : E64}
    (h : (L2.intoMapping cb hb g e).source = .unallocated) :
    L2.isZero e = false ∧ L2.plainOffset (L2.intoMapping cb hb g e) 0 = none := by
  refine ⟨?_, ?_⟩
  · unfold L2.intoMapping at h
    split at h
    · cases h
    · split at h
      · cases h
      · rename_i hz; simpa using hz
  · unfold L2.plainOffset
    rw [h]; simp

theorem needMakeMapping_unallocated {i : Info} {m : Mapping} (hb : i.hasBack = false)
    (h : m.source = .unallocated) : needMakeMapping i m = true := by
  unfold needMakeMapping L2.plainOffset
  rw [h, hb]
  simp

/-- state after `make_single_write_mapping` mapped guest cluster of `off` to the fresh
    host cluster `h` (`d1` = state after the allocation) -/
def newMapped (d1 : Dev) (nd : List Nat) (off h : Nat) : Dev :=
  { ({ d1 with newData := nd }).setL2 off (L2.mapClusterEntry h) with needFlush := true }

theorem newMapped_l2Entry (d1 : Dev) (nd : List Nat) (off h : Nat)
    (hl1 : L1.isZero (d1.l1Entry off) = false) :
    (newMapped d1 nd off h).l2Entry off = L2.mapClusterEntry h :=
  l2Entry_setL2_same { d1 with newData := nd } off _ hl1

/-- `make_single_write_mapping` on an unallocated cluster whose L2 table exists -/
theorem populateSingle_alloc (off : Nat) (d d1 : Dev) (h n : Nat)
    (hback : d.info.hasBack = false)
    (hun : (d.mapping off).source = .unallocated)
    (hl1 : L1.isZero (d.l1Entry off) = false)
    (ha : allocateClusters 1 d = (d1, .ok (some (h, n))))
    (hfr : GrowFrame d d1) :
    populateSingle off d =
      (newMapped d1 ((h / d.info.clusterSize) :: d.newData) off h, .ok (L2.mapClusterEntry h)) := by
  obtain ⟨hz, hpl⟩ := unallocated_entry hun
  have hpl' : (L2.plainOffset (d.mapping off) 0).isNone = true := by
    show (L2.plainOffset (L2.intoMapping _ _ _ _) 0).isNone = true
    rw [hpl]; rfl
  have hent1 : d1.l2Entry off = d.l2Entry off := by
    obtain ⟨_, _, _, _, _, _, _, rfl⟩ := hfr; rfl
  have hi1 : d1.info = d.info := hfr.info
  have hnd1 : d1.newData = d.newData := by
    obtain ⟨_, _, _, _, _, _, _, rfl⟩ := hfr; rfl
  have hl11 : d1.l1Entry off = d.l1Entry off := by
    obtain ⟨_, _, _, _, _, _, _, rfl⟩ := hfr; rfl
  have ham := allocAndMap_ok off d d1 h n ha (by rw [hent1]; exact hz) d.info.clusterSize
    (by rw [hi1]) d.newData hnd1
  unfold populateSingle
  simp only [bind, M.bind, M.get]
  rw [needMakeMapping_unallocated hback hun]
  simp only [if_true]
  unfold makeSingleWriteMapping
  simp only [bind, M.bind, M.get, ensureL2_noop off d hl1, hpl', if_true, ham, M.modify, pure, M.pure]
  show (newMapped d1 ((h / d.info.clusterSize) :: d.newData) off h,
    Outcome.ok ((newMapped d1 ((h / d.info.clusterSize) :: d.newData) off h).l2Entry off)) = _
  rw [newMapped_l2Entry _ _ _ _ (by rw [hl11]; exact hl1)]

/-- state after the first data write into a still-new cluster `h`: zero-once of the
    whole cluster, then the payload; the cluster leaves the new-cluster list -/
def zeroedWrite (D : Dev) (off h : Nat) (toks : List Nat) : Dev :=
  { D with
    newData := D.newData.filter (· ≠ h / D.info.clusterSize),
    data := (D.data.setRange (h / 512) D.spc (fun _ => 0)).setRange
              ((h + off % D.info.clusterSize) / 512) toks.length (fun k => toks.getD k 0) }

theorem doWrite_new (D : Dev) (off h : Nat) (toks : List Nat)
    (hdec : L2.intoMapping D.info.cb D.info.hasBack
        (Split.clusterOffset D.info (D.info.clusterRoundDown off)) (L2.mapClusterEntry h)
      = { source := .dataFile, clusterOffset := some h, compressedLength := none, copied := true })
    (hnew : D.newData.contains (h / D.info.clusterSize) = true) :
    doWrite (L2.mapClusterEntry h) off toks D = (zeroedWrite D off h toks, .ok ()) := by
  unfold doWrite
  dsimp only
  rw [hdec]
  dsimp only
  unfold doWriteDataFile
  dsimp only
  rw [if_pos hnew]
  rfl

theorem mod512_of_mod_cs {i : Info} (hcb : 9 ≤ i.cb) {h : Nat} (h0 : h % i.clusterSize = 0) : h % 512 = 0 := by
  have hd : 512 ∣ i.clusterSize := by
    unfold Info.clusterSize
    have : i.cb = 9 + (i.cb - 9) := by omega
    rw [this, Nat.pow_add]
    exact Nat.dvd_mul_right _ _
  have := Nat.mod_mod_of_dvd h hd
  rw [h0] at this
  simpa using this.symm

theorem pow_mod_pow_of_le {a b : Nat} (h : a ≤ b) : 2^b % 2^a = 0 := by
  have : b = a + (b - a) := by omega
  rw [this, Nat.pow_add]
  exact Nat.mul_mod_right _ _

/-- first write into an unallocated cluster, given the allocation `ha` and that the
    cluster handed out is not cluster 0.  Holds with or without reftable growth. -/
theorem write_new_cluster_grow (d d1 : Dev) (off len h n : Nat) (toks : List Nat)
    (hc : writeCheck d.info off len = none) (hl : len ≠ 0)
    (hsingle : off / d.info.clusterSize = (off + len - 1) / d.info.clusterSize)
    (hback : d.info.hasBack = false)
    (hun : (d.mapping off).source = .unallocated)
    (hl1 : L1.isZero (d.l1Entry off) = false)
    (hcb : 9 ≤ d.info.cb)
    (hpos : 0 < h)
    (ha : allocateClusters 1 d = (d1, .ok (some (h, n))))
    (h56 : h < 2^56) :
    writeAt off len toks d =
      (zeroedWrite (newMapped d1 ((h / d.info.clusterSize) :: d.newData) off h) off h toks, .ok ()) ∧
    h % 512 = 0 ∧ d1.info = d.info ∧ d1.data = d.data ∧
    (∀ gc, L2.intoMapping d.info.cb d.info.hasBack gc (L2.mapClusterEntry h)
      = { source := .dataFile, clusterOffset := some h, compressedLength := none, copied := true }) := by
  have fr : GrowFrame d d1 := by
    have := (allocateClusters_growFrame 1 d).frame
    rw [ha] at this; exact this
  have hal : h % d.info.clusterSize = 0 := by
    have := allocateClusters_runOk 1 d
    rw [ha] at this
    exact (this h n rfl).2.2.1
  have hi1 : d1.info = d.info := fr.info
  have hdata : d1.data = d.data := by obtain ⟨_, _, _, _, _, _, _, rfl⟩ := fr; rfl
  have h512 := mod512_of_mod_cs hcb hal
  have hdec : ∀ gc, L2.intoMapping d.info.cb d.info.hasBack gc (L2.mapClusterEntry h)
      = { source := .dataFile, clusterOffset := some h, compressedLength := none, copied := true } :=
    fun gc => L2.mapClusterEntry_intoMapping _ _ gc h h512 hpos h56
  refine ⟨?_, h512, hi1, hdata, hdec⟩
  unfold writeAt
  dsimp only
  rw [hc]
  dsimp only
  rw [if_neg hl, if_pos hsingle, populateSingle_alloc off d d1 h n hback hun hl1 ha fr]
  dsimp only
  have hiD : (newMapped d1 ((h / d.info.clusterSize) :: d.newData) off h).info = d.info := hi1
  apply doWrite_new
  · rw [hiD]; exact hdec _
  · rw [hiD]
    show ((h / d.info.clusterSize) :: d.newData).contains (h / d.info.clusterSize) = true
    simp

/-- CHANGED (reftable growth): hypothesis `hng` added — the allocation did not grow the
    reftable; then "cluster 0 is in use" (`hhdr`) excludes `h = 0`, because the run was
    free before.  With growth use `write_new_cluster_grow` (hypothesis `0 < h` instead). -/
theorem write_new_cluster (d d1 : Dev) (off len h n : Nat) (toks : List Nat)
    (hc : writeCheck d.info off len = none) (hl : len ≠ 0)
    (hsingle : off / d.info.clusterSize = (off + len - 1) / d.info.clusterSize)
    (hback : d.info.hasBack = false)
    (hun : (d.mapping off).source = .unallocated)
    (hl1 : L1.isZero (d.l1Entry off) = false)
    (hcb : 9 ≤ d.info.cb)
    (hhdr : d.rc.get 0 ≠ 0)
    (ha : allocateClusters 1 d = (d1, .ok (some (h, n))))
    (hng : d1.rtLen = d.rtLen)
    (h56 : h < 2^56) :
    writeAt off len toks d =
      (zeroedWrite (newMapped d1 ((h / d.info.clusterSize) :: d.newData) off h) off h toks, .ok ()) ∧
    h % 512 = 0 ∧ 0 < h ∧ d1.info = d.info ∧ d1.data = d.data ∧
    (∀ gc, L2.intoMapping d.info.cb d.info.hasBack gc (L2.mapClusterEntry h)
      = { source := .dataFile, clusterOffset := some h, compressedLength := none, copied := true }) := by
  have post := allocateClusters_post 1 d (by rw [ha]; exact hng)
  rw [ha] at post
  obtain ⟨_, n1, _, hal, hrun, _⟩ := post
  dsimp only at hrun
  have hpos : 0 < h := by
    apply Nat.pos_of_ne_zero
    intro h0
    subst h0
    have := (hrun 0 (by simp) (by simp; omega)).1
    exact hhdr this
  obtain ⟨a, b, c, e, f⟩ :=
    write_new_cluster_grow d d1 off len h n toks hc hl hsingle hback hun hl1 hcb hpos ha h56
  exact ⟨a, b, hpos, c, e, f⟩

/-- reading back the whole cluster after the first write into a new cluster:
    the written tokens at their place, zeros elsewhere -/
theorem read_zeroedWrite (D : Dev) (off h : Nat) (toks : List Nat)
    (hDe : D.l2Entry off = L2.mapClusterEntry h)
    (hdec : ∀ gc, L2.intoMapping D.info.cb D.info.hasBack gc (L2.mapClusterEntry h)
      = { source := .dataFile, clusterOffset := some h, compressedLength := none, copied := true })
    (h512 : h % 512 = 0)
    (hv : off / D.info.clusterSize * D.info.clusterSize + D.info.clusterSize ≤ D.info.vsize)
    (hbs : D.info.bsb ≤ D.info.cb) :
    readAt (zeroedWrite D off h toks) (off / D.info.clusterSize * D.info.clusterSize) D.info.clusterSize =
      .ok (D.info.clusterSize, (List.range (D.info.clusterSize / 512)).map (fun k =>
        if off % D.info.clusterSize / 512 ≤ k ∧ k < off % D.info.clusterSize / 512 + toks.length
        then toks.getD (k - off % D.info.clusterSize / 512) 0 else 0)) := by
  have hcs := cs_pos D.info
  generalize hbase : off / D.info.clusterSize * D.info.clusterSize = base at hv ⊢
  have hbq : base / D.info.clusterSize = off / D.info.clusterSize := by
    rw [← hbase]; exact Nat.mul_div_cancel _ hcs
  have hbm : base % D.info.clusterSize = 0 := by
    rw [← hbase]; exact Nat.mul_mod_left _ _
  have hcsbs : D.info.clusterSize % D.info.bs = 0 := pow_mod_pow_of_le hbs
  have hbbs : base % D.info.bs = 0 := by
    rw [← hbase]
    exact Nat.mod_eq_zero_of_dvd (Nat.dvd_trans (Nat.dvd_of_mod_eq_zero hcsbs) (Nat.dvd_mul_left _ _))
  have hmap : (zeroedWrite D off h toks).mapping base
      = { source := .dataFile, clusterOffset := some h, compressedLength := none, copied := true } := by
    show L2.intoMapping D.info.cb D.info.hasBack _ (D.l2Entry base) = _
    rw [l2Entry_congr D hbq, hDe]
    exact hdec _
  have hra := readAt_single (zeroedWrite D off h toks) base D.info.clusterSize hv (Nat.pos_iff_ne_zero.mp hcs) hcsbs hbbs
    (show base % D.info.clusterSize + D.info.clusterSize ≤ D.info.clusterSize by omega)
  have hr : doRead (zeroedWrite D off h toks) ((zeroedWrite D off h toks).l2Entry base) base
      (D.info.clusterSize / 512) =
      .ok ((List.range (D.info.clusterSize / 512)).map (fun k =>
        (zeroedWrite D off h toks).data.get ((h + base % D.info.clusterSize) / 512 + k))) :=
    doRead_dataFile (zeroedWrite D off h toks) base (D.info.clusterSize / 512) h
      (by rw [hmap]) (by rw [hmap])
  rw [hra, hr]
  dsimp only
  congr 2
  apply List.map_congr_left
  intro k hk
  have hk' := List.mem_range.mp hk
  show ((D.data.setRange (h / 512) D.spc (fun _ => 0)).setRange
      ((h + off % D.info.clusterSize) / 512) toks.length (fun k => toks.getD k 0)).get _ = _
  rw [hbm, FMap.setRange_get, FMap.setRange_get]
  have hspc : D.spc = D.info.clusterSize / 512 := rfl
  by_cases hin : off % D.info.clusterSize / 512 ≤ k ∧ k < off % D.info.clusterSize / 512 + toks.length
  · rw [if_pos hin, if_pos (by omega)]
    congr 1
    omega
  · rw [if_neg hin, if_neg (by omega), if_pos (by omega)]

/-! ## 4. multi-cluster in-place writes -/

/-- when no cluster of `[start, start + m*cs)` needs a mapping,
    `make_multiple_write_mappings` returns the existing entries and changes nothing -/
theorem makeMultiples_noalloc (d : Dev) (m : Nat) :
    ∀ fuel start acc, m ≤ fuel →
      (∀ k, k < m → needMakeMapping d.info (d.mapping (start + k * d.info.clusterSize)) = false) →
      makeMultiples (start + m * d.info.clusterSize) fuel start acc d =
        (d, .ok (acc ++ (List.range m).map (fun k => d.l2Entry (start + k * d.info.clusterSize)))) := by
  induction m with
  | zero =>
    intro fuel start acc _ _
    rw [Nat.zero_mul, Nat.add_zero]
    cases fuel with
    | zero => simp [makeMultiples, M.pure]
    | succ f =>
      rw [makeMultiples]
      dsimp only
      rw [if_pos (by omega)]
      simp
  | succ m ih =>
    intro fuel start acc hf hk
    cases fuel with
    | zero => omega
    | succ f =>
      have hcs := cs_pos d.info
      have h0 := hk 0 (by omega)
      rw [Nat.zero_mul, Nat.add_zero] at h0
      have hstop : start + (m + 1) * d.info.clusterSize = (start + d.info.clusterSize) + m * d.info.clusterSize := by
        rw [Nat.add_mul, Nat.one_mul]; omega
      rw [makeMultiples]
      dsimp only
      rw [if_neg (by rw [hstop]; omega), h0]
      simp only [Bool.false_eq_true, if_false]
      rw [hstop, ih f (start + d.info.clusterSize) _ (by omega)]
      · congr 2
        rw [List.append_assoc]
        congr 1
        rw [List.range_succ_eq_map, List.map_cons, List.map_map]
        simp only [Nat.zero_mul, Nat.add_zero, List.singleton_append, List.cons.injEq, true_and]
        apply List.map_congr_left
        intro k _
        simp only [Function.comp]
        congr 1
        rw [Nat.succ_mul]; omega
      · intro k hk'
        have := hk (k + 1) (by omega)
        rw [Nat.add_mul, Nat.one_mul] at this
        rw [← this]; congr 2; omega

theorem pieces_zero_len (cs fuel off : Nat) : pieces cs fuel off 0 = [] := by
  cases fuel with
  | zero => rfl
  | succ f => rw [pieces, if_pos rfl]

/-- the fuel of `pieces` is irrelevant once it covers the touched clusters -/
theorem pieces_fuel {cs : Nat} (hcs : 0 < cs) (f1 : Nat) :
    ∀ f2 off len, off % cs + len ≤ f1 * cs → off % cs + len ≤ f2 * cs →
      pieces cs f1 off len = pieces cs f2 off len := by
  induction f1 with
  | zero =>
    intro f2 off len h1 _
    have : len = 0 := by omega
    subst this
    rw [pieces_zero_len, pieces_zero_len]
  | succ f1 ih =>
    intro f2 off len h1 h2
    by_cases hl : len = 0
    · subst hl; rw [pieces_zero_len, pieces_zero_len]
    · cases f2 with
      | zero => have := Nat.mod_lt off hcs; omega
      | succ f2 =>
        rw [pieces, pieces, if_neg hl, if_neg hl]
        dsimp only
        congr 1
        by_cases hc : cs - off % cs < len
        · have hmin : min (cs - off % cs) len = cs - off % cs := by omega
          rw [hmin]
          have hm := Nat.mod_lt off hcs
          have hmod : (off + (cs - off % cs)) % cs = 0 := by
            have := Nat.div_add_mod off cs
            have e : off + (cs - off % cs) = cs * (off / cs + 1) := by
              rw [Nat.mul_add, Nat.mul_one]; omega
            rw [e]; exact Nat.mul_mod_right _ _
          rw [Nat.add_mul, Nat.one_mul] at h1 h2
          exact ih f2 _ _ (by omega) (by omega)
        · have hmin : min (cs - off % cs) len = len := by omega
          rw [hmin, Nat.sub_self, pieces_zero_len, pieces_zero_len]

/-- `d` with the data plane replaced -/
def Dev.withData (d : Dev) (D : FMap Nat) : Dev := { d with data := D }

/-- host sector at which the data of guest offset `o` lives (for a data-file mapping) -/
def hostSec (d : Dev) (o : Nat) : Nat :=
  (((d.mapping o).clusterOffset).getD 0 + o % d.info.clusterSize) / 512

/-- data plane after the in-place writes of the pieces `ps` (tokens consumed left to right) -/
def dataAfter (d : Dev) : List (Nat × Nat) → List Nat → FMap Nat → FMap Nat
  | [], _, D => D
  | (o, n) :: ps, toks, D =>
    dataAfter d ps (toks.drop n)
      (D.setRange (hostSec d o) (toks.take n).length (fun k => (toks.take n).getD k 0))

/-- every byte of `[off, off+len)` lies in a cluster mapped DataFile/COPIED that is not
    a still-unzeroed new cluster -/
def PlainRange (d : Dev) (off len : Nat) : Prop :=
  ∀ o, off ≤ o → o < off + len →
    ∃ h, L2.plainOffset (d.mapping o) 0 = some h ∧ h / d.info.clusterSize ∉ d.newData

theorem round_add_rest {cs off : Nat} (hcs : 0 < cs) :
    (off + (cs - off % cs)) / cs * cs = off / cs * cs + cs ∧ (off + (cs - off % cs)) % cs = 0 ∧
    off + (cs - off % cs) = off / cs * cs + cs := by
  have hm := Nat.mod_lt off hcs
  have hd := Nat.div_add_mod off cs
  have e : off + (cs - off % cs) = (off / cs + 1) * cs := by
    rw [Nat.add_mul, Nat.one_mul, Nat.mul_comm]; omega
  refine ⟨?_, ?_, ?_⟩
  · rw [e, Nat.mul_div_cancel _ hcs, Nat.add_mul, Nat.one_mul]
  · rw [e]; exact Nat.mul_mod_left _ _
  · rw [e, Nat.add_mul, Nat.one_mul]

theorem doWrites_inplace (d : Dev) (fuel : Nat) :
    ∀ off len m toks D, off % d.info.clusterSize + len ≤ m * d.info.clusterSize →
      PlainRange d off len →
      doWrites (pieces d.info.clusterSize fuel off len)
          ((List.range m).map (fun k => d.l2Entry (off / d.info.clusterSize * d.info.clusterSize
            + k * d.info.clusterSize))) toks (d.withData D) =
        (d.withData (dataAfter d (pieces d.info.clusterSize fuel off len) toks D), .ok ()) := by
  have hcs := cs_pos d.info
  induction fuel with
  | zero => intro off len m toks D _ _; rfl
  | succ fuel ih =>
    intro off len m toks D hm H
    by_cases hl : len = 0
    · subst hl; rw [pieces_zero_len]; rfl
    · rw [pieces, if_neg hl]
      dsimp only
      cases m with
      | zero => have := Nat.mod_lt off hcs; omega
      | succ m =>
        obtain ⟨h, hp, hnew⟩ := H off (Nat.le_refl _) (by omega)
        have hnew' : d.newData.contains (h / d.info.clusterSize) = false := by simpa using hnew
        obtain ⟨_, _, hco⟩ := plainOffset_some hp
        have he0 : d.l2Entry (off / d.info.clusterSize * d.info.clusterSize + 0 * d.info.clusterSize)
            = d.l2Entry off := by
          apply l2Entry_congr
          rw [Nat.zero_mul, Nat.add_zero, Nat.mul_div_cancel _ hcs]
        rw [List.range_succ_eq_map, List.map_cons, List.map_map, he0]
        generalize hcur : min (d.info.clusterSize - off % d.info.clusterSize) len = cur
        have hw := doWrite_inplace (d.withData D) off (toks.take (cur / 512)) h hp hnew'
        have hsec : hostSec d off = (h + off % d.info.clusterSize) / 512 := by
          unfold hostSec; rw [hco]; rfl
        unfold doWrites
        dsimp only
        have hw' : doWrite (d.l2Entry off) off (toks.take (cur / 512)) (d.withData D) =
            (d.withData (D.setRange (hostSec d off) (toks.take (cur / 512)).length
                (fun k => (toks.take (cur / 512)).getD k 0)), .ok ()) := by
          rw [hsec]; exact hw
        rw [hw']
        dsimp only
        by_cases hrest : len - cur = 0
        · rw [hrest, pieces_zero_len]
          rfl
        · have hcur' : cur = d.info.clusterSize - off % d.info.clusterSize := by omega
          obtain ⟨r1, r2, r3⟩ := round_add_rest (off := off) hcs
          rw [← hcur'] at r1 r2 r3
          have hes : (List.range m).map ((fun k => d.l2Entry (off / d.info.clusterSize * d.info.clusterSize
                + k * d.info.clusterSize)) ∘ Nat.succ) =
              (List.range m).map (fun k => d.l2Entry ((off + cur) / d.info.clusterSize * d.info.clusterSize
                + k * d.info.clusterSize)) := by
            apply List.map_congr_left
            intro k _
            simp only [Function.comp]
            congr 1
            rw [r1, Nat.succ_mul]; omega
          rw [hes]
          have hm' : (off + cur) % d.info.clusterSize + (len - cur) ≤ m * d.info.clusterSize := by
            rw [Nat.add_mul, Nat.one_mul] at hm
            have := Nat.mod_lt off hcs
            omega
          have H' : PlainRange d (off + cur) (len - cur) := by
            intro o o1 o2
            exact H o (by omega) (by omega)
          rw [ih (off + cur) (len - cur) m (toks.drop (cur / 512)) _ hm' H']
          rfl

theorem needMakeMapping_of_plainRange {d : Dev} {off len o : Nat} (H : PlainRange d off len)
    (o1 : off ≤ o) (o2 : o < off + len) : needMakeMapping d.info (d.mapping o) = false := by
  obtain ⟨h, hp, _⟩ := H o o1 o2
  exact needMakeMapping_plain hp

/-- multi-cluster in-place write: no allocation, no metadata change; the data plane
    receives the pieces one after the other -/
theorem writeAt_inplace_multi (d : Dev) (off len : Nat) (toks : List Nat)
    (hc : writeCheck d.info off len = none) (hl : len ≠ 0)
    (hmulti : ¬ off / d.info.clusterSize = (off + len - 1) / d.info.clusterSize)
    (H : PlainRange d off len) (F : Nat)
    (hF : off % d.info.clusterSize + len ≤ F * d.info.clusterSize) :
    writeAt off len toks d =
      (d.withData (dataAfter d (pieces d.info.clusterSize F off len) toks d.data), .ok ()) := by
  have hcs := cs_pos d.info
  unfold writeAt
  dsimp only
  rw [hc]
  dsimp only
  rw [if_neg hl, if_neg hmulti]
  unfold Info.clusterRoundDown
  generalize hcsv : d.info.clusterSize = cs at *
  generalize hq1 : off / cs = q1
  generalize hq2 : (off + len + cs - 1) / cs = q2
  have hq12 : q1 ≤ q2 := by
    rw [← hq1, ← hq2]; exact Nat.div_le_div_right (by omega)
  have hd1 := Nat.div_add_mod off cs
  have hm1 := Nat.mod_lt off hcs
  have hd2 := Nat.div_add_mod (off + len + cs - 1) cs
  have hm2 := Nat.mod_lt (off + len + cs - 1) hcs
  rw [hq1] at hd1; rw [hq2] at hd2
  rw [Nat.mul_comm] at hd1 hd2
  have hn : (q2 * cs - q1 * cs) / cs = q2 - q1 := by
    rw [← Nat.sub_mul, Nat.mul_div_cancel _ hcs]
  rw [hn]
  have hstop : q2 * cs = q1 * cs + (q2 - q1) * cs := by
    rw [← Nat.add_mul]; congr 1; omega
  have hk : ∀ k, k < q2 - q1 →
      needMakeMapping d.info (d.mapping (q1 * cs + k * d.info.clusterSize)) = false := by
    intro k hk
    rw [hcsv]
    cases k with
    | zero =>
      rw [Nat.zero_mul, Nat.add_zero]
      have hm : d.mapping (q1 * cs) = d.mapping off := by
        apply mapping_congr
        rw [hcsv, Nat.mul_div_cancel _ hcs, hq1]
      rw [hm]
      exact needMakeMapping_of_plainRange H (Nat.le_refl _) (by omega)
    | succ k =>
      have h1 : (k + 1 + 1) * cs ≤ (q2 - q1) * cs := Nat.mul_le_mul_right _ (by omega)
      rw [Nat.add_mul, Nat.one_mul] at h1
      have h2 : cs ≤ (k + 1) * cs := Nat.le_mul_of_pos_left _ (by omega)
      apply needMakeMapping_of_plainRange H <;> omega
  have hmm := makeMultiples_noalloc d (q2 - q1) (q2 - q1 + 1) (q1 * cs) [] (by omega) hk
  rw [hcsv] at hmm
  rw [hstop, hmm]
  dsimp only
  rw [List.nil_append]
  have hmeas : off % cs + len ≤ (q2 - q1) * cs := by omega
  have hfuel : pieces cs (q2 - q1 + 1) off len = pieces cs F off len :=
    pieces_fuel hcs _ _ _ _ (by rw [Nat.add_mul, Nat.one_mul]; omega) hF
  rw [hfuel]
  have hw := doWrites_inplace d F off len (q2 - q1) toks d.data (by rw [hcsv]; exact hmeas) H
  rw [hcsv, hq1] at hw
  have heta : d.withData d.data = d := rfl
  rw [heta] at hw
  rw [hw]

/-- two single-cluster pieces with disjoint guest byte ranges, both mapped to the data
    file, occupy disjoint host sectors (same cluster: same host cluster, different
    in-cluster ranges; different clusters: `MapInj`) -/
theorem piece_sectors_disjoint (d : Dev) (hinj : MapInj d) (o n h o' n' h' : Nat)
    (fit : o % d.info.clusterSize + n * 512 ≤ d.info.clusterSize)
    (fit' : o' % d.info.clusterSize + n' * 512 ≤ d.info.clusterSize)
    (v : o + n * 512 ≤ d.info.vsize) (v' : o' + n' * 512 ≤ d.info.vsize)
    (hs : (d.mapping o).source = .dataFile) (hco : (d.mapping o).clusterOffset = some h)
    (hs' : (d.mapping o').source = .dataFile) (hco' : (d.mapping o').clusterOffset = some h')
    (hdisj : o' + n' * 512 ≤ o ∨ o + n * 512 ≤ o')
    (k k' : Nat) (hk : k < n) (hk' : k' < n') :
    (h + o % d.info.clusterSize) / 512 + k ≠ (h' + o' % d.info.clusterSize) / 512 + k' := by
  have hcs := cs_pos d.info
  generalize hcsv : d.info.clusterSize = cs at *
  have e1 := Nat.div_add_mod o cs
  have e2 := Nat.div_add_mod o' cs
  have hn512 : (n * 512) / 512 = n := Nat.mul_div_cancel _ (by decide)
  have hn512' : (n' * 512) / 512 = n' := Nat.mul_div_cancel _ (by decide)
  have key : (h' + o' % cs) + n' * 512 ≤ h + o % cs ∨ (h + o % cs) + n * 512 ≤ h' + o' % cs := by
    by_cases hq : o' / cs = o / cs
    · have hm : d.mapping o' = d.mapping o := mapping_congr d (by rw [hcsv]; exact hq)
      rw [hm, hco] at hco'
      have : h' = h := by injection hco' with e; exact e.symm
      subst this
      rw [hq] at e2
      rcases hdisj with hd | hd
      · left; omega
      · right; omega
    · have := hinj o' o h' h (by omega) (by omega) (by rw [hcsv]; exact hq) hs' hco' hs hco
      rw [hcsv] at this
      rcases this with hd | hd
      · left; omega
      · right; omega
  rcases key with hd | hd
  · have := sector_lt hd (k := k') (by rw [hn512']; exact hk')
    omega
  · have := sector_lt hd (k := k) (by rw [hn512]; exact hk)
    omega

theorem dataAfter_get_outside (d : Dev) :
    ∀ ps toks D s, (∀ p, p ∈ ps → ¬ (hostSec d p.1 ≤ s ∧ s < hostSec d p.1 + p.2)) →
      (dataAfter d ps toks D).get s = D.get s := by
  intro ps
  induction ps with
  | nil => intro toks D s _; rfl
  | cons p ps ih =>
    intro toks D s h
    obtain ⟨o, n⟩ := p
    rw [dataAfter, ih _ _ s (fun q hq => h q (List.mem_cons_of_mem _ hq)), FMap.setRange_get]
    have := h (o, n) List.mem_cons_self
    have hle : (toks.take n).length ≤ n := List.length_take_le _ _
    rw [if_neg (by dsimp only at this; omega)]

/-- a piece that can be written in place and read back -/
def GoodPiece (d : Dev) (p : Nat × Nat) : Prop :=
  p.1 % d.info.clusterSize + p.2 * 512 ≤ d.info.clusterSize ∧ p.1 + p.2 * 512 ≤ d.info.vsize ∧
  (d.mapping p.1).source = .dataFile ∧ ∃ h, (d.mapping p.1).clusterOffset = some h

theorem hostSec_eq {d : Dev} {o h : Nat} (hco : (d.mapping o).clusterOffset = some h) :
    hostSec d o = (h + o % d.info.clusterSize) / 512 := by
  unfold hostSec; rw [hco]; rfl

/-- host sectors of a good piece are untouched by in-place writes of byte-disjoint good pieces -/
theorem dataAfter_get_disjoint (d : Dev) (hinj : MapInj d) (ps : List (Nat × Nat)) (toks : List Nat)
    (D : FMap Nat) (q : Nat × Nat) (hq : GoodPiece d q) (hps : ∀ p, p ∈ ps → GoodPiece d p)
    (hdisj : ∀ p, p ∈ ps → q.1 + q.2 * 512 ≤ p.1 ∨ p.1 + p.2 * 512 ≤ q.1)
    (k : Nat) (hk : k < q.2) :
    (dataAfter d ps toks D).get (hostSec d q.1 + k) = D.get (hostSec d q.1 + k) := by
  apply dataAfter_get_outside
  intro p hp hc
  obtain ⟨f1, v1, s1, h1, c1⟩ := hps p hp
  obtain ⟨f2, v2, s2, h2, c2⟩ := hq
  rw [hostSec_eq c1, hostSec_eq c2] at hc
  have := piece_sectors_disjoint d hinj p.1 p.2 h1 q.1 q.2 h2 f1 f2 v1 v2 s1 c1 s2 c2 (hdisj p hp)
    (((h2 + q.1 % d.info.clusterSize) / 512 + k) - (h1 + p.1 % d.info.clusterSize) / 512) k
    (by omega) hk
  omega

theorem doReads_dataAfter (d : Dev) (hinj : MapInj d) :
    ∀ ps toks D, (∀ p, p ∈ ps → GoodPiece d p) →
      ps.Pairwise (fun p q => p.1 + p.2 * 512 ≤ q.1) →
      toks.length = (ps.map (·.2)).sum →
      doReads (d.withData (dataAfter d ps toks D)) ps = .ok toks := by
  intro ps
  induction ps with
  | nil =>
    intro toks D _ _ hlen
    have : toks = [] := List.eq_nil_of_length_eq_zero (by simpa using hlen)
    subst this; rfl
  | cons p ps ih =>
    intro toks D hg hpw hlen
    obtain ⟨o, n⟩ := p
    obtain ⟨hrel, hpw'⟩ := List.pairwise_cons.mp hpw
    have hgp := hg (o, n) List.mem_cons_self
    obtain ⟨f1, v1, s1, h, c1⟩ := hgp
    dsimp only at f1 v1 s1 c1
    simp only [List.map_cons, List.sum_cons] at hlen
    have hn : n ≤ toks.length := by omega
    have htake : (toks.take n).length = n := by rw [List.length_take]; omega
    rw [dataAfter]
    generalize hD1 : D.setRange (hostSec d o) (toks.take n).length (fun k => (toks.take n).getD k 0) = D1
    have hrest := ih (toks.drop n) D1 (fun q hq => hg q (List.mem_cons_of_mem _ hq)) hpw'
      (by rw [List.length_drop]; omega)
    unfold doReads
    rw [hrest]
    have hl2 : (d.withData (dataAfter d ps (toks.drop n) D1)).l2Entry o = d.l2Entry o := rfl
    rw [hl2]
    have hr : doRead (d.withData (dataAfter d ps (toks.drop n) D1)) (d.l2Entry o) o n =
        .ok ((List.range n).map (fun k =>
          (dataAfter d ps (toks.drop n) D1).get ((h + o % d.info.clusterSize) / 512 + k))) :=
      doRead_dataFile (d.withData (dataAfter d ps (toks.drop n) D1)) o n h s1 c1
    rw [hr]
    dsimp only
    congr 1
    rw [← List.take_append_drop n toks]
    congr 1
    · rw [List.take_append_drop]
      refine Eq.trans ?_ (range_map_getD (toks.take n))
      rw [htake]
      apply List.map_congr_left
      intro k hk
      have hk' := List.mem_range.mp hk
      show (dataAfter d ps (toks.drop n) D1).get ((h + o % d.info.clusterSize) / 512 + k) = _
      rw [← hostSec_eq c1]
      have := dataAfter_get_disjoint d hinj ps (toks.drop n) D1 (o, n) ⟨f1, v1, s1, h, c1⟩
        (fun q hq => hg q (List.mem_cons_of_mem _ hq))
        (fun q hq => Or.inl (hrel q hq)) k hk'
      dsimp only at this
      rw [this, ← hD1, FMap.setRange_get, if_pos ⟨Nat.le_add_right _ _, by omega⟩,
        Nat.add_sub_cancel_left]
    · rw [List.take_append_drop]

theorem pieces_lt {cs : Nat} (fuel : Nat) :
    ∀ off len p, p ∈ pieces cs fuel off len → p.1 < off + len := by
  induction fuel with
  | zero => intro off len p hp; simp [pieces] at hp
  | succ fuel ih =>
    intro off len p hp
    rw [pieces] at hp
    split at hp
    · simp at hp
    · rcases List.mem_cons.mp hp with rfl | hp
      · dsimp only; omega
      · have := ih _ _ p hp
        omega

theorem pieces_pairwise {cs : Nat} (hcs : 0 < cs) (fuel : Nat) :
    ∀ off len, (pieces cs fuel off len).Pairwise (fun p q => p.1 + p.2 * 512 ≤ q.1) := by
  induction fuel with
  | zero => intro off len; simp [pieces]
  | succ fuel ih =>
    intro off len
    rw [pieces]
    split
    · exact List.Pairwise.nil
    · apply List.Pairwise.cons
      · intro q hq
        obtain ⟨a, _, _⟩ := pieces_spec hcs fuel _ _ q hq
        have := Nat.div_mul_le_self (min (cs - off % cs) len) 512
        dsimp only
        omega
      · exact ih _ _

theorem pieces_sum {cs : Nat} (hcs : 0 < cs) (h512 : cs % 512 = 0) (fuel : Nat) :
    ∀ off len, off % 512 = 0 → len % 512 = 0 → off % cs + len ≤ fuel * cs →
      ((pieces cs fuel off len).map (·.2)).sum = len / 512 := by
  induction fuel with
  | zero =>
    intro off len _ _ hm
    have : len = 0 := by omega
    subst this; simp [pieces]
  | succ fuel ih =>
    intro off len ho hlen hm
    by_cases hl : len = 0
    · subst hl; rw [pieces_zero_len]; rfl
    · rw [pieces, if_neg hl]
      have hmm : off % cs % 512 = 0 := by
        rw [Nat.mod_mod_of_dvd off (Nat.dvd_of_mod_eq_zero h512)]; exact ho
      have hlt := Nat.mod_lt off hcs
      generalize hcur : min (cs - off % cs) len = cur
      simp only [List.map_cons, List.sum_cons]
      have hc512 : cur % 512 = 0 := by omega
      by_cases hrest : len - cur = 0
      · rw [hrest, pieces_zero_len]
        simp only [List.map_nil, List.sum_nil]
        have : cur = len := by omega
        rw [this]; omega
      · have hcur' : cur = cs - off % cs := by omega
        obtain ⟨_, r2, _⟩ := round_add_rest (off := off) hcs
        rw [← hcur'] at r2
        rw [ih (off + cur) (len - cur) (by omega) (by omega)
          (by rw [Nat.add_mul, Nat.one_mul] at hm; omega)]
        omega

/-- an accepted, unclamped read is `do_reads` over the pieces of its range -/
theorem readAt_full (d : Dev) (off len : Nat) (hv : off + len ≤ d.info.vsize) (hl : len ≠ 0)
    (hlb : len % d.info.bs = 0) (hob : off % d.info.bs = 0) :
    readAt d off len =
      match doReads d (pieces d.info.clusterSize
          ((len + d.info.clusterSize - 1) / d.info.clusterSize + 2) off len) with
      | .ok a => .ok (len, a)
      | .err e => .err e
      | .panic p => .panic p := by
  unfold readAt readPlan
  dsimp only
  rw [if_neg (show ¬ off ≥ d.info.vsize by omega), if_neg hl,
    if_neg (show ¬ len % d.info.bs ≠ 0 by omega), if_neg (show ¬ off % d.info.bs ≠ 0 by omega),
    if_neg (show ¬ len > d.info.vsize - off by omega)]
  dsimp only
  rw [if_neg hl]
  cases doReads d (pieces d.info.clusterSize
      ((len + d.info.clusterSize - 1) / d.info.clusterSize + 2) off len) with
  | ok a => simp
  | err e => rfl
  | panic p => rfl

theorem pieces_good (d : Dev) (off len fuel : Nat) (H : PlainRange d off len)
    (hv : off + len ≤ d.info.vsize) :
    ∀ p, p ∈ pieces d.info.clusterSize fuel off len → GoodPiece d p := by
  intro p hp
  obtain ⟨a, b, c⟩ := pieces_spec (cs_pos d.info) fuel off len p hp
  have hlt := pieces_lt fuel off len p hp
  obtain ⟨h, hpl, _⟩ := H p.1 a hlt
  obtain ⟨hs, _, hco⟩ := plainOffset_some hpl
  exact ⟨b, by omega, hs, h, hco⟩

theorem fuel_enough {cs off len : Nat} (hcs : 0 < cs) : off % cs + len ≤ (len / cs + 2) * cs := by
  have := Nat.mod_lt off hcs
  have h1 := Nat.div_add_mod len cs
  have h2 := Nat.mod_lt len hcs
  rw [Nat.add_mul, Nat.mul_comm]
  omega

theorem fuel_enough' {cs off len : Nat} (hcs : 0 < cs) :
    off % cs + len ≤ ((len + cs - 1) / cs + 2) * cs := by
  have := Nat.mod_lt off hcs
  have h1 := Nat.div_add_mod (len + cs - 1) cs
  have h2 := Nat.mod_lt (len + cs - 1) hcs
  rw [Nat.add_mul, Nat.mul_comm]
  omega

/-! ## 5. sector-wise reads and refinement of the flat disk -/

/-- token a reader sees at guest sector `s` (the abstraction function of the model) -/
def guestSec (d : Dev) (s : Nat) : Nat :=
  match doRead d (d.l2Entry (s * 512)) (s * 512) 1 with
  | .ok l => l.getD 0 0
  | _ => 0

theorem sector_in_piece {cs o n k : Nat} (hcs : 0 < cs) (ho : o % 512 = 0)
    (fit : o % cs + n * 512 ≤ cs) (hk : k < n) :
    (o / 512 + k) * 512 = o + k * 512 ∧ (o + k * 512) / cs = o / cs ∧
    (o + k * 512) % cs = o % cs + k * 512 := by
  have e1 := Nat.div_add_mod o cs
  have hlt : o % cs + k * 512 < cs := by omega
  refine ⟨by omega, ?_, ?_⟩
  · have : o + k * 512 = o % cs + k * 512 + cs * (o / cs) := by omega
    rw [this, Nat.add_mul_div_left _ _ hcs, Nat.div_eq_of_lt hlt, Nat.zero_add]
  · have : o + k * 512 = o % cs + k * 512 + cs * (o / cs) := by omega
    rw [this, Nat.add_mul_mod_self_left, Nat.mod_eq_of_lt hlt]

theorem compressedPlain_getD (d : Dev) (m : Mapping) (j : Nat) (hj : j < d.spc) :
    (compressedPlain d m).getD j 0 = (d.comp.get (m.clusterOffset.getD 0)).get j := by
  unfold compressedPlain
  simp [hj]

theorem compressedPlain_length (d : Dev) (m : Mapping) : (compressedPlain d m).length = d.spc := by
  unfold compressedPlain; simp

/-- `do_read` of a sector-aligned piece inside one cluster is sector-wise -/
theorem doRead_sectorwise (d : Dev) (o n : Nat) (ho : o % 512 = 0)
    (fit : o % d.info.clusterSize + n * 512 ≤ d.info.clusterSize) :
    doRead d (d.l2Entry o) o n = .ok ((List.range n).map (fun k => guestSec d (o / 512 + k))) := by
  have hcs := cs_pos d.info
  -- every sector of the piece decodes the same mapping
  have hsec : ∀ k, k < n →
      guestSec d (o / 512 + k) =
        match doRead d (d.l2Entry o) (o + k * 512) 1 with
        | .ok l => l.getD 0 0
        | _ => 0 := by
    intro k hk
    obtain ⟨e1, e2, _⟩ := sector_in_piece hcs ho fit hk
    unfold guestSec
    rw [e1, l2Entry_congr d e2]
  have hmap : ∀ k, k < n → d.mapping (o + k * 512) = d.mapping o := by
    intro k hk
    exact mapping_congr d (sector_in_piece hcs ho fit hk).2.1
  have hmapk : ∀ k, k < n → L2.intoMapping d.info.cb d.info.hasBack
      (Split.clusterOffset d.info (o + k * 512 - d.info.inClusterOffset (o + k * 512))) (d.l2Entry o)
        = d.mapping o := by
    intro k hk
    rw [← l2Entry_congr d (sector_in_piece hcs ho fit hk).2.1, doRead_mapping, hmap k hk]
  have hin : ∀ k, k < n → d.info.inClusterOffset (o + k * 512) = o % d.info.clusterSize + k * 512 :=
    fun k hk => (sector_in_piece hcs ho fit hk).2.2
  cases hs : (d.mapping o).source with
  | dataFile =>
    cases hco : (d.mapping o).clusterOffset with
    | none =>
      exfalso
      -- `into_mapping` never yields a data-file mapping without offset
      unfold Dev.mapping L2.intoMapping at hs hco
      dsimp only at hs hco
      split at hs
      · cases hs
      · split at hs
        · cases hs
        · split at hs
          · split at hs <;> cases hs
          · rename_i h1 h2 h3
            simp only [h1, h2, h3] at hco
            simp at hco
    | some h =>
      rw [doRead_dataFile d o n h hs hco]
      congr 1
      apply List.map_congr_left
      intro k hk
      have hk' := List.mem_range.mp hk
      rw [hsec k hk']
      unfold doRead
      dsimp only
      rw [hmapk k hk', hs]
      dsimp only
      rw [hco, hin k hk']
      dsimp only
      simp only [List.range_one, List.map_cons, List.map_nil, List.getD_cons_zero, Nat.add_zero]
      congr 1
      omega
  | zero =>
    unfold doRead
    dsimp only
    rw [doRead_mapping, hs]
    dsimp only
    congr 1
    apply List.ext_getElem
    · simp
    · intro i h1 h2
      simp only [List.length_replicate] at h1
      rw [List.getElem_replicate, List.getElem_map, List.getElem_range, hsec i h1]
      unfold doRead
      dsimp only
      rw [hmapk i h1, hs]
      rfl
  | unallocated =>
    unfold doRead
    dsimp only
    rw [doRead_mapping, hs]
    dsimp only
    congr 1
    apply List.ext_getElem
    · simp
    · intro i h1 h2
      simp only [List.length_replicate] at h1
      rw [List.getElem_replicate, List.getElem_map, List.getElem_range, hsec i h1]
      unfold doRead
      dsimp only
      rw [hmapk i h1, hs]
      rfl
  | backing =>
    unfold doRead
    dsimp only
    rw [doRead_mapping, hs]
    dsimp only
    cases hb : d.back with
    | none =>
      dsimp only
      congr 1
      apply List.ext_getElem
      · simp
      · intro i h1 h2
        simp only [List.length_replicate] at h1
        rw [List.getElem_replicate, List.getElem_map, List.getElem_range, hsec i h1]
        unfold doRead
        dsimp only
        rw [hmapk i h1, hs]
        dsimp only
        rw [hb]
        rfl
    | some b =>
      dsimp only
      congr 1
      unfold backRead
      apply List.map_congr_left
      intro k hk
      have hk' := List.mem_range.mp hk
      rw [hsec k hk']
      unfold doRead
      dsimp only
      rw [hmapk k hk', hs]
      dsimp only
      rw [hb]
      dsimp only
      unfold backRead
      simp only [List.range_one, List.map_cons, List.map_nil, List.getD_cons_zero, Nat.zero_mul,
        Nat.add_zero]
      have e : (o + k * 512) / 512 = o / 512 + k := by omega
      rw [e]
  | compressed =>
    unfold doRead
    dsimp only
    rw [doRead_mapping, hs]
    dsimp only
    congr 1
    have hspc : d.spc = d.info.clusterSize / 512 := rfl
    have hlen := compressedPlain_length d (d.mapping o)
    have hfit2 : d.info.inClusterOffset o / 512 + n ≤ d.spc := by
      unfold Info.inClusterOffset; omega
    apply List.ext_getElem
    · simp only [List.length_take, List.length_drop, List.length_map, List.length_range, hlen]
      omega
    · intro i h1 h2
      simp only [List.length_map, List.length_range] at h2
      rw [List.getElem_take, List.getElem_drop, List.getElem_map, List.getElem_range, hsec i h2]
      unfold doRead
      dsimp only
      rw [hmapk i h2, hs]
      dsimp only
      rw [hin i h2]
      have e : (o % d.info.clusterSize + i * 512) / 512 = d.info.inClusterOffset o / 512 + i := by
        unfold Info.inClusterOffset; omega
      rw [e]
      have hidx : d.info.inClusterOffset o / 512 + i < (compressedPlain d (d.mapping o)).length := by
        rw [hlen]; omega
      simp only [List.take_one, List.getD_eq_getElem?_getD]
      rw [List.head?_drop, List.getElem?_eq_getElem hidx]
      simp

theorem doReads_sectorwise (d : Dev) (h512 : d.info.clusterSize % 512 = 0) (fuel : Nat) :
    ∀ off len, off % 512 = 0 → len % 512 = 0 →
      off % d.info.clusterSize + len ≤ fuel * d.info.clusterSize →
      doReads d (pieces d.info.clusterSize fuel off len) =
        .ok ((List.range (len / 512)).map (fun k => guestSec d (off / 512 + k))) := by
  have hcs := cs_pos d.info
  induction fuel with
  | zero =>
    intro off len _ _ hm
    have : len = 0 := by omega
    subst this; rfl
  | succ fuel ih =>
    intro off len ho hlen hm
    by_cases hl : len = 0
    · subst hl; rw [pieces_zero_len]; rfl
    · rw [pieces, if_neg hl]
      have hmm : off % d.info.clusterSize % 512 = 0 := by
        rw [Nat.mod_mod_of_dvd off (Nat.dvd_of_mod_eq_zero h512)]; exact ho
      have hlt := Nat.mod_lt off hcs
      generalize hcur : min (d.info.clusterSize - off % d.info.clusterSize) len = cur
      have hc512 : cur % 512 = 0 := by omega
      dsimp only
      unfold doReads
      rw [doRead_sectorwise d off (cur / 512) ho (by omega)]
      have hsplit : len / 512 = cur / 512 + (len - cur) / 512 := by omega
      have hrestEq : doReads d (pieces d.info.clusterSize fuel (off + cur) (len - cur)) =
          .ok ((List.range ((len - cur) / 512)).map (fun k => guestSec d ((off + cur) / 512 + k))) := by
        by_cases hrest : len - cur = 0
        · rw [hrest, pieces_zero_len]; rfl
        · have hcur' : cur = d.info.clusterSize - off % d.info.clusterSize := by omega
          obtain ⟨_, r2, _⟩ := round_add_rest (off := off) hcs
          rw [← hcur'] at r2
          exact ih (off + cur) (len - cur) (by omega) (by omega)
            (by rw [Nat.add_mul, Nat.one_mul] at hm; omega)
      rw [hrestEq]
      dsimp only
      congr 1
      rw [hsplit, List.range_add, List.map_append, List.map_map]
      refine congrArg (fun (t : List Nat) =>
        (List.range (cur / 512)).map (fun k => guestSec d (off / 512 + k)) ++ t) ?_
      apply List.map_congr_left
      intro k _
      simp only [Function.comp]
      congr 1
      omega

/-- an accepted, unclamped, sector-aligned read returns the guest sectors of its range -/
theorem readAt_sectorwise (d : Dev) (off len : Nat) (h512 : d.info.clusterSize % 512 = 0)
    (hv : off + len ≤ d.info.vsize) (hl : len ≠ 0)
    (hlb : len % d.info.bs = 0) (hob : off % d.info.bs = 0)
    (ho : off % 512 = 0) (hlen : len % 512 = 0) :
    readAt d off len = .ok (len, (List.range (len / 512)).map (fun k => guestSec d (off / 512 + k))) := by
  rw [readAt_full d off len hv hl hlb hob,
    doReads_sectorwise d h512 _ off len ho hlen (fuel_enough' (cs_pos d.info))]

/-- canonical state after an in-place write of `toks` over `[off, off+len)` -/
def afterWrites (d : Dev) (off len : Nat) (toks : List Nat) : Dev :=
  d.withData (dataAfter d (pieces d.info.clusterSize (len / d.info.clusterSize + 2) off len) toks d.data)

/-- guest sectors outside the written range keep their content -/
theorem guestSec_afterWrites_outside (d : Dev) (off len : Nat) (toks : List Nat)
    (h512 : d.info.clusterSize % 512 = 0)
    (hv : off + len ≤ d.info.vsize) (H : PlainRange d off len) (hinj : MapInj d)
    (s : Nat) (hsv : (s + 1) * 512 ≤ d.info.vsize)
    (hout : (s + 1) * 512 ≤ off ∨ off + len ≤ s * 512) :
    guestSec (afterWrites d off len toks) s = guestSec d s := by
  have hcs := cs_pos d.info
  unfold guestSec
  have hl2 : (afterWrites d off len toks).l2Entry (s * 512) = d.l2Entry (s * 512) := rfl
  rw [hl2]
  have hfit : s * 512 % d.info.clusterSize + 1 * 512 ≤ d.info.clusterSize := by
    have hmm : s * 512 % d.info.clusterSize % 512 = 0 := by
      rw [Nat.mod_mod_of_dvd _ (Nat.dvd_of_mod_eq_zero h512)]; exact Nat.mul_mod_left _ _
    have hlt := Nat.mod_lt (s * 512) hcs
    omega
  have : doRead (afterWrites d off len toks) (d.l2Entry (s * 512)) (s * 512) 1
      = doRead d (d.l2Entry (s * 512)) (s * 512) 1 := by
    apply doRead_congr_data
    intro hb hs' hco' k hk
    have hgq : GoodPiece d (s * 512, 1) := ⟨hfit, by dsimp only; omega, hs', hb, hco'⟩
    have := dataAfter_get_disjoint d hinj
      (pieces d.info.clusterSize (len / d.info.clusterSize + 2) off len) toks d.data (s * 512, 1) hgq
      (pieces_good d off len _ H hv)
      (fun p hp => by
        obtain ⟨p1, _, p3⟩ := pieces_spec hcs _ off len p hp
        dsimp only
        omega) k hk
    rw [hostSec_eq hco'] at this
    exact this
  rw [this]

/-- the device shows the flat disk `f` on every guest sector inside the virtual disk -/
def Refines (d : Dev) (f : Qv.Spec.Flat) : Prop :=
  ∀ s, (s + 1) * 512 ≤ d.info.vsize → guestSec d s = f.sec.get s

theorem flat_write_sec (f : Qv.Spec.Flat) (off : Nat) (toks : List Nat) (s : Nat) :
    (f.write off toks).sec.get s =
      if off / 512 ≤ s ∧ s < off / 512 + toks.length then toks.getD (s - off / 512) 0 else f.sec.get s := by
  unfold Qv.Spec.Flat.write
  dsimp only
  by_cases hn : toks.length = 0
  · rw [if_pos hn, if_neg (by omega)]
  · rw [if_neg hn]
    exact FMap.setRange_get f.sec (off / 512) toks.length (fun i => toks.getD i 0) s

/-- on the single-cluster path the canonical state is the one of `writeAt_inplace` -/
theorem afterWrites_single (d : Dev) (off len h : Nat) (toks : List Nat) (hl : len ≠ 0)
    (hfit : off % d.info.clusterSize + len ≤ d.info.clusterSize) (htoks : toks.length = len / 512)
    (hco : (d.mapping off).clusterOffset = some h) :
    afterWrites d off len toks =
      { d with data := d.data.setRange ((h + off % d.info.clusterSize) / 512) toks.length
                  (fun k => toks.getD k 0) } := by
  unfold afterWrites
  rw [pieces_single (Nat.succ_ne_zero _) hl hfit]
  unfold dataAfter dataAfter
  rw [hostSec_eq hco, List.take_of_length_le (by omega)]
  rfl
theorem guestSec_dataFile (d : Dev) (s h : Nat) (hs : (d.mapping (s * 512)).source = .dataFile)
    (hco : (d.mapping (s * 512)).clusterOffset = some h) :
    guestSec d s = d.data.get ((h + s * 512 % d.info.clusterSize) / 512) := by
  unfold guestSec
  rw [doRead_dataFile d (s * 512) 1 h hs hco]
  rfl

theorem guestSec_unallocated (d : Dev) (s : Nat) (hs : (d.mapping (s * 512)).source = .unallocated) :
    guestSec d s = 0 := by
  unfold guestSec doRead
  dsimp only
  rw [doRead_mapping, hs]
  rfl
end Qv.Model
