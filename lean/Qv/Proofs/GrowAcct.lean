import Qv.Proofs.Acct
/-
Refcount accounting through a relocation of the refcount table (C12, part d).
(`Qv/Proofs/Grow.lean` is imported by the allocator lemmas and cannot see `Acct`;
the accounting helpers for C12 are here.)

The relocation goes through a state in which the old table is still counted
(`AcctPlus … refsRtTable`): every reference is counted, the old table's clusters
are over-counted by exactly one.  Releasing the old table restores `Acct`.
-/
namespace Qv.Model
open Qv Qv.Codec
open Qv.Props.C15 (Geom)

theorem sumTo_extend {n m : Nat} {g : Nat → Nat} (hnm : n < m)
    (h0 : ∀ i, n < i → i < m → g i = 0) : sumTo m g = sumTo n g + g n := by
  induction m with
  | zero => omega
  | succ m ih =>
    rw [sumTo_succ]
    by_cases h : n = m
    · subst h; rfl
    · rw [ih (by omega) (fun i a b => h0 i a (by omega)), h0 m (by omega) (by omega), Nat.add_zero]

/-- accounting up to a surplus `x c` of the stored refcount over the references -/
def AcctPlus (d : Dev) (x : Nat → Nat) : Prop := ∀ c, d.rc.get c = d.refs c + x c

theorem acctPlus_zero {d : Dev} : AcctPlus d (fun _ => 0) ↔ Acct d :=
  ⟨fun h c => by rw [h c]; rfl, fun h c => by rw [h c]; rfl⟩

theorem AcctPlus.noUnder {d : Dev} {x : Nat → Nat} (h : AcctPlus d x) : NoUnder d :=
  fun c => by rw [h c]; omega

theorem rt_isZero_ofNat {x : Nat} (h512 : x % 512 = 0) (h64 : x < 2^64) (hpos : 0 < x) :
    RT.isZero (BitVec.ofNat 64 x) = false := by
  cases hz : RT.isZero (BitVec.ofNat 64 x) with
  | false => rfl
  | true =>
    have := (rt_isZero_iff _).1 hz
    rw [rt_refblockOffset_ofNat x h512 h64] at this
    omega

theorem rt_isZero_zero' : RT.isZero 0#64 = true := by decide

/-! ### a new refblock, with a surplus -/

/-- references after `ensure_refblock_offset` created the refblock of entry `k` at
    cluster `c0`: one more, to `c0` -/
theorem refs_withRefblock {d : Dev} {k c0 : Nat} (h9 : 9 ≤ d.info.cb) (hk : k < d.rtLen)
    (hz : RT.isZero (d.rt.get k) = true) (hpos : 0 < c0) (h64 : c0 * d.info.clusterSize < 2^64)
    (c : Nat) : (withRefblock d k c0).refs c = d.refs c + (if c = c0 then 1 else 0) := by
  have hcs : 0 < d.info.clusterSize := Nat.two_pow_pos _
  have hdiv : c0 * d.info.clusterSize / d.cs = c0 := Nat.mul_div_cancel _ hcs
  have hdec := rt_refblockOffset_ofNat (c0 * d.info.clusterSize) (cluster_mul_mod512 d h9 c0) h64
  have hh : HdrSame d (withRefblock d k c0) := ⟨rfl, rfl, rfl, rfl, rfl⟩
  unfold Dev.refs
  rw [refsL1Table_congr hh, refsRtTable_congr hh,
    refsL2Tables_congr hh.info hh.hdrL1Entries (fun i _ => rfl),
    refsData_congr hh.info hh.hdrL1Entries (fun i j _ _ => rfl)]
  have hR : (withRefblock d k c0).refsRefblocks c = d.refsRefblocks c + (if c = c0 then 1 else 0) := by
    unfold Dev.refsRefblocks
    show sumTo d.rtLen (fun i => pointsTo d.cs (RT.refblockOffset
      ((d.rt.set k (BitVec.ofNat 64 (c0 * d.info.clusterSize))).get i)).toNat c) = _
    have hu := sumTo_update (n := d.rtLen)
      (f := fun i => pointsTo d.cs (RT.refblockOffset (d.rt.get i)).toNat c)
      (g := fun i => pointsTo d.cs (RT.refblockOffset
        ((d.rt.set k (BitVec.ofNat 64 (c0 * d.info.clusterSize))).get i)).toNat c) hk
      (by intro i _ hne
          show pointsTo d.cs (RT.refblockOffset ((d.rt.set k _).get i)).toNat c = _
          rw [FMap.get_set_other _ _ _ _ (fun x => hne x.symm)])
    have e1 : pointsTo d.cs (RT.refblockOffset (d.rt.get k)).toNat c = 0 := by
      rw [(rt_isZero_iff _).1 hz]; exact pointsTo_zero _ _
    have e2 : pointsTo d.cs (RT.refblockOffset
        ((d.rt.set k (BitVec.ofNat 64 (c0 * d.info.clusterSize))).get k)).toNat c
        = if c = c0 then 1 else 0 := by
      rw [FMap.get_set_same, hdec]
      unfold pointsTo
      rw [hdiv]
      have hne : c0 * d.info.clusterSize ≠ 0 := Nat.ne_of_gt (Nat.mul_pos hpos hcs)
      by_cases hc : c = c0
      · rw [if_pos hc, if_pos ⟨hne, hc.symm⟩]
      · rw [if_neg hc, if_neg (fun x => hc x.2.symm)]
    rw [e1, e2] at hu
    omega
  rw [hR]
  omega

theorem acctPlus_withRefblock {d : Dev} {k c0 : Nat} {x : Nat → Nat} (h9 : 9 ≤ d.info.cb)
    (hP : AcctPlus d x) (hk : k < d.rtLen) (hz : RT.isZero (d.rt.get k) = true)
    (h0 : d.rc.get c0 = 0) (h64 : c0 * d.info.clusterSize < 2^64) :
    AcctPlus (withRefblock d k c0) x := by
  have hpos : 0 < c0 := by
    apply Nat.pos_of_ne_zero
    intro hc; subst hc
    have := hP 0
    rw [h0] at this
    unfold Dev.refs Dev.refsHeader at this
    simp at this
    omega
  intro c
  rw [refs_withRefblock h9 hk hz hpos h64]
  show (d.rc.set c0 1).get c = _
  rw [FMap.get_set]
  have := hP c
  by_cases hc : c0 = c
  · rw [if_pos hc, if_pos hc.symm]
    rw [← hc, h0] at this
    rw [← hc]
    omega
  · rw [if_neg hc, if_neg (fun x => hc x.symm)]; omega

theorem withRefblockAt_eq (d : Dev) (k : Nat) :
    withRefblockAt d k = withRefblock d k (k * d.info.rbEntries) := by
  unfold withRefblockAt withRefblock
  rw [Nat.mul_div_cancel _ (cs_pos d.info)]

/-! ### the relocation -/

/-- references after the relocation: the old table is no longer referenced, the new
    table (clusters `c0+1 … c0+newCl`) and the new refblock (`c0`) are, once each -/
theorem refs_growRelocated {d : Dev} {rtIdx : Nat} (h9 : 9 ≤ d.info.cb) (hle : d.rtLen ≤ rtIdx)
    (htail : ∀ i, d.rtLen < i → d.rt.get i = 0#64)
    (hpos : 0 < d.rtLen * d.info.rbEntries)
    (h64 : d.rtLen * d.info.rbEntries * d.info.clusterSize < 2^64) (c : Nat) :
    (growRelocated d rtIdx).refs c + d.refsRtTable c =
      d.refs c
        + (if d.rtLen * d.info.rbEntries + 1 ≤ c ∧
              c < d.rtLen * d.info.rbEntries + 1 + growNewCl d rtIdx then 1 else 0)
        + (if c = d.rtLen * d.info.rbEntries then 1 else 0) := by
  have hcs : 0 < d.info.clusterSize := cs_pos d.info
  generalize hc0 : d.rtLen * d.info.rbEntries = c0 at *
  have hdiv : c0 * d.info.clusterSize / d.info.clusterSize = c0 := Nat.mul_div_cancel _ hcs
  have hdec := rt_refblockOffset_ofNat (c0 * d.info.clusterSize) (cluster_mul_mod512 d h9 c0) h64
  have hlen : d.rtLen < growNewSize d rtIdx / 8 := by
    have := growNewSize_covers d rtIdx; omega
  -- the table
  have hT : (growRelocated d rtIdx).refsRtTable c =
      if c0 + 1 ≤ c ∧ c < c0 + 1 + growNewCl d rtIdx then 1 else 0 := by
    show (if (d.rtLen * d.info.rbEntries * d.info.clusterSize + d.info.clusterSize) / d.info.clusterSize ≤ c ∧
        c < (d.rtLen * d.info.rbEntries * d.info.clusterSize + d.info.clusterSize) / d.info.clusterSize
          + growNewCl d rtIdx then 1 else 0) = _
    rw [hc0, add_cs_div, hdiv]
  -- the refblocks
  have hR : (growRelocated d rtIdx).refsRefblocks c =
      d.refsRefblocks c + (if c = c0 then 1 else 0) := by
    show sumTo (growNewSize d rtIdx / 8) (fun i => pointsTo d.cs (RT.refblockOffset
      ((d.rt.set d.rtLen (BitVec.ofNat 64 (d.rtLen * d.info.rbEntries * d.info.clusterSize))).get i)).toNat c)
      = sumTo d.rtLen (fun i => pointsTo d.cs (RT.refblockOffset (d.rt.get i)).toNat c) + _
    rw [hc0]
    rw [sumTo_extend hlen (by
      intro i h1 h2
      show pointsTo d.cs (RT.refblockOffset ((d.rt.set d.rtLen _).get i)).toNat c = 0
      rw [FMap.get_set_other _ _ _ _ (by omega), htail i h1, rt_refblockOffset_zero]
      exact pointsTo_zero _ _)]
    have e1 : sumTo d.rtLen (fun i => pointsTo d.cs (RT.refblockOffset
        ((d.rt.set d.rtLen (BitVec.ofNat 64 (c0 * d.info.clusterSize))).get i)).toNat c)
        = sumTo d.rtLen (fun i => pointsTo d.cs (RT.refblockOffset (d.rt.get i)).toNat c) :=
      sumTo_congr (fun i hi => by
        show pointsTo d.cs (RT.refblockOffset ((d.rt.set d.rtLen _).get i)).toNat c = _
        rw [FMap.get_set_other _ _ _ _ (by omega)])
    rw [e1]
    show _ + pointsTo d.cs (RT.refblockOffset ((d.rt.set d.rtLen _).get d.rtLen)).toNat c = _
    rw [FMap.get_set_same, hdec]
    unfold pointsTo
    show _ + (if c0 * d.info.clusterSize ≠ 0 ∧ c0 * d.info.clusterSize / d.info.clusterSize = c
      then 1 else 0) = _
    rw [hdiv]
    have hne : c0 * d.info.clusterSize ≠ 0 := Nat.ne_of_gt (Nat.mul_pos hpos hcs)
    by_cases hc : c = c0
    · rw [if_pos hc, if_pos ⟨hne, hc.symm⟩]
    · rw [if_neg hc, if_neg (fun x => hc x.2.symm)]
  have hL1 : (growRelocated d rtIdx).refsL1Table c = d.refsL1Table c := rfl
  have hL2 : (growRelocated d rtIdx).refsL2Tables c = d.refsL2Tables c := rfl
  have hD : (growRelocated d rtIdx).refsData c = d.refsData c := rfl
  unfold Dev.refs
  rw [hT, hR, hL1, hL2, hD]
  omega

/-- **relocation**: an exactly accounted image whose new-table region is free is, after
    `grow_reftable`, accounted up to the old table, which is still counted -/
theorem growRelocated_acctPlus {d : Dev} {rtIdx : Nat} (h9 : 9 ≤ d.info.cb) (hA : Acct d)
    (hle : d.rtLen ≤ rtIdx) (htail : ∀ i, d.rtLen < i → d.rt.get i = 0#64)
    (hfree : ∀ c, d.rtLen * d.info.rbEntries ≤ c →
      c ≤ d.rtLen * d.info.rbEntries + growNewCl d rtIdx → d.rc.get c = 0)
    (h64 : d.rtLen * d.info.rbEntries * d.info.clusterSize < 2^64) :
    AcctPlus (growRelocated d rtIdx) d.refsRtTable := by
  have hpos : 0 < d.rtLen * d.info.rbEntries :=
    acct_free_ne_zero hA (hfree _ (Nat.le_refl _) (Nat.le_add_right _ _))
  intro c
  have hr := refs_growRelocated h9 hle htail hpos h64 c
  show (growRc d.rc (d.rtLen * d.info.rbEntries) (growNewCl d rtIdx + 1)).get c = _
  rw [growRc_get]
  have hAc := hA c
  by_cases hin : d.rtLen * d.info.rbEntries ≤ c ∧
      c < d.rtLen * d.info.rbEntries + (growNewCl d rtIdx + 1)
  · rw [if_pos hin]
    have h0 := hfree c hin.1 (by omega)
    obtain ⟨_, n2, _⟩ := acct_free_no_refs hA h0
    rw [h0] at hAc
    rw [n2] at hr ⊢
    split at hr <;> split at hr <;> omega
  · rw [if_neg hin]
    rw [if_neg (by omega), if_neg (by omega)] at hr
    omega

/-- **release of the old table**: with the RAM table as long as the one on disk, the
    clusters `grow_reftable` returns are exactly the old table's, and releasing them
    restores exact accounting -/
theorem acct_of_release_old {d d1 d2 : Dev}
    (hsync : d.rtLen * 8 = d.hdrRtClusters * d.info.clusterSize)
    (hi : d1.info = d.info) (hP : AcctPlus d1 d.refsRtTable)
    (hf : freeClusters d.hdrRtOff (growOldCl d) true d1 = (d2, .ok ())) : Acct d2 := by
  obtain ⟨a, _⟩ := freeClusters_ok hf
  have hfr := (freeClusters_frame d.hdrRtOff (growOldCl d) true d1).1
  rw [hf] at hfr
  dsimp only at hfr
  have hold : growOldCl d = d.hdrRtClusters := by
    unfold growOldCl
    rw [hsync]
    exact ceil_of_mul _ _ (cs_pos _)
  have hrefs : ∀ c, d2.refs c = d1.refs c := by
    intro c
    rw [hfr]
    exact refs_congr ⟨rfl, rfl, rfl, rfl, rfl⟩ rfl rfl rfl rfl rfl c
  intro c
  rw [hrefs c, a c, hi, hold]
  have := hP c
  unfold Dev.refsRtTable at this
  show _ = d1.refs c
  by_cases hin : d.hdrRtOff / d.info.clusterSize ≤ c ∧
      c < d.hdrRtOff / d.info.clusterSize + d.hdrRtClusters
  · rw [if_pos hin]
    rw [if_pos (show d.hdrRtOff / d.cs ≤ c ∧ c < d.hdrRtOff / d.cs + d.hdrRtClusters from hin)] at this
    omega
  · rw [if_neg hin]
    rw [if_neg (show ¬ (d.hdrRtOff / d.cs ≤ c ∧ c < d.hdrRtOff / d.cs + d.hdrRtClusters) from hin)] at this
    omega

/-- relocation followed by the release of the old table keeps exact accounting -/
theorem growth_acct_aux {d d1 d2 : Dev} {rtIdx o n : Nat} (h9 : 9 ≤ d.info.cb) (hA : Acct d)
    (hle : d.rtLen ≤ rtIdx)
    (hsync : d.rtLen * 8 = d.hdrRtClusters * d.info.clusterSize)
    (htail : ∀ i, d.rtLen < i → d.rt.get i = 0#64)
    (hfree : ∀ c, d.rtLen * d.info.rbEntries ≤ c →
      c ≤ d.rtLen * d.info.rbEntries + growNewCl d rtIdx → d.rc.get c = 0)
    (h64 : d.rtLen * d.info.rbEntries * d.info.clusterSize < 2^64)
    (hg : growReftable rtIdx d = (d1, .ok (some (o, n))))
    (hf : freeClusters o n true d1 = (d2, .ok ())) : Acct d2 := by
  rcases growReftable_cases hg with ⟨_, _, hr⟩ | ⟨_, _, rfl, hr⟩ | ⟨_, _, _, hr⟩
  · cases hr
  · simp only [Outcome.ok.injEq, Option.some.injEq, Prod.mk.injEq] at hr
    obtain ⟨rfl, rfl⟩ := hr
    exact acct_of_release_old (d1 := growRelocated d rtIdx) hsync rfl
      (growRelocated_acctPlus h9 hA hle htail hfree h64) hf
  · cases hr

/-- the whole `ensure_refblock_offset` for an index beyond the table, up to the release
    of the old table: the state `d2` in which the release runs has the new table, the
    refblock of the index, every reference counted and the old table still counted -/
theorem ensureRefblock_growth_mid {d : Dev} {off : Nat} (h9 : 9 ≤ d.info.cb) (hA : Acct d)
    (hoob : d.rtLen ≤ Host.rtIndex d.info off)
    (hsync : d.rtLen * 8 = d.hdrRtClusters * d.info.clusterSize)
    (hfit : GrowFits d (Host.rtIndex d.info off))
    (htail : ∀ i, d.rtLen < i → d.rt.get i = 0#64)
    (hfree : ∀ c, d.rtLen * d.info.rbEntries ≤ c →
      c ≤ d.rtLen * d.info.rbEntries + growNewCl d (Host.rtIndex d.info off) → d.rc.get c = 0)
    (hfree2 : Host.rtIndex d.info off ≠ d.rtLen →
      d.rc.get (Host.rtIndex d.info off * d.info.rbEntries) = 0)
    (h64 : Host.rtIndex d.info off * d.info.rbEntries * d.info.clusterSize < 2^64) :
    ∃ d2, ensureRefblock off d = freeClusters d.hdrRtOff (growOldCl d) true d2 ∧
      AcctPlus d2 d.refsRtTable ∧ d2.info = d.info ∧
      d2.rtLen = growNewSize d (Host.rtIndex d.info off) / 8 ∧
      d2.hdrRtOff = d.rtLen * d.info.rbEntries * d.info.clusterSize + d.info.clusterSize ∧
      d2.hdrRtClusters = growNewCl d (Host.rtIndex d.info off) ∧
      (∀ j, j < d.rtLen → d2.rt.get j = d.rt.get j) ∧
      ¬ RT.isZero (d2.rt.get (Host.rtIndex d.info off)) ∧
      (∀ c, d2.rc.get c =
        if (d.rtLen * d.info.rbEntries ≤ c ∧
            c ≤ d.rtLen * d.info.rbEntries + growNewCl d (Host.rtIndex d.info off)) ∨
           c = Host.rtIndex d.info off * d.info.rbEntries then 1 else d.rc.get c) := by
  generalize hk : Host.rtIndex d.info off = k at *
  have hcs := cs_pos d.info
  have h64' : d.rtLen * d.info.rbEntries * d.info.clusterSize < 2^64 := by
    have : d.rtLen * d.info.rbEntries * d.info.clusterSize ≤ k * d.info.rbEntries * d.info.clusterSize :=
      Nat.mul_le_mul_right _ (Nat.mul_le_mul_right _ hoob)
    omega
  have hlt : ¬ Host.rtIndex d.info off < d.rtLen := by omega
  rcases ensureRefblock_oob_cases hlt with ⟨_, hnf, _⟩ | ⟨hip, _⟩ | ⟨_, hf, d2, h2, e⟩
  · rw [hk] at hnf; exact absurd hfit hnf
  · have := hip.1; omega
  · rw [hk] at hf h2
    have hP := growRelocated_acctPlus h9 hA hoob htail hfree h64'
    have hpos : 0 < d.rtLen * d.info.rbEntries :=
      acct_free_ne_zero hA (hfree _ (Nat.le_refl _) (Nat.le_add_right _ _))
    have hl : k < (growRelocated d k).rtLen := by
      show k < growNewSize d k / 8
      have := growNewSize_covers d k; omega
    have hkeep : ∀ j, j < d.rtLen → (growRelocated d k).rt.get j = d.rt.get j := by
      intro j hj
      show (d.rt.set d.rtLen _).get j = _
      exact FMap.get_set_other _ _ _ _ (by omega)
    rw [ensureRefblockIn_eq, if_neg (not_not_intro hl)] at h2
    by_cases hkl : k = d.rtLen
    · -- the entry of the index is the one the relocation wrote
      have hnz : RT.isZero ((growRelocated d k).rt.get k) = false := by
        show RT.isZero ((d.rt.set d.rtLen _).get k) = false
        rw [hkl, FMap.get_set_same]
        exact rt_isZero_ofNat (cluster_mul_mod512 d h9 _) h64' (Nat.mul_pos hpos hcs)
      rw [if_neg (by rw [hnz]; simp)] at h2
      simp only [Prod.mk.injEq, and_true] at h2
      subst h2
      refine ⟨_, e, hP, rfl, rfl, rfl, rfl, hkeep, by rw [hnz]; simp, ?_⟩
      intro c
      show (growRc d.rc _ _).get c = _
      rw [growRc_get, hkl]
      by_cases hc : d.rtLen * d.info.rbEntries ≤ c ∧ c ≤ d.rtLen * d.info.rbEntries + growNewCl d d.rtLen
      · rw [if_pos (by omega), if_pos (Or.inl hc)]
      · rw [if_neg (by omega), if_neg (by omega)]
    · have hz : RT.isZero ((growRelocated d k).rt.get k) = true := by
        show RT.isZero ((d.rt.set d.rtLen _).get k) = true
        rw [FMap.get_set_other _ _ _ _ (fun x => hkl x.symm), htail k (by omega)]
        exact rt_isZero_zero'
      rw [if_pos hz] at h2
      simp only [Prod.mk.injEq, and_true] at h2
      subst h2
      refine ⟨_, e, ?_, rfl, rfl, rfl, rfl, ?_, ?_, ?_⟩
      · rw [withRefblockAt_eq]
        apply acctPlus_withRefblock (d := growRelocated d k) h9 hP hl hz ?_ h64
        -- the refblock of `k` lies behind the new table
        show (growRc d.rc (d.rtLen * d.info.rbEntries) (growNewCl d k + 1)).get (k * d.info.rbEntries) = 0
        rw [growRc_get, if_neg, hfree2 hkl]
        have h1 := hf.1
        have : (d.rtLen + 1) * d.info.rbEntries ≤ k * d.info.rbEntries :=
          Nat.mul_le_mul_right _ (by omega)
        rw [Nat.add_mul, Nat.one_mul] at this
        omega
      · intro j hj
        show ((growRelocated d k).rt.set k _).get j = _
        rw [FMap.get_set_other _ _ _ _ (by omega)]
        exact hkeep j hj
      · show ¬ RT.isZero (((growRelocated d k).rt.set k _).get k) = true
        rw [FMap.get_set_same]
        have hkpos : 0 < k * d.info.rbEntries * d.info.clusterSize := by
          have : d.rtLen * d.info.rbEntries * d.info.clusterSize
              ≤ k * d.info.rbEntries * d.info.clusterSize :=
            Nat.mul_le_mul_right _ (Nat.mul_le_mul_right _ hoob)
          have := Nat.mul_pos hpos hcs
          omega
        have hnz : RT.isZero (BitVec.ofNat 64 (k * d.info.rbEntries * d.info.clusterSize)) = false :=
          rt_isZero_ofNat (cluster_mul_mod512 d h9 _) h64 hkpos
        show ¬ RT.isZero (BitVec.ofNat 64 (k * d.info.rbEntries * d.info.clusterSize)) = true
        rw [hnz]
        simp
      · intro c
        rw [withRefblockAt_eq]
        show ((growRc d.rc (d.rtLen * d.info.rbEntries) (growNewCl d k + 1)).set
          (k * d.info.rbEntries) 1).get c = _
        rw [FMap.get_set, growRc_get]
        by_cases hc : k * d.info.rbEntries = c
        · rw [if_pos hc, if_pos (Or.inr hc.symm)]
        · rw [if_neg hc]
          by_cases hc2 : d.rtLen * d.info.rbEntries ≤ c ∧ c ≤ d.rtLen * d.info.rbEntries + growNewCl d k
          · rw [if_pos (by omega), if_pos (Or.inl hc2)]
          · rw [if_neg (by omega), if_neg (by omega)]

end Qv.Model
