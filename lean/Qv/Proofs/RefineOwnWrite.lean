import Qv.Proofs.RefineDiscard
/-
Helper lemmas for `Qv/Props/C01RefineMore.lean`: a write keeps the ownership link between
the device model and the flat disk (`OwnLink`).  `Qv.Spec.Flat.write` marks exactly the
clusters the request touches as owned; on the device these are exactly the clusters whose
L2 entry can change (and they are data-file mapped afterwards), every other entry is
untouched (`Outside`).  The frame is proved along the mapping functions of the write path,
with the step lemmas of `RefineWrite(Multi).lean` supplying the invariant of the
intermediate states.
-/
namespace Qv.Proofs.RefineDiscard
open Qv Qv.Codec Qv.Model
open Qv.Props.C15 (Geom)
open Qv.Props.C11 (L1Distinct)
open Qv.Props.C01Refine (WF)
open Qv.Spec (Flat)

/-- the entries of guest offsets outside `[a, b)` are unchanged -/
def Outside (a b : Nat) (D D' : Dev) : Prop :=
  D'.info = D.info ∧ ∀ o, (o < a ∨ b ≤ o) → D'.l2Entry o = D.l2Entry o

theorem Outside.refl (a b : Nat) (D : Dev) : Outside a b D D := ⟨rfl, fun _ _ => rfl⟩

theorem Outside.trans {a b : Nat} {x y z : Dev} (h1 : Outside a b x y) (h2 : Outside a b y z) :
    Outside a b x z :=
  ⟨h2.1.trans h1.1, fun o ho => (h2.2 o ho).trans (h1.2 o ho)⟩

theorem Outside.of_viewStep {a b : Nat} {D D' : Dev} (v : RW.ViewStep D D') : Outside a b D D' :=
  ⟨v.info, fun o _ => v.l2 o⟩

/-- an offset outside the aligned range `[a, b)` is in another cluster than any offset inside -/
theorem cluster_ne_of_outside {cs a b o this : Nat} (hcs : 0 < cs) (ha : a % cs = 0) (hb : b % cs = 0)
    (hin : a ≤ this ∧ this < b) (ho : o < a ∨ b ≤ o) : o / cs ≠ this / cs := by
  intro h
  have := RW.same_cluster_lt hcs h.symm ha hb hin
  omega

/-- setting the entry of `this` (its L2 table exists, L1 slots do not alias) changes no
    entry of another cluster -/
theorem setL2_other {D D2 : Dev} {this : Nat} {e : E64} (hD : L1Distinct D)
    (hl1 : L1.isZero (D.l1Entry this) = false)
    (hi : D2.info = D.info) (h1 : D2.l1 = D.l1) (hlen : D2.l1Len = D.l1Len)
    (h2 : D2.l2 = (D.setL2 this e).l2) (o : Nat)
    (ho : o / D.info.clusterSize ≠ this / D.info.clusterSize) : D2.l2Entry o = D.l2Entry o :=
  (l2Entry_setL2_distinct hD hl1 hi h1 hlen h2).2 o (RW.index_ne_of_cluster_ne D.info ho)

/-- `allocate_clusters` does not touch the view, whatever it returns -/
theorem alloc_view {count : Nat} {d d1 : Dev} {r : Outcome (Option (Nat × Nat))}
    (h : allocateClusters count d = (d1, r)) :
    d1.info = d.info ∧ d1.l1 = d.l1 ∧ d1.l1Len = d.l1Len ∧ d1.l2 = d.l2 ∧ d.rtLen ≤ d1.rtLen := by
  obtain ⟨⟨a1, a2, _, _, _, _, a7, a8, _, a10, _⟩, _, _⟩ :=
    Qv.Props.C01Model.allocateClusters_frame count d d1 r h
  exact ⟨a7, a1, a8, a2, a10⟩

/-! ### the mapping loop -/

theorem mapRun_outside (a b cstart ccnt stop : Nat) (i : Info)
    (ha : a % i.clusterSize = 0) (hb : b % i.clusterSize = 0) (hsb : stop ≤ b) (fuel : Nat) :
    ∀ this idx acc (D D' : Dev) r, D.info = i → L1Distinct D → a ≤ this →
      (∀ o, this ≤ o → o < stop → L1.isZero (D.l1Entry o) = false) →
      mapRun cstart ccnt stop fuel this idx acc D = (D', r) → Outside a b D D' := by
  have hcs := cs_pos i
  induction fuel with
  | zero =>
    intro this idx acc D D' r _ _ _ _ h
    simp only [mapRun, M.pure, Prod.mk.injEq] at h
    rw [← h.1]; exact Outside.refl _ _ _
  | succ fuel ih =>
    intro this idx acc D D' r hi hD hat hl1 h
    subst hi
    rw [RW.mapRun_succ] at h
    by_cases hlt : this < stop
    · rw [if_neg (not_not_intro hlt)] at h
      by_cases hneed : needMakeMapping D.info (D.mapping this) = true
      · rw [if_pos hneed] at h
        dsimp only at h
        generalize hd2 : RW.mappedAt D this (cstart + idx * D.info.clusterSize) = d2 at h
        have hm : RW.MapOne D d2 this (cstart + idx * D.info.clusterSize) := by
          rw [← hd2]; exact RW.mappedAt_mapOne D this _
        have o2 : Outside a b D d2 := by
          refine ⟨hm.info, fun o ho => ?_⟩
          exact setL2_other hD (hl1 this (Nat.le_refl _) hlt) hm.info hm.l1 hm.l1Len hm.l2 o
            (cluster_ne_of_outside hcs ha hb ⟨hat, by omega⟩ ho)
        by_cases hdone : idx + 1 ≥ ccnt
        · rw [if_pos hdone] at h
          simp only [Prod.mk.injEq] at h
          rw [← h.1]; exact o2
        · rw [if_neg hdone, ← hm.info] at h
          have := ih (this + d2.info.clusterSize) (idx + 1) _ d2 D' r hm.info
            (l1Distinct_congr hm.info hm.l1 hm.l1Len hD) (by omega)
            (fun o o1 o2 => by
              rw [RW.l1Entry_congr_fields hm.info hm.l1 hm.l1Len]
              exact hl1 o (by omega) o2) h
          exact o2.trans this
      · rw [if_neg hneed] at h
        by_cases hdone : idx ≥ ccnt
        · rw [if_pos hdone] at h
          simp only [Prod.mk.injEq] at h
          rw [← h.1]; exact Outside.refl _ _ _
        · rw [if_neg hdone] at h
          exact ih (this + D.info.clusterSize) idx _ D D' r rfl hD (by omega)
            (fun o o1 o2 => hl1 o (by omega) o2) h
    · rw [if_pos hlt] at h
      simp only [Prod.mk.injEq] at h
      rw [← h.1]; exact Outside.refl _ _ _

theorem mmTail_outside {a b start stop cstart ccnt : Nat} {i : Info} {dB d' : Dev}
    {r : Outcome (List E64 × Nat)}
    (ha : a % i.clusterSize = 0) (hb : b % i.clusterSize = 0) (hat : a ≤ start) (hsb : stop ≤ b)
    (hi : dB.info = i) (hD : L1Distinct dB)
    (hl1 : ∀ o, start ≤ o → o < mmStop i start stop → L1.isZero (dB.l1Entry o) = false)
    (h : mmTail i start stop cstart ccnt dB = (d', r)) : Outside a b dB d' := by
  unfold mmTail at h
  split at h
  · simp only [Prod.mk.injEq] at h
    rw [← h.1]; exact Outside.refl _ _ _
  · have hs : mmStop i start stop ≤ b := by
      unfold mmStop
      have := Nat.min_le_left stop (start + (i.l2SliceEntries - Split.l2SliceIndex i start) * i.clusterSize)
      omega
    have key := fun D' r' => mapRun_outside a b cstart ccnt (mmStop i start stop) i ha hb hs
      (mmN i start stop + 1) start 0 [] dB D' r' hi hD hat hl1
    generalize mapRun cstart ccnt (mmStop i start stop) (mmN i start stop + 1) start 0 [] dB = rr at key h
    rcases rr with ⟨d4, ⟨es, next, done⟩ | e | p⟩
    · have o4 := key d4 _ rfl
      dsimp only at h
      simp only [Prod.mk.injEq] at h
      rw [← h.1]
      split
      · exact ⟨o4.1, fun o ho => o4.2 o ho⟩
      · exact o4
    · simp only [Prod.mk.injEq] at h
      rw [← h.1]; exact key d4 _ rfl
    · simp only [Prod.mk.injEq] at h
      rw [← h.1]; exact key d4 _ rfl

/-! ### `__make_multiple_write_mapping` -/

theorem makeMultiple_outside {f : Flat} {a b start stop : Nat} {d d' : Dev} {es : List E64} {cnt : Nat}
    (inv : RW.MInv f a b d)
    (hstart : start % d.info.clusterSize = 0) (hstop : stop % d.info.clusterSize = 0)
    (ha : a % d.info.clusterSize = 0) (hb : b % d.info.clusterSize = 0)
    (hat : a ≤ start) (hlt : start < stop) (hsb : stop ≤ b)
    (hsv : stop < d.info.vsize + d.info.clusterSize)
    (h : makeMultiple start stop d = (d', .ok (es, cnt))) (hng : d'.rtLen = d.rtLen) :
    Outside a b d d' := by
  have hcs := cs_pos d.info
  have hov : start < d.info.vsize := RW.aligned_lt_vsize hstart hstop hlt hsv
  rw [makeMultiple_eq] at h
  have hmA := (RW.ensureL2_mono start).le d
  generalize hen : ensureL2 start d = rA at h hmA
  obtain ⟨dA, (_ | e | p)⟩ := rA
  · dsimp only at h hmA
    -- everything after `ensure_l2_offset` keeps or grows the reftable
    have hAle : dA.rtLen ≤ d'.rtLen := by
      split at h
      · simp only [Prod.mk.injEq] at h; rw [← h.1]; exact Nat.le_refl _
      · generalize hal : allocateClusters (mmNeed dA start stop) dA = rB at h
        obtain ⟨dB, ((_ | ⟨cstart, ccnt⟩) | e | p)⟩ := rB
        · dsimp only at h
          have l1 := (alloc_view hal).2.2.2.2
          generalize hal2 : allocateClusters 1 dB = rC at h
          obtain ⟨dC, ((_ | ⟨cstart, ccnt⟩) | e | p)⟩ := rC
          · simp at h
          · dsimp only at h
            have l2 := (alloc_view hal2).2.2.2.2
            have := mmTail_rtLen dA.info start stop cstart ccnt dC
            rw [h] at this
            dsimp only at this
            omega
          · simp at h
          · simp at h
        · dsimp only at h
          have l1 := (alloc_view hal).2.2.2.2
          have := mmTail_rtLen dA.info start stop cstart ccnt dB
          rw [h] at this
          dsimp only at this
          omega
        · simp at h
        · simp at h
    obtain ⟨vA, tA, hl1A⟩ := RW.ensureL2_step inv.st inv.tab inv.map hov hen (by omega)
    have oA : Outside a b d dA := Outside.of_viewStep vA
    have hi : dA.info = d.info := vA.info
    have hslice : ∀ o, start ≤ o → o < mmStop dA.info start stop →
        L1.isZero (dA.l1Entry o) = false := by
      intro o o1 o2
      have hx : Split.l1Index d.info o = Split.l1Index d.info start := by
        apply RW.l1Index_in_slice inv.st.geom start o hstart o1
        unfold mmStop at o2
        rw [hi] at o2
        have := Nat.min_le_right stop
          (start + (d.info.l2SliceEntries - Split.l2SliceIndex d.info start) * d.info.clusterSize)
        omega
      have : dA.l1Entry o = dA.l1Entry start := by
        unfold Dev.l1Entry; rw [hi, hx]
      rw [this]; exact hl1A
    -- the tail after an allocation
    have tailB : ∀ (dB : Dev) cstart ccnt, dB.info = dA.info → dB.l1 = dA.l1 → dB.l1Len = dA.l1Len →
        dB.l2 = dA.l2 → mmTail dA.info start stop cstart ccnt dB = (d', .ok (es, cnt)) →
        Outside a b dA d' := by
      intro dB cstart ccnt b1 b2 b3 b4 ht
      have oB : Outside a b dA dB := ⟨b1, fun o _ => RW.l2Entry_congr_fields b1 b2 b3 b4 o⟩
      refine oB.trans (mmTail_outside (i := dA.info) (by rw [hi]; exact ha) (by rw [hi]; exact hb) hat hsb b1
        (l1Distinct_congr b1 b2 b3 tA.distinct) ?_ ht)
      intro o o1 o2
      rw [RW.l1Entry_congr_fields b1 b2 b3]
      exact hslice o o1 o2
    split at h
    · simp only [Prod.mk.injEq] at h; rw [← h.1]; exact oA
    · generalize hal : allocateClusters (mmNeed dA start stop) dA = rB at h
      obtain ⟨dB, ((_ | ⟨cstart, ccnt⟩) | e | p)⟩ := rB
      · dsimp only at h
        obtain ⟨b1, b2, b3, b4, _⟩ := alloc_view hal
        generalize hal2 : allocateClusters 1 dB = rC at h
        obtain ⟨dC, ((_ | ⟨cstart, ccnt⟩) | e | p)⟩ := rC
        · simp at h
        · dsimp only at h
          obtain ⟨c1, c2, c3, c4, _⟩ := alloc_view hal2
          exact oA.trans (tailB dC cstart ccnt (c1.trans b1) (c2.trans b2) (c3.trans b3) (c4.trans b4) h)
        · simp at h
        · simp at h
      · dsimp only at h
        obtain ⟨b1, b2, b3, b4, _⟩ := alloc_view hal
        exact oA.trans (tailB dB cstart ccnt b1 b2 b3 b4 h)
      · simp at h
      · simp at h
  · simp at h
  · simp at h

/-! ### `make_multiple_write_mappings` -/

theorem makeMultiples_outside (f : Flat) (a b stop : Nat) (i : Info)
    (hstop : stop % i.clusterSize = 0) (ha : a % i.clusterSize = 0) (hb : b % i.clusterSize = 0)
    (hsb : stop ≤ b) (hsv : stop < i.vsize + i.clusterSize) (fuel : Nat) :
    ∀ start m acc (d d' : Dev) es, d.info = i → RW.MInv f a b d → start % i.clusterSize = 0 → a ≤ start →
      stop = start + m * i.clusterSize → m ≤ fuel →
      makeMultiples stop fuel start acc d = (d', .ok es) → d'.rtLen = d.rtLen → Outside a b d d' := by
  have hcs := cs_pos i
  induction fuel with
  | zero =>
    intro start m acc d d' es _ inv _ _ _ hm h _
    simp only [makeMultiples, M.pure, Prod.mk.injEq, Outcome.ok.injEq] at h
    rw [← h.1]; exact Outside.refl _ _ _
  | succ fuel ih =>
    intro start m acc d d' es hi inv hstart hat hm hmf h hng
    subst hi
    rw [RW.makeMultiples_succ] at h
    by_cases hlt : start < stop
    · rw [if_neg (not_not_intro hlt)] at h
      have hmpos : 0 < m := by
        rcases Nat.eq_zero_or_pos m with h0 | h0
        · rw [h0] at hm; omega
        · exact h0
      by_cases hneed : needMakeMapping d.info (d.mapping start) = true
      · rw [if_pos hneed] at h
        have hm1 := (RW.makeMultiple_mono start stop).le d
        generalize hmm : makeMultiple start stop d = r at h hm1
        obtain ⟨d1, (⟨es1, done⟩ | e | p)⟩ := r
        · dsimp only at h hm1
          by_cases hd0 : done = 0
          · rw [if_pos hd0] at h; simp at h
          · rw [if_neg hd0] at h
            have hm2 := (RW.makeMultiples_mono stop fuel (start + done * d.info.clusterSize) (acc ++ es1)).of_eq h
            obtain ⟨inv1, _, hk1, hle1⟩ := RW.makeMultiple_step inv hstart hstop ha hb hat hlt hsb hsv hmm
              (by omega)
            have o1 := makeMultiple_outside inv hstart hstop ha hb hat hlt hsb hsv hmm (by omega)
            have hdm : done ≤ m := by
              rw [hm] at hle1
              exact Nat.le_of_mul_le_mul_right (by omega) hcs
            have hstart' : (start + done * d.info.clusterSize) % d.info.clusterSize = 0 := by
              rw [Nat.add_mul_mod_self_right]; exact hstart
            have hm' : stop = start + done * d.info.clusterSize + (m - done) * d.info.clusterSize := by
              rw [Nat.add_assoc, ← Nat.add_mul, hm]; congr 2; omega
            have o2 := ih (start + done * d.info.clusterSize) (m - done) (acc ++ es1) d1 d' es hk1.1 inv1 hstart'
                (by omega) hm' (by omega) h (by omega)
            exact o1.trans o2
        · simp at h
        · simp at h
      · rw [if_neg hneed] at h
        have hstart' : (start + d.info.clusterSize) % d.info.clusterSize = 0 := by
          rw [Nat.add_mod_right]; exact hstart
        have hm' : stop = start + d.info.clusterSize + (m - 1) * d.info.clusterSize := by
          rw [hm, Nat.add_assoc]; congr 1
          rw [Nat.sub_mul, Nat.one_mul]
          have : d.info.clusterSize ≤ m * d.info.clusterSize := Nat.le_mul_of_pos_left _ hmpos
          omega
        exact ih (start + d.info.clusterSize) (m - 1) (acc ++ [d.l2Entry start]) d d' es rfl inv hstart'
            (by omega) hm' (by omega) h hng
    · rw [if_pos hlt] at h
      simp only [Prod.mk.injEq, Outcome.ok.injEq] at h
      rw [← h.1]; exact Outside.refl _ _ _

/-! ### `populate_single_write_mapping` -/

theorem populateSingle_outside {d d1 : Dev} {f : Flat} {a b off : Nat} {e : E64} (i : RW.MInv f a b d)
    (hov : off < d.info.vsize)
    (ha : a % d.info.clusterSize = 0) (hb : b % d.info.clusterSize = 0) (hab : a ≤ off ∧ off < b)
    (h : populateSingle off d = (d1, .ok e)) (hng : d1.rtLen = d.rtLen) : Outside a b d d1 := by
  have hcs := cs_pos d.info
  rw [RW.populateSingle_eq] at h
  by_cases hneed : needMakeMapping d.info (d.mapping off) = true
  · rw [if_pos hneed, RW.makeSingle_eq] at h
    have hmono := RW.ensureL2_rtLen off d
    generalize hen : ensureL2 off d = r at h hmono
    obtain ⟨dA, (_ | e' | p)⟩ := r
    · dsimp only at h hmono
      by_cases hpl : (L2.plainOffset (dA.mapping off) 0).isNone = true
      · rw [if_pos hpl] at h
        have hmono2 := RW.allocAndMap_rtLen off dA
        generalize hamap : allocAndMap off dA = r2 at h hmono2
        obtain ⟨dB, (_ | e' | p)⟩ := r2
        · dsimp only at h hmono2
          simp only [Prod.mk.injEq, Outcome.ok.injEq] at h
          obtain ⟨h1, _⟩ := h
          have hB : dB.rtLen = d1.rtLen := by rw [← h1]
          obtain ⟨vA, tA, hl1A⟩ := RW.ensureL2_step i.st i.tab i.map hov hen (by omega)
          have oA : Outside a b d dA := Outside.of_viewStep vA
          rw [RW.allocAndMap_eq] at hamap
          generalize hal : allocateClusters 1 dA = ra at hamap
          obtain ⟨dC, ((_ | ⟨h0, n⟩) | e | p)⟩ := ra
          · simp at hamap
          · dsimp only at hamap
            simp only [Prod.mk.injEq, and_true] at hamap
            obtain ⟨c1, c2, c3, c4, _⟩ := alloc_view hal
            have oC : Outside a b dA dC := ⟨c1, fun o _ => RW.l2Entry_congr_fields c1 c2 c3 c4 o⟩
            have hl1C : L1.isZero (dC.l1Entry off) = false := by
              rw [RW.l1Entry_congr_fields c1 c2 c3]; exact hl1A
            have oB : Outside a b dC dB := by
              rw [← hamap]
              refine ⟨rfl, fun o ho => ?_⟩
              have hm := RW.mappedAt_mapOne dC off h0
              show (RW.mappedAt dC off h0).l2Entry o = dC.l2Entry o
              apply setL2_other (l1Distinct_congr c1 c2 c3 tA.distinct) hl1C hm.info hm.l1 hm.l1Len hm.l2 o
              rw [c1, vA.info]
              exact cluster_ne_of_outside hcs ha hb hab ho
            rw [← h1]
            exact (oA.trans (oC.trans oB)).trans ⟨rfl, fun _ _ => rfl⟩
          · simp at hamap
          · simp at hamap
        · simp at h
        · simp at h
      · rw [if_neg hpl] at h
        simp only [Prod.mk.injEq, Outcome.ok.injEq] at h
        obtain ⟨h1, _⟩ := h
        subst h1
        obtain ⟨vA, _, _⟩ := RW.ensureL2_step i.st i.tab i.map hov hen hng
        exact Outside.of_viewStep vA
    · simp at h
    · simp at h
  · rw [if_neg hneed] at h
    simp only [Prod.mk.injEq, Outcome.ok.injEq] at h
    rw [← h.1]; exact Outside.refl _ _ _

/-! ### `__write_at` -/

/-- what an accepted, successful write that does not grow the reftable does to the L2
    entries: entries of clusters the request does not touch are unchanged; the touched
    clusters (inside the virtual disk) are data-file mapped afterwards -/
def WriteFrame (d d' : Dev) (off len : Nat) : Prop :=
  (∀ o, (o / d.info.clusterSize < off / d.info.clusterSize ∨
      (off + len - 1) / d.info.clusterSize < o / d.info.clusterSize) → d'.l2Entry o = d.l2Entry o) ∧
  (∀ o, o < d.info.vsize → off / d.info.clusterSize ≤ o / d.info.clusterSize →
      o / d.info.clusterSize ≤ (off + len - 1) / d.info.clusterSize → (d'.mapping o).source = .dataFile)

theorem write_single_frame (d d' : Dev) (f : Flat) (off len : Nat) (toks : List Nat)
    (wf : WF d) (hr : Refines d f)
    (hc : writeCheck d.info off len = none) (hl : len ≠ 0)
    (hsingle : off / d.info.clusterSize = (off + len - 1) / d.info.clusterSize)
    (htoks : toks.length = len / 512)
    (hw : writeAt off len toks d = (d', .ok ())) (hng : d'.rtLen = d.rtLen) :
    WriteFrame d d' off len := by
  have hcs := cs_pos d.info
  obtain ⟨hv, hlb, hob, _⟩ := writeCheck_none hc
  have ho512 := Qv.Props.C01Refine.mod512_of_mod_bs wf.st.bsb9 hob
  have hl512 := Qv.Props.C01Refine.mod512_of_mod_bs wf.st.bsb9 hlb
  have hfit := single_cluster_fits hcs hsingle
  unfold writeAt at hw
  dsimp only at hw
  rw [hc] at hw
  dsimp only at hw
  rw [if_neg hl, if_pos hsingle] at hw
  generalize hps : populateSingle off d = r at hw
  obtain ⟨d1, (e | e | p)⟩ := r
  · dsimp only at hw
    have hm1 := (RW.populateSingle_mono off).of_eq hps
    have hm2 := (RW.doWrite_mono e off toks).of_eq hw
    generalize hrd : off / d.info.clusterSize * d.info.clusterSize = rd
    have hrdal : rd % d.info.clusterSize = 0 := by rw [← hrd]; exact Nat.mul_mod_left _ _
    have hrdal' : (rd + d.info.clusterSize) % d.info.clusterSize = 0 := by
      rw [Nat.add_mod_right]; exact hrdal
    have hrd1 : rd ≤ off := by rw [← hrd]; exact Nat.div_mul_le_self _ _
    have hrd2 : off < rd + d.info.clusterSize := by rw [← hrd]; exact Arith.lt_round_down_add off _ hcs
    have minv := wf.mInv hr rd (rd + d.info.clusterSize)
    obtain ⟨inv1, hi1, he, ho, hp⟩ := RW.populateSingle_step minv
      (by omega) hrdal hrdal' ⟨hrd1, hrd2⟩ hps (by omega)
    have out1 := populateSingle_outside minv (by omega) hrdal hrdal' ⟨hrd1, hrd2⟩ hps (by omega)
    obtain ⟨D', hw', hfr, _, _⟩ := RW.doWrite_piece (f := f) (toks := toks) inv1.st inv1.map ho512
      (by rw [hi1]; omega) (by rw [hi1]; omega) hp inv1.ref
    rw [← he, hw] at hw'
    simp only [Prod.mk.injEq, and_true] at hw'
    subst hw'
    obtain ⟨hs1, _, _⟩ := plainOffset_some hp
    refine ⟨?_, ?_⟩
    · intro o ho'
      rw [hfr.l2Entry]
      apply out1.2
      rw [← hsingle] at ho'
      rcases ho' with h1 | h1
      · left
        rw [← hrd]
        exact (Nat.div_lt_iff_lt_mul hcs).1 h1
      · right
        have := (Nat.le_div_iff_mul_le hcs).1 (Nat.succ_le_of_lt h1)
        rw [Nat.succ_mul, hrd] at this
        exact this
    · intro o _ h1 h2
      rw [← hsingle] at h2
      have hoc : o / d.info.clusterSize = off / d.info.clusterSize := by omega
      rw [hfr.mapping, mapping_congr d1 (a := o) (b := off) (by rw [hi1]; exact hoc)]
      exact hs1
  · simp at hw
  · simp at hw

theorem write_multi_frame (d d' : Dev) (f : Flat) (off len : Nat) (toks : List Nat)
    (wf : WF d) (hr : Refines d f)
    (hc : writeCheck d.info off len = none) (hl : len ≠ 0)
    (hmulti : ¬ off / d.info.clusterSize = (off + len - 1) / d.info.clusterSize)
    (htoks : toks.length = len / 512)
    (hw : writeAt off len toks d = (d', .ok ())) (hng : d'.rtLen = d.rtLen) :
    WriteFrame d d' off len := by
  have hcs := cs_pos d.info
  obtain ⟨hv, hlb, hob, _⟩ := writeCheck_none hc
  have ho512 := Qv.Props.C01Refine.mod512_of_mod_bs wf.st.bsb9 hob
  have hl512 := Qv.Props.C01Refine.mod512_of_mod_bs wf.st.bsb9 hlb
  have h512 : d.info.clusterSize % 512 = 0 := by have := RW.cs512 wf.st; omega
  have hlast : (off + len + d.info.clusterSize - 1) / d.info.clusterSize =
      (off + len - 1) / d.info.clusterSize + 1 := by
    rw [show off + len + d.info.clusterSize - 1 = off + len - 1 + d.info.clusterSize by omega,
      Nat.add_div_right _ hcs]
  unfold writeAt at hw
  dsimp only at hw
  rw [hc] at hw
  dsimp only at hw
  rw [if_neg hl, if_neg hmulti] at hw
  unfold Info.clusterRoundDown at hw
  obtain ⟨a1, a2, a3, a4, a5, a6, a7⟩ := Qv.Props.C01Refine.multi_arith (off := off) (len := len) hcs
  generalize hstart : off / d.info.clusterSize * d.info.clusterSize = start at *
  generalize hstop : (off + len + d.info.clusterSize - 1) / d.info.clusterSize * d.info.clusterSize = stop at *
  generalize hn : (stop - start) / d.info.clusterSize = n at *
  generalize hmm : makeMultiples stop (n + 1) start [] d = r at hw
  obtain ⟨d1, (es | e | p)⟩ := r
  · dsimp only at hw
    have hm1 := (RW.makeMultiples_mono stop (n + 1) start []).of_eq hmm
    generalize hdw : doWrites (pieces d.info.clusterSize (n + 1) off len) es toks d1 = r2 at hw
    obtain ⟨d2, (_ | e | p)⟩ := r2
    · dsimp only at hw
      simp only [Prod.mk.injEq, and_true] at hw
      subst hw
      have hm2 := (RW.doWrites_mono _ es toks).of_eq hdw
      have minv := wf.mInv hr start stop
      obtain ⟨es', he, inv1, hent, hk⟩ := RW.makeMultiples_step f start stop stop d.info a2 a1 a2 (Nat.le_refl _)
        (by omega) (n + 1) start n [] d d1 es rfl minv a1 (Nat.le_refl _) a4 (by omega)
        hmm (by omega)
      have out1 := makeMultiples_outside f start stop stop d.info a2 a1 a2 (Nat.le_refl _)
        (by omega) (n + 1) start n [] d d1 es rfl minv a1 (Nat.le_refl _) a4 (by omega)
        hmm (by omega)
      rw [List.nil_append] at he
      subst he
      have hi1 : d1.info = d.info := hk.1
      obtain ⟨D', hw', hfr, _, _⟩ := RW.doWrites_step d.info (n + 1) off len n toks es d1 f hi1
        inv1.st inv1.map inv1.ref ho512 hl512 hl hv htoks
        (by rw [Nat.add_mul, Nat.one_mul]; omega) a7 a6
        (by rw [hstart]; exact hent)
        (by rw [hstart, ← a4]; exact inv1.new)
      rw [hdw] at hw'
      simp only [Prod.mk.injEq, and_true] at hw'
      subst hw'
      refine ⟨?_, ?_⟩
      · intro o ho'
        rw [hfr.l2Entry]
        apply out1.2
        rcases ho' with h1 | h1
        · left
          rw [← hstart]
          exact (Nat.div_lt_iff_lt_mul hcs).1 h1
        · right
          have := (Nat.le_div_iff_mul_le hcs).1 (Nat.succ_le_of_lt h1)
          rw [← hstop, hlast]
          exact this
      · intro o hov h1 h2
        -- the cluster of `o` is cluster `j` of the walk
        have hnq : n = (off + len - 1) / d.info.clusterSize + 1 - off / d.info.clusterSize := by
          rw [← hn, ← hstop, ← hstart, ← Nat.sub_mul, Nat.mul_div_cancel _ hcs, hlast]
        have hj : o / d.info.clusterSize - off / d.info.clusterSize < n := by omega
        have hneed := hent.2 _ hj
        rw [hi1] at hneed
        have hoc : (start + (o / d.info.clusterSize - off / d.info.clusterSize) * d.info.clusterSize)
            / d.info.clusterSize = o / d.info.clusterSize := by
          rw [← hstart, ← Nat.add_mul, Nat.mul_div_cancel _ hcs]; omega
        rw [mapping_congr d1 (b := o) (by rw [hi1]; exact hoc)] at hneed
        obtain ⟨x, hx⟩ := RW.needMake_false_plain inv1.st.noBackName (inv1.map.ent o (by rw [hi1]; exact hov))
          (by rw [hi1]; exact hneed)
        rw [hfr.mapping]
        exact (plainOffset_some hx).1
    · simp at hw
    · simp at hw
  · simp at hw
  · simp at hw

theorem write_frame (d d' : Dev) (f : Flat) (off len : Nat) (toks : List Nat)
    (wf : WF d) (hr : Refines d f)
    (hc : writeCheck d.info off len = none) (hl : len ≠ 0) (htoks : toks.length = len / 512)
    (hw : writeAt off len toks d = (d', .ok ())) (hng : d'.rtLen = d.rtLen) :
    WriteFrame d d' off len := by
  by_cases hs : off / d.info.clusterSize = (off + len - 1) / d.info.clusterSize
  · exact write_single_frame d d' f off len toks wf hr hc hl hs htoks hw hng
  · exact write_multi_frame d d' f off len toks wf hr hc hl hs htoks hw hng

end Qv.Proofs.RefineDiscard
