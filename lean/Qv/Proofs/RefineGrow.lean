import Qv.Props.C01RefineMore
/-
Helper lemmas for `Qv/Props/C01History.lean`, part 1: the mapping phase of a write on top of
the accounting chain (`WInv`, C03Write), WITHOUT the hypothesis "the refcount table does not
grow" and for EVERY outcome (a failed allocation included).

The refinement chain of `RefineWrite.lean` / `RefineWriteMulti.lean` transfers the
well-formedness along a step with `RcPos` (positive refcounts stay positive) and `rtLen`
equal.  A relocation of the refcount table releases the old table's clusters, so `RcPos`
fails; here the refcount facts of `TabOK` / `MapOK` are re-derived after every allocation
from the accounting (`NoUnder`: every reference is counted), and "the run handed out is
mapped by nobody" from the surplus (`AcctPlus`) and the run's refcount 1.

New invariant `ZInv`: non-zero data lives only in host clusters that are the target of a
data-file mapping and are not marked new.  It makes the zero-once of a new cluster
invisible (a mapped cluster that is still marked new holds zeros already), which is what
allows states left behind by a write that failed midway (clusters mapped, marked new,
never written) as starting states.
-/
namespace Qv.Model.RG
open Qv Qv.Codec Qv.Model Qv.Model.RW
open Qv.Props.C15 (Geom)
open Qv.Props.C11 (L1Distinct)
open Qv.Spec (Flat)
open Qv.Proofs.RefineDiscard

/-! ## 1. `ZInv` -/

/-- non-zero data lives only in host clusters that some guest cluster inside the virtual
    disk maps to (data file) and that are no longer marked new -/
def ZInv (d : Dev) : Prop :=
  ∀ σ, d.data.get σ ≠ 0 → ∃ o h, o < d.info.vsize ∧ (d.mapping o).source = .dataFile ∧
    (d.mapping o).clusterOffset = some h ∧ h / 512 ≤ σ ∧ σ < h / 512 + d.spc ∧
    h / d.info.clusterSize ∉ d.newData

theorem aligned_sector {cs spc h : Nat} (hcs : cs = 512 * spc) (hal : h % cs = 0) :
    h / 512 = h / cs * spc := by
  subst hcs
  obtain ⟨q, rfl⟩ := Nat.dvd_of_mod_eq_zero hal
  by_cases h0 : spc = 0
  · subst h0; simp
  · rw [Nat.mul_div_cancel_left _ (by omega : 0 < 512 * spc), Nat.mul_assoc,
      Nat.mul_div_cancel_left _ (by decide : 0 < 512), Nat.mul_comm]

theorem sector_cluster_eq {spc a b k σ : Nat} (h1 : σ = a * spc + k) (hk : k < spc)
    (h2 : b * spc ≤ σ) (h3 : σ < b * spc + spc) : a = b := by
  have e1 : σ / spc = a := by
    apply Nat.div_eq_of_lt_le
    · omega
    · rw [Nat.add_mul, Nat.one_mul]; omega
  have e2 : σ / spc = b := by
    apply Nat.div_eq_of_lt_le
    · omega
    · rw [Nat.add_mul, Nat.one_mul]; omega
  omega

/-- a mapped cluster that is still marked new holds zeros -/
theorem ZInv.new_zero {d : Dev} (z : ZInv d) (st : Static d) (mo : MapOK d) {o h : Nat}
    (ho : o < d.info.vsize) (hs : (d.mapping o).source = .dataFile)
    (hco : (d.mapping o).clusterOffset = some h) (hmem : h / d.info.clusterSize ∈ d.newData)
    (k : Nat) (hk : k < d.spc) : d.data.get (h / 512 + k) = 0 := by
  apply Classical.byContradiction
  intro hne
  obtain ⟨o', h', ho', hs', hco', l1, l2, hnm⟩ := z _ hne
  obtain ⟨_, hal, _⟩ := (mo.ent o ho).2 h hs hco
  obtain ⟨_, hal', _⟩ := (mo.ent o' ho').2 h' hs' hco'
  have hcs := cs512 st
  rw [aligned_sector hcs hal'] at l1 l2
  rw [aligned_sector hcs hal] at l1 l2
  have := sector_cluster_eq rfl hk l1 l2
  rw [this] at hmem
  exact hnm hmem

/-- with `ZInv`, "mapped clusters that are still new show zeros" is the true guest view -/
theorem refinesN_of_refines_z {d : Dev} {f : Flat} (z : ZInv d) (st : Static d) (mo : MapOK d)
    (hr : Refines d f) : RefinesN d f := by
  intro s hs
  have hlt : s * 512 < d.info.vsize := by omega
  refine ⟨fun hn => ?_, fun _ => hr s hs⟩
  obtain ⟨h, hsrc, hco, hmem⟩ := hn
  rw [← hr s hs, guestSec_dataFile d s h hsrc hco]
  obtain ⟨_, hal, _⟩ := (mo.ent _ hlt).2 h hsrc hco
  have hcs := cs512 st
  have hm : s * 512 % d.info.clusterSize = 512 * (s % d.spc) := by
    rw [hcs, Nat.mul_comm s 512, Nat.mul_mod_mul_left]
  have hspc : 0 < d.spc := by
    have := cs_pos d.info; omega
  have : (h + s * 512 % d.info.clusterSize) / 512 = h / 512 + s % d.spc := by
    rw [hm]
    have h5 := mod512_of_mod_cs st.cb9 hal
    omega
  rw [this]
  exact z.new_zero st mo hlt hsrc hco hmem _ (Nat.mod_lt _ hspc)

theorem refines_of_refinesN_z {d : Dev} {f : Flat} (z : ZInv d) (st : Static d) (mo : MapOK d)
    (hr : RefinesN d f) : Refines d f := by
  intro s hs
  have hlt : s * 512 < d.info.vsize := by omega
  by_cases hn : IsNewAt d (s * 512)
  · rw [(hr s hs).1 hn]
    obtain ⟨h, hsrc, hco, hmem⟩ := hn
    rw [guestSec_dataFile d s h hsrc hco]
    obtain ⟨_, hal, _⟩ := (mo.ent _ hlt).2 h hsrc hco
    have hcs := cs512 st
    have hm : s * 512 % d.info.clusterSize = 512 * (s % d.spc) := by
      rw [hcs, Nat.mul_comm s 512, Nat.mul_mod_mul_left]
    have hspc : 0 < d.spc := by
      have := cs_pos d.info; omega
    have : (h + s * 512 % d.info.clusterSize) / 512 = h / 512 + s % d.spc := by
      rw [hm]
      have h5 := mod512_of_mod_cs st.cb9 hal
      omega
    rw [this]
    exact z.new_zero st mo hlt hsrc hco hmem _ (Nat.mod_lt _ hspc)
  · exact (hr s hs).2 hn

/-! ## 2. the invariant of the mapping phase, and its transfer along view-preserving steps -/

/-- the raw L1 map holds nothing behind the RAM table (`ensure_l2_offset` only writes slots
    inside it); needed when a reopen re-sizes the RAM table -/
def L1Q (d : Dev) : Prop :=
  d.l1HdrEntries ≤ d.l1Len ∧ ∀ i, d.l1Len ≤ i → L1.isZero (d.l1.get i) = true

/-- the invariant of the mapping phase of a write: `f` is the flat disk before the write -/
structure GInv (f : Flat) (D : Dev) : Prop where
  st : Static D
  tab : TabOK D
  map : MapOK D
  ref : RefinesN D f
  z : ZInv D
  q : L1Q D

/-- a step that changes nothing the guest view depends on -/
structure VFrame (d d' : Dev) : Prop where
  info : d'.info = d.info
  data : d'.data = d.data
  newData : d'.newData = d.newData
  back : d'.back = d.back
  comp : d'.comp = d.comp
  l1Len : d'.l1Len = d.l1Len
  l2 : ∀ o, d'.l2Entry o = d.l2Entry o

theorem VFrame.refl (d : Dev) : VFrame d d := ⟨rfl, rfl, rfl, rfl, rfl, rfl, fun _ => rfl⟩

theorem VFrame.trans {a b c : Dev} (h1 : VFrame a b) (h2 : VFrame b c) : VFrame a c :=
  ⟨h2.info.trans h1.info, h2.data.trans h1.data, h2.newData.trans h1.newData, h2.back.trans h1.back,
   h2.comp.trans h1.comp, h2.l1Len.trans h1.l1Len, fun o => (h2.l2 o).trans (h1.l2 o)⟩

theorem VFrame.mapping {d d' : Dev} (v : VFrame d d') (o : Nat) : d'.mapping o = d.mapping o :=
  mapping_of_l2Entry v.info (v.l2 o)

theorem VFrame.of_growFrame {d d' : Dev} (h : GrowFrame d d') : VFrame d d' := by
  obtain ⟨_, _, _, _, _, _, _, rfl⟩ := h
  exact ⟨rfl, rfl, rfl, rfl, rfl, rfl, fun _ => rfl⟩

theorem GrowFrame.l1Entry {d d' : Dev} (h : GrowFrame d d') (o : Nat) : d'.l1Entry o = d.l1Entry o := by
  obtain ⟨_, _, _, _, _, _, _, rfl⟩ := h; rfl

theorem VFrame.keeps {d d' : Dev} (v : VFrame d d') : Keeps d d' := ⟨v.info, fun o _ => v.l2 o⟩

theorem ZInv.of_vframe {d d' : Dev} (v : VFrame d d') (z : ZInv d) : ZInv d' := by
  intro σ hσ
  rw [v.data] at hσ
  obtain ⟨o, h, a1, a2, a3, a4, a5, a6⟩ := z σ hσ
  refine ⟨o, h, by rw [v.info]; exact a1, by rw [v.mapping]; exact a2, by rw [v.mapping]; exact a3, a4, ?_, ?_⟩
  · unfold Dev.spc at a5 ⊢; rw [v.info]; exact a5
  · rw [v.info, v.newData]; exact a6

/-- every L2 table reachable from the L1 table is referenced -/
theorem refs_l2_pos {d : Dev} (s : Shape d) (o : Nat) (h : L1.isZero (d.l1Entry o) = false) :
    1 ≤ d.refs ((L1.l2Offset (d.l1Entry o)).toNat / d.info.clusterSize) := by
  have hidx : Split.l1Index d.info o < d.hdrL1Entries := by
    apply Classical.byContradiction
    intro hc
    have := s.l1tail (Split.l1Index d.info o) (by omega)
    rw [← d.l1Entry_eq, h] at this
    cases this
  have hle : pointsTo d.cs (L1.l2Offset (d.l1At (Split.l1Index d.info o))).toNat
      ((L1.l2Offset (d.l1Entry o)).toNat / d.info.clusterSize) ≤
      d.refsL2Tables ((L1.l2Offset (d.l1Entry o)).toNat / d.info.clusterSize) :=
    le_sumTo (n := d.hdrL1Entries)
      (f := fun i => pointsTo d.cs (L1.l2Offset (d.l1At i)).toNat
        ((L1.l2Offset (d.l1Entry o)).toNat / d.info.clusterSize)) hidx
  have hne : (L1.l2Offset (d.l1Entry o)).toNat ≠ 0 := by
    intro h0
    have : L1.l2Offset (d.l1Entry o) = 0#64 := BitVec.eq_of_toNat_eq (by rw [h0]; rfl)
    unfold L1.isZero at h
    simp [this] at h
  have hp : pointsTo d.cs (L1.l2Offset (d.l1Entry o)).toNat
      ((L1.l2Offset (d.l1Entry o)).toNat / d.info.clusterSize) = 1 := by
    unfold pointsTo
    rw [if_pos ⟨hne, rfl⟩]
  rw [← d.l1Entry_eq, hp] at hle
  unfold Dev.refs
  omega

/-- … and every data cluster mapped inside the virtual disk -/
theorem refs_data_pos {d : Dev} (s : Shape d) {o h : Nat} (ho : o < d.info.vsize)
    (hs : (d.mapping o).source = .dataFile) (hco : (d.mapping o).clusterOffset = some h) :
    1 ≤ d.refs (h / d.info.clusterSize) := by
  obtain ⟨_, _, c3, c4⟩ := mapping_dataFile_entry hs
  rw [hco] at c3
  injection c3 with c3
  rw [← c3] at c4
  exact refs_ge_of_allocation s.geo (s.l1cov o ho) c4 ⟨Nat.le_refl _, by omega⟩

theorem refs_hdr_pos (d : Dev) : 1 ≤ d.refs 0 := by
  unfold Dev.refs Dev.refsHeader
  rw [if_pos rfl]
  omega

/-- **transfer of the invariant** along a step that keeps the view, into a state whose
    refcounts count every reference (`NoUnder`) — whatever happened to the refcount table -/
theorem GInv.of_vframe {f : Flat} {d d' : Dev} (i : GInv f d) (v : VFrame d d') (s' : Shape d')
    (nu : NoUnder d') (hq : L1Q d') : GInv f d' := by
  have hst : Static d' := by
    obtain ⟨a1, a2, a3, a4, a5, a6, a7, _, a9⟩ := i.st
    refine ⟨?_, ?_, ?_, ?_, ?_, ?_, ?_, s'.cap56, ?_⟩
    · rw [v.info]; exact a1
    · rw [v.info]; exact a2
    · rw [v.info]; exact a3
    · rw [v.info]; exact a4
    · rw [v.info]; exact a5
    · rw [v.info]; exact a6
    · rw [v.back]; exact a7
    · rw [v.info, v.l1Len]; exact a9
  refine ⟨hst, ⟨s'.l1d, ?_⟩, ⟨?_, mapInj_transfer v.info (fun o _ => v.l2 o) i.map.inj, ?_⟩,
    refinesN_transfer v.info v.data v.newData v.back v.comp (fun o _ => v.l2 o) i.ref, i.z.of_vframe v, hq⟩
  · intro o ho
    exact Nat.le_trans (refs_l2_pos s' o ho) (nu _)
  · intro o ho
    have ho' : o < d.info.vsize := by rw [← v.info]; exact ho
    obtain ⟨e1, e2⟩ := i.map.ent o ho'
    unfold EntOK
    refine ⟨by rw [v.mapping]; exact e1, fun h hs hco => ?_⟩
    have hrc := Nat.le_trans (refs_data_pos s' ho hs hco) (nu _)
    rw [v.mapping] at hs hco
    obtain ⟨x1, x2, _⟩ := e2 h hs hco
    rw [v.mapping, v.info]
    rw [v.info] at hrc
    exact ⟨x1, x2, hrc⟩
  · have := Nat.le_trans (refs_hdr_pos d') (nu 0)
    omega

theorem noUnder_of_acct {d : Dev} (h : Acct d) : NoUnder d := fun c => by rw [h c]; exact Nat.le_refl _

theorem GInv.of_vframe_winv {f : Flat} {d d' : Dev} (i : GInv f d) (v : VFrame d d') (w' : WInv d')
    (hq : L1Q d') : GInv f d' := i.of_vframe v w'.shape (noUnder_of_acct w'.acct) hq

/-! ## 3. the allocator, growth included -/

/-- **`allocate_clusters(count)` on a state satisfying the invariants, any outcome, the
    refcount table may grow** (`Cap d1`: it still describes host offsets below 2^56): the
    view is unchanged and the invariant of the mapping phase is kept; a returned run is
    aligned, non-empty, below 2^56, mapped by nobody, and its clusters have refcount 1. -/
theorem alloc_g {f : Flat} {count : Nat} {d d1 : Dev} {r : Outcome (Option (Nat × Nat))}
    (w : WInv d) (i : GInv f d) (h0 : count ≠ 0)
    (ha : allocateClusters count d = (d1, r)) (hc : Cap d1) :
    GInv f d1 ∧ VFrame d d1 ∧ APost count (d1, r) ∧ d1.hdrL1Entries = d.hdrL1Entries ∧
    (∀ h n, r = .ok (some (h, n)) → RunOK d1 h n 0) := by
  obtain ⟨post, fr⟩ := allocateClusters_acct w h0 ha hc
  have v := VFrame.of_growFrame fr
  have hn : d1.hdrL1Entries = d.hdrL1Entries := by
    obtain ⟨_, _, _, _, _, _, _, rfl⟩ := fr; rfl
  have nu : NoUnder d1 := by
    obtain ⟨_, _, p⟩ := post
    rcases r with (_ | ⟨o, n⟩) | e | p'
    · exact noUnder_of_acct p
    · exact p.1.noUnder
    · exact noUnder_of_acct p
    · exact p.elim
  have hq1 : L1Q d1 := by
    obtain ⟨_, _, _, _, _, _, _, rfl⟩ := fr; exact i.q
  have i1 := i.of_vframe v post.1 nu hq1
  refine ⟨i1, v, post, hn, ?_⟩
  intro h n hr
  subst hr
  obtain ⟨s1, dom1, P1, n1, n2, hal, hpos⟩ := post
  dsimp only at s1 dom1 P1 hal
  have hcs := cs_pos d1.info
  have hrc1 : ∀ c, h / d1.info.clusterSize ≤ c → c < h / d1.info.clusterSize + n → d1.rc.get c = 1 := by
    have := (Qv.Props.C01Model.allocateClusters_sound_general count d d1 h n ha).2.2.2
    rw [v.info]; exact this
  have hlast := dom1.lt56 s1 (c := h / d1.info.clusterSize + (n - 1))
    (by rw [hrc1 _ (by omega) (by omega)]; omega)
  have hh := aligned_div_mul hal
  have h56 : h + n * d1.info.clusterSize ≤ 2^56 := by
    rw [Nat.add_mul, hh] at hlast
    have : (n - 1) * d1.info.clusterSize + d1.info.clusterSize = n * d1.info.clusterSize := by
      rw [← Nat.succ_mul]; congr 1; omega
    omega
  refine ⟨hal, hpos, h56, ?_⟩
  intro j _ hj
  obtain ⟨c1, c2⟩ := run_cluster (h := h) (k := j) hcs hal
  have hone := hrc1 (h / d1.info.clusterSize + j) (by omega) (by omega)
  refine ⟨?_, by rw [c2, hone]; exact Nat.le_refl _⟩
  -- nobody maps a cluster of the run: it would be referenced, and with the surplus its
  -- refcount would be at least 2
  intro o ho hov hs hco
  obtain ⟨_, halo, _⟩ := (i1.map.ent o hov).2 ho hs hco
  have hne : ho / d1.info.clusterSize ≠ h / d1.info.clusterSize + j := by
    intro heq
    have hr := refs_data_pos s1 hov hs hco
    have hp := P1 (h / d1.info.clusterSize + j)
    rw [covers_some, if_pos (show h / d1.cs ≤ h / d1.info.clusterSize + j ∧
      h / d1.info.clusterSize + j < h / d1.cs + n from ⟨by show h / d1.info.clusterSize ≤ _; omega,
        by show _ < h / d1.info.clusterSize + n; omega⟩), hone] at hp
    rw [heq] at hr
    omega
  rw [← c2] at hne
  generalize h + j * d1.info.clusterSize = x at *
  generalize d1.info.clusterSize = cs at *
  have e1 := Nat.div_add_mod x cs
  have e2 := Nat.div_add_mod ho cs
  rw [c1, Nat.add_zero] at e1
  rw [halo, Nat.add_zero] at e2
  rcases Nat.lt_or_gt_of_ne hne with hlt | hlt
  · left
    have : cs * (ho / cs + 1) ≤ cs * (x / cs) := Nat.mul_le_mul_left _ hlt
    rw [Nat.mul_add, Nat.mul_one] at this
    omega
  · right
    have : cs * (x / cs + 1) ≤ cs * (ho / cs) := Nat.mul_le_mul_left _ hlt
    rw [Nat.mul_add, Nat.mul_one] at this
    omega


/-! ## 4. `ensure_l2_offset` -/

theorem ensureL2_dsame (off : Nat) (d : Dev) :
    (ensureL2 off d).1.info = d.info ∧ (ensureL2 off d).1.data = d.data ∧
    (ensureL2 off d).1.newData = d.newData ∧ (ensureL2 off d).1.back = d.back ∧
    (ensureL2 off d).1.comp = d.comp ∧ (ensureL2 off d).1.l1Len = d.l1Len := by
  rw [RW.ensureL2_eq]
  split
  · exact ⟨rfl, rfl, rfl, rfl, rfl, rfl⟩
  · obtain ⟨a, b, hfr⟩ := hdrStep_frame d off
    generalize hdrStep d off = r at hfr
    obtain ⟨d0, (_ | e | p)⟩ := r
    · dsimp only at hfr ⊢
      split
      · rw [hfr]; exact ⟨rfl, rfl, rfl, rfl, rfl, rfl⟩
      · generalize hra : allocateClusters 1 d0 = ra
        obtain ⟨d1, ra⟩ := ra
        obtain ⟨⟨_, _, a3, a4, a5, a6, a7, a8, _⟩, _⟩ :=
          Qv.Props.C01Model.allocateClusters_frame 1 d0 d1 ra hra
        rw [hfr] at a3 a4 a5 a6 a7 a8
        obtain ((_ | ⟨l2off, n⟩) | e | p) := ra
        all_goals exact ⟨a7, a3, a4, a5, a6, a8⟩
    · dsimp only at hfr ⊢; rw [hfr]; exact ⟨rfl, rfl, rfl, rfl, rfl, rfl⟩
    · dsimp only at hfr ⊢; rw [hfr]; exact ⟨rfl, rfl, rfl, rfl, rfl, rfl⟩

/-- `ensure_l2_offset` writes L1 slots inside the RAM table only -/
theorem ensureL2_l1q (off : Nat) (d : Dev) (hq : L1Q d) : L1Q (ensureL2 off d).1 := by
  rw [RW.ensureL2_eq]
  split
  · exact hq
  · have h0 : L1Q (hdrStep d off).1 ∧ (hdrStep d off).1.l1Len = d.l1Len ∧ (hdrStep d off).1.info = d.info ∧
        ((hdrStep d off).2 = .ok () → Split.l1Index d.info off < d.l1Len) := by
      unfold hdrStep
      split
      · rename_i h1; exact ⟨hq, rfl, rfl, fun _ => Nat.lt_of_lt_of_le h1 hq.1⟩
      · split
        · exact ⟨hq, rfl, rfl, fun h => by cases h⟩
        · split
          · exact ⟨hq, rfl, rfl, fun h => by cases h⟩
          · rename_i h2 _
            exact ⟨⟨Nat.min_le_right _ _, hq.2⟩, rfl, rfl, fun _ => by omega⟩
    generalize hdrStep d off = r at h0
    obtain ⟨d0, (_ | e | p)⟩ := r
    · dsimp only at h0 ⊢
      obtain ⟨q0, hl0, hi0, hidx⟩ := h0
      split
      · exact q0
      · generalize hra : allocateClusters 1 d0 = ra
        obtain ⟨d1, ra⟩ := ra
        obtain ⟨⟨a1, _, _, _, _, _, _, a8, a9, _⟩, _⟩ :=
          Qv.Props.C01Model.allocateClusters_frame 1 d0 d1 ra hra
        have q1 : L1Q d1 := by
          unfold L1Q; rw [a9, a8, a1]; exact q0
        obtain ((_ | ⟨l2off, n⟩) | e | p) := ra
        · exact q1
        · dsimp only
          refine ⟨q1.1, fun i hi => ?_⟩
          show L1.isZero ((d1.l1.set (Split.l1Index d.info off) (L1.mapEntry l2off)).get i) = true
          have hlt := hidx rfl
          have hi' : d1.l1Len ≤ i := hi
          rw [a8, hl0] at hi'
          rw [FMap.get_set_other _ _ _ _ (by omega)]
          exact q1.2 i hi
        · exact q1
        · exact q1
    · exact h0.1
    · exact h0.1

theorem PlainView.of_vframe {d d' : Dev} (pv : PlainView d) (v : VFrame d d') : PlainView d' :=
  pv.of_viewStep (Model.ViewStep.of_eq v.l2) v.info

/-- **`ensure_l2_offset`, any outcome, the refcount table may grow**: the invariants are
    kept, the view is unchanged, and on success the L2 table of `off` exists -/
theorem ensureL2_g {f : Flat} {off : Nat} {d d' : Dev} {r : Outcome Unit}
    (w : WInv d) (i : GInv f d) (hov : off < d.info.vsize)
    (h : ensureL2 off d = (d', r)) (hc : Cap d') :
    WInv d' ∧ GInv f d' ∧ VFrame d d' ∧ d'.hdrL1Entries = d.hdrL1Entries ∧ (∀ p, r ≠ .panic p) ∧
    (r = .ok () → L1.isZero (d'.l1Entry off) = false) := by
  obtain ⟨w', hl2, hi, hn, np, hok⟩ := ensureL2_winv w (w.shape.l1cov off hov) h hc
  have hs := ensureL2_dsame off d
  rw [h] at hs
  obtain ⟨_, s2, s3, s4, s5, s6⟩ := hs
  have v : VFrame d d' := ⟨hi, s2, s3, s4, s5, s6, hl2⟩
  have hq' : L1Q d' := by have := ensureL2_l1q off d i.q; rw [h] at this; exact this
  exact ⟨w', i.of_vframe_winv v w' hq', v, hn, np, hok⟩

/-! ## 5. mapping one cluster; `alloc_and_map_cluster`, `populate_single_write_mapping` -/

/-- mapping a cluster that needed a mapping to a host cluster nobody maps keeps `ZInv`
    (the data plane is untouched; the new cluster is marked new) -/
theorem mapOne_zinv {D1 D2 : Dev} {this h : Nat} (st : Static D1) (t : TabOK D1) (mo : MapOK D1)
    (hv : this < D1.info.vsize)
    (hl1 : L1.isZero (D1.l1Entry this) = false)
    (hneed : needMakeMapping D1.info (D1.mapping this) = true)
    (hal : h % D1.info.clusterSize = 0) (hpos : 0 < h) (h56 : h < 2^56) (fr : Fresh D1 h)
    (m : MapOne D1 D2 this h) (z : ZInv D1) : ZInv D2 := by
  obtain ⟨_, hf, _⟩ := mapOne_entries st t hl1 hal hpos h56 m
  intro σ hσ
  rw [m.data] at hσ
  obtain ⟨o, h', a1, a2, a3, a4, a5, a6⟩ := z σ hσ
  have hc : o / D1.info.clusterSize ≠ this / D1.info.clusterSize := by
    intro hc
    rw [mapping_congr D1 hc] at a2
    exact needMake_true_nondata (mo.ent this hv) hneed a2
  have hm : D2.mapping o = D1.mapping o := mapping_of_l2Entry m.info (hf o hc)
  refine ⟨o, h', by rw [m.info]; exact a1, by rw [hm]; exact a2, by rw [hm]; exact a3, a4, ?_, ?_⟩
  · unfold Dev.spc at a5 ⊢; rw [m.info]; exact a5
  · rw [m.info, m.newData]
    intro hmem
    rcases List.mem_cons.1 hmem with e | e
    · exact div_ne_of_disjoint (cs_pos D1.info) (fr o h' a1 a2 a3) e
    · exact a6 e

theorem isNone_eq_none {α : Type} {x : Option α} (h : x.isNone = true) : x = none := by
  cases x with
  | none => rfl
  | some _ => cases h

/-- **`alloc_and_map_cluster`, any outcome, the refcount table may grow**, on a cluster that
    needs a mapping and whose L2 table exists -/
theorem allocAndMap_g {f : Flat} {dA dB : Dev} {off : Nat} {r : Outcome Unit}
    (w : WInv dA) (i : GInv f dA) (pv : PlainView dA) (hov : off < dA.info.vsize)
    (hl1 : L1.isZero (dA.l1Entry off) = false)
    (hneed : needMakeMapping dA.info (dA.mapping off) = true)
    (h : allocAndMap off dA = (dB, r)) (hc : Cap dB) :
    WInv dB ∧ GInv f dB ∧ dB.info = dA.info ∧ (∀ p, r ≠ .panic p) ∧
    (r = .ok () → ∃ ho, L2.plainOffset (dB.mapping off) 0 = some ho) := by
  have hidx := w.shape.l1cov off hov
  have hold := (pv off).1 (isNone_eq_none (needMake_plain_none hneed))
  obtain ⟨wB, hiB, _, np, _, _, _, _⟩ := allocAndMap_winv w hl1 hidx hold h hc
  rw [RW.allocAndMap_eq] at h
  generalize hal : allocateClusters 1 dA = ra at h
  obtain ⟨d1, ra⟩ := ra
  have hc1 : Cap d1 := by
    rcases ra with (_ | ⟨h0, n⟩) | e | p <;>
      (simp only [Prod.mk.injEq] at h; obtain ⟨h1, _⟩ := h; rw [← h1] at hc; exact hc)
  obtain ⟨i1, v1, post, _, hrun⟩ := alloc_g w i (by decide) hal hc1
  rcases ra with (_ | ⟨h0, n⟩) | e | p
  · simp only [Prod.mk.injEq] at h
    obtain ⟨rfl, rfl⟩ := h
    exact ⟨wB, i1, hiB, np, fun hr => by cases hr⟩
  · dsimp only at h
    simp only [Prod.mk.injEq] at h
    obtain ⟨h1, rfl⟩ := h
    obtain ⟨_, _, _, n1, _⟩ := post
    obtain ⟨r1, r2, r3, r4⟩ := hrun h0 n rfl
    obtain ⟨frh, rch⟩ := r4 0 (Nat.le_refl _) n1
    rw [Nat.zero_mul, Nat.add_zero] at frh rch
    have hlt56 : h0 < 2^56 := by
      have := Nat.mul_pos (show 0 < n from n1) (cs_pos d1.info); omega
    have hfr : GrowFrame dA d1 := (allocateClusters_acct w (by decide) hal hc1).2
    have hl11 : L1.isZero (d1.l1Entry off) = false := by rw [GrowFrame.l1Entry hfr]; exact hl1
    have hneed1 : needMakeMapping d1.info (d1.mapping off) = true := by
      rw [v1.info, v1.mapping]; exact hneed
    have hov1 : off < d1.info.vsize := by rw [v1.info]; exact hov
    have m : MapOne d1 dB off h0 := by
      rw [← h1]
      exact ⟨rfl, rfl, rfl, rfl, rfl, rfl, rfl, rfl, rfl, rfl⟩
    obtain ⟨s2, t2, m2⟩ := mapOne_inv i1.st i1.tab i1.map hl11 r1 r2 hlt56 rch frh m
    refine ⟨wB, ⟨s2, t2, m2, ?_, ?_, ?_⟩, hiB, np, fun _ => ?_⟩
    · exact mapOne_refinesN i1.st i1.tab i1.map hov1 hl11 hneed1 r1 r2 hlt56 frh m i1.ref
    · exact mapOne_zinv i1.st i1.tab i1.map hov1 hl11 hneed1 r1 r2 hlt56 frh m i1.z
    · rw [← h1]; exact i1.q
    · obtain ⟨_, _, hmap⟩ := mapOne_entries i1.st i1.tab hl11 r1 r2 hlt56 m
      exact ⟨h0, by rw [hmap off rfl]; rfl⟩
  · simp only [Prod.mk.injEq] at h
    obtain ⟨rfl, rfl⟩ := h
    exact ⟨wB, i1, hiB, np, fun hr => by cases hr⟩
  · exact post.2.2.elim

theorem nf_vframe (D : Dev) (b : Bool) : VFrame D { D with needFlush := b } :=
  ⟨rfl, rfl, rfl, rfl, rfl, rfl, fun _ => rfl⟩

/-- **`populate_single_write_mapping`, any outcome, the refcount table may grow** -/
theorem populateSingle_g {f : Flat} {d d1 : Dev} {off : Nat} {r : Outcome E64}
    (w : WInv d) (i : GInv f d) (pv : PlainView d) (hov : off < d.info.vsize)
    (h : populateSingle off d = (d1, r)) (hc : Cap d1) :
    WInv d1 ∧ GInv f d1 ∧ d1.info = d.info ∧ (∀ p, r ≠ .panic p) ∧
    (∀ e, r = .ok e → e = d1.l2Entry off ∧ ∃ ho, L2.plainOffset (d1.mapping off) 0 = some ho) := by
  have hidx := w.shape.l1cov off hov
  obtain ⟨w1, hi1, _, np, _, hent, _⟩ := populateSingle_winv w hidx (fun hp _ => (pv off).1 hp) h hc
  rw [RW.populateSingle_eq] at h
  by_cases hneed : needMakeMapping d.info (d.mapping off) = true
  · rw [if_pos hneed, RW.makeSingle_eq] at h
    generalize hen : ensureL2 off d = rA at h
    obtain ⟨dA, oA⟩ := rA
    rcases oA with _ | e' | p
    · dsimp only at h
      by_cases hpl : (L2.plainOffset (dA.mapping off) 0).isNone = true
      · rw [if_pos hpl] at h
        generalize hamap : allocAndMap off dA = r2 at h
        obtain ⟨dB, oB⟩ := r2
        have hcB : Cap dB := by
          rcases oB with _ | e' | p <;>
            (simp only [Prod.mk.injEq] at h; obtain ⟨h1, _⟩ := h; rw [← h1] at hc; exact hc)
        have hcA : Cap dA := ((allocAndMap_mn off).rm_of_eq hamap).cap hcB
        obtain ⟨wA, iA, vA, _, _, hl1A⟩ := ensureL2_g w i hov hen hcA
        obtain ⟨wB, iB, hiB, _, hpB⟩ := allocAndMap_g wA iA (PlainView.of_vframe pv vA) (by rw [vA.info]; exact hov)
          (hl1A rfl) (by rw [vA.info, vA.mapping]; exact hneed) hamap hcB
        rcases oB with _ | e' | p
        · simp only [Prod.mk.injEq] at h
          obtain ⟨h1, h2⟩ := h
          have iC : GInv f d1 := by
            have v : VFrame dB d1 := by rw [← h1]; exact nf_vframe dB true
            exact iB.of_vframe_winv v w1 (by rw [← h1]; exact iB.q)
          refine ⟨w1, iC, hi1, np, fun e he => ⟨hent e he, ?_⟩⟩
          obtain ⟨ho, hp⟩ := hpB rfl
          exact ⟨ho, by rw [← h1]; exact hp⟩
        · simp only [Prod.mk.injEq] at h
          obtain ⟨rfl, rfl⟩ := h
          exact ⟨w1, iB, hi1, np, fun e he => by cases he⟩
        · simp only [Prod.mk.injEq] at h
          obtain ⟨rfl, rfl⟩ := h
          exact ⟨w1, iB, hi1, np, fun e he => by cases he⟩
      · rw [if_neg hpl] at h
        simp only [Prod.mk.injEq] at h
        obtain ⟨rfl, rfl⟩ := h
        obtain ⟨_, _, vA, _, _, _⟩ := ensureL2_g w i hov hen hc
        have hx := needMake_plain_none hneed
        rw [← vA.mapping] at hx
        exact absurd hx hpl
    · simp only [Prod.mk.injEq] at h
      obtain ⟨rfl, rfl⟩ := h
      obtain ⟨_, iA, _, _, _, _⟩ := ensureL2_g w i hov hen hc
      exact ⟨w1, iA, hi1, np, fun e he => by cases he⟩
    · simp only [Prod.mk.injEq] at h
      obtain ⟨rfl, rfl⟩ := h
      obtain ⟨_, iA, _, _, _, _⟩ := ensureL2_g w i hov hen hc
      exact ⟨w1, iA, hi1, np, fun e he => by cases he⟩
  · rw [if_neg hneed] at h
    simp only [Prod.mk.injEq] at h
    obtain ⟨rfl, rfl⟩ := h
    refine ⟨w, i, rfl, np, fun e he => ⟨hent e he, ?_⟩⟩
    exact needMake_false_plain i.st.noBackName (i.map.ent off hov) (by simpa using hneed)


/-! ## 6. the data write of one piece keeps `ZInv` -/

theorem piece_zinv {D : Dev} {o ho : Nat} {toks : List Nat} (st : Static D) (mo : MapOK D)
    (ho512 : o % 512 = 0) (hfit : o % D.info.clusterSize + toks.length * 512 ≤ D.info.clusterSize)
    (hov : o < D.info.vsize) (hp : L2.plainOffset (D.mapping o) 0 = some ho) (z : ZInv D) :
    ZInv (if D.newData.contains (ho / D.info.clusterSize) then zeroedWrite D o ho toks
          else afterWrite D o ho toks) := by
  obtain ⟨hs, _, hco⟩ := plainOffset_some hp
  obtain ⟨_, hal, _⟩ := (mo.ent o hov).2 ho hs hco
  have hcs := cs512 st
  have ho5 := mod512_of_mod_cs st.cb9 hal
  have hr5 : o % D.info.clusterSize % 512 = 0 := by
    rw [Nat.mod_mod_of_dvd o ⟨D.spc, hcs⟩]; exact ho512
  have hpay : ∀ σ, (ho + o % D.info.clusterSize) / 512 ≤ σ →
      σ < (ho + o % D.info.clusterSize) / 512 + toks.length → ho / 512 ≤ σ ∧ σ < ho / 512 + D.spc := by
    intro σ s1 s2
    generalize o % D.info.clusterSize = rr at *
    omega
  split
  · rename_i hnew
    intro σ hσ
    change ((D.data.setRange (ho / 512) D.spc (fun _ => 0)).setRange
      ((ho + o % D.info.clusterSize) / 512) toks.length (fun k => toks.getD k 0)).get σ ≠ 0 at hσ
    rw [FMap.setRange_get, FMap.setRange_get] at hσ
    by_cases hin : (ho + o % D.info.clusterSize) / 512 ≤ σ ∧ σ < (ho + o % D.info.clusterSize) / 512 + toks.length
    · obtain ⟨p1, p2⟩ := hpay σ hin.1 hin.2
      refine ⟨o, ho, hov, hs, hco, p1, p2, ?_⟩
      show ho / D.info.clusterSize ∉ D.newData.filter (· ≠ ho / D.info.clusterSize)
      simp [List.mem_filter]
    · rw [if_neg hin] at hσ
      by_cases hcl : ho / 512 ≤ σ ∧ σ < ho / 512 + D.spc
      · rw [if_pos hcl] at hσ; exact absurd rfl hσ
      · rw [if_neg hcl] at hσ
        obtain ⟨o', h', a1, a2, a3, a4, a5, a6⟩ := z σ hσ
        refine ⟨o', h', a1, a2, a3, a4, a5, ?_⟩
        show h' / D.info.clusterSize ∉ D.newData.filter (· ≠ ho / D.info.clusterSize)
        intro hm
        exact a6 (List.mem_filter.1 hm).1
  · rename_i hnew
    intro σ hσ
    change (D.data.setRange ((ho + o % D.info.clusterSize) / 512) toks.length
      (fun k => toks.getD k 0)).get σ ≠ 0 at hσ
    rw [FMap.setRange_get] at hσ
    by_cases hin : (ho + o % D.info.clusterSize) / 512 ≤ σ ∧ σ < (ho + o % D.info.clusterSize) / 512 + toks.length
    · obtain ⟨p1, p2⟩ := hpay σ hin.1 hin.2
      refine ⟨o, ho, hov, hs, hco, p1, p2, ?_⟩
      show ho / D.info.clusterSize ∉ D.newData
      simpa using hnew
    · rw [if_neg hin] at hσ
      exact z σ hσ

/-! ## 7. well-formedness between operations, and the single-cluster write -/

/-- well-formedness between the operations of a history: `WF` of C01Refine with "no mapped
    cluster is marked new" (`NewOK`) replaced by `ZInv` (a mapped cluster that is still
    marked new holds zeros; unmapped host clusters hold zeros), and the invariant of
    histories of C03Write (`HInv`: exact refcount accounting, no compressed cluster, no
    zero-flagged entry with preallocation) -/
structure WFZ (d : Dev) : Prop where
  st : Static d
  tab : TabOK d
  map : MapOK d
  hinv : HInv d
  z : ZInv d
  q : L1Q d

theorem L1Q.of_dataStep {D D' : Dev} (h : DataStep D D') (q : L1Q D) : L1Q D' := by
  rw [h]; exact q

theorem WFZ.gInv {d : Dev} (wz : WFZ d) {f : Flat} (hr : Refines d f) : GInv f d :=
  ⟨wz.st, wz.tab, wz.map, refinesN_of_refines_z wz.z wz.st wz.map hr, wz.z, wz.q⟩

theorem GInv.refines {f : Flat} {d : Dev} (i : GInv f d) : Refines d f :=
  refines_of_refinesN_z i.z i.st i.map i.ref

theorem writeAt_hinv {d d' : Dev} {off len : Nat} {toks : List Nat} {r : Outcome Unit} (hI : HInv d)
    (hw : writeAt off len toks d = (d', r)) (hcap : Cap d') : HInv d' := by
  have := hstep_hinv hI (.write off len toks) (by
    show Cap (writeAt off len toks d).1
    rw [hw]; exact hcap)
  rw [show hstep d (.write off len toks) = (writeAt off len toks d).1 from rfl, hw] at this
  exact this

/-- **a write inside one cluster, any outcome, the refcount table may grow.**  `WFZ d`,
    `Refines d f`, an accepted non-empty request inside one cluster: the device is
    well-formed again; if the write returned `Ok` it shows `f.write off toks`; if it
    returned `Err` (an allocation failed) it still shows `f`; it does not panic. -/
theorem write_single_g (d d' : Dev) (f : Flat) (off len : Nat) (toks : List Nat) (r : Outcome Unit)
    (wz : WFZ d) (hr : Refines d f)
    (hc : writeCheck d.info off len = none) (hl : len ≠ 0)
    (hsingle : off / d.info.clusterSize = (off + len - 1) / d.info.clusterSize)
    (htoks : toks.length = len / 512)
    (hw : writeAt off len toks d = (d', r)) (hcap : Cap d') :
    WFZ d' ∧ d'.info = d.info ∧ (∀ p, r ≠ .panic p) ∧
    (r = .ok () → Refines d' (f.write off toks)) ∧ (r ≠ .ok () → Refines d' f) := by
  have hcs := cs_pos d.info
  have hI' := writeAt_hinv wz.hinv hw hcap
  obtain ⟨hv, hlb, hob, _⟩ := writeCheck_none hc
  have ho512 := Qv.Props.C01Refine.mod512_of_mod_bs wz.st.bsb9 hob
  have hl512 := Qv.Props.C01Refine.mod512_of_mod_bs wz.st.bsb9 hlb
  have hfit := single_cluster_fits hcs hsingle
  have hov : off < d.info.vsize := by omega
  unfold writeAt at hw
  dsimp only at hw
  rw [hc] at hw
  dsimp only at hw
  rw [if_neg hl, if_pos hsingle] at hw
  generalize hps : populateSingle off d = rp at hw
  obtain ⟨d1, (e | e | p)⟩ := rp
  · dsimp only at hw
    have hc1 : Cap d1 := ((doWrite_mn e off toks).rm_of_eq hw).cap hcap
    obtain ⟨w1, i1, hi1, _, hent⟩ := populateSingle_g wz.hinv.winv (wz.gInv hr) wz.hinv.plain hov hps hc1
    obtain ⟨he, ho, hp⟩ := hent e rfl
    obtain ⟨D', hw', hfr, hmem, hr'⟩ := doWrite_piece (f := f) (toks := toks) i1.st i1.map ho512
      (by rw [hi1]; omega) (by rw [hi1]; exact hov) hp i1.ref
    have hz' := piece_zinv (toks := toks) i1.st i1.map ho512 (by rw [hi1]; omega) (by rw [hi1]; exact hov) hp i1.z
    have hD' := doWrite_plain d1 off ho toks hp
    rw [hw'] at hD'
    simp only [Prod.mk.injEq, and_true] at hD'
    rw [← hD'] at hz'
    rw [← he, hw] at hw'
    simp only [Prod.mk.injEq] at hw'
    obtain ⟨rfl, rfl⟩ := hw'
    have st' := hfr.static i1.st
    have mo' := hfr.mapOK i1.map
    refine ⟨⟨st', hfr.tabOK i1.tab, mo', hI', hz', i1.q.of_dataStep hfr⟩, hfr.info.trans hi1,
      fun p hp => (by cases hp),
      fun _ => refines_of_refinesN_z hz' st' mo' hr', fun hne => absurd rfl hne⟩
  · simp only [Prod.mk.injEq] at hw
    obtain ⟨rfl, rfl⟩ := hw
    obtain ⟨_, i1, hi1, _, _⟩ := populateSingle_g wz.hinv.winv (wz.gInv hr) wz.hinv.plain hov hps hcap
    exact ⟨⟨i1.st, i1.tab, i1.map, hI', i1.z, i1.q⟩, hi1, fun p hp => (by cases hp), fun hx => (by cases hx),
      fun _ => i1.refines⟩
  · simp only [Prod.mk.injEq] at hw
    obtain ⟨rfl, rfl⟩ := hw
    obtain ⟨_, _, _, np, _⟩ := populateSingle_g wz.hinv.winv (wz.gInv hr) wz.hinv.plain hov hps hcap
    exact absurd rfl (np p)

end Qv.Model.RG
