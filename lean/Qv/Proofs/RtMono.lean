import Qv.Proofs.AcctAlloc
/-
`rtLen` never decreases, whatever a function of the write / discard path returns
(the refcount table only grows), and `info` is kept.  Hence a bound on the table after
a composite operation (`Cap d'`) bounds it in every intermediate state (`RM.cap`), and
`d'.rtLen = d.rtLen` says that none of the steps grew the table.  Same structural scheme as
`Fr` in `Qv/Proofs/Frames.lean`.
-/
namespace Qv.Model
open Qv Qv.Codec

/-- the table did not shrink, and the bound `rtCap` on its future length did not rise -/
def RM (d d' : Dev) : Prop := d'.info = d.info ∧ d.rtLen ≤ d'.rtLen ∧ rtCap d' ≤ rtCap d

theorem RM.refl (d : Dev) : RM d d := ⟨rfl, Nat.le_refl _, Nat.le_refl _⟩
theorem RM.trans {a b c : Dev} (h1 : RM a b) (h2 : RM b c) : RM a c :=
  ⟨h2.1.trans h1.1, Nat.le_trans h1.2.1 h2.2.1, Nat.le_trans h2.2.2 h1.2.2⟩
/-- a step that leaves `info`, `rtLen` and the header's table size alone -/
theorem RM.of_same {d d' : Dev} (h1 : d'.info = d.info) (h2 : d'.rtLen = d.rtLen)
    (h3 : d'.hdrRtClusters = d.hdrRtClusters) : RM d d' :=
  ⟨h1, Nat.le_of_eq h2.symm, Nat.le_of_eq (rtCap_congr h1 h2 h3)⟩

/-- the bound on the host space the table describes is inherited by earlier states -/
theorem RM.cap {d d' : Dev} (h : RM d d') (hc : Cap d') : Cap d := hc.mono h.1 h.2.1

/-- a computation of the device monad under which `rtLen` never decreases (and `rtCap`
    never increases) -/
structure Mn {α : Type} (x : M α) : Prop where
  rm : ∀ d, RM d (x d).1

namespace Mn
variable {α β : Type}

theorem mono {x : M α} (hx : Mn x) (d : Dev) : d.rtLen ≤ (x d).1.rtLen := (hx.rm d).2.1

theorem rm_of_eq {x : M α} (hx : Mn x) {d d' : Dev} {r : Outcome α} (h : x d = (d', r)) : RM d d' := by
  have := hx.rm d; rw [h] at this; exact this

theorem of_eq {x : M α} (hx : Mn x) {d d' : Dev} {r : Outcome α} (h : x d = (d', r)) :
    d.rtLen ≤ d'.rtLen := by
  have := hx.mono d; rw [h] at this; exact this

theorem pure (a : α) : Mn (Pure.pure a : M α) := ⟨fun _ => RM.refl _⟩
theorem pure' (a : α) : Mn (M.pure a : M α) := ⟨fun _ => RM.refl _⟩
theorem get : Mn M.get := ⟨fun _ => RM.refl _⟩
theorem fail (e : Err) : Mn (M.fail e : M α) := ⟨fun _ => RM.refl _⟩
theorem panic (p : String) : Mn (M.panic p : M α) := ⟨fun _ => RM.refl _⟩
theorem modify {g : Dev → Dev} (h : ∀ d, RM d (g d)) : Mn (M.modify g) := ⟨fun d => h d⟩

theorem bind {x : M α} {f : α → M β} (hx : Mn x) (hf : ∀ a, Mn (f a)) : Mn (x >>= f) := by
  refine ⟨fun d => ?_⟩
  show RM d (M.bind x f d).1
  unfold M.bind
  have := hx.rm d
  generalize x d = r at this
  rcases r with ⟨d1, a | e | p⟩
  · exact this.trans ((hf a).rm d1)
  · exact this
  · exact this

end Mn

theorem allocateClusters_mn (count : Nat) : Mn (allocateClusters count) :=
  ⟨fun d => allocateLoop_rtLen_mono count _ _ d⟩

theorem freeClusters_mn (host n : Nat) (fz : Bool) : Mn (freeClusters host n fz) := by
  refine ⟨fun d => ?_⟩
  rw [(freeClusters_frame host n fz d).1]; exact RM.of_same rfl rfl rfl

theorem markNewData_mn (h : Nat) : Mn (markNewData h) := Mn.modify fun _ => RM.of_same rfl rfl rfl

theorem ensureL2_mn (off : Nat) : Mn (ensureL2 off) := by
  refine ⟨fun d => ?_⟩
  unfold ensureL2
  dsimp only
  split
  · exact RM.refl _
  · generalize hr : (if Split.l1Index d.info off < d.l1HdrEntries then (d, Outcome.ok ())
        else if Split.l1Index d.info off ≥ d.l1Len then (d, Outcome.err Err.unsupported)
        else if min d.info.maxL1Entries d.l1Len > d.info.maxL1Entries then
          (d, Outcome.panic "write.rs:flush_header_for_l1_table:assert")
        else ({ d with hdrL1Entries := min d.info.maxL1Entries d.l1Len,
                       l1HdrEntries := min d.info.maxL1Entries d.l1Len }, Outcome.ok ())) = r
    have h0 : RM d r.1 := by
      rw [← hr]; repeat' split
      all_goals exact RM.of_same rfl rfl rfl
    rcases r with ⟨d0, _ | e | p⟩
    all_goals dsimp only at h0 ⊢
    · split
      · exact h0
      · have h1 := (allocateClusters_mn 1).rm d0
        generalize allocateClusters 1 d0 = r1 at h1
        rcases r1 with ⟨d1, (_ | ⟨o, n⟩) | e | p⟩
        all_goals dsimp only at h1 ⊢
        · exact h0.trans h1
        · exact h0.trans (h1.trans (RM.of_same rfl rfl rfl))
        · exact h0.trans h1
        · exact h0.trans h1
    · exact h0
    · exact h0

theorem allocAndMap_mn (off : Nat) : Mn (allocAndMap off) := by
  unfold allocAndMap
  apply Mn.bind (allocateClusters_mn 1)
  intro a
  split
  · apply Mn.bind (markNewData_mn _); intro _
    refine Mn.modify ?_
    intro _; exact RM.of_same rfl rfl rfl
  · exact Mn.fail _

theorem makeSingleWriteMapping_mn (off : Nat) : Mn (makeSingleWriteMapping off) := by
  unfold makeSingleWriteMapping
  apply Mn.bind (ensureL2_mn off); intro _
  apply Mn.bind Mn.get; intro d
  dsimp only
  have hjp : Mn (do let d ← M.get; Pure.pure (d.l2Entry off) : M E64) :=
    Mn.bind Mn.get fun _ => Mn.pure _
  split
  · apply Mn.bind (allocAndMap_mn off); intro _
    refine Mn.bind (Mn.modify ?_) ?_
    · intro _; exact RM.of_same rfl rfl rfl
    · intro _; exact hjp
  · exact hjp

theorem populateSingle_mn (off : Nat) : Mn (populateSingle off) := by
  unfold populateSingle
  apply Mn.bind Mn.get; intro d
  split
  · exact makeSingleWriteMapping_mn off
  · exact Mn.pure _

theorem mapRun_same (cstart ccnt stop fuel this idx : Nat) (acc : List E64) (d : Dev) :
    (mapRun cstart ccnt stop fuel this idx acc d).1.rtLen = d.rtLen ∧
    (mapRun cstart ccnt stop fuel this idx acc d).1.info = d.info ∧
    (mapRun cstart ccnt stop fuel this idx acc d).1.hdrRtClusters = d.hdrRtClusters := by
  induction fuel generalizing this idx acc d with
  | zero => exact ⟨rfl, rfl, rfl⟩
  | succ fuel ih =>
    rw [mapRun]
    dsimp only
    split
    · exact ⟨rfl, rfl, rfl⟩
    · split
      · generalize hd2 : Dev.setL2 _ this _ = d2
        have h2 : d2.rtLen = d.rtLen ∧ d2.info = d.info ∧ d2.hdrRtClusters = d.hdrRtClusters := by
          rw [← hd2]; exact ⟨rfl, rfl, rfl⟩
        split
        · exact h2
        · obtain ⟨a, b, c⟩ := ih _ _ _ d2
          exact ⟨a.trans h2.1, b.trans h2.2.1, c.trans h2.2.2⟩
      · split
        · exact ⟨rfl, rfl, rfl⟩
        · exact ih _ _ _ d

theorem mapRun_rtLen (cstart ccnt stop fuel this idx : Nat) (acc : List E64) (d : Dev) :
    (mapRun cstart ccnt stop fuel this idx acc d).1.rtLen = d.rtLen :=
  (mapRun_same cstart ccnt stop fuel this idx acc d).1

theorem mapRun_mn (cstart ccnt stop fuel this idx : Nat) (acc : List E64) :
    Mn (mapRun cstart ccnt stop fuel this idx acc) :=
  ⟨fun d => by
    obtain ⟨a, b, c⟩ := mapRun_same cstart ccnt stop fuel this idx acc d
    exact RM.of_same b a c⟩

macro "mn_auto" : tactic => `(tactic| repeat' (first
  | exact Mn.pure _ | exact Mn.pure' _ | exact Mn.get | exact Mn.fail _ | exact Mn.panic _
  | (refine Mn.modify ?_; intro _; exact RM.of_same rfl rfl rfl)
  | exact allocateClusters_mn _ | exact ensureL2_mn _ | exact allocAndMap_mn _
  | exact freeClusters_mn _ _ _
  | exact mapRun_mn _ _ _ _ _ _ _
  | apply Mn.bind
  | intro _
  | split))

theorem makeMultiple_mn (start stop : Nat) : Mn (makeMultiple start stop) := by
  unfold makeMultiple
  apply Mn.bind (ensureL2_mn start); intro _
  apply Mn.bind Mn.get; intro d
  dsimp only
  mn_auto

theorem makeMultiples_mn (stop fuel start : Nat) (acc : List E64) : Mn (makeMultiples stop fuel start acc) := by
  refine ⟨fun d => ?_⟩
  induction fuel generalizing start acc d with
  | zero => exact RM.refl _
  | succ fuel ih =>
    rw [makeMultiples]
    dsimp only
    split
    · exact RM.refl _
    · split
      · have h1 := (makeMultiple_mn start stop).rm d
        generalize makeMultiple start stop d = r at h1
        rcases r with ⟨d1, ⟨es, done⟩ | e | p⟩
        all_goals dsimp only at h1 ⊢
        · split
          · exact h1
          · exact h1.trans (ih _ _ d1)
        · exact h1
        · exact h1
      · exact ih _ _ d

theorem doWriteDataFile_mn (off : Nat) (m : Mapping) (cow : Option Mapping) (toks : List Nat) :
    Mn (doWriteDataFile off m cow toks) :=
  ⟨fun d => by
    obtain ⟨a1, _, _, _, a5, _, _, _, _, a10, _⟩ := doWriteDataFile_dataOnly off m cow toks d
    exact RM.of_same a1 a10 a5⟩

theorem doWriteCow_mn (off : Nat) (m : Mapping) (toks : List Nat) : Mn (doWriteCow off m toks) := by
  unfold doWriteCow
  dsimp only
  repeat' (first
    | exact Mn.pure _ | exact Mn.get | exact Mn.fail _
    | (refine Mn.modify ?_; intro _; exact RM.of_same rfl rfl rfl)
    | exact ensureL2_mn _ | exact allocAndMap_mn _ | exact freeClusters_mn _ _ _
    | exact doWriteDataFile_mn _ _ _ _
    | apply Mn.bind
    | intro _
    | split)

theorem doWrite_mn (e : E64) (off : Nat) (toks : List Nat) : Mn (doWrite e off toks) := by
  refine ⟨fun d => ?_⟩
  unfold doWrite
  dsimp only
  repeat' split
  all_goals first
    | exact RM.refl _
    | exact (doWriteDataFile_mn _ _ _ _).rm d
    | exact (doWriteCow_mn _ _ _).rm d

theorem doWrites_mn (ps : List (Nat × Nat)) (es : List E64) (toks : List Nat) : Mn (doWrites ps es toks) := by
  refine ⟨fun d => ?_⟩
  induction ps generalizing es toks d with
  | nil => exact RM.refl _
  | cons q ps ih =>
    obtain ⟨off, n⟩ := q
    rw [doWrites]
    cases es with
    | nil => exact RM.refl _
    | cons e es' =>
      dsimp only
      have h1 := (doWrite_mn e off (toks.take n)).rm d
      generalize doWrite e off (toks.take n) d = r1 at h1
      obtain ⟨d1, r1⟩ := r1
      have h2 := ih es' (toks.drop n) d1
      generalize doWrites ps es' (toks.drop n) d1 = r2 at h2
      obtain ⟨d2, r2⟩ := r2
      have h12 : RM d d2 := h1.trans h2
      dsimp only
      split <;> exact h12

theorem writeAt_mn (off len : Nat) (toks : List Nat) : Mn (writeAt off len toks) := by
  refine ⟨fun d => ?_⟩
  unfold writeAt
  dsimp only
  split
  · exact RM.refl _
  · split
    · exact RM.refl _
    · split
      · have h1 := (populateSingle_mn off).rm d
        generalize populateSingle off d = r at h1
        rcases r with ⟨d1, e | e | p⟩
        · exact h1.trans ((doWrite_mn e off toks).rm d1)
        · exact h1
        · exact h1
      · have h1 := (makeMultiples_mn ((off + len + d.info.clusterSize - 1) / d.info.clusterSize * d.info.clusterSize)
            (((off + len + d.info.clusterSize - 1) / d.info.clusterSize * d.info.clusterSize
                - d.info.clusterRoundDown off) / d.info.clusterSize + 1) (d.info.clusterRoundDown off) []).rm d
        generalize makeMultiples _ _ _ [] d = r at h1
        rcases r with ⟨d1, es | e | p⟩
        · dsimp only
          have h2 := (doWrites_mn (pieces d.info.clusterSize
            (((off + len + d.info.clusterSize - 1) / d.info.clusterSize * d.info.clusterSize
                - d.info.clusterRoundDown off) / d.info.clusterSize + 1) off len) es toks).rm d1
          generalize doWrites _ es toks d1 = r2 at h2
          rcases r2 with ⟨d2, _ | e | p⟩ <;> exact h1.trans h2
        · exact h1
        · exact h1

theorem discard_sameFrame (off len : Nat) (d : Dev) : SameFrame d (discard off len d).1 := by
  have : ∀ stop fuel g (d : Dev), SameFrame d (discardLoop stop fuel g d).1 := by
    intro stop fuel
    induction fuel with
    | zero => intro g d; exact SameFrame.refl d
    | succ fuel ih =>
      intro g d
      rw [discardLoop]
      dsimp only
      split
      · exact SameFrame.refl d
      · have h1 := discardOne_sameFrame g d
        generalize discardOne g d = r at h1
        rcases r with ⟨d1, _ | e | p⟩
        · exact h1.trans (ih _ d1)
        · exact h1
        · exact h1
  unfold discard
  dsimp only
  split
  · exact SameFrame.refl d
  · split
    · exact SameFrame.refl d
    · exact SameFrame.refl d
    · exact SameFrame.refl d
    · exact this _ _ _ d

theorem discard_rtLen (off len : Nat) (d : Dev) : (discard off len d).1.rtLen = d.rtLen :=
  (discard_sameFrame off len d).2.2.2.2.2.2.1

theorem discard_rm (off len : Nat) (d : Dev) : RM d (discard off len d).1 := by
  obtain ⟨a1, _, _, _, _, _, a7, _, _, _, _, _, a13⟩ := discard_sameFrame off len d
  exact RM.of_same a1 a7 a13

/-- when the refcount table cannot grow (`NoGrow`: the RAM table is as long as the table
    on disk and a table one cluster bigger does not fit), `rtLen` is constant -/
theorem RM.rtLen_eq {d d' : Dev} (h : RM d d') (hn : NoGrow d) : d'.rtLen = d.rtLen := by
  have h1 := rtLen_le_rtCap d'
  have h2 := rtCap_of_noGrow hn
  have := h.2.1; have := h.2.2
  omega

end Qv.Model
