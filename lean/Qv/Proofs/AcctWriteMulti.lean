import Qv.Proofs.AcctWrite
/-
Refcount accounting through `do_write`, the multi-cluster mapping functions
(`__make_multiple_write_mapping`, `make_multiple_write_mappings`), `do_writes` and the
whole `__write_at` (helpers for `Qv/Props/C03Write.lean`).
-/
namespace Qv.Model
open Qv Qv.Codec
open Qv.Props.C15 (Geom)
open Qv.Props.C11 (L1Distinct)

/-! ### how the write path changes the view -/

/-- every entry of the view is kept or becomes `map_cluster(x)` for some cluster `x` -/
def ViewStep (d d' : Dev) : Prop := ∀ o, EntryKept d d' o

theorem ViewStep.refl (d : Dev) : ViewStep d d := fun _ => Or.inl rfl

theorem ViewStep.of_eq {d d' : Dev} (h : ∀ o, d'.l2Entry o = d.l2Entry o) : ViewStep d d' :=
  fun o => Or.inl (h o)

theorem ViewStep.trans {a b c : Dev} (h1 : ViewStep a b) (h2 : ViewStep b c) : ViewStep a c := by
  intro o
  rcases h2 o with e2 | e2
  · rcases h1 o with e1 | e1
    · exact Or.inl (e2.trans e1)
    · right; rw [e2]; exact e1
  · exact Or.inr e2

/-- from "the entry of `off` kept or newly mapped, every other entry kept" -/
theorem ViewStep.of_frame {d d' : Dev} {off : Nat} (hk : EntryKept d d' off)
    (hi : d'.info = d.info)
    (hf : ∀ o, Split.l1Index d.info o ≠ Split.l1Index d.info off ∨
        Split.l2Index d.info o ≠ Split.l2Index d.info off → d'.l2Entry o = d.l2Entry o) :
    ViewStep d d' := by
  intro o
  by_cases hc : Split.l1Index d.info o = Split.l1Index d.info off ∧
      Split.l2Index d.info o = Split.l2Index d.info off
  · have e1 : d.l2Entry o = d.l2Entry off := by
      rw [d.l2Entry_eq_slot, d.l2Entry_eq_slot, hc.1, hc.2]
    have e2 : d'.l2Entry o = d'.l2Entry off := by
      rw [d'.l2Entry_eq_slot, d'.l2Entry_eq_slot, hi, hc.1, hc.2]
    unfold EntryKept at hk ⊢
    rw [e1, e2]; exact hk
  · left
    apply hf
    by_cases hx : Split.l1Index d.info o = Split.l1Index d.info off
    · right; intro hy; exact hc ⟨hx, hy⟩
    · left; exact hx

theorem isCompressed_mapClusterEntry {x : Nat} (h512 : x % 512 = 0) (h56 : x < 2^56) :
    L2.isCompressed (L2.mapClusterEntry x) = false := by
  obtain ⟨o9, o56, _⟩ := ofNat_offset x h512 h56
  exact (copied_entry_fields _ o9 o56).1

theorem source_compressed_iff (cb : Nat) (hb : Bool) (g : Nat) (e : E64) :
    (L2.intoMapping cb hb g e).source = .compressed ↔ L2.isCompressed e = true := by
  unfold L2.intoMapping L2.compressedRange
  by_cases hc : L2.isCompressed e = true
  · rw [if_pos hc]; exact ⟨fun _ => hc, fun _ => rfl⟩
  · rw [if_neg hc]
    dsimp only
    constructor
    · intro h
      repeat' split at h
      all_goals cases h
    · intro h; exact absurd h hc

/-- "not a compressed cluster" is stable under the steps of the write path -/
theorem ViewStep.notCompressed {d d' : Dev} (h : ViewStep d d') {o : Nat}
    (hc : L2.isCompressed (d.l2Entry o) = false) : L2.isCompressed (d'.l2Entry o) = false := by
  rcases h o with e | ⟨x, e, h512, _, h56⟩
  · rw [e]; exact hc
  · rw [e]; exact isCompressed_mapClusterEntry h512 h56

/-- the hypothesis that excludes the known leak, for guest cluster `o`: if its entry has
    to be replaced by a new mapping, it has no allocation (it is not a zero-flagged entry
    with a preallocated cluster, nor a standard cluster without the COPIED flag) -/
def NoPre (d : Dev) (o : Nat) : Prop :=
  L2.plainOffset (d.mapping o) 0 = none → L2.allocation d.info.cb (d.l2Entry o) = none

theorem ViewStep.noPre {d d' : Dev} (h : ViewStep d d') (hi : d'.info = d.info) {o : Nat}
    (hp : NoPre d o) : NoPre d' o := by
  rcases h o with e | ⟨x, e, h512, hpos, h56⟩
  · unfold NoPre
    rw [mapping_congr' hi e, hi, e]; exact hp
  · intro hnone
    exfalso
    unfold Dev.mapping at hnone
    rw [e, intoMapping_mapClusterEntry _ _ _ x h512 hpos h56] at hnone
    cases hnone

theorem needMake_plain_none_eq {i : Info} {m : Mapping} (h : needMakeMapping i m = true) :
    L2.plainOffset m 0 = none := by
  have := needMake_plain_none h
  cases hp : L2.plainOffset m 0 with
  | none => rfl
  | some x => rw [hp] at this; cases this

/-! ### `do_write` -/

/-- **`do_write`**, any outcome, for an entry `e` that is not a compressed cluster on a
    guest cluster that is not compressed in the current view -/
theorem doWrite_winv {d d' : Dev} {e : E64} {off : Nat} {toks : List Nat} {r : Outcome Unit}
    (w : WInv d) (hidx : Split.l1Index d.info off < d.hdrL1Entries)
    (he : L2.isCompressed e = false) (hsrc : L2.isCompressed (d.l2Entry off) = false)
    (h : doWrite e off toks d = (d', r)) (hl : Cap d') :
    WInv d' ∧ d'.info = d.info ∧ d'.hdrL1Entries = d.hdrL1Entries ∧ ViewStep d d' ∧
      (∀ p, r ≠ .panic p) := by
  unfold doWrite at h
  dsimp only at h
  generalize hm : L2.intoMapping d.info.cb d.info.hasBack
    (Split.clusterOffset d.info (d.info.clusterRoundDown off)) e = m at h
  have hmc : m.source ≠ .compressed := by
    rw [← hm]
    intro hx
    rw [(source_compressed_iff _ _ _ _).1 hx] at he; cases he
  have hdc : (d.mapping off).source ≠ .compressed := by
    intro hx
    unfold Dev.mapping at hx
    rw [(source_compressed_iff _ _ _ _).1 hx] at hsrc; cases hsrc
  have cow : ∀ {d' r}, doWriteCow off m toks d = (d', r) → Cap d' →
      WInv d' ∧ d'.info = d.info ∧ d'.hdrL1Entries = d.hdrL1Entries ∧ ViewStep d d' ∧
        (∀ p, r ≠ .panic p) := by
    intro d' r h hl
    obtain ⟨a, b, c, np, k, f⟩ := doWriteCow_plain_winv w hidx hmc hdc h hl
    exact ⟨a, b, c, ViewStep.of_frame k b f, np⟩
  have same : ∀ {e'}, (d, Outcome.err e') = (d', r) →
      WInv d' ∧ d'.info = d.info ∧ d'.hdrL1Entries = d.hdrL1Entries ∧ ViewStep d d' ∧
        (∀ p, r ≠ .panic p) := by
    intro e' h
    simp only [Prod.mk.injEq] at h
    obtain ⟨rfl, rfl⟩ := h
    exact ⟨w, rfl, rfl, ViewStep.refl _, fun p hp => (by cases hp)⟩
  split at h
  · obtain ⟨f, l2, _⟩ := doWriteDataFile_mframe off m none toks d
    have np := doWriteDataFile_nopanic off m none toks d
    rw [h] at f l2 np
    exact ⟨f.winv l2 w, f.info, f.hdrL1Entries, ViewStep.of_eq (f.l2Entry l2), np⟩
  · rename_i hs; exact absurd hs hmc
  · split at h
    · exact cow h hl
    · exact same h
  · split at h
    · exact cow h hl
    · exact same h
  · exact same h

/-! ### the single-cluster `__write_at` -/

theorem l1Index_eq_of_cluster {i : Info} {a b : Nat} (h : a / i.clusterSize = b / i.clusterSize) :
    Split.l1Index i a = Split.l1Index i b := by
  unfold Split.l1Index
  rw [Nat.pow_add, ← Nat.div_div_eq_div_mul, ← Nat.div_div_eq_div_mul]
  show a / i.clusterSize / _ = b / i.clusterSize / _
  rw [h]

/-- the L1 slot of every byte of a cluster that begins inside the virtual disk is
    covered by the header -/
theorem l1Index_lt_of_cluster {d : Dev} (s : Shape d) {o : Nat}
    (h : o / d.info.clusterSize * d.info.clusterSize < d.info.vsize) :
    Split.l1Index d.info o < d.hdrL1Entries := by
  have := s.l1cov _ h
  rw [l1Index_eq_of_cluster (i := d.info) (a := o) (b := o / d.info.clusterSize * d.info.clusterSize)
    (by rw [Nat.mul_div_cancel _ (cs_pos _)])]
  exact this

/-- **single-cluster `__write_at`**, any outcome -/
theorem writeAt_single_winv {d d' : Dev} {off len : Nat} {toks : List Nat} {r : Outcome Unit}
    (w : WInv d) (hchk : writeCheck d.info off len = none) (hlen : len ≠ 0)
    (hsingle : off / d.info.clusterSize = (off + len - 1) / d.info.clusterSize)
    (hnp : NoPre d off) (hnc : L2.isCompressed (d.l2Entry off) = false)
    (h : writeAt off len toks d = (d', r)) (hl : Cap d') :
    WInv d' ∧ d'.info = d.info ∧ d'.hdrL1Entries = d.hdrL1Entries ∧ ViewStep d d' ∧
      (∀ p, r ≠ .panic p) := by
  obtain ⟨hv, _, _, _⟩ := writeCheck_none hchk
  have hidx : Split.l1Index d.info off < d.hdrL1Entries := by
    apply l1Index_lt_of_cluster w.shape
    have := Nat.div_mul_le_self off d.info.clusterSize
    omega
  unfold writeAt at h
  simp only [hchk] at h
  rw [if_neg hlen, if_pos hsingle] at h
  generalize h1 : populateSingle off d = r1 at h
  obtain ⟨d1, o1⟩ := r1
  rcases o1 with e | e | p
  · dsimp only at h
    have m2 := (doWrite_mn e off toks).rm_of_eq h
    obtain ⟨w1, i1, n1, _, k1, he, f1⟩ := populateSingle_winv w hidx (fun hp _ => hnp hp) h1 (m2.cap hl)
    have hvs : ViewStep d d1 := ViewStep.of_frame k1 i1 f1
    have hnc1 := hvs.notCompressed hnc
    obtain ⟨w2, i2, n2, v2, np2⟩ := doWrite_winv w1 (by rw [i1, n1]; exact hidx)
      (by rw [he e rfl]; exact hnc1) hnc1 h hl
    exact ⟨w2, i2.trans i1, n2.trans n1, hvs.trans v2, np2⟩
  · simp only [Prod.mk.injEq] at h
    obtain ⟨rfl, rfl⟩ := h
    obtain ⟨w1, i1, n1, _, k1, _, f1⟩ := populateSingle_winv w hidx (fun hp _ => hnp hp) h1 hl
    exact ⟨w1, i1, n1, ViewStep.of_frame k1 i1 f1, fun p hp => (by cases hp)⟩
  · simp only [Prod.mk.injEq] at h
    obtain ⟨rfl, rfl⟩ := h
    obtain ⟨_, _, _, np, _⟩ := populateSingle_winv w hidx (fun hp _ => hnp hp) h1 hl
    exact absurd rfl (np p)

/-! ### `mapRun`: mapping the clusters of a run -/

/-- guest offsets in different clusters have different (L1 index, L2 index) pairs -/
theorem index_pair_ne {i : Info} (g : Geom i) {a b : Nat} (h : a / i.clusterSize ≠ b / i.clusterSize) :
    Split.l1Index i a ≠ Split.l1Index i b ∨ Split.l2Index i a ≠ Split.l2Index i b := by
  apply Classical.byContradiction
  intro hn
  have h1 : Split.l1Index i a = Split.l1Index i b := by
    apply Classical.byContradiction; intro hx; exact hn (Or.inl hx)
  have h2 : Split.l2Index i a = Split.l2Index i b := by
    apply Classical.byContradiction; intro hx; exact hn (Or.inr hx)
  have ra := (Qv.Props.C15.split_recompose g a).1
  have rb := (Qv.Props.C15.split_recompose g b).1
  have ba := (Qv.Props.C15.split_bounds g a).2.2
  have bb := (Qv.Props.C15.split_bounds g b).2.2
  rw [h1, h2] at ra
  have hp : 0 < 2^i.cb := Nat.two_pow_pos _
  apply h
  unfold Info.clusterSize
  generalize (Split.l1Index i b * i.l2Entries + Split.l2Index i b) = X at ra rb
  have ea : a / 2^i.cb = X := by
    rw [← ra, Nat.add_comm, Nat.add_mul_div_right _ _ hp, Nat.div_eq_of_lt ba, Nat.zero_add]
  have eb : b / 2^i.cb = X := by
    rw [← rb, Nat.add_comm, Nat.add_mul_div_right _ _ hp, Nat.div_eq_of_lt bb, Nat.zero_add]
  rw [ea, eb]

/-- how many of the `m` clusters `this, this + cs, …` need a mapping -/
def needFrom (d : Dev) (this : Nat) : Nat → Nat
  | 0 => 0
  | m + 1 => (if needMakeMapping d.info (d.mapping this) then 1 else 0) +
      needFrom d (this + d.info.clusterSize) m

theorem needFrom_congr {d d' : Dev} (hi : d'.info = d.info) (m : Nat) :
    ∀ this, (∀ k, k < m → d'.l2Entry (this + k * d.info.clusterSize) = d.l2Entry (this + k * d.info.clusterSize)) →
      needFrom d' this m = needFrom d this m := by
  induction m with
  | zero => intro _ _; rfl
  | succ m ih =>
    intro this h
    unfold needFrom
    have h0 := h 0 (by omega)
    rw [Nat.zero_mul, Nat.add_zero] at h0
    rw [mapping_congr' hi h0, hi, ih (this + d.info.clusterSize)]
    intro k hk
    have := h (k + 1) (by omega)
    rw [Nat.add_mul, Nat.one_mul] at this
    rw [Nat.add_assoc, Nat.add_comm d.info.clusterSize]
    exact this

theorem mapRun_succ (cstart ccnt stop fuel this idx : Nat) (acc : List E64) (d : Dev) :
    mapRun cstart ccnt stop (fuel + 1) this idx acc d =
      if ¬ (this < stop) then (d, .ok (acc.reverse, this, idx)) else
      if needMakeMapping d.info (d.mapping this) then
        if idx + 1 ≥ ccnt then
          (mappedAt d this (cstart + idx * d.info.clusterSize),
            .ok (((mappedAt d this (cstart + idx * d.info.clusterSize)).l2Entry this :: acc).reverse,
              this + d.info.clusterSize, idx + 1))
        else mapRun cstart ccnt stop fuel (this + d.info.clusterSize) (idx + 1)
          ((mappedAt d this (cstart + idx * d.info.clusterSize)).l2Entry this :: acc)
          (mappedAt d this (cstart + idx * d.info.clusterSize))
      else
        if idx ≥ ccnt then (d, .ok ((d.l2Entry this :: acc).reverse, this + d.info.clusterSize, idx))
        else mapRun cstart ccnt stop fuel (this + d.info.clusterSize) idx (d.l2Entry this :: acc) d := by
  rw [mapRun]
  rfl

/-- **`mapRun`**: the clusters of the surplus run `(cstart, ccnt)` are mapped one by one to
    the guest clusters from `this` on that need a mapping.  `idxf` clusters of the run
    are consumed in the end, the rest is still the surplus; and the whole run is consumed
    when at least `ccnt - idx` of the next `m` guest clusters (all below `stop`, `m` within
    the fuel) need a mapping. -/
theorem mapRun_acct (cstart ccnt stop : Nat) (i : Info) (fuel : Nat) :
    ∀ (this idx : Nat) (acc : List E64) (d : Dev), d.info = i →
      Shape d → RcDom d →
      AcctPlus d (covers d.cs (some (cstart + idx * i.clusterSize, ccnt - idx))) →
      cstart % i.clusterSize = 0 → 0 < cstart → idx < ccnt →
      (∀ o, this ≤ o → o < stop →
        L1.isZero (d.l1Entry o) = false ∧ Split.l1Index i o < d.hdrL1Entries) →
      (∀ o, this ≤ o → o < stop → NoPre d o) →
      (∀ e, e ∈ acc → L2.isCompressed e = false) →
      (∀ o, this ≤ o → o < stop → L2.isCompressed (d.l2Entry o) = false) →
      ∃ d' es next idxf, mapRun cstart ccnt stop fuel this idx acc d = (d', .ok (es, next, idxf)) ∧
        Shape d' ∧ RcDom d' ∧
        AcctPlus d' (covers d'.cs (some (cstart + idxf * i.clusterSize, ccnt - idxf))) ∧
        idxf ≤ ccnt ∧ d'.info = i ∧ d'.hdrL1Entries = d.hdrL1Entries ∧ d'.rtLen = d.rtLen ∧
        ViewStep d d' ∧ (∀ e, e ∈ es → L2.isCompressed e = false) ∧
        (∀ o, d'.l1Entry o = d.l1Entry o) ∧
        (∀ m, m ≤ fuel → this + m * i.clusterSize ≤ stop → ccnt - idx ≤ needFrom d this m →
          idxf = ccnt) := by
  have hcs : 0 < i.clusterSize := cs_pos i
  induction fuel with
  | zero =>
    intro this idx acc d hi s dom hP hal hpos hlt hR hNP hacc hNC
    refine ⟨d, acc.reverse, this, idx, rfl, s, dom, hP, by omega, hi, rfl, rfl, ViewStep.refl d, ?_,
      fun _ => rfl, ?_⟩
    · intro e he; exact hacc e (List.mem_reverse.1 he)
    · intro m hm _ hn
      have : m = 0 := by omega
      subst this
      unfold needFrom at hn
      omega
  | succ fuel ih =>
    intro this idx acc d hi s dom hP hal hpos hlt hR hNP hacc hNC
    subst hi
    rw [mapRun_succ]
    by_cases hts : this < stop
    · rw [if_neg (not_not_intro hts)]
      obtain ⟨hl1, hidx⟩ := hR this (Nat.le_refl _) hts
      by_cases hneed : needMakeMapping d.info (d.mapping this) = true
      · rw [if_pos hneed]
        -- the cluster handed to `this`
        have hn1 : ccnt - idx = (ccnt - idx - 1) + 1 := by omega
        have halh : (cstart + idx * d.info.clusterSize) % d.info.clusterSize = 0 :=
          Arith16.add_mod_zero hal (Nat.mul_mod_left _ _)
        rw [hn1] at hP
        obtain ⟨P2, s2, dom2, hent, hframe, h56, h512⟩ :=
          map_step (d := d) (d' := mappedAt d this (cstart + idx * d.info.clusterSize))
            (off := this) (h := cstart + idx * d.info.clusterSize) (n := ccnt - idx - 1)
            s dom hP halh (by omega) hl1 hidx
            (hNP this (Nat.le_refl _) hts (needMake_plain_none_eq hneed))
            (mappedAt_mframe d this _) rfl
        have hi2 : (mappedAt d this (cstart + idx * d.info.clusterSize)).info = d.info := rfl
        have hP2 : AcctPlus (mappedAt d this (cstart + idx * d.info.clusterSize))
            (covers (mappedAt d this (cstart + idx * d.info.clusterSize)).cs
              (some (cstart + (idx + 1) * d.info.clusterSize, ccnt - (idx + 1)))) := by
          apply acctPlus_congr P2
          intro c
          rw [Nat.add_mul, Nat.one_mul, Nat.add_assoc]
          rfl
        have hkept : EntryKept d (mappedAt d this (cstart + idx * d.info.clusterSize)) this :=
          Or.inr ⟨_, hent, h512, by omega, h56⟩
        have hvs : ViewStep d (mappedAt d this (cstart + idx * d.info.clusterSize)) :=
          ViewStep.of_frame hkept rfl hframe
        have hnce : L2.isCompressed ((mappedAt d this (cstart + idx * d.info.clusterSize)).l2Entry this) = false := by
          rw [hent]; exact isCompressed_mapClusterEntry h512 h56
        by_cases hfin : idx + 1 ≥ ccnt
        · rw [if_pos hfin]
          refine ⟨_, _, _, _, rfl, s2, dom2, hP2, by omega, hi2, rfl, rfl, hvs, ?_,
            (mappedAt_mframe d this _).l1Entry, fun _ _ _ _ => by omega⟩
          intro e he
          rcases List.mem_cons.1 (List.mem_reverse.1 he) with rfl | he
          · exact hnce
          · exact hacc e he
        · rw [if_neg hfin]
          obtain ⟨d', es, next, idxf, hrun, a1, a2, a3, a4, a5, a6, a7, a8, a9, a10, a11⟩ :=
            ih (this + d.info.clusterSize) (idx + 1)
              ((mappedAt d this (cstart + idx * d.info.clusterSize)).l2Entry this :: acc)
              (mappedAt d this (cstart + idx * d.info.clusterSize)) hi2 s2 dom2 hP2 hal hpos (by omega)
              (fun o h1 h2 => by
                rw [(mappedAt_mframe d this _).l1Entry]
                exact hR o (by omega) h2)
              (fun o h1 h2 => hvs.noPre rfl (hNP o (by omega) h2))
              (fun e he => by
                rcases List.mem_cons.1 he with rfl | he
                · exact hnce
                · exact hacc e he)
              (fun o h1 h2 => hvs.notCompressed (hNC o (by omega) h2))
          refine ⟨d', es, next, idxf, hrun, a1, a2, a3, a4, a5, a6, a7, hvs.trans a8, a9,
            fun o => (a10 o).trans ((mappedAt_mframe d this _).l1Entry o), ?_⟩
          intro m hm hstop hn
          cases m with
          | zero => unfold needFrom at hn; omega
          | succ m =>
            apply a11 m (by omega)
            · rw [Nat.add_mul, Nat.one_mul] at hstop; omega
            · unfold needFrom at hn
              rw [if_pos hneed] at hn
              have hc : needFrom (mappedAt d this (cstart + idx * d.info.clusterSize))
                  (this + d.info.clusterSize) m = needFrom d (this + d.info.clusterSize) m := by
                apply needFrom_congr (d := d) (d' := mappedAt d this (cstart + idx * d.info.clusterSize)) rfl
                intro k hk
                apply hframe
                apply index_pair_ne s.geo
                have e : this + d.info.clusterSize + k * d.info.clusterSize
                    = this + (k + 1) * d.info.clusterSize := by
                  rw [Nat.add_mul, Nat.one_mul]; omega
                rw [e, add_mul_cs_div]
                omega
              rw [hc]; omega
      · rw [if_neg hneed, if_neg (by omega)]
        have hnce : L2.isCompressed (d.l2Entry this) = false := hNC this (Nat.le_refl _) hts
        obtain ⟨d', es, next, idxf, hrun, a1, a2, a3, a4, a5, a6, a7, a8, a9, a10, a11⟩ :=
          ih (this + d.info.clusterSize) idx (d.l2Entry this :: acc) d rfl s dom hP hal hpos hlt
            (fun o h1 h2 => hR o (by omega) h2) (fun o h1 h2 => hNP o (by omega) h2)
            (fun e he => by
              rcases List.mem_cons.1 he with rfl | he
              · exact hnce
              · exact hacc e he)
            (fun o h1 h2 => hNC o (by omega) h2)
        refine ⟨d', es, next, idxf, hrun, a1, a2, a3, a4, a5, a6, a7, a8, a9, a10, ?_⟩
        intro m hm hstop hn
        cases m with
        | zero => unfold needFrom at hn; omega
        | succ m =>
          apply a11 m (by omega)
          · rw [Nat.add_mul, Nat.one_mul] at hstop; omega
          · unfold needFrom at hn
            rw [if_neg hneed] at hn
            omega
    · rw [if_pos hts]
      refine ⟨d, acc.reverse, this, idx, rfl, s, dom, hP, by omega, rfl, rfl, rfl, ViewStep.refl d, ?_,
        fun _ => rfl, ?_⟩
      · intro e he; exact hacc e (List.mem_reverse.1 he)
      · intro m hm hstop hn
        cases m with
        | zero => unfold needFrom at hn; omega
        | succ m =>
          exfalso
          rw [Nat.add_mul, Nat.one_mul] at hstop
          omega

/-! ### `__make_multiple_write_mapping` -/

def mmStop (i : Info) (start stop : Nat) : Nat :=
  min stop (start + (i.l2SliceEntries - Split.l2SliceIndex i start) * i.clusterSize)

def mmN (i : Info) (start stop : Nat) : Nat := (mmStop i start stop - start) / i.clusterSize

def mmOffs (i : Info) (start stop : Nat) : List Nat :=
  (List.range (mmN i start stop)).map (fun k => start + k * i.clusterSize)

def mmNeed (d : Dev) (start stop : Nat) : Nat :=
  ((mmOffs d.info start stop).filter (fun o => needMakeMapping d.info (d.mapping o))).length

def mmTail (i : Info) (start stop cstart ccnt : Nat) (d2 : Dev) : Dev × Outcome (List E64 × Nat) :=
  if ccnt = 0 then (d2, .ok ([], 0)) else
  match mapRun cstart ccnt (mmStop i start stop) (mmN i start stop + 1) start 0 [] d2 with
  | (d3, .ok (es, next, done)) =>
    ((if done > 0 then { d3 with needFlush := true } else d3), .ok (es, (next - start) / i.clusterSize))
  | (d3, .err e) => (d3, .err e)
  | (d3, .panic p) => (d3, .panic p)

theorem makeMultiple_eq (start stop : Nat) (d : Dev) :
    makeMultiple start stop d =
      match ensureL2 start d with
      | (d1, .ok ()) =>
        if mmNeed d1 start stop = 0 then
          (d1, .ok ((mmOffs d1.info start stop).map (fun o => d1.l2Entry o), mmN d1.info start stop))
        else
          match allocateClusters (mmNeed d1 start stop) d1 with
          | (d2, .ok (some (cstart, ccnt))) => mmTail d1.info start stop cstart ccnt d2
          | (d2, .ok none) =>
            match allocateClusters 1 d2 with
            | (d3, .ok (some (cstart, ccnt))) => mmTail d1.info start stop cstart ccnt d3
            | (d3, .ok none) => (d3, .err .nospace)
            | (d3, .err e) => (d3, .err e)
            | (d3, .panic p) => (d3, .panic p)
          | (d2, .err e) => (d2, .err e)
          | (d2, .panic p) => (d2, .panic p)
      | (d1, .err e) => (d1, .err e)
      | (d1, .panic p) => (d1, .panic p) := by
  unfold makeMultiple
  simp only [bind, M.bind, M.get, pure]
  generalize ensureL2 start d = r1
  rcases r1 with ⟨d1, _ | e | p⟩
  · dsimp only
    unfold mmNeed mmOffs mmN mmStop
    split
    · rfl
    · simp only [M.bind]
      generalize allocateClusters _ d1 = r2
      rcases r2 with ⟨d2, (_ | ⟨cstart, ccnt⟩) | e | p⟩
      · dsimp only
        simp only [M.bind]
        generalize allocateClusters 1 d2 = r3
        rcases r3 with ⟨d3, (_ | ⟨cstart, ccnt⟩) | e | p⟩
        · rfl
        · dsimp only [M.pure]
          unfold mmTail mmN mmStop
          split
          · rfl
          · simp only [M.bind]
            generalize mapRun _ _ _ _ _ _ _ d3 = r4
            rcases r4 with ⟨d4, ⟨es, next, done⟩ | e | p⟩
            · dsimp only
              split <;> rfl
            · rfl
            · rfl
        · rfl
        · rfl
      · dsimp only [M.pure]
        unfold mmTail mmN mmStop
        split
        · rfl
        · simp only [M.bind]
          generalize mapRun _ _ _ _ _ _ _ d2 = r4
          rcases r4 with ⟨d4, ⟨es, next, done⟩ | e | p⟩
          · dsimp only
            split <;> rfl
          · rfl
          · rfl
      · rfl
      · rfl
  · rfl
  · rfl

theorem filter_offs_eq_needFrom (d : Dev) (n : Nat) :
    ∀ start, (((List.range n).map (fun k => start + k * d.info.clusterSize)).filter
      (fun o => needMakeMapping d.info (d.mapping o))).length = needFrom d start n := by
  induction n with
  | zero => intro _; rfl
  | succ n ih =>
    intro start
    rw [List.range_succ_eq_map, List.map_cons, List.map_map]
    have e : ((fun k => start + k * d.info.clusterSize) ∘ Nat.succ) =
        (fun k => (start + d.info.clusterSize) + k * d.info.clusterSize) := by
      funext k
      show start + (k + 1) * d.info.clusterSize = _
      rw [Nat.add_mul, Nat.one_mul]; omega
    rw [e, Nat.zero_mul, Nat.add_zero]
    unfold needFrom
    rw [← ih (start + d.info.clusterSize), List.filter_cons]
    split
    · rw [List.length_cons]; omega
    · omega

theorem mmNeed_eq_needFrom (d : Dev) (start stop : Nat) :
    mmNeed d start stop = needFrom d start (mmN d.info start stop) :=
  filter_offs_eq_needFrom d _ start

/-- the clusters `__make_multiple_write_mapping` walks over lie in one L2 slice, hence
    in one L2 table: they share the L1 index of `start` -/
theorem l1Index_same_slice {i : Info} (g : Geom i) {start o : Nat} (hal : start % i.clusterSize = 0)
    (h1 : start ≤ o)
    (h2 : o < start + (i.l2SliceEntries - Split.l2SliceIndex i start) * i.clusterSize) :
    Split.l1Index i o = Split.l1Index i start := by
  have hcs : 0 < i.clusterSize := cs_pos i
  have hse : 0 < i.l2SliceEntries := by rw [← g.l2SliceIndexShift_eq]; exact Nat.two_pow_pos _
  have hle : i.l2SliceIndexShift ≤ i.l2IndexShift := by
    apply Arith.pow_le_of_two_pow_le
    rw [g.l2SliceIndexShift_eq, g.l2IndexShift_eq, g.l2SliceEntries_eq, g.l2Entries_eq]
    exact Nat.div_le_div_right (Nat.pow_le_pow_right (by decide) g.l2SliceBits_le)
  -- cluster numbers
  have hq : start / i.clusterSize * i.clusterSize = start := aligned_div_mul hal
  have hidx : Split.l2SliceIndex i start = start / i.clusterSize % i.l2SliceEntries := rfl
  rw [hidx] at h2
  generalize hqd : start / i.clusterSize = q at hq h2
  have hmod := Nat.mod_lt q hse
  have hq1 : q ≤ o / i.clusterSize := by
    rw [← hqd]; exact Nat.div_le_div_right h1
  have hq2 : o / i.clusterSize < q + (i.l2SliceEntries - q % i.l2SliceEntries) := by
    rw [Nat.div_lt_iff_lt_mul hcs, Nat.add_mul, hq]; exact h2
  have hdm := Nat.div_add_mod q i.l2SliceEntries
  have hslice : o / i.clusterSize / i.l2SliceEntries = q / i.l2SliceEntries := by
    apply Nat.div_eq_of_lt_le
    · rw [Nat.mul_comm]; omega
    · rw [Nat.add_mul, Nat.one_mul, Nat.mul_comm]; omega
  have hsplit : i.cb + i.l2IndexShift = i.cb + i.l2SliceIndexShift + (i.l2IndexShift - i.l2SliceIndexShift) := by
    omega
  unfold Split.l1Index
  rw [hsplit, Nat.pow_add, Nat.pow_add, ← Nat.div_div_eq_div_mul, ← Nat.div_div_eq_div_mul,
    ← Nat.div_div_eq_div_mul, ← Nat.div_div_eq_div_mul, g.l2SliceIndexShift_eq]
  show o / i.clusterSize / i.l2SliceEntries / _ = start / i.clusterSize / i.l2SliceEntries / _
  rw [hslice, hqd]

theorem l1Entry_of_l1Index {d : Dev} {a b : Nat} (h : Split.l1Index d.info a = Split.l1Index d.info b) :
    d.l1Entry a = d.l1Entry b := by
  rw [d.l1Entry_eq, d.l1Entry_eq, h]

/-- the tail of `__make_multiple_write_mapping`: the run is mapped completely -/
theorem mmTail_winv {d1 d2 d' : Dev} {start stop cstart ccnt : Nat} {r : Outcome (List E64 × Nat)}
    (hi : d2.info = d1.info) (s : Shape d2) (dom : RcDom d2)
    (hP : AcctPlus d2 (covers d2.cs (some (cstart, ccnt))))
    (hal : cstart % d2.info.clusterSize = 0) (hpos : 0 < cstart) (hc1 : 1 ≤ ccnt)
    (hsal : start % d1.info.clusterSize = 0)
    (hl1 : L1.isZero (d2.l1Entry start) = false)
    (hidx : Split.l1Index d2.info start < d2.hdrL1Entries)
    (hNP : ∀ o, start ≤ o → o < stop → NoPre d2 o)
    (hNC : ∀ o, start ≤ o → o < stop → L2.isCompressed (d2.l2Entry o) = false)
    (hneed : ccnt ≤ needFrom d2 start (mmN d1.info start stop))
    (h : mmTail d1.info start stop cstart ccnt d2 = (d', r)) :
    WInv d' ∧ d'.info = d2.info ∧ d'.hdrL1Entries = d2.hdrL1Entries ∧ d'.rtLen = d2.rtLen ∧
      ViewStep d2 d' ∧ (∀ p, r ≠ .panic p) ∧
      (∀ es done, r = .ok (es, done) → ∀ e, e ∈ es → L2.isCompressed e = false) := by
  have g := s.geo
  have hcs : 0 < d1.info.clusterSize := cs_pos _
  unfold mmTail at h
  rw [if_neg (by omega)] at h
  have hn1 : 1 ≤ mmN d1.info start stop := by
    cases hm : mmN d1.info start stop with
    | zero => rw [hm] at hneed; unfold needFrom at hneed; omega
    | succ k => omega
  have hstop : start + mmN d1.info start stop * d1.info.clusterSize ≤ mmStop d1.info start stop := by
    have := Nat.div_mul_le_self (mmStop d1.info start stop - start) d1.info.clusterSize
    have h1 : 1 * d1.info.clusterSize ≤ mmN d1.info start stop * d1.info.clusterSize :=
      Nat.mul_le_mul_right _ hn1
    unfold mmN at h1 ⊢
    omega
  have hrange : ∀ o, start ≤ o → o < mmStop d1.info start stop →
      Split.l1Index d2.info o = Split.l1Index d2.info start ∧ o < stop := by
    intro o h1 h2
    unfold mmStop at h2
    rw [hi]
    exact ⟨l1Index_same_slice (hi ▸ g) hsal h1 (by omega), by omega⟩
  obtain ⟨d3, es, next, idxf, hrun, a1, a2, a3, a4, a5, a6, a7, a8, a9, a10, a11⟩ :=
    mapRun_acct cstart ccnt (mmStop d1.info start stop) d2.info (mmN d1.info start stop + 1)
      start 0 [] d2 rfl s dom
      (by rw [Nat.zero_mul, Nat.add_zero, Nat.sub_zero]; exact hP) hal hpos (by omega)
      (fun o h1 h2 => by
        obtain ⟨e, _⟩ := hrange o h1 h2
        rw [l1Entry_of_l1Index e, e]; exact ⟨hl1, hidx⟩)
      (fun o h1 h2 => hNP o h1 (hrange o h1 h2).2)
      (fun e he => by cases he)
      (fun o h1 h2 => hNC o h1 (hrange o h1 h2).2)
  have hfull : idxf = ccnt := a11 (mmN d1.info start stop) (by omega) (by rw [hi]; exact hstop)
    (by omega)
  rw [hrun] at h
  dsimp only at h
  simp only [Prod.mk.injEq] at h
  obtain ⟨rfl, rfl⟩ := h
  have hA : Acct d3 := by
    apply acct_of_plus a3
    intro c
    rw [hfull, Nat.sub_self]; exact covers_zero_len _ _ _
  have hfr : MFrame d3 (if idxf > 0 then { d3 with needFlush := true } else d3) := by
    split
    · exact nf_mframe d3
    · exact MFrame.refl d3
  have hl2 : (if idxf > 0 then ({ d3 with needFlush := true } : Dev) else d3).l2 = d3.l2 := by
    split <;> rfl
  refine ⟨hfr.winv hl2 ⟨a1, a2, hA⟩, hfr.info.trans a5, hfr.hdrL1Entries.trans a6, hfr.rtLen.trans a7,
    a8.trans (ViewStep.of_eq (hfr.l2Entry hl2)), fun p hp => (by cases hp), ?_⟩
  intro es' done' he e hm
  simp only [Outcome.ok.injEq, Prod.mk.injEq] at he
  rw [← he.1] at hm
  exact a9 e hm

theorem mmTail_rtLen (i : Info) (start stop cstart ccnt : Nat) (d2 : Dev) :
    (mmTail i start stop cstart ccnt d2).1.rtLen = d2.rtLen := by
  unfold mmTail
  split
  · rfl
  · have := mapRun_rtLen cstart ccnt (mmStop i start stop) (mmN i start stop + 1) start 0 [] d2
    generalize mapRun cstart ccnt (mmStop i start stop) (mmN i start stop + 1) start 0 [] d2 = rr at this
    rcases rr with ⟨d4, ⟨es, next, done⟩ | e | p⟩
    · dsimp only at this ⊢
      split
      · exact this
      · exact this
    · exact this
    · exact this

theorem mmTail_rm (i : Info) (start stop cstart ccnt : Nat) (d2 : Dev) {d' : Dev}
    {r : Outcome (List E64 × Nat)} (h : mmTail i start stop cstart ccnt d2 = (d', r)) : RM d2 d' := by
  unfold mmTail at h
  split at h
  · simp only [Prod.mk.injEq] at h; obtain ⟨rfl, _⟩ := h; exact RM.refl _
  · have := (mapRun_mn cstart ccnt (mmStop i start stop) (mmN i start stop + 1) start 0 []).rm d2
    generalize mapRun cstart ccnt (mmStop i start stop) (mmN i start stop + 1) start 0 [] d2 = rr at this h
    rcases rr with ⟨d4, ⟨es, next, done⟩ | e | p⟩
    · dsimp only at this h
      simp only [Prod.mk.injEq] at h
      obtain ⟨rfl, _⟩ := h
      split
      · exact this.trans (RM.of_same rfl rfl rfl)
      · exact this
    · simp only [Prod.mk.injEq] at h; obtain ⟨rfl, _⟩ := h; exact this
    · simp only [Prod.mk.injEq] at h; obtain ⟨rfl, _⟩ := h; exact this

/-- **`__make_multiple_write_mapping`**, any outcome.  `start` is cluster aligned; the
    clusters of `[start, stop)` have L1 slots the header covers, are not compressed, and
    those that need a mapping have no allocation. -/
theorem makeMultiple_winv {d d' : Dev} {start stop : Nat} {r : Outcome (List E64 × Nat)} (w : WInv d)
    (hsal : start % d.info.clusterSize = 0) (hlt : start < stop)
    (hidx : ∀ o, start ≤ o → o < stop → Split.l1Index d.info o < d.hdrL1Entries)
    (hNP : ∀ o, start ≤ o → o < stop → NoPre d o)
    (hNC : ∀ o, start ≤ o → o < stop → L2.isCompressed (d.l2Entry o) = false)
    (h : makeMultiple start stop d = (d', r)) (hl : Cap d') :
    WInv d' ∧ d'.info = d.info ∧ d'.hdrL1Entries = d.hdrL1Entries ∧ ViewStep d d' ∧
      (∀ p, r ≠ .panic p) ∧
      (∀ es done, r = .ok (es, done) → ∀ e, e ∈ es → L2.isCompressed e = false) := by
  rw [makeMultiple_eq] at h
  generalize h1 : ensureL2 start d = r1 at h
  obtain ⟨d1, o1⟩ := r1
  have hidx0 := hidx start (Nat.le_refl _) hlt
  rcases o1 with _ | e | p
  · dsimp only at h
    by_cases hn0 : mmNeed d1 start stop = 0
    · rw [if_pos hn0] at h
      simp only [Prod.mk.injEq] at h
      obtain ⟨rfl, rfl⟩ := h
      obtain ⟨w1, v1, i1, n1, _, _⟩ := ensureL2_winv w hidx0 h1 hl
      refine ⟨w1, i1, n1, ViewStep.of_eq v1, fun p hp => (by cases hp), ?_⟩
      intro es done he e hm
      simp only [Outcome.ok.injEq, Prod.mk.injEq] at he
      rw [← he.1] at hm
      obtain ⟨o, ho, rfl⟩ := List.mem_map.1 hm
      unfold mmOffs at ho
      obtain ⟨k, hk, rfl⟩ := List.mem_map.1 ho
      have hk' := List.mem_range.1 hk
      rw [v1]
      apply hNC _ (Nat.le_add_right _ _)
      have hcs := cs_pos d1.info
      have h1' : (k + 1) * d1.info.clusterSize ≤ mmN d1.info start stop * d1.info.clusterSize :=
        Nat.mul_le_mul_right _ hk'
      have h2' := Nat.div_mul_le_self (mmStop d1.info start stop - start) d1.info.clusterSize
      have h3' : mmStop d1.info start stop ≤ stop := Nat.min_le_left _ _
      unfold mmN at h1'
      rw [Nat.add_mul, Nat.one_mul] at h1'
      omega
    · rw [if_neg hn0] at h
      -- common facts after `ensure_l2_offset`, given the bound on the table afterwards
      have after : Cap d1 →
          WInv d1 ∧ (∀ o, d1.l2Entry o = d.l2Entry o) ∧ d1.info = d.info ∧
            d1.hdrL1Entries = d.hdrL1Entries ∧ L1.isZero (d1.l1Entry start) = false := by
        intro hl1
        obtain ⟨w1, v1, i1, n1, _, z1⟩ := ensureL2_winv w hidx0 h1 hl1
        exact ⟨w1, v1, i1, n1, z1 rfl⟩
      -- the tail, from a state `d3` that has the run as surplus
      have tail : ∀ {d3 : Dev} {cstart ccnt : Nat}, Cap d1 →
          GrowFrame d1 d3 → APost (mmNeed d1 start stop) (d3, .ok (some (cstart, ccnt))) →
          mmTail d1.info start stop cstart ccnt d3 = (d', r) →
          WInv d' ∧ d'.info = d.info ∧ d'.hdrL1Entries = d.hdrL1Entries ∧ ViewStep d d' ∧
            (∀ p, r ≠ .panic p) ∧
            (∀ es done, r = .ok (es, done) → ∀ e, e ∈ es → L2.isCompressed e = false) := by
        intro d3 cstart ccnt hl1 fr post ht
        obtain ⟨w1, v1, i1, n1, z1⟩ := after hl1
        obtain ⟨s3, dom3, P3, c1, c2, hal3, hpos3⟩ := post
        dsimp only at s3 dom3 P3 hal3
        have hi3 : d3.info = d1.info := fr.info
        have hv3 : ∀ o, d3.l2Entry o = d1.l2Entry o := by
          obtain ⟨_, _, _, _, _, _, _, rfl⟩ := fr; intro o; rfl
        have hl13 : ∀ o, d3.l1Entry o = d1.l1Entry o := by
          obtain ⟨_, _, _, _, _, _, _, rfl⟩ := fr; intro o; rfl
        have hn3 : d3.hdrL1Entries = d1.hdrL1Entries := by
          obtain ⟨_, _, _, _, _, _, _, rfl⟩ := fr; rfl
        have hvs : ViewStep d d3 := ViewStep.of_eq (fun o => (hv3 o).trans (v1 o))
        have hneed : ccnt ≤ needFrom d3 start (mmN d1.info start stop) := by
          rw [needFrom_congr hi3 _ start (fun k _ => hv3 _), ← mmNeed_eq_needFrom]
          exact c2
        obtain ⟨a, b, c, _, e, f, g'⟩ := mmTail_winv hi3 s3 dom3 P3 hal3 hpos3 c1 (by rw [i1]; exact hsal)
          (by rw [hl13]; exact z1) (by rw [hi3, hn3, i1, n1]; exact hidx0)
          (fun o h1 h2 => hvs.noPre (hi3.trans i1) (hNP o h1 h2))
          (fun o h1 h2 => hvs.notCompressed (hNC o h1 h2)) hneed ht
        exact ⟨a, b.trans (hi3.trans i1), c.trans (hn3.trans n1), hvs.trans e, f, g'⟩
      generalize h2 : allocateClusters (mmNeed d1 start stop) d1 = r2 at h
      obtain ⟨d2, o2⟩ := r2
      have m2 := (allocateClusters_mn _).rm_of_eq h2
      rcases o2 with (_ | ⟨cstart, ccnt⟩) | e | p
      · dsimp only at h
        generalize h3 : allocateClusters 1 d2 = r3 at h
        obtain ⟨d3, o3⟩ := r3
        have m3 := (allocateClusters_mn _).rm_of_eq h3
        have hl3 : Cap d3 := by
          rcases o3 with (_ | ⟨cstart, ccnt⟩) | e | p
          · simp only [Prod.mk.injEq] at h; obtain ⟨rfl, _⟩ := h; exact hl
          · dsimp only at h
            exact (mmTail_rm d1.info start stop cstart ccnt d3 h).cap hl
          · simp only [Prod.mk.injEq] at h; obtain ⟨rfl, _⟩ := h; exact hl
          · simp only [Prod.mk.injEq] at h; obtain ⟨rfl, _⟩ := h; exact hl
        have hl2 : Cap d2 := m3.cap hl3
        have hl1 : Cap d1 := m2.cap hl2
        obtain ⟨w1, v1, i1, n1, z1⟩ := after hl1
        obtain ⟨post2, fr2⟩ := allocateClusters_acct w1 hn0 h2 hl2
        have w2 : WInv d2 := ⟨post2.1, post2.2.1, post2.2.2⟩
        obtain ⟨post3, fr3⟩ := allocateClusters_acct w2 (by decide) h3 hl3
        have hi2 : d2.info = d1.info := fr2.info
        have hv2 : ∀ o, d2.l2Entry o = d1.l2Entry o := by
          obtain ⟨_, _, _, _, _, _, _, rfl⟩ := fr2; intro o; rfl
        have hn2 : d2.hdrL1Entries = d1.hdrL1Entries := by
          obtain ⟨_, _, _, _, _, _, _, rfl⟩ := fr2; rfl
        have hi3 : d3.info = d2.info := fr3.info
        have hv3 : ∀ o, d3.l2Entry o = d2.l2Entry o := by
          obtain ⟨_, _, _, _, _, _, _, rfl⟩ := fr3; intro o; rfl
        have hn3 : d3.hdrL1Entries = d2.hdrL1Entries := by
          obtain ⟨_, _, _, _, _, _, _, rfl⟩ := fr3; rfl
        have same3 : ∀ e', (d3, Outcome.err e') = (d', r) → WInv d3 →
            WInv d' ∧ d'.info = d.info ∧ d'.hdrL1Entries = d.hdrL1Entries ∧ ViewStep d d' ∧
              (∀ p, r ≠ .panic p) ∧
              (∀ es done, r = .ok (es, done) → ∀ e, e ∈ es → L2.isCompressed e = false) := by
          intro e' h w3
          simp only [Prod.mk.injEq] at h
          obtain ⟨rfl, rfl⟩ := h
          exact ⟨w3, (hi3.trans hi2).trans i1, (hn3.trans hn2).trans n1,
            ViewStep.of_eq (fun o => ((hv3 o).trans (hv2 o)).trans (v1 o)), fun p hp => (by cases hp),
            fun es done he => (by cases he)⟩
        rcases o3 with (_ | ⟨cstart, ccnt⟩) | e | p
        · exact same3 _ h ⟨post3.1, post3.2.1, post3.2.2⟩
        · dsimp only at h
          obtain ⟨s3, dom3, P3, c1, c2, hal3, hpos3⟩ := post3
          exact tail hl1 (fr2.trans fr3)
            ⟨s3, dom3, P3, c1, by omega, hal3, hpos3⟩ h
        · exact same3 _ h ⟨post3.1, post3.2.1, post3.2.2⟩
        · exact post3.2.2.elim
      · dsimp only at h
        have hl2 : Cap d2 := (mmTail_rm d1.info start stop cstart ccnt d2 h).cap hl
        have hl1 : Cap d1 := m2.cap hl2
        obtain ⟨w1, _⟩ := after hl1
        obtain ⟨post2, fr2⟩ := allocateClusters_acct w1 hn0 h2 hl2
        exact tail hl1 fr2 post2 h
      · simp only [Prod.mk.injEq] at h
        obtain ⟨rfl, rfl⟩ := h
        obtain ⟨w1, v1, i1, n1, z1⟩ := after (m2.cap hl)
        obtain ⟨post2, fr2⟩ := allocateClusters_acct w1 hn0 h2 hl
        have hv2 : ∀ o, d2.l2Entry o = d1.l2Entry o := by
          obtain ⟨_, _, _, _, _, _, _, rfl⟩ := fr2; intro o; rfl
        have hn2 : d2.hdrL1Entries = d1.hdrL1Entries := by
          obtain ⟨_, _, _, _, _, _, _, rfl⟩ := fr2; rfl
        exact ⟨⟨post2.1, post2.2.1, post2.2.2⟩, fr2.info.trans i1, hn2.trans n1,
          ViewStep.of_eq (fun o => (hv2 o).trans (v1 o)), fun p hp => (by cases hp),
          fun es done he => (by cases he)⟩
      · simp only [Prod.mk.injEq] at h
        obtain ⟨rfl, rfl⟩ := h
        obtain ⟨w1, _⟩ := after (m2.cap hl)
        obtain ⟨post2, _⟩ := allocateClusters_acct w1 hn0 h2 hl
        exact post2.2.2.elim
  · simp only [Prod.mk.injEq] at h
    obtain ⟨rfl, rfl⟩ := h
    obtain ⟨w1, v1, i1, n1, _, _⟩ := ensureL2_winv w hidx0 h1 hl
    exact ⟨w1, i1, n1, ViewStep.of_eq v1, fun p hp => (by cases hp), fun es done he => (by cases he)⟩
  · simp only [Prod.mk.injEq] at h
    obtain ⟨rfl, rfl⟩ := h
    obtain ⟨_, _, _, _, np, _⟩ := ensureL2_winv w hidx0 h1 hl
    exact absurd rfl (np p)

/-! ### `make_multiple_write_mappings` -/

theorem makeMultiples_succ (stop fuel start : Nat) (acc : List E64) (d : Dev) :
    makeMultiples stop (fuel + 1) start acc d =
      if ¬ (start < stop) then (d, .ok acc) else
      if needMakeMapping d.info (d.mapping start) then
        match makeMultiple start stop d with
        | (d1, .ok (es, done)) =>
          if done = 0 then (d1, .err .nospace)
          else makeMultiples stop fuel (start + done * d.info.clusterSize) (acc ++ es) d1
        | (d1, .err e) => (d1, .err e)
        | (d1, .panic p) => (d1, .panic p)
      else makeMultiples stop fuel (start + d.info.clusterSize) (acc ++ [d.l2Entry start]) d := by
  rw [makeMultiples]
  rfl

/-- **`make_multiple_write_mappings`**, any outcome -/
theorem makeMultiples_winv (stop : Nat) (i : Info) (fuel : Nat) :
    ∀ (start : Nat) (acc : List E64) (d d' : Dev) (r : Outcome (List E64)), d.info = i → WInv d →
      start % i.clusterSize = 0 →
      (∀ o, start ≤ o → o < stop → Split.l1Index i o < d.hdrL1Entries) →
      (∀ o, start ≤ o → o < stop → NoPre d o) →
      (∀ o, start ≤ o → o < stop → L2.isCompressed (d.l2Entry o) = false) →
      (∀ e, e ∈ acc → L2.isCompressed e = false) →
      makeMultiples stop fuel start acc d = (d', r) → Cap d' →
      WInv d' ∧ d'.info = i ∧ d'.hdrL1Entries = d.hdrL1Entries ∧ ViewStep d d' ∧
        (∀ p, r ≠ .panic p) ∧ (∀ es, r = .ok es → ∀ e, e ∈ es → L2.isCompressed e = false) := by
  induction fuel with
  | zero =>
    intro start acc d d' r hi w _ _ _ _ hacc h _
    simp only [makeMultiples, M.pure, Prod.mk.injEq] at h
    obtain ⟨rfl, rfl⟩ := h
    refine ⟨w, hi, rfl, ViewStep.refl _, fun p hp => (by cases hp), ?_⟩
    intro es he
    simp only [Outcome.ok.injEq] at he
    rw [← he]; exact hacc
  | succ fuel ih =>
    intro start acc d d' r hi w hsal hidx hNP hNC hacc h hl
    subst hi
    rw [makeMultiples_succ] at h
    by_cases hlt : start < stop
    · rw [if_neg (not_not_intro hlt)] at h
      by_cases hneed : needMakeMapping d.info (d.mapping start) = true
      · rw [if_pos hneed] at h
        generalize h1 : makeMultiple start stop d = r1 at h
        obtain ⟨d1, o1⟩ := r1
        rcases o1 with ⟨es, done⟩ | e | p
        · dsimp only at h
          by_cases hd0 : done = 0
          · rw [if_pos hd0] at h
            simp only [Prod.mk.injEq] at h
            obtain ⟨rfl, rfl⟩ := h
            obtain ⟨w1, i1, n1, v1, _, _⟩ := makeMultiple_winv w hsal hlt hidx hNP hNC h1 hl
            exact ⟨w1, i1, n1, v1, fun p hp => (by cases hp), fun es he => (by cases he)⟩
          · rw [if_neg hd0] at h
            have m2 := (makeMultiples_mn stop fuel (start + done * d.info.clusterSize) (acc ++ es)).rm_of_eq h
            obtain ⟨w1, i1, n1, v1, _, c1⟩ := makeMultiple_winv w hsal hlt hidx hNP hNC h1 (m2.cap hl)
            obtain ⟨a, b, c, e, f, g⟩ := ih (start + done * d.info.clusterSize) (acc ++ es) d1 d' r i1 w1
              (Arith16.add_mod_zero hsal (Nat.mul_mod_left _ _))
              (fun o h1 h2 => by rw [n1]; exact hidx o (by omega) h2)
              (fun o h1 h2 => v1.noPre i1 (hNP o (by omega) h2))
              (fun o h1 h2 => v1.notCompressed (hNC o (by omega) h2))
              (fun e he => by
                rcases List.mem_append.1 he with he | he
                · exact hacc e he
                · exact c1 es done rfl e he) h hl
            exact ⟨a, b, c.trans n1, v1.trans e, f, g⟩
        · simp only [Prod.mk.injEq] at h
          obtain ⟨rfl, rfl⟩ := h
          obtain ⟨w1, i1, n1, v1, _, _⟩ := makeMultiple_winv w hsal hlt hidx hNP hNC h1 hl
          exact ⟨w1, i1, n1, v1, fun p hp => (by cases hp), fun es he => (by cases he)⟩
        · simp only [Prod.mk.injEq] at h
          obtain ⟨rfl, rfl⟩ := h
          obtain ⟨_, _, _, _, np, _⟩ := makeMultiple_winv w hsal hlt hidx hNP hNC h1 hl
          exact absurd rfl (np p)
      · rw [if_neg hneed] at h
        exact ih (start + d.info.clusterSize) (acc ++ [d.l2Entry start]) d d' r rfl w
          (Arith16.add_mod_zero hsal (Nat.mod_self _))
          (fun o h1 h2 => hidx o (by omega) h2) (fun o h1 h2 => hNP o (by omega) h2)
          (fun o h1 h2 => hNC o (by omega) h2)
          (fun e he => by
            rcases List.mem_append.1 he with he | he
            · exact hacc e he
            · rw [List.mem_singleton.1 he]; exact hNC start (Nat.le_refl _) hlt) h hl
    · rw [if_pos hlt] at h
      simp only [Prod.mk.injEq] at h
      obtain ⟨rfl, rfl⟩ := h
      refine ⟨w, rfl, rfl, ViewStep.refl _, fun p hp => (by cases hp), ?_⟩
      intro es he
      simp only [Outcome.ok.injEq] at he
      rw [← he]; exact hacc

/-! ### `do_writes` and the whole `__write_at` -/

/-- **the data writes of a multi-cluster request**, any outcome (each piece may take the
    COW path when the image has a backing file) -/
theorem doWrites_winv : ∀ (ps : List (Nat × Nat)) (es : List E64) (toks : List Nat) (d d' : Dev)
    (r : Outcome Unit), WInv d →
    (∀ p, p ∈ ps → Split.l1Index d.info p.1 < d.hdrL1Entries ∧ L2.isCompressed (d.l2Entry p.1) = false) →
    (∀ e, e ∈ es → L2.isCompressed e = false) →
    doWrites ps es toks d = (d', r) → Cap d' →
    WInv d' ∧ d'.info = d.info ∧ d'.hdrL1Entries = d.hdrL1Entries ∧ ViewStep d d' := by
  intro ps
  induction ps with
  | nil =>
    intro es toks d d' r w _ _ h _
    simp only [doWrites, M.pure, Prod.mk.injEq] at h
    obtain ⟨rfl, _⟩ := h
    exact ⟨w, rfl, rfl, ViewStep.refl _⟩
  | cons q ps ih =>
    intro es toks d d' r w hps hes h hl
    obtain ⟨off, n⟩ := q
    rw [doWrites] at h
    cases es with
    | nil =>
      simp only [Prod.mk.injEq] at h
      obtain ⟨rfl, _⟩ := h
      exact ⟨w, rfl, rfl, ViewStep.refl _⟩
    | cons e es' =>
      dsimp only at h
      generalize h1 : doWrite e off (toks.take n) d = r1 at h
      obtain ⟨d1, o1⟩ := r1
      generalize h2 : doWrites ps es' (toks.drop n) d1 = r2 at h
      obtain ⟨d2, o2⟩ := r2
      have m2 := (doWrites_mn ps es' (toks.drop n)).rm_of_eq h2
      have hd : d2 = d' := by
        dsimp only at h
        split at h <;> (simp only [Prod.mk.injEq] at h; exact h.1)
      subst hd
      obtain ⟨hx, hc⟩ := hps (off, n) List.mem_cons_self
      obtain ⟨w1, i1, n1, v1, _⟩ := doWrite_winv w hx (hes e List.mem_cons_self) hc h1 (m2.cap hl)
      obtain ⟨w2, i2, n2, v2⟩ := ih es' (toks.drop n) d1 d2 o2 w1
        (fun p hp => by
          obtain ⟨a, b⟩ := hps p (List.mem_cons_of_mem _ hp)
          rw [i1, n1]; exact ⟨a, v1.notCompressed b⟩)
        (fun e he => hes e (List.mem_cons_of_mem _ he)) h2 hl
      exact ⟨w2, i2.trans i1, n2.trans n1, v1.trans v2⟩

theorem pieces_mem {cs : Nat} (hcs : 0 < cs) (fuel : Nat) :
    ∀ off len p, p ∈ pieces cs fuel off len → off ≤ p.1 ∧ p.1 < off + len := by
  induction fuel with
  | zero => intro off len p hp; simp [pieces] at hp
  | succ fuel ih =>
    intro off len p hp
    rw [pieces] at hp
    split at hp
    · simp at hp
    · have hm := Nat.mod_lt off hcs
      rcases List.mem_cons.mp hp with rfl | hp
      · dsimp only
        omega
      · obtain ⟨a, b⟩ := ih _ _ p hp
        omega

/-- a cluster that intersects the request begins inside the virtual disk -/
theorem cluster_begin_lt {cs x o : Nat} (hcs : 0 < cs) (hx : 0 < x)
    (ho : o < (x + cs - 1) / cs * cs) : o / cs * cs < x := by
  have h1 : o / cs < (x + cs - 1) / cs := by
    rw [Nat.div_lt_iff_lt_mul hcs]; exact ho
  have h2 : (o / cs + 1) * cs ≤ (x + cs - 1) / cs * cs := Nat.mul_le_mul_right _ h1
  have h3 := Nat.div_mul_le_self (x + cs - 1) cs
  rw [Nat.add_mul, Nat.one_mul] at h2
  omega

/-- **`__write_at`**, any request, any outcome.  The guest clusters the request touches
    are not compressed, and those that have to be mapped have no allocation (`NoPre`:
    not the known-leak shape); after the call the refcount table — it may have grown — still
    describes host offsets below 2^56 only (`Cap d'`). -/
theorem writeAt_winv {d d' : Dev} {off len : Nat} {toks : List Nat} {r : Outcome Unit} (w : WInv d)
    (hNP : ∀ o, d.info.clusterRoundDown off ≤ o →
      o < (off + len + d.info.clusterSize - 1) / d.info.clusterSize * d.info.clusterSize → NoPre d o)
    (hNC : ∀ o, d.info.clusterRoundDown off ≤ o →
      o < (off + len + d.info.clusterSize - 1) / d.info.clusterSize * d.info.clusterSize →
      L2.isCompressed (d.l2Entry o) = false)
    (h : writeAt off len toks d = (d', r)) (hl : Cap d') :
    WInv d' ∧ d'.info = d.info ∧ d'.hdrL1Entries = d.hdrL1Entries ∧ ViewStep d d' := by
  have hcs : 0 < d.info.clusterSize := cs_pos _
  cases hchk : writeCheck d.info off len with
  | some e =>
    unfold writeAt at h
    simp only [hchk, Prod.mk.injEq] at h
    obtain ⟨rfl, _⟩ := h
    exact ⟨w, rfl, rfl, ViewStep.refl _⟩
  | none =>
    by_cases hlen : len = 0
    · unfold writeAt at h
      simp only [hchk] at h
      rw [if_pos hlen] at h
      simp only [Prod.mk.injEq] at h
      obtain ⟨rfl, _⟩ := h
      exact ⟨w, rfl, rfl, ViewStep.refl _⟩
    · obtain ⟨hv, _, _, _⟩ := writeCheck_none hchk
      have hrd : d.info.clusterRoundDown off ≤ off := Nat.div_mul_le_self _ _
      have hru : off + len ≤ (off + len + d.info.clusterSize - 1) / d.info.clusterSize * d.info.clusterSize :=
        Arith16.alignUp_ge _ _ hcs
      by_cases hsingle : off / d.info.clusterSize = (off + len - 1) / d.info.clusterSize
      · obtain ⟨a, b, c, e, _⟩ := writeAt_single_winv w hchk hlen hsingle (hNP off hrd (by omega))
          (hNC off hrd (by omega)) h hl
        exact ⟨a, b, c, e⟩
      · unfold writeAt at h
        simp only [hchk] at h
        rw [if_neg hlen, if_neg hsingle] at h
        generalize hstop : (off + len + d.info.clusterSize - 1) / d.info.clusterSize * d.info.clusterSize = stop
          at h hNP hNC hru
        generalize hfuel : (stop - d.info.clusterRoundDown off) / d.info.clusterSize + 1 = fuel at h
        have hidx : ∀ o, d.info.clusterRoundDown off ≤ o → o < stop →
            Split.l1Index d.info o < d.hdrL1Entries := by
          intro o _ h2
          apply l1Index_lt_of_cluster w.shape
          have := cluster_begin_lt (x := off + len) hcs (by omega) (by rw [hstop]; exact h2)
          omega
        generalize h1 : makeMultiples stop fuel (d.info.clusterRoundDown off) [] d = r1 at h
        obtain ⟨d1, o1⟩ := r1
        have hsal : d.info.clusterRoundDown off % d.info.clusterSize = 0 := Nat.mul_mod_left _ _
        rcases o1 with es | e | p
        · dsimp only at h
          generalize h2 : doWrites (pieces d.info.clusterSize fuel off len) es toks d1 = r2 at h
          obtain ⟨d2, o2⟩ := r2
          have m2 := (doWrites_mn (pieces d.info.clusterSize fuel off len) es toks).rm_of_eq h2
          have hd : d2 = d' := by
            rcases o2 with _ | e | p <;> (simp only [Prod.mk.injEq] at h; exact h.1)
          subst hd
          obtain ⟨w1, i1, n1, v1, _, c1⟩ := makeMultiples_winv stop d.info fuel _ [] d d1 _ rfl w hsal hidx
            hNP hNC (fun e he => by cases he) h1 (m2.cap hl)
          obtain ⟨w2, i2, n2, v2⟩ := doWrites_winv _ es toks d1 d2 o2 w1
            (fun p hp => by
              obtain ⟨a, b⟩ := pieces_mem hcs fuel off len p hp
              rw [i1, n1]
              exact ⟨hidx p.1 (by omega) (by omega), v1.notCompressed (hNC p.1 (by omega) (by omega))⟩)
            (c1 es rfl) h2 hl
          exact ⟨w2, i2.trans i1, n2.trans n1, v1.trans v2⟩
        · simp only [Prod.mk.injEq] at h
          obtain ⟨rfl, _⟩ := h
          obtain ⟨w1, i1, n1, v1, _, _⟩ := makeMultiples_winv stop d.info fuel _ [] d d1 _ rfl w hsal hidx
            hNP hNC (fun e he => by cases he) h1 hl
          exact ⟨w1, i1, n1, v1⟩
        · simp only [Prod.mk.injEq] at h
          obtain ⟨rfl, _⟩ := h
          obtain ⟨w1, i1, n1, v1, _, _⟩ := makeMultiples_winv stop d.info fuel _ [] d d1 _ rfl w hsal hidx
            hNP hNC (fun e he => by cases he) h1 hl
          exact ⟨w1, i1, n1, v1⟩

/-- a rejected request changes nothing -/
theorem writeAt_rejected {d : Dev} {off len : Nat} {toks : List Nat} {e : Err}
    (h : writeCheck d.info off len = some e) : writeAt off len toks d = (d, .err e) := by
  unfold writeAt
  simp only [h]

/-- without a backing file, the data write of an uncompressed entry never touches the
    refcount table -/
theorem doWrite_rtLen_noBack {d : Dev} {e : E64} {off : Nat} {toks : List Nat}
    (hb : d.info.hasBack = false) (he : L2.isCompressed e = false) :
    (doWrite e off toks d).1.rtLen = d.rtLen := by
  unfold doWrite
  dsimp only
  generalize hm : L2.intoMapping d.info.cb d.info.hasBack
    (Split.clusterOffset d.info (d.info.clusterRoundDown off)) e = m
  have hmc : m.source ≠ .compressed := by
    rw [← hm]
    intro hx
    rw [(source_compressed_iff _ _ _ _).1 hx] at he; cases he
  split
  · exact (doWriteDataFile_mframe off m none toks d).1.rtLen
  · rename_i hs; exact absurd hs hmc
  · rw [if_neg (by rw [hb]; simp)]
  · rw [if_neg (by rw [hb]; simp)]
  · rfl

end Qv.Model
