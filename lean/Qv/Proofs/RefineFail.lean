import Qv.Proofs.RefineGrowMulti
/-
Helper lemmas for `Qv/Props/C01History.lean`, part 3: discards and reads on `WFZ` states
(states that may carry stale new-cluster marks, left behind by a write that failed midway).

1. `discard` never reads the new-cluster list, it only filters it: the run on the state
   with the list erased is the run on the state itself, list erased (`discard_erase`).
   The erased state satisfies `WFD` (C01RefineMore), so `discard_refines` applies to it.
2. `ZInv` through `discard` (`discard_zinv`): the hole punch zeroes what it unmaps.
3. the flat side: `OwnZ f` (a cluster that is not owned holds zeros) is an invariant of
   the flat disk under `Flat.write` / `Flat.discard`; with it the sectors of `f.discard`
   do not depend on how ownership is tracked (`discard_g`).
4. reads with ARBITRARY offset and length (`read_g`): rejected, empty, clamped or plain.
-/
namespace Qv.Model.RG
open Qv Qv.Codec Qv.Model Qv.Model.RW
open Qv.Props.C15 (Geom)
open Qv.Props.C11 (L1Distinct Whole)
open Qv.Spec (Flat)
open Qv.Proofs.RefineDiscard
open Qv.Props.C01Refine (WF)
open Qv.Props.C01RefineMore (WFD)

/-! ## 1. `discard` and the new-cluster list -/

/-- `d` with the new-cluster list replaced -/
@[reducible] def setN (nd : List Nat) (d : Dev) : Dev := { d with newData := nd }

theorem freeClusters_succ_setN (nd : List Nat) (host n : Nat) (fz : Bool) (d : Dev) :
    freeClusters host (n + 1) fz (setN nd d) =
      if RT.isZero (rtEntryAt d host) then (setN nd d, .err .other)
      else if d.rc.get (host / d.info.clusterSize) = 0 then (setN nd d, .err .invalid)
      else if fz = true ∧ d.rc.get (host / d.info.clusterSize) - 1 = 0 then
        freeClusters (host + d.info.clusterSize) n false
          (setN nd { d with rc := d.rc.set (host / d.info.clusterSize) (d.rc.get (host / d.info.clusterSize) - 1),
                            needFlush := true, hint := min d.hint host })
      else
        freeClusters (host + d.info.clusterSize) n fz
          (setN nd { d with rc := d.rc.set (host / d.info.clusterSize) (d.rc.get (host / d.info.clusterSize) - 1),
                            needFlush := true }) :=
  freeClusters_succ host n fz (setN nd d)

/-- `free_clusters` neither reads nor writes the new-cluster list -/
theorem freeClusters_nd (nd : List Nat) : ∀ (n host : Nat) (fz : Bool) (d : Dev),
    freeClusters host n fz (setN nd d) =
      (setN nd (freeClusters host n fz d).1, (freeClusters host n fz d).2) := by
  intro n
  induction n with
  | zero => intro host fz d; rfl
  | succ n ih =>
    intro host fz d
    rw [freeClusters_succ_setN, freeClusters_succ]
    split
    · rfl
    · split
      · rfl
      · split
        · exact ih _ _ _
        · exact ih _ _ _

theorem discardOne_erase (g : Nat) (d : Dev) :
    discardOne g (setN [] d) = (setN [] (discardOne g d).1, (discardOne g d).2) := by
  by_cases hn : L1.isZero (d.l1Entry g) = true ∨ L2.isCompressed (d.l2Entry g) = true ∨
      L2.allocation d.info.cb (d.l2Entry g) = none
  · rw [discardOne_noop g d hn, discardOne_noop g (setN [] d) hn]
  · have hc : L2.isCompressed (d.l2Entry g) = false := by
      cases hx : L2.isCompressed (d.l2Entry g) with
      | false => rfl
      | true => exact absurd (Or.inr (Or.inl hx)) hn
    cases ha : L2.allocation d.info.cb (d.l2Entry g) with
    | none => exact absurd (Or.inr (Or.inr ha)) hn
    | some x =>
      obtain ⟨host, cnt⟩ := x
      rw [discardOne_alloc g d host cnt hc ha, discardOne_alloc g (setN [] d) host cnt hc ha]
      by_cases hb : d.info.hasBack = true ∧ d.version < 3
      · rw [if_pos hb, if_pos hb]
        rfl
      · rw [if_neg hb, if_neg hb]
        have e : ({ (setN [] d).setL2 g (if (setN [] d).info.hasBack = true then 1#64 else 0#64) with
              needFlush := true } : Dev) =
            setN [] { d.setL2 g (if d.info.hasBack = true then 1#64 else 0#64) with needFlush := true } := rfl
        rw [e, freeClusters_nd]
        generalize freeClusters host cnt true
          { d.setL2 g (if d.info.hasBack = true then 1#64 else 0#64) with needFlush := true } = rr
        obtain ⟨d2, (_ | e | p)⟩ := rr <;> rfl

theorem discardLoop_erase (stop : Nat) (fuel : Nat) : ∀ (g : Nat) (d : Dev),
    discardLoop stop fuel g (setN [] d) =
      (setN [] (discardLoop stop fuel g d).1, (discardLoop stop fuel g d).2) := by
  induction fuel with
  | zero => intro g d; rfl
  | succ fuel ih =>
    intro g d
    rw [discardLoop_succ, discardLoop_succ, discardOne_erase]
    split
    · rfl
    · generalize discardOne g d = r1
      obtain ⟨d1, (_ | e | p)⟩ := r1
      · exact ih _ d1
      · rfl
      · rfl

/-- **`discard` on the state with the new-cluster list erased** is `discard` on the state,
    list erased: same outcome, and the same state up to the list -/
theorem discard_erase (off len : Nat) (d : Dev) :
    Model.discard off len (setN [] d) =
      (setN [] (Model.discard off len d).1, (Model.discard off len d).2) := by
  unfold Model.discard
  dsimp only
  split
  · rfl
  · split
    · rfl
    · rfl
    · rfl
    · exact discardLoop_erase _ _ _ d

/-! ## 2. `ZInv` through `discard` -/

theorem discardOne_zinv {g : Nat} {d d' : Dev} (hnb : d.info.hasBack = false) (hD : L1Distinct d)
    (z : ZInv d) (h : discardOne g d = (d', .ok ())) :
    ZInv d' ∧ L1Distinct d' ∧ d'.info = d.info := by
  by_cases hn : L1.isZero (d.l1Entry g) = true ∨ L2.isCompressed (d.l2Entry g) = true ∨
      L2.allocation d.info.cb (d.l2Entry g) = none
  · rw [discardOne_noop g d hn] at h
    simp only [Prod.mk.injEq, and_true] at h
    subst h
    exact ⟨z, hD, rfl⟩
  · have hc : L2.isCompressed (d.l2Entry g) = false := by
      cases hx : L2.isCompressed (d.l2Entry g) with
      | false => rfl
      | true => exact absurd (Or.inr (Or.inl hx)) hn
    cases ha : L2.allocation d.info.cb (d.l2Entry g) with
    | none => exact absurd (Or.inr (Or.inr ha)) hn
    | some x =>
      obtain ⟨host, cnt⟩ := x
      have hd := Qv.Props.C11.discardOne_plain_spec g d d' host cnt hnb hc ha h
      obtain ⟨f1, _, f3, f4, _⟩ := hd.frame
      obtain ⟨hcnt, hhost, _⟩ := hd.alloc
      subst hcnt
      refine ⟨?_, l1Distinct_congr f1 f3 f4 hD, f1⟩
      intro σ hσ
      have hout : ¬ (host / 512 ≤ σ ∧ σ < host / 512 + 1 * d.spc) := by
        intro hin
        exact hσ (hd.data_zeroed σ hin.1 hin.2)
      rw [hd.data_frame σ hout] at hσ
      obtain ⟨o, h', a1, a2, a3, a4, a5, a6⟩ := z σ hσ
      have hne : o / d.info.clusterSize ≠ g / d.info.clusterSize := by
        intro hcl
        rw [mapping_congr d hcl] at a2 a3
        obtain ⟨_, _, c3, _⟩ := mapping_dataFile_entry a2
        rw [a3] at c3
        injection c3 with c3
        rw [← hhost] at c3
        subst c3
        apply hout
        rw [Nat.one_mul]
        exact ⟨a4, a5⟩
      have hl2 : d'.l2Entry o = d.l2Entry o :=
        Qv.Props.C11.discardOne_l2_frame hd hD o (index_ne_of_cluster_ne d.info hne)
      have hm : d'.mapping o = d.mapping o := mapping_of_l2Entry f1 hl2
      refine ⟨o, h', by rw [f1]; exact a1, by rw [hm]; exact a2, by rw [hm]; exact a3, a4, ?_, ?_⟩
      · unfold Dev.spc at a5 ⊢; rw [f1]; exact a5
      · rw [f1, hd.newData]
        intro hm'
        exact a6 (List.mem_filter.1 hm').1

theorem discardLoop_zinv (stop : Nat) (fuel : Nat) : ∀ (g : Nat) (d d' : Dev),
    d.info.hasBack = false → L1Distinct d → ZInv d → discardLoop stop fuel g d = (d', .ok ()) → ZInv d' := by
  induction fuel with
  | zero =>
    intro g d d' _ _ z h
    simp only [discardLoop, M.pure, Prod.mk.injEq, and_true] at h
    subst h; exact z
  | succ fuel ih =>
    intro g d d' hnb hD z h
    rw [discardLoop_succ] at h
    split at h
    · simp only [Prod.mk.injEq, and_true] at h
      subst h; exact z
    · generalize h1 : discardOne g d = r1 at h
      obtain ⟨d1, (_ | e | p)⟩ := r1
      · dsimp only at h
        obtain ⟨z1, hD1, hi1⟩ := discardOne_zinv hnb hD z h1
        exact ih _ d1 d' (by rw [hi1]; exact hnb) hD1 z1 h
      · simp at h
      · simp at h

theorem discard_zinv {d d' : Dev} {off len : Nat} (hnb : d.info.hasBack = false) (hD : L1Distinct d)
    (z : ZInv d) (h : Model.discard off len d = (d', .ok ())) : ZInv d' := by
  unfold Model.discard at h
  dsimp only at h
  split at h
  · simp at h
  · split at h
    · simp at h
    · simp at h
    · simp only [Prod.mk.injEq, and_true] at h
      subst h; exact z
    · exact discardLoop_zinv _ _ _ d d' hnb hD z h

/-! ## 3. the flat side of a discard -/

/-- a cluster (entirely inside the virtual disk) that is not owned holds zeros.  True for the
    blank disk and kept by `Flat.write` and `Flat.discard`: an invariant of the flat
    reference disk itself. -/
def OwnZ (f : Flat) : Prop :=
  ∀ s, (s / f.secPerCl) * f.cs + f.cs ≤ f.vsize → f.own.get (s / f.secPerCl) = false → f.sec.get s = 0

/-- the relation of a history: the device shows the sectors of `f`, `f` has the geometry of
    the device, and `f` satisfies `OwnZ`.  (No link between `f.own` and the mappings of the
    device: after a write that failed midway the device may map clusters — to fresh clusters,
    which hold zeros — that the flat disk does not own.) -/
structure RefinesZ (d : Dev) (f : Flat) : Prop where
  sec : Refines d f
  vsize : f.vsize = d.info.vsize
  cs : f.cs = d.info.clusterSize
  ownz : OwnZ f

/-- "mapped to the data file", as a map (for `OwnLink`) -/
def ownOf (d : Dev) : FMap Bool :=
  (FMap.empty false).setRange 0 (d.info.vsize / d.info.clusterSize + 1)
    (fun g => decide ((d.mapping (g * d.info.clusterSize)).source = .dataFile))

theorem ownOf_get (d : Dev) (g : Nat) (hg : g * d.info.clusterSize < d.info.vsize) :
    (ownOf d).get g = true ↔ (d.mapping (g * d.info.clusterSize)).source = .dataFile := by
  have hcs := cs_pos d.info
  have hlt : g < d.info.vsize / d.info.clusterSize + 1 := by
    have : g ≤ d.info.vsize / d.info.clusterSize := by
      rw [Nat.le_div_iff_mul_le hcs]; omega
    omega
  unfold ownOf
  rw [FMap.setRange_get, if_pos ⟨Nat.zero_le _, by omega⟩, Nat.sub_zero]
  simp

theorem wfd_erase {d : Dev} (wz : WFZ d) : WFD (setN [] d) := by
  obtain ⟨a1, a2, a3, a4, a5, a6, a7, a8, a9⟩ := wz.st
  obtain ⟨b1, b2⟩ := wz.tab
  obtain ⟨c1, c2, c3⟩ := wz.map
  refine ⟨⟨⟨a1, a2, a3, a4, a5, a6, a7, a8, a9⟩, ⟨b1, b2⟩, ⟨c1, c2, c3⟩, ?_⟩, ?_, ?_⟩
  · intro o _ hn
    obtain ⟨_, _, _, hm⟩ := hn
    cases hm
  · exact (show MFrame d (setN [] d) from ⟨rfl, rfl, rfl, rfl, rfl, rfl, rfl, rfl, rfl, rfl, rfl⟩).winv rfl
      wz.hinv.winv
  · exact wz.hinv.plain.of_viewStep (Model.ViewStep.of_eq fun _ => rfl) rfl

theorem discard_hinv_z {d d' : Dev} {off len : Nat} {r : Outcome Unit} (hI : HInv d)
    (h : Model.discard off len d = (d', r)) (hcap : Cap d) : HInv d' := by
  have hcap' : Cap (hstep d (.discard off len)) := by
    obtain ⟨a1, _, _, _, _, a6, _, _⟩ := Qv.Props.C11.discard_frame d off len
    show (Model.discard off len d).1.rtLen * (Model.discard off len d).1.info.rbEntries *
      (Model.discard off len d).1.info.clusterSize ≤ 2^56
    rw [a1, a6]; exact hcap
  have := hstep_hinv hI (.discard off len) hcap'
  rw [show hstep d (.discard off len) = (Model.discard off len d).1 from rfl, h] at this
  exact this

/-- on a writable `WFZ` device whose virtual size is not within a cluster of 2^64 a discard
    returns `Ok`, whatever `off` and `len`; on a read-only device it is refused and nothing
    changes -/
theorem discard_outcome {d d' : Dev} {off len : Nat} {r : Outcome Unit} (wz : WFZ d)
    (hv : d.info.vsize + d.info.clusterSize ≤ 2^64)
    (h : Model.discard off len d = (d', r)) :
    (d.info.readOnly = false → r = .ok ()) ∧ (d.info.readOnly = true → d' = d ∧ r = .err .readOnly) := by
  have hcs := cs_pos d.info
  constructor
  · intro hro
    have hp := Qv.Props.C13.discard_prologue_nopanic d.info off len hv
    unfold Model.discard at h
    dsimp only at h
    rw [hro] at h
    simp only [Bool.false_eq_true, if_false] at h
    cases hr : discardRange d.info off len with
    | panic p => rw [hr] at hp; cases hp
    | err x => rw [hr] at hp; cases hp
    | ok rr =>
      rw [hr] at h
      cases rr with
      | none =>
        simp only [Prod.mk.injEq] at h
        exact h.2.symm
      | some x =>
        obtain ⟨start, stop⟩ := x
        obtain ⟨_, _, hsv, _, _, _⟩ := Qv.Props.C13.discard_range_inside d.info off len start stop hr hcs
        dsimp only at h
        exact (discardLoop_winv stop _ start d d' r wz.hinv.winv hsv h).2.1
  · intro hro
    rw [Qv.Props.C11.discard_ro d off len hro] at h
    simp only [Prod.mk.injEq] at h
    exact ⟨h.1.symm, h.2.symm⟩

theorem whole_congr {f f' : Flat} (h1 : f'.cs = f.cs) (h2 : f'.vsize = f.vsize) (off len g : Nat) :
    Whole f' off len g ↔ Whole f off len g := by
  unfold Whole Qv.Props.C11.flatEnd
  rw [h1, h2]

/-- **the refinement step for `discard` on a `WFZ` state.**  ANY `off`, `len`; the call
    returned `Ok`: the device is well-formed again and shows `f.discard off len`, and the
    flat disk keeps `OwnZ`. -/
theorem discard_g (d d' : Dev) (f : Flat) (off len : Nat) (wz : WFZ d) (hr : RefinesZ d f)
    (h : Model.discard off len d = (d', .ok ())) :
    WFZ d' ∧ RefinesZ d' (f.discard off len) ∧ d'.info = d.info := by
  have hcs := cs_pos d.info
  have hI' := discard_hinv_z wz.hinv h wz.st.rt56
  have hz' := discard_zinv wz.st.noBackName wz.tab.distinct wz.z h
  -- the run on the erased state
  have he := discard_erase off len d
  rw [h] at he
  dsimp only at he
  let f0 : Flat := { f with own := ownOf d }
  have hr0 : RefinesO (setN [] d) f0 := by
    refine ⟨?_, hr.vsize, hr.cs, ?_⟩
    · intro s hs
      exact hr.sec s hs
    · intro g hg
      exact ownOf_get d g hg
  obtain ⟨⟨wf1, _⟩, hr1, hi1⟩ := Qv.Props.C01RefineMore.discard_refines (setN [] d) (setN [] d') f0 off len
    (wfd_erase wz) hr0 he
  have hi : d'.info = d.info := hi1
  obtain ⟨a1, a2, a3, a4, a5, a6, a7, a8, a9⟩ := wf1.st
  obtain ⟨b1, b2⟩ := wf1.tab
  obtain ⟨c1, c2, c3⟩ := wf1.map
  have hq' : L1Q d' := by
    obtain ⟨_, _, s3, s4, s5, _⟩ := discard_sameFrame off len d
    rw [h] at s3 s4 s5
    dsimp only at s3 s4 s5
    unfold L1Q; rw [s3, s4, s5]; exact wz.q
  refine ⟨⟨⟨a1, a2, a3, a4, a5, a6, a7, a8, a9⟩, ⟨b1, b2⟩, ⟨c1, c2, c3⟩, hI', hz', hq'⟩, ?_, hi⟩
  have hspc := cs512 wz.st
  have hspcpos : 0 < d.spc := by omega
  have hfspc : f.secPerCl = d.spc := by unfold Flat.secPerCl Dev.spc; rw [hr.cs]
  have hf0spc : f0.secPerCl = d.spc := hfspc
  obtain ⟨dc, dv⟩ := Qv.Props.C11.flat_discard_cs f off len (by rw [hfspc]; exact hspcpos)
  refine ⟨?_, by rw [dv, hr.vsize, hi], by rw [dc, hr.cs, hi], ?_⟩
  · -- sectors
    intro s hs
    rw [hi] at hs
    have h1 : guestSec d' s = (f0.discard off len).sec.get s := hr1.sec s (by rw [hi1]; exact hs)
    rw [h1, Qv.Props.C11.flat_discard_spec f0 off len s (by rw [hf0spc]; exact hspcpos),
      Qv.Props.C11.flat_discard_spec f off len s (by rw [hfspc]; exact hspcpos), hf0spc, hfspc]
    have hW : Whole f0 off len (s / d.spc) ↔ Whole f off len (s / d.spc) := whole_congr rfl rfl off len _
    show (if Whole f0 off len (s / d.spc) ∧ (ownOf d).get (s / d.spc) = true then 0 else f.sec.get s) = _
    by_cases hw : Whole f off len (s / d.spc)
    · obtain ⟨_, _, wb⟩ := Qv.Props.C11.whole_bounds f off len _ (by rw [hr.cs]; exact hcs) hw
      rw [hr.cs, hr.vsize] at wb
      have hclv : s / d.spc * d.info.clusterSize < d.info.vsize := by omega
      have hcl : s * 512 / d.info.clusterSize = s / d.spc := sector_cluster hspc s
      have hmc : d.mapping (s / d.spc * d.info.clusterSize) = d.mapping (s * 512) := by
        apply mapping_congr
        rw [Nat.mul_div_cancel _ hcs, hcl]
      by_cases ho0 : (ownOf d).get (s / d.spc) = true
      · rw [if_pos ⟨hW.2 hw, ho0⟩]
        by_cases ho : f.own.get (s / d.spc) = true
        · rw [if_pos ⟨hw, ho⟩]
        · rw [if_neg (fun x => ho x.2)]
          have := hr.ownz s (by rw [hfspc, hr.cs, hr.vsize]; exact wb)
            (by rw [hfspc]; simpa using ho)
          exact this.symm
      · rw [if_neg (fun x => ho0 x.2)]
        have hnd : (d.mapping (s * 512)).source ≠ .dataFile := by
          intro hx
          apply ho0
          rw [ownOf_get d _ hclv, hmc]; exact hx
        have hz0 : f.sec.get s = 0 := by
          rw [← hr.sec s hs]
          exact guestSec_nondata d s wz.st.noBack hnd (wz.map.ent _ (by omega)).1
        rw [hz0]
        split <;> rfl
    · rw [if_neg (fun x => hw (hW.1 x.1)), if_neg (fun x => hw x.1)]
  · -- `OwnZ` of the flat disk after the discard
    intro s hsv hown
    have hsp' : (f.discard off len).secPerCl = f.secPerCl := by
      unfold Flat.secPerCl; rw [dc]
    rw [hsp'] at hsv hown
    rw [dc, dv] at hsv
    rw [Qv.Props.C11.flat_discard_own f off len _ (by rw [hfspc]; exact hspcpos)] at hown
    rw [Qv.Props.C11.flat_discard_spec f off len s (by rw [hfspc]; exact hspcpos)]
    by_cases hw : Whole f off len (s / f.secPerCl)
    · by_cases ho : f.own.get (s / f.secPerCl) = true
      · rw [if_pos ⟨hw, ho⟩]
      · rw [if_neg (fun x => ho x.2)]
        exact hr.ownz s hsv (by simpa using ho)
    · rw [if_neg hw] at hown
      rw [if_neg (fun x => hw x.1)]
      exact hr.ownz s hsv hown


/-! ## 4. the flat side of a write -/

theorem ownZ_write {f : Flat} (hz : OwnZ f) (hcs : f.cs = 512 * f.secPerCl) (off : Nat) (toks : List Nat)
    (ho : off % 512 = 0) : OwnZ (f.write off toks) := by
  intro s hsv hown
  have hsp : (f.write off toks).secPerCl = f.secPerCl := by
    unfold Flat.secPerCl; rw [Flat.write_cs]
  rw [hsp] at hsv hown
  rw [Flat.write_cs, Flat.write_vsize] at hsv
  rw [Flat.write_own_get] at hown
  rw [Flat.write_sec_get]
  by_cases hin : off / 512 ≤ s ∧ s < off / 512 + toks.length
  · exfalso
    have hne : toks ≠ [] := by
      intro e; rw [e] at hin; simp at hin; omega
    have hcl : s * 512 / f.cs = s / f.secPerCl := sector_cluster hcs s
    have h1 : off / f.cs ≤ s / f.secPerCl := by
      rw [← hcl]; exact Nat.div_le_div_right (by omega)
    have h2 : s / f.secPerCl ≤ (off + toks.length * 512 - 1) / f.cs := by
      rw [← hcl]; exact Nat.div_le_div_right (by omega)
    rw [if_pos ⟨hne, h1, h2⟩] at hown
    cases hown
  · rw [if_neg hin]
    split at hown
    · cases hown
    · exact hz s hsv hown

theorem flat_cs512 {d : Dev} {f : Flat} (st : Static d) (hc : f.cs = d.info.clusterSize) :
    f.cs = 512 * f.secPerCl := by
  have := cs512 st
  unfold Flat.secPerCl
  unfold Dev.spc at this
  rw [hc]; exact this

/-- **the refinement step for `__write_at`** (`write_g`) with the relation of histories -/
theorem write_gz (d d' : Dev) (f : Flat) (off len : Nat) (toks : List Nat) (r : Outcome Unit)
    (wz : WFZ d) (hr : RefinesZ d f) (htoks : toks.length = len / 512)
    (hw : writeAt off len toks d = (d', r)) (hcap : Cap d') :
    WFZ d' ∧ d'.info = d.info ∧ (∀ p, r ≠ .panic p) ∧
    (r = .ok () → RefinesZ d' (f.write off toks)) ∧ (r ≠ .ok () → RefinesZ d' f) := by
  obtain ⟨wz', hi, np, hok, herr⟩ := write_g d d' f off len toks r wz hr.sec htoks hw hcap
  refine ⟨wz', hi, np, fun hro => ?_, fun hne => ⟨herr hne, by rw [hr.vsize, hi], by rw [hr.cs, hi], hr.ownz⟩⟩
  refine ⟨hok hro, by rw [Flat.write_vsize, hr.vsize, hi], by rw [Flat.write_cs, hr.cs, hi], ?_⟩
  cases hc : writeCheck d.info off len with
  | some e =>
    rw [writeAt_rejected hc] at hw
    simp only [Prod.mk.injEq] at hw
    rw [← hw.2] at hro
    cases hro
  | none =>
    obtain ⟨_, _, hob, _⟩ := writeCheck_none hc
    exact ownZ_write hr.ownz (flat_cs512 wz.st hr.cs) off toks
      (Qv.Props.C01Refine.mod512_of_mod_bs wz.st.bsb9 hob)

/-! ## 5. reads with arbitrary offset and length -/

/-- what `__read_at(buf, offset)` returns on the flat disk `f` for a device with geometry
    `i` (block size, virtual size): the prologue of the device (`readPlan`: rejected with
    `Err`, empty, clamped at the end of the disk to a block multiple) and then the sectors
    of `f`; the part of the buffer that is not filled carries `poison` -/
def flatReadAt (i : Info) (f : Flat) (off len : Nat) : Outcome (Nat × List Nat) :=
  match readPlan i off len with
  | .reject e => .err e
  | .empty => .ok (0, [])
  | .run clen =>
    if clen = 0 then .ok (0, List.replicate (len / 512) poison)
    else .ok (clen, f.read off (clen / 512) ++ List.replicate ((len - clen) / 512) poison)

theorem readPlan_run {i : Info} {off len c : Nat} (h : readPlan i off len = .run c) :
    off % i.bs = 0 ∧ c % i.bs = 0 ∧ off + c ≤ i.vsize := by
  unfold readPlan at h
  by_cases h1 : off ≥ i.vsize
  · simp [h1] at h
  · by_cases hl : len = 0
    · simp [h1, hl] at h
    · by_cases h2 : len % i.bs = 0
      · by_cases h3 : off % i.bs = 0
        · simp only [h1, hl, h2, h3, if_false, ne_eq, not_true_eq_false] at h
          injection h with h
          refine ⟨h3, ?_, ?_⟩
          · rw [← h]
            split
            · exact Nat.mul_mod_left _ _
            · exact h2
          · rw [← h]
            split
            · have := Nat.div_mul_le_self (i.vsize - off) i.bs
              omega
            · omega
        · simp [h1, hl, h2, h3] at h
      · simp [h1, hl, h2] at h

/-- **every read** — any offset, any length — returns on a device that shows `f` exactly
    what `flatReadAt` returns on `f` -/
theorem read_g (d : Dev) (f : Flat) (st : Static d) (hr : Refines d f) (off len : Nat) :
    readAt d off len = flatReadAt d.info f off len := by
  unfold readAt flatReadAt
  dsimp only
  cases hp : readPlan d.info off len with
  | reject e => rfl
  | empty => rfl
  | run clen =>
    dsimp only
    by_cases hc0 : clen = 0
    · rw [if_pos hc0, if_pos hc0]
    · rw [if_neg hc0, if_neg hc0]
      obtain ⟨hob, hcb, hv⟩ := readPlan_run hp
      have ho := Qv.Props.C01Refine.mod512_of_mod_bs st.bsb9 hob
      have hc5 := Qv.Props.C01Refine.mod512_of_mod_bs st.bsb9 hcb
      have h512 : d.info.clusterSize % 512 = 0 := by have := cs512 st; omega
      rw [doReads_sectorwise d h512 _ off clen ho hc5 (fuel_enough' (cs_pos d.info))]
      dsimp only
      congr 3
      unfold Flat.read
      apply List.map_congr_left
      intro k hk
      have hk' := List.mem_range.mp hk
      apply hr
      omega

end Qv.Model.RG
