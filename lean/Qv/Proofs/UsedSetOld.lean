import Qv.Proofs.UsedSet
/-
The used-cluster set as it was found (`insertOld`): it is correct as long as no
cluster is added twice.  The old map (every range stored under its start and under
its end) is related to the repaired map (`Rel`), and `insertOld` of a cluster that is
not yet covered simulates `insert`.
-/
namespace Qv.Model.UsedSet

/-- the old map stores exactly the ranges of `s`, each under its start and its end -/
def Rel (m : RMap) (s : SMap) : Prop := ∀ k v, (k, v) ∈ m ↔ (v ∈ s ∧ (k = v.1 ∨ k = v.2))

theorem Rel.congr {m : RMap} {s s' : SMap} (h : Rel m s) (e : ∀ v, v ∈ s ↔ v ∈ s') : Rel m s' := by
  intro k v; rw [h k v, e v]

theorem WFp.eq_of_not_sep {s : SMap} (h : WFp s) {a b : Nat × Nat} (ha : a ∈ s) (hb : b ∈ s)
    (hn : ¬ Sep a b) : a = b :=
  Classical.byContradiction fun hne => hn (h.sep ha hb hne)

theorem WFp.filter {s : SMap} (h : WFp s) (p : Nat × Nat → Bool) : WFp (s.filter p) :=
  ⟨h.1.filter p, fun r hr => h.2 r (List.mem_filter.1 hr).1⟩

theorem mem_erase (m : RMap) (k : Nat) (p : Nat × (Nat × Nat)) : p ∈ erase m k ↔ p ∈ m ∧ p.1 ≠ k := by
  simp [erase]

theorem mem_put (m : RMap) (k : Nat) (v : Nat × Nat) (p : Nat × (Nat × Nat)) :
    p ∈ put m k v ↔ (p ∈ m ∧ p.1 ≠ k) ∨ p = (k, v) := by
  simp [put, mem_erase]

theorem get?_some_mem {m : RMap} {k : Nat} {v : Nat × Nat} (h : get? m k = some v) : (k, v) ∈ m := by
  unfold get? at h
  rw [Option.map_eq_some_iff] at h
  obtain ⟨a, ha, rfl⟩ := h
  have h1 := List.mem_of_find?_eq_some ha
  have h2 := List.find?_some ha
  simp at h2
  rw [← h2]; exact h1

theorem get?_none {m : RMap} {k : Nat} (h : get? m k = none) : ∀ p ∈ m, p.1 ≠ k := by
  unfold get? at h
  rw [Option.map_eq_none_iff, List.find?_eq_none] at h
  intro r hr; simpa using h r hr

/-! ### the three stages of `insertOld` -/

def stageLo (m : RMap) (num : Nat) : Nat × RMap :=
  if num > 0 then
    match remove m (num - 1) with
    | (some r, m1) => (r.1, erase m1 r.1)
    | (none, m1) => (num, m1)
  else (num, m)

def stageHi (m : RMap) (num : Nat) : Nat × RMap :=
  match remove m (num + 1) with
  | (some r, m1) => (r.2, erase m1 r.2)
  | (none, m1) => (num, m1)

def stageMid (m : RMap) (num start end_ : Nat) : Nat × Nat × RMap :=
  match remove m num with
  | (some r, m1) => (min start r.1, max end_ r.2, m1)
  | (none, m1) => (start, end_, m1)

theorem insertOld_eq (m : RMap) (num : Nat) :
    insertOld m num =
      let a := stageLo m num
      let b := stageHi a.2 num
      let c := stageMid b.2 num a.1 b.1
      put (put c.2.2 c.1 (c.1, c.2.1)) c.2.1 (c.1, c.2.1) := rfl

theorem stageLo_spec {m : RMap} {s : SMap} (hR : Rel m s) (hW : WFp s) {num start : Nat}
    (hnc : ∀ r ∈ s, ¬ (r.1 ≤ num ∧ num ≤ r.2))
    (hS : (start = num ∧ ∀ r ∈ s, r.2 + 1 ≠ num) ∨ (∃ e, (start, e) ∈ s ∧ e + 1 = num)) :
    (stageLo m num).1 = start ∧
      Rel (stageLo m num).2 (s.filter (fun v => v.2 + 1 != num)) := by
  unfold stageLo
  by_cases h0 : num > 0
  · rw [if_pos h0]
    unfold remove
    cases hg : get? m (num - 1) with
    | none =>
      dsimp only
      have hk := get?_none hg
      rcases hS with ⟨rfl, hS⟩ | ⟨e, he, he1⟩
      · refine ⟨rfl, ?_⟩
        intro k v
        rw [mem_erase, hR k v, List.mem_filter]
        simp only [bne_iff_ne, ne_eq]
        constructor
        · rintro ⟨⟨h1, h2⟩, _⟩; exact ⟨⟨h1, hS v h1⟩, h2⟩
        · rintro ⟨⟨h1, _⟩, h2⟩
          exact ⟨⟨h1, h2⟩, hk (k, v) ((hR k v).2 ⟨h1, h2⟩)⟩
      · exact absurd (by dsimp only; omega) (hk (e, (start, e)) ((hR _ _).2 ⟨he, Or.inr rfl⟩))
    | some r =>
      dsimp only
      have hr := (hR _ _).1 (get?_some_mem hg)
      obtain ⟨hrs, hrk⟩ := hr
      have hrle := hW.2 r hrs
      have hrn := hnc r hrs
      rcases hS with ⟨_, hS⟩ | ⟨e, he, he1⟩
      · exact absurd (by omega) (hS r hrs)
      · have hele := hW.2 _ he
        dsimp only at hele
        have : r = (start, e) := hW.eq_of_not_sep hrs he (by unfold Sep; dsimp only; omega)
        subst this
        refine ⟨rfl, ?_⟩
        intro k v
        rw [mem_erase, mem_erase, hR k v, List.mem_filter]
        simp only [bne_iff_ne, ne_eq]
        constructor
        · rintro ⟨⟨⟨h1, h2⟩, h3⟩, h4⟩
          refine ⟨⟨h1, ?_⟩, h2⟩
          intro hv
          have hvle := hW.2 v h1
          have : v = (start, e) := hW.eq_of_not_sep h1 he (by unfold Sep; dsimp only; omega)
          subst this
          dsimp only at *; omega
        · rintro ⟨⟨h1, h3⟩, h2⟩
          have hvle := hW.2 v h1
          have hvn := hnc v h1
          have hne : v ≠ (start, e) := fun e' => h3 (by rw [e']; exact he1)
          have := hW.sep h1 he hne
          unfold Sep at this
          dsimp only at *
          refine ⟨⟨⟨h1, h2⟩, ?_⟩, ?_⟩ <;> omega
  · rw [if_neg h0]
    dsimp only
    rcases hS with ⟨rfl, hS⟩ | ⟨e, he, he1⟩
    · refine ⟨rfl, ?_⟩
      apply hR.congr
      intro v
      rw [List.mem_filter]
      simp only [bne_iff_ne, ne_eq]
      constructor
      · intro hv; exact ⟨hv, by omega⟩
      · exact fun h => h.1
    · omega

theorem stageHi_spec {m : RMap} {s : SMap} (hR : Rel m s) (hW : WFp s) {num end_ : Nat}
    (hnc : ∀ r ∈ s, ¬ (r.1 ≤ num ∧ num ≤ r.2))
    (hE : (end_ = num ∧ ∀ r ∈ s, r.1 ≠ num + 1) ∨ (num + 1, end_) ∈ s) :
    (stageHi m num).1 = end_ ∧
      Rel (stageHi m num).2 (s.filter (fun v => v.1 != num + 1)) := by
  unfold stageHi remove
  cases hg : get? m (num + 1) with
  | none =>
    dsimp only
    have hk := get?_none hg
    rcases hE with ⟨rfl, hE⟩ | he
    · refine ⟨rfl, ?_⟩
      intro k v
      rw [mem_erase, hR k v, List.mem_filter]
      simp only [bne_iff_ne, ne_eq]
      constructor
      · rintro ⟨⟨h1, h2⟩, _⟩; exact ⟨⟨h1, hE v h1⟩, h2⟩
      · rintro ⟨⟨h1, _⟩, h2⟩
        exact ⟨⟨h1, h2⟩, hk (k, v) ((hR k v).2 ⟨h1, h2⟩)⟩
    · exact absurd rfl (hk (num + 1, (num + 1, end_)) ((hR _ _).2 ⟨he, Or.inl rfl⟩))
  | some r =>
    dsimp only
    have hr := (hR _ _).1 (get?_some_mem hg)
    obtain ⟨hrs, hrk⟩ := hr
    have hrle := hW.2 r hrs
    have hrn := hnc r hrs
    rcases hE with ⟨_, hE⟩ | he
    · exact absurd (by omega) (hE r hrs)
    · have hele := hW.2 _ he
      dsimp only at hele
      have : r = (num + 1, end_) := hW.eq_of_not_sep hrs he (by unfold Sep; dsimp only; omega)
      subst this
      refine ⟨rfl, ?_⟩
      intro k v
      rw [mem_erase, mem_erase, hR k v, List.mem_filter]
      simp only [bne_iff_ne, ne_eq]
      constructor
      · rintro ⟨⟨⟨h1, h2⟩, h3⟩, h4⟩
        refine ⟨⟨h1, ?_⟩, h2⟩
        intro hv
        have hvle := hW.2 v h1
        have : v = (num + 1, end_) := hW.eq_of_not_sep h1 he (by unfold Sep; dsimp only; omega)
        subst this
        dsimp only at *; omega
      · rintro ⟨⟨h1, h3⟩, h2⟩
        have hvle := hW.2 v h1
        have hvn := hnc v h1
        have hne : v ≠ (num + 1, end_) := fun e' => h3 (by rw [e'])
        have := hW.sep h1 he hne
        unfold Sep at this
        dsimp only at *
        refine ⟨⟨⟨h1, h2⟩, ?_⟩, ?_⟩ <;> omega

theorem stageMid_spec {m : RMap} {s : SMap} (hR : Rel m s) (hW : WFp s) {num : Nat} (start end_ : Nat)
    (hnc : ∀ r ∈ s, ¬ (r.1 ≤ num ∧ num ≤ r.2)) :
    (stageMid m num start end_).1 = start ∧ (stageMid m num start end_).2.1 = end_ ∧
      Rel (stageMid m num start end_).2.2 s := by
  unfold stageMid remove
  cases hg : get? m num with
  | none =>
    dsimp only
    refine ⟨rfl, rfl, ?_⟩
    have hk := get?_none hg
    intro k v
    rw [mem_erase, hR k v]
    constructor
    · exact fun h => h.1
    · intro h; exact ⟨h, hk (k, v) ((hR k v).2 h)⟩
  | some r =>
    have hr := (hR _ _).1 (get?_some_mem hg)
    have := hW.2 r hr.1
    have := hnc r hr.1
    omega

/-- storing a new range under its start and its end -/
theorem put_put_spec {m : RMap} {s : SMap} (hR : Rel m s) (a b : Nat)
    (hfree : ∀ v ∈ s, v.1 ≠ a ∧ v.2 ≠ a ∧ v.1 ≠ b ∧ v.2 ≠ b) :
    Rel (put (put m a (a, b)) b (a, b)) (s ++ [(a, b)]) := by
  intro k v
  rw [mem_put, mem_put, hR k v, List.mem_append, List.mem_singleton]
  constructor
  · rintro (⟨⟨⟨h1, h2⟩, _⟩ | h, _⟩ | h)
    · exact ⟨Or.inl h1, h2⟩
    · simp only [Prod.mk.injEq] at h
      obtain ⟨rfl, rfl⟩ := h
      exact ⟨Or.inr rfl, Or.inl rfl⟩
    · simp only [Prod.mk.injEq] at h
      obtain ⟨rfl, rfl⟩ := h
      exact ⟨Or.inr rfl, Or.inr rfl⟩
  · rintro ⟨h1 | rfl, h2⟩
    · have := hfree v h1
      left
      dsimp only
      refine ⟨Or.inl ⟨⟨h1, h2⟩, ?_⟩, ?_⟩ <;> omega
    · dsimp only at h2
      by_cases hk : k = b
      · right; rw [hk]
      · left
        refine ⟨Or.inr ?_, hk⟩
        rcases h2 with rfl | rfl
        · rfl
        · exact absurd rfl hk

/-- `insertOld` of a cluster that is not covered yet does what `insert` does -/
theorem insertOld_sim {m : RMap} {s : SMap} (hR : Rel m s) (hW : WFp s) {num : Nat}
    (hnc : ∀ r ∈ s, ¬ (r.1 ≤ num ∧ num ≤ r.2)) :
    Rel (insertOld m num) (insert s num) := by
  rcases insert_cases hW num with ⟨hc, _⟩ | ⟨_, start, end_, hS, hE, e⟩
  · obtain ⟨r, hr, h⟩ := hc
    exact absurd h (hnc r hr)
  rw [insertOld_eq]
  dsimp only
  obtain ⟨a1, a2⟩ := stageLo_spec hR hW hnc hS
  generalize stageLo m num = a at a1 a2
  have hW1 := hW.filter (fun v => v.2 + 1 != num)
  have hse := start_le_end hW hS hE
  have hnc1 : ∀ r ∈ s.filter (fun v => v.2 + 1 != num), ¬ (r.1 ≤ num ∧ num ≤ r.2) :=
    fun r hr => hnc r (List.mem_filter.1 hr).1
  have hE1 : (end_ = num ∧ ∀ r ∈ s.filter (fun v => v.2 + 1 != num), r.1 ≠ num + 1) ∨
      (num + 1, end_) ∈ s.filter (fun v => v.2 + 1 != num) := by
    rcases hE with ⟨h1, h2⟩ | h
    · exact Or.inl ⟨h1, fun r hr => h2 r (List.mem_filter.1 hr).1⟩
    · right
      rw [List.mem_filter]
      have := hW.2 _ h
      refine ⟨h, ?_⟩
      simp only [bne_iff_ne, ne_eq]
      dsimp only at this; omega
  obtain ⟨b1, b2⟩ := stageHi_spec a2 hW1 hnc1 hE1
  generalize stageHi a.2 num = b at b1 b2
  have hW2 := hW1.filter (fun v => v.1 != num + 1)
  have hnc2 : ∀ r ∈ (s.filter (fun v => v.2 + 1 != num)).filter (fun v => v.1 != num + 1),
      ¬ (r.1 ≤ num ∧ num ≤ r.2) :=
    fun r hr => hnc1 r (List.mem_filter.1 hr).1
  obtain ⟨c1, c2, c3⟩ := stageMid_spec b2 hW2 a.1 b.1 hnc2
  generalize stageMid b.2 num a.1 b.1 = c at c1 c2 c3
  rw [c1, c2, a1, b1]
  have hfin := put_put_spec c3 start end_ ?_
  · rw [e]
    apply hfin.congr
    intro v
    rw [mem_sput, mem_serase, List.mem_append, List.mem_filter, List.mem_filter, List.mem_singleton]
    simp only [bne_iff_ne, ne_eq]
    constructor
    · rintro (⟨⟨h1, h2⟩, h3⟩ | h)
      · refine Or.inl ⟨⟨h1, h3⟩, ?_⟩
        intro hv
        rcases hS with ⟨rfl, hS⟩ | ⟨e', he, he1⟩
        · have := hW.2 v h1
          have := hnc v h1
          omega
        · have := hW.eq_of_fst h1 he hv
          subst this
          exact h2 he1
      · exact Or.inr h
    · rintro (⟨⟨h1, h3⟩, h2⟩ | h)
      · refine Or.inl ⟨⟨h1, ?_⟩, h3⟩
        intro hv
        rcases hS with ⟨_, hS⟩ | ⟨e', he, he1⟩
        · exact hS v h1 hv
        · have := hW.2 v h1
          have := hW.2 _ he
          have hne : v ≠ (start, e') := fun e'' => h2 (by rw [e''])
          have := hW.sep h1 he hne
          unfold Sep at this
          dsimp only at *; omega
      · exact Or.inr h
  · -- the keys `start` and `end_` are free after the three stages
    intro v hv
    rw [List.mem_filter, List.mem_filter] at hv
    simp only [bne_iff_ne, ne_eq] at hv
    obtain ⟨⟨hv1, hv2⟩, hv3⟩ := hv
    have hvle := hW.2 v hv1
    have hvn := hnc v hv1
    have hs : v.1 ≠ start ∧ v.2 ≠ start := by
      rcases hS with ⟨rfl, _⟩ | ⟨e', he, he1⟩
      · omega
      · have := hW.2 _ he
        have hne : v ≠ (start, e') := fun e'' => hv2 (by rw [e'']; exact he1)
        have := hW.sep hv1 he hne
        unfold Sep at this
        dsimp only at *; omega
    have he : v.1 ≠ end_ ∧ v.2 ≠ end_ := by
      rcases hE with ⟨rfl, _⟩ | he
      · omega
      · have := hW.2 _ he
        have hne : v ≠ (num + 1, end_) := fun e'' => hv3 (by rw [e''])
        have := hW.sep hv1 he hne
        unfold Sep at this
        dsimp only at *; omega
    exact ⟨hs.1, hs.2, he.1, he.2⟩

theorem Rel_nil : Rel [] [] := by intro k v; simp

theorem Rel.covers {m : RMap} {s : SMap} (h : Rel m s) (c : Nat) : covers m c = scovers s c := by
  rw [Bool.eq_iff_iff, scovers_iff]
  unfold UsedSet.covers
  simp only [List.any_eq_true, Bool.and_eq_true, decide_eq_true_eq]
  constructor
  · rintro ⟨⟨k, v⟩, hp, h1⟩
    exact ⟨v, ((h k v).1 hp).1, h1⟩
  · rintro ⟨v, hv, h1⟩
    exact ⟨(v.1, v), (h _ _).2 ⟨hv, Or.inl rfl⟩, h1⟩

/-- without repetitions the old and the repaired map stay related -/
theorem buildOld_sim (nums : List Nat) (hnd : nums.Nodup) : Rel (buildOld nums) (build nums) := by
  unfold buildOld build
  suffices ∀ m s, Rel m s → WFp s → (∀ x ∈ nums, ∀ r ∈ s, ¬ (r.1 ≤ x ∧ x ≤ r.2)) →
      Rel (nums.foldl insertOld m) (nums.foldl insert s) from
    this [] [] Rel_nil WFp_nil (by simp)
  induction nums with
  | nil => intro m s h _ _; exact h
  | cons x xs ih =>
    intro m s hR hW hnc
    rw [List.nodup_cons] at hnd
    rw [List.foldl_cons, List.foldl_cons]
    apply ih hnd.2 _ _ (insertOld_sim hR hW (hnc x List.mem_cons_self)) (WFp_insert hW x)
    intro y hy r hr hcov
    have := (insert_covers_p hW x y).1 ⟨r, hr, hcov⟩
    rcases this with ⟨r', hr', h'⟩ | rfl
    · exact hnc y (List.mem_cons_of_mem _ hy) r' hr' h'
    · exact hnd.1 hy

end Qv.Model.UsedSet
