import Qv.Proofs.Refine
/-
The END of the run handed out by `allocate_clusters` lies inside the area covered by the
reftable (`allocateClusters_run_end`); `allocateClusters_range` of `Qv/Proofs/Refine.lean`
says this about the start of the run.  Same structure: an invariant of the
`try_allocate_from` loop (the scan position is the end of the partial run, and its last
byte is covered by the reftable entry of the refblock being scanned).
-/
namespace Qv.Model
open Qv Qv.Codec
open Qv.Props.C15 (Geom)

/-- one loop iteration keeps the end of the partial run inside the refblock range of `hostOff0` -/
theorem loopStep_end (allocCnt host count outOff done hostOff0 : Nat) (d : Dev)
    (g : Geom d.info) (hsl : d.info.rbSliceBits ≤ d.info.cb)
    (j1 : hostOff0 ≤ host)
    (j2 : done ≠ 0 → host = outOff + done * d.info.clusterSize ∧ 0 < host ∧
      Host.rtIndex d.info (host - 1) = Host.rtIndex d.info hostOff0) :
    match loopStep (Host.rbHostEnd d.info hostOff0) allocCnt host count outOff done d with
    | .ret r => ∀ o n, r.2 = .ok (some (o, n)) → 0 < o + n * d.info.clusterSize ∧
        Host.rtIndex d.info (o + n * d.info.clusterSize - 1) = Host.rtIndex d.info hostOff0
    | .cont h _ o dn _ => hostOff0 ≤ h ∧ (dn ≠ 0 → h = o + dn * d.info.clusterSize ∧ 0 < h ∧
        Host.rtIndex d.info (h - 1) = Host.rtIndex d.info hostOff0) := by
  unfold loopStep
  dsimp only
  by_cases hc : count > 0 ∧ host < Host.rbHostEnd d.info hostOff0
  · rw [if_neg (not_not_intro hc)]
    have hse := rbSliceEntries_pos g
    have hcs := cs_pos d.info
    obtain ⟨_, _, ⟨hp3a, hp3b⟩, _, ⟨hp5a, _⟩⟩ := Qv.Props.C15.host_partition g host
    have hp0 := (Qv.Props.C15.host_partition g hostOff0).2.2.2.2.1
    have hRhost : Host.rtIndex d.info host = Host.rtIndex d.info hostOff0 :=
      rtIndex_of_rb d.info hostOff0 host (by omega) (by rw [← rbHostEnd_eq g]; exact hc.2)
    generalize hr : tryAllocFromRbSlice host (min count d.info.rbSliceEntries) (decide (done ≠ 0)) d = r
    rcases r with ⟨d1, (_ | ⟨o, n⟩) | e | p⟩
    all_goals (try dsimp only)
    · by_cases h0 : done = 0
      · rw [if_pos h0]
        exact ⟨by omega, fun h => absurd h0 h⟩
      · rw [if_neg h0]
        intro o n h
        simp only [Outcome.ok.injEq, Option.some.injEq, Prod.mk.injEq] at h
        obtain ⟨a1, a2, a3⟩ := j2 h0
        rw [← h.1, ← h.2, ← a1]
        exact ⟨a2, a3⟩
    · obtain ⟨s1, _, _, _, _, _, ⟨s7a, s7b⟩, _, _⟩ :=
        Qv.Props.C08.tryAlloc_sound host _ _ d d1 o n hr
      have hn1 : 1 ≤ n := s1 (by omega)
      have hff := (Qv.Props.C08.tryAlloc_first_fit host _ _ d d1 o n g hr).1
      have hncs : 1 * d.info.clusterSize ≤ n * d.info.clusterSize := Nat.mul_le_mul_right _ hn1
      have hEnd : Host.rtIndex d.info (o + n * d.info.clusterSize - 1) = Host.rtIndex d.info hostOff0 := by
        rw [← hRhost]
        exact rtIndex_of_slice g hsl host _ (by omega) (by omega)
      by_cases hf : done ≠ 0 ∧ host ≠ o
      · rw [if_pos hf]
        generalize freeClusters outOff done true d1 = r2
        rcases r2 with ⟨d2, _ | e | p⟩
        all_goals (try dsimp only)
        · generalize freeClusters o n true d2 = r3
          rcases r3 with ⟨d3, _ | e | p⟩
          all_goals (try dsimp only)
          · exact ⟨j1, fun h => absurd rfl h⟩
          · intro o n h; cases h
          · intro o n h; cases h
        · intro o n h; cases h
        · intro o n h; cases h
      · rw [if_neg hf]
        by_cases hn : n > count
        · rw [if_pos hn]; intro o n h; cases h
        · rw [if_neg hn]
          refine ⟨?_, ?_⟩
          · have h2 := Arith.lt_round_down_add host d.info.clusterSize hcs
            omega
          · intro _
            by_cases h0 : done = 0
            · rw [if_pos h0]
              subst h0
              exact ⟨by rw [Nat.zero_add], by omega, hEnd⟩
            · rw [if_neg h0]
              have ho : host = o := by
                apply Classical.byContradiction; intro hne; exact hf ⟨h0, hne⟩
              obtain ⟨a1, _, _⟩ := j2 h0
              refine ⟨?_, by omega, hEnd⟩
              rw [← ho, a1, Nat.add_mul]; omega
    · intro o n h; cases h
    · intro o n h; cases h
  · rw [if_pos hc]
    intro o n h
    dsimp only at h
    by_cases h0 : done = 0
    · rw [if_neg (not_not_intro h0)] at h; cases h
    · rw [if_pos h0] at h
      simp only [Outcome.ok.injEq, Option.some.injEq, Prod.mk.injEq] at h
      obtain ⟨a1, a2, a3⟩ := j2 h0
      rw [← h.1, ← h.2, ← a1]
      exact ⟨a2, a3⟩

theorem tryAllocateLoop_end (allocCnt hostOff0 : Nat) (i : Info) (g : Geom i) (hsl : i.rbSliceBits ≤ i.cb)
    (fuel : Nat) :
    ∀ host count outOff done (d : Dev), d.info = i → hostOff0 ≤ host →
      (done ≠ 0 → host = outOff + done * i.clusterSize ∧ 0 < host ∧
        Host.rtIndex i (host - 1) = Host.rtIndex i hostOff0) →
      ∀ o n, (tryAllocateLoop (Host.rbHostEnd i hostOff0) allocCnt fuel host count outOff done d).2
          = .ok (some (o, n)) →
        0 < o + n * i.clusterSize ∧ Host.rtIndex i (o + n * i.clusterSize - 1) = Host.rtIndex i hostOff0 := by
  induction fuel with
  | zero => intro host count outOff done d _ _ _ o n h; cases h
  | succ fuel ih =>
    intro host count outOff done d hi j1 j2 o n h
    subst hi
    rw [tryAllocateLoop_succ] at h
    have hst := loopStep_end allocCnt host count outOff done hostOff0 d g hsl j1 j2
    have hsm := loopStep_sameMeta (Host.rbHostEnd d.info hostOff0) allocCnt host count outOff done d
    cases hstep : loopStep (Host.rbHostEnd d.info hostOff0) allocCnt host count outOff done d with
    | ret r =>
      rw [hstep] at h hst
      exact hst o n h
    | cont h' c o' dn d' =>
      rw [hstep] at h hst hsm
      dsimp only at h hst hsm
      exact ih h' c o' dn d' hsm.1 hst.1 hst.2 o n h

theorem tryAllocateFrom_end (hostOff count : Nat) (d : Dev) (g : Geom d.info)
    (hsl : d.info.rbSliceBits ≤ d.info.cb) (o n : Nat)
    (h : (tryAllocateFrom hostOff count d).2 = .ok (some (o, n))) :
    0 < o + n * d.info.clusterSize ∧
    Host.rtIndex d.info (o + n * d.info.clusterSize - 1) < (tryAllocateFrom hostOff count d).1.rtLen := by
  have hlt := (tryAllocateFrom_sameInfo hostOff count d).2.2.2 _ h
  unfold tryAllocateFrom at h
  by_cases h0 : count = 0
  · rw [if_pos h0] at h; cases h
  · rw [if_neg h0] at h
    have hi := (ensureRefblock_facts hostOff d).1
    generalize ensureRefblock hostOff d = re at h hi
    rcases re with ⟨d1, _ | e | p⟩
    · dsimp only at h hi
      rw [hi] at h
      have := tryAllocateLoop_end count hostOff d.info g hsl _ hostOff count 0 0 d1 hi
        (Nat.le_refl _) (fun hne => absurd rfl hne) o n h
      rw [this.2]; exact ⟨this.1, hlt⟩
    · cases h
    · cases h

theorem allocateLoop_end (count : Nat) (i : Info) (g : Geom i) (hsl : i.rbSliceBits ≤ i.cb) (fuel : Nat) :
    ∀ hostOff (d : Dev), d.info = i → ∀ o n,
      (allocateLoop count fuel hostOff d).2 = .ok (some (o, n)) →
        0 < o + n * i.clusterSize ∧
        Host.rtIndex i (o + n * i.clusterSize - 1) < (allocateLoop count fuel hostOff d).1.rtLen := by
  induction fuel with
  | zero => intro hostOff d _ o n h; cases h
  | succ fuel ih =>
    intro hostOff d hi o n h
    subst hi
    rw [allocateLoop] at h ⊢
    dsimp only at h ⊢
    have hr := tryAllocateFrom_end hostOff count d g hsl
    obtain ⟨e1, _⟩ := tryAllocateFrom_sameInfo hostOff count d
    generalize tryAllocateFrom hostOff count d = r at h hr e1 ⊢
    rcases r with ⟨d1, (_ | ⟨o', n'⟩) | e | p⟩
    · dsimp only at h hr e1 ⊢
      exact ih (Host.rbHostEnd d1.info hostOff) d1 e1 o n h
    · dsimp only at h hr ⊢
      simp only [Outcome.ok.injEq, Option.some.injEq, Prod.mk.injEq] at h
      rw [← h.1, ← h.2]
      split <;> exact hr o' n' rfl
    · cases h
    · cases h

/-- the run handed out by `allocate_clusters` ends inside the area covered by the reftable
    (the one after the call) -/
theorem allocateClusters_run_end (count : Nat) (d d' : Dev) (g : Geom d.info)
    (hsl : d.info.rbSliceBits ≤ d.info.cb) (host n : Nat)
    (h : allocateClusters count d = (d', .ok (some (host, n)))) :
    host + n * d.info.clusterSize ≤ d'.rtLen * d.info.rbEntries * d.info.clusterSize := by
  have h1 : 0 < host + n * d.info.clusterSize ∧
      Host.rtIndex d.info (host + n * d.info.clusterSize - 1) < d'.rtLen := by
    have := allocateLoop_end count d.info g hsl (d.rtLen + 2) d.hint d rfl host n (by
      unfold allocateClusters at h
      rw [h])
    unfold allocateClusters at h
    rw [h] at this
    exact this
  obtain ⟨hpos, h1⟩ := h1
  unfold Host.rtIndex at h1
  rw [Nat.div_lt_iff_lt_mul (Nat.two_pow_pos _), Nat.pow_add, g.rbIndexShift_eq] at h1
  have e : d.info.clusterSize = 2^d.info.cb := rfl
  rw [e] at hpos h1 ⊢
  rw [Nat.mul_assoc]
  omega

end Qv.Model
