import Qv.Proofs.AcctHist
/-
Refcount accounting through `do_write_cow` from a compressed cluster: a new cluster
is allocated and mapped over the compressed entry, the plaintext is copied, and the
host clusters the compressed data occupied are released
(helpers for `Qv/Props/C03Write.lean`).
-/
namespace Qv.Model
open Qv Qv.Codec
open Qv.Props.C15 (Geom)
open Qv.Props.C11 (L1Distinct)

/-! ### what a compressed entry references, and what `do_write_cow` releases -/

/-- a compressed entry: its range, its mapping, and a positive length -/
theorem compressed_entry (cb : Nat) (hb : Bool) (g : Nat) (e : E64) (hc : L2.isCompressed e = true) :
    ∃ off len, L2.compressedRange cb e = some (off, len) ∧
      L2.intoMapping cb hb g e =
        { source := .compressed, clusterOffset := some off, compressedLength := some len, copied := false } ∧
      1 ≤ len := by
  refine ⟨_, _, L2.compressedRange_some cb e hc, ?_, ?_⟩
  · unfold L2.intoMapping
    rw [L2.compressedRange_some cb e hc]
  · have := Nat.mod_lt (L2.compressedDescriptor e &&& ((1#64 <<< (62 - (cb - 8))) - 1#64) &&&
      0x00ffffffffffffff#64).toNat (show 0 < 512 by decide)
    omega

/-- the clusters `do_write_cow` releases are exactly those the compressed entry
    references (`L2Entry::allocation`) -/
theorem covers_compressed {cb : Nat} {e : E64} {off len : Nat}
    (hr : L2.compressedRange cb e = some (off, len)) (hlen : 1 ≤ len) (i : Info) (hcb : i.cb = cb) (c : Nat) :
    covers i.clusterSize (L2.allocation cb e) c =
      covers i.clusterSize (some (i.clusterRoundDown off, compressedReleaseCount i off len)) c := by
  have hcs : 0 < i.clusterSize := cs_pos i
  have h2 : (2:Nat)^cb = i.clusterSize := by unfold Info.clusterSize; rw [hcb]
  unfold L2.allocation
  rw [hr]
  dsimp only
  rw [h2, covers_some, covers_some]
  unfold compressedReleaseCount Info.clusterRoundDown
  generalize i.clusterSize = cs at *
  have e1 : off / cs * cs / cs = off / cs := Nat.mul_div_cancel _ hcs
  have hle : off / cs * cs ≤ (off + len - 1) / cs * cs :=
    Nat.mul_le_mul_right _ (Nat.div_le_div_right (by omega))
  have e2 : ((off + len - 1) / cs * cs - off / cs * cs) / cs = (off + len - 1) / cs - off / cs := by
    rw [← Nat.sub_mul, Nat.mul_div_cancel _ hcs]
  have hq : off / cs ≤ (off + len - 1) / cs := Nat.div_le_div_right (by omega)
  have e3 : (off + len + cs - 1 - off / cs * cs) / cs = (off + len - 1) / cs - off / cs + 1 := by
    have hx : off / cs * cs ≤ off + len - 1 := Nat.le_trans (Nat.div_mul_le_self _ _) (by omega)
    have : off + len + cs - 1 - off / cs * cs = (off + len - 1 - off / cs * cs) + cs := by omega
    rw [this, Nat.add_div_right _ hcs]
    congr 1
    have hdm := Nat.div_add_mod (off + len - 1) cs
    have hml := Nat.mod_lt (off + len - 1) hcs
    have hmul : cs * ((off + len - 1) / cs) - off / cs * cs = ((off + len - 1) / cs - off / cs) * cs := by
      rw [Nat.sub_mul, Nat.mul_comm cs]
    have hle2 : off / cs * cs ≤ cs * ((off + len - 1) / cs) := by rw [Nat.mul_comm cs]; exact hle
    have : off + len - 1 - off / cs * cs = (off + len - 1) % cs + ((off + len - 1) / cs - off / cs) * cs := by
      omega
    rw [this, Nat.add_mul_div_right _ _ hcs, Nat.div_eq_of_lt hml, Nat.zero_add]
  rw [e1, e2, e3]

/-! ### mapping over an entry that has an allocation -/

/-- as `map_step`, for an entry with an arbitrary allocation `a`: the clusters of `a`
    lose their reference and become surplus (to be released by the caller) -/
theorem map_step_gen {d d' : Dev} {off h n : Nat} (s : Shape d) (dom : RcDom d)
    (hP : AcctPlus d (covers d.cs (some (h, n + 1)))) (hal : h % d.info.clusterSize = 0)
    (hpos : 0 < h)
    (hl1 : L1.isZero (d.l1Entry off) = false) (hidx : Split.l1Index d.info off < d.hdrL1Entries)
    (fr : MFrame d d') (hl2 : d'.l2 = (d.setL2 off (L2.mapClusterEntry h)).l2) :
    AcctPlus d' (fun c => covers d.cs (some (h + d.info.clusterSize, n)) c +
      covers d.cs (L2.allocation d.info.cb (d.l2Entry off)) c) ∧ Shape d' ∧ RcDom d' ∧
    d'.l2Entry off = L2.mapClusterEntry h ∧
    (∀ o, Split.l1Index d.info o ≠ Split.l1Index d.info off ∨
        Split.l2Index d.info o ≠ Split.l2Index d.info off → d'.l2Entry o = d.l2Entry o) ∧
    h < 2^56 ∧ h % 512 = 0 := by
  have g := s.geo
  have hcs : 0 < d.info.clusterSize := cs_pos _
  have hrc1 : d.rc.get (h / d.info.clusterSize) ≠ 0 := by
    have := hP (h / d.info.clusterSize)
    rw [covers_some, if_pos (show h / d.cs ≤ h / d.info.clusterSize ∧ h / d.info.clusterSize < h / d.cs + (n + 1)
      from ⟨Nat.le_refl _, Nat.lt_succ_of_le (Nat.le_add_right _ _)⟩)] at this
    omega
  have h56 : h < 2^56 := by
    have := dom.lt56 s hrc1
    rw [aligned_div_mul hal] at this
    omega
  have h512 : h % 512 = 0 := mod512_of_mod_cs s.cb9 hal
  obtain ⟨he, hf⟩ := l2Entry_setL2_distinct s.l1d hl1 fr.info fr.l1 fr.l1Len hl2
  refine ⟨?_, fr.shape s, fr.dom dom, he, hf, h56, h512⟩
  intro c
  have key := refs_slot_change fr.hdrSame (fun i _ => l1At_congr fr.l1 fr.l1Len i) fr.rt fr.rtLen hidx
    (Qv.Props.C15.split_bounds g off).1
    (fun i j _ hj => slot_change_of_l2Entry g fr.info off _ he hf i j hj) c
  rw [← d.l2Entry_eq_slot, allocation_mapClusterEntry _ _ h512 hpos h56] at key
  have hm := covers_merge d.cs h 1 (h + d.info.clusterSize) n c (add_cs_div d.info h)
  have := hP c
  rw [fr.rc]
  rw [Nat.add_comm 1 n] at hm
  show d.rc.get c = d'.refs c + (_ + _)
  omega

/-- `alloc_and_map_cluster` over an entry with an allocation: on success the clusters of
    the old allocation are the surplus; on failure nothing of the view changes and the
    accounting is exact -/
theorem allocAndMap_plus {d d' : Dev} {off : Nat} {r : Outcome Unit} (w : WInv d)
    (hl1 : L1.isZero (d.l1Entry off) = false) (hidx : Split.l1Index d.info off < d.hdrL1Entries)
    (h : allocAndMap off d = (d', r)) (hl : Cap d') :
    Shape d' ∧ RcDom d' ∧ d'.info = d.info ∧ d'.hdrL1Entries = d.hdrL1Entries ∧ (∀ p, r ≠ .panic p) ∧
    (∀ o, Split.l1Index d.info o ≠ Split.l1Index d.info off ∨
        Split.l2Index d.info o ≠ Split.l2Index d.info off → d'.l2Entry o = d.l2Entry o) ∧
    (r = .ok () → AcctPlus d' (covers d.cs (L2.allocation d.info.cb (d.l2Entry off))) ∧
      ∃ x, d'.l2Entry off = L2.mapClusterEntry x ∧ x % 512 = 0 ∧ 0 < x ∧ x < 2^56) ∧
    (r ≠ .ok () → Acct d' ∧ ∀ o, d'.l2Entry o = d.l2Entry o) := by
  rw [allocAndMap_eq] at h
  generalize ha : allocateClusters 1 d = ra at h
  obtain ⟨d1, r1⟩ := ra
  have hl1' : Cap d1 := by
    rcases r1 with (_ | ⟨x, y⟩) | e | p <;>
      (simp only [Prod.mk.injEq] at h; obtain ⟨rfl, _⟩ := h)
    · exact hl
    · exact hl
    · exact hl
    · exact hl
  obtain ⟨post, fr⟩ := allocateClusters_acct w (by decide) ha hl1'
  have hview1 : ∀ o, d1.l2Entry o = d.l2Entry o := by
    obtain ⟨_, _, _, _, _, _, _, rfl⟩ := fr; intro o; rfl
  have hl1e : ∀ o, d1.l1Entry o = d.l1Entry o := by
    obtain ⟨_, _, _, _, _, _, _, rfl⟩ := fr; intro o; rfl
  have hi1 : d1.info = d.info := fr.info
  have hn1 : d1.hdrL1Entries = d.hdrL1Entries := by
    obtain ⟨_, _, _, _, _, _, _, rfl⟩ := fr; rfl
  rcases r1 with (_ | ⟨x, n⟩) | e | p
  · simp only [Prod.mk.injEq] at h
    obtain ⟨rfl, rfl⟩ := h
    exact ⟨post.1, post.2.1, hi1, hn1, fun p hp => (by cases hp), fun o _ => hview1 o,
      fun hr => (by cases hr), fun _ => ⟨post.2.2, hview1⟩⟩
  · simp only [Prod.mk.injEq] at h
    obtain ⟨rfl, rfl⟩ := h
    obtain ⟨s1, dom1, P1, n1, n2, hal, hpos⟩ := post
    have hn : n = 1 := by omega
    subst hn
    dsimp only at s1 dom1 P1 hal
    obtain ⟨P2, s2, dom2, hent, hframe, h56, h512⟩ := map_step_gen (d := d1) (d' := mappedAt d1 off x) (n := 0)
      s1 dom1 P1 hal hpos (by rw [hl1e]; exact hl1) (by rw [hi1, hn1]; exact hidx)
      (mappedAt_mframe d1 off x) rfl
    refine ⟨s2, dom2, hi1, hn1, fun p hp => (by cases hp), ?_, fun _ => ⟨?_, x, hent, h512, hpos, h56⟩,
      fun hr => absurd rfl hr⟩
    · intro o ho
      rw [← hview1 o]
      apply hframe
      rw [hi1]; exact ho
    · apply acctPlus_congr P2
      intro c
      rw [covers_zero_len, Nat.zero_add, cs_congr hi1, hi1, hview1]
  · simp only [Prod.mk.injEq] at h
    obtain ⟨rfl, rfl⟩ := h
    exact ⟨post.1, post.2.1, hi1, hn1, fun p hp => (by cases hp), fun o _ => hview1 o,
      fun hr => (by cases hr), fun _ => ⟨post.2.2, hview1⟩⟩
  · exact post.2.2.elim

/-! ### `do_write_cow` from a compressed cluster -/

theorem doWriteCow_eq_compressed (off : Nat) (m : Mapping) (toks : List Nat) (d : Dev)
    (hm : m.source = .compressed) :
    doWriteCow off m toks d =
      if (d.mapping off).source = .compressed ∨ (d.mapping off).source = .backing then
        match allocAndMap off d with
        | (d2, .ok ()) =>
          match doWriteDataFile off (({ d2 with needFlush := true } : Dev).mapping off) (some m) toks
              { d2 with needFlush := true } with
          | (d3, .ok ()) =>
            (match m.clusterOffset, m.compressedLength with
              | some o, some l =>
                freeClusters (d2.info.clusterRoundDown o) (compressedReleaseCount d2.info o l) true d3
              | _, _ => (d3, .ok ()))
          | (d3, .err e) => (d3, .err e)
          | (d3, .panic p) => (d3, .panic p)
        | (d2, .err e) => (d2, .err e)
        | (d2, .panic p) => (d2, .panic p)
      else (d, .err .other) := by
  unfold doWriteCow
  simp only [bind, M.bind, M.get, hm, not_true_eq_false, if_true, if_false, pure]
  split
  · simp only [M.bind, M.get, M.modify]
    generalize allocAndMap off d = r2
    rcases r2 with ⟨d2, _ | e | p⟩
    · dsimp only
      generalize doWriteDataFile off _ (some m) toks _ = r3
      rcases r3 with ⟨d3, _ | e | p⟩
      · dsimp only
        rcases m.clusterOffset with _ | o <;> rcases m.compressedLength with _ | l <;> rfl
      · rfl
      · rfl
    · rfl
    · rfl
  · rfl

/-- the COW data write from a compressed source into a mapped cluster does not fail -/
theorem doWriteDataFile_cow_compressed_ok (off : Nat) (dm cm : Mapping) (toks : List Nat) (d : Dev)
    {x : Nat} (hdm : dm.clusterOffset = some x) (hcm : cm.source = .compressed) :
    (doWriteDataFile off dm (some cm) toks d).2 = .ok () := by
  unfold doWriteDataFile
  rw [hdm]
  dsimp only
  split
  · simp only [Option.isSome_some, if_true]
    rw [if_neg (by rw [hcm]; simp)]
  · rfl

/-- **`do_write_cow` from a compressed cluster**, any outcome: a new cluster is mapped
    over the compressed entry and the host clusters of the compressed data are released;
    the accounting is exact afterwards.  `m` is the mapping of the current entry. -/
theorem doWriteCow_compressed_winv {d d' : Dev} {off : Nat} {toks : List Nat} {r : Outcome Unit}
    (w : WInv d) (hidx : Split.l1Index d.info off < d.hdrL1Entries)
    (hc : L2.isCompressed (d.l2Entry off) = true)
    (h : doWriteCow off (d.mapping off) toks d = (d', r)) (hl : Cap d') :
    WInv d' ∧ d'.info = d.info ∧ d'.hdrL1Entries = d.hdrL1Entries ∧ ViewStep d d' ∧
      (∀ p, r ≠ .panic p) := by
  obtain ⟨co, cl, hrange, hmap, hlen⟩ := compressed_entry d.info.cb d.info.hasBack
    (Split.clusterOffset d.info (d.info.clusterRoundDown off)) (d.l2Entry off) hc
  have hmap' : d.mapping off =
      { source := .compressed, clusterOffset := some co, compressedLength := some cl, copied := false } := hmap
  have hsrc : (d.mapping off).source = .compressed := by rw [hmap']
  have hl1 : L1.isZero (d.l1Entry off) = false := by
    cases hz : L1.isZero (d.l1Entry off) with
    | false => rfl
    | true =>
      rw [l2Entry_of_l1_zero d off hz] at hc
      exact absurd hc (by decide)
  rw [doWriteCow_eq_compressed off _ toks d hsrc, if_pos (Or.inl hsrc)] at h
  generalize h2 : allocAndMap off d = r2 at h
  obtain ⟨d2, o2⟩ := r2
  rcases o2 with _ | e | p
  · dsimp only at h
    generalize h3 : doWriteDataFile off (({ d2 with needFlush := true } : Dev).mapping off)
      (some (d.mapping off)) toks { d2 with needFlush := true } = r3 at h
    obtain ⟨d3, o3⟩ := r3
    obtain ⟨f3, l3, _⟩ := doWriteDataFile_mframe off (({ d2 with needFlush := true } : Dev).mapping off)
      (some (d.mapping off)) toks { d2 with needFlush := true }
    rw [h3] at f3 l3
    dsimp only at f3 l3
    have fr23 : MFrame d2 d3 := (nf_mframe d2).trans f3
    have hl23 : d3.l2 = d2.l2 := l3
    have hl2 : Cap d2 := by
      rcases o3 with _ | e | p
      · dsimp only at h
        rw [hmap'] at h
        dsimp only at h
        have := (freeClusters_mn (d2.info.clusterRoundDown co) (compressedReleaseCount d2.info co cl) true).rm_of_eq h
        exact fr23.cap (this.cap hl)
      · simp only [Prod.mk.injEq] at h; obtain ⟨rfl, _⟩ := h; exact fr23.cap hl
      · simp only [Prod.mk.injEq] at h; obtain ⟨rfl, _⟩ := h; exact fr23.cap hl
    obtain ⟨s2, dom2, i2, n2, np2, fr2, ok2, _⟩ := allocAndMap_plus w hl1 hidx h2 hl2
    obtain ⟨P2, x, hx⟩ := ok2 rfl
    -- the data write succeeds
    have hok3 : o3 = .ok () := by
      have hdm : (({ d2 with needFlush := true } : Dev).mapping off).clusterOffset = some x := by
        have e : ({ d2 with needFlush := true } : Dev).mapping off = d2.mapping off := rfl
        rw [e]
        unfold Dev.mapping
        rw [hx.1, intoMapping_mapClusterEntry _ _ _ x hx.2.1 hx.2.2.1 hx.2.2.2]
      have := doWriteDataFile_cow_compressed_ok off _ (d.mapping off) toks { d2 with needFlush := true }
        hdm hsrc
      rw [h3] at this
      exact this
    subst hok3
    dsimp only at h
    rw [hmap'] at h
    dsimp only at h
    -- the release
    have P3 : AcctPlus d3 (covers d.cs (L2.allocation d.info.cb (d.l2Entry off))) := fr23.plus hl23 P2
    have s3 : Shape d3 := fr23.shape s2
    have dom3 : RcDom d3 := fr23.dom dom2
    have hi3 : d3.info = d.info := fr23.info.trans i2
    have hcov : ∀ c, covers d.cs (L2.allocation d.info.cb (d.l2Entry off)) c =
        covers d3.cs (some (d2.info.clusterRoundDown co, compressedReleaseCount d2.info co cl)) c := by
      intro c
      rw [i2, cs_congr hi3]
      exact covers_compressed hrange hlen d.info rfl c
    have P3' : AcctPlus d3 (covers d3.cs (some (d2.info.clusterRoundDown co, compressedReleaseCount d2.info co cl))) :=
      acctPlus_congr P3 hcov
    obtain ⟨d4, h4⟩ := freeClusters_succeeds_of_plus (host := d2.info.clusterRoundDown co)
      (n := compressedReleaseCount d2.info co cl) true P3' dom3
      (by rw [hi3, i2]; exact Nat.mul_mod_left _ _) (by
        intro c c1 c2
        rw [covers_some, if_pos (show _ / d3.cs ≤ c ∧ c < _ / d3.cs + _ from ⟨c1, c2⟩)]
        exact Nat.le_refl _)
    rw [h4] at h
    simp only [Prod.mk.injEq] at h
    obtain ⟨rfl, rfl⟩ := h
    have f4 := freeClusters_rcFrame h4
    have P4 : AcctPlus d4 (fun _ => 0) := freeClusters_acctPlus h4 P3' (fun c => by rw [Nat.zero_add])
    have dom4 : RcDom d4 := by
      apply dom3.of_rcFrame f4
      intro c _
      rw [(freeClusters_ok h4).1 c]
      split <;> omega
    have hv4 : ∀ o, d4.l2Entry o = d3.l2Entry o := by
      obtain ⟨_, _, _, rfl⟩ := f4; intro o; rfl
    have hn4 : d4.hdrL1Entries = d3.hdrL1Entries := by
      obtain ⟨_, _, _, rfl⟩ := f4; rfl
    refine ⟨⟨s3.of_allocFrame f4.toAlloc, dom4, acctPlus_zero.1 P4⟩, f4.info.trans hi3,
      (hn4.trans fr23.hdrL1Entries).trans n2, ?_, fun p hp => (by cases hp)⟩
    apply ViewStep.of_frame (off := off) (Or.inr ⟨x, ?_, hx.2⟩) (f4.info.trans hi3)
    · intro o ho
      rw [hv4, fr23.l2Entry hl23, fr2 o ho]
    · rw [hv4, fr23.l2Entry hl23]; exact hx.1
  · simp only [Prod.mk.injEq] at h
    obtain ⟨rfl, rfl⟩ := h
    obtain ⟨s2, dom2, i2, n2, _, _, _, nok2⟩ := allocAndMap_plus w hl1 hidx h2 hl
    obtain ⟨hA, hv⟩ := nok2 (fun hx => by cases hx)
    exact ⟨⟨s2, dom2, hA⟩, i2, n2, ViewStep.of_eq hv, fun p hp => (by cases hp)⟩
  · simp only [Prod.mk.injEq] at h
    obtain ⟨rfl, rfl⟩ := h
    obtain ⟨_, _, _, _, np2, _⟩ := allocAndMap_plus w hl1 hidx h2 hl
    exact absurd rfl (np2 p)

/-- **single-cluster `__write_at` into a compressed cluster**, any outcome -/
theorem writeAt_single_compressed_winv {d d' : Dev} {off len : Nat} {toks : List Nat} {r : Outcome Unit}
    (w : WInv d) (hchk : writeCheck d.info off len = none) (hlen : len ≠ 0)
    (hsingle : off / d.info.clusterSize = (off + len - 1) / d.info.clusterSize)
    (hc : L2.isCompressed (d.l2Entry off) = true)
    (h : writeAt off len toks d = (d', r)) (hl : Cap d') :
    WInv d' ∧ d'.info = d.info ∧ d'.hdrL1Entries = d.hdrL1Entries ∧ ViewStep d d' ∧
      (∀ p, r ≠ .panic p) := by
  obtain ⟨hv, _, _, _⟩ := writeCheck_none hchk
  have hidx : Split.l1Index d.info off < d.hdrL1Entries := by
    apply l1Index_lt_of_cluster w.shape
    have := Nat.div_mul_le_self off d.info.clusterSize
    omega
  have hsrc : (d.mapping off).source = .compressed :=
    (source_compressed_iff _ _ _ _).2 hc
  have hnm : needMakeMapping d.info (d.mapping off) = false := by
    unfold needMakeMapping
    have : L2.plainOffset (d.mapping off) 0 = none := by
      unfold L2.plainOffset; rw [hsrc]; simp
    rw [this, hsrc]; simp
  unfold writeAt at h
  simp only [hchk] at h
  rw [if_neg hlen, if_pos hsingle, populateSingle_eq, if_neg (by rw [hnm]; simp)] at h
  dsimp only at h
  unfold doWrite at h
  dsimp only at h
  have hm : L2.intoMapping d.info.cb d.info.hasBack
      (Split.clusterOffset d.info (d.info.clusterRoundDown off)) (d.l2Entry off) = d.mapping off := rfl
  rw [hm, hsrc] at h
  dsimp only at h
  exact doWriteCow_compressed_winv w hidx hc h hl

end Qv.Model
