import Qv.Proofs.Acct
import Qv.Proofs.Frames
/-
Helpers for C09 (Qv/Props/C09.lean): layout arithmetic of `metaParams`, the
empty mapping of a freshly formatted device, the single reftable entry.
-/
namespace Qv.Model
open Qv.Codec

theorem metaParams_offsets (size cb ro bs : Nat) :
    (metaParams size cb ro bs).rtOff = 2^cb ∧
    (metaParams size cb ro bs).rbOff = 2^cb + (metaParams size cb ro bs).rtClusters * 2^cb ∧
    (metaParams size cb ro bs).l1Off = (metaParams size cb ro bs).rbOff + 2^cb := ⟨rfl, rfl, rfl⟩

theorem metaParams_aligned (size cb ro bs : Nat) :
    (metaParams size cb ro bs).rtOff % 2^cb = 0 ∧ (metaParams size cb ro bs).rbOff % 2^cb = 0 ∧
    (metaParams size cb ro bs).l1Off % 2^cb = 0 := by
  obtain ⟨e1, e2, e3⟩ := metaParams_offsets size cb ro bs
  have h1 : (metaParams size cb ro bs).rbOff % 2^cb = 0 := by
    rw [e2]
    exact Arith16.add_mod_zero (Nat.mod_self _) (Nat.mul_mod_left _ _)
  refine ⟨by rw [e1]; exact Nat.mod_self _, h1, ?_⟩
  rw [e3]
  exact Arith16.add_mod_zero h1 (Nat.mod_self _)

/-- every L1 entry of a fresh device is zero, so every L2 entry reads as zero -/
theorem l2Entry_of_l1_empty (d : Dev) (h : d.l1 = FMap.empty 0#64) (off : Nat) : d.l2Entry off = 0#64 := by
  have h1 : d.l1Entry off = 0#64 := by
    unfold Dev.l1Entry
    dsimp only
    split
    · rw [h, FMap.get_empty]
    · rfl
  unfold Dev.l2Entry
  dsimp only
  rw [h1, if_pos (by decide)]

theorem intoMapping_zero (cb gcOff : Nat) :
    L2.intoMapping cb false gcOff 0#64 =
      { source := .unallocated, clusterOffset := some 0, compressedLength := none, copied := false } := by
  have h1 : L2.compressedRange cb 0#64 = none := by
    unfold L2.compressedRange
    rw [if_neg (by decide)]
  unfold L2.intoMapping
  rw [h1]
  dsimp only
  rw [if_neg (by decide), if_pos (by decide), if_neg (by decide)]

theorem rt_reservedBits_ofNat (x : Nat) (h512 : x % 512 = 0) (h64 : x < 2^64) :
    RT.reservedBits (BitVec.ofNat 64 x) = 0#64 := by
  have hT := L2.ofNat_toNat_of_lt x h64
  unfold RT.reservedBits
  apply BitVec.eq_of_toNat_eq
  rw [show (0x00000000000001ff#64 : BitVec 64) = 511#64 from rfl, L2.and_lit9_toNat, hT, h512]; rfl

end Qv.Model
