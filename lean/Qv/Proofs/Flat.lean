import Qv.Spec.Flat
/-
Helper lemmas for the flat reference disk (`Qv.Spec.Flat`): pointwise
characterisation of the `foldl`-of-`set` patterns of `FMap.setRange`,
`Flat.write` and `Flat.discard`.  Used by `Qv/Props/C01.lean` and
`Qv/Props/C11.lean`.
-/
namespace Qv
namespace FMap
variable {α : Type}

/-- pointwise content after setting `n` consecutive keys -/
theorem get_foldl_set_range (f : FMap α) (k n : Nat) (g : Nat → α) (j : Nat) :
    ((List.range n).foldl (fun acc i => acc.set (k + i) (g i)) f).get j =
      if k ≤ j ∧ j < k + n then g (j - k) else f.get j := by
  induction n with
  | zero => rw [if_neg (by omega)]; rfl
  | succ n ih =>
    rw [List.range_succ, List.foldl_append]
    simp only [List.foldl_cons, List.foldl_nil]
    rw [get_set, ih]
    by_cases h : k + n = j
    · subst h; simp
    · simp only [h, if_false]
      by_cases h2 : k ≤ j ∧ j < k + n
      · rw [if_pos h2, if_pos (by omega)]
      · rw [if_neg h2, if_neg (by omega)]

theorem get_setRange (f : FMap α) (k n : Nat) (g : Nat → α) (j : Nat) :
    (f.setRange k n g).get j = if k ≤ j ∧ j < k + n then g (j - k) else f.get j :=
  get_foldl_set_range f k n g j

theorem get_setRange_inside (f : FMap α) (k n : Nat) (g : Nat → α) (i : Nat) (h : i < n) :
    (f.setRange k n g).get (k + i) = g i := by
  rw [get_setRange, if_pos (by omega)]; congr 1; omega

theorem get_setRange_outside (f : FMap α) (k n : Nat) (g : Nat → α) (j : Nat)
    (h : ¬ (k ≤ j ∧ j < k + n)) : (f.setRange k n g).get j = f.get j := by
  rw [get_setRange, if_neg h]

end FMap

namespace Spec.Flat

/-- `a / k = c` as a two-sided bound -/
theorem div_eq_iff_bounds (a c k : Nat) (hk : 0 < k) : a / k = c ↔ c * k ≤ a ∧ a < c * k + k := by
  constructor
  · intro h; subst h
    have := Nat.div_add_mod a k
    have := Nat.mod_lt a hk
    rw [Nat.mul_comm]; omega
  · rintro ⟨h1, h2⟩
    have h3 : a < (c + 1) * k := by rw [Nat.add_mul]; omega
    have := (Nat.le_div_iff_mul_le hk).2 h1
    have := (Nat.div_lt_iff_lt_mul hk).2 h3
    omega

/-! ### `write` -/

theorem write_nil (f : Flat) (off : Nat) : f.write off [] = f := by simp [write]

theorem write_cs (f : Flat) (off : Nat) (toks : List Nat) : (f.write off toks).cs = f.cs := by
  unfold write; dsimp only; split <;> rfl

theorem write_vsize (f : Flat) (off : Nat) (toks : List Nat) : (f.write off toks).vsize = f.vsize := by
  unfold write; dsimp only; split <;> rfl

theorem write_sec_get (f : Flat) (off : Nat) (toks : List Nat) (s : Nat) :
    (f.write off toks).sec.get s =
      if off / 512 ≤ s ∧ s < off / 512 + toks.length then toks.getD (s - off / 512) 0
      else f.sec.get s := by
  unfold write; dsimp only
  split
  · rename_i h; rw [if_neg (by omega)]
  · exact FMap.get_foldl_set_range f.sec (off / 512) toks.length (fun i => toks.getD i 0) s

theorem write_own_get (f : Flat) (off : Nat) (toks : List Nat) (g : Nat) :
    (f.write off toks).own.get g =
      if toks ≠ [] ∧ off / f.cs ≤ g ∧ g ≤ (off + toks.length * 512 - 1) / f.cs then true
      else f.own.get g := by
  unfold write; dsimp only
  split
  · rename_i h
    have : toks = [] := List.eq_nil_of_length_eq_zero h
    simp [this]
  · rename_i h
    have hne : toks ≠ [] := fun e => h (by simp [e])
    have hmono : off / f.cs ≤ (off + toks.length * 512 - 1) / f.cs :=
      Nat.div_le_div_right (by omega)
    have := FMap.get_foldl_set_range f.own (off / f.cs)
      ((off + toks.length * 512 - 1) / f.cs - off / f.cs + 1) (fun _ => true) g
    dsimp only at this ⊢
    rw [this]
    by_cases c : off / f.cs ≤ g ∧ g ≤ (off + toks.length * 512 - 1) / f.cs
    · rw [if_pos (by omega), if_pos ⟨hne, c⟩]
    · rw [if_neg (by omega), if_neg (by intro x; exact c x.2)]

/-! ### `discard` -/

/-- the body of the cluster loop of `Flat.discard` -/
def discardStep (start : Nat) (acc : Flat) (i : Nat) : Flat :=
  let g := start + i
  if acc.own.get g then
    { acc with
      sec := (List.range acc.secPerCl).foldl (fun s k => s.set (g * acc.secPerCl + k) 0) acc.sec,
      own := acc.own.set g false }
  else acc

theorem discard_eq (f : Flat) (off len : Nat) :
    f.discard off len =
      if len = 0 then f else
      if off ≥ min (min (off + len) (2^64 - 1)) f.vsize then f else
      if (off + f.cs - 1) / f.cs ≥ min (min (off + len) (2^64 - 1)) f.vsize / f.cs then f else
      (List.range (min (min (off + len) (2^64 - 1)) f.vsize / f.cs - (off + f.cs - 1) / f.cs)).foldl
        (discardStep ((off + f.cs - 1) / f.cs)) f := rfl

/-- the cluster loop of `Flat.discard` over clusters `[start, start + m)` -/
theorem discardFold_spec (f : Flat) (start m : Nat) (hspc : 0 < f.secPerCl) :
    let r := (List.range m).foldl (discardStep start) f
    r.cs = f.cs ∧ r.vsize = f.vsize ∧
    (∀ g, r.own.get g = if start ≤ g ∧ g < start + m then false else f.own.get g) ∧
    (∀ s, r.sec.get s =
      if start ≤ s / f.secPerCl ∧ s / f.secPerCl < start + m ∧ f.own.get (s / f.secPerCl) = true then 0
      else f.sec.get s) := by
  induction m with
  | zero =>
    refine ⟨rfl, rfl, ?_, ?_⟩
    · intro g; rw [if_neg (by omega)]; rfl
    · intro s; rw [if_neg (by omega)]; rfl
  | succ m ih =>
    obtain ⟨h1, h2, h3, h4⟩ := ih
    intro r
    have hr : r = discardStep start ((List.range m).foldl (discardStep start) f) m := by
      show (List.range (m + 1)).foldl (discardStep start) f = _
      rw [List.range_succ, List.foldl_append]; rfl
    generalize (List.range m).foldl (discardStep start) f = r0 at *
    have hspc0 : r0.secPerCl = f.secPerCl := by unfold secPerCl; rw [h1]
    have hown : r0.own.get (start + m) = f.own.get (start + m) := by
      rw [h3, if_neg (by omega)]
    by_cases ho : f.own.get (start + m) = true
    · have hr' : r = { r0 with
          sec := (List.range f.secPerCl).foldl (fun s k => s.set ((start + m) * f.secPerCl + k) 0) r0.sec,
          own := r0.own.set (start + m) false } := by
        rw [hr]; unfold discardStep; dsimp only; rw [hown, ho, if_pos rfl, hspc0]
      refine ⟨by rw [hr']; exact h1, by rw [hr']; exact h2, ?_, ?_⟩
      · intro g
        rw [hr']; dsimp only
        rw [FMap.get_set, h3]
        by_cases c : start + m = g
        · rw [if_pos c, if_pos (by omega)]
        · rw [if_neg c]
          by_cases c2 : start ≤ g ∧ g < start + m
          · rw [if_pos c2, if_pos (by omega)]
          · rw [if_neg c2, if_neg (by omega)]
      · intro s
        rw [hr']; dsimp only
        rw [FMap.get_foldl_set_range, h4]
        have hiff := div_eq_iff_bounds s (start + m) f.secPerCl hspc
        by_cases c : (start + m) * f.secPerCl ≤ s ∧ s < (start + m) * f.secPerCl + f.secPerCl
        · have hg := hiff.2 c
          rw [if_pos c, if_pos ⟨by omega, by omega, by rw [hg]; exact ho⟩]
        · rw [if_neg c]
          have hg : s / f.secPerCl ≠ start + m := fun e => c (hiff.1 e)
          by_cases c2 : start ≤ s / f.secPerCl ∧ s / f.secPerCl < start + m ∧ f.own.get (s / f.secPerCl) = true
          · rw [if_pos c2, if_pos ⟨c2.1, by omega, c2.2.2⟩]
          · rw [if_neg c2, if_neg (by intro x; exact c2 ⟨x.1, by omega, x.2.2⟩)]
    · have hr' : r = r0 := by
        rw [hr]; unfold discardStep; dsimp only; rw [hown]; simp [ho]
      have ho' : f.own.get (start + m) = false := by simpa using ho
      refine ⟨by rw [hr']; exact h1, by rw [hr']; exact h2, ?_, ?_⟩
      · intro g
        rw [hr', h3]
        by_cases c : start + m = g
        · rw [if_neg (by omega), if_pos (by omega), ← c, ho']
        · by_cases c2 : start ≤ g ∧ g < start + m
          · rw [if_pos c2, if_pos (by omega)]
          · rw [if_neg c2, if_neg (by omega)]
      · intro s
        rw [hr', h4]
        by_cases c2 : start ≤ s / f.secPerCl ∧ s / f.secPerCl < start + m ∧ f.own.get (s / f.secPerCl) = true
        · rw [if_pos c2, if_pos ⟨c2.1, by omega, c2.2.2⟩]
        · rw [if_neg c2, if_neg]
          intro x
          by_cases c : s / f.secPerCl = start + m
          · rw [c] at x; exact ho x.2.2
          · exact c2 ⟨x.1, by omega, x.2.2⟩

end Spec.Flat
end Qv
