import Qv.Props.C11
import Qv.Model.Format
import Qv.Proofs.Frames
/-
Refcount accounting (C03) on the device model: the number of references to a
host cluster, as a sum of indicator counts over finite index ranges, and the
helper lemmas for `Qv/Props/C03.lean`.

References counted, as in the qcow2 format: the header (cluster 0), the
clusters of the L1 table named by the header, the clusters of the refcount
table named by the header, one per non-zero refcount-table entry (refblocks),
one per non-zero L1 entry (L2 tables) and one per cluster of the allocation of
every L2 entry reachable through the L1 table (standard and compressed data).
-/
namespace Qv.Model
open Qv Qv.Codec
open Qv.Props.C15 (Geom)
open Qv.Props.C11 (L1Distinct Discarded)

/-! ### finite sums -/

/-- `Σ_{i<n} f i` by structural recursion (evaluates by `decide` / `simp`) -/
def sumTo : Nat → (Nat → Nat) → Nat
  | 0, _ => 0
  | n + 1, f => sumTo n f + f n

@[simp] theorem sumTo_zero_len (f : Nat → Nat) : sumTo 0 f = 0 := rfl
theorem sumTo_succ (n : Nat) (f : Nat → Nat) : sumTo (n + 1) f = sumTo n f + f n := rfl

theorem sumTo_congr {n : Nat} {f g : Nat → Nat} (h : ∀ i, i < n → f i = g i) :
    sumTo n f = sumTo n g := by
  induction n with
  | zero => rfl
  | succ n ih =>
    rw [sumTo_succ, sumTo_succ, ih (fun i hi => h i (by omega)), h n (by omega)]

theorem sumTo_eq_zero {n : Nat} {f : Nat → Nat} (h : ∀ i, i < n → f i = 0) : sumTo n f = 0 := by
  induction n with
  | zero => rfl
  | succ n ih => rw [sumTo_succ, ih (fun i hi => h i (by omega)), h n (by omega)]

theorem sumTo_const_zero (n : Nat) : sumTo n (fun _ => 0) = 0 := sumTo_eq_zero (fun _ _ => rfl)

theorem le_sumTo {n : Nat} {f : Nat → Nat} {k : Nat} (hk : k < n) : f k ≤ sumTo n f := by
  induction n with
  | zero => omega
  | succ n ih =>
    rw [sumTo_succ]
    by_cases h : k = n
    · subst h; omega
    · have := ih (by omega); omega

theorem sumTo_eq_zero_iff {n : Nat} {f : Nat → Nat} : sumTo n f = 0 ↔ ∀ i, i < n → f i = 0 := by
  constructor
  · intro h i hi
    have := le_sumTo (f := f) hi
    omega
  · exact sumTo_eq_zero

/-- `g` differs from `f` at most at index `k` (inside the range) -/
theorem sumTo_update {n : Nat} {f g : Nat → Nat} {k : Nat} (hk : k < n)
    (h : ∀ i, i < n → i ≠ k → g i = f i) : sumTo n g + f k = sumTo n f + g k := by
  induction n with
  | zero => omega
  | succ n ih =>
    rw [sumTo_succ, sumTo_succ]
    by_cases hkn : k = n
    · subst hkn
      have : sumTo k g = sumTo k f := sumTo_congr (fun i hi => h i (by omega) (by omega))
      omega
    · have h1 := ih (by omega) (fun i hi hne => h i (by omega) hne)
      have h2 := h n (by omega) (fun x => hkn x.symm)
      omega

/-- a sum of indicators of a single index -/
theorem sumTo_single (n k a : Nat) : sumTo n (fun i => if i = k then a else 0) = if k < n then a else 0 := by
  induction n with
  | zero => simp
  | succ n ih =>
    rw [sumTo_succ, ih]
    by_cases h1 : k < n
    · rw [if_pos h1, if_neg (by omega), if_pos (by omega)]; rfl
    · by_cases h2 : n = k
      · rw [if_neg h1, if_pos h2, if_pos (by omega)]; omega
      · rw [if_neg h1, if_neg h2, if_neg (by omega)]

/-! ### what an entry references -/

/-- indicator: the (non-zero) byte offset `off` lies in cluster `c` -/
def pointsTo (cs off c : Nat) : Nat := if off ≠ 0 ∧ off / cs = c then 1 else 0

/-- indicator: cluster `c` belongs to the allocation `(host offset, cluster count)` -/
def covers (cs : Nat) (a : Option (Nat × Nat)) (c : Nat) : Nat :=
  match a with
  | some (h, n) => if h / cs ≤ c ∧ c < h / cs + n then 1 else 0
  | none => 0

@[simp] theorem covers_none (cs c : Nat) : covers cs none c = 0 := rfl
theorem covers_some (cs h n c : Nat) :
    covers cs (some (h, n)) c = if h / cs ≤ c ∧ c < h / cs + n then 1 else 0 := rfl
@[simp] theorem pointsTo_zero (cs c : Nat) : pointsTo cs 0 c = 0 := by simp [pointsTo]
theorem covers_le_one (cs : Nat) (a : Option (Nat × Nat)) (c : Nat) : covers cs a c ≤ 1 := by
  unfold covers; split
  · split <;> omega
  · omega
theorem pointsTo_le_one (cs off c : Nat) : pointsTo cs off c ≤ 1 := by
  unfold pointsTo; split <;> omega

namespace Dev
variable (d : Dev)

/-- entry `i` of the RAM L1 table (`Table::get`: 0 out of range) -/
def l1At (i : Nat) : E64 := if i < d.l1Len then d.l1.get i else 0#64

theorem l1Entry_eq (off : Nat) : d.l1Entry off = d.l1At (Split.l1Index d.info off) := rfl

/-- L2 entry `j` of the table of L1 entry `i`, through the view -/
def slot (i j : Nat) : E64 :=
  if L1.isZero (d.l1At i) then 0#64 else (d.l2.get (L1.l2Offset (d.l1At i)).toNat).get j

theorem l2Entry_eq_slot (off : Nat) :
    d.l2Entry off = d.slot (Split.l1Index d.info off) (Split.l2Index d.info off) := rfl

/-- clusters the L1 table named by the header occupies: `⌈l1_size * 8 / cs⌉` -/
def l1Clusters : Nat := (d.hdrL1Entries * 8 + d.cs - 1) / d.cs

def refsHeader (c : Nat) : Nat := if c = 0 then 1 else 0

def refsL1Table (c : Nat) : Nat :=
  if d.hdrL1Off / d.cs ≤ c ∧ c < d.hdrL1Off / d.cs + d.l1Clusters then 1 else 0

def refsRtTable (c : Nat) : Nat :=
  if d.hdrRtOff / d.cs ≤ c ∧ c < d.hdrRtOff / d.cs + d.hdrRtClusters then 1 else 0

/-- refblocks: one reference per non-zero refcount-table entry -/
def refsRefblocks (c : Nat) : Nat :=
  sumTo d.rtLen fun i => pointsTo d.cs (RT.refblockOffset (d.rt.get i)).toNat c

/-- L2 tables: one reference per non-zero L1 entry the header covers -/
def refsL2Tables (c : Nat) : Nat :=
  sumTo d.hdrL1Entries fun i => pointsTo d.cs (L1.l2Offset (d.l1At i)).toNat c

/-- data clusters (standard and compressed): every cluster of the allocation of
    every L2 entry of every L2 table reachable from the L1 table -/
def refsData (c : Nat) : Nat :=
  sumTo d.hdrL1Entries fun i =>
    if L1.isZero (d.l1At i) then 0 else
    sumTo d.info.l2Entries fun j =>
      covers d.cs (L2.allocation d.info.cb ((d.l2.get (L1.l2Offset (d.l1At i)).toNat).get j)) c

/-- number of references to host cluster `c` -/
def refs (c : Nat) : Nat :=
  refsHeader c + d.refsL1Table c + d.refsRtTable c + d.refsRefblocks c + d.refsL2Tables c + d.refsData c

end Dev

/-- the stored refcount of every host cluster is its number of references -/
def Acct (d : Dev) : Prop := ∀ c, d.rc.get c = d.refs c
/-- no cluster is under-counted (the crash-safe direction) -/
def NoUnder (d : Dev) : Prop := ∀ c, d.refs c ≤ d.rc.get c
/-- no cluster is leaked (over-counted) -/
def NoLeak (d : Dev) : Prop := ∀ c, d.rc.get c ≤ d.refs c

/-! ### entry facts -/

theorem l1_isZero_zero : L1.isZero 0#64 = true := by decide
theorem l1_l2Offset_zero : (L1.l2Offset 0#64).toNat = 0 := by decide
theorem rt_refblockOffset_zero : (RT.refblockOffset 0#64).toNat = 0 := by decide

theorem l1_isZero_iff (e : E64) : L1.isZero e = true ↔ (L1.l2Offset e).toNat = 0 := by
  unfold L1.isZero
  simp only [decide_eq_true_eq]
  constructor
  · intro h; rw [h]; rfl
  · intro h; exact BitVec.eq_of_toNat_eq (by rw [h]; rfl)

theorem rt_isZero_iff (e : E64) : RT.isZero e = true ↔ (RT.refblockOffset e).toNat = 0 := by
  unfold RT.isZero
  simp only [decide_eq_true_eq]
  constructor
  · intro h; rw [h]; rfl
  · intro h; exact BitVec.eq_of_toNat_eq (by rw [h]; rfl)

/-- the reftable entry `ensure_refblock_offset` stores decodes to its offset -/
theorem rt_refblockOffset_ofNat (x : Nat) (h512 : x % 512 = 0) (h64 : x < 2^64) :
    (RT.refblockOffset (BitVec.ofNat 64 x)).toNat = x := by
  have hT := L2.ofNat_toNat_of_lt x h64
  have h0 : BitVec.ofNat 64 x &&& 511#64 = 0#64 := by
    apply BitVec.eq_of_toNat_eq
    rw [L2.and_lit9_toNat, hT, h512]; rfl
  have hsplit : BitVec.ofNat 64 x =
      (BitVec.ofNat 64 x &&& 0xfffffffffffffe00#64) ||| (BitVec.ofNat 64 x &&& 511#64) := by
    rw [← BitVec.and_or_distrib_left]
    have : (0xfffffffffffffe00#64 ||| 511#64) = BitVec.allOnes 64 := by decide
    rw [this, BitVec.and_allOnes]
  rw [h0, BitVec.or_zero] at hsplit
  unfold RT.refblockOffset
  rw [← hsplit, hT]

/-- a 512-aligned offset below 2^56, as a bit vector: which mask bits it has -/
theorem std_offset_masks (o : BitVec 64) (h9 : o &&& 511#64 = 0#64) (h56 : o.toNat < 2^56) :
    o &&& 0x00fffffffffffe00#64 = o ∧ o &&& (1#64 <<< 62) = 0#64 ∧ o &&& (1#64 <<< 63) = 0#64 ∧
    o &&& 1#64 = 0#64 := by
  have hm : o &&& ((1#64 <<< 56) - 1#64) = o := by
    apply BitVec.eq_of_toNat_eq
    rw [L2.and_mask_toNat o 56 (by decide), Nat.mod_eq_of_lt h56]
  have hk : ∀ K : BitVec 64, ((1#64 <<< 56) - 1#64) &&& K = 0#64 → o &&& K = 0#64 := by
    intro K hK
    rw [← hm, BitVec.and_assoc, hK, BitVec.and_zero]
  have h1 : o &&& 1#64 = 0#64 := by
    have : (1#64 : BitVec 64) = 511#64 &&& 1#64 := by decide
    rw [this, ← BitVec.and_assoc, h9, BitVec.zero_and]
  refine ⟨?_, hk _ (by decide), hk _ (by decide), h1⟩
  have hH := hk 0xff00000000000000#64 (by decide)
  have hall : (0x00fffffffffffe00#64 ||| 511#64 ||| 0xff00000000000000#64 : BitVec 64) = BitVec.allOnes 64 := by
    decide
  have : o = o &&& (0x00fffffffffffe00#64 ||| 511#64 ||| 0xff00000000000000#64) := by
    rw [hall, BitVec.and_allOnes]
  rw [BitVec.and_or_distrib_left, BitVec.and_or_distrib_left, h9, hH, BitVec.or_zero, BitVec.or_zero] at this
  exact this.symm


/-- fields of `(1 << 63) | o` for such an offset (`map_cluster` / `map_l2_offset`) -/
theorem copied_entry_fields (o : BitVec 64) (h9 : o &&& 511#64 = 0#64) (h56 : o.toNat < 2^56) :
    L2.isCompressed ((1#64 <<< 63) ||| o) = false ∧ L2.isZero ((1#64 <<< 63) ||| o) = false ∧
    L2.clusterOffset ((1#64 <<< 63) ||| o) = o ∧ L2.isCopied ((1#64 <<< 63) ||| o) = true ∧
    L1.l2Offset ((1#64 <<< 63) ||| o) = o := by
  obtain ⟨m1, m2, m3, m4⟩ := std_offset_masks o h9 h56
  have hoff : ((1#64 <<< 63) ||| o) &&& 0x00fffffffffffe00#64 = o := by
    rw [BitVec.and_or_distrib_right, m1]
    have : (1#64 <<< 63 : BitVec 64) &&& 0x00fffffffffffe00#64 = 0#64 := by decide
    rw [this, BitVec.zero_or]
  refine ⟨?_, ?_, hoff, ?_, hoff⟩
  · unfold L2.isCompressed
    rw [BitVec.and_or_distrib_right, m2]
    decide
  · unfold L2.isZero
    rw [BitVec.and_or_distrib_right, m4]
    decide
  · unfold L2.isCopied
    rw [BitVec.and_or_distrib_right, m3]
    decide

theorem ofNat_offset (x : Nat) (h512 : x % 512 = 0) (h56 : x < 2^56) :
    BitVec.ofNat 64 x &&& 511#64 = 0#64 ∧ (BitVec.ofNat 64 x).toNat < 2^56 ∧
    (BitVec.ofNat 64 x).toNat = x := by
  obtain ⟨a, _, c⟩ := L2.std_offset_bv x h512 h56
  exact ⟨a, by rw [c]; exact h56, c⟩

/-- the entry `map_cluster` stores references exactly the one cluster at `h` -/
theorem allocation_mapClusterEntry (cb h : Nat) (h512 : h % 512 = 0) (hpos : 0 < h) (h56 : h < 2^56) :
    L2.allocation cb (L2.mapClusterEntry h) = some (h, 1) := by
  obtain ⟨o9, o56, oT⟩ := ofNat_offset h h512 h56
  obtain ⟨g1, _, g3, _, _⟩ := copied_entry_fields _ o9 o56
  unfold L2.mapClusterEntry
  rw [L2.allocation_of_not_compressed _ _ g1, g3, oT, if_neg]
  intro h0
  rw [h0] at oT
  simp at oT; omega

/-- … and decodes to a COPIED data cluster at `h` -/
theorem intoMapping_mapClusterEntry (cb : Nat) (hb : Bool) (gc h : Nat) (h512 : h % 512 = 0)
    (hpos : 0 < h) (h56 : h < 2^56) :
    L2.intoMapping cb hb gc (L2.mapClusterEntry h) =
      { source := .dataFile, clusterOffset := some h, compressedLength := none, copied := true } := by
  obtain ⟨o9, o56, oT⟩ := ofNat_offset h h512 h56
  obtain ⟨g1, g2, g3, g4, _⟩ := copied_entry_fields _ o9 o56
  unfold L2.mapClusterEntry
  rw [L2.intoMapping_plain cb hb gc _ g1 g2, g3, g4, oT]
  rw [g3]
  intro h0
  rw [h0] at oT
  simp at oT; omega

/-- the L1 entry `map_l2_offset` stores points to its table -/
theorem l1_mapEntry_facts (x : Nat) (h512 : x % 512 = 0) (hpos : 0 < x) (h56 : x < 2^56) :
    (L1.l2Offset (L1.mapEntry x)).toNat = x ∧ L1.isZero (L1.mapEntry x) = false := by
  obtain ⟨o9, o56, oT⟩ := ofNat_offset x h512 h56
  obtain ⟨_, _, _, _, g5⟩ := copied_entry_fields _ o9 o56
  unfold L1.isZero L1.mapEntry
  rw [g5, oT]
  refine ⟨rfl, ?_⟩
  apply decide_eq_false
  intro h0
  rw [h0] at oT
  simp at oT; omega

/-! ### which parts of the state each count depends on -/

/-- geometry and the header fields the table references depend on -/
structure HdrSame (d d' : Dev) : Prop where
  info : d'.info = d.info
  hdrL1Off : d'.hdrL1Off = d.hdrL1Off
  hdrL1Entries : d'.hdrL1Entries = d.hdrL1Entries
  hdrRtOff : d'.hdrRtOff = d.hdrRtOff
  hdrRtClusters : d'.hdrRtClusters = d.hdrRtClusters

theorem HdrSame.refl (d : Dev) : HdrSame d d := ⟨rfl, rfl, rfl, rfl, rfl⟩

theorem HdrSame.of_sameFrame {d d' : Dev} (h : SameFrame d d') : HdrSame d d' := by
  obtain ⟨a1, _, _, _, _, _, _, _, _, a10, a11, a12, a13⟩ := h
  exact ⟨a1, a10, a11, a12, a13⟩

theorem cs_congr {d d' : Dev} (h : d'.info = d.info) : d'.cs = d.cs := by unfold Dev.cs; rw [h]

theorem refsL1Table_congr {d d' : Dev} (h : HdrSame d d') (c : Nat) : d'.refsL1Table c = d.refsL1Table c := by
  unfold Dev.refsL1Table Dev.l1Clusters
  rw [cs_congr h.info, h.hdrL1Off, h.hdrL1Entries]

theorem refsRtTable_congr {d d' : Dev} (h : HdrSame d d') (c : Nat) : d'.refsRtTable c = d.refsRtTable c := by
  unfold Dev.refsRtTable
  rw [cs_congr h.info, h.hdrRtOff, h.hdrRtClusters]

theorem refsRefblocks_congr {d d' : Dev} (hi : d'.info = d.info) (hrt : d'.rt = d.rt)
    (hlen : d'.rtLen = d.rtLen) (c : Nat) : d'.refsRefblocks c = d.refsRefblocks c := by
  unfold Dev.refsRefblocks
  rw [cs_congr hi, hrt, hlen]

theorem l1At_congr {d d' : Dev} (h1 : d'.l1 = d.l1) (hlen : d'.l1Len = d.l1Len) (i : Nat) :
    d'.l1At i = d.l1At i := by
  unfold Dev.l1At; rw [h1, hlen]

theorem refsL2Tables_congr {d d' : Dev} (hi : d'.info = d.info) (hn : d'.hdrL1Entries = d.hdrL1Entries)
    (h1 : ∀ i, i < d.hdrL1Entries → d'.l1At i = d.l1At i) (c : Nat) :
    d'.refsL2Tables c = d.refsL2Tables c := by
  unfold Dev.refsL2Tables
  rw [cs_congr hi, hn]
  exact sumTo_congr (fun i hi' => by rw [h1 i hi'])

/-- `refsData` as a double sum over the slots of the view -/
theorem refsData_eq_slots (d : Dev) (c : Nat) :
    d.refsData c = sumTo d.hdrL1Entries fun i => sumTo d.info.l2Entries fun j =>
      covers d.cs (L2.allocation d.info.cb (d.slot i j)) c := by
  unfold Dev.refsData
  apply sumTo_congr
  intro i _
  unfold Dev.slot
  split
  · rename_i hz
    symm
    apply sumTo_eq_zero
    intro j _
    rw [L2.allocation_zero]; rfl
  · rfl

/-- one slot of the view changes: the data references change by the difference
    of the two indicators (the slot is inside the summation range, hence counted
    exactly once) -/
theorem refsData_slot_change {d d' : Dev} {i0 j0 : Nat} {e : E64}
    (hinfo : d'.info = d.info) (hn : d'.hdrL1Entries = d.hdrL1Entries)
    (hi : i0 < d.hdrL1Entries) (hj : j0 < d.info.l2Entries)
    (hslot : ∀ i j, i < d.hdrL1Entries → j < d.info.l2Entries →
      d'.slot i j = if i = i0 ∧ j = j0 then e else d.slot i j) (c : Nat) :
    d'.refsData c + covers d.cs (L2.allocation d.info.cb (d.slot i0 j0)) c =
      d.refsData c + covers d.cs (L2.allocation d.info.cb e) c := by
  rw [refsData_eq_slots, refsData_eq_slots, cs_congr hinfo, hinfo, hn]
  have houter := sumTo_update (n := d.hdrL1Entries)
    (f := fun i => sumTo d.info.l2Entries fun j => covers d.cs (L2.allocation d.info.cb (d.slot i j)) c)
    (g := fun i => sumTo d.info.l2Entries fun j => covers d.cs (L2.allocation d.info.cb (d'.slot i j)) c)
    hi (by
      intro i hi' hne
      apply sumTo_congr
      intro j hj'
      rw [hslot i j hi' hj', if_neg (fun x => hne x.1)])
  have hinner := sumTo_update (n := d.info.l2Entries)
    (f := fun j => covers d.cs (L2.allocation d.info.cb (d.slot i0 j)) c)
    (g := fun j => covers d.cs (L2.allocation d.info.cb (d'.slot i0 j)) c)
    hj (by
      intro j hj' hne
      show covers d.cs (L2.allocation d.info.cb (d'.slot i0 j)) c = _
      rw [hslot i0 j hi hj', if_neg (fun x => hne x.2)])
  have hnew : d'.slot i0 j0 = e := by rw [hslot i0 j0 hi hj, if_pos ⟨rfl, rfl⟩]
  rw [hnew] at hinner
  omega

/-- … and so does the total, when nothing else the counts depend on changes -/
theorem refs_slot_change {d d' : Dev} {i0 j0 : Nat} {e : E64}
    (hh : HdrSame d d') (hl1 : ∀ i, i < d.hdrL1Entries → d'.l1At i = d.l1At i)
    (hrt : d'.rt = d.rt) (hrtLen : d'.rtLen = d.rtLen)
    (hi : i0 < d.hdrL1Entries) (hj : j0 < d.info.l2Entries)
    (hslot : ∀ i j, i < d.hdrL1Entries → j < d.info.l2Entries →
      d'.slot i j = if i = i0 ∧ j = j0 then e else d.slot i j) (c : Nat) :
    d'.refs c + covers d.cs (L2.allocation d.info.cb (d.slot i0 j0)) c =
      d.refs c + covers d.cs (L2.allocation d.info.cb e) c := by
  have h := refsData_slot_change hh.info hh.hdrL1Entries hi hj hslot c
  unfold Dev.refs
  rw [refsL1Table_congr hh, refsRtTable_congr hh, refsRefblocks_congr hh.info hrt hrtLen,
    refsL2Tables_congr hh.info hh.hdrL1Entries hl1]
  omega

/-! ### guest offsets ↔ (L1 index, L2 index) -/

/-- the first guest offset of slot `(a, b)` -/
def slotOff (i : Info) (a b : Nat) : Nat := (a * i.l2Entries + b) * 2^i.cb

theorem l2Entries_pos {i : Info} (g : Geom i) : 0 < i.l2Entries := by
  rw [← g.l2IndexShift_eq]; exact Nat.two_pow_pos _

theorem slotOff_l1Index {i : Info} (g : Geom i) (a b : Nat) (hb : b < i.l2Entries) :
    Split.l1Index i (slotOff i a b) = a := by
  unfold Split.l1Index slotOff
  rw [Nat.pow_add, g.l2IndexShift_eq, Nat.mul_comm (2^i.cb) i.l2Entries,
    Nat.mul_div_mul_right _ _ (Nat.two_pow_pos _), Nat.add_comm, Nat.add_mul_div_right _ _ (l2Entries_pos g),
    Nat.div_eq_of_lt hb, Nat.zero_add]

theorem slotOff_l2Index {i : Info} (g : Geom i) (a b : Nat) (hb : b < i.l2Entries) :
    Split.l2Index i (slotOff i a b) = b := by
  unfold Split.l2Index slotOff
  rw [Nat.mul_div_cancel _ (Nat.two_pow_pos _), g.l2IndexShift_eq, Nat.add_comm,
    Nat.add_mul_mod_self_right, Nat.mod_eq_of_lt hb]

/-- `L1Distinct` in index form -/
theorem l1Distinct_index {d : Dev} (g : Geom d.info) (h : L1Distinct d) (a b : Nat) (hne : a ≠ b)
    (ha : L1.isZero (d.l1At a) = false) (hb : L1.isZero (d.l1At b) = false) :
    (L1.l2Offset (d.l1At a)).toNat ≠ (L1.l2Offset (d.l1At b)).toNat := by
  have h0 := l2Entries_pos g
  have := h (slotOff d.info a 0) (slotOff d.info b 0)
  rw [d.l1Entry_eq, d.l1Entry_eq, slotOff_l1Index g a 0 h0, slotOff_l1Index g b 0 h0] at this
  exact this hne ha hb

/-- a change of the view described on guest offsets (one cluster's entry becomes
    `e`, every other (L1 index, L2 index) pair keeps its entry), on slots -/
theorem slot_change_of_l2Entry {d d' : Dev} (g : Geom d.info) (hinfo : d'.info = d.info)
    (off : Nat) (e : E64) (hentry : d'.l2Entry off = e)
    (hframe : ∀ o, Split.l1Index d.info o ≠ Split.l1Index d.info off ∨
        Split.l2Index d.info o ≠ Split.l2Index d.info off → d'.l2Entry o = d.l2Entry o)
    (i j : Nat) (hj : j < d.info.l2Entries) :
    d'.slot i j =
      if i = Split.l1Index d.info off ∧ j = Split.l2Index d.info off then e else d.slot i j := by
  have h1 := slotOff_l1Index g i j hj
  have h2 := slotOff_l2Index g i j hj
  have e' : d'.l2Entry (slotOff d.info i j) = d'.slot i j := by
    rw [d'.l2Entry_eq_slot, hinfo, h1, h2]
  have e0 : d.l2Entry (slotOff d.info i j) = d.slot i j := by
    rw [d.l2Entry_eq_slot, h1, h2]
  by_cases hc : i = Split.l1Index d.info off ∧ j = Split.l2Index d.info off
  · rw [if_pos hc, hc.1, hc.2, ← hentry, d'.l2Entry_eq_slot, hinfo]
  · rw [if_neg hc, ← e', ← e0]
    apply hframe
    rw [h1, h2]
    by_cases hx : i = Split.l1Index d.info off
    · right; intro hy; exact hc ⟨hx, hy⟩
    · left; exact hx

/-! ### preservation: mapping a freshly allocated cluster -/

theorem cluster_mul_div (d : Dev) (c0 : Nat) : c0 * d.cs / d.cs = c0 :=
  Nat.mul_div_cancel _ (Nat.two_pow_pos _)

theorem cluster_mul_mod512 (d : Dev) (h9 : 9 ≤ d.info.cb) (c0 : Nat) : c0 * d.cs % 512 = 0 :=
  Arith16.mul_mod_zero_right c0 (Arith16.two_pow_mod (a := 9) h9)

/-- a cluster with refcount 0 in an exactly accounted image is not cluster 0 -/
theorem acct_free_ne_zero {d : Dev} (hA : Acct d) {c0 : Nat} (h0 : d.rc.get c0 = 0) : 0 < c0 := by
  apply Nat.pos_of_ne_zero
  intro hc; subst hc
  have := hA 0
  rw [h0] at this
  unfold Dev.refs Dev.refsHeader at this
  simp at this
  omega

/-- slot form: one slot without allocation becomes `map_cluster(c₀·cs)` and
    `rc c₀` goes 0 → 1 -/
theorem acct_map_slot {d d' : Dev} {i0 j0 c0 : Nat} (h9 : 9 ≤ d.info.cb) (hA : Acct d)
    (hh : HdrSame d d') (hl1 : ∀ i, i < d.hdrL1Entries → d'.l1At i = d.l1At i)
    (hrt : d'.rt = d.rt) (hrtLen : d'.rtLen = d.rtLen)
    (hi : i0 < d.hdrL1Entries) (hj : j0 < d.info.l2Entries)
    (hold : L2.allocation d.info.cb (d.slot i0 j0) = none)
    (hslot : ∀ i j, i < d.hdrL1Entries → j < d.info.l2Entries →
      d'.slot i j = if i = i0 ∧ j = j0 then L2.mapClusterEntry (c0 * d.cs) else d.slot i j)
    (h0 : d.rc.get c0 = 0) (h56 : c0 * d.cs < 2^56)
    (hrc : ∀ c, d'.rc.get c = if c = c0 then 1 else d.rc.get c) : Acct d' := by
  intro c
  have hpos := acct_free_ne_zero hA h0
  have hcs : 0 < d.cs := Nat.two_pow_pos _
  have key := refs_slot_change hh hl1 hrt hrtLen hi hj hslot c
  rw [hold, allocation_mapClusterEntry _ _ (cluster_mul_mod512 d h9 c0) (Nat.mul_pos hpos hcs) h56,
    covers_none, covers_some, cluster_mul_div] at key
  rw [hrc c]
  by_cases hc : c = c0
  · rw [if_pos hc]
    rw [if_pos (by omega)] at key
    have := hA c0
    subst hc
    omega
  · rw [if_neg hc, hA c]
    rw [if_neg (by omega)] at key
    omega

/-- `L1Distinct`: same table and both mapped means same L1 index -/
theorem same_index_of_same_table {d : Dev} (hD : L1Distinct d) {o g : Nat}
    (ho : L1.isZero (d.l1Entry o) = false) (hg : L1.isZero (d.l1Entry g) = false)
    (ht : (L1.l2Offset (d.l1Entry o)).toNat = (L1.l2Offset (d.l1Entry g)).toNat) :
    Split.l1Index d.info o = Split.l1Index d.info g := by
  apply Classical.byContradiction
  intro hne
  exact hD o g hne ho hg ht

/-- the view after `setL2 off e` on an image without aliased L2 tables -/
theorem l2Entry_setL2_distinct {d d' : Dev} {off : Nat} {e : E64} (hD : L1Distinct d)
    (hl1 : L1.isZero (d.l1Entry off) = false)
    (hi : d'.info = d.info) (h1 : d'.l1 = d.l1) (hlen : d'.l1Len = d.l1Len)
    (h2 : d'.l2 = (d.setL2 off e).l2) :
    d'.l2Entry off = e ∧
    ∀ o, Split.l1Index d.info o ≠ Split.l1Index d.info off ∨
        Split.l2Index d.info o ≠ Split.l2Index d.info off → d'.l2Entry o = d.l2Entry o := by
  have key := fun o => l2Entry_after_setL2 d d' off e o hi h1 hlen h2
  refine ⟨?_, ?_⟩
  · rw [key off, if_neg (by simp [hl1]), if_pos ⟨rfl, rfl⟩]
  · intro o ho
    rw [key o]
    split
    · rename_i hz; exact (l2Entry_of_l1_zero d o hz).symm
    · rename_i hz
      rw [if_neg]
      rintro ⟨x1, x2⟩
      have hz' : L1.isZero (d.l1Entry o) = false := by
        cases hx : L1.isZero (d.l1Entry o) with
        | false => rfl
        | true => exact absurd hx hz
      rcases ho with ho | ho
      · exact ho (same_index_of_same_table hD hz' hl1 x1)
      · exact ho x2

/-- **allocate, then map**: `Acct d`, cluster `c₀` free (`rc = 0`), and `d'` is
    `d` with `rc c₀ := 1` and the entry of guest cluster `off` — which had no
    allocation — set to `map_cluster(c₀·cs)`. -/
theorem acct_alloc_then_map {d d' : Dev} {off c0 : Nat} (g : Geom d.info) (h9 : 9 ≤ d.info.cb)
    (hA : Acct d) (hD : L1Distinct d)
    (hl1 : L1.isZero (d.l1Entry off) = false) (hidx : Split.l1Index d.info off < d.hdrL1Entries)
    (hold : L2.allocation d.info.cb (d.l2Entry off) = none)
    (h0 : d.rc.get c0 = 0) (h56 : c0 * d.cs < 2^56)
    (hh : HdrSame d d') (hl1' : d'.l1 = d.l1) (hl1Len : d'.l1Len = d.l1Len)
    (hrt : d'.rt = d.rt) (hrtLen : d'.rtLen = d.rtLen)
    (hl2 : d'.l2 = (d.setL2 off (L2.mapClusterEntry (c0 * d.cs))).l2)
    (hrc : ∀ c, d'.rc.get c = if c = c0 then 1 else d.rc.get c) : Acct d' := by
  obtain ⟨he, hf⟩ := l2Entry_setL2_distinct hD hl1 hh.info hl1' hl1Len hl2
  exact acct_map_slot h9 hA hh (fun i _ => l1At_congr hl1' hl1Len i) hrt hrtLen hidx
    (Qv.Props.C15.split_bounds g off).1 hold
    (fun i j _ hj => slot_change_of_l2Entry g hh.info off _ he hf i j hj) h0 h56 hrc

/-! ### preservation: discard (unmap, then free) -/

/-- **unmap, then free**: what `Discarded` records (one uncompressed mapping
    cleared, its cluster's refcount decremented) keeps the accounting exact.
    `Discarded` does not mention the header fields (hence `HdrSame`, which
    `discardOne_sameFrame` provides) nor that the old entry was uncompressed. -/
theorem acct_unmap_then_free {d d' : Dev} {g host cnt : Nat} {cleared : E64} (geo : Geom d.info)
    (hA : Acct d) (hD : L1Distinct d) (hdis : Discarded d d' g host cnt cleared)
    (hc : L2.isCompressed (d.l2Entry g) = false)
    (hcl : L2.allocation d.info.cb cleared = none)
    (hidx : Split.l1Index d.info g < d.hdrL1Entries) (hh : HdrSame d d') : Acct d' := by
  obtain ⟨hcnt, hhost, hne⟩ := hdis.alloc
  obtain ⟨_, _, f3, f4, f5, f6, _, _⟩ := hdis.frame
  subst hcnt
  have hold : L2.allocation d.info.cb (d.l2Entry g) = some (host, 1) := by
    rw [L2.allocation_of_not_compressed _ _ hc, if_neg, hhost]
    intro hz
    apply hne
    rw [hhost, hz]; rfl
  have hslot := fun i j (_ : i < d.hdrL1Entries) (hj : j < d.info.l2Entries) =>
    slot_change_of_l2Entry geo hh.info g cleared hdis.entry
      (fun o ho => Qv.Props.C11.discardOne_l2_frame hdis hD o ho) i j hj
  intro c
  have key := refs_slot_change hh (fun i _ => l1At_congr f3 f4 i) f5 f6 hidx
    (Qv.Props.C15.split_bounds geo g).1 hslot c
  rw [← d.l2Entry_eq_slot, hold, hcl, covers_none, covers_some] at key
  have hcs : d.cs = d.info.clusterSize := rfl
  rw [hcs] at key
  by_cases hcc : c = host / d.info.clusterSize
  · obtain ⟨r1, r2⟩ := hdis.rc_released 0 (by omega)
    rw [Nat.add_zero] at r1 r2
    rw [if_pos (by omega)] at key
    have := hA c
    rw [hcc] at this key ⊢
    omega
  · rw [if_neg (by omega)] at key
    rw [hdis.rc_frame c (by omega), hA c]
    omega

/-! ### congruence of the whole count -/

theorem refsData_congr {d d' : Dev} (hinfo : d'.info = d.info) (hn : d'.hdrL1Entries = d.hdrL1Entries)
    (hslot : ∀ i j, i < d.hdrL1Entries → j < d.info.l2Entries → d'.slot i j = d.slot i j) (c : Nat) :
    d'.refsData c = d.refsData c := by
  rw [refsData_eq_slots, refsData_eq_slots, cs_congr hinfo, hinfo, hn]
  exact sumTo_congr (fun i hi => sumTo_congr (fun j hj => by rw [hslot i j hi hj]))

theorem slot_congr {d d' : Dev} (h1 : d'.l1 = d.l1) (hlen : d'.l1Len = d.l1Len) (h2 : d'.l2 = d.l2)
    (i j : Nat) : d'.slot i j = d.slot i j := by
  unfold Dev.slot; rw [l1At_congr h1 hlen, h2]

/-- the counts depend only on the geometry, the header, the L1 table, the L2
    tables and the refcount table (not on data, hints, flags, …) -/
theorem refs_congr {d d' : Dev} (hh : HdrSame d d') (h1 : d'.l1 = d.l1) (hlen : d'.l1Len = d.l1Len)
    (h2 : d'.l2 = d.l2) (hrt : d'.rt = d.rt) (hrtLen : d'.rtLen = d.rtLen) (c : Nat) :
    d'.refs c = d.refs c := by
  unfold Dev.refs
  rw [refsL1Table_congr hh, refsRtTable_congr hh, refsRefblocks_congr hh.info hrt hrtLen,
    refsL2Tables_congr hh.info hh.hdrL1Entries (fun i _ => l1At_congr h1 hlen i),
    refsData_congr hh.info hh.hdrL1Entries (fun i j _ _ => slot_congr h1 hlen h2 i j)]

theorem acct_congr {d d' : Dev} (hA : Acct d) (hrefs : ∀ c, d'.refs c = d.refs c)
    (hrc : ∀ c, d'.rc.get c = d.rc.get c) : Acct d' := by
  intro c; rw [hrefs c, hrc c]; exact hA c

/-- a free cluster of an exactly accounted image has no reference of any kind -/
theorem acct_free_no_refs {d : Dev} (hA : Acct d) {c0 : Nat} (h0 : d.rc.get c0 = 0) :
    d.refsL1Table c0 = 0 ∧ d.refsRtTable c0 = 0 ∧ d.refsRefblocks c0 = 0 ∧ d.refsL2Tables c0 = 0 ∧
    d.refsData c0 = 0 := by
  have := hA c0
  rw [h0] at this
  unfold Dev.refs at this
  omega

/-! ### preservation: a new L2 table -/

/-- **new L2 table**: cluster `c₀` free, `rc c₀ := 1`, an all-zero L2 table
    installed at `c₀·cs`, the zero L1 entry `i₀` (covered by the header and
    inside the RAM table) pointed to it. -/
theorem acct_new_l2_table {d d' : Dev} {i0 c0 : Nat} (h9 : 9 ≤ d.info.cb) (hA : Acct d)
    (hi : i0 < d.hdrL1Entries) (hlen : i0 < d.l1Len) (hz : L1.isZero (d.l1At i0) = true)
    (h0 : d.rc.get c0 = 0) (h56 : c0 * d.cs < 2^56)
    (hh : HdrSame d d') (hl1Len : d'.l1Len = d.l1Len) (hrt : d'.rt = d.rt) (hrtLen : d'.rtLen = d.rtLen)
    (hl1 : d'.l1 = d.l1.set i0 (L1.mapEntry (c0 * d.cs)))
    (hl2 : d'.l2 = d.l2.set (c0 * d.cs) (FMap.empty 0#64))
    (hrc : ∀ c, d'.rc.get c = if c = c0 then 1 else d.rc.get c) : Acct d' := by
  have hpos := acct_free_ne_zero hA h0
  have hcs : 0 < d.cs := Nat.two_pow_pos _
  have hxpos : 0 < c0 * d.cs := Nat.mul_pos hpos hcs
  obtain ⟨m1, m3⟩ := l1_mapEntry_facts (c0 * d.cs) (cluster_mul_mod512 d h9 c0) hxpos h56
  obtain ⟨_, _, _, n4, _⟩ := acct_free_no_refs hA h0
  have hat : ∀ i, d'.l1At i = if i = i0 then L1.mapEntry (c0 * d.cs) else d.l1At i := by
    intro i
    unfold Dev.l1At
    rw [hl1, hl1Len]
    by_cases hx : i = i0
    · subst hx; rw [if_pos rfl, if_pos hlen, FMap.get_set_same]
    · rw [if_neg hx, FMap.get_set_other _ _ _ _ (fun x => hx x.symm)]
  -- L2-table references: exactly one more, to `c₀`
  have hT : ∀ c, d'.refsL2Tables c = d.refsL2Tables c + (if c = c0 then 1 else 0) := by
    intro c
    unfold Dev.refsL2Tables
    rw [cs_congr hh.info, hh.hdrL1Entries]
    have hu := sumTo_update (n := d.hdrL1Entries)
      (f := fun i => pointsTo d.cs (L1.l2Offset (d.l1At i)).toNat c)
      (g := fun i => pointsTo d.cs (L1.l2Offset (d'.l1At i)).toNat c) hi
      (by intro i _ hne; show pointsTo d.cs (L1.l2Offset (d'.l1At i)).toNat c = _
          rw [hat i, if_neg hne])
    have e1 : pointsTo d.cs (L1.l2Offset (d.l1At i0)).toNat c = 0 := by
      rw [(l1_isZero_iff _).1 hz]; exact pointsTo_zero _ _
    have e2 : pointsTo d.cs (L1.l2Offset (d'.l1At i0)).toNat c = if c = c0 then 1 else 0 := by
      rw [hat i0, if_pos rfl, m1]
      unfold pointsTo
      rw [cluster_mul_div]
      by_cases hc : c = c0
      · rw [if_pos hc, if_pos ⟨by omega, hc.symm⟩]
      · rw [if_neg hc, if_neg (fun x => hc x.2.symm)]
    rw [e1, e2] at hu
    omega
  -- data references: unchanged (the new table is empty, no other L1 entry points to it)
  have hDat : ∀ c, d'.refsData c = d.refsData c := by
    intro c
    apply refsData_congr hh.info hh.hdrL1Entries
    intro i j hi' _
    unfold Dev.slot
    rw [hat i]
    by_cases hx : i = i0
    · subst hx
      rw [if_pos rfl, if_neg (by simp [m3]), if_pos hz, m1, hl2, FMap.get_set_same, FMap.get_empty]
    · rw [if_neg hx]
      by_cases hzi : L1.isZero (d.l1At i) = true
      · rw [if_pos hzi, if_pos hzi]
      · rw [if_neg hzi, if_neg hzi, hl2, FMap.get_set_other]
        intro heq
        have hp := (sumTo_eq_zero_iff.1 n4) i hi'
        unfold pointsTo at hp
        rw [← heq, cluster_mul_div, if_pos ⟨by omega, rfl⟩] at hp
        cases hp
  intro c
  unfold Dev.refs
  rw [refsL1Table_congr hh, refsRtTable_congr hh, refsRefblocks_congr hh.info hrt hrtLen, hT c, hDat c, hrc c]
  have := hA c
  unfold Dev.refs at this
  by_cases hc : c = c0
  · rw [if_pos hc, if_pos hc]
    rw [hc, h0] at this
    rw [hc]
    omega
  · rw [if_neg hc, if_neg hc]; omega

/-! ### preservation: a new refblock -/

/-- the state `ensure_refblock_offset` leaves when it creates the refblock of
    reftable entry `k` at cluster `c0` -/
def withRefblock (d : Dev) (k c0 : Nat) : Dev :=
  { d with rt := d.rt.set k (BitVec.ofNat 64 (c0 * d.info.clusterSize)),
           rc := d.rc.set c0 1, needFlush := true }

/-- `ensure_refblock_offset` on a zero reftable entry inside the table -/
theorem ensureRefblock_new {d : Dev} {off : Nat} (hidx : Host.rtIndex d.info off < d.rtLen)
    (hz : RT.isZero (d.rt.get (Host.rtIndex d.info off)) = true) :
    ensureRefblock off d =
      (withRefblock d (Host.rtIndex d.info off) (Host.rtIndex d.info off * d.info.rbEntries), .ok ()) := by
  have hcs : 0 < d.info.clusterSize := Nat.two_pow_pos _
  rw [ensureRefblock_inb hidx, ensureRefblockIn_eq, if_neg (not_not_intro hidx), if_pos hz]
  unfold withRefblockAt withRefblock
  rw [Nat.mul_div_cancel _ hcs]

/-- **new refblock**: `ensure_refblock_offset` on a zero reftable entry puts the
    refblock at the first cluster of the range it describes, with refcount 1 and
    exactly one new reference (the reftable entry); exact accounting is kept
    provided that cluster was free. -/
theorem acct_new_refblock {d d' : Dev} {off : Nat} (h9 : 9 ≤ d.info.cb) (hA : Acct d)
    (hidx : Host.rtIndex d.info off < d.rtLen)
    (hz : RT.isZero (d.rt.get (Host.rtIndex d.info off)) = true)
    (h0 : d.rc.get (Host.rtIndex d.info off * d.info.rbEntries) = 0)
    (h64 : Host.rtIndex d.info off * d.info.rbEntries * d.info.clusterSize < 2^64)
    (h : ensureRefblock off d = (d', .ok ())) : Acct d' := by
  rw [ensureRefblock_new hidx hz] at h
  simp only [Prod.mk.injEq, and_true] at h
  have hpos := acct_free_ne_zero hA h0
  have hcs : 0 < d.info.clusterSize := Nat.two_pow_pos _
  generalize Host.rtIndex d.info off = k at *
  generalize k * d.info.rbEntries = c0 at *
  have hdiv : c0 * d.info.clusterSize / d.cs = c0 := Nat.mul_div_cancel _ hcs
  have hdec := rt_refblockOffset_ofNat (c0 * d.info.clusterSize) (cluster_mul_mod512 d h9 c0) h64
  subst h
  have hh : HdrSame d (withRefblock d k c0) := ⟨rfl, rfl, rfl, rfl, rfl⟩
  intro c
  unfold Dev.refs
  rw [refsL1Table_congr hh, refsRtTable_congr hh,
    refsL2Tables_congr hh.info hh.hdrL1Entries (fun i _ => rfl),
    refsData_congr hh.info hh.hdrL1Entries (fun i j _ _ => rfl)]
  have hR : (withRefblock d k c0).refsRefblocks c = d.refsRefblocks c + (if c = c0 then 1 else 0) := by
    unfold Dev.refsRefblocks
    show sumTo d.rtLen (fun i => pointsTo d.cs (RT.refblockOffset
      ((d.rt.set k (BitVec.ofNat 64 (c0 * d.info.clusterSize))).get i)).toNat c) = _
    have hu := sumTo_update (n := d.rtLen)
      (f := fun i => pointsTo d.cs (RT.refblockOffset (d.rt.get i)).toNat c)
      (g := fun i => pointsTo d.cs (RT.refblockOffset
        ((d.rt.set k (BitVec.ofNat 64 (c0 * d.info.clusterSize))).get i)).toNat c) hidx
      (by intro i _ hne
          show pointsTo d.cs (RT.refblockOffset ((d.rt.set k _).get i)).toNat c = _
          rw [FMap.get_set_other _ _ _ _ (fun x => hne x.symm)])
    have e1 : pointsTo d.cs (RT.refblockOffset (d.rt.get k)).toNat c = 0 := by
      rw [(rt_isZero_iff _).1 hz]; exact pointsTo_zero _ _
    have e2 : pointsTo d.cs (RT.refblockOffset
        ((d.rt.set k (BitVec.ofNat 64 (c0 * d.info.clusterSize))).get k)).toNat c
        = if c = c0 then 1 else 0 := by
      rw [FMap.get_set_same, hdec]
      unfold pointsTo
      rw [hdiv]
      have hne : c0 * d.info.clusterSize ≠ 0 := Nat.ne_of_gt (Nat.mul_pos hpos hcs)
      by_cases hc : c = c0
      · rw [if_pos hc, if_pos ⟨hne, hc.symm⟩]
      · rw [if_neg hc, if_neg (fun x => hc x.2.symm)]
    rw [e1, e2] at hu
    omega
  rw [hR]
  show (d.rc.set c0 1).get c = _
  rw [FMap.get_set]
  have := hA c
  unfold Dev.refs at this
  by_cases hc : c0 = c
  · rw [if_pos hc, if_pos hc.symm]
    rw [← hc, h0] at this
    rw [← hc]
    omega
  · rw [if_neg hc, if_neg (fun x => hc x.symm)]; omega

/-! ### the formatter -/

theorem foldl_set_range_get (n c : Nat) :
    ((List.range n).foldl (fun acc c => acc.set c 1) (FMap.empty 0)).get c = if c < n then 1 else 0 := by
  induction n with
  | zero => simp
  | succ n ih =>
    rw [List.range_succ, List.foldl_append]
    simp only [List.foldl_cons, List.foldl_nil]
    rw [FMap.get_set, ih]
    by_cases h : n = c
    · rw [if_pos h, if_pos (by omega)]
    · rw [if_neg h]
      by_cases h2 : c < n
      · rw [if_pos h2, if_pos (by omega)]
      · rw [if_neg h2, if_neg (by omega)]

/-- header, reftable clusters, refblock, L1 clusters tile `[0, 1 + R + 1 + L)` -/
theorem layout_count (R L c : Nat) :
    (if c < 1 + R + 1 + L then 1 else 0) =
      (if c = 0 then 1 else 0) + (if R + 2 ≤ c ∧ c < R + 2 + L then 1 else 0) +
      (if 1 ≤ c ∧ c < 1 + R then 1 else 0) + (if c = R + 1 then 1 else 0) + 0 + 0 := by
  repeat' split
  all_goals omega

/-- what a successful `formatDev` returns -/
theorem formatDev_ok {size cb ro fmtBs : Nat} {p : Params} {d : Dev}
    (h : formatDev size cb ro fmtBs p = .ok d) :
    ∃ rc info, formatRefcounts (metaParams size cb ro fmtBs) cb ro = some rc ∧
      Info.new { clusterBits := cb, refcountOrder := ro, size := size, hasBackingName := false } p = .ok info ∧
      d.info = info ∧ d.rc = rc ∧
      d.hdrL1Off = (metaParams size cb ro fmtBs).l1Off ∧
      d.hdrL1Entries = (metaParams size cb ro fmtBs).l1Entries ∧
      d.hdrRtOff = (metaParams size cb ro fmtBs).rtOff ∧
      d.hdrRtClusters = (metaParams size cb ro fmtBs).rtClusters ∧
      d.l1 = FMap.empty 0#64 ∧
      d.rt = (FMap.empty 0#64).set 0 (BitVec.ofNat 64 (metaParams size cb ro fmtBs).rbOff) ∧
      d.rtLen = (metaParams size cb ro fmtBs).rtClusters * 2^cb / 8 := by
  unfold formatDev at h
  cases hr : formatRefcounts (metaParams size cb ro fmtBs) cb ro with
  | none => simp [hr] at h
  | some rc =>
    cases hn : Info.new { clusterBits := cb, refcountOrder := ro, size := size, hasBackingName := false } p with
    | ok info =>
      simp only [hr, hn, Outcome.bind_ok] at h
      split at h
      · cases h
      · simp only [Outcome.ok.injEq] at h
        subst h
        exact ⟨rc, info, rfl, rfl, rfl, rfl, rfl, rfl, rfl, rfl, rfl, rfl, rfl⟩
    | err e => simp [hr, hn] at h
    | panic s => simp [hr, hn] at h

/-- the formatter's refcounts are exact, under explicit hypotheses on
    `metaParams`: the reftable is not empty, the L1 clusters it reserves are
    exactly those the header's `l1_size` needs, and the refblock offset fits
    a reftable entry. -/
theorem format_acct_of_params {size cb ro fmtBs : Nat} {p : Params} {d : Dev}
    (h : formatDev size cb ro fmtBs p = .ok d) (h9 : 9 ≤ cb)
    (hR : 0 < (metaParams size cb ro fmtBs).rtClusters)
    (hL : (metaParams size cb ro fmtBs).l1Clusters =
      ((metaParams size cb ro fmtBs).l1Entries * 8 + 2^cb - 1) / 2^cb)
    (h64 : (metaParams size cb ro fmtBs).rbOff < 2^64) : Acct d := by
  obtain ⟨rc, info, hrc, hinfo, e1, e2, e3, e4, e5, e6, e7, e8, e9⟩ := formatDev_ok h
  obtain ⟨_, _, _, _, _, _, _, _, _, _, _, hi⟩ := Info.new_ok hinfo
  have hcb : d.info.cb = cb := by rw [e1, hi]
  have hcs : d.cs = 2^cb := by unfold Dev.cs Info.clusterSize; rw [hcb]
  have hpos : 0 < 2^cb := Nat.two_pow_pos _
  have hrtOff : (metaParams size cb ro fmtBs).rtOff = 2^cb := rfl
  have hrbOff : (metaParams size cb ro fmtBs).rbOff = ((metaParams size cb ro fmtBs).rtClusters + 1) * 2^cb := by
    have : (metaParams size cb ro fmtBs).rbOff = 2^cb + (metaParams size cb ro fmtBs).rtClusters * 2^cb := rfl
    rw [this, Nat.add_mul, Nat.one_mul, Nat.add_comm]
  have hl1Off : (metaParams size cb ro fmtBs).l1Off = ((metaParams size cb ro fmtBs).rtClusters + 2) * 2^cb := by
    have : (metaParams size cb ro fmtBs).l1Off
        = 2^cb + (metaParams size cb ro fmtBs).rtClusters * 2^cb + 2^cb := rfl
    rw [this, Nat.add_mul]; omega
  generalize metaParams size cb ro fmtBs = mp at *
  -- the refcounts
  have hrcget : ∀ c, d.rc.get c = if c < 1 + mp.rtClusters + 1 + mp.l1Clusters then 1 else 0 := by
    intro c
    unfold formatRefcounts at hrc
    dsimp only at hrc
    split at hrc
    · cases hrc
    · simp only [Option.some.injEq] at hrc
      rw [e2, ← hrc, foldl_set_range_get]
  -- the references
  have hz : ∀ i, d.l1At i = 0#64 := by
    intro i; unfold Dev.l1At; rw [e7, FMap.get_empty]; split <;> rfl
  have r5 : ∀ c, d.refsL2Tables c = 0 := by
    intro c; unfold Dev.refsL2Tables
    apply sumTo_eq_zero; intro i _
    rw [hz i, l1_l2Offset_zero]; exact pointsTo_zero _ _
  have r6 : ∀ c, d.refsData c = 0 := by
    intro c; unfold Dev.refsData
    apply sumTo_eq_zero; intro i _
    rw [hz i, if_pos l1_isZero_zero]
  have hrtLen : 0 < d.rtLen := by
    rw [e9]
    apply Nat.div_pos _ (by decide)
    calc 8 ≤ 2^9 := by decide
      _ ≤ 2^cb := Nat.pow_le_pow_right (by decide) h9
      _ ≤ mp.rtClusters * 2^cb := Nat.le_mul_of_pos_left _ hR
  have hdec : (RT.refblockOffset (BitVec.ofNat 64 mp.rbOff)).toNat = mp.rbOff := by
    apply rt_refblockOffset_ofNat _ _ h64
    rw [hrbOff]
    exact Arith16.mul_mod_zero_right _ (Arith16.two_pow_mod (a := 9) h9)
  have r4 : ∀ c, d.refsRefblocks c = if c = mp.rtClusters + 1 then 1 else 0 := by
    intro c
    unfold Dev.refsRefblocks
    have : ∀ i, pointsTo d.cs (RT.refblockOffset (d.rt.get i)).toNat c =
        if i = 0 then (if c = mp.rtClusters + 1 then 1 else 0) else 0 := by
      intro i
      rw [e8, FMap.get_set]
      by_cases hi0 : 0 = i
      · rw [if_pos hi0, if_pos hi0.symm, hdec, hcs, hrbOff]
        unfold pointsTo
        rw [Nat.mul_div_cancel _ hpos]
        have : (mp.rtClusters + 1) * 2^cb ≠ 0 := Nat.ne_of_gt (Nat.mul_pos (by omega) hpos)
        by_cases hc : c = mp.rtClusters + 1
        · rw [if_pos hc, if_pos ⟨this, hc.symm⟩]
        · rw [if_neg hc, if_neg (fun x => hc x.2.symm)]
      · rw [if_neg hi0, if_neg (fun x => hi0 x.symm), FMap.get_empty, rt_refblockOffset_zero]
        exact pointsTo_zero _ _
    rw [sumTo_congr (fun i _ => this i), sumTo_single, if_pos hrtLen]
  have r2 : ∀ c, d.refsL1Table c =
      if mp.rtClusters + 2 ≤ c ∧ c < mp.rtClusters + 2 + mp.l1Clusters then 1 else 0 := by
    intro c
    unfold Dev.refsL1Table Dev.l1Clusters
    rw [hcs, e3, e4, hl1Off, Nat.mul_div_cancel _ hpos, hL]
  have r3 : ∀ c, d.refsRtTable c = if 1 ≤ c ∧ c < 1 + mp.rtClusters then 1 else 0 := by
    intro c
    unfold Dev.refsRtTable
    rw [hcs, e5, e6, hrtOff, Nat.div_self hpos]
  intro c
  unfold Dev.refs Dev.refsHeader
  rw [hrcget c, r2 c, r3 c, r4 c, r5 c, r6 c]
  exact layout_count _ _ c

/-! ### arithmetic of `calculate_meta_params` -/

theorem ceil_mul_ge (x c : Nat) (hc : 0 < c) : x ≤ (x + c - 1) / c * c := Arith16.alignUp_ge x c hc

theorem ceil_of_mul (t c : Nat) (hc : 0 < c) : (t * c + c - 1) / c = t := by
  have : t * c + c - 1 = (c - 1) + t * c := by omega
  rw [this, Nat.add_mul_div_right _ _ hc, Nat.div_eq_of_lt (by omega), Nat.zero_add]

/-- rounding a length up to a block size that divides the cluster size does not
    change the number of clusters it needs -/
theorem ceil_alignUp (x bs cs : Nat) (hbs : 0 < bs) (hdvd : bs ∣ cs) (hcs : 0 < cs) :
    (Info.alignUp x bs + cs - 1) / cs = (x + cs - 1) / cs := by
  apply Nat.le_antisymm
  · obtain ⟨m, hm⟩ := hdvd
    have hx : x ≤ (x + cs - 1) / cs * cs := ceil_mul_ge x cs hcs
    generalize (x + cs - 1) / cs = q at *
    have ha : Info.alignUp x bs ≤ q * cs := by
      unfold Info.alignUp
      have e : q * cs = (q * m) * bs := by rw [hm, Nat.mul_comm bs m, Nat.mul_assoc]
      rw [e] at hx ⊢
      apply Nat.mul_le_mul_right
      calc (x + bs - 1) / bs ≤ (q * m * bs + bs - 1) / bs := Nat.div_le_div_right (by omega)
        _ = q * m := ceil_of_mul _ _ hbs
    calc (Info.alignUp x bs + cs - 1) / cs ≤ (q * cs + cs - 1) / cs := Nat.div_le_div_right (by omega)
      _ = q := ceil_of_mul _ _ hcs
  · apply Nat.div_le_div_right
    have := Arith16.alignUp_ge x bs hbs
    omega

theorem metaParams_rtClusters_pos (size cb ro bs : Nat) (h9 : 9 ≤ cb) (hro : ro ≤ 6) (hbs : 0 < bs)
    (hsz : 0 < size) : 0 < (metaParams size cb ro bs).rtClusters := by
  show 0 < (Info.maxRefcountTableSize size (2^cb) ro bs + 2^cb - 1) / 2^cb
  have hcs : 0 < 2^cb := Nat.two_pow_pos _
  apply Nat.div_pos _ hcs
  suffices h : 1 ≤ Info.maxRefcountTableSize size (2^cb) ro bs by omega
  unfold Info.maxRefcountTableSize
  dsimp only
  have hrb : 0 < 2^cb * 8 / 2^ro := by
    apply Nat.div_pos _ (Nat.two_pow_pos _)
    calc 2^ro ≤ 2^6 := Nat.pow_le_pow_right (by decide) hro
      _ ≤ 2^9 := by decide
      _ ≤ 2^cb := Nat.pow_le_pow_right (by decide) h9
      _ ≤ 2^cb * 8 := Nat.le_mul_of_pos_right _ (by decide)
  have hE : 0 < 2^cb * 8 / 2^ro * 2^cb := Nat.mul_pos hrb hcs
  generalize 2^cb * 8 / 2^ro * 2^cb = E at *
  have hn : 1 ≤ (size + E - 1) / E := Nat.div_pos (by omega) hE
  have := Arith16.alignUp_ge ((size + E - 1) / E * 8) bs hbs
  apply Nat.le_min.2
  exact ⟨by omega, by decide⟩

theorem metaParams_rbOff_lt (size cb ro bs : Nat) (h21 : cb ≤ 21) :
    (metaParams size cb ro bs).rbOff < 2^64 := by
  show 2^cb + (Info.maxRefcountTableSize size (2^cb) ro bs + 2^cb - 1) / 2^cb * 2^cb < 2^64
  have hcs : 0 < 2^cb := Nat.two_pow_pos _
  have h1 : Info.maxRefcountTableSize size (2^cb) ro bs ≤ 8 * 2^20 := by
    unfold Info.maxRefcountTableSize; exact Nat.min_le_right _ _
  have h2 := Nat.div_mul_le_self (Info.maxRefcountTableSize size (2^cb) ro bs + 2^cb - 1) (2^cb)
  have h3 : 2^cb ≤ 2^21 := Nat.pow_le_pow_right (by decide) h21
  generalize (Info.maxRefcountTableSize size (2^cb) ro bs + 2^cb - 1) / 2^cb * 2^cb = t at *
  generalize Info.maxRefcountTableSize size (2^cb) ro bs = r at *
  generalize 2^cb = c at *
  omega

/-- the formatter reserves exactly the clusters the header's `l1_size` needs,
    as long as the block size divides the cluster size and the L1 table is within
    the 32 MiB cap (beyond the cap the header's `l1_size` is larger than the
    table the formatter sized: see `format_undercount_beyond_cap` in C03) -/
theorem metaParams_l1Clusters (size cb ro k : Nat) (hk : k ≤ cb)
    (hcap : (size + 2^cb / 8 * 2^cb - 1) / (2^cb / 8 * 2^cb) ≤ 32 * 2^20 / 8) :
    (metaParams size cb ro (2^k)).l1Clusters =
      ((metaParams size cb ro (2^k)).l1Entries * 8 + 2^cb - 1) / 2^cb := by
  show (Info.maxL1Size (Info.maxL1EntriesOf size cb) (2^k) + 2^cb - 1) / 2^cb =
    ((size + 2^cb / 8 * 2^cb - 1) / (2^cb / 8 * 2^cb) * 8 + 2^cb - 1) / 2^cb
  unfold Info.maxL1Size Info.maxL1EntriesOf
  dsimp only
  rw [Nat.min_eq_left hcap]
  exact ceil_alignUp _ _ _ (Nat.two_pow_pos _) (Nat.pow_dvd_pow 2 hk) (Nat.two_pow_pos _)

/-- **`format_acct`**: the refcounts `format_qcow2` writes are exact. -/
theorem format_acct_general {size cb ro k : Nat} {p : Params} {d : Dev}
    (h : formatDev size cb ro (2^k) p = .ok d)
    (h9 : 9 ≤ cb) (h21 : cb ≤ 21) (hro : ro ≤ 6) (hk : k ≤ cb) (hsz : 0 < size)
    (hcap : (size + 2^cb / 8 * 2^cb - 1) / (2^cb / 8 * 2^cb) ≤ 32 * 2^20 / 8) : Acct d :=
  format_acct_of_params h h9 (metaParams_rtClusters_pos size cb ro (2^k) h9 hro (Nat.two_pow_pos _) hsz)
    (metaParams_l1Clusters size cb ro k hk hcap) (metaParams_rbOff_lt size cb ro (2^k) h21)

/-! ### `__discard_one_cluster` as a whole -/

/-- every successful `discardOne` keeps the accounting exact (all variants:
    nothing to release, content-only zeroing for version 2 with a backing file,
    mapping cleared and cluster released) -/
theorem discardOne_acct {g : Nat} {d d' : Dev} (geo : Geom d.info) (hA : Acct d) (hD : L1Distinct d)
    (hidx : Split.l1Index d.info g < d.hdrL1Entries)
    (h : discardOne g d = (d', .ok ())) : Acct d' := by
  by_cases hn : L1.isZero (d.l1Entry g) = true ∨ L2.isCompressed (d.l2Entry g) = true ∨
      L2.allocation d.info.cb (d.l2Entry g) = none
  · rw [discardOne_noop g d hn] at h
    simp only [Prod.mk.injEq, and_true] at h
    subst h; exact hA
  · have hc : L2.isCompressed (d.l2Entry g) = false := by
      cases hx : L2.isCompressed (d.l2Entry g) with
      | false => rfl
      | true => exact absurd (Or.inr (Or.inl hx)) hn
    cases ha : L2.allocation d.info.cb (d.l2Entry g) with
    | none => exact absurd (Or.inr (Or.inr ha)) hn
    | some x =>
      obtain ⟨host, cnt⟩ := x
      by_cases hv : d.info.hasBack = true ∧ d.version < 3
      · rw [discardOne_alloc g d host cnt hc ha, if_pos hv] at h
        simp only [Prod.mk.injEq, and_true] at h
        subst h
        exact acct_congr hA (refs_congr ⟨rfl, rfl, rfl, rfl, rfl⟩ rfl rfl rfl rfl rfl) (fun _ => rfl)
      · have hdis := Qv.Props.C11.discardOne_clear_spec g d d' host cnt hc ha hv h
        have hf := discardOne_sameFrame g d
        rw [h] at hf
        refine acct_unmap_then_free geo hA hD hdis hc ?_ hidx (HdrSame.of_sameFrame hf)
        split
        · exact L2.allocation_one _
        · exact L2.allocation_zero _

/-! ### small helpers for concrete states -/

/-- the refcounts a successful `formatDev` starts with -/
theorem formatDev_rc_get {size cb ro fmtBs : Nat} {p : Params} {d : Dev}
    (h : formatDev size cb ro fmtBs p = .ok d) (c : Nat) :
    d.rc.get c = if c < 1 + (metaParams size cb ro fmtBs).rtClusters + 1 +
      (metaParams size cb ro fmtBs).l1Clusters then 1 else 0 := by
  obtain ⟨rc, info, hrc, _, _, e2, _⟩ := formatDev_ok h
  unfold formatRefcounts at hrc
  dsimp only at hrc
  split at hrc
  · cases hrc
  · simp only [Option.some.injEq] at hrc
    rw [e2, ← hrc, foldl_set_range_get]

/-- an L1 table with at most one mapped entry has no aliased L2 tables -/
theorem l1Distinct_of_single {d : Dev} (i0 : Nat)
    (h : ∀ i, i ≠ i0 → L1.isZero (d.l1At i) = true) : L1Distinct d := by
  intro a b hne ha hb
  rw [d.l1Entry_eq] at ha hb
  have ea : Split.l1Index d.info a = i0 := by
    apply Classical.byContradiction; intro hx
    rw [h _ hx] at ha; cases ha
  have eb : Split.l1Index d.info b = i0 := by
    apply Classical.byContradiction; intro hx
    rw [h _ hx] at hb; cases hb
  exact absurd (ea.trans eb.symm) hne

/-- the one-sided invariant is monotone: references may only go away, refcounts
    may only grow (allocate before mapping, unmap before freeing) -/
theorem noUnder_mono {d d' : Dev} (hN : NoUnder d) (hrefs : ∀ c, d'.refs c ≤ d.refs c)
    (hrc : ∀ c, d.rc.get c ≤ d'.rc.get c) : NoUnder d' :=
  fun c => Nat.le_trans (hrefs c) (Nat.le_trans (hN c) (hrc c))

/-! ### a single-cluster write into an unallocated cluster -/

/-- effect of a successful allocation of the single cluster at host offset `h`
    that needed no new refblock: `h` is cluster-aligned, was free, now has
    refcount 1; only refcounts, the hint and the flush flag change -/
structure AllocOne (d d1 : Dev) (h : Nat) : Prop where
  aligned : h % d.info.clusterSize = 0
  free : d.rc.get (h / d.info.clusterSize) = 0
  rc : ∀ c, d1.rc.get c = if c = h / d.info.clusterSize then 1 else d.rc.get c
  frame : d1 = { d with rc := d1.rc, hint := d1.hint, needFlush := d1.needFlush }

/-- `try_alloc_from_rb_slice` for one cluster has this effect (C08 `tryAlloc_sound`) -/
theorem allocOne_of_tryAlloc {off : Nat} {fixed : Bool} {d d1 : Dev} {h n : Nat}
    (ha : tryAllocFromRbSlice off 1 fixed d = (d1, .ok (some (h, n)))) : n = 1 ∧ AllocOne d d1 h := by
  obtain ⟨a1, a2, _, a4, a5, a6, _, a8, a9⟩ := Qv.Props.C08.tryAlloc_sound off 1 fixed d d1 h n ha
  have hn : n = 1 := by have := a1 (by omega); omega
  subst hn
  have e : d1.hint = d.hint := by rw [a9]
  refine ⟨rfl, a4, (a5 _ (by omega) (by omega)).1, ?_, ?_⟩
  · intro c
    by_cases hc : c = h / d.info.clusterSize
    · rw [if_pos hc, hc]; exact (a5 _ (by omega) (by omega)).2
    · rw [if_neg hc]; exact a6 c (by omega)
  · rw [e, a8]; exact a9

theorem AllocOne.hint {d d1 : Dev} {h : Nat} (a : AllocOne d d1 h) (x : Nat) :
    AllocOne d { d1 with hint := x } h :=
  ⟨a.aligned, a.free, a.rc, by
    show ({ d1 with hint := x } : Dev) = { d with rc := d1.rc, hint := x, needFlush := d1.needFlush }
    rw [a.frame]⟩

theorem ensureRefblock_existing {d : Dev} {off : Nat} (hidx : Host.rtIndex d.info off < d.rtLen)
    (hnz : RT.isZero (d.rt.get (Host.rtIndex d.info off)) = false) :
    ensureRefblock off d = (d, .ok ()) := by
  rw [ensureRefblock_inb hidx, ensureRefblockIn_eq, if_neg (not_not_intro hidx), if_neg (by simp [hnz])]

/-- `allocate_clusters(1)` when the refblock of the hint exists and its slice has
    a free cluster at or after the hint: one `try_alloc_from_rb_slice`, then the
    hint moves behind the new cluster -/
theorem allocateClusters_one_first_slice {d d1 : Dev} {h n : Nat} (geo : Geom d.info)
    (hidx : Host.rtIndex d.info d.hint < d.rtLen)
    (hnz : RT.isZero (d.rt.get (Host.rtIndex d.info d.hint)) = false)
    (ha : tryAllocFromRbSlice d.hint 1 false d = (d1, .ok (some (h, n)))) :
    allocateClusters 1 d =
      ({ d1 with hint := max d1.hint (h + d1.info.clusterSize) }, .ok (some (h, 1))) := by
  obtain ⟨hn, _⟩ := allocOne_of_tryAlloc ha
  subst hn
  have he := ensureRefblock_existing hidx hnz
  have hlt : d.hint < Host.rbHostEnd d.info d.hint := (Qv.Props.C15.host_partition geo d.hint).2.2.2.2.2
  have hse : 1 ≤ d.info.rbSliceEntries := by
    rw [← geo.rbSliceIndexShift_eq]; exact Nat.two_pow_pos _
  have htf : tryAllocateFrom d.hint 1 d = (d1, .ok (some (h, 1))) := by
    unfold tryAllocateFrom
    rw [if_neg (by decide), he]
    dsimp only
    rw [tryAllocateLoop_succ]
    unfold loopStep
    dsimp only
    rw [if_neg (not_not_intro ⟨by omega, hlt⟩), Nat.min_eq_left hse]
    have hdec : decide ((0 : Nat) ≠ 0) = false := by decide
    rw [hdec, ha]
    dsimp only
    rw [if_neg (by simp), if_neg (by omega)]
    dsimp only
    rw [tryAllocateLoop_succ]
    unfold loopStep
    dsimp only
    rw [if_pos (by omega)]
    simp
  unfold allocateClusters
  rw [allocateLoop]
  dsimp only
  rw [htf]
  dsimp only
  rw [if_pos rfl]

theorem ensureL2_mapped {d : Dev} {off : Nat} (hl1 : L1.isZero (d.l1Entry off) = false) :
    ensureL2 off d = (d, .ok ()) := by
  unfold ensureL2
  dsimp only
  rw [if_pos (by simp [hl1])]

theorem needMake_plain_none {i : Info} {m : Mapping} (h : needMakeMapping i m = true) :
    (L2.plainOffset m 0).isNone = true := by
  unfold needMakeMapping at h
  split at h
  · cases h
  · rename_i hx
    cases hp : L2.plainOffset m 0 with
    | none => rfl
    | some x => rw [hp] at hx; simp at hx

/-- the state `populate_single_write_mapping` leaves after mapping the new cluster `h` -/
def mappedNew (d1 : Dev) (off h : Nat) : Dev :=
  { ({ d1 with newData := (h / d1.info.clusterSize) :: d1.newData } : Dev).setL2 off
      (L2.mapClusterEntry h) with needFlush := true }

/-- `populate_single_write_mapping` on a cluster that needs a mapping and whose
    L2 table exists: allocate one cluster, mark it new, map it -/
theorem populateSingle_new {d d1 : Dev} {off h n : Nat}
    (hl1 : L1.isZero (d.l1Entry off) = false)
    (hneed : needMakeMapping d.info (d.mapping off) = true)
    (halloc : allocateClusters 1 d = (d1, .ok (some (h, n)))) :
    populateSingle off d = (mappedNew d1 off h, .ok ((mappedNew d1 off h).l2Entry off)) := by
  have hp := needMake_plain_none hneed
  unfold populateSingle makeSingleWriteMapping allocAndMap markNewData mappedNew
  simp only [bind, M.bind, M.get, M.modify, M.pure, pure, hneed, if_true, ensureL2_mapped hl1, hp, halloc]

/-- everything the counts and the refcounts depend on is unchanged -/
def DataOnly (d d' : Dev) : Prop :=
  d'.info = d.info ∧ d'.hdrL1Off = d.hdrL1Off ∧ d'.hdrL1Entries = d.hdrL1Entries ∧
  d'.hdrRtOff = d.hdrRtOff ∧ d'.hdrRtClusters = d.hdrRtClusters ∧ d'.l1 = d.l1 ∧ d'.l1Len = d.l1Len ∧
  d'.l2 = d.l2 ∧ d'.rt = d.rt ∧ d'.rtLen = d.rtLen ∧ d'.rc = d.rc

theorem acct_of_dataOnly {d d' : Dev} (hA : Acct d) (h : DataOnly d d') : Acct d' := by
  obtain ⟨a1, a2, a3, a4, a5, a6, a7, a8, a9, a10, a11⟩ := h
  exact acct_congr hA (refs_congr ⟨a1, a2, a3, a4, a5⟩ a6 a7 a8 a9 a10) (fun c => by rw [a11])

/-- `do_write_data_file` touches only the data plane and the new-cluster set -/
theorem doWriteDataFile_dataOnly (off : Nat) (m : Mapping) (cow : Option Mapping) (toks : List Nat)
    (d : Dev) : DataOnly d (doWriteDataFile off m cow toks d).1 := by
  unfold doWriteDataFile zeroCluster writeSectors M.modify
  dsimp only
  repeat' split
  all_goals exact ⟨rfl, rfl, rfl, rfl, rfl, rfl, rfl, rfl, rfl, rfl, rfl⟩

/-- **single-cluster write into an unallocated cluster**: the L2 table of `off`
    exists (L1 slot covered by the header), the cluster needs a mapping and has no
    allocation, and `allocate_clusters(1)` hands out cluster `h` from an existing
    refblock (`AllocOne`).  Whatever the write returns, the accounting is exact
    afterwards, and the cluster is mapped to `h`. -/
theorem writeAt_single_new_cluster {d d1 d' : Dev} {off len h n : Nat} {toks : List Nat}
    {r : Outcome Unit} (geo : Geom d.info) (h9 : 9 ≤ d.info.cb) (hA : Acct d) (hD : L1Distinct d)
    (hchk : writeCheck d.info off len = none) (hlen : len ≠ 0)
    (hsingle : off / d.info.clusterSize = (off + len - 1) / d.info.clusterSize)
    (hl1 : L1.isZero (d.l1Entry off) = false) (hidx : Split.l1Index d.info off < d.hdrL1Entries)
    (hneed : needMakeMapping d.info (d.mapping off) = true)
    (hold : L2.allocation d.info.cb (d.l2Entry off) = none)
    (halloc : allocateClusters 1 d = (d1, .ok (some (h, n)))) (hone : AllocOne d d1 h)
    (h56 : h < 2^56) (hw : writeAt off len toks d = (d', r)) :
    Acct d' ∧ d'.l2Entry off = L2.mapClusterEntry h ∧ d'.rc.get (h / d.info.clusterSize) = 1 := by
  have hcs : 0 < d.info.clusterSize := Nat.two_pow_pos _
  -- components of the allocation frame
  have f1 : d1.info = d.info := by rw [hone.frame]
  have f2 : d1.l1 = d.l1 := by rw [hone.frame]
  have f3 : d1.l1Len = d.l1Len := by rw [hone.frame]
  have f4 : d1.l2 = d.l2 := by rw [hone.frame]
  have f5 : d1.rt = d.rt := by rw [hone.frame]
  have f6 : d1.rtLen = d.rtLen := by rw [hone.frame]
  have f7 : HdrSame d d1 := ⟨f1, by rw [hone.frame], by rw [hone.frame], by rw [hone.frame], by rw [hone.frame]⟩
  have hpos : 0 < h / d.info.clusterSize := acct_free_ne_zero hA hone.free
  have hh : h / d.info.clusterSize * d.cs = h := by
    have := Nat.div_add_mod h d.info.clusterSize
    rw [hone.aligned, Nat.mul_comm] at this
    exact this
  have hhpos : 0 < h := by
    rcases Nat.eq_zero_or_pos h with h0 | h0
    · rw [h0, Nat.zero_div] at hpos; omega
    · exact h0
  have h512 : h % 512 = 0 :=
    Arith16.mod_zero_of_dvd_of_mod (a := 2^9) (Nat.pow_dvd_pow 2 h9) hone.aligned
  -- the state after `populate_single_write_mapping`
  have hl2 : (mappedNew d1 off h).l2 = (d.setL2 off (L2.mapClusterEntry (h / d.info.clusterSize * d.cs))).l2 := by
    rw [hh]
    unfold mappedNew Dev.setL2 Dev.l1Entry
    dsimp only
    rw [f1, f2, f3, f4]
  have hA3 : Acct (mappedNew d1 off h) :=
    acct_alloc_then_map (d' := mappedNew d1 off h) geo h9 hA hD hl1 hidx hold hone.free (by rw [hh]; exact h56)
      ⟨f1, f7.hdrL1Off, f7.hdrL1Entries, f7.hdrRtOff, f7.hdrRtClusters⟩ f2 f3 f5 f6 hl2 hone.rc
  have hent : (mappedNew d1 off h).l2Entry off = L2.mapClusterEntry h := by
    have := (l2Entry_setL2_distinct (d' := mappedNew d1 off h) hD hl1 f1 f2 f3 hl2).1
    rw [hh] at this; exact this
  -- the write itself
  unfold writeAt at hw
  simp only [hchk] at hw
  rw [if_neg hlen, if_pos hsingle, populateSingle_new hl1 hneed halloc] at hw
  dsimp only at hw
  rw [hent] at hw
  unfold doWrite at hw
  dsimp only at hw
  rw [intoMapping_mapClusterEntry _ _ _ h h512 hhpos h56] at hw
  dsimp only at hw
  have hdo := doWriteDataFile_dataOnly off
    { source := .dataFile, clusterOffset := some h, compressedLength := none, copied := true } none toks
    (mappedNew d1 off h)
  rw [hw] at hdo
  dsimp only at hdo
  refine ⟨acct_of_dataOnly hA3 hdo, ?_, ?_⟩
  · obtain ⟨a1, _, _, _, _, a6, a7, a8, _⟩ := hdo
    rw [← hent]
    unfold Dev.l2Entry Dev.l1Entry
    rw [a1, a6, a7, a8]
  rw [hdo.2.2.2.2.2.2.2.2.2.2]
  show d1.rc.get (h / d.info.clusterSize) = 1
  rw [hone.rc, if_pos rfl]

/-! ### mapping over an existing allocation (the zero-prealloc finding) -/

/-- as `acct_alloc_then_map`, but the replaced entry did reference a cluster
    (`o`, e.g. the preallocated cluster of a zero-flagged entry) which nobody
    releases: every refcount is still at least the number of references, and the
    old cluster is now over-counted by exactly one -/
theorem map_over_allocation_leaks {d d' : Dev} {off c0 o : Nat} (g : Geom d.info) (h9 : 9 ≤ d.info.cb)
    (hA : Acct d) (hD : L1Distinct d)
    (hl1 : L1.isZero (d.l1Entry off) = false) (hidx : Split.l1Index d.info off < d.hdrL1Entries)
    (hold : L2.allocation d.info.cb (d.l2Entry off) = some (o, 1))
    (h0 : d.rc.get c0 = 0) (h56 : c0 * d.cs < 2^56)
    (hh : HdrSame d d') (hl1' : d'.l1 = d.l1) (hl1Len : d'.l1Len = d.l1Len)
    (hrt : d'.rt = d.rt) (hrtLen : d'.rtLen = d.rtLen)
    (hl2 : d'.l2 = (d.setL2 off (L2.mapClusterEntry (c0 * d.cs))).l2)
    (hrc : ∀ c, d'.rc.get c = if c = c0 then 1 else d.rc.get c) :
    ∀ c, d'.rc.get c = d'.refs c + (if c = o / d.cs then 1 else 0) := by
  obtain ⟨he, hf⟩ := l2Entry_setL2_distinct hD hl1 hh.info hl1' hl1Len hl2
  have hpos := acct_free_ne_zero hA h0
  have hcs : 0 < d.cs := Nat.two_pow_pos _
  intro c
  have key := refs_slot_change hh (fun i _ => l1At_congr hl1' hl1Len i) hrt hrtLen hidx
    (Qv.Props.C15.split_bounds g off).1
    (fun i j _ hj => slot_change_of_l2Entry g hh.info off _ he hf i j hj) c
  rw [← d.l2Entry_eq_slot, hold,
    allocation_mapClusterEntry _ _ (cluster_mul_mod512 d h9 c0) (Nat.mul_pos hpos hcs) h56,
    covers_some, covers_some, cluster_mul_div] at key
  -- the old cluster is referenced in `d`, hence not the free cluster `c₀`
  have hne : o / d.cs ≠ c0 := by
    intro hx
    have k0 := refs_slot_change hh (fun i _ => l1At_congr hl1' hl1Len i) hrt hrtLen hidx
      (Qv.Props.C15.split_bounds g off).1
      (fun i j _ hj => slot_change_of_l2Entry g hh.info off _ he hf i j hj) c0
    obtain ⟨_, _, _, _, n5⟩ := acct_free_no_refs hA h0
    have hle := le_sumTo (n := d.hdrL1Entries)
      (f := fun i => sumTo d.info.l2Entries fun j => covers d.cs (L2.allocation d.info.cb (d.slot i j)) c0) hidx
    have hle2 := le_sumTo (n := d.info.l2Entries)
      (f := fun j => covers d.cs (L2.allocation d.info.cb (d.slot (Split.l1Index d.info off) j)) c0)
      (Qv.Props.C15.split_bounds g off).1
    rw [refsData_eq_slots] at n5
    rw [← d.l2Entry_eq_slot, hold, covers_some, hx, if_pos (by omega)] at hle2
    omega
  rw [hrc c]
  by_cases hc : c = c0
  · have k1 : ¬ (o / d.cs ≤ c ∧ c < o / d.cs + 1) := by omega
    have k2 : c0 ≤ c ∧ c < c0 + 1 := by omega
    rw [if_neg k1, if_pos k2] at key
    rw [if_pos hc, if_neg (by omega)]
    have := hA c
    rw [hc] at this key ⊢
    omega
  · have k2 : ¬ (c0 ≤ c ∧ c < c0 + 1) := by omega
    rw [if_neg k2] at key
    rw [if_neg hc, hA c]
    by_cases hco : c = o / d.cs
    · have k1 : o / d.cs ≤ c ∧ c < o / d.cs + 1 := by omega
      rw [if_pos k1] at key
      rw [if_pos hco]
      omega
    · have k1 : ¬ (o / d.cs ≤ c ∧ c < o / d.cs + 1) := by omega
      rw [if_neg k1] at key
      rw [if_neg hco]
      omega

/-! ### `ensure_l2_offset` creating a table -/

/-- `ensure_l2_offset` on an unmapped L1 slot the header already covers -/
theorem ensureL2_new_table {d d1 : Dev} {off h n : Nat}
    (hz : L1.isZero (d.l1Entry off) = true) (hhdr : Split.l1Index d.info off < d.l1HdrEntries)
    (halloc : allocateClusters 1 d = (d1, .ok (some (h, n)))) :
    ensureL2 off d =
      ({ d1 with l2 := d1.l2.set h (FMap.empty 0#64),
                 l1 := d1.l1.set (Split.l1Index d.info off) (L1.mapEntry h),
                 needFlush := true }, .ok ()) := by
  unfold ensureL2
  dsimp only
  rw [if_neg (by simp [hz]), if_pos hhdr]
  dsimp only
  rw [if_neg (by simp [hz]), halloc]

/-- … keeps the accounting exact when the allocation is served from an existing
    refblock (`AllocOne`) and the slot is inside the RAM table and the header's
    `l1_size` -/
theorem ensureL2_new_table_acct {d d1 d' : Dev} {off h n : Nat} (h9 : 9 ≤ d.info.cb) (hA : Acct d)
    (hz : L1.isZero (d.l1Entry off) = true) (hhdr : Split.l1Index d.info off < d.l1HdrEntries)
    (hidx : Split.l1Index d.info off < d.hdrL1Entries) (hlen : Split.l1Index d.info off < d.l1Len)
    (halloc : allocateClusters 1 d = (d1, .ok (some (h, n)))) (hone : AllocOne d d1 h)
    (h56 : h < 2^56) (he : ensureL2 off d = (d', .ok ())) : Acct d' := by
  rw [ensureL2_new_table hz hhdr halloc] at he
  simp only [Prod.mk.injEq, and_true] at he
  subst he
  have hh : h / d.info.clusterSize * d.cs = h := by
    have := Nat.div_add_mod h d.info.clusterSize
    rw [hone.aligned, Nat.mul_comm] at this
    exact this
  have f2 : d1.l1 = d.l1 := by rw [hone.frame]
  have f4 : d1.l2 = d.l2 := by rw [hone.frame]
  refine acct_new_l2_table (i0 := Split.l1Index d.info off) (c0 := h / d.info.clusterSize) h9 hA hidx hlen
    (by rw [← d.l1Entry_eq]; exact hz) hone.free (by rw [hh]; exact h56)
    ⟨by rw [hone.frame], by rw [hone.frame], by rw [hone.frame], by rw [hone.frame], by rw [hone.frame]⟩
    (by rw [hone.frame]) (by rw [hone.frame]) (by rw [hone.frame]) ?_ ?_ hone.rc
  · rw [hh]; show d1.l1.set _ _ = _; rw [f2]
  · rw [hh]; show d1.l2.set _ _ = _; rw [f4]

end Qv.Model
