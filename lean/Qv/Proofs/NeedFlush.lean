import Qv.Proofs.Frames
/-
Helpers for C18 (Qv/Props/C18.lean): every state-changing function of the
write / discard path of `Qv.Model.Dev` either leaves `needFlush = true` or does
not change the metadata view at all.  Same bottom-up structure as the `Fr` /
`SameBack` development in Qv/Proofs/Frames.lean.

The metadata view is what `flush_meta` has to bring to the file: L1 table, L2
tables, refcount table, refcounts.  The header's L1 size (`hdrL1Entries`,
`l1HdrEntries`) is NOT part of it: `ensure_l2_offset` writes the header through
immediately (`flush_header_for_l1_table`), and the model accordingly changes
these two fields without setting `needFlush`.
-/
namespace Qv.Model
open Qv.Codec

/-- equality of the metadata view -/
def SameView (d d' : Dev) : Prop := d'.l1 = d.l1 ∧ d'.l2 = d.l2 ∧ d'.rt = d.rt ∧ d'.rc = d.rc

theorem SameView.refl (d : Dev) : SameView d d := ⟨rfl, rfl, rfl, rfl⟩
theorem SameView.trans {a b c : Dev} (h1 : SameView a b) (h2 : SameView b c) : SameView a c :=
  ⟨h2.1.trans h1.1, h2.2.1.trans h1.2.1, h2.2.2.1.trans h1.2.2.1, h2.2.2.2.trans h1.2.2.2⟩

/-- a transition that ends flagged, or changes neither the view nor the flag -/
def FoS (d d' : Dev) : Prop := d'.needFlush = true ∨ (SameView d d' ∧ d'.needFlush = d.needFlush)

theorem FoS.refl (d : Dev) : FoS d d := Or.inr ⟨SameView.refl d, rfl⟩

theorem FoS.trans {a b c : Dev} (h1 : FoS a b) (h2 : FoS b c) : FoS a c := by
  rcases h2 with h2 | ⟨v2, f2⟩
  · exact Or.inl h2
  · rcases h1 with h1 | ⟨v1, f1⟩
    · exact Or.inl (f2.trans h1)
    · exact Or.inr ⟨v1.trans v2, f2.trans f1⟩

/-- the flag is never cleared -/
theorem FoS.mono {a b : Dev} (h : FoS a b) (ha : a.needFlush = true) : b.needFlush = true := by
  rcases h with h | ⟨_, f⟩
  · exact h
  · exact f.trans ha

/-- closes goals `FoS d {d with …}` for literal updates -/
macro "fos_triv" : tactic => `(tactic| first
  | exact Or.inl rfl
  | exact Or.inr ⟨⟨rfl, rfl, rfl, rfl⟩, rfl⟩)

/-- "flag or same", for a computation of the device monad, whatever its outcome -/
structure Fl {α : Type} (x : M α) : Prop where
  fos : ∀ d, FoS d (x d).1

namespace Fl
variable {α β : Type}

theorem of_eq {x : M α} (hx : Fl x) {d d' : Dev} {r : Outcome α} (h : x d = (d', r)) : FoS d d' := by
  have := hx.fos d; rw [h] at this; exact this

theorem pure (a : α) : Fl (Pure.pure a : M α) := ⟨fun d => FoS.refl d⟩
theorem pure' (a : α) : Fl (M.pure a : M α) := ⟨fun d => FoS.refl d⟩
theorem get : Fl M.get := ⟨fun d => FoS.refl d⟩
theorem fail (e : Err) : Fl (M.fail e : M α) := ⟨fun d => FoS.refl d⟩
theorem panic (p : String) : Fl (M.panic p : M α) := ⟨fun d => FoS.refl d⟩
theorem lift (o : Outcome α) : Fl (M.lift o) := ⟨fun d => FoS.refl d⟩
theorem modify {g : Dev → Dev} (h : ∀ d, FoS d (g d)) : Fl (M.modify g) := ⟨fun d => h d⟩

theorem bind {x : M α} {f : α → M β} (hx : Fl x) (hf : ∀ a, Fl (f a)) : Fl (x >>= f) := by
  refine ⟨fun d => ?_⟩
  show FoS d (M.bind x f d).1
  unfold M.bind
  have := hx.fos d
  generalize x d = r at this
  rcases r with ⟨d1, a | e | p⟩
  · exact this.trans ((hf a).fos d1)
  · exact this
  · exact this

end Fl

/-! ### allocator -/

/-- `alloc_range` alone changes refcounts without touching the flag (its only
    caller `try_alloc_from_rb_slice` sets it afterwards): everything else is kept -/
theorem allocRange_view (c0 s n : Nat) (d : Dev) :
    (allocRange c0 s n d).1.l1 = d.l1 ∧ (allocRange c0 s n d).1.l2 = d.l2 ∧
    (allocRange c0 s n d).1.rt = d.rt ∧ (allocRange c0 s n d).1.needFlush = d.needFlush := by
  rw [allocRange_frame]; exact ⟨rfl, rfl, rfl, rfl⟩

theorem tryAlloc_fl (off count : Nat) (fixed : Bool) : Fl (tryAllocFromRbSlice off count fixed) := by
  refine ⟨fun d => ?_⟩
  obtain ⟨d', r, h⟩ := tryAlloc_total off count fixed d
  rw [h]
  cases r with
  | none => rw [(tryAlloc_none h).1]; exact FoS.refl d
  | some x =>
    obtain ⟨o, n⟩ := x
    obtain ⟨s, _, _, _, _, _, _, _, _, _, h10⟩ := tryAlloc_some h
    dsimp only; rw [h10]; exact Or.inl rfl

/-- a successful slice allocation leaves the flag set -/
theorem tryAlloc_some_flag {off count : Nat} {fixed : Bool} {d d' : Dev} {x : Nat × Nat}
    (h : tryAllocFromRbSlice off count fixed d = (d', .ok (some x))) : d'.needFlush = true := by
  obtain ⟨o, n⟩ := x
  obtain ⟨s, _, _, _, _, _, _, _, _, _, h10⟩ := tryAlloc_some h
  rw [h10]

theorem freeClusters_fl (host n : Nat) (fz : Bool) : Fl (freeClusters host n fz) := by
  refine ⟨fun d => ?_⟩
  induction n generalizing host fz d with
  | zero => exact FoS.refl d
  | succ n ih =>
    rw [freeClusters_succ]
    split
    · exact FoS.refl d
    · split
      · exact FoS.refl d
      · split
        · exact FoS.trans (Or.inl rfl) (ih _ _ _)
        · exact FoS.trans (Or.inl rfl) (ih _ _ _)

/-- statement unchanged; re-proved through the growth path: the relocation sets the
    flag, the in-place branch of `growReftable` changes only `rtLen`, which is not part
    of the metadata view -/
theorem ensureRefblock_fl (off : Nat) : Fl (ensureRefblock off) := by
  refine ⟨fun d => ?_⟩
  apply ensureRefblock_rel FoS FoS.refl (fun _ _ _ => FoS.trans)
  · intro i d _
    rw [growReftable_eq]
    split
    · fos_triv
    · split
      · exact Or.inl rfl
      · exact FoS.refl d
  · intro i d
    rw [ensureRefblockIn_eq]
    split
    · exact FoS.refl d
    · split
      · exact Or.inl rfl
      · exact FoS.refl d
  · intro o n fz d; exact (freeClusters_fl o n fz).fos d

theorem loopStep_fos (rbEnd allocCnt host count outOff done : Nat) (d : Dev) :
    match loopStep rbEnd allocCnt host count outOff done d with
    | .ret r => FoS d r.1
    | .cont _ _ _ _ d' => FoS d d' := by
  unfold loopStep
  dsimp only
  by_cases hc : count > 0 ∧ host < rbEnd
  · rw [if_neg (not_not_intro hc)]
    generalize hr : tryAllocFromRbSlice host (min count d.info.rbSliceEntries) (decide (done ≠ 0)) d = r
    rcases r with ⟨d1, (_ | ⟨o, n⟩) | e | p⟩
    all_goals (try dsimp only)
    · by_cases h0 : done = 0
      · rw [if_pos h0]; exact (tryAlloc_fl _ _ _).of_eq hr
      · rw [if_neg h0]; exact (tryAlloc_fl _ _ _).of_eq hr
    · have m1 := (tryAlloc_fl _ _ _).of_eq hr
      by_cases hf : done ≠ 0 ∧ host ≠ o
      · rw [if_pos hf]
        generalize hr2 : freeClusters outOff done true d1 = r2
        rcases r2 with ⟨d2, _ | e | p⟩
        all_goals (try dsimp only)
        · have m2 := (freeClusters_fl _ _ _).of_eq hr2
          generalize hr3 : freeClusters o n true d2 = r3
          rcases r3 with ⟨d3, _ | e | p⟩ <;>
            exact m1.trans (m2.trans ((freeClusters_fl _ _ _).of_eq hr3))
        · exact m1.trans ((freeClusters_fl _ _ _).of_eq hr2)
        · exact m1.trans ((freeClusters_fl _ _ _).of_eq hr2)
      · rw [if_neg hf]
        by_cases hn : n > count
        · rw [if_pos hn]; exact m1
        · rw [if_neg hn]; exact m1
    · exact (tryAlloc_fl _ _ _).of_eq hr
    · exact (tryAlloc_fl _ _ _).of_eq hr
  · rw [if_pos hc]; exact FoS.refl d

/-- loop invariant "clusters taken so far ⇒ flagged": kept by a `cont`, and a
    `ret` with an allocation is flagged -/
theorem loopStep_flag (rbEnd allocCnt host count outOff done : Nat) (d : Dev)
    (hinv : done ≠ 0 → d.needFlush = true) :
    match loopStep rbEnd allocCnt host count outOff done d with
    | .ret r => ∀ x, r.2 = .ok (some x) → r.1.needFlush = true
    | .cont _ _ _ dn d' => dn ≠ 0 → d'.needFlush = true := by
  unfold loopStep
  dsimp only
  by_cases hc : count > 0 ∧ host < rbEnd
  · rw [if_neg (not_not_intro hc)]
    generalize hr : tryAllocFromRbSlice host (min count d.info.rbSliceEntries) (decide (done ≠ 0)) d = r
    rcases r with ⟨d1, (_ | ⟨o, n⟩) | e | p⟩
    all_goals (try dsimp only)
    · have hd : d1 = d := (tryAlloc_none hr).1
      by_cases h0 : done = 0
      · rw [if_pos h0]; dsimp only; intro h; exact absurd h0 h
      · rw [if_neg h0]; dsimp only; intro x _; rw [hd]; exact hinv h0
    · have m1 : d1.needFlush = true := tryAlloc_some_flag hr
      by_cases hf : done ≠ 0 ∧ host ≠ o
      · rw [if_pos hf]
        generalize hr2 : freeClusters outOff done true d1 = r2
        rcases r2 with ⟨d2, _ | e | p⟩
        all_goals (try dsimp only)
        · generalize hr3 : freeClusters o n true d2 = r3
          rcases r3 with ⟨d3, _ | e | p⟩
          all_goals (try dsimp only)
          · intro h; exact absurd rfl h
          · intro x hx; cases hx
          · intro x hx; cases hx
        · intro x hx; cases hx
        · intro x hx; cases hx
      · rw [if_neg hf]
        by_cases hn : n > count
        · rw [if_pos hn]; dsimp only; intro x hx; cases hx
        · rw [if_neg hn]; dsimp only; intro _; exact m1
    · intro x hx; cases hx
    · intro x hx; cases hx
  · rw [if_pos hc]
    dsimp only
    intro x hx
    by_cases h0 : done = 0
    · simp [h0] at hx
    · exact hinv h0

theorem tryAllocateLoop_fl (rbEnd allocCnt fuel host count outOff done : Nat) :
    Fl (tryAllocateLoop rbEnd allocCnt fuel host count outOff done) := by
  refine ⟨fun d => ?_⟩
  induction fuel generalizing host count outOff done d with
  | zero => exact FoS.refl d
  | succ fuel ih =>
    rw [tryAllocateLoop_succ]
    have := loopStep_fos rbEnd allocCnt host count outOff done d
    split <;> rename_i heq <;> rw [heq] at this
    · exact this
    · exact FoS.trans this (ih _ _ _ _ _)

theorem tryAllocateLoop_some_flag (rbEnd allocCnt fuel host count outOff done : Nat) (d : Dev)
    (hinv : done ≠ 0 → d.needFlush = true) (x : Nat × Nat)
    (h : (tryAllocateLoop rbEnd allocCnt fuel host count outOff done d).2 = .ok (some x)) :
    (tryAllocateLoop rbEnd allocCnt fuel host count outOff done d).1.needFlush = true := by
  induction fuel generalizing host count outOff done d with
  | zero => simp [tryAllocateLoop, M.fail] at h
  | succ fuel ih =>
    rw [tryAllocateLoop_succ] at h ⊢
    have := loopStep_flag rbEnd allocCnt host count outOff done d hinv
    split at h <;> rename_i heq <;> rw [heq] at this
    · exact this x h
    · exact ih _ _ _ _ _ this h

theorem tryAllocateFrom_fl (host allocCnt : Nat) : Fl (tryAllocateFrom host allocCnt) := by
  refine ⟨fun d => ?_⟩
  unfold tryAllocateFrom
  split
  · exact FoS.refl d
  · have h1 := (ensureRefblock_fl host).fos d
    generalize ensureRefblock host d = r at h1
    rcases r with ⟨d1, _ | e | p⟩
    · exact h1.trans ((tryAllocateLoop_fl _ _ _ _ _ _ _).fos d1)
    · exact h1
    · exact h1

theorem tryAllocateFrom_some_flag (host allocCnt : Nat) (d : Dev) (x : Nat × Nat)
    (h : (tryAllocateFrom host allocCnt d).2 = .ok (some x)) :
    (tryAllocateFrom host allocCnt d).1.needFlush = true := by
  unfold tryAllocateFrom at h ⊢
  split at h
  · cases h
  · rename_i hc
    rw [if_neg hc]
    generalize ensureRefblock host d = r at h ⊢
    rcases r with ⟨d1, _ | e | p⟩
    · exact tryAllocateLoop_some_flag _ _ _ _ _ _ _ d1 (fun h => absurd rfl h) x h
    · cases h
    · cases h

theorem allocateLoop_fl (count fuel hostOff : Nat) : Fl (allocateLoop count fuel hostOff) := by
  refine ⟨fun d => ?_⟩
  induction fuel generalizing hostOff d with
  | zero => exact FoS.refl d
  | succ fuel ih =>
    rw [allocateLoop]
    dsimp only
    have h1 := (tryAllocateFrom_fl hostOff count).fos d
    generalize tryAllocateFrom hostOff count d = r at h1
    rcases r with ⟨d1, (_ | ⟨o, n⟩) | e | p⟩
    all_goals (try dsimp only)
    · exact h1.trans (ih _ d1)
    · split
      · exact h1.trans (Or.inr ⟨⟨rfl, rfl, rfl, rfl⟩, rfl⟩)
      · exact h1
    · exact h1
    · exact h1

theorem allocateLoop_some_flag (count fuel hostOff : Nat) (d : Dev) (x : Nat × Nat)
    (h : (allocateLoop count fuel hostOff d).2 = .ok (some x)) :
    (allocateLoop count fuel hostOff d).1.needFlush = true := by
  induction fuel generalizing hostOff d with
  | zero => simp [allocateLoop, M.fail] at h
  | succ fuel ih =>
    rw [allocateLoop] at h ⊢
    dsimp only at h ⊢
    have h1 := tryAllocateFrom_some_flag hostOff count d
    generalize tryAllocateFrom hostOff count d = r at h h1
    rcases r with ⟨d1, (_ | ⟨o, n⟩) | e | p⟩
    all_goals (try dsimp only at h h1 ⊢)
    · exact ih _ d1 h
    · have := h1 (o, n) rfl
      split
      · exact this
      · exact this
    · cases h
    · cases h

theorem allocateClusters_fl (count : Nat) : Fl (allocateClusters count) :=
  ⟨fun d => (allocateLoop_fl count _ _).fos d⟩

/-- an allocation that returns clusters leaves the flag set -/
theorem allocateClusters_some_flag (count : Nat) (d : Dev) (x : Nat × Nat)
    (h : (allocateClusters count d).2 = .ok (some x)) : (allocateClusters count d).1.needFlush = true :=
  allocateLoop_some_flag count _ _ d x h

theorem markNewData_fl (h : Nat) : Fl (markNewData h) := Fl.modify fun _ => by fos_triv

theorem ensureL2_fl (off : Nat) : Fl (ensureL2 off) := by
  refine ⟨fun d => ?_⟩
  unfold ensureL2
  dsimp only
  split
  · exact FoS.refl d
  · generalize hr : (if Split.l1Index d.info off < d.l1HdrEntries then (d, Outcome.ok ())
        else if Split.l1Index d.info off ≥ d.l1Len then (d, Outcome.err Err.unsupported)
        else if min d.info.maxL1Entries d.l1Len > d.info.maxL1Entries then
          (d, Outcome.panic "write.rs:flush_header_for_l1_table:assert")
        else ({ d with hdrL1Entries := min d.info.maxL1Entries d.l1Len,
                       l1HdrEntries := min d.info.maxL1Entries d.l1Len }, Outcome.ok ())) = r
    have h0 : FoS d r.1 := by
      rw [← hr]; repeat' split
      all_goals fos_triv
    rcases r with ⟨d0, _ | e | p⟩
    all_goals dsimp only at h0 ⊢
    · split
      · exact h0
      · have h1 := (allocateClusters_fl 1).fos d0
        generalize allocateClusters 1 d0 = r1 at h1
        rcases r1 with ⟨d1, (_ | ⟨o, n⟩) | e | p⟩
        all_goals dsimp only at h1 ⊢
        · exact h0.trans h1
        · exact Or.inl rfl
        · exact h0.trans h1
        · exact h0.trans h1
    · exact h0
    · exact h0

theorem allocAndMap_fl (off : Nat) : Fl (allocAndMap off) := by
  refine ⟨fun d => ?_⟩
  unfold allocAndMap
  show FoS d (M.bind (allocateClusters 1) _ d).1
  unfold M.bind
  have h1 := (allocateClusters_fl 1).fos d
  have h2 := allocateClusters_some_flag 1 d
  generalize allocateClusters 1 d = r at h1 h2
  rcases r with ⟨d1, (_ | ⟨o, n⟩) | e | p⟩
  all_goals dsimp only at h1 h2 ⊢
  · exact h1
  · exact Or.inl (h2 (o, n) rfl)
  · exact h1
  · exact h1


theorem makeSingleWriteMapping_fl (off : Nat) : Fl (makeSingleWriteMapping off) := by
  unfold makeSingleWriteMapping
  apply Fl.bind (ensureL2_fl off); intro _
  apply Fl.bind Fl.get; intro d
  dsimp only
  have hjp : Fl (do let d ← M.get; Pure.pure (d.l2Entry off) : M E64) :=
    Fl.bind Fl.get fun _ => Fl.pure _
  split
  · apply Fl.bind (allocAndMap_fl off); intro _
    refine Fl.bind (Fl.modify ?_) ?_
    · intro _; fos_triv
    · intro _; exact hjp
  · exact hjp

theorem populateSingle_fl (off : Nat) : Fl (populateSingle off) := by
  unfold populateSingle
  apply Fl.bind Fl.get; intro d
  split
  · exact makeSingleWriteMapping_fl off
  · exact Fl.pure _

/-- `mapRun` maps clusters without touching the flag (its caller sets it when
    `done > 0`): it always succeeds, the count never decreases, only `l2` (and
    `newData`) change, and nothing changes when no cluster was mapped -/
theorem mapRun_spec (cstart ccnt stop fuel this idx : Nat) (acc : List E64) (d : Dev) :
    ∃ es next done d', mapRun cstart ccnt stop fuel this idx acc d = (d', .ok (es, next, done)) ∧
      idx ≤ done ∧ d'.needFlush = d.needFlush ∧ d'.l1 = d.l1 ∧ d'.rt = d.rt ∧ d'.rc = d.rc ∧
      (done = idx → d'.l2 = d.l2) := by
  induction fuel generalizing this idx acc d with
  | zero => exact ⟨_, _, _, _, rfl, Nat.le_refl _, rfl, rfl, rfl, rfl, fun _ => rfl⟩
  | succ fuel ih =>
    rw [mapRun]
    dsimp only
    split
    · exact ⟨_, _, _, _, rfl, Nat.le_refl _, rfl, rfl, rfl, rfl, fun _ => rfl⟩
    · split
      · generalize hd2 : Dev.setL2 _ this _ = d2
        have h2 : d2.needFlush = d.needFlush ∧ d2.l1 = d.l1 ∧ d2.rt = d.rt ∧ d2.rc = d.rc := by
          rw [← hd2]; exact ⟨rfl, rfl, rfl, rfl⟩
        split
        · exact ⟨_, _, _, _, rfl, by omega, h2.1, h2.2.1, h2.2.2.1, h2.2.2.2, fun h => by omega⟩
        · obtain ⟨es, next, done, d', e1, e2, e3, e4, e5, e6, _⟩ := ih (this + d.info.clusterSize) (idx + 1) 
            (d2.l2Entry this :: acc) d2
          exact ⟨es, next, done, d', e1, by omega, e3.trans h2.1, e4.trans h2.2.1, e5.trans h2.2.2.1,
            e6.trans h2.2.2.2, fun h => by omega⟩
      · split
        · exact ⟨_, _, _, _, rfl, Nat.le_refl _, rfl, rfl, rfl, rfl, fun _ => rfl⟩
        · exact ih _ _ _ d

/-- `mapRun` followed by a continuation that sets the flag whenever clusters were mapped -/
theorem mapRun_bind_fl {β : Type} (cstart ccnt stop fuel this : Nat) (acc : List E64)
    (k : List E64 × Nat × Nat → M β) (hk0 : ∀ r, Fl (k r))
    (hk1 : ∀ r d, 0 < r.2.2 → (k r d).1.needFlush = true) :
    Fl (mapRun cstart ccnt stop fuel this 0 acc >>= k) := by
  refine ⟨fun d => ?_⟩
  show FoS d (M.bind (mapRun cstart ccnt stop fuel this 0 acc) k d).1
  unfold M.bind
  obtain ⟨es, next, done, d', e1, _, e3, e4, e5, e6, e7⟩ := mapRun_spec cstart ccnt stop fuel this 0 acc d
  rw [e1]
  dsimp only
  by_cases hd : done = 0
  · exact FoS.trans (Or.inr ⟨⟨e4, e7 hd, e5, e6⟩, e3⟩) ((hk0 _).fos d')
  · exact Or.inl (hk1 (es, next, done) d' (by dsimp only; omega))

theorem makeMultiple_fl (start stop : Nat) : Fl (makeMultiple start stop) := by
  unfold makeMultiple
  apply Fl.bind (ensureL2_fl start); intro _
  apply Fl.bind Fl.get; intro d
  dsimp only
  split
  · exact Fl.pure _
  · apply Fl.bind (allocateClusters_fl _); intro r
    apply Fl.bind
    · split
      · exact Fl.pure _
      · apply Fl.bind (allocateClusters_fl _); intro r
        split
        · exact Fl.pure _
        · exact Fl.fail _
    · intro x
      obtain ⟨cstart, ccnt⟩ := x
      dsimp only
      split
      · exact Fl.pure _
      · apply mapRun_bind_fl
        · intro r
          obtain ⟨es, next, done⟩ := r
          dsimp only
          split
          · exact Fl.bind (Fl.modify fun _ => by fos_triv) fun _ => Fl.pure _
          · exact Fl.pure _
        · intro r d h
          obtain ⟨es, next, done⟩ := r
          dsimp only at h ⊢
          rw [if_pos h]
          rfl


theorem makeMultiples_fl (stop fuel start : Nat) (acc : List E64) : Fl (makeMultiples stop fuel start acc) := by
  refine ⟨fun d => ?_⟩
  induction fuel generalizing start acc d with
  | zero => exact FoS.refl d
  | succ fuel ih =>
    rw [makeMultiples]
    dsimp only
    split
    · exact FoS.refl d
    · split
      · have h1 := (makeMultiple_fl start stop).fos d
        generalize makeMultiple start stop d = r at h1
        rcases r with ⟨d1, ⟨es, done⟩ | e | p⟩
        all_goals dsimp only at h1 ⊢
        · split
          · exact h1
          · exact h1.trans (ih _ _ d1)
        · exact h1
        · exact h1
      · exact ih _ _ d

theorem zeroCluster_fl (h : Nat) : Fl (zeroCluster h) := Fl.modify fun _ => by fos_triv
theorem writeSectors_fl (h : Nat) (toks : List Nat) : Fl (writeSectors h toks) :=
  Fl.modify fun _ => by fos_triv

/-- the data plane touches neither the view nor the flag -/
theorem doWriteDataFile_fl (off : Nat) (m : Mapping) (cow : Option Mapping) (toks : List Nat) :
    Fl (doWriteDataFile off m cow toks) := by
  refine ⟨fun d => ?_⟩
  unfold doWriteDataFile zeroCluster writeSectors M.modify
  dsimp only
  repeat' split
  all_goals exact Or.inr ⟨⟨rfl, rfl, rfl, rfl⟩, rfl⟩

theorem doWriteCow_fl (off : Nat) (m : Mapping) (toks : List Nat) : Fl (doWriteCow off m toks) := by
  unfold doWriteCow
  dsimp only
  repeat' (first
    | exact Fl.pure _ | exact Fl.get | exact Fl.fail _
    | (refine Fl.modify ?_; intro _; fos_triv)
    | exact ensureL2_fl _ | exact allocAndMap_fl _ | exact freeClusters_fl _ _ _
    | exact doWriteDataFile_fl _ _ _ _
    | apply Fl.bind
    | intro _
    | split)

theorem doWrite_fl (e : E64) (off : Nat) (toks : List Nat) : Fl (doWrite e off toks) := by
  refine ⟨fun d => ?_⟩
  unfold doWrite
  dsimp only
  repeat' split
  all_goals first
    | exact FoS.refl d
    | exact (doWriteDataFile_fl _ _ _ _).fos d
    | exact (doWriteCow_fl _ _ _).fos d

theorem doWrites_fl (ps : List (Nat × Nat)) (es : List E64) (toks : List Nat) : Fl (doWrites ps es toks) := by
  refine ⟨fun d => ?_⟩
  induction ps generalizing es toks d with
  | nil => exact FoS.refl d
  | cons q ps ih =>
    obtain ⟨off, n⟩ := q
    rw [doWrites]
    cases es with
    | nil => exact FoS.refl d
    | cons e es' =>
      dsimp only
      have h1 := (doWrite_fl e off (toks.take n)).fos d
      generalize doWrite e off (toks.take n) d = r1 at h1
      obtain ⟨d1, r1⟩ := r1
      have h2 := ih es' (toks.drop n) d1
      generalize doWrites ps es' (toks.drop n) d1 = r2 at h2
      obtain ⟨d2, r2⟩ := r2
      have h12 : FoS d d2 := h1.trans h2
      dsimp only
      split <;> exact h12

theorem writeAt_fl (off len : Nat) (toks : List Nat) : Fl (writeAt off len toks) := by
  refine ⟨fun d => ?_⟩
  unfold writeAt
  dsimp only
  split
  · exact FoS.refl d
  · split
    · exact FoS.refl d
    · split
      · have h1 := (populateSingle_fl off).fos d
        generalize populateSingle off d = r at h1
        rcases r with ⟨d1, e | e | p⟩
        · exact h1.trans ((doWrite_fl e off toks).fos d1)
        · exact h1
        · exact h1
      · have h1 := (makeMultiples_fl ((off + len + d.info.clusterSize - 1) / d.info.clusterSize * d.info.clusterSize)
            (((off + len + d.info.clusterSize - 1) / d.info.clusterSize * d.info.clusterSize
                - d.info.clusterRoundDown off) / d.info.clusterSize + 1) (d.info.clusterRoundDown off) []).fos d
        generalize makeMultiples _ _ _ [] d = r at h1
        rcases r with ⟨d1, es | e | p⟩
        · dsimp only
          have h2 := (doWrites_fl (pieces d.info.clusterSize
            (((off + len + d.info.clusterSize - 1) / d.info.clusterSize * d.info.clusterSize
                - d.info.clusterRoundDown off) / d.info.clusterSize + 1) off len) es toks).fos d1
          generalize doWrites _ es toks d1 = r2 at h2
          rcases r2 with ⟨d2, _ | e | p⟩ <;> exact h1.trans h2
        · exact h1
        · exact h1

theorem discardOne_fl (g : Nat) : Fl (discardOne g) := by
  refine ⟨fun d => ?_⟩
  unfold discardOne
  dsimp only
  split
  · exact FoS.refl d
  · split
    · exact FoS.refl d
    · split
      · exact FoS.refl d
      · rename_i host cnt _
        split
        · exact Or.inr ⟨⟨rfl, rfl, rfl, rfl⟩, rfl⟩
        · generalize hd1 : ({ d.setL2 g (if d.info.hasBack = true then 1#64 else 0#64) with needFlush := true } : Dev) = d1
          have h1 : d1.needFlush = true := by rw [← hd1]
          have h2 := ((freeClusters_fl host cnt true).fos d1).mono h1
          generalize freeClusters host cnt true d1 = r at h2
          rcases r with ⟨d2, _ | e | p⟩
          · exact Or.inl h2
          · exact Or.inl h2
          · exact Or.inl h2

theorem discardLoop_fl (stop fuel g : Nat) : Fl (discardLoop stop fuel g) := by
  refine ⟨fun d => ?_⟩
  induction fuel generalizing g d with
  | zero => exact FoS.refl d
  | succ fuel ih =>
    rw [discardLoop]
    dsimp only
    split
    · exact FoS.refl d
    · have h1 := (discardOne_fl g).fos d
      generalize discardOne g d = r at h1
      rcases r with ⟨d1, _ | e | p⟩
      · exact h1.trans (ih _ d1)
      · exact h1
      · exact h1

theorem discard_fl (off len : Nat) : Fl (discard off len) := by
  refine ⟨fun d => ?_⟩
  unfold discard
  dsimp only
  split
  · exact FoS.refl d
  · split
    · exact FoS.refl d
    · exact FoS.refl d
    · exact FoS.refl d
    · exact (discardLoop_fl _ _ _).fos d

/-! ### histories -/

def Op.isFlush : Op → Bool
  | .flush => true
  | _ => false

theorem step_fos (d : Dev) (op : Op) (h : op.isFlush = false) : FoS d (step d op) := by
  cases op with
  | write off len toks => exact (writeAt_fl off len toks).fos d
  | discard off len => exact (discard_fl off len).fos d
  | flush => cases h

theorem run_fos (d : Dev) (ops : List Op) (h : ∀ op ∈ ops, op.isFlush = false) : FoS d (run d ops) := by
  induction ops generalizing d with
  | nil => exact FoS.refl d
  | cons op ops ih =>
    exact (step_fos d op (h op (by simp))).trans (ih (step d op) (fun o ho => h o (by simp [ho])))

theorem run_append (d : Dev) (a b : List Op) : run d (a ++ b) = run (run d a) b := by
  simp [run, List.foldl_append]

end Qv.Model
