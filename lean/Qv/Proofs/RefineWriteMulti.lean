import Qv.Proofs.RefineWrite
/-
Second part of the helper lemmas for `Qv/Props/C01Refine.lean`:

1. `Mono`: no function of the write path ever shrinks the reftable (so "the write did not
   grow the reftable" propagates to every allocation inside it);
2. the loops of the multi-cluster path: `mapRun` (`mapRun_step`), `makeMultiple`
   (`makeMultiple_step`), `makeMultiples` (`makeMultiples_step`);
3. the data phase `doWrites` (`doWrites_step`) and the flat disk written piece by piece
   (`flatAfter`, `flatAfter_sec`).
-/
namespace Qv.Model.RW
open Qv Qv.Codec Qv.Model
open Qv.Props.C15 (Geom)
open Qv.Props.C11 (L1Distinct)

/-! ## 1. the reftable never shrinks -/

/-- a computation of the device monad that never shrinks the reftable, whatever its outcome -/
structure Mono {α : Type} (x : M α) : Prop where
  le : ∀ d, d.rtLen ≤ (x d).1.rtLen

namespace Mono
variable {α β : Type}

theorem of_eq {x : M α} (hx : Mono x) {d d' : Dev} {r : Outcome α} (h : x d = (d', r)) :
    d.rtLen ≤ d'.rtLen := by
  have := hx.le d; rw [h] at this; exact this

theorem pure (a : α) : Mono (Pure.pure a : M α) := ⟨fun _ => Nat.le_refl _⟩
theorem pure' (a : α) : Mono (M.pure a : M α) := ⟨fun _ => Nat.le_refl _⟩
theorem get : Mono M.get := ⟨fun _ => Nat.le_refl _⟩
theorem fail (e : Err) : Mono (M.fail e : M α) := ⟨fun _ => Nat.le_refl _⟩
theorem panic (p : String) : Mono (M.panic p : M α) := ⟨fun _ => Nat.le_refl _⟩
theorem modify {g : Dev → Dev} (h : ∀ d, d.rtLen ≤ (g d).rtLen) : Mono (M.modify g) := ⟨fun d => h d⟩

theorem bind {x : M α} {f : α → M β} (hx : Mono x) (hf : ∀ a, Mono (f a)) : Mono (x >>= f) := by
  refine ⟨fun d => ?_⟩
  show d.rtLen ≤ (M.bind x f d).1.rtLen
  unfold M.bind
  have := hx.le d
  generalize x d = r at this
  rcases r with ⟨d1, a | e | p⟩
  · exact Nat.le_trans this ((hf a).le d1)
  · exact this
  · exact this

end Mono

theorem freeClusters_mono (host n : Nat) (fz : Bool) : Mono (freeClusters host n fz) := by
  refine ⟨fun d => ?_⟩
  rw [(freeClusters_frame host n fz d).1]
  exact Nat.le_refl _

theorem allocateClusters_mono (count : Nat) : Mono (allocateClusters count) := by
  refine ⟨fun d => ?_⟩
  generalize hra : allocateClusters count d = ra
  obtain ⟨d1, ra⟩ := ra
  exact (Qv.Props.C01Model.allocateClusters_frame count d d1 ra hra).1.2.2.2.2.2.2.2.2.2.1

theorem ensureL2_mono (off : Nat) : Mono (ensureL2 off) := ⟨ensureL2_rtLen off⟩
theorem allocAndMap_mono (off : Nat) : Mono (allocAndMap off) := ⟨allocAndMap_rtLen off⟩

theorem mapRun_mono (cstart ccnt stop fuel this idx : Nat) (acc : List E64) :
    Mono (mapRun cstart ccnt stop fuel this idx acc) := by
  refine ⟨fun d => ?_⟩
  induction fuel generalizing this idx acc d with
  | zero => exact Nat.le_refl _
  | succ fuel ih =>
    rw [mapRun]
    dsimp only
    split
    · exact Nat.le_refl _
    · split
      · generalize hd2 : Dev.setL2 _ this _ = d2
        have h2 : d.rtLen ≤ d2.rtLen := by rw [← hd2]; exact Nat.le_refl _
        split
        · exact h2
        · exact Nat.le_trans h2 (ih _ _ _ d2)
      · split
        · exact Nat.le_refl _
        · exact ih _ _ _ d

/-- structural prover for `do` blocks of the device monad -/
macro "mono_auto" : tactic => `(tactic| repeat' (first
  | exact Mono.pure _ | exact Mono.pure' _ | exact Mono.get | exact Mono.fail _ | exact Mono.panic _
  | (refine Mono.modify ?_; intro _; exact Nat.le_refl _)
  | exact allocateClusters_mono _ | exact ensureL2_mono _ | exact allocAndMap_mono _
  | exact freeClusters_mono _ _ _
  | exact mapRun_mono _ _ _ _ _ _ _
  | apply Mono.bind
  | intro _
  | split))

theorem makeSingleWriteMapping_mono (off : Nat) : Mono (makeSingleWriteMapping off) := by
  unfold makeSingleWriteMapping
  mono_auto

theorem populateSingle_mono (off : Nat) : Mono (populateSingle off) := by
  unfold populateSingle
  apply Mono.bind Mono.get; intro d
  split
  · exact makeSingleWriteMapping_mono off
  · exact Mono.pure _

theorem makeMultiple_mono (start stop : Nat) : Mono (makeMultiple start stop) := by
  unfold makeMultiple
  apply Mono.bind (ensureL2_mono start); intro _
  apply Mono.bind Mono.get; intro d
  dsimp only
  mono_auto

theorem makeMultiples_mono (stop fuel start : Nat) (acc : List E64) :
    Mono (makeMultiples stop fuel start acc) := by
  refine ⟨fun d => ?_⟩
  induction fuel generalizing start acc d with
  | zero => exact Nat.le_refl _
  | succ fuel ih =>
    rw [makeMultiples]
    dsimp only
    split
    · exact Nat.le_refl _
    · split
      · have h1 := (makeMultiple_mono start stop).le d
        generalize makeMultiple start stop d = r at h1
        rcases r with ⟨d1, ⟨es, done⟩ | e | p⟩
        all_goals dsimp only at h1 ⊢
        · split
          · exact h1
          · exact Nat.le_trans h1 (ih _ _ d1)
        · exact h1
        · exact h1
      · exact ih _ _ d

theorem doWriteDataFile_mono (off : Nat) (m : Mapping) (cow : Option Mapping) (toks : List Nat) :
    Mono (doWriteDataFile off m cow toks) := by
  refine ⟨fun d => ?_⟩
  have := (doWriteDataFile_dataOnly off m cow toks d).2.2.2.2.2.2.2.2.2.1
  omega

theorem doWriteCow_mono (off : Nat) (m : Mapping) (toks : List Nat) : Mono (doWriteCow off m toks) := by
  unfold doWriteCow
  dsimp only
  repeat' (first
    | exact Mono.pure _ | exact Mono.get | exact Mono.fail _
    | (refine Mono.modify ?_; intro _; exact Nat.le_refl _)
    | exact ensureL2_mono _ | exact allocAndMap_mono _ | exact freeClusters_mono _ _ _
    | exact doWriteDataFile_mono _ _ _ _
    | apply Mono.bind
    | intro _
    | split)

theorem doWrite_mono (e : E64) (off : Nat) (toks : List Nat) : Mono (doWrite e off toks) := by
  refine ⟨fun d => ?_⟩
  unfold doWrite
  dsimp only
  repeat' split
  all_goals first
    | exact Nat.le_refl _
    | exact (doWriteDataFile_mono _ _ _ _).le d
    | exact (doWriteCow_mono _ _ _).le d

theorem doWrites_mono (ps : List (Nat × Nat)) (es : List E64) (toks : List Nat) :
    Mono (doWrites ps es toks) := by
  refine ⟨fun d => ?_⟩
  induction ps generalizing es toks d with
  | nil => exact Nat.le_refl _
  | cons q ps ih =>
    obtain ⟨off, n⟩ := q
    rw [doWrites]
    cases es with
    | nil => exact Nat.le_refl _
    | cons e es' =>
      dsimp only
      have h1 := (doWrite_mono e off (toks.take n)).le d
      generalize doWrite e off (toks.take n) d = r1 at h1
      obtain ⟨d1, r1⟩ := r1
      have h2 := ih es' (toks.drop n) d1
      generalize doWrites ps es' (toks.drop n) d1 = r2 at h2
      obtain ⟨d2, r2⟩ := r2
      have h12 : d.rtLen ≤ d2.rtLen := Nat.le_trans h1 h2
      dsimp only
      split <;> exact h12

/-! ## 2. the loops of the multi-cluster mapping phase -/

/-- entries of clusters that need no mapping are kept -/
def Keeps (D D' : Dev) : Prop :=
  D'.info = D.info ∧ ∀ o, needMakeMapping D.info (D.mapping o) = false → D'.l2Entry o = D.l2Entry o

theorem Keeps.refl (D : Dev) : Keeps D D := ⟨rfl, fun _ _ => rfl⟩

theorem Keeps.needMake {D D' : Dev} (k : Keeps D D') {o : Nat}
    (h : needMakeMapping D.info (D.mapping o) = false) : needMakeMapping D'.info (D'.mapping o) = false := by
  rw [k.1, mapping_of_l2Entry k.1 (k.2 o h)]; exact h

theorem Keeps.trans {a b c : Dev} (h1 : Keeps a b) (h2 : Keeps b c) : Keeps a c :=
  ⟨h2.1.trans h1.1, fun o ho => (h2.2 o (h1.needMake ho)).trans (h1.2 o ho)⟩

theorem ViewStep.keeps {D D' : Dev} (v : ViewStep D D') : Keeps D D' := ⟨v.info, fun o _ => v.l2 o⟩

/-- `es` are the entries of the `k` guest clusters from `start` in `D`; none of them
    needs a mapping -/
def Entries (D : Dev) (start k : Nat) (es : List E64) : Prop :=
  es = (List.range k).map (fun j => D.l2Entry (start + j * D.info.clusterSize)) ∧
  ∀ j, j < k → needMakeMapping D.info (D.mapping (start + j * D.info.clusterSize)) = false

theorem Entries.nil (D : Dev) (start : Nat) : Entries D start 0 [] := ⟨rfl, fun _ h => absurd h (Nat.not_lt_zero _)⟩

theorem Entries.cons {D : Dev} {start k : Nat} {e : E64} {es : List E64}
    (he : D.l2Entry start = e) (hn : needMakeMapping D.info (D.mapping start) = false)
    (h : Entries D (start + D.info.clusterSize) k es) : Entries D start (k + 1) (e :: es) := by
  constructor
  · rw [List.range_succ_eq_map, List.map_cons, List.map_map, h.1]
    simp only [Nat.zero_mul, Nat.add_zero, he, List.cons.injEq, true_and]
    apply List.map_congr_left
    intro j _
    simp only [Function.comp]
    congr 1
    rw [Nat.succ_mul]; omega
  · intro j hj
    cases j with
    | zero => rw [Nat.zero_mul, Nat.add_zero]; exact hn
    | succ j =>
      have := h.2 j (by omega)
      rw [Nat.succ_mul]
      rw [show start + (j * D.info.clusterSize + D.info.clusterSize)
        = start + D.info.clusterSize + j * D.info.clusterSize by omega]
      exact this

theorem Entries.keeps {D D' : Dev} {start k : Nat} {es : List E64} (h : Entries D start k es)
    (kp : Keeps D D') : Entries D' start k es := by
  constructor
  · rw [h.1, kp.1]
    apply List.map_congr_left
    intro j hj
    exact (kp.2 _ (h.2 j (List.mem_range.1 hj))).symm
  · intro j hj
    rw [kp.1]
    have := kp.needMake (h.2 j hj)
    rw [kp.1] at this
    exact this

theorem Entries.append {D : Dev} {start k1 k2 : Nat} {es1 es2 : List E64} (h1 : Entries D start k1 es1)
    (h2 : Entries D (start + k1 * D.info.clusterSize) k2 es2) : Entries D start (k1 + k2) (es1 ++ es2) := by
  constructor
  · rw [List.range_add, List.map_append, List.map_map, h1.1, h2.1]
    congr 1
    apply List.map_congr_left
    intro j _
    simp only [Function.comp]
    congr 1
    rw [Nat.add_mul]; omega
  · intro j hj
    by_cases hlt : j < k1
    · exact h1.2 j hlt
    · have := h2.2 (j - k1) (by omega)
      rw [show start + k1 * D.info.clusterSize + (j - k1) * D.info.clusterSize
        = start + j * D.info.clusterSize by
          rw [Nat.add_assoc, ← Nat.add_mul]; congr 2; omega] at this
      exact this

/-- clusters `idx ≤ j < ccnt` of the run at `cstart` are allocated, mapped by nobody and
    representable in an L2 entry -/
def RunOK (D : Dev) (cstart ccnt idx : Nat) : Prop :=
  cstart % D.info.clusterSize = 0 ∧ 0 < cstart ∧ cstart + ccnt * D.info.clusterSize ≤ 2^56 ∧
  ∀ j, idx ≤ j → j < ccnt →
    Fresh D (cstart + j * D.info.clusterSize) ∧
    1 ≤ D.rc.get ((cstart + j * D.info.clusterSize) / D.info.clusterSize)

theorem aligned_lt_vsize {cs this stop vsize : Nat} (h1 : this % cs = 0) (h2 : stop % cs = 0)
    (hlt : this < stop) (hsv : stop < vsize + cs) : this < vsize := by
  obtain ⟨q1, rfl⟩ := Nat.dvd_of_mod_eq_zero h1
  obtain ⟨q2, rfl⟩ := Nat.dvd_of_mod_eq_zero h2
  have : q1 < q2 := Nat.lt_of_mul_lt_mul_left hlt
  have : cs * (q1 + 1) ≤ cs * q2 := Nat.mul_le_mul_left _ this
  rw [Nat.mul_add, Nat.mul_one] at this
  omega

theorem aligned_succ_le {cs this stop : Nat} (h1 : this % cs = 0) (h2 : stop % cs = 0)
    (hlt : this < stop) : this + cs ≤ stop := by
  obtain ⟨q1, rfl⟩ := Nat.dvd_of_mod_eq_zero h1
  obtain ⟨q2, rfl⟩ := Nat.dvd_of_mod_eq_zero h2
  have : q1 < q2 := Nat.lt_of_mul_lt_mul_left hlt
  have : cs * (q1 + 1) ≤ cs * q2 := Nat.mul_le_mul_left _ this
  rw [Nat.mul_add, Nat.mul_one] at this
  exact this

/-- the state `__make_multiple_write_mapping` leaves after mapping `this` to `h` -/
def mappedAt (D : Dev) (this h : Nat) : Dev :=
  ({ D with newData := (h / D.info.clusterSize) :: D.newData } : Dev).setL2 this (L2.mapClusterEntry h)

theorem mappedAt_mapOne (D : Dev) (this h : Nat) : MapOne D (mappedAt D this h) this h :=
  ⟨rfl, rfl, rfl, rfl, rfl, rfl, rfl, rfl, rfl, rfl⟩

theorem mapRun_succ (cstart ccnt stop fuel this idx : Nat) (acc : List E64) (d : Dev) :
    mapRun cstart ccnt stop (fuel + 1) this idx acc d =
      if ¬ (this < stop) then (d, .ok (acc.reverse, this, idx)) else
      if needMakeMapping d.info (d.mapping this) then
        let d2 := mappedAt d this (cstart + idx * d.info.clusterSize)
        if idx + 1 ≥ ccnt then (d2, .ok ((d2.l2Entry this :: acc).reverse, this + d.info.clusterSize, idx + 1))
        else mapRun cstart ccnt stop fuel (this + d.info.clusterSize) (idx + 1) (d2.l2Entry this :: acc) d2
      else
        if idx ≥ ccnt then (d, .ok ((d.l2Entry this :: acc).reverse, this + d.info.clusterSize, idx))
        else mapRun cstart ccnt stop fuel (this + d.info.clusterSize) idx (d.l2Entry this :: acc) d := by
  rw [mapRun]
  rfl

/-- **the mapping loop.**  Starting from a state that satisfies the invariant, with the
    clusters `idx ≤ j < ccnt` of the run still unused and the L2 table of `[this, stop)`
    present: the loop succeeds, keeps the invariant, and returns (behind `acc`) the entries
    of the `k` clusters it walked over, which are all plainly mapped afterwards. -/
theorem mapRun_step (f : Qv.Spec.Flat) (a b cstart ccnt stop : Nat) (i : Info)
    (hstop : stop % i.clusterSize = 0) (ha : a % i.clusterSize = 0) (hb : b % i.clusterSize = 0)
    (hsb : stop ≤ b) (hsv : stop < i.vsize + i.clusterSize) (fuel : Nat) :
    ∀ this idx acc (D : Dev), D.info = i → MInv f a b D → this % i.clusterSize = 0 → a ≤ this →
      this ≤ stop → (∀ o, this ≤ o → o < stop → L1.isZero (D.l1Entry o) = false) →
      idx < ccnt → RunOK D cstart ccnt idx →
      ∃ D' es k done, mapRun cstart ccnt stop fuel this idx acc D
          = (D', .ok (acc.reverse ++ es, this + k * i.clusterSize, done)) ∧
        MInv f a b D' ∧ D'.rtLen = D.rtLen ∧ Entries D' this k es ∧ Keeps D D' ∧
        this + k * i.clusterSize ≤ stop ∧ (0 < fuel → this < stop → 0 < k) := by
  have hcs := cs_pos i
  induction fuel with
  | zero =>
    intro this idx acc D _ inv _ _ _ _ _ _
    refine ⟨D, [], 0, idx, ?_, inv, rfl, Entries.nil D this, Keeps.refl D, by omega, fun h => absurd h (Nat.lt_irrefl _)⟩
    simp [mapRun, M.pure]
  | succ fuel ih =>
    intro this idx acc D hi inv hthis hat hts hl1 hidx hrun
    subst hi
    rw [mapRun_succ]
    by_cases hlt : this < stop
    · rw [if_neg (not_not_intro hlt)]
      have hv : this < D.info.vsize := aligned_lt_vsize hthis hstop hlt hsv
      have hnext : this + D.info.clusterSize ≤ stop := aligned_succ_le hthis hstop hlt
      have hthis' : (this + D.info.clusterSize) % D.info.clusterSize = 0 := by
        rw [Nat.add_mod_right]; exact hthis
      by_cases hneed : needMakeMapping D.info (D.mapping this) = true
      · rw [if_pos hneed]
        dsimp only
        obtain ⟨r1, r2, r3, r4⟩ := hrun
        obtain ⟨frh, rch⟩ := r4 idx (Nat.le_refl _) hidx
        obtain ⟨hal, hdiv⟩ := run_cluster (h := cstart) (k := idx) hcs r1
        have hle : (idx + 1) * D.info.clusterSize ≤ ccnt * D.info.clusterSize := Nat.mul_le_mul_right _ hidx
        rw [Nat.add_mul, Nat.one_mul] at hle
        generalize hh : cstart + idx * D.info.clusterSize = h at *
        have hpos : 0 < h := by omega
        have h56 : h < 2^56 := by omega
        have hl1t := hl1 this (Nat.le_refl _) hlt
        have m := mappedAt_mapOne D this h
        generalize hD2 : mappedAt D this h = D2 at m ⊢
        have hi2 : D2.info = D.info := m.info
        obtain ⟨s2, t2, m2⟩ := mapOne_inv inv.st inv.tab inv.map hl1t hal hpos h56 rch frh m
        have inv2 : MInv f a b D2 := ⟨s2, t2, m2,
          mapOne_refinesN inv.st inv.tab inv.map hv hl1t hneed hal hpos h56 frh m inv.ref,
          mapOne_newIn inv.st inv.tab hl1t hal hpos h56 frh m ha hb ⟨hat, by omega⟩ inv.new⟩
        obtain ⟨he2, hf2, hmap2⟩ := mapOne_entries inv.st inv.tab hl1t hal hpos h56 m
        have hk2 : Keeps D D2 := ⟨m.info, fun o ho =>
          mapOne_keeps inv.st inv.tab hl1t hneed hal hpos h56 m o ho⟩
        have hn2 : needMakeMapping D2.info (D2.mapping this) = false := by
          rw [hmap2 this rfl]; exact needMakeMapping_plain (plainMapping_plain h)
        by_cases hlast : idx + 1 ≥ ccnt
        · rw [if_pos hlast]
          refine ⟨D2, [D2.l2Entry this], 1, idx + 1, ?_, inv2, m.rtLen, ?_, hk2, by omega, fun _ _ => by omega⟩
          · rw [List.reverse_cons, Nat.one_mul]
          · exact Entries.cons rfl hn2 (Entries.nil _ _)
        · rw [if_neg hlast]
          have hl12 : ∀ o, this + D.info.clusterSize ≤ o → o < stop → L1.isZero (D2.l1Entry o) = false := by
            intro o o1 o2
            rw [l1Entry_congr_fields m.info m.l1 m.l1Len]
            exact hl1 o (by omega) o2
          have hrun2 : RunOK D2 cstart ccnt (idx + 1) := by
            unfold RunOK
            rw [hi2]
            refine ⟨r1, r2, r3, ?_⟩
            intro j j1 j2
            obtain ⟨fj, rj⟩ := r4 j (by omega) j2
            have hjle : (idx + 1) * D.info.clusterSize ≤ j * D.info.clusterSize := Nat.mul_le_mul_right _ j1
            rw [Nat.add_mul, Nat.one_mul] at hjle
            constructor
            · refine mapOne_fresh inv.st inv.tab hl1t hal hpos h56 m ?_ fj
              left; omega
            · rw [m.rc]; exact rj
          obtain ⟨D', es, k, done, heq, inv', hrt', hent', hk', hle', _⟩ :=
            ih (this + D.info.clusterSize) (idx + 1) (D2.l2Entry this :: acc) D2 hi2 inv2 hthis' (by omega) hnext
              hl12 (by omega) hrun2
          refine ⟨D', D2.l2Entry this :: es, k + 1, done, ?_, inv', hrt'.trans m.rtLen, ?_, hk2.trans hk', ?_,
            fun _ _ => by omega⟩
          · rw [heq, List.reverse_cons, List.append_assoc]
            simp only [List.singleton_append, Prod.mk.injEq, Outcome.ok.injEq, true_and, and_true]
            rw [Nat.add_mul, Nat.one_mul]; omega
          · have hi' : D'.info = D.info := hk'.1.trans hi2
            apply Entries.cons (hk'.2 this hn2) (hk'.needMake hn2)
            rw [hi']; exact hent'
          · rw [Nat.add_mul, Nat.one_mul]; omega
      · rw [if_neg hneed, if_neg (by omega)]
        have hn0 : needMakeMapping D.info (D.mapping this) = false := by simpa using hneed
        obtain ⟨D', es, k, done, heq, inv', hrt', hent', hk', hle', _⟩ :=
          ih (this + D.info.clusterSize) idx (D.l2Entry this :: acc) D rfl inv hthis' (by omega) hnext
            (fun o o1 o2 => hl1 o (by omega) o2) hidx hrun
        refine ⟨D', D.l2Entry this :: es, k + 1, done, ?_, inv', hrt', ?_, hk', ?_, fun _ _ => by omega⟩
        · rw [heq, List.reverse_cons, List.append_assoc]
          simp only [List.singleton_append, Prod.mk.injEq, Outcome.ok.injEq, true_and, and_true]
          rw [Nat.add_mul, Nat.one_mul]; omega
        · have hi' : D'.info = D.info := hk'.1
          apply Entries.cons (hk'.2 this hn0) (hk'.needMake hn0)
          rw [hi']; exact hent'
        · rw [Nat.add_mul, Nat.one_mul]; omega
    · rw [if_pos hlt]
      refine ⟨D, [], 0, idx, ?_, inv, rfl, Entries.nil D this, Keeps.refl D, by omega, fun _ h => absurd h hlt⟩
      simp

/-! ### `__make_multiple_write_mapping` -/

theorem mbind_ok_inv {α β : Type} {x : M α} {f : α → M β} {d d' : Dev} {b : β}
    (h : M.bind x f d = (d', .ok b)) : ∃ d1 a, x d = (d1, .ok a) ∧ f a d1 = (d', .ok b) := by
  unfold M.bind at h
  generalize hx : x d = r at h
  rcases r with ⟨d1, a | e | p⟩
  · exact ⟨d1, a, rfl, h⟩
  · simp at h
  · simp at h

theorem needFlush_viewStep (D : Dev) (b : Bool) : ViewStep D { D with needFlush := b } :=
  ⟨rfl, rfl, rfl, rfl, rfl, rfl, rfl, fun _ h => h, fun _ => rfl⟩

theorem needFlush_mInv {f : Qv.Spec.Flat} {a b : Nat} {D : Dev} (i : MInv f a b D) (x : Bool) :
    MInv f a b { D with needFlush := x } :=
  (needFlush_viewStep D x).mInv (i.tab.transfer rfl (fun _ h => h) (fun _ => rfl)) i

/-- all offsets of the part of an L2 slice that starts at the (cluster aligned) offset
    `start` share the L1 index of `start` -/
theorem l1Index_in_slice {i : Info} (g : Geom i) (start o : Nat) (hal : start % i.clusterSize = 0)
    (h1 : start ≤ o)
    (h2 : o < start + (i.l2SliceEntries - Split.l2SliceIndex i start) * i.clusterSize) :
    Split.l1Index i o = Split.l1Index i start := by
  have hcs := cs_pos i
  have hS : 0 < i.l2SliceEntries := by rw [← g.l2SliceIndexShift_eq]; exact Nat.two_pow_pos _
  have hSE : i.l2SliceEntries ≤ i.l2Entries := by
    rw [g.l2SliceEntries_eq, g.l2Entries_eq]
    exact Nat.div_le_div_right (Nat.pow_le_pow_right (by decide) g.l2SliceBits_le)
  have hshift : i.l2SliceIndexShift ≤ i.l2IndexShift := by
    rw [← g.l2SliceIndexShift_eq, ← g.l2IndexShift_eq] at hSE
    exact (Nat.pow_le_pow_iff_right (by decide)).1 hSE
  unfold Split.l2SliceIndex at h2
  unfold Split.l1Index
  rw [Arith.div_two_pow_add, Arith.div_two_pow_add]
  change start % 2^i.cb = 0 at hal
  change 0 < 2^i.cb at hcs
  change o < start + (i.l2SliceEntries - start / 2^i.cb % i.l2SliceEntries) * 2^i.cb at h2
  generalize 2^i.cb = cs at *
  obtain ⟨c, rfl⟩ := Nat.dvd_of_mod_eq_zero hal
  rw [Nat.mul_div_cancel_left _ hcs] at h2 ⊢
  have hco1 : c ≤ o / cs := by
    rw [Nat.le_div_iff_mul_le hcs, Nat.mul_comm]; exact h1
  have hmod := Nat.mod_lt c hS
  have hco2 : o / cs < c + (i.l2SliceEntries - c % i.l2SliceEntries) := by
    rw [Nat.div_lt_iff_lt_mul hcs, Nat.add_mul, Nat.mul_comm c cs]; exact h2
  generalize o / cs = co at *
  have hdm := Nat.div_add_mod c i.l2SliceEntries
  have hslice : co / i.l2SliceEntries = c / i.l2SliceEntries := by
    apply Nat.div_eq_of_lt_le
    · rw [Nat.mul_comm]; omega
    · rw [Nat.add_mul, Nat.one_mul, Nat.mul_comm]; omega
  have hE : 2^i.l2IndexShift = i.l2SliceEntries * 2^(i.l2IndexShift - i.l2SliceIndexShift) := by
    rw [← g.l2SliceIndexShift_eq, ← Nat.pow_add]
    congr 1; omega
  rw [hE, ← Nat.div_div_eq_div_mul, ← Nat.div_div_eq_div_mul, hslice]

theorem filter_length_zero {α : Type} {p : α → Bool} {l : List α} (h : (l.filter p).length = 0) :
    ∀ x, x ∈ l → p x = false := by
  intro x hx
  have hnil : l.filter p = [] := List.eq_nil_of_length_eq_zero h
  cases hp : p x with
  | false => rfl
  | true =>
    have : x ∈ l.filter p := List.mem_filter.2 ⟨hx, hp⟩
    rw [hnil] at this
    cases this

theorem aligned_sub_div {cs a b : Nat} (ha : a % cs = 0) (hb : b % cs = 0) (hab : a ≤ b) :
    a + (b - a) / cs * cs = b := by
  have := Nat.div_mul_cancel (Nat.dvd_of_mod_eq_zero (Arith16.sub_mod_zero hb ha))
  omega

/-- **one call of `__make_multiple_write_mapping`.** -/
theorem makeMultiple_step {f : Qv.Spec.Flat} {a b start stop : Nat} {d d' : Dev} {es : List E64} {cnt : Nat}
    (inv : MInv f a b d)
    (hstart : start % d.info.clusterSize = 0) (hstop : stop % d.info.clusterSize = 0)
    (ha : a % d.info.clusterSize = 0) (hb : b % d.info.clusterSize = 0)
    (hat : a ≤ start) (hlt : start < stop) (hsb : stop ≤ b)
    (hsv : stop < d.info.vsize + d.info.clusterSize)
    (h : makeMultiple start stop d = (d', .ok (es, cnt))) (hng : d'.rtLen = d.rtLen) :
    MInv f a b d' ∧ Entries d' start cnt es ∧ Keeps d d' ∧ start + cnt * d.info.clusterSize ≤ stop := by
  have hcs := cs_pos d.info
  have hov : start < d.info.vsize := aligned_lt_vsize hstart hstop hlt hsv
  have hmA := (ensureL2_mono start).le d
  generalize hen : ensureL2 start d = rA at hmA
  obtain ⟨dA, (_ | e | p)⟩ := rA
  · unfold makeMultiple at h
    simp only [bind, M.bind, hen, M.get] at h
    dsimp only at hmA
    have hi : dA.info = d.info := ((ensureL2_fr start).of_eq hen).2.2.1
    rw [hi] at h
    generalize hstop' : min stop (start + (d.info.l2SliceEntries - Split.l2SliceIndex d.info start)
      * d.info.clusterSize) = stop' at h
    generalize hn : (stop' - start) / d.info.clusterSize = n at h
    have hS : 0 < d.info.l2SliceEntries := by
      rw [← inv.st.geom.l2SliceIndexShift_eq]; exact Nat.two_pow_pos _
    have hidxlt : Split.l2SliceIndex d.info start < d.info.l2SliceEntries := Nat.mod_lt _ hS
    have hstop'al : stop' % d.info.clusterSize = 0 := by
      rw [← hstop']
      apply Arith16.min_mod_zero hstop
      rw [Nat.add_mul_mod_self_right]; exact hstart
    have hs1 : start ≤ stop' := by rw [← hstop']; omega
    have hs2 : stop' ≤ stop := by rw [← hstop']; exact Nat.min_le_left _ _
    have hncs : start + n * d.info.clusterSize = stop' := by
      rw [← hn]; exact aligned_sub_div hstart hstop'al hs1
    have hslice : ∀ o, start ≤ o → o < stop' → Split.l1Index d.info o = Split.l1Index d.info start := by
      intro o o1 o2
      apply l1Index_in_slice inv.st.geom start o hstart o1
      have : stop' ≤ start + (d.info.l2SliceEntries - Split.l2SliceIndex d.info start) * d.info.clusterSize := by
        rw [← hstop']; exact Nat.min_le_right _ _
      omega
    generalize hneedc : (List.filter _ _).length = need at h
    by_cases hz : need = 0
    · rw [if_pos hz] at h
      simp only [pure, M.pure, Prod.mk.injEq, Outcome.ok.injEq] at h
      obtain ⟨h1, h2, h3⟩ := h
      subst h1
      obtain ⟨vA, tA, hl1A⟩ := ensureL2_step inv.st inv.tab inv.map hov hen hng
      refine ⟨vA.mInv tA inv, ?_, vA.keeps, by rw [← h3]; omega⟩
      rw [← h2, ← h3, List.map_map]
      refine ⟨by rw [hi]; rfl, ?_⟩
      intro j hj
      rw [hz] at hneedc
      have := filter_length_zero hneedc (start + j * d.info.clusterSize)
        (List.mem_map.2 ⟨j, List.mem_range.2 hj, rfl⟩)
      rw [hi]; exact this
    · rw [if_neg hz] at h
      obtain ⟨dB, r, hal, h⟩ := mbind_ok_inv h
      have hmB := (allocateClusters_mono need).of_eq hal
      cases r with
      | none => exact absurd (by rw [hal]) (Qv.Props.C01Model.allocateClusters_never_none need dA)
      | some x =>
        obtain ⟨cstart, ccnt⟩ := x
        obtain ⟨dB', x, hx, h⟩ := mbind_ok_inv h
        simp only [pure, M.pure, Prod.mk.injEq, Outcome.ok.injEq] at hx
        obtain ⟨hx1, hx2⟩ := hx
        subst hx1 hx2
        dsimp only at h
        by_cases hc0 : ccnt = 0
        · rw [if_pos hc0] at h
          simp only [pure, M.pure, Prod.mk.injEq, Outcome.ok.injEq] at h
          obtain ⟨h1, h2, h3⟩ := h
          subst h1
          obtain ⟨vA, tA, hl1A⟩ := ensureL2_step inv.st inv.tab inv.map hov hen (by omega)
          have iA := vA.mInv tA inv
          obtain ⟨_, _, _, n1, _⟩ := alloc_step iA.st iA.map hal (by omega)
          omega
        · rw [if_neg hc0] at h
          obtain ⟨dC, y, hrun, h⟩ := mbind_ok_inv h
          have hmC := (mapRun_mono _ _ _ _ _ _ _).of_eq hrun
          obtain ⟨es', next, done⟩ := y
          dsimp only at h
          have hd'C : d'.rtLen = dC.rtLen ∧ cnt = (next - start) / d.info.clusterSize ∧ es = es' ∧
              ∃ x, d' = { dC with needFlush := x } := by
            by_cases hdn : done > 0
            · rw [if_pos hdn] at h
              simp only [pure, M.pure, M.bind, M.modify, Prod.mk.injEq, Outcome.ok.injEq] at h
              obtain ⟨h1, h2, h3⟩ := h
              exact ⟨by rw [← h1], h3.symm, h2.symm, true, h1.symm⟩
            · rw [if_neg hdn] at h
              simp only [pure, M.pure, Prod.mk.injEq, Outcome.ok.injEq] at h
              obtain ⟨h1, h2, h3⟩ := h
              exact ⟨by rw [← h1], h3.symm, h2.symm, dC.needFlush, by rw [← h1]⟩
          obtain ⟨hrt, hcnt, hes, xf, hd'⟩ := hd'C
          obtain ⟨vA, tA, hl1A⟩ := ensureL2_step inv.st inv.tab inv.map hov hen (by omega)
          have iA := vA.mInv tA inv
          obtain ⟨fr, hrc, hal', n1, n2, hpos, h56, hrunc⟩ := alloc_step iA.st iA.map hal (by omega)
          have vB := AllocFrame.viewStep fr hrc
          have tB : TabOK dB := iA.tab.transfer vB.info vB.rcpos (AllocFrame.l1Entry fr)
          have iB := vB.mInv tB iA
          have hiB : dB.info = d.info := vB.info.trans hi
          rw [hi] at hal' h56 hrunc
          have hrunOK : RunOK dB cstart ccnt 0 := by
            unfold RunOK
            rw [hiB]
            refine ⟨hal', hpos, h56, ?_⟩
            intro j _ j2
            obtain ⟨c1, c2⟩ := run_cluster (h := cstart) (k := j) hcs hal'
            obtain ⟨r0, r1⟩ := hrunc (cstart / d.info.clusterSize + j) (by omega) (by omega)
            rw [← c2] at r0 r1
            refine ⟨vB.fresh (fresh_of_rc_zero iA.map (by rw [hi]; exact c1) (by rw [hi]; exact r0)), ?_⟩
            rw [r1]; exact Nat.le_refl _
          have hl1B : ∀ o, start ≤ o → o < stop' → L1.isZero (dB.l1Entry o) = false := by
            intro o o1 o2
            rw [AllocFrame.l1Entry fr]
            have : dA.l1Entry o = dA.l1Entry start := by
              unfold Dev.l1Entry; rw [hi, hslice o o1 o2]
            rw [this]; exact hl1A
          obtain ⟨D', es'', k, done', heq, inv', hrt', hent', hk', hle', _⟩ :=
            mapRun_step f a b cstart ccnt stop' d.info hstop'al ha hb (by omega) (by omega) (n + 1)
              start 0 [] dB hiB iB hstart hat hs1 hl1B (by omega) hrunOK
          rw [hrun] at heq
          simp only [List.reverse_nil, List.nil_append, Prod.mk.injEq, Outcome.ok.injEq] at heq
          obtain ⟨e1, e2, e3, e4⟩ := heq
          subst e1 e2 e3
          have hk : cnt = k := by
            rw [hcnt, Nat.add_sub_cancel_left, Nat.mul_div_cancel _ hcs]
          rw [hk, hes, hd']
          have hkAll : Keeps d dC := vA.keeps.trans (vB.keeps.trans hk')
          refine ⟨needFlush_mInv inv' xf, ?_, ⟨hkAll.1, hkAll.2⟩, by omega⟩
          exact hent'.keeps (needFlush_viewStep dC xf).keeps
  · unfold makeMultiple at h
    simp [bind, M.bind, hen] at h
  · unfold makeMultiple at h
    simp [bind, M.bind, hen] at h

/-! ### `make_multiple_write_mappings` -/

theorem makeMultiples_succ (stop fuel start : Nat) (acc : List E64) (d : Dev) :
    makeMultiples stop (fuel + 1) start acc d =
      if ¬ (start < stop) then (d, .ok acc) else
      if needMakeMapping d.info (d.mapping start) then
        match makeMultiple start stop d with
        | (d1, .ok (es, done)) =>
          if done = 0 then (d1, .err .nospace)
          else makeMultiples stop fuel (start + done * d.info.clusterSize) (acc ++ es) d1
        | (d1, .err e) => (d1, .err e)
        | (d1, .panic p) => (d1, .panic p)
      else makeMultiples stop fuel (start + d.info.clusterSize) (acc ++ [d.l2Entry start]) d := by
  rw [makeMultiples]
  rfl

/-- **the mapping phase of the multi-cluster path.**  A successful
    `make_multiple_write_mappings` over the `m` clusters from `start` that does not grow the
    reftable keeps the invariant and returns (behind `acc`) the entries of these clusters,
    all of which are plainly mapped afterwards. -/
theorem makeMultiples_step (f : Qv.Spec.Flat) (a b stop : Nat) (i : Info)
    (hstop : stop % i.clusterSize = 0) (ha : a % i.clusterSize = 0) (hb : b % i.clusterSize = 0)
    (hsb : stop ≤ b) (hsv : stop < i.vsize + i.clusterSize) (fuel : Nat) :
    ∀ start m acc (d d' : Dev) es, d.info = i → MInv f a b d → start % i.clusterSize = 0 → a ≤ start →
      stop = start + m * i.clusterSize → m ≤ fuel →
      makeMultiples stop fuel start acc d = (d', .ok es) → d'.rtLen = d.rtLen →
      ∃ es', es = acc ++ es' ∧ MInv f a b d' ∧ Entries d' start m es' ∧ Keeps d d' := by
  have hcs := cs_pos i
  induction fuel with
  | zero =>
    intro start m acc d d' es _ inv _ _ _ hm h _
    have : m = 0 := by omega
    subst this
    simp only [makeMultiples, M.pure, Prod.mk.injEq, Outcome.ok.injEq] at h
    obtain ⟨rfl, rfl⟩ := h
    exact ⟨[], by simp, inv, Entries.nil _ _, Keeps.refl _⟩
  | succ fuel ih =>
    intro start m acc d d' es hi inv hstart hat hm hmf h hng
    subst hi
    rw [makeMultiples_succ] at h
    by_cases hlt : start < stop
    · rw [if_neg (not_not_intro hlt)] at h
      have hmpos : 0 < m := by
        rcases Nat.eq_zero_or_pos m with h0 | h0
        · rw [h0] at hm; omega
        · exact h0
      by_cases hneed : needMakeMapping d.info (d.mapping start) = true
      · rw [if_pos hneed] at h
        have hm1 := (makeMultiple_mono start stop).le d
        generalize hmm : makeMultiple start stop d = r at h hm1
        obtain ⟨d1, (⟨es1, done⟩ | e | p)⟩ := r
        · dsimp only at h hm1
          by_cases hd0 : done = 0
          · rw [if_pos hd0] at h; simp at h
          · rw [if_neg hd0] at h
            have hm2 := (makeMultiples_mono stop fuel (start + done * d.info.clusterSize) (acc ++ es1)).of_eq h
            obtain ⟨inv1, hent1, hk1, hle1⟩ := makeMultiple_step inv hstart hstop ha hb hat hlt hsb hsv hmm
              (by omega)
            have hdm : done ≤ m := by
              rw [hm] at hle1
              exact Nat.le_of_mul_le_mul_right (by omega) hcs
            have hstart' : (start + done * d.info.clusterSize) % d.info.clusterSize = 0 := by
              rw [Nat.add_mul_mod_self_right]; exact hstart
            have hm' : stop = start + done * d.info.clusterSize + (m - done) * d.info.clusterSize := by
              rw [Nat.add_assoc, ← Nat.add_mul, hm]; congr 2; omega
            obtain ⟨es2, he2, inv', hent2, hk2⟩ :=
              ih (start + done * d.info.clusterSize) (m - done) (acc ++ es1) d1 d' es hk1.1 inv1 hstart'
                (by omega) hm' (by omega) h (by omega)
            refine ⟨es1 ++ es2, by rw [he2, List.append_assoc], inv', ?_, hk1.trans hk2⟩
            have hi' : d'.info = d.info := hk2.1.trans hk1.1
            have e1 : Entries d' start done es1 := hent1.keeps hk2
            have := Entries.append e1 (by rw [hi']; exact hent2)
            rw [show done + (m - done) = m by omega] at this
            exact this
        · simp at h
        · simp at h
      · rw [if_neg hneed] at h
        have hn0 : needMakeMapping d.info (d.mapping start) = false := by simpa using hneed
        have hstart' : (start + d.info.clusterSize) % d.info.clusterSize = 0 := by
          rw [Nat.add_mod_right]; exact hstart
        have hm' : stop = start + d.info.clusterSize + (m - 1) * d.info.clusterSize := by
          rw [hm, Nat.add_assoc]; congr 1
          rw [Nat.sub_mul, Nat.one_mul]
          have : d.info.clusterSize ≤ m * d.info.clusterSize := Nat.le_mul_of_pos_left _ hmpos
          omega
        obtain ⟨es2, he2, inv', hent2, hk2⟩ :=
          ih (start + d.info.clusterSize) (m - 1) (acc ++ [d.l2Entry start]) d d' es rfl inv hstart'
            (by omega) hm' (by omega) h hng
        refine ⟨d.l2Entry start :: es2, by rw [he2, List.append_assoc]; rfl, inv', ?_, hk2⟩
        have := Entries.cons (hk2.2 start hn0) (hk2.needMake hn0) (by rw [hk2.1]; exact hent2)
        rw [show m - 1 + 1 = m by omega] at this
        exact this
    · rw [if_pos hlt] at h
      simp only [Prod.mk.injEq, Outcome.ok.injEq] at h
      obtain ⟨rfl, rfl⟩ := h
      have : m = 0 := by
        rcases Nat.eq_zero_or_pos m with h0 | h0
        · exact h0
        · have : d.info.clusterSize ≤ m * d.info.clusterSize := Nat.le_mul_of_pos_left _ h0
          omega
      subst this
      exact ⟨[], by simp, inv, Entries.nil _ _, Keeps.refl _⟩

/-! ## 3. the data phase -/

/-- the flat disk after writing the pieces one after the other -/
def flatAfter (f : Qv.Spec.Flat) : List (Nat × Nat) → List Nat → Qv.Spec.Flat
  | [], _ => f
  | (o, n) :: ps, toks => flatAfter (f.write o (toks.take n)) ps (toks.drop n)

theorem getD_take (l : List Nat) (n j : Nat) : (l.take n).getD j 0 = if j < n then l.getD j 0 else 0 := by
  rw [List.getD_eq_getElem?_getD, List.getD_eq_getElem?_getD, List.getElem?_take]
  split <;> rfl

theorem getD_drop (l : List Nat) (n j : Nat) : (l.drop n).getD j 0 = l.getD (n + j) 0 := by
  rw [List.getD_eq_getElem?_getD, List.getD_eq_getElem?_getD, List.getElem?_drop]

/-- writing the pieces of `[off, off+len)` one after the other is the write of the whole range -/
theorem flatAfter_sec {cs : Nat} (hcs : 0 < cs) (h512 : cs % 512 = 0) (fuel : Nat) :
    ∀ (f : Qv.Spec.Flat) off len toks, off % 512 = 0 → len % 512 = 0 → off % cs + len ≤ fuel * cs →
      toks.length = len / 512 →
      ∀ s, (flatAfter f (pieces cs fuel off len) toks).sec.get s = (f.write off toks).sec.get s := by
  induction fuel with
  | zero =>
    intro f off len toks _ _ hm htl s
    have : len = 0 := by omega
    subst this
    have : toks = [] := List.eq_nil_of_length_eq_zero (by simpa using htl)
    subst this
    rw [flat_write_sec, if_neg (by simp only [List.length_nil]; omega)]
    rfl
  | succ fuel ih =>
    intro f off len toks ho hlen hm htl s
    by_cases hl : len = 0
    · subst hl
      have : toks = [] := List.eq_nil_of_length_eq_zero (by simpa using htl)
      subst this
      rw [pieces_zero_len, flat_write_sec, if_neg (by simp only [List.length_nil]; omega)]
      rfl
    · rw [pieces, if_neg hl]
      have hmm : off % cs % 512 = 0 := by
        rw [Nat.mod_mod_of_dvd off (Nat.dvd_of_mod_eq_zero h512)]; exact ho
      have hlt := Nat.mod_lt off hcs
      generalize hcur : min (cs - off % cs) len = cur
      have hc512 : cur % 512 = 0 := by omega
      dsimp only
      rw [flatAfter]
      have hrest : ∀ s, (flatAfter (f.write off (toks.take (cur / 512)))
            (pieces cs fuel (off + cur) (len - cur)) (toks.drop (cur / 512))).sec.get s =
          ((f.write off (toks.take (cur / 512))).write (off + cur) (toks.drop (cur / 512))).sec.get s := by
        intro s
        by_cases hrest : len - cur = 0
        · have hd : toks.drop (cur / 512) = [] := by
            apply List.eq_nil_of_length_eq_zero
            rw [List.length_drop]; omega
          rw [hrest, pieces_zero_len, hd, flat_write_sec, if_neg (by simp only [List.length_nil]; omega)]
          rfl
        · have hcur' : cur = cs - off % cs := by omega
          obtain ⟨_, r2, _⟩ := round_add_rest (off := off) hcs
          rw [← hcur'] at r2
          exact ih _ (off + cur) (len - cur) (toks.drop (cur / 512)) (by omega) (by omega)
            (by rw [Nat.add_mul, Nat.one_mul] at hm; omega)
            (by rw [List.length_drop]; omega) s
      rw [hrest s, flat_write_sec, flat_write_sec, flat_write_sec, List.length_drop, List.length_take,
        getD_take, getD_drop]
      have hmin : min (cur / 512) toks.length = cur / 512 := by omega
      rw [hmin]
      by_cases h1 : (off + cur) / 512 ≤ s ∧ s < (off + cur) / 512 + (toks.length - cur / 512)
      · rw [if_pos h1, if_pos (by omega)]
        congr 1; omega
      · rw [if_neg h1]
        by_cases h2 : off / 512 ≤ s ∧ s < off / 512 + cur / 512
        · rw [if_pos h2, if_pos (by omega), if_pos (by omega)]
        · rw [if_neg h2, if_neg (by omega)]

theorem refinesN_sec_congr {D : Dev} {f f' : Qv.Spec.Flat} (h : ∀ s, f'.sec.get s = f.sec.get s)
    (hr : RefinesN D f) : RefinesN D f' := by
  intro s hs
  rw [h s]
  exact hr s hs

theorem Entries.tail {D : Dev} {start k : Nat} {e : E64} {es : List E64}
    (h : Entries D start (k + 1) (e :: es)) :
    e = D.l2Entry start ∧ needMakeMapping D.info (D.mapping start) = false ∧
    Entries D (start + D.info.clusterSize) k es := by
  obtain ⟨h1, h2⟩ := h
  rw [List.range_succ_eq_map, List.map_cons, List.map_map] at h1
  simp only [Nat.zero_mul, Nat.add_zero, List.cons.injEq] at h1
  refine ⟨h1.1, ?_, ?_, ?_⟩
  · have := h2 0 (by omega)
    rw [Nat.zero_mul, Nat.add_zero] at this
    exact this
  · rw [h1.2]
    apply List.map_congr_left
    intro j _
    simp only [Function.comp]
    congr 1
    rw [Nat.succ_mul]; omega
  · intro j hj
    have := h2 (j + 1) (by omega)
    rw [Nat.succ_mul] at this
    rw [show start + D.info.clusterSize + j * D.info.clusterSize
      = start + (j * D.info.clusterSize + D.info.clusterSize) by omega]
    exact this

theorem DataStep.keeps {D D' : Dev} (h : DataStep D D') : Keeps D D' := ⟨h.info, fun o _ => h.l2Entry o⟩

/-- after the piece of a cluster has been written, the clusters that are still new are
    those that were, minus that cluster -/
theorem isNewAt_after_piece {D D1 : Dev} {off ho o' : Nat} (hfr : DataStep D D1)
    (hmem : ∀ c, c ∈ D1.newData ↔ (c ∈ D.newData ∧ c ≠ ho / D.info.clusterSize))
    (hco : (D.mapping off).clusterOffset = some ho)
    (hnew : IsNewAt D1 o') : IsNewAt D o' ∧ o' / D.info.clusterSize ≠ off / D.info.clusterSize := by
  obtain ⟨h', hs', hco', hm'⟩ := hnew
  rw [hfr.mapping] at hs' hco'
  rw [hfr.info] at hm'
  obtain ⟨m1, m2⟩ := (hmem _).1 hm'
  refine ⟨⟨h', hs', hco', m1⟩, ?_⟩
  intro hc
  rw [mapping_congr D hc, hco] at hco'
  have : ho = h' := by injection hco'
  subst this
  exact m2 rfl

theorem doWrites_cons_ok {o n : Nat} {ps : List (Nat × Nat)} {e : E64} {es : List E64} {toks : List Nat}
    {D D1 D2 : Dev} (h1 : doWrite e o (toks.take n) D = (D1, .ok ()))
    (h2 : doWrites ps es (toks.drop n) D1 = (D2, .ok ())) :
    doWrites ((o, n) :: ps) (e :: es) toks D = (D2, .ok ()) := by
  unfold doWrites
  dsimp only
  rw [h1]
  dsimp only
  rw [h2]

/-- **the data phase of the multi-cluster path.**  On a well-formed state in which the
    `m` clusters touched by `[off, off+len)` are plainly mapped and `es` are their entries,
    `do_writes` over the pieces succeeds, changes only the data plane and the new-cluster
    list, the device then shows the flat disk with all pieces written, and no mapped cluster
    is new any more (given that only clusters of the range were). -/
theorem doWrites_step (i : Info) (fuel : Nat) :
    ∀ off len m toks es (D : Dev) (f : Qv.Spec.Flat), D.info = i → Static D → MapOK D → RefinesN D f →
      off % 512 = 0 → len % 512 = 0 → len ≠ 0 → off + len ≤ i.vsize → toks.length = len / 512 →
      off % i.clusterSize + len ≤ fuel * i.clusterSize →
      m * i.clusterSize < off % i.clusterSize + len + i.clusterSize →
      off % i.clusterSize + len ≤ m * i.clusterSize →
      Entries D (off / i.clusterSize * i.clusterSize) m es →
      NewIn D (off / i.clusterSize * i.clusterSize) (off / i.clusterSize * i.clusterSize + m * i.clusterSize) →
      ∃ D', doWrites (pieces i.clusterSize fuel off len) es toks D = (D', .ok ()) ∧ DataStep D D' ∧
        RefinesN D' (flatAfter f (pieces i.clusterSize fuel off len) toks) ∧ NewOK D' := by
  have hcs := cs_pos i
  induction fuel with
  | zero =>
    intro off len m toks es D f _ _ _ _ _ _ hl _ _ hf
    omega
  | succ fuel ih =>
    intro off len m toks es D f hi st mo hr ho hlen hl hv htl hfuel htight hup hent hnew
    subst hi
    have h512 : D.info.clusterSize % 512 = 0 := by have := cs512 st; omega
    have hmm : off % D.info.clusterSize % 512 = 0 := by
      rw [Nat.mod_mod_of_dvd off (Nat.dvd_of_mod_eq_zero h512)]; exact ho
    have hlt := Nat.mod_lt off hcs
    rw [pieces, if_neg hl]
    generalize hcur : min (D.info.clusterSize - off % D.info.clusterSize) len = cur
    have hc512 : cur % 512 = 0 := by omega
    dsimp only
    have hmpos : 0 < m := by
      rcases Nat.eq_zero_or_pos m with h0 | h0
      · rw [h0] at hup; omega
      · exact h0
    obtain ⟨m', rfl⟩ : ∃ m', m = m' + 1 := ⟨m - 1, by omega⟩
    cases es with
    | nil =>
      have := hent.1
      simp [List.range_succ_eq_map] at this
    | cons e0 es' =>
      obtain ⟨he0, hn0, hent'⟩ := hent.tail
      generalize hrd : off / D.info.clusterSize * D.info.clusterSize = rd at *
      have hrdq : rd / D.info.clusterSize = off / D.info.clusterSize := by
        rw [← hrd]; exact Nat.mul_div_cancel _ hcs
      have hrdle : rd ≤ off := by rw [← hrd]; exact Nat.div_mul_le_self _ _
      have hoff : off = rd + off % D.info.clusterSize := by
        have := Nat.div_add_mod off D.info.clusterSize
        rw [Nat.mul_comm, hrd] at this; omega
      have hrdv : rd < D.info.vsize := by omega
      have hov : off < D.info.vsize := by omega
      obtain ⟨ho', hp'⟩ := needMake_false_plain st.noBackName (mo.ent rd hrdv) hn0
      have hmeq : D.mapping rd = D.mapping off := mapping_congr D hrdq
      have hp : L2.plainOffset (D.mapping off) 0 = some ho' := by rw [← hmeq]; exact hp'
      have he0' : e0 = D.l2Entry off := by rw [he0]; exact l2Entry_congr D hrdq
      have htake : (toks.take (cur / 512)).length = cur / 512 := by
        rw [List.length_take]; omega
      obtain ⟨D1, hw1, hfr1, hmem1, hr1⟩ := doWrite_piece (f := f) (toks := toks.take (cur / 512)) st mo ho
        (by rw [htake]; omega) hov hp hr
      rw [← he0'] at hw1
      obtain ⟨_, _, hco⟩ := plainOffset_some hp
      by_cases hrest : len - cur = 0
      · rw [hrest, pieces_zero_len]
        have hm0 : m' = 0 := by
          rcases Nat.eq_zero_or_pos m' with h0 | h0
          · exact h0
          · have : D.info.clusterSize ≤ m' * D.info.clusterSize := Nat.le_mul_of_pos_left _ h0
            rw [Nat.add_mul, Nat.one_mul] at htight
            omega
        refine ⟨D1, doWrites_cons_ok hw1 rfl, hfr1, hr1, ?_⟩
        intro o' ho'v hnw
        rw [hfr1.info] at ho'v
        obtain ⟨hnw0, hne⟩ := isNewAt_after_piece hfr1 hmem1 hco hnw
        obtain ⟨b1, b2⟩ := hnew o' ho'v hnw0
        rw [hm0, Nat.zero_add, Nat.one_mul] at b2
        apply hne
        rw [← hrdq]
        have e1 := Nat.div_add_mod o' D.info.clusterSize
        exact (Nat.div_eq_of_lt_le (by rw [hrdq, hrd]; exact b1)
          (by rw [hrdq, Nat.add_mul, Nat.one_mul, hrd]; exact b2))
      · have hcur' : cur = D.info.clusterSize - off % D.info.clusterSize := by omega
        obtain ⟨r1, r2, r3⟩ := round_add_rest (off := off) hcs
        rw [← hcur'] at r1 r2 r3
        rw [hrd] at r1 r3
        have st1 := hfr1.static st
        have mo1 := hfr1.mapOK mo
        have hent1 : Entries D1 ((off + cur) / D.info.clusterSize * D.info.clusterSize) m' es' := by
          rw [r1]; exact hent'.keeps hfr1.keeps
        have hnew1 : NewIn D1 ((off + cur) / D.info.clusterSize * D.info.clusterSize)
            ((off + cur) / D.info.clusterSize * D.info.clusterSize + m' * D.info.clusterSize) := by
          rw [r1]
          intro o' ho'v hnw
          rw [hfr1.info] at ho'v
          obtain ⟨hnw0, hne⟩ := isNewAt_after_piece hfr1 hmem1 hco hnw
          obtain ⟨b1, b2⟩ := hnew o' ho'v hnw0
          rw [Nat.add_mul, Nat.one_mul] at b2
          refine ⟨?_, by omega⟩
          apply Classical.byContradiction
          intro hc
          apply hne
          rw [← hrdq]
          exact (Nat.div_eq_of_lt_le (by rw [hrdq, hrd]; exact b1)
            (by rw [hrdq, Nat.add_mul, Nat.one_mul, hrd]; omega))
        rw [Nat.add_mul, Nat.one_mul] at hfuel htight hup
        obtain ⟨D2, hw2, hfr2, hr2, hn2⟩ := ih (off + cur) (len - cur) m' (toks.drop (cur / 512)) es' D1
          (f.write off (toks.take (cur / 512))) hfr1.info st1 mo1 hr1 (by omega) (by omega) hrest (by omega)
          (by rw [List.length_drop]; omega) (by omega) (by omega) (by omega)
          hent1 hnew1
        exact ⟨D2, doWrites_cons_ok hw1 hw2, hfr1.trans hfr2, hr2, hn2⟩

end Qv.Model.RW
