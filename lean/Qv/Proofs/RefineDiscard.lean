import Qv.Props.C01Refine
import Qv.Proofs.AcctHist
/-
Helper lemmas for `Qv/Props/C01RefineMore.lean`, part D (discard): the refinement step of
the device model against the flat reference disk for `discard`.

1. the ownership link between the model and the flat disk (`OwnLink`, `RefinesO`);
2. entry facts: a data-file mapping has an allocation, and (without zero-flagged
   preallocation, `NoPre`) an allocation is a data-file mapping;
3. the invariant of the cluster loop of `discard` relative to the state before the call
   (`DInv`), one `discardOne` (`discardOne_dinv`), the loop (`discardAll_dinv`), the
   prologue (`discard_dinv`);
4. what the exact accounting (`WInv`, C03Write) gives for the refcounts `WF` asks for.
-/
namespace Qv.Proofs.RefineDiscard
open Qv Qv.Codec Qv.Model
open Qv.Props.C15 (Geom)
open Qv.Props.C11 (L1Distinct Discarded Whole)
open Qv.Props.C01Refine (WF)
open Qv.Spec (Flat)

/-! ## 1. the ownership link -/

/-- guest cluster `g` (inside the virtual disk) is owned on the flat disk iff the device
    maps it to the data file (standard cluster; zero-flagged, unallocated: not owned) -/
def OwnLink (d : Dev) (f : Flat) : Prop :=
  ∀ g, g * d.info.clusterSize < d.info.vsize →
    (f.own.get g = true ↔ (d.mapping (g * d.info.clusterSize)).source = .dataFile)

/-- refinement with ownership: the device shows the sectors of `f`, `f` has the geometry
    of the device, and `f.own` is exactly "mapped to the data file" -/
structure RefinesO (d : Dev) (f : Flat) : Prop where
  sec : Refines d f
  vsize : f.vsize = d.info.vsize
  cs : f.cs = d.info.clusterSize
  own : OwnLink d f

/-! ## 2. entries -/

theorem compressedRange_none_iff (cb : Nat) (e : E64) :
    L2.compressedRange cb e = none ↔ L2.isCompressed e = false := by
  unfold L2.compressedRange
  cases h : L2.isCompressed e <;> simp

/-- a data-file mapping comes from an uncompressed entry without zero flag and with a host
    offset; its allocation is that one cluster -/
theorem dataFile_entry {cb : Nat} {hb : Bool} {g : Nat} {e : E64}
    (h : (L2.intoMapping cb hb g e).source = .dataFile) :
    L2.isCompressed e = false ∧ L2.isZero e = false ∧ L2.clusterOffset e ≠ 0#64 ∧
    (L2.intoMapping cb hb g e).clusterOffset = some (L2.clusterOffset e).toNat ∧
    L2.allocation cb e = some ((L2.clusterOffset e).toNat, 1) := by
  cases hc : L2.isCompressed e with
  | true =>
    exfalso
    unfold L2.intoMapping L2.compressedRange at h
    rw [hc] at h
    simp at h
  | false =>
    have hcr := L2.compressedRange_of_not_compressed cb e hc
    cases hz : L2.isZero e with
    | true =>
      rw [L2.intoMapping_zeroflag cb hb g e hc hz] at h
      cases h
    | false =>
      by_cases hne : L2.clusterOffset e = 0#64
      · exfalso
        unfold L2.intoMapping at h
        rw [hcr] at h
        simp only [hz, hne, Bool.false_eq_true, if_false, if_true] at h
        split at h <;> cases h
      · refine ⟨rfl, rfl, hne, ?_, ?_⟩
        · rw [L2.intoMapping_plain cb hb g e hc hz hne]
        · rw [L2.allocation_of_not_compressed cb e hc, if_neg hne]

theorem mapping_dataFile_entry {d : Dev} {o : Nat} (h : (d.mapping o).source = .dataFile) :
    L2.isCompressed (d.l2Entry o) = false ∧ L2.isZero (d.l2Entry o) = false ∧
    (d.mapping o).clusterOffset = some (L2.clusterOffset (d.l2Entry o)).toNat ∧
    L2.allocation d.info.cb (d.l2Entry o) = some ((L2.clusterOffset (d.l2Entry o)).toNat, 1) := by
  obtain ⟨a, b, _, c, e⟩ := dataFile_entry (cb := d.info.cb) (hb := d.info.hasBack)
    (g := Split.clusterOffset d.info (d.info.clusterRoundDown o)) (e := d.l2Entry o) h
  exact ⟨a, b, c, e⟩

/-- without zero-flagged preallocation (`NoPre`), an uncompressed entry with an allocation
    is a standard data-file cluster at that host offset -/
theorem alloc_dataFile {d : Dev} {o host cnt : Nat} (hnp : NoPre d o)
    (hc : L2.isCompressed (d.l2Entry o) = false)
    (ha : L2.allocation d.info.cb (d.l2Entry o) = some (host, cnt)) :
    (d.mapping o).source = .dataFile ∧ (d.mapping o).clusterOffset = some host ∧ cnt = 1 := by
  obtain ⟨a1, a2, _⟩ := L2.allocation_uncompressed hc ha
  cases hp : L2.plainOffset (d.mapping o) 0 with
  | none => rw [hnp hp] at ha; cases ha
  | some x =>
    obtain ⟨hs, _, _⟩ := plainOffset_some hp
    obtain ⟨_, _, hco, _⟩ := mapping_dataFile_entry hs
    exact ⟨hs, by rw [hco, a2], a1⟩

theorem mapping_zero_entry {d : Dev} {o : Nat} (hb : d.info.hasBack = false) (h : d.l2Entry o = 0#64) :
    (d.mapping o).source = .unallocated := by
  unfold Dev.mapping
  rw [h, hb, intoMapping_zero_entry]

theorem l1Distinct_congr {d d' : Dev} (hi : d'.info = d.info) (h1 : d'.l1 = d.l1) (hl : d'.l1Len = d.l1Len)
    (h : L1Distinct d) : L1Distinct d' := by
  have he := RW.l1Entry_congr_fields hi h1 hl
  intro a b hne ha hb
  rw [hi] at hne
  rw [he] at ha hb ⊢
  rw [he]
  exact h a b hne ha hb

/-! ## 3. the cluster loop of `discard` -/

/-- the state `d` reached inside a `discard` that started in `d0`, after the guest
    clusters `V` were visited: the entries of visited data-file clusters are cleared, every
    other entry is the one of `d0`; the data plane changed inside the host clusters of the
    cleared entries only; no new-cluster mark was added -/
structure DInv (d0 d : Dev) (V : Nat → Prop) : Prop where
  info : d.info = d0.info
  l1 : d.l1 = d0.l1
  l1Len : d.l1Len = d0.l1Len
  entV : ∀ o, o < d0.info.vsize → V (o / d0.info.clusterSize) → (d0.mapping o).source = .dataFile →
    d.l2Entry o = 0#64
  entK : ∀ o, o < d0.info.vsize → ¬ (V (o / d0.info.clusterSize) ∧ (d0.mapping o).source = .dataFile) →
    d.l2Entry o = d0.l2Entry o
  data : ∀ σ, d.data.get σ = d0.data.get σ ∨
    ∃ o h, o < d0.info.vsize ∧ V (o / d0.info.clusterSize) ∧ (d0.mapping o).source = .dataFile ∧
      (d0.mapping o).clusterOffset = some h ∧ h / 512 ≤ σ ∧ σ < h / 512 + d0.spc
  newData : ∀ c, c ∈ d.newData → c ∈ d0.newData

theorem DInv.refl (d : Dev) : DInv d d (fun _ => False) :=
  ⟨rfl, rfl, rfl, fun _ _ h => absurd h id, fun _ _ _ => rfl, fun _ => Or.inl rfl, fun _ h => h⟩

theorem DInv.congr {d0 d : Dev} {V V' : Nat → Prop} (h : ∀ c, V c ↔ V' c) (i : DInv d0 d V) :
    DInv d0 d V' := by
  refine ⟨i.info, i.l1, i.l1Len, ?_, ?_, ?_, i.newData⟩
  · intro o ho hv hs; exact i.entV o ho ((h _).2 hv) hs
  · intro o ho hn; exact i.entK o ho (fun x => hn ⟨(h _).1 x.1, x.2⟩)
  · intro σ
    rcases i.data σ with e | ⟨o, h', a, b, c⟩
    · exact Or.inl e
    · exact Or.inr ⟨o, h', a, (h _).1 b, c⟩

theorem DInv.l1Entry {d0 d : Dev} {V : Nat → Prop} (i : DInv d0 d V) (o : Nat) :
    d.l1Entry o = d0.l1Entry o := RW.l1Entry_congr_fields i.info i.l1 i.l1Len o

/-- a cluster that is data-file mapped in `d` was so in `d0`, with the same mapping, and
    has not been cleared -/
theorem DInv.dataFile {d0 d : Dev} {V : Nat → Prop} (i : DInv d0 d V) (hb : d0.info.hasBack = false)
    {o : Nat} (ho : o < d0.info.vsize) (h : (d.mapping o).source = .dataFile) :
    d.mapping o = d0.mapping o ∧ d.l2Entry o = d0.l2Entry o ∧
      ¬ (V (o / d0.info.clusterSize) ∧ (d0.mapping o).source = .dataFile) := by
  by_cases hc : V (o / d0.info.clusterSize) ∧ (d0.mapping o).source = .dataFile
  · have := mapping_zero_entry (d := d) (by rw [i.info]; exact hb) (i.entV o ho hc.1 hc.2)
    rw [this] at h
    cases h
  · exact ⟨RW.mapping_of_l2Entry i.info (i.entK o ho hc), i.entK o ho hc, hc⟩

/-- **one `__discard_one_cluster`** inside the loop: the invariant holds with the cluster
    of `g` added to the visited ones.  `g` need not be aligned. -/
theorem discardOne_dinv {d0 d d' : Dev} {V : Nat → Prop} {g : Nat} (wf : WF d0) (pv : PlainView d0)
    (inv : DInv d0 d V) (hg : g < d0.info.vsize) (h : discardOne g d = (d', .ok ())) :
    DInv d0 d' (fun c => V c ∨ c = g / d0.info.clusterSize) := by
  have hcs := cs_pos d0.info
  have hnb := wf.st.noBackName
  have hcongr : ∀ {o}, o / d0.info.clusterSize = g / d0.info.clusterSize → d.l2Entry o = d.l2Entry g := by
    intro o ho
    apply l2Entry_congr
    rw [inv.info]; exact ho
  by_cases hn : L1.isZero (d.l1Entry g) = true ∨ L2.isCompressed (d.l2Entry g) = true ∨
      L2.allocation d.info.cb (d.l2Entry g) = none
  · -- nothing to release
    rw [discardOne_noop g d hn] at h
    simp only [Prod.mk.injEq, and_true] at h
    subst h
    refine ⟨inv.info, inv.l1, inv.l1Len, ?_, ?_, ?_, inv.newData⟩
    · intro o ho hv hs
      rcases hv with hv | hv
      · exact inv.entV o ho hv hs
      · by_cases hvg : V (o / d0.info.clusterSize)
        · exact inv.entV o ho hvg hs
        · exfalso
          have e1 : d.l2Entry o = d0.l2Entry o := inv.entK o ho (fun x => hvg x.1)
          obtain ⟨c1, _, _, c4⟩ := mapping_dataFile_entry hs
          have hl1 := l1_nonzero_of_allocation c4
          rw [← inv.l1Entry] at hl1
          have hl1g : d.l1Entry g = d.l1Entry o := by
            unfold Dev.l1Entry
            rw [l1Index_eq_of_cluster (i := d.info) (a := g) (b := o) (by rw [inv.info]; exact hv.symm)]
          rcases hn with hn | hn | hn
          · rw [hl1g, hl1] at hn; cases hn
          · rw [← hcongr hv, e1, c1] at hn; cases hn
          · rw [← hcongr hv, e1, inv.info, c4] at hn; cases hn
    · intro o ho hc
      exact inv.entK o ho (fun x => hc ⟨Or.inl x.1, x.2⟩)
    · intro σ
      rcases inv.data σ with e | ⟨o, h', a, b, c⟩
      · exact Or.inl e
      · exact Or.inr ⟨o, h', a, Or.inl b, c⟩
  · -- the cluster has an allocation
    have hc : L2.isCompressed (d.l2Entry g) = false := by
      cases hx : L2.isCompressed (d.l2Entry g) with
      | false => rfl
      | true => exact absurd (Or.inr (Or.inl hx)) hn
    cases ha : L2.allocation d.info.cb (d.l2Entry g) with
    | none => exact absurd (Or.inr (Or.inr ha)) hn
    | some x =>
      obtain ⟨host, cnt⟩ := x
      -- the entry of `g` is still the one of `d0`, a data-file mapping at `host`
      have hnv : ¬ (V (g / d0.info.clusterSize) ∧ (d0.mapping g).source = .dataFile) := by
        intro x
        rw [inv.entV g hg x.1 x.2, L2.allocation_zero] at ha
        cases ha
      have heg : d.l2Entry g = d0.l2Entry g := inv.entK g hg hnv
      rw [heg, inv.info] at ha
      rw [heg] at hc
      obtain ⟨hsg, hcog, hcnt⟩ := alloc_dataFile (pv g).1 hc ha
      subst hcnt
      have hvg : ¬ V (g / d0.info.clusterSize) := fun x => hnv ⟨x, hsg⟩
      rw [← heg] at hc
      rw [← heg, ← inv.info] at ha
      have hd := Qv.Props.C11.discardOne_plain_spec g d d' host 1 (by rw [inv.info]; exact hnb) hc ha h
      have hdist : L1Distinct d := l1Distinct_congr inv.info inv.l1 inv.l1Len wf.tab.distinct
      obtain ⟨f1, _, f3, f4, _, _, _, _⟩ := hd.frame
      have hfr : ∀ o, o / d0.info.clusterSize ≠ g / d0.info.clusterSize → d'.l2Entry o = d.l2Entry o := by
        intro o ho
        apply Qv.Props.C11.discardOne_l2_frame hd hdist
        apply RW.index_ne_of_cluster_ne
        rw [inv.info]; exact ho
      have hsame : ∀ o, o / d0.info.clusterSize = g / d0.info.clusterSize → d'.l2Entry o = 0#64 := by
        intro o ho
        rw [← hd.entry]
        apply l2Entry_congr
        rw [f1, inv.info]; exact ho
      refine ⟨f1.trans inv.info, f3.trans inv.l1, f4.trans inv.l1Len, ?_, ?_, ?_, ?_⟩
      · intro o ho hv hs
        by_cases hog : o / d0.info.clusterSize = g / d0.info.clusterSize
        · exact hsame o hog
        · rw [hfr o hog]
          rcases hv with hv | hv
          · exact inv.entV o ho hv hs
          · exact absurd hv hog
      · intro o ho hcn
        by_cases hog : o / d0.info.clusterSize = g / d0.info.clusterSize
        · exfalso
          apply hcn
          refine ⟨Or.inr hog, ?_⟩
          rw [mapping_congr d0 hog]; exact hsg
        · rw [hfr o hog]
          exact inv.entK o ho (fun x => hcn ⟨Or.inl x.1, x.2⟩)
      · intro σ
        have hspc : d.spc = d0.spc := by unfold Dev.spc; rw [inv.info]
        by_cases hin : host / 512 ≤ σ ∧ σ < host / 512 + 1 * d.spc
        · right
          exact ⟨g, host, hg, Or.inr rfl, hsg, hcog, hin.1, by rw [← hspc]; omega⟩
        · rw [hd.data_frame σ hin]
          rcases inv.data σ with e | ⟨o, h', a, b, c⟩
          · exact Or.inl e
          · exact Or.inr ⟨o, h', a, Or.inl b, c⟩
      · intro c hcm
        rw [hd.newData] at hcm
        exact inv.newData c (List.mem_filter.1 hcm).1

/-- **the cluster loop**: after `discardOne` over the guest offsets `gs` (all inside the
    virtual disk) the invariant holds with their clusters added to the visited ones -/
theorem discardAll_dinv {d0 : Dev} (wf : WF d0) (pv : PlainView d0) :
    ∀ (gs : List Nat) (d d' : Dev) (V : Nat → Prop), DInv d0 d V → (∀ g ∈ gs, g < d0.info.vsize) →
      discardAll gs d = (d', .ok ()) →
      DInv d0 d' (fun c => V c ∨ ∃ g ∈ gs, c = g / d0.info.clusterSize) := by
  intro gs
  induction gs with
  | nil =>
    intro d d' V inv _ h
    simp only [discardAll, M.pure, Prod.mk.injEq, and_true] at h
    subst h
    exact inv.congr (fun c => ⟨Or.inl, fun x => x.elim id (fun ⟨_, hm, _⟩ => by cases hm)⟩)
  | cons g gs ih =>
    intro d d' V inv hgs h
    rw [discardAll_cons] at h
    generalize h1 : discardOne g d = r1 at h
    obtain ⟨d1, (_ | e | p)⟩ := r1
    · dsimp only at h
      have i1 := discardOne_dinv wf pv inv (hgs g List.mem_cons_self) h1
      have i2 := ih d1 d' _ i1 (fun x hx => hgs x (List.mem_cons_of_mem _ hx)) h
      refine i2.congr (fun c => ⟨?_, ?_⟩)
      · rintro ((hv | hc) | ⟨x, hx, hc⟩)
        · exact Or.inl hv
        · exact Or.inr ⟨g, List.mem_cons_self, hc⟩
        · exact Or.inr ⟨x, List.mem_cons_of_mem _ hx, hc⟩
      · rintro (hv | ⟨x, hx, hc⟩)
        · exact Or.inl (Or.inl hv)
        · rcases List.mem_cons.1 hx with rfl | hx
          · exact Or.inl (Or.inr hc)
          · exact Or.inr ⟨x, hx, hc⟩
    · simp at h
    · simp at h

/-- the whole clusters of the clipped range of `discard off len` on a disk of `vsize` bytes
    with clusters of `cs` bytes (`Qv.Props.C11.Whole` without the flat disk) -/
def WholeM (vsize cs off len g : Nat) : Prop :=
  len ≠ 0 ∧ (off + cs - 1) / cs ≤ g ∧ g < min (min (off + len) (2^64 - 1)) vsize / cs

theorem whole_iff (f : Flat) (off len g : Nat) : Whole f off len g ↔ WholeM f.vsize f.cs off len g := Iff.rfl

/-- the prologue of `discard` selects exactly the whole clusters of the clipped range -/
theorem discardRange_spec (i : Info) (off len : Nat) :
    (discardRange i off len = .ok none → ∀ g, ¬ WholeM i.vsize i.clusterSize off len g) ∧
    (∀ start stop, discardRange i off len = .ok (some (start, stop)) →
      len ≠ 0 ∧ start = (off + i.clusterSize - 1) / i.clusterSize * i.clusterSize ∧
      stop = min (min (off + len) (2^64 - 1)) i.vsize / i.clusterSize * i.clusterSize ∧ start < stop) := by
  have hcs := cs_pos i
  unfold discardRange clipEnd Info.clusterRoundUp Info.clusterRoundDown WholeM
  dsimp only
  generalize min (min (off + len) (2^64 - 1)) i.vsize = e
  have e1 : off + (i.clusterSize - 1) = off + i.clusterSize - 1 := by omega
  rw [e1]
  by_cases hl : len = 0
  · rw [if_pos hl]
    exact ⟨fun _ g x => x.1 hl, fun _ _ h => by cases h⟩
  · rw [if_neg hl]
    by_cases h1 : off ≥ e
    · rw [if_pos h1]
      refine ⟨fun _ g x => ?_, fun _ _ h => by cases h⟩
      have a := Nat.div_le_div_right (c := i.clusterSize) h1
      have b : off / i.clusterSize ≤ (off + i.clusterSize - 1) / i.clusterSize :=
        Nat.div_le_div_right (by omega)
      omega
    · rw [if_neg h1]
      by_cases h2 : off + i.clusterSize - 1 < 2^64
      · rw [if_pos h2]
        dsimp only
        by_cases h3 : (off + i.clusterSize - 1) / i.clusterSize * i.clusterSize ≥ e / i.clusterSize * i.clusterSize
        · rw [if_pos h3]
          refine ⟨fun _ g x => ?_, fun _ _ h => by cases h⟩
          have := Nat.le_of_mul_le_mul_right h3 hcs
          omega
        · rw [if_neg h3]
          refine ⟨fun h => (by cases h), fun start stop h => ?_⟩
          simp only [Outcome.ok.injEq, Option.some.injEq, Prod.mk.injEq] at h
          obtain ⟨rfl, rfl⟩ := h
          exact ⟨hl, rfl, rfl, by omega⟩
      · rw [if_neg h2]
        exact ⟨fun h => (by simp at h), fun _ _ h => (by simp at h)⟩

/-- **`discard`, entries and data plane.**  A successful `discard off len` on a
    well-formed device without zero-flagged preallocation: the entries of the data-file
    mapped whole clusters of the clipped range are cleared (`0`, unallocated), every other
    entry inside the virtual disk is unchanged; the data plane changed only inside the
    host clusters that were released. -/
theorem discard_dinv {d d' : Dev} {off len : Nat} (wf : WF d) (pv : PlainView d)
    (h : Model.discard off len d = (d', .ok ())) :
    DInv d d' (WholeM d.info.vsize d.info.clusterSize off len) := by
  have hcs := cs_pos d.info
  obtain ⟨sn, ss⟩ := discardRange_spec d.info off len
  cases hro : d.info.readOnly with
  | true => rw [Qv.Props.C11.discard_ro d off len hro] at h; cases h
  | false =>
    cases hr : discardRange d.info off len with
    | panic p => unfold Model.discard at h; simp [hro, hr] at h
    | err x => unfold Model.discard at h; simp [hro, hr] at h
    | ok r =>
      cases r with
      | none =>
        unfold Model.discard at h
        simp only [hro, hr, Bool.false_eq_true, if_false, Prod.mk.injEq, and_true] at h
        subst h
        exact (DInv.refl d).congr (fun c => ⟨fun x => absurd x id, fun x => sn hr c x⟩)
      | some x =>
        obtain ⟨start, stop⟩ := x
        obtain ⟨hl, hstart, hstop, hlt⟩ := ss start stop hr
        obtain ⟨_, _, hsv, _, _, _⟩ := Qv.Props.C13.discard_range_inside d.info off len start stop hr hcs
        rw [Qv.Props.C11.discard_visits d off len start stop hro hr] at h
        generalize hA : (off + d.info.clusterSize - 1) / d.info.clusterSize = A at hstart
        generalize hB : min (min (off + len) (2^64 - 1)) d.info.vsize / d.info.clusterSize = B at hstop
        subst hstart hstop
        have hAB : A < B := Nat.lt_of_mul_lt_mul_right hlt
        have hn : (B * d.info.clusterSize - A * d.info.clusterSize) / d.info.clusterSize = B - A := by
          rw [← Nat.sub_mul, Nat.mul_div_cancel _ hcs]
        rw [hn] at h
        have hin : ∀ g ∈ (List.range (B - A)).map (fun k => A * d.info.clusterSize + k * d.info.clusterSize),
            g < d.info.vsize := by
          intro g hg
          obtain ⟨k, hk, rfl⟩ := List.mem_map.1 hg
          have hk' := List.mem_range.1 hk
          have : (A + k + 1) * d.info.clusterSize ≤ B * d.info.clusterSize :=
            Nat.mul_le_mul_right _ (by omega)
          rw [Nat.add_mul, Nat.add_mul, Nat.one_mul] at this
          omega
        have inv := discardAll_dinv wf pv _ d d' _ (DInv.refl d) hin h
        refine inv.congr (fun c => ⟨?_, ?_⟩)
        · rintro (x | ⟨g, hg, hc⟩)
          · exact absurd x id
          · obtain ⟨k, hk, rfl⟩ := List.mem_map.1 hg
            have hk' := List.mem_range.1 hk
            rw [← Nat.add_mul, Nat.mul_div_cancel _ hcs] at hc
            unfold WholeM
            rw [hA, hB]
            exact ⟨hl, by omega, by omega⟩
        · intro x
          unfold WholeM at x
          rw [hA, hB] at x
          right
          refine ⟨A * d.info.clusterSize + (c - A) * d.info.clusterSize,
            List.mem_map.2 ⟨c - A, List.mem_range.2 (by omega), rfl⟩, ?_⟩
          rw [← Nat.add_mul, Nat.mul_div_cancel _ hcs]
          omega

/-! ## 4. refcounts from the exact accounting -/

/-- with exact accounting every L2 table reachable from the L1 table has a refcount -/
theorem winv_l2rc {d : Dev} (w : WInv d) (o : Nat) (h : L1.isZero (d.l1Entry o) = false) :
    1 ≤ d.rc.get ((L1.l2Offset (d.l1Entry o)).toNat / d.info.clusterSize) := by
  rw [w.acct]
  have hidx : Split.l1Index d.info o < d.hdrL1Entries := by
    apply Classical.byContradiction
    intro hc
    have := w.shape.l1tail (Split.l1Index d.info o) (by omega)
    rw [← d.l1Entry_eq, h] at this
    cases this
  have hle : pointsTo d.cs (L1.l2Offset (d.l1At (Split.l1Index d.info o))).toNat
      ((L1.l2Offset (d.l1Entry o)).toNat / d.info.clusterSize) ≤
      d.refsL2Tables ((L1.l2Offset (d.l1Entry o)).toNat / d.info.clusterSize) :=
    le_sumTo (n := d.hdrL1Entries)
      (f := fun i => pointsTo d.cs (L1.l2Offset (d.l1At i)).toNat
        ((L1.l2Offset (d.l1Entry o)).toNat / d.info.clusterSize)) hidx
  have hne : (L1.l2Offset (d.l1Entry o)).toNat ≠ 0 := by
    intro h0
    have : L1.l2Offset (d.l1Entry o) = 0#64 := BitVec.eq_of_toNat_eq (by rw [h0]; rfl)
    unfold L1.isZero at h
    simp [this] at h
  have hp : pointsTo d.cs (L1.l2Offset (d.l1Entry o)).toNat
      ((L1.l2Offset (d.l1Entry o)).toNat / d.info.clusterSize) = 1 := by
    unfold pointsTo
    rw [if_pos ⟨hne, rfl⟩]
  rw [← d.l1Entry_eq, hp] at hle
  unfold Dev.refs
  omega

/-- … and every data cluster mapped inside the virtual disk -/
theorem winv_datarc {d : Dev} (w : WInv d) {o h : Nat} (ho : o < d.info.vsize)
    (hs : (d.mapping o).source = .dataFile) (hco : (d.mapping o).clusterOffset = some h) :
    1 ≤ d.rc.get (h / d.info.clusterSize) := by
  obtain ⟨_, _, c3, c4⟩ := mapping_dataFile_entry hs
  rw [hco] at c3
  injection c3 with c3
  rw [← c3] at c4
  rw [w.acct]
  exact refs_ge_of_allocation w.shape.geo (w.shape.l1cov o ho) c4 ⟨Nat.le_refl _, by omega⟩

theorem winv_hdr {d : Dev} (w : WInv d) : d.rc.get 0 ≠ 0 := by
  rw [w.acct]
  unfold Dev.refs Dev.refsHeader
  rw [if_pos rfl]
  omega

/-! ## 5. the step -/

/-- the invariant of histories (exact accounting, no compressed cluster, no zero-flagged
    preallocation) survives a `discard`, whatever it returns -/
theorem discard_hinv {d : Dev} (wf : WF d) (hI : HInv d) (off len : Nat) :
    HInv (Model.discard off len d).1 := by
  obtain ⟨a1, _, _, _, _, a6, _, _⟩ := Qv.Props.C11.discard_frame d off len
  have hcap : Cap (hstep d (.discard off len)) := by
    show (Model.discard off len d).1.rtLen * (Model.discard off len d).1.info.rbEntries *
      (Model.discard off len d).1.info.clusterSize ≤ 2^56
    rw [a1, a6]; exact wf.st.rt56
  exact hstep_hinv hI (.discard off len) hcap

/-- **well-formedness after a discard.** -/
theorem discard_wf {d d' : Dev} {off len : Nat} (wf : WF d) (hI : HInv d)
    (h : Model.discard off len d = (d', .ok ())) : WF d' ∧ HInv d' := by
  have hI' : HInv d' := by have := discard_hinv wf hI off len; rw [h] at this; exact this
  have inv := discard_dinv wf hI.plain h
  obtain ⟨a1, _, _, a4, _, a6, a7, _⟩ := Qv.Props.C11.discard_frame d off len
  rw [h] at a1 a4 a6 a7
  dsimp only at a1 a4 a6 a7
  have hnb := wf.st.noBackName
  have w' := hI'.winv
  refine ⟨⟨wf.st.transfer a1 a7 a6 a4, ⟨l1Distinct_congr inv.info inv.l1 inv.l1Len wf.tab.distinct, winv_l2rc w'⟩,
    ⟨?_, ?_, winv_hdr w'⟩, ?_⟩, hI'⟩
  · -- entries
    intro o ho
    rw [a1] at ho
    by_cases hc : WholeM d.info.vsize d.info.clusterSize off len (o / d.info.clusterSize) ∧
        (d.mapping o).source = .dataFile
    · have hu := mapping_zero_entry (d := d') (by rw [a1]; exact hnb) (inv.entV o ho hc.1 hc.2)
      refine ⟨by rw [hu]; decide, fun h' hs _ => ?_⟩
      rw [hu] at hs; cases hs
    · have hm : d'.mapping o = d.mapping o := RW.mapping_of_l2Entry a1 (inv.entK o ho hc)
      refine ⟨by rw [hm]; exact (wf.map.ent o ho).1, fun h' hs hco => ?_⟩
      have hrc := winv_datarc w' (by rw [a1]; exact ho) hs hco
      rw [hm] at hs hco
      obtain ⟨x1, x2, _⟩ := (wf.map.ent o ho).2 h' hs hco
      rw [hm, a1]
      rw [a1] at hrc
      exact ⟨x1, x2, hrc⟩
  · -- injectivity
    intro a b ha hb hav hbv hne sa ca sb cb
    rw [a1] at hav hbv hne ⊢
    obtain ⟨ma, _, _⟩ := inv.dataFile hnb hav sa
    obtain ⟨mb, _, _⟩ := inv.dataFile hnb hbv sb
    rw [ma] at sa ca
    rw [mb] at sb cb
    exact wf.map.inj a b ha hb hav hbv hne sa ca sb cb
  · -- no mapped cluster is new
    intro o ho hn
    rw [a1] at ho
    obtain ⟨h', hs, hco, hmem⟩ := hn
    obtain ⟨m, _, _⟩ := inv.dataFile hnb ho hs
    rw [m] at hs hco
    rw [a1] at hmem
    exact wf.new o ho ⟨h', hs, hco, inv.newData _ hmem⟩

/-- sectors of one cluster: `s * 512 / cs = s / (cs / 512)` -/
theorem sector_cluster {cs spc : Nat} (h : cs = 512 * spc) (s : Nat) : s * 512 / cs = s / spc := by
  subst h
  rw [Nat.mul_comm 512 spc]
  by_cases h0 : spc = 0
  · subst h0; simp
  · exact Nat.mul_div_mul_right s spc (by decide)

/-- **the refinement step for `discard`.** -/
theorem discard_refinesO {d d' : Dev} {f : Flat} {off len : Nat} (wf : WF d) (hI : HInv d)
    (hr : RefinesO d f) (h : Model.discard off len d = (d', .ok ())) :
    RefinesO d' (f.discard off len) := by
  have inv := discard_dinv wf hI.plain h
  obtain ⟨a1, _, _, _, _, _, a7, _⟩ := Qv.Props.C11.discard_frame d off len
  rw [h] at a1 a7
  dsimp only at a1 a7
  have hnb := wf.st.noBackName
  have hcs := cs_pos d.info
  have hspc := RW.cs512 wf.st
  have hspcpos : 0 < d.spc := by
    apply Nat.pos_of_ne_zero; intro h0; rw [h0] at hspc; omega
  have hfspc : f.secPerCl = d.spc := by unfold Flat.secPerCl Dev.spc; rw [hr.cs]
  have hfpos : 0 < f.secPerCl := by rw [hfspc]; exact hspcpos
  obtain ⟨hcs', hvs'⟩ := Qv.Props.C11.flat_discard_cs f off len hfpos
  have hW : ∀ g, Whole f off len g ↔ WholeM d.info.vsize d.info.clusterSize off len g := by
    intro g; rw [whole_iff, hr.vsize, hr.cs]
  refine ⟨?_, by rw [hvs', hr.vsize, a1], by rw [hcs', hr.cs, a1], ?_⟩
  · -- sectors
    intro s hs
    rw [a1] at hs
    have hlt : s * 512 < d.info.vsize := by omega
    have hcl : s * 512 / d.info.clusterSize = s / d.spc := sector_cluster hspc s
    have hclv : s / d.spc * d.info.clusterSize < d.info.vsize := by
      have := Nat.div_mul_le_self (s * 512) d.info.clusterSize
      rw [hcl] at this; omega
    have hmc : d.mapping (s / d.spc * d.info.clusterSize) = d.mapping (s * 512) := by
      apply mapping_congr
      rw [Nat.mul_div_cancel _ hcs, hcl]
    rw [Qv.Props.C11.flat_discard_spec f off len s hfpos, hfspc]
    by_cases hc : WholeM d.info.vsize d.info.clusterSize off len (s / d.spc) ∧
        (d.mapping (s * 512)).source = .dataFile
    · rw [if_pos ⟨(hW _).2 hc.1, (hr.own _ hclv).2 (by rw [hmc]; exact hc.2)⟩]
      apply guestSec_unallocated
      apply mapping_zero_entry (by rw [a1]; exact hnb)
      exact inv.entV _ hlt (by rw [hcl]; exact hc.1) hc.2
    · rw [if_neg (fun x => hc ⟨(hW _).1 x.1, by have := (hr.own _ hclv).1 x.2; rw [hmc] at this; exact this⟩),
        ← hr.sec s (by omega)]
      have he : d'.l2Entry (s * 512) = d.l2Entry (s * 512) :=
        inv.entK _ hlt (by rw [hcl]; exact hc)
      have hm : d'.mapping (s * 512) = d.mapping (s * 512) := RW.mapping_of_l2Entry a1 he
      by_cases hsd : (d.mapping (s * 512)).source = .dataFile
      · obtain ⟨ho, hco⟩ := RW.mapping_dataFile_offset hsd
        rw [guestSec_dataFile d' s ho (by rw [hm]; exact hsd) (by rw [hm]; exact hco),
          guestSec_dataFile d s ho hsd hco, a1]
        rcases inv.data ((ho + s * 512 % d.info.clusterSize) / 512) with e | ⟨o, h2, ov, oV, os, oco, l1, l2⟩
        · exact e
        · exfalso
          have hnV : ¬ WholeM d.info.vsize d.info.clusterSize off len (s / d.spc) := fun x => hc ⟨x, hsd⟩
          have hne : o / d.info.clusterSize ≠ s * 512 / d.info.clusterSize := by
            intro e; rw [e, hcl] at oV; exact hnV oV
          obtain ⟨_, al1, _⟩ := (wf.map.ent o ov).2 h2 os oco
          obtain ⟨_, al2, _⟩ := (wf.map.ent _ hlt).2 ho hsd hco
          have hdis := wf.map.inj o (s * 512) h2 ho ov hlt hne os oco hsd hco
          have hm := Nat.mod_lt (s * 512) hcs
          have hq1 : h2 % 512 = 0 := mod512_of_mod_cs wf.st.cb9 al1
          have hq2 : ho % 512 = 0 := mod512_of_mod_cs wf.st.cb9 al2
          generalize s * 512 % d.info.clusterSize = r at l1 l2 hm
          omega
      · have hnc := (wf.map.ent _ hlt).1
        rw [RW.guestSec_nondata d s wf.st.noBack hsd hnc,
          RW.guestSec_nondata d' s (by rw [a7]; exact wf.st.noBack) (by rw [hm]; exact hsd)
            (by rw [hm]; exact hnc)]
  · -- ownership
    intro g hg
    rw [a1] at hg ⊢
    have hgc : g * d.info.clusterSize / d.info.clusterSize = g := Nat.mul_div_cancel _ hcs
    rw [Qv.Props.C11.flat_discard_own f off len g hfpos]
    by_cases hw : WholeM d.info.vsize d.info.clusterSize off len g
    · rw [if_pos ((hW g).2 hw)]
      constructor
      · intro x; cases x
      · intro hs
        exfalso
        obtain ⟨_, _, hn⟩ := inv.dataFile hnb hg hs
        obtain ⟨m, _, _⟩ := inv.dataFile hnb hg hs
        rw [m] at hs
        exact hn ⟨by rw [hgc]; exact hw, hs⟩
    · rw [if_neg (fun x => hw ((hW g).1 x)), hr.own g hg]
      have he := inv.entK _ hg (fun x => hw (by rw [hgc] at x; exact x.1))
      rw [RW.mapping_of_l2Entry a1 he]

end Qv.Proofs.RefineDiscard
