import Qv.Proofs.RefineFail
import Qv.Props.C02
/-
Helper lemmas for `Qv/Props/C01History.lean`, part 4: reopen.  `reopenDev d p`
(Qv/Model/Format.lean) recomputes `Info` from the header fields with the new parameters
(block size, cache geometry, read-only), re-sizes the RAM L1 table and resets the volatile
state (new-cluster list, allocation hint, flush flag).  For parameters with
`9 ≤ bsBits ≤ cluster_bits` the well-formedness of histories (`WFZ`) and the relation to the
flat disk (`RefinesZ`) are kept: every L2 entry and every mapping of the view is the same
(`reopen_l2Entry_all`; C02's `reopen_l2Entry` is about offsets inside the virtual disk), the
refcount accounting is the same, no cluster is marked new.
-/
namespace Qv.Model.RG
open Qv Qv.Codec Qv.Model Qv.Model.RW
open Qv.Props.C15 (Geom)
open Qv.Props.C11 (L1Distinct)
open Qv.Spec (Flat)
open Qv.Proofs.RefineDiscard

/-- facts about the header-derived geometry that no operation changes (`vsize`, `cluster_bits`,
    `refcount_order`, the header's `l1_size`): cluster bits ≤ 21, refcount order ≤ 6, the
    virtual size is within what the 32 MiB L1 limit maps, and the header's `l1_size` is at
    most `max_l1_entries` -/
structure Fixed (d : Dev) : Prop where
  cb21 : d.info.cb ≤ 21
  ro6 : d.info.ro ≤ 6
  l1cap : (d.info.vsize + 2^d.info.cb / 8 * 2^d.info.cb - 1) / (2^d.info.cb / 8 * 2^d.info.cb) ≤ 32 * 2^20 / 8
  hdrB : d.hdrL1Entries ≤ Info.maxL1EntriesOf d.info.vsize d.info.cb

theorem ramL1Len_ge (size cb bsb : Nat) : Info.maxL1EntriesOf size cb ≤ ramL1Len size cb bsb := by
  unfold ramL1Len Info.maxL1Size
  have := Arith16.alignUp_ge (Info.maxL1EntriesOf size cb * 8) (2^bsb) (Nat.two_pow_pos _)
  omega

/-- what the view of the reopened device is, relative to the device before -/
structure ReopenView (d d' : Dev) : Prop where
  cs : d'.info.clusterSize = d.info.clusterSize
  vsize : d'.info.vsize = d.info.vsize
  l1Index : ∀ o, Split.l1Index d'.info o = Split.l1Index d.info o
  l1low : ∀ i, i < d.hdrL1Entries → d'.l1At i = d.l1At i
  l1high : ∀ i, d.hdrL1Entries ≤ i → L1.isZero (d'.l1At i) = true
  l2 : ∀ o, d'.l2Entry o = d.l2Entry o
  mapping : ∀ o, d'.mapping o = d.mapping o

theorem reopen_view_all {d d' : Dev} {p : Params} (w : WInv d) (q : L1Q d) (fx : Fixed d)
    (h : reopenDev d p = .ok d') : ReopenView d d' := by
  have g := w.shape.geo
  obtain ⟨hl1, hl2, _, _, _, _, _, hcb, hvs, _, hhb⟩ := Qv.Props.C02.reopen_view d d' p h
  obtain ⟨_, _, hhdr, _, _, _, hlen, _⟩ := Qv.Props.C02.reopen_rest d d' p h
  have hcs : d'.info.clusterSize = d.info.clusterSize := by unfold Info.clusterSize; rw [hcb]
  have hidx : ∀ o, Split.l1Index d'.info o = Split.l1Index d.info o :=
    fun o => (Qv.Props.C02.reopen_split d d' p g h o).1
  have hL' : d.hdrL1Entries ≤ d'.l1Len := by
    rw [hlen]; exact Nat.le_trans fx.hdrB (ramL1Len_ge _ _ _)
  have hL : d.hdrL1Entries ≤ d.l1Len := w.shape.hdrLe
  have hlow : ∀ i, i < d.hdrL1Entries → d'.l1At i = d.l1At i := by
    intro i hi
    unfold Dev.l1At
    rw [if_pos (by omega), if_pos (by omega), hl1]
  have hhigh : ∀ i, d.hdrL1Entries ≤ i → L1.isZero (d'.l1At i) = true := by
    intro i hi
    unfold Dev.l1At
    split
    · rw [hl1]
      by_cases hiL : i < d.l1Len
      · have := w.shape.l1tail i hi
        unfold Dev.l1At at this
        rw [if_pos hiL] at this
        exact this
      · exact q.2 i (by omega)
    · exact l1_isZero_zero
  have hl2e : ∀ o, d'.l2Entry o = d.l2Entry o := by
    intro o
    obtain ⟨_, e2, _⟩ := Qv.Props.C02.reopen_split d d' p g h o
    unfold Dev.l2Entry
    dsimp only
    rw [d'.l1Entry_eq, d.l1Entry_eq, hidx o, e2, hl2]
    by_cases hi : Split.l1Index d.info o < d.hdrL1Entries
    · rw [hlow _ hi]
    · rw [if_pos (hhigh _ (by omega)), if_pos (w.shape.l1tail _ (by omega))]
  refine ⟨hcs, hvs, hidx, hlow, hhigh, hl2e, ?_⟩
  intro o
  obtain ⟨_, _, e3⟩ := Qv.Props.C02.reopen_split d d' p g h (d.info.clusterRoundDown o)
  unfold Dev.mapping
  dsimp only
  have hrd : d'.info.clusterRoundDown o = d.info.clusterRoundDown o := by
    unfold Info.clusterRoundDown; rw [hcs]
  rw [hl2e, hcb, hhb, hrd, e3]

theorem pow_two_inj {a b : Nat} (h : 2^a = 2^b) : a = b :=
  Nat.le_antisymm (Arith.pow_le_of_two_pow_le (Nat.le_of_eq h)) (Arith.pow_le_of_two_pow_le (Nat.le_of_eq h.symm))

/-- the accounting invariant survives a reopen -/
theorem reopen_winv {d d' : Dev} {p : Params} (w : WInv d) (q : L1Q d) (fx : Fixed d)
    (hp3 : 3 ≤ p.bsBits) (h : reopenDev d p = .ok d') : WInv d' := by
  have g := w.shape.geo
  have rv := reopen_view_all w q fx h
  obtain ⟨hl1, hl2, hrt, hrc, _, _, _, hcb, hvs, hro, hhb⟩ := Qv.Props.C02.reopen_view d d' p h
  obtain ⟨_, hL1Off, hhdr, hRtOff, hRtCl, hrtLen, hlen, hl1hdr, _⟩ := Qv.Props.C02.reopen_rest d d' p h
  have g' : Geom d'.info := Qv.Props.C02.reopen_geom d d' p h w.shape.cb9 fx.cb21 fx.ro6 hp3
  obtain ⟨info, hn, hd'⟩ := reopenDev_ok h
  have hinfo : d'.info = info := by rw [hd']
  obtain ⟨_, _, _, _, _, hslice, _⟩ :=
    Qv.Props.C15.info_geometry_of_params hn (by exact w.shape.cb9) (by exact fx.cb21) (by exact fx.ro6) hp3
  have hcs := rv.cs
  have hcs' : d'.cs = d.cs := hcs
  have hrbE : d'.info.rbEntries = d.info.rbEntries := by
    unfold Info.rbEntries; rw [hcs, hro]
  have hl2E : d'.info.l2Entries = d.info.l2Entries := by
    unfold Info.l2Entries; rw [hcs]
  have hshift : d'.info.rbIndexShift = d.info.rbIndexShift :=
    pow_two_inj (by rw [g'.rbIndexShift_eq, g.rbIndexShift_eq, hrbE])
  have hrtIdx : ∀ x, Host.rtIndex d'.info x = Host.rtIndex d.info x := by
    intro x; unfold Host.rtIndex; rw [hshift, hcb]
  have hL' : d.hdrL1Entries ≤ d'.l1Len := by
    rw [hlen]; exact Nat.le_trans fx.hdrB (ramL1Len_ge _ _ _)
  have hent : ∀ o, Split.l1Index d.info o < d.hdrL1Entries → d'.l1Entry o = d.l1Entry o := by
    intro o hi
    rw [d'.l1Entry_eq, d.l1Entry_eq, rv.l1Index, rv.l1low _ hi]
  have hnz : ∀ o, L1.isZero (d'.l1Entry o) = false → Split.l1Index d.info o < d.hdrL1Entries := by
    intro o ho
    apply Classical.byContradiction
    intro hc
    have := rv.l1high (Split.l1Index d.info o) (by omega)
    rw [← rv.l1Index, ← d'.l1Entry_eq, ho] at this
    cases this
  refine ⟨⟨g', by rw [hcb]; exact w.shape.cb9, by rw [hinfo]; exact hslice, ?_, ?_, ?_, ?_, ?_, ?_⟩,
    ⟨?_, ?_, ?_⟩, ?_⟩
  · -- L1Distinct
    intro a b hne ha hb
    rw [rv.l1Index, rv.l1Index] at hne
    have ea := hent a (hnz a ha)
    have eb := hent b (hnz b hb)
    rw [ea] at ha ⊢
    rw [eb] at hb ⊢
    exact w.shape.l1d a b hne ha hb
  · intro i hi
    rw [hhdr] at hi
    exact rv.l1high i hi
  · rw [hl1hdr, hhdr]
  · rw [hhdr]; exact hL'
  · intro off ho
    rw [hvs] at ho
    rw [rv.l1Index, hhdr]
    exact w.shape.l1cov off ho
  · show d'.rtLen * d'.info.rbEntries * d'.info.clusterSize ≤ 2^56
    rw [hrtLen, hrbE, hcs]
    exact w.shape.cap56
  · -- RcDom
    intro c hz
    rw [hrc]
    apply w.dom.zero c
    unfold rtEntryAt at hz ⊢
    rw [hrtIdx, hrtLen, hrt, hcs] at hz
    exact hz
  · rw [hrtLen, hRtCl, hcs]; exact w.dom.sync
  · intro i hi
    rw [hrtLen] at hi
    rw [hrt]; exact w.dom.tail i hi
  · -- Acct
    intro c
    rw [hrc, w.acct c]
    unfold Dev.refs
    have e1 : d'.refsL1Table c = d.refsL1Table c := by
      unfold Dev.refsL1Table Dev.l1Clusters
      rw [hL1Off, hcs', hhdr]
    have e2 : d'.refsRtTable c = d.refsRtTable c := by
      unfold Dev.refsRtTable
      rw [hRtOff, hcs', hRtCl]
    have e3 : d'.refsRefblocks c = d.refsRefblocks c := by
      unfold Dev.refsRefblocks
      rw [hrtLen, hcs', hrt]
    have e4 : d'.refsL2Tables c = d.refsL2Tables c := by
      unfold Dev.refsL2Tables
      rw [hhdr, hcs']
      exact sumTo_congr (fun i hi => by rw [rv.l1low i hi])
    have e5 : d'.refsData c = d.refsData c := by
      unfold Dev.refsData
      rw [hhdr, hcs', hl2E, hcb, hl2]
      exact sumTo_congr (fun i hi => by rw [rv.l1low i hi])
    rw [e1, e2, e3, e4, e5]

/-- **reopen keeps the well-formedness of histories and the relation to the flat disk**,
    for parameters with `9 ≤ bsBits ≤ cluster_bits` (any cache geometry `Qcow2Info::new`
    accepts, read-only or not) -/
theorem reopen_g (d d' : Dev) (p : Params) (f : Flat) (wz : WFZ d) (fx : Fixed d) (hr : RefinesZ d f)
    (hp9 : 9 ≤ p.bsBits) (hpcb : p.bsBits ≤ d.info.cb) (h : reopenDev d p = .ok d') :
    WFZ d' ∧ Fixed d' ∧ RefinesZ d' f ∧ (Cap d' ↔ Cap d) := by
  have w := wz.hinv.winv
  have g := w.shape.geo
  have rv := reopen_view_all w wz.q fx h
  have w' := reopen_winv w wz.q fx (by omega) h
  obtain ⟨hl1, hl2, hrt, hrc, hdata, hcomp, hback, hcb, hvs, hro, hhb⟩ := Qv.Props.C02.reopen_view d d' p h
  obtain ⟨_, _, hhdr, _, _, hrtLen, hlen, hl1hdr, hnew, _, _, hbsb, _⟩ := Qv.Props.C02.reopen_rest d d' p h
  have hcs := rv.cs
  have hspc : d'.spc = d.spc := by unfold Dev.spc; rw [hcs]
  have hrbE : d'.info.rbEntries = d.info.rbEntries := by
    unfold Info.rbEntries; rw [hcs, hro]
  have hcap : Cap d' ↔ Cap d := by
    unfold Cap; rw [hrtLen, hrbE, hcs]
  have hL' : d.hdrL1Entries ≤ d'.l1Len := by
    rw [hlen]; exact Nat.le_trans fx.hdrB (ramL1Len_ge _ _ _)
  have hst : Static d' := by
    refine ⟨w'.shape.geo, by rw [hcb]; exact wz.st.cb9, by rw [hbsb]; exact hp9,
      by rw [hbsb, hcb]; exact hpcb, w'.shape.hsl, by rw [hhb]; exact wz.st.noBackName,
      by rw [hback]; exact wz.st.noBack, w'.shape.cap56, ?_⟩
    intro o ho
    have := w'.shape.l1cov o ho
    have := w'.shape.hdrLe
    omega
  have hpv : PlainView d' := by
    intro o
    obtain ⟨a, b⟩ := wz.hinv.plain o
    refine ⟨?_, by rw [rv.l2]; exact b⟩
    unfold NoPre
    rw [rv.mapping, rv.l2, hcb]
    exact a
  have hmo : MapOK d' := by
    refine ⟨?_, ?_, winv_hdr w'⟩
    · intro o ho
      rw [hvs] at ho
      obtain ⟨e1, e2⟩ := wz.map.ent o ho
      unfold EntOK
      rw [rv.mapping, hcs, hrc]
      exact ⟨e1, e2⟩
    · intro a b ha hb hav hbv hne sa ca sb cb
      rw [hvs] at hav hbv
      rw [hcs] at hne ⊢
      rw [rv.mapping] at sa ca sb cb
      exact wz.map.inj a b ha hb hav hbv hne sa ca sb cb
  have hz : ZInv d' := by
    intro σ hσ
    rw [hdata] at hσ
    obtain ⟨o, h', a1, a2, a3, a4, a5, _⟩ := wz.z σ hσ
    refine ⟨o, h', by rw [hvs]; exact a1, by rw [rv.mapping]; exact a2, by rw [rv.mapping]; exact a3,
      a4, by rw [hspc]; exact a5, ?_⟩
    rw [hnew]
    exact List.not_mem_nil
  have hq : L1Q d' := by
    refine ⟨by rw [hl1hdr]; exact hL', ?_⟩
    intro i hi
    rw [hl1]
    by_cases hiL : i < d.l1Len
    · have := w.shape.l1tail i (by omega)
      unfold Dev.l1At at this
      rw [if_pos hiL] at this
      exact this
    · exact wz.q.2 i (by omega)
  refine ⟨⟨hst, ⟨w'.shape.l1d, winv_l2rc w'⟩, hmo, ⟨w', hpv⟩, hz, hq⟩,
    ⟨by rw [hcb]; exact fx.cb21, by rw [hro]; exact fx.ro6, by rw [hvs, hcb]; exact fx.l1cap,
      by rw [hhdr, hvs, hcb]; exact fx.hdrB⟩,
    ⟨?_, by rw [hr.vsize, hvs], by rw [hr.cs, hcs], hr.ownz⟩, hcap⟩
  intro s hs
  rw [hvs] at hs
  rw [← hr.sec s hs]
  unfold guestSec
  rw [rv.l2, Qv.Props.C02.reopen_doRead d d' p g h]

end Qv.Model.RG
