import Qv.Model.FreeRange
import Qv.Model.Dev
import Qv.Props.C15
import Qv.Proofs.Grow
/-
Helper lemmas for C08 (cluster allocator): the free-window search of
`RefBlock::get_free_range` / `get_tail_free_range`, the slice-level allocation
functions of the device model, and fuel lemmas for the allocator loops.
-/
namespace Qv.Model
open Qv Qv.Codec
open Qv.Props.C15 (Geom)

/-! ## 1. free-window search -/

theorem firstUsed_none_iff (get : Nat → Nat) (i n : Nat) :
    firstUsed get i n = none ↔ ∀ j, i ≤ j → j < i + n → get j = 0 := by
  induction n generalizing i with
  | zero => simp [firstUsed]; intro j h1 h2; omega
  | succ n ih =>
    unfold firstUsed
    by_cases h : get i = 0
    · simp only [h, ne_eq, not_true_eq_false, ↓reduceIte]
      rw [ih]
      constructor
      · intro H j h1 h2
        by_cases hj : j = i
        · subst hj; exact h
        · exact H j (by omega) (by omega)
      · intro H j h1 h2; exact H j (by omega) (by omega)
    · simp only [ne_eq, h, not_false_eq_true, ↓reduceIte, reduceCtorEq, false_iff]
      intro H; exact h (H i (Nat.le_refl _) (by omega))

theorem firstUsed_some {get : Nat → Nat} {i n j : Nat} (h : firstUsed get i n = some j) :
    i ≤ j ∧ j < i + n ∧ get j ≠ 0 ∧ ∀ k, i ≤ k → k < j → get k = 0 := by
  induction n generalizing i with
  | zero => simp [firstUsed] at h
  | succ n ih =>
    unfold firstUsed at h
    by_cases h0 : get i = 0
    · simp only [h0, ne_eq, not_true_eq_false, ↓reduceIte] at h
      obtain ⟨a, b, c, e⟩ := ih h
      refine ⟨by omega, by omega, c, ?_⟩
      intro k hk1 hk2
      by_cases hk : k = i
      · subst hk; exact h0
      · exact e k (by omega) hk2
    · simp only [ne_eq, h0, not_false_eq_true, ↓reduceIte, Option.some.injEq] at h
      subst h
      exact ⟨Nat.le_refl _, by omega, h0, fun k a b => by omega⟩

theorem freeRangeLoop_sound {get : Nat → Nat} {ms count fuel i s e : Nat}
    (h : freeRangeLoop get ms count fuel i = some (s, e)) :
    e = s + count ∧ i ≤ s ∧ s ≤ ms ∧ ∀ j, s ≤ j → j < e → get j = 0 := by
  induction fuel generalizing i with
  | zero => simp [freeRangeLoop] at h
  | succ fuel ih =>
    unfold freeRangeLoop at h
    by_cases hi : i ≤ ms
    · simp only [hi, ↓reduceIte] at h
      cases hf : firstUsed get i count with
      | none =>
        simp only [hf, Option.some.injEq, Prod.mk.injEq] at h
        obtain ⟨rfl, rfl⟩ := h
        exact ⟨rfl, Nat.le_refl _, hi, (firstUsed_none_iff get i count).1 hf⟩
      | some j =>
        simp only [hf] at h
        obtain ⟨a, b, c, e'⟩ := ih h
        have := (firstUsed_some hf).1
        exact ⟨a, by omega, c, e'⟩
    · simp [hi] at h

/-- every candidate start skipped by the loop has a used entry in its window -/
theorem freeRangeLoop_first {get : Nat → Nat} {ms count fuel i s e : Nat}
    (h : freeRangeLoop get ms count fuel i = some (s, e)) :
    ∀ s', i ≤ s' → s' < s → ∃ j, s' ≤ j ∧ j < s' + count ∧ get j ≠ 0 := by
  induction fuel generalizing i with
  | zero => simp [freeRangeLoop] at h
  | succ fuel ih =>
    unfold freeRangeLoop at h
    by_cases hi : i ≤ ms
    · simp only [hi, ↓reduceIte] at h
      cases hf : firstUsed get i count with
      | none =>
        simp only [hf, Option.some.injEq, Prod.mk.injEq] at h
        obtain ⟨rfl, rfl⟩ := h
        intro s' h1 h2; omega
      | some j =>
        simp only [hf] at h
        obtain ⟨a, b, c, _⟩ := firstUsed_some hf
        intro s' h1 h2
        by_cases hs : s' ≤ j
        · exact ⟨j, hs, by omega, c⟩
        · exact ih h s' (by omega) h2
    · simp [hi] at h

/-- with enough fuel (`ms < i + fuel`), `none` means that no start in `[i, ms]`
    has an all-zero window -/
theorem freeRangeLoop_complete {get : Nat → Nat} {ms count fuel i : Nat}
    (hfuel : ms < i + fuel)
    (h : freeRangeLoop get ms count fuel i = none) :
    ∀ s, i ≤ s → s ≤ ms → ∃ j, s ≤ j ∧ j < s + count ∧ get j ≠ 0 := by
  induction fuel generalizing i with
  | zero => intro s h1 h2; omega
  | succ fuel ih =>
    unfold freeRangeLoop at h
    by_cases hi : i ≤ ms
    · simp only [hi, ↓reduceIte] at h
      cases hf : firstUsed get i count with
      | none => simp [hf] at h
      | some j =>
        simp only [hf] at h
        obtain ⟨a, b, c, _⟩ := firstUsed_some hf
        intro s h1 h2
        by_cases hs : s ≤ j
        · exact ⟨j, hs, by omega, c⟩
        · exact ih (by omega) h s (by omega) h2
    · intro s h1 h2; omega

theorem lastUsed_none_iff (get : Nat → Nat) (n : Nat) :
    lastUsed get n = none ↔ ∀ j, j < n → get j = 0 := by
  induction n with
  | zero => simp [lastUsed]
  | succ n ih =>
    unfold lastUsed
    by_cases h : get n = 0
    · simp only [h, ne_eq, not_true_eq_false, ↓reduceIte]
      rw [ih]
      constructor
      · intro H j hj
        by_cases hjn : j = n
        · subst hjn; exact h
        · exact H j (by omega)
      · intro H j hj; exact H j (by omega)
    · simp only [ne_eq, h, not_false_eq_true, ↓reduceIte, reduceCtorEq, false_iff]
      intro H; exact h (H n (by omega))

theorem lastUsed_some {get : Nat → Nat} {n i : Nat} (h : lastUsed get n = some i) :
    i < n ∧ get i ≠ 0 ∧ ∀ j, i < j → j < n → get j = 0 := by
  induction n with
  | zero => simp [lastUsed] at h
  | succ n ih =>
    unfold lastUsed at h
    by_cases h0 : get n = 0
    · simp only [h0, ne_eq, not_true_eq_false, ↓reduceIte] at h
      obtain ⟨a, b, c⟩ := ih h
      refine ⟨by omega, b, ?_⟩
      intro j h1 h2
      by_cases hj : j = n
      · subst hj; exact h0
      · exact c j h1 (by omega)
    · simp only [ne_eq, h0, not_false_eq_true, ↓reduceIte, Option.some.injEq] at h
      subst h
      exact ⟨by omega, h0, fun j a b => by omega⟩

/-! ## 2. slice-level allocation on the device model -/

theorem two_le_two_pow_two_pow (r : Nat) : 2 ≤ 2^(2^r) := by
  have h1 : 0 < 2^r := Nat.two_pow_pos r
  calc 2 = 2^1 := rfl
    _ ≤ 2^(2^r) := Nat.pow_le_pow_right (by decide) h1

/-- frame of `allocRange`, any outcome: only `rc` changes -/
theorem allocRange_frame (c0 s n : Nat) (d : Dev) :
    (allocRange c0 s n d).1 = { d with rc := (allocRange c0 s n d).1.rc } := by
  induction n generalizing s d with
  | zero => rfl
  | succ n ih =>
    unfold allocRange
    dsimp only
    split
    · rfl
    · rw [ih]

theorem allocRange_ok {c0 s n : Nat} {d d' : Dev} (h : allocRange c0 s n d = (d', .ok ())) :
    (∀ k, d'.rc.get k = if c0 + s ≤ k ∧ k < c0 + s + n then d.rc.get k + 1 else d.rc.get k) ∧
    d' = { d with rc := d'.rc } := by
  refine ⟨?_, ?_⟩
  · induction n generalizing s d with
    | zero =>
      simp only [allocRange, M.pure, Prod.mk.injEq] at h
      obtain ⟨rfl, _⟩ := h
      intro k; rw [if_neg (by omega)]
    | succ n ih =>
      unfold allocRange at h
      dsimp only at h
      split at h
      · simp at h
      · intro k
        rw [ih h k]
        dsimp only
        rw [FMap.get_set]
        by_cases hk : c0 + s = k
        · subst hk
          rw [if_neg (by omega), if_pos rfl, if_pos (by omega)]
        · rw [if_neg hk]
          by_cases hr : c0 + (s + 1) ≤ k ∧ k < c0 + (s + 1) + n
          · rw [if_pos hr, if_pos (by omega)]
          · rw [if_neg hr, if_neg (by omega)]
  · have := allocRange_frame c0 s n d
    rw [h] at this
    exact this

/-- `alloc_range` on an all-zero window never fails: 1 fits every refcount width -/
theorem allocRange_succeeds (c0 s n : Nat) (d : Dev)
    (hz : ∀ k, c0 + s ≤ k → k < c0 + s + n → d.rc.get k = 0) :
    ∃ d', allocRange c0 s n d = (d', .ok ()) := by
  induction n generalizing s d with
  | zero => exact ⟨d, rfl⟩
  | succ n ih =>
    unfold allocRange
    dsimp only
    have h0 : d.rc.get (c0 + s) = 0 := hz _ (Nat.le_refl _) (by omega)
    have h2 := two_le_two_pow_two_pow d.info.ro
    rw [if_neg (by rw [h0]; omega)]
    apply ih
    intro k h1 h2
    dsimp only
    rw [FMap.get_set_other _ _ _ _ (by omega)]
    exact hz k (by omega) (by omega)

theorem rbSliceHostStart_dvd (i : Info) (off : Nat) : 2^i.cb ∣ Host.rbSliceHostStart i off := by
  unfold Host.rbSliceHostStart
  rw [Nat.pow_add]
  exact Nat.dvd_trans (Nat.dvd_mul_right _ _) (Nat.dvd_mul_left _ _)

theorem clusterOffFromSlice_div (i : Info) (off s : Nat) :
    Host.clusterOffFromSlice i off s / i.clusterSize = Host.rbSliceHostStart i off / i.clusterSize + s := by
  unfold Host.clusterOffFromSlice Info.clusterSize
  exact Nat.add_mul_div_right _ _ (Nat.two_pow_pos _)

theorem clusterOffFromSlice_mod (i : Info) (off s : Nat) :
    Host.clusterOffFromSlice i off s % i.clusterSize = 0 := by
  unfold Host.clusterOffFromSlice Info.clusterSize
  rw [Nat.add_mul_mod_self_right]
  exact Nat.mod_eq_zero_of_dvd (rbSliceHostStart_dvd i off)

/-- first host cluster index of the refblock slice containing `off` -/
def sliceC0 (i : Info) (off : Nat) : Nat := Host.rbSliceHostStart i off / i.clusterSize

/-- Case analysis of `try_alloc_from_rb_slice`: either nothing happens, or a
    zero window `[s, e)` of the slice is incremented by `alloc_range` (which
    succeeds).  The function never fails and never panics. -/
theorem tryAlloc_cases (off count : Nat) (fixed : Bool) (d : Dev) :
    (tryAllocFromRbSlice off count fixed d = (d, .ok none) ∧
      (Host.rbSliceIndex d.info off + count ≤ d.info.rbSliceEntries →
        ∀ s, Host.rbSliceIndex d.info off ≤ s → s + count ≤ d.info.rbSliceEntries →
          ∃ j, s ≤ j ∧ j < s + count ∧ d.rc.get (sliceC0 d.info off + j) ≠ 0)) ∨
    ∃ s e d1,
      Host.rbSliceIndex d.info off + count ≤ d.info.rbSliceEntries ∧
      Host.rbSliceIndex d.info off ≤ s ∧ s ≤ e ∧ e ≤ d.info.rbSliceEntries ∧
      (1 ≤ count → s < e) ∧
      (e = s + count ∨ (fixed = false ∧ e = d.info.rbSliceEntries ∧ e - s < count ∧
          Host.rbSliceIndex d.info off < s)) ∧
      (∀ j, s ≤ j → j < e → d.rc.get (sliceC0 d.info off + j) = 0) ∧
      (∀ s', Host.rbSliceIndex d.info off ≤ s' → s' < s →
          ∃ j, s' ≤ j ∧ j < s' + count ∧ d.rc.get (sliceC0 d.info off + j) ≠ 0) ∧
      allocRange (sliceC0 d.info off) s (e - s) d = (d1, .ok ()) ∧
      tryAllocFromRbSlice off count fixed d =
        ({ d1 with needFlush := true }, .ok (some (Host.clusterOffFromSlice d.info off s, e - s))) := by
  unfold tryAllocFromRbSlice
  dsimp only
  split
  · exact Or.inl ⟨rfl, fun h => by omega⟩
  · rename_i hle
    have hle' : Host.rbSliceIndex d.info off + count ≤ d.info.rbSliceEntries := by omega
    generalize hget : (fun k => d.rc.get (Host.rbSliceHostStart d.info off / d.info.clusterSize + k)) = get
    have hgetj : ∀ j, d.rc.get (sliceC0 d.info off + j) = get j := by
      intro j; rw [← hget]; rfl
    cases hg : getFreeRange get d.info.rbSliceEntries (Host.rbSliceIndex d.info off) count with
    | panic p =>
      exfalso
      unfold getFreeRange at hg
      rw [if_pos hle'] at hg
      cases hg
    | err x =>
      exfalso
      unfold getFreeRange at hg
      rw [if_pos hle'] at hg
      cases hg
    | ok r =>
      dsimp only
      -- the common tail: a zero window is allocated
      have fin : ∀ s e, s ≤ e → Host.rbSliceIndex d.info off ≤ s → e ≤ d.info.rbSliceEntries →
          (1 ≤ count → s < e) →
          (e = s + count ∨ (fixed = false ∧ e = d.info.rbSliceEntries ∧ e - s < count ∧
              Host.rbSliceIndex d.info off < s)) →
          (∀ j, s ≤ j → j < e → get j = 0) →
          (∀ s', Host.rbSliceIndex d.info off ≤ s' → s' < s →
              ∃ j, s' ≤ j ∧ j < s' + count ∧ get j ≠ 0) →
          ∃ s' e' d1,
            Host.rbSliceIndex d.info off + count ≤ d.info.rbSliceEntries ∧
            Host.rbSliceIndex d.info off ≤ s' ∧ s' ≤ e' ∧ e' ≤ d.info.rbSliceEntries ∧
            (1 ≤ count → s' < e') ∧
            (e' = s' + count ∨ (fixed = false ∧ e' = d.info.rbSliceEntries ∧ e' - s' < count ∧
                Host.rbSliceIndex d.info off < s')) ∧
            (∀ j, s' ≤ j → j < e' → d.rc.get (sliceC0 d.info off + j) = 0) ∧
            (∀ s'', Host.rbSliceIndex d.info off ≤ s'' → s'' < s' →
                ∃ j, s'' ≤ j ∧ j < s'' + count ∧ d.rc.get (sliceC0 d.info off + j) ≠ 0) ∧
            allocRange (sliceC0 d.info off) s' (e' - s') d = (d1, .ok ()) ∧
            (match allocRange (Host.rbSliceHostStart d.info off / d.info.clusterSize) s (e - s) d with
              | (d', .ok ()) => ({ d' with needFlush := true },
                  Outcome.ok (some (Host.clusterOffFromSlice d.info off s, e - s)))
              | (d', .err x) => (d', .err x)
              | (d', .panic p) => (d', .panic p)) =
              ({ d1 with needFlush := true },
                .ok (some (Host.clusterOffFromSlice d.info off s', e' - s'))) := by
        intro s e hse h1 h2 h3 h4 h5 h6
        obtain ⟨d1, hd1⟩ := allocRange_succeeds (sliceC0 d.info off) s (e - s) d (by
          intro k hk1 hk2
          have := h5 (k - sliceC0 d.info off) (by omega) (by omega)
          rw [← hgetj] at this
          have e2 : sliceC0 d.info off + (k - sliceC0 d.info off) = k := by omega
          rw [e2] at this; exact this)
        refine ⟨s, e, d1, hle', h1, hse, h2, h3, h4, ?_, ?_, hd1, ?_⟩
        · intro j a b; rw [hgetj]; exact h5 j a b
        · intro s' a b
          obtain ⟨j, x, y, z⟩ := h6 s' a b
          exact ⟨j, x, y, by rw [hgetj]; exact z⟩
        · unfold sliceC0 at hd1
          rw [hd1]
      cases r with
      | some x =>
        obtain ⟨s, e⟩ := x
        right
        dsimp only
        unfold getFreeRange at hg
        rw [if_pos hle'] at hg
        simp only [Outcome.ok.injEq] at hg
        obtain ⟨a, b, c, z⟩ := freeRangeLoop_sound hg
        exact fin s e (by omega) b (by omega) (by omega) (Or.inl a) z (freeRangeLoop_first hg)
      | none =>
        dsimp only
        unfold getFreeRange at hg
        rw [if_pos hle'] at hg
        simp only [Outcome.ok.injEq] at hg
        have hcomp := freeRangeLoop_complete (by omega) hg
        have hnone : Host.rbSliceIndex d.info off + count ≤ d.info.rbSliceEntries →
            ∀ s, Host.rbSliceIndex d.info off ≤ s → s + count ≤ d.info.rbSliceEntries →
              ∃ j, s ≤ j ∧ j < s + count ∧ d.rc.get (sliceC0 d.info off + j) ≠ 0 := by
          intro _ s s1 s2
          obtain ⟨j, j1, j2, j3⟩ := hcomp s s1 (by omega)
          exact ⟨j, j1, j2, by rw [hgetj]; exact j3⟩
        cases fixed with
        | true => exact Or.inl ⟨rfl, hnone⟩
        | false =>
          rw [if_neg Bool.false_ne_true]
          cases ht : getTailFreeRange get d.info.rbSliceEntries with
          | none => exact Or.inl ⟨rfl, hnone⟩
          | some x =>
            obtain ⟨s, e⟩ := x
            right
            dsimp only
            unfold getTailFreeRange at ht
            cases hl : lastUsed get d.info.rbSliceEntries with
            | none => simp [hl] at ht
            | some l =>
              simp only [hl] at ht
              split at ht
              · simp at ht
              · rename_i hne
                simp only [Option.some.injEq, Prod.mk.injEq] at ht
                obtain ⟨rfl, rfl⟩ := ht
                obtain ⟨la, lb, lc⟩ := lastUsed_some hl
                -- the tail starts after `idx` and is shorter than `count`
                have hidx : Host.rbSliceIndex d.info off < l + 1 := by
                  apply Classical.byContradiction; intro hc
                  obtain ⟨j, j1, j2, j3⟩ := hcomp (Host.rbSliceIndex d.info off) (Nat.le_refl _) (by omega)
                  exact j3 (lc j (by omega) (by omega))
                have hlen : d.info.rbSliceEntries - (l + 1) < count := by
                  apply Classical.byContradiction; intro hc
                  obtain ⟨j, j1, j2, j3⟩ := hcomp (l + 1) (by omega) (by omega)
                  exact j3 (lc j (by omega) (by omega))
                refine fin (l + 1) d.info.rbSliceEntries (by omega) (by omega) (Nat.le_refl _)
                  (by omega) (Or.inr ⟨rfl, rfl, hlen, hidx⟩) (fun j a b => lc j (by omega) b) ?_
                intro s' a b
                by_cases hs' : s' ≤ d.info.rbSliceEntries - count
                · exact hcomp s' a hs'
                · exact ⟨l, by omega, by omega, lb⟩

/-- the refcount-table entry `free_clusters` / `ensure_refblock_offset` look at -/
def rtEntryAt (d : Dev) (off : Nat) : E64 :=
  if Host.rtIndex d.info off < d.rtLen then d.rt.get (Host.rtIndex d.info off) else 0#64

theorem add_cs_div (i : Info) (host : Nat) :
    (host + i.clusterSize) / i.clusterSize = host / i.clusterSize + 1 := by
  unfold Info.clusterSize
  exact Nat.add_div_right _ (Nat.two_pow_pos _)

theorem add_mul_cs_div (i : Info) (host k : Nat) :
    (host + k * i.clusterSize) / i.clusterSize = host / i.clusterSize + k := by
  unfold Info.clusterSize
  exact Nat.add_mul_div_right _ _ (Nat.two_pow_pos _)

theorem freeClusters_succ (host n : Nat) (fz : Bool) (d : Dev) :
    freeClusters host (n + 1) fz d =
      if RT.isZero (rtEntryAt d host) then (d, .err .other)
      else if d.rc.get (host / d.info.clusterSize) = 0 then
        (d, .err .invalid)   -- was a panic (`decrement().unwrap()`); the code now returns an error
      else if fz = true ∧ d.rc.get (host / d.info.clusterSize) - 1 = 0 then
        freeClusters (host + d.info.clusterSize) n false
          { d with rc := d.rc.set (host / d.info.clusterSize) (d.rc.get (host / d.info.clusterSize) - 1),
                   needFlush := true, hint := min d.hint host }
      else
        freeClusters (host + d.info.clusterSize) n fz
          { d with rc := d.rc.set (host / d.info.clusterSize) (d.rc.get (host / d.info.clusterSize) - 1),
                   needFlush := true } := by
  rw [freeClusters]
  dsimp only [rtEntryAt]
  by_cases c : fz = true ∧ d.rc.get (host / d.info.clusterSize) - 1 = 0
  · simp only [c, and_self, ↓reduceIte]
  · simp only [c, ↓reduceIte]
/-- frame of `freeClusters`, any outcome -/
theorem freeClusters_frame (host n : Nat) (fz : Bool) (d : Dev) :
    (freeClusters host n fz d).1 =
      { d with rc := (freeClusters host n fz d).1.rc, hint := (freeClusters host n fz d).1.hint,
               needFlush := (freeClusters host n fz d).1.needFlush } ∧
    (freeClusters host n fz d).1.hint ≤ d.hint := by
  induction n generalizing host fz d with
  | zero => exact ⟨rfl, Nat.le_refl _⟩
  | succ n ih =>
    rw [freeClusters_succ]
    split
    · exact ⟨rfl, Nat.le_refl _⟩
    · split
      · exact ⟨rfl, Nat.le_refl _⟩
      · split
        · obtain ⟨a, b⟩ := ih (host + d.info.clusterSize) false
            { d with rc := d.rc.set (host / d.info.clusterSize) (d.rc.get (host / d.info.clusterSize) - 1),
                     needFlush := true, hint := min d.hint host }
          refine ⟨?_, Nat.le_trans b (Nat.min_le_left _ _)⟩
          rw [a]
        · obtain ⟨a, b⟩ := ih (host + d.info.clusterSize) fz
            { d with rc := d.rc.set (host / d.info.clusterSize) (d.rc.get (host / d.info.clusterSize) - 1),
                     needFlush := true }
          refine ⟨?_, b⟩
          rw [a]

theorem freeClusters_ok {host n : Nat} {fz : Bool} {d d' : Dev}
    (h : freeClusters host n fz d = (d', .ok ())) :
    (∀ k, d'.rc.get k =
      if host / d.info.clusterSize ≤ k ∧ k < host / d.info.clusterSize + n then d.rc.get k - 1
      else d.rc.get k) ∧
    (∀ k, host / d.info.clusterSize ≤ k → k < host / d.info.clusterSize + n → 1 ≤ d.rc.get k) ∧
    (∀ k, k < n → ¬ RT.isZero (rtEntryAt d (host + k * d.info.clusterSize))) ∧
    (fz = true → ∀ k, k < n → d.rc.get (host / d.info.clusterSize + k) = 1 →
      d'.hint ≤ host + k * d.info.clusterSize) ∧
    (fz = false → d'.hint = d.hint) ∧
    (0 < n → d'.needFlush = true) := by
  induction n generalizing host fz d with
  | zero =>
    simp only [freeClusters, M.pure, Prod.mk.injEq] at h
    obtain ⟨rfl, _⟩ := h
    refine ⟨fun k => by rw [if_neg (by omega)], fun k a b => by omega, fun k a => by omega,
      fun _ k a => by omega, fun _ => rfl, fun a => by omega⟩
  | succ n ih =>
    rw [freeClusters_succ] at h
    split at h
    · simp at h
    · rename_i hrt
      split at h
      · simp at h
      · rename_i hv
        have hcs := add_cs_div d.info host
        have hframe : ∀ (d2 : Dev) (fz2 : Bool),
            freeClusters (host + d.info.clusterSize) n fz2 d2 = (d', .ok ()) →
            d2.info = d.info → d2.rt = d.rt → d2.rtLen = d.rtLen →
            d2.rc = d.rc.set (host / d.info.clusterSize) (d.rc.get (host / d.info.clusterSize) - 1) →
            d2.needFlush = true →
            (∀ k, d'.rc.get k =
              if host / d.info.clusterSize ≤ k ∧ k < host / d.info.clusterSize + (n + 1)
              then d.rc.get k - 1 else d.rc.get k) ∧
            (∀ k, host / d.info.clusterSize ≤ k → k < host / d.info.clusterSize + (n + 1) →
              1 ≤ d.rc.get k) ∧
            (∀ k, k < n + 1 → ¬ RT.isZero (rtEntryAt d (host + k * d.info.clusterSize))) ∧
            (fz2 = true → ∀ k, k < n → d.rc.get (host / d.info.clusterSize + (k + 1)) = 1 →
              d'.hint ≤ host + (k + 1) * d.info.clusterSize) ∧
            (fz2 = false → d'.hint = d2.hint) ∧ d'.needFlush = true ∧ d'.hint ≤ d2.hint := by
          intro d2 fz2 h2 hi hrt2 hrl hrc hnf
          obtain ⟨a, b, c, e, f, g⟩ := ih h2
          have hle := (freeClusters_frame (host + d.info.clusterSize) n fz2 d2).2
          rw [h2] at hle
          dsimp only at hle
          rw [hi, hcs] at a b e
          rw [hi] at c
          refine ⟨?_, ?_, ?_, ?_, f, ?_, hle⟩
          · intro k
            rw [a k, hrc, FMap.get_set]
            by_cases hk : host / d.info.clusterSize = k
            · subst hk
              rw [if_neg (by omega), if_pos rfl, if_pos (by omega)]
            · rw [if_neg hk]
              by_cases hr : host / d.info.clusterSize + 1 ≤ k ∧ k < host / d.info.clusterSize + 1 + n
              · rw [if_pos hr, if_pos (by omega)]
              · rw [if_neg hr, if_neg (by omega)]
          · intro k k1 k2
            by_cases hk : host / d.info.clusterSize = k
            · subst hk; omega
            · have := b k (by omega) (by omega)
              rw [hrc, FMap.get_set_other _ _ _ _ hk] at this
              exact this
          · intro k hk
            cases k with
            | zero => simpa using hrt
            | succ k =>
              have := c k (by omega)
              have e1 : host + d.info.clusterSize + k * d.info.clusterSize
                  = host + (k + 1) * d.info.clusterSize := by
                rw [Nat.add_mul, Nat.one_mul]; omega
              rw [e1] at this
              simpa [rtEntryAt, hi, hrt2, hrl] using this
          · intro hfz k hk h1
            have := e hfz k hk (by
              rw [hrc, FMap.get_set_other _ _ _ _ (by omega)]
              rw [← h1]; congr 1; omega)
            have e1 : host + d.info.clusterSize + k * d.info.clusterSize
                = host + (k + 1) * d.info.clusterSize := by
              rw [Nat.add_mul, Nat.one_mul]; omega
            omega
          · cases n with
            | zero =>
              simp only [freeClusters, M.pure, Prod.mk.injEq] at h2
              obtain ⟨rfl, _⟩ := h2
              exact hnf
            | succ n => exact g (by omega)
        split at h
        · rename_i hc
          obtain ⟨a, b, c, e, f, g, l⟩ := hframe _ false h rfl rfl rfl rfl rfl
          have f' := f rfl
          dsimp only at f' l
          refine ⟨a, b, c, ?_, ?_, fun _ => g⟩
          · intro _ k hk h1
            have : d'.hint ≤ host := by rw [f']; exact Nat.min_le_right _ _
            exact Nat.le_trans this (Nat.le_add_right _ _)
          · intro hfz; rw [hfz] at hc; simp at hc
        · rename_i hc
          obtain ⟨a, b, c, e, f, g, l⟩ := hframe _ fz h rfl rfl rfl rfl rfl
          refine ⟨a, b, c, ?_, f, fun _ => g⟩
          intro hfz k hk h1
          cases k with
          | zero =>
            exfalso; apply hc
            refine ⟨hfz, ?_⟩
            rw [Nat.add_zero] at h1; omega
          | succ k => exact e hfz k (by omega) h1


theorem freeClusters_succeeds (host n : Nat) (fz : Bool) (d : Dev)
    (hrt : ∀ k, k < n → ¬ RT.isZero (rtEntryAt d (host + k * d.info.clusterSize)))
    (hrc : ∀ k, host / d.info.clusterSize ≤ k → k < host / d.info.clusterSize + n → 1 ≤ d.rc.get k) :
    ∃ d', freeClusters host n fz d = (d', .ok ()) := by
  induction n generalizing host fz d with
  | zero => exact ⟨d, rfl⟩
  | succ n ih =>
    rw [freeClusters_succ]
    have h0 := hrt 0 (by omega)
    rw [Nat.zero_mul, Nat.add_zero] at h0
    have h1 := hrc (host / d.info.clusterSize) (Nat.le_refl _) (by omega)
    rw [if_neg h0, if_neg (by omega)]
    have hcs := add_cs_div d.info host
    have step : ∀ (d2 : Dev) (fz2 : Bool), d2.info = d.info → d2.rt = d.rt → d2.rtLen = d.rtLen →
        d2.rc = d.rc.set (host / d.info.clusterSize) (d.rc.get (host / d.info.clusterSize) - 1) →
        ∃ d', freeClusters (host + d.info.clusterSize) n fz2 d2 = (d', .ok ()) := by
      intro d2 fz2 hi h2 h3 h4
      apply ih
      · intro k hk
        have := hrt (k + 1) (by omega)
        have e1 : host + d.info.clusterSize + k * d.info.clusterSize
            = host + (k + 1) * d.info.clusterSize := by
          rw [Nat.add_mul, Nat.one_mul]; omega
        rw [hi, e1]
        simpa [rtEntryAt, hi, h2, h3] using this
      · intro k k1 k2
        rw [hi, hcs] at k1 k2
        rw [h4, FMap.get_set_other _ _ _ _ (by omega)]
        exact hrc k (by omega) (by omega)
    split
    · exact step _ _ rfl rfl rfl rfl
    · exact step _ _ rfl rfl rfl rfl


/-- digest of a successful `try_alloc_from_rb_slice` in slice coordinates -/
theorem tryAlloc_some {off count : Nat} {fixed : Bool} {d d' : Dev} {host n : Nat}
    (h : tryAllocFromRbSlice off count fixed d = (d', .ok (some (host, n)))) :
    ∃ s,
      Host.rbSliceIndex d.info off + count ≤ d.info.rbSliceEntries ∧
      Host.rbSliceIndex d.info off ≤ s ∧ s + n ≤ d.info.rbSliceEntries ∧
      (1 ≤ count → 1 ≤ n) ∧
      (n = count ∨ (fixed = false ∧ s + n = d.info.rbSliceEntries ∧ n < count ∧
          Host.rbSliceIndex d.info off < s)) ∧
      host = Host.clusterOffFromSlice d.info off s ∧
      (∀ j, s ≤ j → j < s + n → d.rc.get (sliceC0 d.info off + j) = 0) ∧
      (∀ s', Host.rbSliceIndex d.info off ≤ s' → s' < s →
          ∃ j, s' ≤ j ∧ j < s' + count ∧ d.rc.get (sliceC0 d.info off + j) ≠ 0) ∧
      (∀ k, d'.rc.get k =
        if sliceC0 d.info off + s ≤ k ∧ k < sliceC0 d.info off + s + n then d.rc.get k + 1
        else d.rc.get k) ∧
      d' = { d with rc := d'.rc, needFlush := true } := by
  rcases tryAlloc_cases off count fixed d with ⟨h0, _⟩ | ⟨s, e, d1, h1, h2, h3, h4, h5, h6, h7, h8, h9, h10⟩
  · rw [h0] at h; simp at h
  · rw [h10] at h
    simp only [Prod.mk.injEq, Outcome.ok.injEq, Option.some.injEq] at h
    obtain ⟨hd, hh, hn⟩ := h
    obtain ⟨r1, r2⟩ := allocRange_ok h9
    subst hd hh hn
    refine ⟨s, h1, h2, by omega, by omega, ?_, rfl, ?_, h8, r1, ?_⟩
    · rcases h6 with h6 | ⟨a, b, c, e'⟩
      · left; omega
      · right; exact ⟨a, by omega, c, e'⟩
    · intro j j1 j2; exact h7 j j1 (by omega)
    · dsimp only
      rw [r2]

theorem tryAlloc_none {off count : Nat} {fixed : Bool} {d d' : Dev}
    (h : tryAllocFromRbSlice off count fixed d = (d', .ok none)) :
    d' = d ∧
      (Host.rbSliceIndex d.info off + count ≤ d.info.rbSliceEntries →
        ∀ s, Host.rbSliceIndex d.info off ≤ s → s + count ≤ d.info.rbSliceEntries →
          ∃ j, s ≤ j ∧ j < s + count ∧ d.rc.get (sliceC0 d.info off + j) ≠ 0) := by
  rcases tryAlloc_cases off count fixed d with ⟨h0, hc⟩ | ⟨s, e, d1, _, _, _, _, _, _, _, _, _, h10⟩
  · rw [h0] at h
    simp only [Prod.mk.injEq, and_true] at h
    exact ⟨h.symm, hc⟩
  · rw [h10] at h; simp at h

theorem tryAlloc_total (off count : Nat) (fixed : Bool) (d : Dev) :
    ∃ d' r, tryAllocFromRbSlice off count fixed d = (d', .ok r) := by
  rcases tryAlloc_cases off count fixed d with ⟨h0, _⟩ | ⟨s, e, d1, _, _, _, _, _, _, _, _, _, h10⟩
  · exact ⟨_, _, h0⟩
  · exact ⟨_, _, h10⟩


/-- if the refblock slice is not larger than a refblock, all its clusters are
    covered by the same refcount-table entry -/
theorem rtIndex_of_slice {i : Info} (g : Geom i) (hsl : i.rbSliceBits ≤ i.cb) (off x : Nat)
    (h1 : Host.rbSliceHostStart i off ≤ x) (h2 : x < Host.rbSliceHostEnd i off) :
    Host.rtIndex i x = Host.rtIndex i off := by
  have hle : i.rbSliceIndexShift ≤ i.rbIndexShift := by
    apply Arith.pow_le_of_two_pow_le
    rw [g.rbSliceIndexShift_eq, g.rbIndexShift_eq, g.rbSliceEntries_eq, g.rbEntries_eq]
    apply Nat.div_le_div_right
    exact Nat.mul_le_mul_right 8 (Nat.pow_le_pow_right (by decide) hsl)
  unfold Host.rbSliceHostEnd at h2
  unfold Host.rbSliceHostStart at h1 h2
  rw [← g.rbSliceIndexShift_eq, Nat.mul_comm (2^i.rbSliceIndexShift), ← Nat.pow_add] at h2
  have hx : x / 2^(i.cb + i.rbSliceIndexShift) = off / 2^(i.cb + i.rbSliceIndexShift) := by
    apply Nat.div_eq_of_lt_le h1
    rw [Nat.add_mul, Nat.one_mul]; exact h2
  have hsplit : i.rbIndexShift + i.cb = (i.cb + i.rbSliceIndexShift) + (i.rbIndexShift - i.rbSliceIndexShift) := by
    omega
  unfold Host.rtIndex
  rw [hsplit, Nat.pow_add, ← Nat.div_div_eq_div_mul, ← Nat.div_div_eq_div_mul, hx]


/-! ## 3. fuel of the allocator loops -/

/-- one iteration of the `try_allocate_from` loop: return, or continue with a new loop state -/
inductive LoopStep where
  | ret (r : Dev × Outcome (Option (Nat × Nat)))
  | cont (host count outOff done : Nat) (d : Dev)

/-- body of `tryAllocateLoop` with the recursive calls made explicit -/
def loopStep (rbEnd allocCnt host count outOff done : Nat) (d : Dev) : LoopStep :=
  let i := d.info
  if ¬ (count > 0 ∧ host < rbEnd) then
    .ret (d, .ok (if done ≠ 0 then some (outOff, done) else none))
  else
    let curr := min count i.rbSliceEntries
    match tryAllocFromRbSlice host curr (done ≠ 0) d with
    | (d1, .ok (some (o, n))) =>
      if done ≠ 0 ∧ host ≠ o then
        match freeClusters outOff done true d1 with
        | (d2, .ok ()) =>
          match freeClusters o n true d2 with
          | (d3, .ok ()) => .cont host allocCnt 0 0 d3
          | (d3, .err e) => .ret (d3, .err e)
          | (d3, .panic p) => .ret (d3, .panic p)
        | (d2, .err e) => .ret (d2, .err e)
        | (d2, .panic p) => .ret (d2, .panic p)
      else
        let out := if done = 0 then o else outOff
        if n > count then .ret (d1, .panic "alloc.rs:try_allocate_from:count-underflow") else
        .cont (o + n * i.clusterSize) (count - n) out (done + n) d1
    | (d1, .ok none) =>
      if done = 0 then .cont (Host.rbSliceHostEnd i host) count outOff done d1
      else .ret (d1, .ok (some (outOff, done)))
    | (d1, .err e) => .ret (d1, .err e)
    | (d1, .panic p) => .ret (d1, .panic p)

theorem tryAllocateLoop_succ (rbEnd allocCnt fuel host count outOff done : Nat) (d : Dev) :
    tryAllocateLoop rbEnd allocCnt (fuel + 1) host count outOff done d =
      match loopStep rbEnd allocCnt host count outOff done d with
      | .ret r => r
      | .cont h c o dn d' => tryAllocateLoop rbEnd allocCnt fuel h c o dn d' := by
  rw [tryAllocateLoop]
  unfold loopStep
  dsimp only
  by_cases hc : count > 0 ∧ host < rbEnd
  · rw [if_neg (not_not_intro hc), if_neg (not_not_intro hc)]
    generalize tryAllocFromRbSlice host (min count d.info.rbSliceEntries) (decide (done ≠ 0)) d = r
    rcases r with ⟨d1, (_ | ⟨o, n⟩) | e | p⟩
    · dsimp only
      by_cases h0 : done = 0
      · rw [if_pos h0, if_pos h0]
      · rw [if_neg h0, if_neg h0]
    · dsimp only
      by_cases hf : done ≠ 0 ∧ host ≠ o
      · rw [if_pos hf, if_pos hf]
        generalize freeClusters outOff done true d1 = r2
        rcases r2 with ⟨d2, _ | e | p⟩
        · dsimp only
          generalize freeClusters o n true d2 = r3
          rcases r3 with ⟨d3, _ | e | p⟩ <;> rfl
        · rfl
        · rfl
      · rw [if_neg hf, if_neg hf]
        by_cases hn : n > count
        · rw [if_pos hn, if_pos hn]
        · rw [if_neg hn, if_neg hn]
    · rfl
    · rfl
  · rw [if_pos hc, if_pos hc]
/-- the part of the state the allocator loops never change (only
    `ensure_refblock_offset` touches `rt`).  CHANGED (reftable growth): the header's
    `refcount_table_clusters` is part of it too (strengthening) — together with `info`
    and `rtLen` it determines whether and how far the table can still grow (`rtCap`). -/
def SameMeta (d d' : Dev) : Prop :=
  d'.info = d.info ∧ d'.rtLen = d.rtLen ∧ d'.rt = d.rt ∧ d'.hdrRtClusters = d.hdrRtClusters

theorem SameMeta.refl (d : Dev) : SameMeta d d := ⟨rfl, rfl, rfl, rfl⟩
theorem SameMeta.trans {a b c : Dev} (h1 : SameMeta a b) (h2 : SameMeta b c) : SameMeta a c :=
  ⟨h2.1.trans h1.1, h2.2.1.trans h1.2.1, h2.2.2.1.trans h1.2.2.1, h2.2.2.2.trans h1.2.2.2⟩
theorem SameMeta.rtCap {a b : Dev} (h : SameMeta a b) : rtCap b = rtCap a :=
  rtCap_congr h.1 h.2.1 h.2.2.2

theorem tryAlloc_sameMeta {off count : Nat} {fixed : Bool} {d d' : Dev} {r : Outcome (Option (Nat × Nat))}
    (h : tryAllocFromRbSlice off count fixed d = (d', r)) : SameMeta d d' := by
  obtain ⟨d'', r', h'⟩ := tryAlloc_total off count fixed d
  rw [h'] at h
  simp only [Prod.mk.injEq] at h
  obtain ⟨rfl, rfl⟩ := h
  cases r' with
  | none => rw [(tryAlloc_none h').1]; exact SameMeta.refl d
  | some x =>
    obtain ⟨o, n⟩ := x
    obtain ⟨s, _, _, _, _, _, _, _, _, _, h10⟩ := tryAlloc_some h'
    rw [h10]; exact ⟨rfl, rfl, rfl, rfl⟩

theorem freeClusters_sameMeta {host n : Nat} {fz : Bool} {d d' : Dev} {r : Outcome Unit}
    (h : freeClusters host n fz d = (d', r)) : SameMeta d d' := by
  have := (freeClusters_frame host n fz d).1
  rw [h] at this
  dsimp only at this
  rw [this]; exact ⟨rfl, rfl, rfl, rfl⟩

/-- CHANGED (was `freeClusters_err_other : e = .other`): decrementing a zero refcount
    is now an error (`invalid`) instead of a panic, so there are two error values. -/
theorem freeClusters_err {host n : Nat} {fz : Bool} {d d' : Dev} {e : Err}
    (h : freeClusters host n fz d = (d', .err e)) : e = .other ∨ e = .invalid := by
  induction n generalizing host fz d with
  | zero => simp [freeClusters, M.pure] at h
  | succ n ih =>
    rw [freeClusters_succ] at h
    split at h
    · simp only [Prod.mk.injEq, Outcome.err.injEq] at h; exact Or.inl h.2.symm
    · split at h
      · simp only [Prod.mk.injEq, Outcome.err.injEq] at h; exact Or.inr h.2.symm
      · split at h <;> exact ih h

/-- NEW (stronger than before the change of `free_clusters`): it never panics -/
theorem freeClusters_nopanic (host n : Nat) (fz : Bool) (d : Dev) (p : String) :
    (freeClusters host n fz d).2 ≠ .panic p := by
  induction n generalizing host fz d with
  | zero => simp [freeClusters, M.pure]
  | succ n ih =>
    rw [freeClusters_succ]
    split
    · simp
    · split
      · simp
      · split <;> exact ih _ _ _

/-- frame of one loop iteration -/
theorem loopStep_sameMeta (rbEnd allocCnt host count outOff done : Nat) (d : Dev) :
    match loopStep rbEnd allocCnt host count outOff done d with
    | .ret r => SameMeta d r.1
    | .cont _ _ _ _ d' => SameMeta d d' := by
  unfold loopStep
  dsimp only
  by_cases hc : count > 0 ∧ host < rbEnd
  · rw [if_neg (not_not_intro hc)]
    generalize hr : tryAllocFromRbSlice host (min count d.info.rbSliceEntries) (decide (done ≠ 0)) d = r
    rcases r with ⟨d1, (_ | ⟨o, n⟩) | e | p⟩
    all_goals (try dsimp only)
    · by_cases h0 : done = 0
      · rw [if_pos h0]; exact tryAlloc_sameMeta hr
      · rw [if_neg h0]; exact tryAlloc_sameMeta hr
    · have m1 := tryAlloc_sameMeta hr
      by_cases hf : done ≠ 0 ∧ host ≠ o
      · rw [if_pos hf]
        generalize hr2 : freeClusters outOff done true d1 = r2
        rcases r2 with ⟨d2, _ | e | p⟩
        all_goals (try dsimp only)
        · have m2 := freeClusters_sameMeta hr2
          generalize hr3 : freeClusters o n true d2 = r3
          rcases r3 with ⟨d3, _ | e | p⟩ <;>
            exact m1.trans (m2.trans (freeClusters_sameMeta hr3))
        · exact m1.trans (freeClusters_sameMeta hr2)
        · exact m1.trans (freeClusters_sameMeta hr2)
      · rw [if_neg hf]
        by_cases hn : n > count
        · rw [if_pos hn]; exact m1
        · rw [if_neg hn]; exact m1
    · exact tryAlloc_sameMeta hr
    · exact tryAlloc_sameMeta hr
  · rw [if_pos hc]; exact SameMeta.refl d

theorem tryAllocateLoop_sameMeta (rbEnd allocCnt fuel host count outOff done : Nat) (d : Dev) :
    SameMeta d (tryAllocateLoop rbEnd allocCnt fuel host count outOff done d).1 := by
  induction fuel generalizing host count outOff done d with
  | zero => exact SameMeta.refl d
  | succ fuel ih =>
    rw [tryAllocateLoop_succ]
    have := loopStep_sameMeta rbEnd allocCnt host count outOff done d
    split <;> rename_i heq <;> rw [heq] at this
    · exact this
    · exact SameMeta.trans this (ih _ _ _ _ _)

/-! ### the termination measure of the `try_allocate_from` loop -/

/-- bytes of host space covered by one refblock slice -/
def sliceBytes (i : Info) : Nat := i.rbSliceEntries * i.clusterSize

/-- number of refblock slices from the slice of `host` up to `rbEnd` -/
def slicesLeft (i : Info) (rbEnd host : Nat) : Nat :=
  (rbEnd + sliceBytes i - 1) / sliceBytes i - host / sliceBytes i

/-- Measure of the loop state: two iterations per remaining slice (a failed
    `fixed_start` attempt and its retry), the retry being possible only when
    `done ≠ 0`. -/
def loopMeasure (i : Info) (rbEnd host count done : Nat) : Nat :=
  if count > 0 ∧ host < rbEnd then 2 * slicesLeft i rbEnd host + (if done = 0 then 0 else 1) else 0

theorem sliceBytes_eq {i : Info} (g : Geom i) : sliceBytes i = 2^(i.cb + i.rbSliceIndexShift) := by
  unfold sliceBytes Info.clusterSize
  rw [← g.rbSliceIndexShift_eq, Nat.pow_add, Nat.mul_comm]

theorem sliceBytes_pos {i : Info} (g : Geom i) : 0 < sliceBytes i := by
  rw [sliceBytes_eq g]; exact Nat.two_pow_pos _

theorem rbSliceHostEnd_eq {i : Info} (g : Geom i) (host : Nat) :
    Host.rbSliceHostEnd i host = (host / sliceBytes i + 1) * sliceBytes i := by
  unfold Host.rbSliceHostEnd Host.rbSliceHostStart
  rw [Nat.add_mul, Nat.one_mul, sliceBytes_eq g]
  congr 1
  rw [← g.rbSliceIndexShift_eq, Nat.pow_add, Nat.mul_comm]

theorem clusterOffFromSlice_end {i : Info} (host s n : Nat) (h : s + n = i.rbSliceEntries) :
    Host.clusterOffFromSlice i host s + n * i.clusterSize = Host.rbSliceHostEnd i host := by
  unfold Host.clusterOffFromSlice Host.rbSliceHostEnd Info.clusterSize
  rw [Nat.add_assoc, ← Nat.add_mul, h]

theorem slicesLeft_pos {i : Info} (g : Geom i) {rbEnd host : Nat} (h : host < rbEnd) :
    1 ≤ slicesLeft i rbEnd host := by
  unfold slicesLeft
  have hW := sliceBytes_pos g
  have h1 : host / sliceBytes i * sliceBytes i ≤ host := Nat.div_mul_le_self _ _
  have : host / sliceBytes i + 1 ≤ (rbEnd + sliceBytes i - 1) / sliceBytes i := by
    rw [Nat.le_div_iff_mul_le hW, Nat.add_mul, Nat.one_mul]
    omega
  omega

theorem slicesLeft_next {i : Info} (g : Geom i) (rbEnd host : Nat) :
    slicesLeft i rbEnd (Host.rbSliceHostEnd i host) = slicesLeft i rbEnd host - 1 := by
  unfold slicesLeft
  rw [rbSliceHostEnd_eq g, Nat.mul_div_cancel _ (sliceBytes_pos g)]
  omega

/-- under the geometry equations every continuing iteration strictly decreases
    the measure, and a returning iteration never reports `nospace` -/
theorem loopStep_measure (rbEnd allocCnt host count outOff done : Nat) (d : Dev) (g : Geom d.info) :
    match loopStep rbEnd allocCnt host count outOff done d with
    | .ret r => r.2 ≠ .err .nospace
    | .cont h c _ dn _ => loopMeasure d.info rbEnd h c dn < loopMeasure d.info rbEnd host count done := by
  unfold loopStep
  dsimp only
  by_cases hc : count > 0 ∧ host < rbEnd
  · rw [if_neg (not_not_intro hc)]
    have hS := slicesLeft_pos g hc.2
    have hN := slicesLeft_next g rbEnd host
    have hold : loopMeasure d.info rbEnd host count done
        = 2 * slicesLeft d.info rbEnd host + (if done = 0 then 0 else 1) := by
      unfold loopMeasure; rw [if_pos hc]
    have hnew : ∀ c dn, loopMeasure d.info rbEnd (Host.rbSliceHostEnd d.info host) c dn
        ≤ 2 * (slicesLeft d.info rbEnd host - 1) + (if dn = 0 then 0 else 1) := by
      intro c dn; unfold loopMeasure; rw [hN]; split <;> omega
    generalize hr : tryAllocFromRbSlice host (min count d.info.rbSliceEntries) (decide (done ≠ 0)) d = r
    rcases r with ⟨d1, (_ | ⟨o, n⟩) | e | p⟩
    all_goals (try dsimp only)
    · by_cases h0 : done = 0
      · rw [if_pos h0]
        have := hnew count done
        rw [hold, if_pos h0]; rw [if_pos h0] at this
        show _ < _
        omega
      · rw [if_neg h0]; simp
    · obtain ⟨s, a1, a2, a3, a4, a5, rfl, _⟩ := tryAlloc_some hr
      by_cases hf : done ≠ 0 ∧ host ≠ Host.clusterOffFromSlice d.info host s
      · rw [if_pos hf]
        generalize hr2 : freeClusters outOff done true d1 = r2
        rcases r2 with ⟨d2, _ | e | p⟩
        all_goals (try dsimp only)
        · generalize hr3 : freeClusters (Host.clusterOffFromSlice d.info host s) n true d2 = r3
          rcases r3 with ⟨d3, _ | e | p⟩
          all_goals (try dsimp only)
          · show _ < _
            rw [hold, if_neg hf.1]
            unfold loopMeasure
            split <;> simp <;> omega
          · rcases freeClusters_err hr3 with rfl | rfl <;> simp
          · simp
        · rcases freeClusters_err hr2 with rfl | rfl <;> simp
        · simp
      · rw [if_neg hf]
        by_cases hn : n > count
        · rw [if_pos hn]; simp
        · rw [if_neg hn]
          show _ < _
          by_cases hz : count - n = 0
          · rw [hz, hold]
            unfold loopMeasure
            rw [if_neg (by omega)]
            omega
          · -- a partial run ends at the slice end
            have hend : s + n = d.info.rbSliceEntries := by
              rcases a5 with a5 | ⟨_, a5, _⟩
              · have : min count d.info.rbSliceEntries = d.info.rbSliceEntries := by omega
                omega
              · exact a5
            rw [clusterOffFromSlice_end host s n hend, hold]
            have := hnew (count - n) (done + n)
            split at this <;> split <;> omega
    · obtain ⟨d'', r', h'⟩ := tryAlloc_total host (min count d.info.rbSliceEntries) (decide (done ≠ 0)) d
      rw [h'] at hr; cases hr
    · simp
  · rw [if_pos hc]; simp

/-- Fuel sufficiency of the `try_allocate_from` loop: above the measure the
    result does not depend on the fuel, and is never the fuel-exhaustion error. -/
theorem tryAllocateLoop_fuel_aux (rbEnd allocCnt : Nat) (f1 : Nat) :
    ∀ (host count outOff done : Nat) (d : Dev), Geom d.info →
      loopMeasure d.info rbEnd host count done < f1 →
      (∀ f2, loopMeasure d.info rbEnd host count done < f2 →
        tryAllocateLoop rbEnd allocCnt f1 host count outOff done d
          = tryAllocateLoop rbEnd allocCnt f2 host count outOff done d) ∧
      (tryAllocateLoop rbEnd allocCnt f1 host count outOff done d).2 ≠ .err .nospace := by
  induction f1 with
  | zero => intro _ _ _ _ _ _ h; omega
  | succ f1 ih =>
    intro host count outOff done d g h1
    have hm := loopStep_measure rbEnd allocCnt host count outOff done d g
    have hs := loopStep_sameMeta rbEnd allocCnt host count outOff done d
    constructor
    · intro f2 h2
      cases f2 with
      | zero => omega
      | succ f2 =>
        rw [tryAllocateLoop_succ, tryAllocateLoop_succ]
        cases hstep : loopStep rbEnd allocCnt host count outOff done d with
        | ret r => rfl
        | cont h c o dn d' =>
          rw [hstep] at hm hs
          dsimp only at hm hs ⊢
          have hi : d'.info = d.info := hs.1
          exact (ih h c o dn d' (hi ▸ g) (by rw [hi]; omega)).1 f2 (by rw [hi]; omega)
    · rw [tryAllocateLoop_succ]
      cases hstep : loopStep rbEnd allocCnt host count outOff done d with
      | ret r => rw [hstep] at hm; exact hm
      | cont h c o dn d' =>
        rw [hstep] at hm hs
        dsimp only at hm hs ⊢
        have hi : d'.info = d.info := hs.1
        exact (ih h c o dn d' (hi ▸ g) (by rw [hi]; omega)).2

/-- the measure of the initial loop state is below the fuel the model passes -/
theorem loopMeasure_init_lt {i : Info} (g : Geom i) (host allocCnt : Nat) :
    loopMeasure i (Host.rbHostEnd i host) host allocCnt 0
      < 2 * (i.rbEntries / (max i.rbSliceEntries 1) + 2 + allocCnt) + 4 := by
  have hW := sliceBytes_pos g
  have hse : 0 < i.rbSliceEntries := by rw [← g.rbSliceIndexShift_eq]; exact Nat.two_pow_pos _
  have hmax : max i.rbSliceEntries 1 = i.rbSliceEntries := by omega
  rw [hmax]
  have hRW : i.rbEntries * 2^i.cb / sliceBytes i = i.rbEntries / i.rbSliceEntries := by
    unfold sliceBytes Info.clusterSize
    exact Nat.mul_div_mul_right _ _ (Nat.two_pow_pos _)
  have hstart : Host.rbHostStart i host ≤ host := Nat.div_mul_le_self _ _
  have key : slicesLeft i (Host.rbHostEnd i host) host ≤ i.rbEntries / i.rbSliceEntries + 2 := by
    unfold slicesLeft Host.rbHostEnd
    rw [← hRW]
    generalize Host.rbHostStart i host = a at hstart ⊢
    generalize i.rbEntries * 2^i.cb = R
    generalize sliceBytes i = W at hW ⊢
    have h1 : a / W ≤ host / W := Nat.div_le_div_right hstart
    have h2 : (a + R + W - 1) / W ≤ a / W + R / W + 2 := by
      have ha := Nat.div_add_mod a W
      have hr := Nat.div_add_mod R W
      have ma := Nat.mod_lt a hW
      have mr := Nat.mod_lt R hW
      have : (a + R + W - 1) < (a / W + R / W + 2 + 1) * W := by
        rw [Nat.add_mul, Nat.add_mul, Nat.add_mul, Nat.mul_comm (a / W), Nat.mul_comm (R / W)]
        omega
      exact Nat.le_of_lt_succ ((Nat.div_lt_iff_lt_mul hW).2 this)
    generalize (a + R + W - 1) / W = x at h2 ⊢
    generalize R / W = y at h2 ⊢
    generalize a / W = z at h1 h2
    generalize host / W = w at h1 ⊢
    omega
  unfold loopMeasure
  split <;> simp <;> omega

/-! ### `try_allocate_from` and the outer `allocate_clusters` loop -/

theorem rt_isZero_zero : RT.isZero 0#64 = true := by decide

/-- `ensure_refblock_offset` in the model.
    CHANGED (reftable growth; the old statement said `rtLen` is unchanged, success
    implies `rtIndex < d.rtLen`, and the only error is `unsupported`): the function now
    grows the table for an index beyond it.  What remains true: `info` is kept, `rtLen`
    never decreases, the growth bound `rtCap` never increases, after success the index
    is inside the (new) table, it never panics; the errors are `unsupported` (growth
    refused) or, only when the table was relocated, an error of the release of the old
    table (`other`: no refblock for it, `invalid`: its refcount is 0).  In bounds nothing
    of this happens: see `ensureRefblock_facts_inb`. -/
theorem ensureRefblock_facts (off : Nat) (d : Dev) :
    (ensureRefblock off d).1.info = d.info ∧ d.rtLen ≤ (ensureRefblock off d).1.rtLen ∧
    rtCap (ensureRefblock off d).1 ≤ rtCap d ∧
    (∀ u, (ensureRefblock off d).2 = .ok u →
      Host.rtIndex d.info off < (ensureRefblock off d).1.rtLen) ∧
    (∀ e, (ensureRefblock off d).2 = .err e → e = .unsupported ∨
      (¬ Host.rtIndex d.info off < d.rtLen ∧ ¬ NoGrow d ∧ (e = .other ∨ e = .invalid))) ∧
    (∀ p, (ensureRefblock off d).2 ≠ .panic p) := by
  by_cases hlt : Host.rtIndex d.info off < d.rtLen
  · rw [ensureRefblock_inb hlt]
    obtain ⟨d', h, hi, hl, hc, _, _⟩ := ensureRefblockIn_inb hlt
    rw [h]
    exact ⟨hi, Nat.le_of_eq hl.symm, Nat.le_of_eq (rtCap_congr hi hl hc), fun _ _ => hl ▸ hlt,
      fun e h => (by cases h), fun p h => (by cases h)⟩
  · have hge : d.rtLen ≤ Host.rtIndex d.info off := by omega
    rcases ensureRefblock_oob_cases hlt with ⟨_, _, h⟩ | ⟨hip, d2, h2, h⟩ | ⟨hip, hf, d2, h2, h⟩
    · rw [h]
      exact ⟨rfl, Nat.le_refl _, Nat.le_refl _, fun u h => (by cases h),
        fun e h => (by cases h; exact Or.inl rfl), fun p h => (by cases h)⟩
    · rw [h]
      have hg := growReftable_inplace' hip
      obtain ⟨l1, l2, _, l4⟩ := growReftable_ok_len hg
      have hcap := growReftable_cap hg
      obtain ⟨d2', h2', hi, hl, hc, _, _⟩ := ensureRefblockIn_inb l1
      rw [h2] at h2'
      simp only [Prod.mk.injEq, and_true] at h2'
      subst h2'
      refine ⟨hi.trans l4, ?_, ?_, fun _ _ => ?_, fun e h => (by cases h), fun p h => (by cases h)⟩
      · show d.rtLen ≤ d2.rtLen
        rw [hl]; exact l2 hge
      · show rtCap d2 ≤ rtCap d
        rw [rtCap_congr hi hl hc]; exact hcap
      · show _ < d2.rtLen
        rw [hl]; exact l1
    · have hg := growReftable_relocate' hip hf
      obtain ⟨l1, l2, _, l4⟩ := growReftable_ok_len hg
      have hcap := growReftable_cap hg
      have hng : ¬ NoGrow d := fun hn => (hn.no_branch _).2 hf
      obtain ⟨d2', h2', hi, hl, hc, _, _⟩ := ensureRefblockIn_inb l1
      rw [h2] at h2'
      simp only [Prod.mk.injEq, and_true] at h2'
      subst h2'
      rw [h]
      have hm : SameMeta d2 (freeClusters d.hdrRtOff (growOldCl d) true d2).1 :=
        freeClusters_sameMeta (r := (freeClusters d.hdrRtOff (growOldCl d) true d2).2) rfl
      refine ⟨(hm.1.trans hi).trans l4, ?_, ?_, fun _ _ => ?_, fun e he => ?_,
        fun p => freeClusters_nopanic _ _ _ _ p⟩
      · rw [hm.2.1, hl]; exact l2 hge
      · rw [hm.rtCap, rtCap_congr hi hl hc]; exact hcap
      · rw [hm.2.1, hl]; exact l1
      · right
        refine ⟨hlt, hng, freeClusters_err (host := d.hdrRtOff) (n := growOldCl d) (fz := true)
          (d := d2) (d' := (freeClusters d.hdrRtOff (growOldCl d) true d2).1) ?_⟩
        rw [← he]

/-- in bounds `ensure_refblock_offset` behaves as before the growth code existed:
    it succeeds and keeps `info`, `rtLen` and the header's table size -/
theorem ensureRefblock_facts_inb {off : Nat} {d : Dev} (hlt : Host.rtIndex d.info off < d.rtLen) :
    ∃ d', ensureRefblock off d = (d', .ok ()) ∧ d'.info = d.info ∧ d'.rtLen = d.rtLen ∧
      d'.hdrRtClusters = d.hdrRtClusters := by
  rw [ensureRefblock_inb hlt]
  obtain ⟨d', h, hi, hl, hc, _, _⟩ := ensureRefblockIn_inb hlt
  exact ⟨d', h, hi, hl, hc⟩

/-- an `ensure_refblock_offset` for an index beyond the table either is refused
    (nothing changes) or makes the table strictly longer — also when it then fails in
    the release of the old table.  Hence "`rtLen` is the same afterwards" characterises
    the calls that did not grow the table. -/
theorem ensureRefblock_oob_grows {off : Nat} {d : Dev} (hlt : ¬ Host.rtIndex d.info off < d.rtLen) :
    ensureRefblock off d = (d, .err .unsupported) ∨ d.rtLen < (ensureRefblock off d).1.rtLen := by
  have hge : d.rtLen ≤ Host.rtIndex d.info off := by omega
  rcases ensureRefblock_oob_cases hlt with ⟨_, _, h⟩ | ⟨hip, d2, h2, h⟩ | ⟨hip, hf, d2, h2, h⟩
  · exact Or.inl h
  · right
    rw [h]
    have l1 := (growReftable_ok_len (growReftable_inplace' hip)).1
    obtain ⟨d2', h2', _, hl, _⟩ := ensureRefblockIn_inb l1
    rw [h2] at h2'
    simp only [Prod.mk.injEq, and_true] at h2'
    subst h2'
    show d.rtLen < d2.rtLen
    rw [hl]; omega
  · right
    rw [h]
    have l1 := (growReftable_ok_len (growReftable_relocate' hip hf)).1
    obtain ⟨d2', h2', _, hl, _⟩ := ensureRefblockIn_inb l1
    rw [h2] at h2'
    simp only [Prod.mk.injEq, and_true] at h2'
    subst h2'
    have hm : SameMeta d2 (freeClusters d.hdrRtOff (growOldCl d) true d2).1 :=
      freeClusters_sameMeta (r := (freeClusters d.hdrRtOff (growOldCl d) true d2).2) rfl
    rw [hm.2.1, hl]; omega

/-- when the table cannot grow (`NoGrow`), the old statement holds as it was -/
theorem ensureRefblock_facts_noGrow (off : Nat) (d : Dev) (hn : NoGrow d) :
    (ensureRefblock off d).1.info = d.info ∧ (ensureRefblock off d).1.rtLen = d.rtLen ∧
    (ensureRefblock off d).1.hdrRtClusters = d.hdrRtClusters ∧
    (∀ u, (ensureRefblock off d).2 = .ok u → Host.rtIndex d.info off < d.rtLen) ∧
    (∀ e, (ensureRefblock off d).2 = .err e → e = .unsupported) ∧
    (∀ p, (ensureRefblock off d).2 ≠ .panic p) := by
  by_cases hlt : Host.rtIndex d.info off < d.rtLen
  · obtain ⟨d', h, hi, hl, hc⟩ := ensureRefblock_facts_inb hlt
    rw [h]
    exact ⟨hi, hl, hc, fun _ _ => hlt, fun e h => (by cases h), fun p h => (by cases h)⟩
  · rcases ensureRefblock_oob_cases hlt with ⟨_, _, h⟩ | ⟨hip, _⟩ | ⟨_, hf, _⟩
    · rw [h]
      exact ⟨rfl, rfl, rfl, fun u h => (by cases h), fun e h => (by cases h; rfl),
        fun p h => (by cases h)⟩
    · exact absurd hip (hn.no_branch _).1
    · exact absurd hf (hn.no_branch _).2

/-- CHANGED (reftable growth): `rtLen` is no longer constant but non-decreasing, the
    bound `rtCap` is non-increasing, and success puts the index inside the new table -/
theorem tryAllocateFrom_sameInfo (host allocCnt : Nat) (d : Dev) :
    (tryAllocateFrom host allocCnt d).1.info = d.info ∧
    d.rtLen ≤ (tryAllocateFrom host allocCnt d).1.rtLen ∧
    rtCap (tryAllocateFrom host allocCnt d).1 ≤ rtCap d ∧
    (∀ r, (tryAllocateFrom host allocCnt d).2 = .ok r →
      Host.rtIndex d.info host < (tryAllocateFrom host allocCnt d).1.rtLen) := by
  unfold tryAllocateFrom
  by_cases h0 : allocCnt = 0
  · rw [if_pos h0]; exact ⟨rfl, Nat.le_refl _, Nat.le_refl _, fun r h => by cases h⟩
  · rw [if_neg h0]
    obtain ⟨e1, e2, ec, e3, _, _⟩ := ensureRefblock_facts host d
    generalize ensureRefblock host d = r at e1 e2 ec e3
    rcases r with ⟨d1, _ | e | p⟩
    · dsimp only at e1 e2 ec e3 ⊢
      have := tryAllocateLoop_sameMeta (Host.rbHostEnd d1.info host) allocCnt
        (2 * (d1.info.rbEntries / max d1.info.rbSliceEntries 1 + 2 + allocCnt) + 4) host allocCnt 0 0 d1
      refine ⟨this.1.trans e1, ?_, ?_, fun _ _ => ?_⟩
      · rw [this.2.1]; exact e2
      · rw [this.rtCap]; exact ec
      · rw [this.2.1]; exact e3 () rfl
    · exact ⟨e1, e2, ec, fun r h => by cases h⟩
    · exact ⟨e1, e2, ec, fun r h => by cases h⟩

/-- when the table cannot grow, `try_allocate_from` keeps `rtLen` (the old statement) -/
theorem tryAllocateFrom_sameInfo_noGrow (host allocCnt : Nat) (d : Dev) (hn : NoGrow d) :
    (tryAllocateFrom host allocCnt d).1.info = d.info ∧
    (tryAllocateFrom host allocCnt d).1.rtLen = d.rtLen ∧
    (tryAllocateFrom host allocCnt d).1.hdrRtClusters = d.hdrRtClusters ∧
    (∀ r, (tryAllocateFrom host allocCnt d).2 = .ok r → Host.rtIndex d.info host < d.rtLen) := by
  unfold tryAllocateFrom
  by_cases h0 : allocCnt = 0
  · rw [if_pos h0]; exact ⟨rfl, rfl, rfl, fun r h => by cases h⟩
  · rw [if_neg h0]
    obtain ⟨e1, e2, ec, e3, _, _⟩ := ensureRefblock_facts_noGrow host d hn
    generalize ensureRefblock host d = r at e1 e2 ec e3
    rcases r with ⟨d1, _ | e | p⟩
    · dsimp only at e1 e2 ec e3 ⊢
      have := tryAllocateLoop_sameMeta (Host.rbHostEnd d1.info host) allocCnt
        (2 * (d1.info.rbEntries / max d1.info.rbSliceEntries 1 + 2 + allocCnt) + 4) host allocCnt 0 0 d1
      exact ⟨this.1.trans e1, this.2.1.trans e2, this.2.2.2.trans ec, fun _ _ => e3 () rfl⟩
    · exact ⟨e1, e2, ec, fun r h => by cases h⟩
    · exact ⟨e1, e2, ec, fun r h => by cases h⟩

/-- the fuel the model passes to the `try_allocate_from` loop is sufficient: any
    larger fuel gives the same result … -/
theorem tryAllocateFrom_fuel_irrelevant (host allocCnt : Nat) (d d1 : Dev) (g : Geom d.info)
    (h0 : allocCnt ≠ 0) (he : ensureRefblock host d = (d1, .ok ()))
    (f : Nat) (hf : 2 * (d.info.rbEntries / max d.info.rbSliceEntries 1 + 2 + allocCnt) + 4 ≤ f) :
    tryAllocateFrom host allocCnt d
      = tryAllocateLoop (Host.rbHostEnd d.info host) allocCnt f host allocCnt 0 0 d1 := by
  have hi : d1.info = d.info := by
    have := (ensureRefblock_facts host d).1; rw [he] at this; exact this
  unfold tryAllocateFrom
  rw [if_neg h0, he]
  dsimp only
  rw [hi]
  have hlt := loopMeasure_init_lt g host allocCnt
  refine (tryAllocateLoop_fuel_aux _ allocCnt _ host allocCnt 0 0 d1 (hi ▸ g) (by rw [hi]; exact hlt)).1
    f (by rw [hi]; omega)

/-- … and the fuel-exhaustion branch (`Err nospace` of the loop) is unreachable -/
theorem tryAllocateFrom_no_nospace (host allocCnt : Nat) (d : Dev) (g : Geom d.info) :
    (tryAllocateFrom host allocCnt d).2 ≠ .err .nospace := by
  unfold tryAllocateFrom
  by_cases h0 : allocCnt = 0
  · rw [if_pos h0]; simp
  · rw [if_neg h0]
    obtain ⟨e1, _, _, _, e4, _⟩ := ensureRefblock_facts host d
    generalize ensureRefblock host d = r at e1 e4
    rcases r with ⟨d1, _ | e | p⟩
    · dsimp only at e1 ⊢
      have hlt := loopMeasure_init_lt g host allocCnt
      rw [e1]
      exact (tryAllocateLoop_fuel_aux _ allocCnt _ host allocCnt 0 0 d1 (e1 ▸ g)
        (by rw [e1]; exact hlt)).2
    · dsimp only at e4 ⊢
      rcases e4 e rfl with rfl | ⟨_, _, rfl | rfl⟩ <;> simp
    · simp

theorem rtIndex_rbHostEnd {i : Info} (g : Geom i) (off : Nat) :
    Host.rtIndex i (Host.rbHostEnd i off) = Host.rtIndex i off + 1 := by
  unfold Host.rbHostEnd Host.rbHostStart Host.rtIndex
  rw [← g.rbIndexShift_eq, Nat.add_comm i.rbIndexShift i.cb, Nat.pow_add,
    Nat.mul_comm (2^i.rbIndexShift) (2^i.cb)]
  rw [← Nat.succ_mul]
  exact Nat.mul_div_cancel _ (Nat.mul_pos (Nat.two_pow_pos _) (Nat.two_pow_pos _))

/-- Fuel sufficiency of the outer loop of `allocate_clusters`: it advances by
    one reftable entry per iteration and stops (with an error of
    `ensure_refblock_offset`) when the reftable can grow no further.
    CHANGED (reftable growth): the measure was `d.rtLen - rtIndex hostOff`; the table
    now grows under the loop, so the measure is taken against the bound `rtCap d`
    (`= d.rtLen` when the table cannot grow, see `rtCap_of_noGrow`). -/
theorem allocateLoop_fuel_aux (count : Nat) (f1 : Nat) :
    ∀ (hostOff : Nat) (d : Dev), Geom d.info →
      rtCap d - Host.rtIndex d.info hostOff < f1 →
      (∀ f2, rtCap d - Host.rtIndex d.info hostOff < f2 →
        allocateLoop count f1 hostOff d = allocateLoop count f2 hostOff d) ∧
      (allocateLoop count f1 hostOff d).2 ≠ .err .nospace := by
  induction f1 with
  | zero => intro _ _ _ h; omega
  | succ f1 ih =>
    intro hostOff d g h1
    obtain ⟨e1, _, e2, e3⟩ := tryAllocateFrom_sameInfo hostOff count d
    have hns := tryAllocateFrom_no_nospace hostOff count d g
    have hnext : ∀ d1 : Dev, d1.info = d.info → rtCap d1 ≤ rtCap d →
        Host.rtIndex d.info hostOff < d1.rtLen →
        rtCap d1 - Host.rtIndex d1.info (Host.rbHostEnd d1.info hostOff)
          < rtCap d - Host.rtIndex d.info hostOff := by
      intro d1 a b c
      have := rtLen_le_rtCap d1
      rw [a, rtIndex_rbHostEnd g]; omega
    constructor
    · intro f2 h2
      cases f2 with
      | zero => omega
      | succ f2 =>
        rw [allocateLoop, allocateLoop]
        dsimp only
        generalize tryAllocateFrom hostOff count d = r at e1 e2 e3 ⊢
        rcases r with ⟨d1, (_ | ⟨o, n⟩) | e | p⟩
        all_goals (try dsimp only at e1 e2 e3 ⊢)
        · have hl := hnext d1 e1 e2 (e3 _ rfl)
          exact (ih (Host.rbHostEnd d1.info hostOff) d1 (e1 ▸ g) (by omega)).1 f2 (by omega)
    · rw [allocateLoop]
      dsimp only
      generalize tryAllocateFrom hostOff count d = r at e1 e2 e3 hns ⊢
      rcases r with ⟨d1, (_ | ⟨o, n⟩) | e | p⟩
      all_goals (try dsimp only at e1 e2 e3 hns ⊢)
      · have hl := hnext d1 e1 e2 (e3 _ rfl)
        exact (ih (Host.rbHostEnd d1.info hostOff) d1 (e1 ▸ g) (by omega)).2
      · simp
      · exact hns
      · simp


/-- the table never shrinks under the outer loop, and the growth bound never rises -/
theorem allocateLoop_rtLen_mono (count f hostOff : Nat) (d : Dev) :
    (allocateLoop count f hostOff d).1.info = d.info ∧
    d.rtLen ≤ (allocateLoop count f hostOff d).1.rtLen ∧
    rtCap (allocateLoop count f hostOff d).1 ≤ rtCap d := by
  induction f generalizing hostOff d with
  | zero => exact ⟨rfl, Nat.le_refl _, Nat.le_refl _⟩
  | succ f ih =>
    rw [allocateLoop]
    dsimp only
    obtain ⟨e1, e2, e3, _⟩ := tryAllocateFrom_sameInfo hostOff count d
    generalize tryAllocateFrom hostOff count d = r at e1 e2 e3 ⊢
    rcases r with ⟨d1, (_ | ⟨o, n⟩) | e | p⟩
    all_goals (try dsimp only at e1 e2 e3 ⊢)
    · obtain ⟨a, b, c⟩ := ih (Host.rbHostEnd d1.info hostOff) d1
      exact ⟨a.trans e1, Nat.le_trans e2 b, Nat.le_trans c e3⟩
    · split
      · exact ⟨e1, e2, Nat.le_trans (Nat.le_of_eq (rtCap_congr rfl rfl rfl)) e3⟩
      · exact ⟨e1, e2, e3⟩
    · exact ⟨e1, e2, e3⟩
    · exact ⟨e1, e2, e3⟩

/-! ### a frame principle for the whole allocator

A reflexive, transitive relation between states that the four primitive steps
(`growReftable`, `ensureRefblockIn`, `freeClusters`, `tryAllocFromRbSlice`) and the
update of the hint respect is respected by `allocate_clusters`, whatever the outcome. -/

section Rel
variable (R : Dev → Dev → Prop) (hrefl : ∀ d, R d d) (htrans : ∀ a b c, R a b → R b c → R a c)
  (hg : ∀ i d, d.rtLen ≤ i → R d (growReftable i d).1) (he : ∀ i d, R d (ensureRefblockIn i d).1)
  (hf : ∀ o n fz d, R d (freeClusters o n fz d).1)
  (ha : ∀ off count fixed d, R d (tryAllocFromRbSlice off count fixed d).1)
  (hh : ∀ d x, R d { d with hint := x })
include hrefl htrans hf ha

theorem loopStep_rel (rbEnd allocCnt host count outOff done : Nat) (d : Dev) :
    match loopStep rbEnd allocCnt host count outOff done d with
    | .ret r => R d r.1
    | .cont _ _ _ _ d' => R d d' := by
  unfold loopStep
  dsimp only
  by_cases hc : count > 0 ∧ host < rbEnd
  · rw [if_neg (not_not_intro hc)]
    have m1 := ha host (min count d.info.rbSliceEntries) (decide (done ≠ 0)) d
    generalize tryAllocFromRbSlice host (min count d.info.rbSliceEntries) (decide (done ≠ 0)) d = r at m1
    rcases r with ⟨d1, (_ | ⟨o, n⟩) | e | p⟩
    all_goals (try dsimp only at m1 ⊢)
    · by_cases h0 : done = 0
      · rw [if_pos h0]; exact m1
      · rw [if_neg h0]; exact m1
    · by_cases hf' : done ≠ 0 ∧ host ≠ o
      · rw [if_pos hf']
        have m2 := hf outOff done true d1
        generalize freeClusters outOff done true d1 = r2 at m2
        rcases r2 with ⟨d2, _ | e | p⟩
        all_goals (try dsimp only at m2 ⊢)
        · have m3 := hf o n true d2
          generalize freeClusters o n true d2 = r3 at m3
          rcases r3 with ⟨d3, _ | e | p⟩ <;>
            exact htrans _ _ _ m1 (htrans _ _ _ m2 m3)
        · exact htrans _ _ _ m1 m2
        · exact htrans _ _ _ m1 m2
      · rw [if_neg hf']
        by_cases hn : n > count
        · rw [if_pos hn]; exact m1
        · rw [if_neg hn]; exact m1
    · exact m1
    · exact m1
  · rw [if_pos hc]; exact hrefl d

theorem tryAllocateLoop_rel (rbEnd allocCnt fuel host count outOff done : Nat) (d : Dev) :
    R d (tryAllocateLoop rbEnd allocCnt fuel host count outOff done d).1 := by
  induction fuel generalizing host count outOff done d with
  | zero => exact hrefl d
  | succ fuel ih =>
    rw [tryAllocateLoop_succ]
    have := loopStep_rel R hrefl htrans hf ha rbEnd allocCnt host count outOff done d
    split <;> rename_i heq <;> rw [heq] at this
    · exact this
    · exact htrans _ _ _ this (ih _ _ _ _ _)

include hg he

theorem tryAllocateFrom_rel (host allocCnt : Nat) (d : Dev) :
    R d (tryAllocateFrom host allocCnt d).1 := by
  unfold tryAllocateFrom
  split
  · exact hrefl d
  · have h1 := ensureRefblock_rel R hrefl htrans hg he hf host d
    generalize ensureRefblock host d = r at h1
    rcases r with ⟨d1, _ | e | p⟩
    · exact htrans _ _ _ h1 (tryAllocateLoop_rel R hrefl htrans hf ha _ _ _ _ _ _ _ d1)
    · exact h1
    · exact h1

include hh

theorem allocateLoop_rel (count fuel hostOff : Nat) (d : Dev) :
    R d (allocateLoop count fuel hostOff d).1 := by
  induction fuel generalizing hostOff d with
  | zero => exact hrefl d
  | succ fuel ih =>
    rw [allocateLoop]
    dsimp only
    have h1 := tryAllocateFrom_rel R hrefl htrans hg he hf ha hostOff count d
    generalize tryAllocateFrom hostOff count d = r at h1
    rcases r with ⟨d1, (_ | ⟨o, n⟩) | e | p⟩
    all_goals (try dsimp only at h1 ⊢)
    · exact htrans _ _ _ h1 (ih _ d1)
    · split
      · exact htrans _ _ _ h1 (hh d1 _)
      · exact h1
    · exact h1
    · exact h1

theorem allocateClusters_rel (count : Nat) (d : Dev) : R d (allocateClusters count d).1 :=
  allocateLoop_rel R hrefl htrans hg he hf ha hh count _ _ d

end Rel

/-- fuel monotonicity, no geometry assumption: a result other than the
    fuel-exhaustion error is stable under adding fuel -/
theorem tryAllocateLoop_fuel_mono_aux (rbEnd allocCnt : Nat) (f : Nat) :
    ∀ (host count outOff done : Nat) (d : Dev),
      (tryAllocateLoop rbEnd allocCnt f host count outOff done d).2 ≠ .err .nospace →
      ∀ k, tryAllocateLoop rbEnd allocCnt (f + k) host count outOff done d
        = tryAllocateLoop rbEnd allocCnt f host count outOff done d := by
  induction f with
  | zero => intro host count outOff done d h; exact absurd rfl h
  | succ f ih =>
    intro host count outOff done d h k
    have e : f + 1 + k = (f + k) + 1 := by omega
    rw [e, tryAllocateLoop_succ, tryAllocateLoop_succ]
    rw [tryAllocateLoop_succ] at h
    cases hstep : loopStep rbEnd allocCnt host count outOff done d with
    | ret r => rfl
    | cont h' c o dn d' =>
      rw [hstep] at h
      exact ih h' c o dn d' h k

theorem allocateLoop_fuel_mono_aux (count : Nat) (f : Nat) :
    ∀ (hostOff : Nat) (d : Dev),
      (allocateLoop count f hostOff d).2 ≠ .err .nospace →
      ∀ k, allocateLoop count (f + k) hostOff d = allocateLoop count f hostOff d := by
  induction f with
  | zero => intro hostOff d h; exact absurd rfl h
  | succ f ih =>
    intro hostOff d h k
    have e : f + 1 + k = (f + k) + 1 := by omega
    rw [e, allocateLoop, allocateLoop]
    rw [allocateLoop] at h
    dsimp only at h ⊢
    generalize tryAllocateFrom hostOff count d = r at h ⊢
    rcases r with ⟨d1, (_ | ⟨o, n⟩) | e | p⟩
    all_goals (try dsimp only at h ⊢)
    · exact ih _ d1 h k

end Qv.Model
