import Qv.Model.SliceProto
/-
Proofs about the slice protocol model (`Qv.Model.Slice`) under the `.fixed`
eviction policy: an inductive invariant `Inv` of all states reachable without
`Step.loadFail`, and what it gives (used by `Qv/Props/C06Cache.lean`).
-/
namespace Qv.Proofs.SliceProto
open Qv.Model.Lru Qv.Model.Slice

/-! ## association lists -/

/-- all entries reachable through the cache -/
def ents (c : Cache) : Map := c.rmap ++ c.wmap

theorem mem_ents {c : Cache} {p : Nat × Entry} : p ∈ ents c ↔ p ∈ c.rmap ∨ p ∈ c.wmap :=
  List.mem_append

/-- two map cells with different key and different entry id -/
abbrev Distinct (p q : Nat × Entry) : Prop := p.1 ≠ q.1 ∧ p.2.id ≠ q.2.id

theorem pw_inj {l : Map} (h : l.Pairwise Distinct) {p q : Nat × Entry} (hp : p ∈ l) (hq : q ∈ l)
    (hk : p.1 = q.1 ∨ p.2.id = q.2.id) : p = q := by
  induction h with
  | nil => cases hp
  | cons hd _ ih =>
    rcases List.mem_cons.1 hp with rfl | hp' <;> rcases List.mem_cons.1 hq with rfl | hq'
    · rfl
    · have := hd _ hq'; rcases hk with hk | hk
      · exact absurd hk this.1
      · exact absurd hk this.2
    · have := hd _ hp'; rcases hk with hk | hk
      · exact absurd hk.symm this.1
      · exact absurd hk.symm this.2
    · exact ih hp' hq'

theorem pw_key_inj {l : Map} (h : l.Pairwise Distinct) {p q : Nat × Entry} (hp : p ∈ l) (hq : q ∈ l)
    (hk : p.1 = q.1) : p = q := pw_inj h hp hq (Or.inl hk)

theorem pw_id_inj {l : Map} (h : l.Pairwise Distinct) {p q : Nat × Entry} (hp : p ∈ l) (hq : q ∈ l)
    (hk : p.2.id = q.2.id) : p = q := pw_inj h hp hq (Or.inr hk)

theorem lookup_some {m : Map} {k : Nat} {e : Entry} (h : lookup m k = some e) : (k, e) ∈ m := by
  unfold lookup at h
  cases hf : m.find? (fun p => p.1 == k) with
  | none => simp [hf] at h
  | some p =>
    simp [hf] at h
    have h1 := List.find?_some hf
    have h2 := List.mem_of_find?_eq_some hf
    have : p = (k, e) := by
      cases p; simp at h1 h; simp [h1, h]
    exact this ▸ h2

theorem lookup_none {m : Map} {k : Nat} (h : lookup m k = none) : ∀ p ∈ m, p.1 ≠ k := by
  unfold lookup at h
  simp only [Option.map_eq_none_iff, List.find?_eq_none] at h
  intro p hp hk
  exact h p hp (by simp [hk])

theorem lookup_isSome_of_mem {m : Map} {p : Nat × Entry} (hp : p ∈ m) : ∃ e, lookup m p.1 = some e := by
  cases h : lookup m p.1 with
  | some e => exact ⟨e, rfl⟩
  | none => exact absurd rfl (lookup_none h p hp)

theorem lookup_eq_of_mem {m : Map} (h : m.Pairwise Distinct) {p : Nat × Entry} (hp : p ∈ m) :
    lookup m p.1 = some p.2 := by
  obtain ⟨e, he⟩ := lookup_isSome_of_mem hp
  have := pw_key_inj h (lookup_some he) hp rfl
  rw [he]; rw [← this]

theorem entryOf_some {c : Cache} {i : Nat} {p : Nat × Entry} (h : entryOf c i = some p) :
    p ∈ ents c ∧ p.2.id = i := by
  unfold entryOf at h
  split at h
  · next q hq =>
    cases h
    exact ⟨mem_ents.2 (Or.inl (List.mem_of_find?_eq_some hq)), by simpa using List.find?_some hq⟩
  · exact ⟨mem_ents.2 (Or.inr (List.mem_of_find?_eq_some h)), by simpa using List.find?_some h⟩

theorem entryOf_none {c : Cache} {i : Nat} (h : entryOf c i = none) : ∀ p ∈ ents c, p.2.id ≠ i := by
  unfold entryOf at h
  split at h
  · cases h
  · next hr =>
    intro p hp hi
    rcases mem_ents.1 hp with hp | hp
    · exact List.find?_eq_none.1 hr p hp (by simp [hi])
    · exact List.find?_eq_none.1 h p hp (by simp [hi])

theorem inCache_iff {c : Cache} {i : Nat} : inCache c i = true ↔ ∃ p ∈ ents c, p.2.id = i := by
  unfold inCache
  cases h : entryOf c i with
  | some p => simp only [Option.isSome_some, true_iff]; exact ⟨p, entryOf_some h⟩
  | none =>
    simp only [Option.isSome_none, Bool.false_eq_true, false_iff]
    rintro ⟨p, hp, hi⟩; exact entryOf_none h p hp hi

theorem isDirty_true {c : Cache} {i : Nat} (h : isDirty c i = true) :
    ∃ p ∈ ents c, p.2.id = i ∧ p.2.dirty = true := by
  unfold isDirty at h
  split at h
  · next p hp => exact ⟨p, (entryOf_some hp).1, (entryOf_some hp).2, h⟩
  · cases h

/-- `updateId` cell by cell -/
def updCell (i : Nat) (f : Entry → Entry) (p : Nat × Entry) : Nat × Entry :=
  if p.2.id == i then (p.1, f p.2) else p

theorem updateId_eq (m : Map) (i : Nat) (f : Entry → Entry) : updateId m i f = m.map (updCell i f) := rfl

theorem updCell_of_eq {i : Nat} {f : Entry → Entry} {p : Nat × Entry} (h : p.2.id = i) :
    updCell i f p = (p.1, f p.2) := by simp [updCell, h]

theorem updCell_of_ne {i : Nat} {f : Entry → Entry} {p : Nat × Entry} (h : p.2.id ≠ i) :
    updCell i f p = p := by simp [updCell, h]

theorem updCell_key (i : Nat) (f : Entry → Entry) (p : Nat × Entry) : (updCell i f p).1 = p.1 := by
  unfold updCell; split <;> rfl

theorem updCell_id {i : Nat} {f : Entry → Entry} (hf : ∀ e, (f e).id = e.id) (p : Nat × Entry) :
    (updCell i f p).2.id = p.2.id := by
  unfold updCell; split <;> simp [hf]

/-! ## reference counting -/

/-- every reference a task holds on a cache entry, by entry id -/
def refsList (s : Sys) : List Nat := s.held ++ (s.wbq.map (·.2) ++ s.inflight.map (·.2.1))

/-- number of task references on entry `i` -/
def rc (s : Sys) (i : Nat) : Nat := (refsList s).count i

theorem rc_def (s : Sys) (j : Nat) :
    rc s j = s.held.count j + ((s.wbq.map (·.2)).count j + (s.inflight.map (·.2.1)).count j) := by
  simp [rc, refsList, List.count_append]

theorem rc_congr {s s' : Sys} (h1 : s'.held = s.held) (h2 : s'.wbq = s.wbq) (h3 : s'.inflight = s.inflight)
    (j : Nat) : rc s' j = rc s j := by
  rw [rc_def, rc_def, h1, h2, h3]

theorem count_map_erase {α : Type} [BEq α] [LawfulBEq α] (f : α → Nat) {l : List α} {a : α} (h : a ∈ l) (x : Nat) :
    (l.map f).count x = ((l.erase a).map f).count x + (if f a = x then 1 else 0) := by
  have := ((List.perm_cons_erase h).map f).count_eq x
  rw [this, List.map_cons, List.count_cons]
  simp

theorem rc_pos_iff (s : Sys) (j : Nat) :
    0 < rc s j ↔ j ∈ s.held ∨ (∃ w ∈ s.wbq, w.2 = j) ∨ (∃ w ∈ s.inflight, w.2.1 = j) := by
  unfold rc refsList
  rw [List.count_pos_iff]
  simp only [List.mem_append, List.mem_map]

/-! ## the invariant -/

structure Inv (s : Sys) : Prop where
  /-- keys are unique over rmap and wmap together, and so are entry ids -/
  pw : (ents s.cache).Pairwise Distinct
  idlt : ∀ p ∈ ents s.cache, p.2.id < s.cache.nextId
  keyOf : ∀ p ∈ ents s.cache, s.keyOf p.2.id = p.1
  /-- the reference count of an entry is the number of references tasks hold -/
  refs : ∀ p ∈ ents s.cache, p.2.refs = rc s p.2.id
  /-- whatever a task holds a reference to is still the cache's entry -/
  ref_in : ∀ i, 0 < rc s i → ∃ p ∈ ents s.cache, p.2.id = i
  wbq_key : ∀ w ∈ s.wbq, s.keyOf w.2 = w.1
  infl : ∀ w ∈ s.inflight, s.keyOf w.2.1 = w.1 ∧ s.loaded w.2.1 = true ∧ w.2.2 = s.val w.2.1
  infl_nodup : (s.inflight.map (·.2.1)).Nodup
  infl_clean : ∀ w ∈ s.inflight, ∀ p ∈ ents s.cache, p.2.id = w.2.1 → p.2.dirty = false
  wmap_unl : ∀ p ∈ s.cache.wmap, s.loaded p.2.id = false
  /-- a loaded entry has the latest version of its key -/
  ld : ∀ p ∈ ents s.cache, s.loaded p.2.id = true → s.val p.2.id = s.latest p.1
  /-- while an entry is not loaded the disk has the latest version -/
  unl : ∀ p ∈ ents s.cache, s.loaded p.2.id = false → s.disk p.1 = s.latest p.1 ∧ p.2.dirty = false
  /-- a clean loaded entry with no write in flight equals the disk -/
  clean : ∀ p ∈ ents s.cache, s.loaded p.2.id = true → p.2.dirty = false →
    (∀ w ∈ s.inflight, w.2.1 ≠ p.2.id) → s.disk p.1 = s.val p.2.id
  /-- a key without entry: the disk has the latest version -/
  absent : ∀ k, (∀ p ∈ ents s.cache, p.1 ≠ k) → s.disk k = s.latest k

theorem inv_init (limit : Nat) : Inv (Sys.init limit) := by
  constructor <;> simp [Sys.init, Cache.new, ents, rc, refsList]

/-- an entry nobody references and that is clean can be dropped: the disk has its content -/
theorem Inv.droppable {s : Sys} (h : Inv s) {p : Nat × Entry} (hp : p ∈ ents s.cache)
    (hr : p.2.refs = 0) (hd : p.2.dirty = false) : s.disk p.1 = s.latest p.1 := by
  cases hl : s.loaded p.2.id with
  | false => exact (h.unl p hp hl).1
  | true =>
    rw [← h.ld p hp hl]
    apply h.clean p hp hl hd
    intro w hw hi
    have : 0 < rc s p.2.id := (rc_pos_iff s _).2 (Or.inr (Or.inr ⟨w, hw, hi⟩))
    have := h.refs p hp
    omega

/-- steps that touch only reference counts / lru stamps of entries, `held` and `wbq` -/
theorem inv_frame {s s' : Sys} (h : Inv s) (G : Nat × Entry → Nat × Entry)
    (hG : ∀ p, (G p).1 = p.1 ∧ (G p).2.id = p.2.id ∧ (G p).2.dirty = p.2.dirty)
    (hr : s'.cache.rmap = s.cache.rmap.map G) (hw : s'.cache.wmap = s.cache.wmap.map G)
    (hn : s'.cache.nextId = s.cache.nextId)
    (hdisk : s'.disk = s.disk) (hval : s'.val = s.val) (hloaded : s'.loaded = s.loaded)
    (hkeyOf : s'.keyOf = s.keyOf) (hinfl : s'.inflight = s.inflight) (hlatest : s'.latest = s.latest)
    (hrefs : ∀ p ∈ ents s.cache, (G p).2.refs = rc s' p.2.id)
    (hrefin : ∀ j, 0 < rc s' j → ∃ p ∈ ents s.cache, p.2.id = j)
    (hwbq : ∀ w ∈ s'.wbq, s.keyOf w.2 = w.1) : Inv s' := by
  have hE : ents s'.cache = (ents s.cache).map G := by simp [ents, hr, hw]
  have hmem : ∀ p' ∈ ents s'.cache, ∃ p ∈ ents s.cache, p' = G p := by
    intro p' hp'; rw [hE, List.mem_map] at hp'
    obtain ⟨p, hp, rfl⟩ := hp'; exact ⟨p, hp, rfl⟩
  constructor
  · rw [hE]; exact h.pw.map G (fun a b hab => by simp only [Distinct, hG]; exact hab)
  · intro p' hp'; obtain ⟨p, hp, rfl⟩ := hmem p' hp'; rw [(hG p).2.1, hn]; exact h.idlt p hp
  · intro p' hp'; obtain ⟨p, hp, rfl⟩ := hmem p' hp'; rw [(hG p).2.1, (hG p).1, hkeyOf]; exact h.keyOf p hp
  · intro p' hp'; obtain ⟨p, hp, rfl⟩ := hmem p' hp'; rw [(hG p).2.1]; exact hrefs p hp
  · intro j hj; obtain ⟨p, hp, hi⟩ := hrefin j hj
    exact ⟨G p, by rw [hE]; exact List.mem_map_of_mem hp, by rw [(hG p).2.1]; exact hi⟩
  · intro w hw'; rw [hkeyOf]; exact hwbq w hw'
  · rw [hinfl, hkeyOf, hloaded, hval]; exact h.infl
  · rw [hinfl]; exact h.infl_nodup
  · rw [hinfl]; intro w hw' p' hp'; obtain ⟨p, hp, rfl⟩ := hmem p' hp'
    rw [(hG p).2.1, (hG p).2.2]; exact h.infl_clean w hw' p hp
  · intro p' hp'; rw [hw, List.mem_map] at hp'; obtain ⟨p, hp, rfl⟩ := hp'
    rw [(hG p).2.1, hloaded]; exact h.wmap_unl p hp
  · intro p' hp'; obtain ⟨p, hp, rfl⟩ := hmem p' hp'
    rw [(hG p).2.1, (hG p).1, hloaded, hval, hlatest]; exact h.ld p hp
  · intro p' hp'; obtain ⟨p, hp, rfl⟩ := hmem p' hp'
    rw [(hG p).2.1, (hG p).1, (hG p).2.2, hloaded, hdisk, hlatest]; exact h.unl p hp
  · intro p' hp'; obtain ⟨p, hp, rfl⟩ := hmem p' hp'
    rw [(hG p).2.1, (hG p).1, (hG p).2.2, hloaded, hdisk, hval, hinfl]; exact h.clean p hp
  · intro k hk; rw [hdisk, hlatest]; apply h.absent
    intro p hp; rw [← (hG p).1]; exact hk (G p) (by rw [hE]; exact List.mem_map_of_mem hp)

/-! ## the steps, one by one -/

/-- `update` cell by cell -/
def keyCell (k : Nat) (f : Entry → Entry) (p : Nat × Entry) : Nat × Entry :=
  if p.1 == k then (p.1, f p.2) else p

theorem update_eq (m : Map) (k : Nat) (f : Entry → Entry) : update m k f = m.map (keyCell k f) := rfl

theorem map_keyCell_of_not_mem {m : Map} {k : Nat} (f : Entry → Entry) (h : ∀ p ∈ m, p.1 ≠ k) :
    m.map (keyCell k f) = m := by
  have : m.map (keyCell k f) = m.map id := by
    apply List.map_congr_left; intro p hp; simp [keyCell, h p hp]
  simpa using this

theorem rc_addheld (s : Sys) (c' : Cache) (i j : Nat) :
    rc { s with cache := c', held := i :: s.held } j = rc s j + if i = j then 1 else 0 := by
  rw [rc_def, rc_def]; simp only [List.count_cons, beq_iff_eq]; omega

/-- a task gets one more reference on an existing entry (`get` hit, `put` on an existing key) -/
theorem inv_addref {s : Sys} (h : Inv s) {k : Nat} {e : Entry} (he : (k, e) ∈ ents s.cache)
    (f : Entry → Entry) (hf : ∀ e, (f e).id = e.id ∧ (f e).dirty = e.dirty ∧ (f e).refs = e.refs + 1)
    (c' : Cache) (hr : c'.rmap = s.cache.rmap.map (keyCell k f))
    (hw : c'.wmap = s.cache.wmap.map (keyCell k f)) (hn : c'.nextId = s.cache.nextId) :
    Inv { s with cache := c', held := e.id :: s.held } := by
  refine inv_frame h (keyCell k f) ?_ hr hw hn rfl rfl rfl rfl rfl rfl ?_ ?_ ?_
  · intro p; unfold keyCell; split <;> simp [hf]
  · intro p hp
    rw [rc_addheld]
    by_cases hk : p.1 = k
    · have : p = (k, e) := pw_key_inj h.pw hp he hk
      subst this
      simpa [keyCell, hf] using h.refs _ hp
    · have hid : e.id ≠ p.2.id := fun hi => hk (by
        have := pw_id_inj h.pw hp he hi.symm; rw [this])
      simp [keyCell, hk, hid, h.refs _ hp]
  · intro j hj
    rw [rc_addheld] at hj
    by_cases hi : e.id = j
    · exact ⟨(k, e), he, hi⟩
    · simp only [hi, if_false, Nat.add_zero] at hj; exact h.ref_in j hj
  · exact h.wbq_key

theorem rc_release (s : Sys) (c' : Cache) {i : Nat} (hm : i ∈ s.held) (j : Nat) :
    rc { s with cache := c', held := removeFirst s.held i } j = rc s j - if i = j then 1 else 0 := by
  rw [rc_def, rc_def]; simp only [removeFirst, List.count_erase, beq_iff_eq]
  by_cases hij : i = j
  · subst hij
    have := List.count_pos_iff.2 hm; simp only [if_true]; omega
  · simp only [hij, if_false]; omega

theorem release_rmap (c : Cache) (i : Nat) :
    (release c i).rmap = c.rmap.map (updCell i (fun e => { e with refs := e.refs - 1 })) := rfl
theorem release_wmap (c : Cache) (i : Nat) :
    (release c i).wmap = c.wmap.map (updCell i (fun e => { e with refs := e.refs - 1 })) := rfl

theorem updCell_frame {i : Nat} {f : Entry → Entry} (hf : ∀ e, (f e).id = e.id ∧ (f e).dirty = e.dirty)
    (p : Nat × Entry) :
    (updCell i f p).1 = p.1 ∧ (updCell i f p).2.id = p.2.id ∧ (updCell i f p).2.dirty = p.2.dirty := by
  unfold updCell; split <;> simp [hf]

/-- a task drops a reference it holds -/
theorem inv_release {s : Sys} (h : Inv s) {i : Nat} (hi : i ∈ s.held) :
    Inv { s with cache := release s.cache i, held := removeFirst s.held i } := by
  refine inv_frame h _ (updCell_frame (by intro e; simp)) (release_rmap _ i) (release_wmap _ i) rfl
    rfl rfl rfl rfl rfl rfl ?_ ?_ ?_
  · intro p hp
    rw [rc_release s _ hi]
    by_cases hk : p.2.id = i
    · simp [updCell, hk, h.refs _ hp]
    · simp [updCell, hk, Ne.symm hk, h.refs _ hp]
  · intro j hj
    rw [rc_release s _ hi] at hj
    exact h.ref_in j (by omega)
  · exact h.wbq_key

theorem rc_wbq_erase (s : Sys) (c' : Cache) {w : Nat × Nat} (hw : w ∈ s.wbq) (j : Nat) :
    rc { s with cache := c', wbq := s.wbq.erase w } j = rc s j - if w.2 = j then 1 else 0 := by
  rw [rc_def, rc_def]
  have := count_map_erase (fun x : Nat × Nat => x.2) hw j
  simp only at this ⊢
  split at this <;> simp_all <;> omega

/-- a queued write-back is skipped -/
theorem inv_wbSkip {s : Sys} (h : Inv s) {w : Nat × Nat} (hw : w ∈ s.wbq) :
    Inv { s with cache := release s.cache w.2, wbq := s.wbq.erase w } := by
  refine inv_frame h _ (updCell_frame (by intro e; simp)) (release_rmap _ _) (release_wmap _ _) rfl
    rfl rfl rfl rfl rfl rfl ?_ ?_ ?_
  · intro p hp
    rw [rc_wbq_erase s _ hw]
    by_cases hk : p.2.id = w.2
    · simp [updCell, hk, h.refs _ hp]
    · simp [updCell, hk, Ne.symm hk, h.refs _ hp]
  · intro j hj
    rw [rc_wbq_erase s _ hw] at hj
    exact h.ref_in j (by omega)
  · intro w' hw'; exact h.wbq_key w' (List.mem_of_mem_erase hw')

/-- the selected cells get one more reference -/
def bump (sel : Nat × Entry → Bool) (p : Nat × Entry) : Nat × Entry :=
  if sel p then (p.1, { p.2 with refs := p.2.refs + 1 }) else p

theorem rc_wbq_append (s : Sys) (c' : Cache) (d : List (Nat × Nat)) (j : Nat) :
    rc { s with cache := c', wbq := s.wbq ++ d } j = rc s j + (d.map (·.2)).count j := by
  rw [rc_def, rc_def]; simp only [List.map_append, List.count_append]; omega

/-- selected rmap entries are handed to a task for write-back (`get_dirty_entries`, the dirty
    victims of `commit_wmap`) -/
theorem inv_queue {s : Sys} (h : Inv s) (sel : Nat × Entry → Bool) (d : List (Nat × Nat))
    (hselw : ∀ p ∈ s.cache.wmap, sel p = false)
    (hd1 : ∀ w ∈ d, ∃ p ∈ s.cache.rmap, sel p = true ∧ w = (p.1, p.2.id))
    (hd2 : ∀ p ∈ s.cache.rmap, (d.map (·.2)).count p.2.id = if sel p then 1 else 0) :
    Inv { s with cache := { s.cache with rmap := s.cache.rmap.map (bump sel) }, wbq := s.wbq ++ d } := by
  have hwm : s.cache.wmap = s.cache.wmap.map (bump sel) := by
    have : s.cache.wmap.map (bump sel) = s.cache.wmap.map id := by
      apply List.map_congr_left; intro p hp; simp [bump, hselw p hp]
    simpa using this.symm
  refine inv_frame h (bump sel) ?_ rfl hwm rfl rfl rfl rfl rfl rfl rfl ?_ ?_ ?_
  · intro p; unfold bump; split <;> simp
  · intro p hp
    rw [rc_wbq_append]
    rcases mem_ents.1 hp with hpr | hpw
    · rw [hd2 p hpr, ← h.refs p hp]; unfold bump; split <;> simp
    · have h0 : (d.map (·.2)).count p.2.id = 0 := by
        apply List.count_eq_zero.2
        intro hm
        obtain ⟨w, hw, hwi⟩ := List.mem_map.1 hm
        obtain ⟨q, hq, hsq, rfl⟩ := hd1 w hw
        have : q = p := pw_id_inj h.pw (mem_ents.2 (Or.inl hq)) hp hwi
        subst this
        rw [hselw q hpw] at hsq; cases hsq
      rw [h0, ← h.refs p hp]; simp [bump, hselw p hpw]
  · intro j hj
    rw [rc_wbq_append] at hj
    by_cases hm : j ∈ d.map (·.2)
    · obtain ⟨w, hw, hwi⟩ := List.mem_map.1 hm
      obtain ⟨q, hq, _, rfl⟩ := hd1 w hw
      exact ⟨q, mem_ents.2 (Or.inl hq), hwi⟩
    · rw [List.count_eq_zero.2 hm] at hj; exact h.ref_in j hj
  · intro w hw
    rcases List.mem_append.1 hw with hw | hw
    · exact h.wbq_key w hw
    · obtain ⟨q, hq, _, rfl⟩ := hd1 w hw
      exact h.keyOf q (mem_ents.2 (Or.inl hq))

/-- rmap entries that are clean and unreferenced are dropped (`shrink`, the clean victims of
    `commit_wmap`) -/
theorem inv_evict {s : Sys} (h : Inv s) (keep : Nat × Entry → Bool)
    (hk : ∀ p ∈ s.cache.rmap, keep p = false → p.2.refs = 0 ∧ p.2.dirty = false) :
    Inv { s with cache := { s.cache with rmap := s.cache.rmap.filter keep } } := by
  have hsub : (s.cache.rmap.filter keep ++ s.cache.wmap).Sublist (ents s.cache) :=
    List.Sublist.append List.filter_sublist (List.Sublist.refl _)
  have hmem : ∀ p ∈ s.cache.rmap.filter keep ++ s.cache.wmap, p ∈ ents s.cache := fun p hp => hsub.subset hp
  have hrc : ∀ j, rc { s with cache := { s.cache with rmap := s.cache.rmap.filter keep } } j = rc s j :=
    fun j => by rw [rc_def, rc_def]
  have hkept : ∀ p ∈ ents s.cache, p ∉ s.cache.rmap.filter keep ++ s.cache.wmap →
      p.2.refs = 0 ∧ p.2.dirty = false := by
    intro p hp hnp
    rcases mem_ents.1 hp with hpr | hpw
    · apply hk p hpr
      cases hkp : keep p with
      | false => rfl
      | true => exact absurd (List.mem_append_left _ (List.mem_filter.2 ⟨hpr, hkp⟩)) hnp
    · exact absurd (List.mem_append_right _ hpw) hnp
  constructor
  · exact h.pw.sublist hsub
  · intro p hp; exact h.idlt p (hmem p hp)
  · intro p hp; exact h.keyOf p (hmem p hp)
  · intro p hp; rw [hrc]; exact h.refs p (hmem p hp)
  · intro j hj; rw [hrc] at hj
    obtain ⟨p, hp, hi⟩ := h.ref_in j hj
    refine ⟨p, ?_, hi⟩
    apply Classical.byContradiction; intro hnp
    have := (hkept p hp hnp).1
    have := h.refs p hp
    rw [hi] at this; omega
  · exact h.wbq_key
  · exact h.infl
  · exact h.infl_nodup
  · intro w hw p hp; exact h.infl_clean w hw p (hmem p hp)
  · exact h.wmap_unl
  · intro p hp; exact h.ld p (hmem p hp)
  · intro p hp; exact h.unl p (hmem p hp)
  · intro p hp; exact h.clean p (hmem p hp)
  · intro k hk'
    by_cases hex : ∃ p ∈ ents s.cache, p.1 = k
    · obtain ⟨p, hp, rfl⟩ := hex
      have hnp : p ∉ s.cache.rmap.filter keep ++ s.cache.wmap := fun hin => hk' p hin rfl
      exact h.droppable hp (hkept p hp hnp).1 (hkept p hp hnp).2
    · exact h.absent k (fun p hp hpk => hex ⟨p, hp, hpk⟩)

/-- the loader of `i` stores what it read and `commit_wmap` drains wmap into rmap -/
theorem inv_load {s : Sys} (h : Inv s) {i : Nat} (hl : s.loaded i = false) :
    Inv { s with cache := { s.cache with rmap := s.cache.rmap ++ s.cache.wmap, wmap := [] },
                 val := upd s.val i (s.disk (s.keyOf i)), loaded := upd s.loaded i true } := by
  have hE : (s.cache.rmap ++ s.cache.wmap) ++ [] = ents s.cache := by simp [ents]
  have hrc := fun j => rc_congr (s := s) (s' := { s with
    cache := { s.cache with rmap := s.cache.rmap ++ s.cache.wmap, wmap := [] },
    val := upd s.val i (s.disk (s.keyOf i)), loaded := upd s.loaded i true }) rfl rfl rfl j
  constructor
  · show List.Pairwise Distinct ((s.cache.rmap ++ s.cache.wmap) ++ [])
    rw [hE]; exact h.pw
  · show ∀ p ∈ (s.cache.rmap ++ s.cache.wmap) ++ [], _
    rw [hE]; exact h.idlt
  · show ∀ p ∈ (s.cache.rmap ++ s.cache.wmap) ++ [], _
    rw [hE]; exact h.keyOf
  · show ∀ p ∈ (s.cache.rmap ++ s.cache.wmap) ++ [], _
    rw [hE]; intro p hp; rw [hrc]; exact h.refs p hp
  · intro j hj; rw [hrc] at hj
    show ∃ p ∈ (s.cache.rmap ++ s.cache.wmap) ++ [], _
    rw [hE]; exact h.ref_in j hj
  · exact h.wbq_key
  · intro w hw
    obtain ⟨h1, h2, h3⟩ := h.infl w hw
    have hne : w.2.1 ≠ i := fun he => by rw [he, hl] at h2; cases h2
    simp only [upd, hne, if_false]; exact ⟨h1, h2, h3⟩
  · exact h.infl_nodup
  · show ∀ w ∈ s.inflight, ∀ p ∈ (s.cache.rmap ++ s.cache.wmap) ++ [], _
    rw [hE]; exact h.infl_clean
  · intro p hp; cases hp
  · show ∀ p ∈ (s.cache.rmap ++ s.cache.wmap) ++ [], _
    rw [hE]; intro p hp
    simp only [upd]
    by_cases hi : p.2.id = i
    · intro _
      simp only [hi, if_true]
      rw [← hi, h.keyOf p hp]
      exact (h.unl p hp (hi ▸ hl)).1
    · simp only [hi, if_false]; exact h.ld p hp
  · show ∀ p ∈ (s.cache.rmap ++ s.cache.wmap) ++ [], _
    rw [hE]; intro p hp
    simp only [upd]
    by_cases hi : p.2.id = i
    · simp [hi]
    · simp only [hi, if_false]; exact h.unl p hp
  · show ∀ p ∈ (s.cache.rmap ++ s.cache.wmap) ++ [], _
    rw [hE]; intro p hp
    simp only [upd]
    by_cases hi : p.2.id = i
    · intro _ _ _
      simp only [hi, if_true]
      rw [← hi, h.keyOf p hp]
    · simp only [hi, if_false]; exact h.clean p hp
  · show ∀ k, (∀ p ∈ (s.cache.rmap ++ s.cache.wmap) ++ [], _) → _
    rw [hE]; exact h.absent

/-- the part of the invariant about keys, ids and reference counts -/
structure Shape (s : Sys) : Prop where
  pw : (ents s.cache).Pairwise Distinct
  idlt : ∀ p ∈ ents s.cache, p.2.id < s.cache.nextId
  keyOf : ∀ p ∈ ents s.cache, s.keyOf p.2.id = p.1
  refs : ∀ p ∈ ents s.cache, p.2.refs = rc s p.2.id
  ref_in : ∀ i, 0 < rc s i → ∃ p ∈ ents s.cache, p.2.id = i
  wmap_unl : ∀ p ∈ s.cache.wmap, s.loaded p.2.id = false

theorem ents_map {c c' : Cache} {G : Nat × Entry → Nat × Entry} (hr : c'.rmap = c.rmap.map G)
    (hw : c'.wmap = c.wmap.map G) : ents c' = (ents c).map G := by simp [ents, hr, hw]

theorem shape_map {s s' : Sys} (h : Inv s) (G : Nat × Entry → Nat × Entry)
    (hG : ∀ p, (G p).1 = p.1 ∧ (G p).2.id = p.2.id)
    (hr : s'.cache.rmap = s.cache.rmap.map G) (hw : s'.cache.wmap = s.cache.wmap.map G)
    (hn : s'.cache.nextId = s.cache.nextId)
    (hloaded : s'.loaded = s.loaded) (hkeyOf : s'.keyOf = s.keyOf)
    (hrefs : ∀ p ∈ ents s.cache, (G p).2.refs = rc s' p.2.id)
    (hrefin : ∀ j, 0 < rc s' j → ∃ p ∈ ents s.cache, p.2.id = j) : Shape s' := by
  have hE := ents_map hr hw
  have hmem : ∀ p' ∈ ents s'.cache, ∃ p ∈ ents s.cache, p' = G p := by
    intro p' hp'; rw [hE, List.mem_map] at hp'
    obtain ⟨p, hp, rfl⟩ := hp'; exact ⟨p, hp, rfl⟩
  constructor
  · rw [hE]; exact h.pw.map G (fun a b hab => by simp only [Distinct, hG]; exact hab)
  · intro p' hp'; obtain ⟨p, hp, rfl⟩ := hmem p' hp'; rw [(hG p).2, hn]; exact h.idlt p hp
  · intro p' hp'; obtain ⟨p, hp, rfl⟩ := hmem p' hp'; rw [(hG p).2, (hG p).1, hkeyOf]; exact h.keyOf p hp
  · intro p' hp'; obtain ⟨p, hp, rfl⟩ := hmem p' hp'; rw [(hG p).2]; exact hrefs p hp
  · intro j hj; obtain ⟨p, hp, hi⟩ := hrefin j hj
    exact ⟨G p, by rw [hE]; exact List.mem_map_of_mem hp, by rw [(hG p).2]; exact hi⟩
  · intro p' hp'; rw [hw, List.mem_map] at hp'; obtain ⟨p, hp, rfl⟩ := hp'
    rw [(hG p).2, hloaded]; exact h.wmap_unl p hp

theorem Inv.ofShape {s : Sys} (sh : Shape s)
    (wbq_key : ∀ w ∈ s.wbq, s.keyOf w.2 = w.1)
    (infl : ∀ w ∈ s.inflight, s.keyOf w.2.1 = w.1 ∧ s.loaded w.2.1 = true ∧ w.2.2 = s.val w.2.1)
    (infl_nodup : (s.inflight.map (·.2.1)).Nodup)
    (infl_clean : ∀ w ∈ s.inflight, ∀ p ∈ ents s.cache, p.2.id = w.2.1 → p.2.dirty = false)
    (ld : ∀ p ∈ ents s.cache, s.loaded p.2.id = true → s.val p.2.id = s.latest p.1)
    (unl : ∀ p ∈ ents s.cache, s.loaded p.2.id = false → s.disk p.1 = s.latest p.1 ∧ p.2.dirty = false)
    (clean : ∀ p ∈ ents s.cache, s.loaded p.2.id = true → p.2.dirty = false →
      (∀ w ∈ s.inflight, w.2.1 ≠ p.2.id) → s.disk p.1 = s.val p.2.id)
    (absent : ∀ k, (∀ p ∈ ents s.cache, p.1 ≠ k) → s.disk k = s.latest k) : Inv s :=
  ⟨sh.pw, sh.idlt, sh.keyOf, sh.refs, sh.ref_in, wbq_key, infl, infl_nodup, infl_clean, sh.wmap_unl,
   ld, unl, clean, absent⟩

theorem setDirty_rmap (c : Cache) (i : Nat) (b : Bool) :
    (setDirty c i b).rmap = c.rmap.map (updCell i (fun e => { e with dirty := b })) := rfl
theorem setDirty_wmap (c : Cache) (i : Nat) (b : Bool) :
    (setDirty c i b).wmap = c.wmap.map (updCell i (fun e => { e with dirty := b })) := rfl

theorem updCell_kid {i : Nat} {f : Entry → Entry} (hf : ∀ e, (f e).id = e.id) (p : Nat × Entry) :
    (updCell i f p).1 = p.1 ∧ (updCell i f p).2.id = p.2.id := ⟨updCell_key i f p, updCell_id hf p⟩

/-- a task stores a new version into a loaded entry it holds -/
theorem inv_modify {s : Sys} (h : Inv s) {i : Nat} (hi : i ∈ s.held) (_hl : s.loaded i = true)
    (hnf : ∀ w ∈ s.inflight, w.2.1 ≠ i) :
    Inv { s with cache := setDirty s.cache i true, val := upd s.val i s.nextVer,
                 latest := upd s.latest (s.keyOf i) s.nextVer, nextVer := s.nextVer + 1 } := by
  obtain ⟨p0, hp0, hp0i⟩ := h.ref_in i ((rc_pos_iff s i).2 (Or.inl hi))
  have hk0 : s.keyOf i = p0.1 := by rw [← hp0i]; exact h.keyOf p0 hp0
  let f : Entry → Entry := fun e => { e with dirty := true }
  have hf : ∀ e, (f e).id = e.id := fun _ => rfl
  have hE : ents (setDirty s.cache i true) = (ents s.cache).map (updCell i f) :=
    ents_map (setDirty_rmap _ _ _) (setDirty_wmap _ _ _)
  have hmem : ∀ p' ∈ ents (setDirty s.cache i true), ∃ p ∈ ents s.cache, p' = updCell i f p := by
    intro p' hp'; rw [hE, List.mem_map] at hp'
    obtain ⟨p, hp, rfl⟩ := hp'; exact ⟨p, hp, rfl⟩
  have hkey : ∀ p ∈ ents s.cache, p.2.id ≠ i → p.1 ≠ s.keyOf i := by
    intro p hp hne hk; rw [hk0] at hk
    exact hne (by rw [pw_key_inj h.pw hp hp0 hk]; exact hp0i)
  refine Inv.ofShape ?_ ?_ ?_ ?_ ?_ ?_ ?_ ?_ ?_
  · refine shape_map h (updCell i f) (updCell_kid hf) (setDirty_rmap _ _ _) (setDirty_wmap _ _ _) rfl rfl rfl ?_ ?_
    · intro p hp; show _ = rc s p.2.id
      rw [← h.refs p hp]; unfold updCell; split <;> rfl
    · intro j hj; exact h.ref_in j hj
  · exact h.wbq_key
  · intro w hw
    obtain ⟨h1, h2, h3⟩ := h.infl w hw
    simp only [upd, hnf w hw, if_false]; exact ⟨h1, h2, h3⟩
  · exact h.infl_nodup
  · intro w hw p' hp' hid
    obtain ⟨p, hp, rfl⟩ := hmem p' hp'
    rw [updCell_id hf] at hid
    have hne : p.2.id ≠ i := by rw [hid]; exact hnf w hw
    rw [updCell_of_ne hne]; exact h.infl_clean w hw p hp hid
  · intro p' hp'
    obtain ⟨p, hp, rfl⟩ := hmem p' hp'
    rw [updCell_id hf, updCell_key]
    simp only [upd]
    by_cases hpi : p.2.id = i
    · intro _
      have : p.1 = s.keyOf i := by rw [← hpi]; exact (h.keyOf p hp).symm
      simp [hpi, this]
    · simp only [hpi, hkey p hp hpi, if_false]; exact h.ld p hp
  · intro p' hp'
    obtain ⟨p, hp, rfl⟩ := hmem p' hp'
    rw [updCell_id hf, updCell_key]
    intro hlp
    have hpi : p.2.id ≠ i := fun he => by rw [he, _hl] at hlp; cases hlp
    rw [updCell_of_ne hpi]
    simp only [upd, hkey p hp hpi, if_false]; exact h.unl p hp hlp
  · intro p' hp'
    obtain ⟨p, hp, rfl⟩ := hmem p' hp'
    rw [updCell_id hf, updCell_key]
    intro hlp hd hw
    have hpi : p.2.id ≠ i := fun he => by rw [updCell_of_eq he] at hd; cases hd
    rw [updCell_of_ne hpi] at hd
    simp only [upd, hpi, if_false]; exact h.clean p hp hlp hd hw
  · intro k hk
    have hk' : ∀ p ∈ ents s.cache, p.1 ≠ k := by
      intro p hp; rw [← updCell_key i f p]
      exact hk _ (by rw [hE]; exact List.mem_map_of_mem hp)
    have : k ≠ s.keyOf i := by rw [hk0]; exact fun he => hk' p0 hp0 he.symm
    simp only [upd, this, if_false]; exact h.absent k hk'

theorem rc_wbStart (s : Sys) (c' : Cache) {w : Nat × Nat} (hw : w ∈ s.wbq) (v j : Nat) :
    rc { s with cache := c', wbq := s.wbq.erase w, inflight := s.inflight ++ [(w.1, w.2, v)] } j = rc s j := by
  rw [rc_def, rc_def]
  have := count_map_erase (fun x : Nat × Nat => x.2) hw j
  simp only [List.map_append, List.count_append, List.map_cons, List.map_nil, List.count_cons,
    List.count_nil, beq_iff_eq] at this ⊢
  omega

/-- the write-back of a queued dirty entry starts -/
theorem inv_wbStart {s : Sys} (h : Inv s) {w : Nat × Nat} (hw : w ∈ s.wbq)
    (hd : isDirty s.cache w.2 = true) (hl : s.loaded w.2 = true) :
    Inv { s with cache := setDirty s.cache w.2 false, wbq := s.wbq.erase w,
                 inflight := s.inflight ++ [(w.1, w.2, s.val w.2)] } := by
  let f : Entry → Entry := fun e => { e with dirty := false }
  have hf : ∀ e, (f e).id = e.id := fun _ => rfl
  have hE : ents (setDirty s.cache w.2 false) = (ents s.cache).map (updCell w.2 f) :=
    ents_map (setDirty_rmap _ _ _) (setDirty_wmap _ _ _)
  have hmem : ∀ p' ∈ ents (setDirty s.cache w.2 false), ∃ p ∈ ents s.cache, p' = updCell w.2 f p := by
    intro p' hp'; rw [hE, List.mem_map] at hp'
    obtain ⟨p, hp, rfl⟩ := hp'; exact ⟨p, hp, rfl⟩
  have hnoinfl : ∀ w' ∈ s.inflight, w'.2.1 ≠ w.2 := by
    intro w' hw' he
    obtain ⟨p, hp, hpi, hpd⟩ := isDirty_true hd
    have := h.infl_clean w' hw' p hp (by rw [hpi, he])
    rw [this] at hpd; cases hpd
  refine Inv.ofShape ?_ ?_ ?_ ?_ ?_ ?_ ?_ ?_ ?_
  · refine shape_map h (updCell w.2 f) (updCell_kid hf) (setDirty_rmap _ _ _) (setDirty_wmap _ _ _) rfl rfl rfl ?_ ?_
    · intro p hp; rw [rc_wbStart s _ hw, ← h.refs p hp]; unfold updCell; split <;> rfl
    · intro j hj; rw [rc_wbStart s _ hw] at hj; exact h.ref_in j hj
  · intro w' hw'; exact h.wbq_key w' (List.mem_of_mem_erase hw')
  · intro w' hw'
    rcases List.mem_append.1 hw' with hw' | hw'
    · exact h.infl w' hw'
    · simp only [List.mem_singleton] at hw'; subst hw'
      exact ⟨h.wbq_key w hw, hl, rfl⟩
  · show ((s.inflight ++ [(w.1, w.2, s.val w.2)]).map (·.2.1)).Nodup
    rw [List.map_append, List.nodup_append]
    refine ⟨h.infl_nodup, by simp, ?_⟩
    intro a ha b hb
    simp only [List.map_cons, List.map_nil, List.mem_singleton] at hb; subst hb
    obtain ⟨w', hw', rfl⟩ := List.mem_map.1 ha
    exact hnoinfl w' hw'
  · intro w' hw' p' hp' hid
    obtain ⟨p, hp, rfl⟩ := hmem p' hp'
    rw [updCell_id hf] at hid
    by_cases hpi : p.2.id = w.2
    · rw [updCell_of_eq hpi]
    · rw [updCell_of_ne hpi]
      rcases List.mem_append.1 hw' with hw' | hw'
      · exact h.infl_clean w' hw' p hp hid
      · simp only [List.mem_singleton] at hw'; subst hw'; exact absurd hid hpi
  · intro p' hp'
    obtain ⟨p, hp, rfl⟩ := hmem p' hp'
    rw [updCell_id hf, updCell_key]; exact h.ld p hp
  · intro p' hp'
    obtain ⟨p, hp, rfl⟩ := hmem p' hp'
    rw [updCell_id hf, updCell_key]
    intro hlp
    have hpi : p.2.id ≠ w.2 := fun he => by rw [he, hl] at hlp; cases hlp
    rw [updCell_of_ne hpi]; exact h.unl p hp hlp
  · intro p' hp'
    obtain ⟨p, hp, rfl⟩ := hmem p' hp'
    rw [updCell_id hf, updCell_key]
    intro hlp hdp hwp
    have hpi : p.2.id ≠ w.2 := fun he =>
      hwp (w.1, w.2, s.val w.2) (List.mem_append_right _ (List.mem_singleton.2 rfl)) he.symm
    rw [updCell_of_ne hpi] at hdp
    exact h.clean p hp hlp hdp (fun w' hw' => hwp w' (List.mem_append_left _ hw'))
  · intro k hk
    apply h.absent k
    intro p hp; rw [← updCell_key w.2 f p]
    exact hk _ (by rw [hE]; exact List.mem_map_of_mem hp)

theorem rc_infl_erase (s : Sys) (c' : Cache) (dk : Nat → Nat) {w : Nat × Nat × Nat} (hw : w ∈ s.inflight) (j : Nat) :
    rc { s with cache := c', inflight := s.inflight.erase w, disk := dk } j
      = rc s j - if w.2.1 = j then 1 else 0 := by
  rw [rc_def, rc_def]
  have := count_map_erase (fun x : Nat × Nat × Nat => x.2.1) hw j
  simp only at this ⊢
  omega

theorem nodup_erase_ne {α : Type} [BEq α] [LawfulBEq α] (f : α → Nat) {l : List α} (h : (l.map f).Nodup)
    {w w' : α} (hw : w ∈ l) (hw' : w' ∈ l.erase w) : f w' ≠ f w := by
  have hp := ((List.perm_cons_erase hw).map f).nodup_iff.1 h
  rw [List.map_cons, List.nodup_cons] at hp
  intro he; exact hp.1 (he ▸ List.mem_map_of_mem hw')

theorem mem_erase_of_key_ne {w w' : Nat × Nat × Nat} {l : List (Nat × Nat × Nat)} (hw' : w' ∈ l)
    (hne : w'.2.1 ≠ w.2.1) : w' ∈ l.erase w :=
  (List.mem_erase_of_ne (fun he => hne (by rw [he]))).2 hw'

/-- the write request of an entry completes -/
theorem inv_wbDone_ok {s : Sys} (h : Inv s) {w : Nat × Nat × Nat} (hw : w ∈ s.inflight) :
    Inv { s with cache := release s.cache w.2.1, inflight := s.inflight.erase w,
                 disk := upd s.disk w.1 w.2.2 } := by
  obtain ⟨hwk, hwl, hwv⟩ := h.infl w hw
  obtain ⟨p0, hp0, hp0i⟩ := h.ref_in w.2.1 ((rc_pos_iff s _).2 (Or.inr (Or.inr ⟨w, hw, rfl⟩)))
  have hk0 : p0.1 = w.1 := by rw [← hwk, ← hp0i]; exact (h.keyOf p0 hp0).symm
  let f : Entry → Entry := fun e => { e with refs := e.refs - 1 }
  have hf : ∀ e, (f e).id = e.id ∧ (f e).dirty = e.dirty := fun _ => ⟨rfl, rfl⟩
  have hE : ents (release s.cache w.2.1) = (ents s.cache).map (updCell w.2.1 f) :=
    ents_map (release_rmap _ _) (release_wmap _ _)
  have hmem : ∀ p' ∈ ents (release s.cache w.2.1), ∃ p ∈ ents s.cache, p' = updCell w.2.1 f p := by
    intro p' hp'; rw [hE, List.mem_map] at hp'
    obtain ⟨p, hp, rfl⟩ := hp'; exact ⟨p, hp, rfl⟩
  have hkey : ∀ p ∈ ents s.cache, p.2.id ≠ w.2.1 → p.1 ≠ w.1 := by
    intro p hp hne hk; rw [← hk0] at hk
    exact hne (by rw [pw_key_inj h.pw hp hp0 hk]; exact hp0i)
  refine Inv.ofShape ?_ ?_ ?_ ?_ ?_ ?_ ?_ ?_ ?_
  · refine shape_map h (updCell w.2.1 f) (updCell_kid (fun e => (hf e).1)) (release_rmap _ _) (release_wmap _ _)
      rfl rfl rfl ?_ ?_
    · intro p hp; rw [rc_infl_erase s _ _ hw, ← h.refs p hp]
      by_cases hk : p.2.id = w.2.1
      · simp [updCell, hk, f]
      · simp [updCell, hk, Ne.symm hk]
    · intro j hj; rw [rc_infl_erase s _ _ hw] at hj; exact h.ref_in j (by omega)
  · exact h.wbq_key
  · intro w' hw'; exact h.infl w' (List.mem_of_mem_erase hw')
  · exact h.infl_nodup.sublist (List.erase_sublist.map _)
  · intro w' hw' p' hp'
    obtain ⟨p, hp, rfl⟩ := hmem p' hp'
    rw [(updCell_frame hf p).2.1, (updCell_frame hf p).2.2]
    exact h.infl_clean w' (List.mem_of_mem_erase hw') p hp
  · intro p' hp'
    obtain ⟨p, hp, rfl⟩ := hmem p' hp'
    rw [(updCell_frame hf p).2.1, (updCell_frame hf p).1]; exact h.ld p hp
  · intro p' hp'
    obtain ⟨p, hp, rfl⟩ := hmem p' hp'
    rw [(updCell_frame hf p).2.1, (updCell_frame hf p).1, (updCell_frame hf p).2.2]
    intro hlp
    have hpi : p.2.id ≠ w.2.1 := fun he => by rw [he, hwl] at hlp; cases hlp
    simp only [upd, hkey p hp hpi, if_false]; exact h.unl p hp hlp
  · intro p' hp'
    obtain ⟨p, hp, rfl⟩ := hmem p' hp'
    rw [(updCell_frame hf p).2.1, (updCell_frame hf p).1, (updCell_frame hf p).2.2]
    intro hlp hdp hwp
    by_cases hpi : p.2.id = w.2.1
    · have : p.1 = w.1 := by rw [← hwk, ← hpi]; exact (h.keyOf p hp).symm
      simp only [upd, this, if_true]; rw [hwv, hpi]
    · simp only [upd, hkey p hp hpi, if_false]
      apply h.clean p hp hlp hdp
      intro w' hw' he
      exact hwp w' (mem_erase_of_key_ne hw' (by rw [he]; exact hpi)) he
  · intro k hk
    have hk' : ∀ p ∈ ents s.cache, p.1 ≠ k := by
      intro p hp; rw [← updCell_key w.2.1 f p]
      exact hk _ (by rw [hE]; exact List.mem_map_of_mem hp)
    have : k ≠ w.1 := by rw [← hk0]; exact fun he => hk' p0 hp0 he.symm
    simp only [upd, this, if_false]; exact h.absent k hk'

theorem updCell_comp {i : Nat} {f1 f2 : Entry → Entry} (hf1 : ∀ e, (f1 e).id = e.id) (p : Nat × Entry) :
    updCell i f2 (updCell i f1 p) = updCell i (fun e => f2 (f1 e)) p := by
  by_cases hp : p.2.id = i
  · rw [updCell_of_eq (f := f1) hp, updCell_of_eq (f := fun e => f2 (f1 e)) hp,
      updCell_of_eq (by simp [hf1, hp])]
  · rw [updCell_of_ne (f := f1) hp, updCell_of_ne (f := fun e => f2 (f1 e)) hp, updCell_of_ne hp]

/-- the write request of an entry fails: dirty again -/
theorem inv_wbDone_fail {s : Sys} (h : Inv s) {w : Nat × Nat × Nat} (hw : w ∈ s.inflight) :
    Inv { s with cache := release (setDirty s.cache w.2.1 true) w.2.1, inflight := s.inflight.erase w } := by
  obtain ⟨_, hwl, _⟩ := h.infl w hw
  let f : Entry → Entry := fun e => { e with dirty := true, refs := e.refs - 1 }
  have hf : ∀ e, (f e).id = e.id := fun _ => rfl
  have hR : (release (setDirty s.cache w.2.1 true) w.2.1).rmap = s.cache.rmap.map (updCell w.2.1 f) := by
    rw [release_rmap, setDirty_rmap, List.map_map]
    apply List.map_congr_left; intro p _
    exact updCell_comp (f1 := fun e => { e with dirty := true })
      (f2 := fun e => { e with refs := e.refs - 1 }) (fun _ => rfl) p
  have hW : (release (setDirty s.cache w.2.1 true) w.2.1).wmap = s.cache.wmap.map (updCell w.2.1 f) := by
    rw [release_wmap, setDirty_wmap, List.map_map]
    apply List.map_congr_left; intro p _
    exact updCell_comp (f1 := fun e => { e with dirty := true })
      (f2 := fun e => { e with refs := e.refs - 1 }) (fun _ => rfl) p
  have hE := ents_map hR hW
  have hmem : ∀ p' ∈ ents (release (setDirty s.cache w.2.1 true) w.2.1),
      ∃ p ∈ ents s.cache, p' = updCell w.2.1 f p := by
    intro p' hp'; rw [hE, List.mem_map] at hp'
    obtain ⟨p, hp, rfl⟩ := hp'; exact ⟨p, hp, rfl⟩
  refine Inv.ofShape ?_ ?_ ?_ ?_ ?_ ?_ ?_ ?_ ?_
  · refine shape_map h (updCell w.2.1 f) (updCell_kid hf) hR hW rfl rfl rfl ?_ ?_
    · intro p hp; rw [rc_infl_erase s _ _ hw, ← h.refs p hp]
      by_cases hk : p.2.id = w.2.1
      · simp [updCell, hk, f]
      · simp [updCell, hk, Ne.symm hk]
    · intro j hj; rw [rc_infl_erase s _ _ hw] at hj; exact h.ref_in j (by omega)
  · exact h.wbq_key
  · intro w' hw'; exact h.infl w' (List.mem_of_mem_erase hw')
  · exact h.infl_nodup.sublist (List.erase_sublist.map _)
  · intro w' hw' p' hp' hid
    obtain ⟨p, hp, rfl⟩ := hmem p' hp'
    rw [updCell_id hf] at hid
    have hne : p.2.id ≠ w.2.1 := by
      rw [hid]; exact nodup_erase_ne (fun x : Nat × Nat × Nat => x.2.1) h.infl_nodup hw hw'
    rw [updCell_of_ne hne]
    exact h.infl_clean w' (List.mem_of_mem_erase hw') p hp hid
  · intro p' hp'
    obtain ⟨p, hp, rfl⟩ := hmem p' hp'
    rw [updCell_id hf, updCell_key]; exact h.ld p hp
  · intro p' hp'
    obtain ⟨p, hp, rfl⟩ := hmem p' hp'
    rw [updCell_id hf, updCell_key]
    intro hlp
    have hpi : p.2.id ≠ w.2.1 := fun he => by rw [he, hwl] at hlp; cases hlp
    rw [updCell_of_ne hpi]; exact h.unl p hp hlp
  · intro p' hp'
    obtain ⟨p, hp, rfl⟩ := hmem p' hp'
    rw [updCell_id hf, updCell_key]
    intro hlp hdp hwp
    have hpi : p.2.id ≠ w.2.1 := fun he => by rw [updCell_of_eq he] at hdp; cases hdp
    rw [updCell_of_ne hpi] at hdp
    apply h.clean p hp hlp hdp
    intro w' hw' he
    exact hwp w' (mem_erase_of_key_ne hw' (by rw [he]; exact hpi)) he
  · intro k hk
    apply h.absent k
    intro p hp; rw [← updCell_key w.2.1 f p]
    exact hk _ (by rw [hE]; exact List.mem_map_of_mem hp)

/-- `put` on a key that has no entry: a new, not loaded entry is parked in wmap -/
theorem inv_new {s : Sys} (h : Inv s) {k : Nat} (hk : ∀ p ∈ ents s.cache, p.1 ≠ k) :
    Inv { s with
      cache := { s.cache with
        wmap := s.cache.wmap ++ [(k, { id := s.cache.nextId, lru := 0, dirty := false, refs := 1 })],
        nextId := s.cache.nextId + 1 },
      held := s.cache.nextId :: s.held, keyOf := upd s.keyOf s.cache.nextId k,
      loaded := upd s.loaded s.cache.nextId false } := by
  let e0 : Entry := { id := s.cache.nextId, lru := 0, dirty := false, refs := 1 }
  have hE : s.cache.rmap ++ (s.cache.wmap ++ [(k, e0)]) = ents s.cache ++ [(k, e0)] := by simp [ents]
  have hne : ∀ p ∈ ents s.cache, p.2.id ≠ s.cache.nextId := fun p hp => Nat.ne_of_lt (h.idlt p hp)
  have hrc0 : rc s s.cache.nextId = 0 := by
    apply Classical.byContradiction; intro hc
    obtain ⟨p, hp, hpi⟩ := h.ref_in _ (Nat.pos_of_ne_zero hc)
    exact hne p hp hpi
  have hrcne : ∀ j, 0 < rc s j → j ≠ s.cache.nextId := fun j hj he => by rw [he, hrc0] at hj; cases hj
  have hmem : ∀ p ∈ s.cache.rmap ++ (s.cache.wmap ++ [(k, e0)]), p ∈ ents s.cache ∨ p = (k, e0) := by
    intro p hp; rw [hE] at hp; simpa using hp
  constructor
  · show List.Pairwise Distinct (s.cache.rmap ++ (s.cache.wmap ++ [(k, e0)]))
    rw [hE, List.pairwise_append]
    refine ⟨h.pw, by simp, ?_⟩
    intro a ha b hb; simp only [List.mem_singleton] at hb; subst hb
    exact ⟨hk a ha, hne a ha⟩
  · intro p hp
    rcases hmem p hp with hp | rfl
    · exact Nat.lt_succ_of_lt (h.idlt p hp)
    · exact Nat.lt_succ_self _
  · intro p hp
    rcases hmem p hp with hp | rfl
    · simp only [upd, hne p hp, if_false]; exact h.keyOf p hp
    · simp [upd, e0]
  · intro p hp
    show _ = rc { s with cache := s.cache, held := s.cache.nextId :: s.held } _
    rw [rc_addheld]
    rcases hmem p hp with hp | rfl
    · simp only [Ne.symm (hne p hp), if_false, Nat.add_zero]; exact h.refs p hp
    · simp [e0, hrc0]
  · intro j hj
    have hj : 0 < rc { s with cache := s.cache, held := s.cache.nextId :: s.held } j := hj
    rw [rc_addheld] at hj
    show ∃ p ∈ s.cache.rmap ++ (s.cache.wmap ++ [(k, e0)]), _
    rw [hE]
    by_cases hjn : s.cache.nextId = j
    · exact ⟨(k, e0), by simp, hjn⟩
    · simp only [hjn, if_false, Nat.add_zero] at hj
      obtain ⟨p, hp, hpi⟩ := h.ref_in j hj
      exact ⟨p, List.mem_append_left _ hp, hpi⟩
  · intro w hw
    have := hrcne w.2 ((rc_pos_iff s _).2 (Or.inr (Or.inl ⟨w, hw, rfl⟩)))
    simp only [upd, this, if_false]; exact h.wbq_key w hw
  · intro w hw
    have := hrcne w.2.1 ((rc_pos_iff s _).2 (Or.inr (Or.inr ⟨w, hw, rfl⟩)))
    simp only [upd, this, if_false]; exact h.infl w hw
  · exact h.infl_nodup
  · intro w hw p hp hid
    rcases hmem p hp with hp | rfl
    · exact h.infl_clean w hw p hp hid
    · rfl
  · intro p hp
    rcases List.mem_append.1 hp with hp | hp
    · simp only [upd, hne p (mem_ents.2 (Or.inr hp)), if_false]; exact h.wmap_unl p hp
    · simp only [List.mem_singleton] at hp; subst hp; simp [upd]
  · intro p hp
    rcases hmem p hp with hp | rfl
    · simp only [upd, hne p hp, if_false]; exact h.ld p hp
    · simp [upd, e0]
  · intro p hp
    rcases hmem p hp with hp | rfl
    · simp only [upd, hne p hp, if_false]; exact h.unl p hp
    · intro _; exact ⟨h.absent k hk, rfl⟩
  · intro p hp
    rcases hmem p hp with hp | rfl
    · simp only [upd, hne p hp, if_false]; exact h.clean p hp
    · simp [upd, e0]
  · intro k' hk'
    apply h.absent k'
    intro p hp
    exact hk' p (by show p ∈ s.cache.rmap ++ (s.cache.wmap ++ [(k, e0)]); rw [hE]; exact List.mem_append_left _ hp)

/-! ## `commit_wmap` and `get_dirty_entries` -/

theorem legal_spec {c : Cache} {vs : List Nat} (h : legalVictims c vs = true) :
    vs.Nodup ∧ ∀ k ∈ vs, ∃ e, (k, e) ∈ c.rmap ∧ e.refs = 0 := by
  unfold legalVictims at h
  simp only [Bool.and_eq_true, decide_eq_true_eq, List.all_eq_true] at h
  refine ⟨h.1.1.2, ?_⟩
  intro k hk
  have := h.1.2 k hk
  cases hl : lookup (unreferenced c) k with
  | none => rw [hl] at this; cases this
  | some e =>
    have hm := lookup_some hl
    unfold unreferenced at hm
    rw [List.mem_filter] at hm
    exact ⟨e, hm.1, by simpa using hm.2⟩

theorem commit_r1_gen (m : Map) (sel : Nat × Entry → Bool) :
    m.filterMap (fun p =>
      if sel p then
        (if p.2.dirty then some (p.1, { p.2 with refs := p.2.refs + 1 }) else none)
      else some p)
    = (m.filter (fun p => !(sel p) || p.2.dirty)).map (bump sel) := by
  induction m with
  | nil => rfl
  | cons q m ih =>
    rw [List.filterMap_cons, List.filter_cons]
    cases hc : sel q <;> cases hd : q.2.dirty <;> simp [hc, hd, ih, bump]

theorem commit_r1 (m : Map) (vs : List Nat) :
    m.filterMap (fun p =>
      if vs.contains p.1 then
        (if p.2.dirty then some (p.1, { p.2 with refs := p.2.refs + 1 }) else none)
      else some p)
    = (m.filter (fun p => !(vs.contains p.1) || p.2.dirty)).map (bump (fun p => vs.contains p.1)) :=
  commit_r1_gen m (fun p => vs.contains p.1)

theorem drain_eq (w : Map) : ∀ (r : Map), (∀ p ∈ w, ∀ q ∈ r, q.1 ≠ p.1) →
    w.Pairwise (fun p q => p.1 ≠ q.1) → w.foldl (fun r p => erase r p.1 ++ [p]) r = r ++ w := by
  induction w with
  | nil => intro r _ _; simp
  | cons p w ih =>
    intro r h hw
    rw [List.pairwise_cons] at hw
    have he : erase r p.1 = r := by
      unfold erase; rw [List.filter_eq_self]; intro q hq
      simpa using h p (List.mem_cons_self) q hq
    rw [List.foldl_cons, he, ih (r ++ [p]) _ hw.2]
    · simp
    · intro p' hp' q hq
      rcases List.mem_append.1 hq with hq | hq
      · exact h p' (List.mem_cons_of_mem _ hp') q hq
      · simp only [List.mem_singleton] at hq; subst hq; exact hw.1 p' hp'

/-- the dirty victims, as `commit` computes them -/
def dirtyVs (m : Map) (vs : List Nat) : List (Nat × Nat) :=
  vs.filterMap (fun k => match lookup m k with
    | some e => if e.dirty then some (k, e.id) else none
    | none => none)

theorem mem_dirtyVs {m : Map} {vs : List Nat} {w : Nat × Nat} (h : w ∈ dirtyVs m vs) :
    ∃ e, (w.1, e) ∈ m ∧ w.1 ∈ vs ∧ e.dirty = true ∧ w.2 = e.id := by
  unfold dirtyVs at h
  rw [List.mem_filterMap] at h
  obtain ⟨k, hk, hw⟩ := h
  split at hw
  · next e he =>
    split at hw
    · next hd => cases hw; exact ⟨e, lookup_some he, hk, hd, rfl⟩
    · cases hw
  · cases hw

theorem count_dirtyVs {m : Map} (hm : m.Pairwise Distinct) {p : Nat × Entry} (hp : p ∈ m) :
    ∀ (vs : List Nat), vs.Nodup →
    ((dirtyVs m vs).map (·.2)).count p.2.id = if vs.contains p.1 && p.2.dirty then 1 else 0 := by
  intro vs
  induction vs with
  | nil => intro _; simp [dirtyVs]
  | cons k vs ih =>
    intro hnd
    rw [List.nodup_cons] at hnd
    have ih := ih hnd.2
    unfold dirtyVs at ih ⊢
    rw [List.filterMap_cons]
    by_cases hkp : k = p.1
    · subst hkp
      have hnc : vs.contains p.1 = false := by simpa using hnd.1
      rw [hnc] at ih
      rw [lookup_eq_of_mem hm hp]
      cases hd : p.2.dirty <;> simp_all
    · have hc : (k :: vs).contains p.1 = vs.contains p.1 := by
        simp [Ne.symm hkp]
      rw [hc]
      split
      · exact ih
      · next w hw =>
        split at hw
        · next e he =>
          split at hw
          · cases hw
            have hne : e.id ≠ p.2.id := fun hid => hkp (by
              have := pw_id_inj hm (lookup_some he) hp hid; rw [← this])
            rw [List.map_cons, List.count_cons]
            simp only [beq_iff_eq, hne, if_false, Nat.add_zero]; exact ih
          · cases hw
        · cases hw

theorem commit_eq {c : Cache} {vs : List Nat} (hpw : (ents c).Pairwise Distinct) :
    commit c vs =
      ({ c with
          rmap := (c.rmap.filter (fun p => !(vs.contains p.1) || p.2.dirty)).map
                    (bump (fun p => vs.contains p.1)) ++ c.wmap,
          wmap := [] }, dirtyVs c.rmap vs) := by
  unfold commit
  simp only [commit_r1]
  unfold ents at hpw
  rw [List.pairwise_append] at hpw
  rw [drain_eq]
  · rfl
  · intro p hp q hq
    obtain ⟨q0, hq0, rfl⟩ := List.mem_map.1 hq
    have : (bump (fun p => vs.contains p.1) q0).1 = q0.1 := by unfold bump; split <;> rfl
    rw [this]
    exact (hpw.2.2 q0 (List.mem_filter.1 hq0).1 p hp).1
  · exact hpw.2.1.imp (fun hab => hab.1)

theorem count_filter_ids {m : Map} (hm : m.Pairwise Distinct) (sel : Nat × Entry → Bool)
    {p : Nat × Entry} (hp : p ∈ m) :
    (((m.filter sel).map (fun p => (p.1, p.2.id))).map (·.2)).count p.2.id = if sel p then 1 else 0 := by
  induction hm with
  | nil => cases hp
  | @cons q m hq _ ih =>
    have h0 : (((m.filter sel).map (fun p => (p.1, p.2.id))).map (·.2)).count q.2.id = 0 := by
      apply List.count_eq_zero.2
      simp only [List.map_map, List.mem_map, List.mem_filter, Function.comp]
      rintro ⟨a, ⟨ha, _⟩, hid⟩
      exact (hq a ha).2 hid.symm
    rcases List.mem_cons.1 hp with rfl | hp'
    · rw [List.filter_cons]
      split
      · rw [List.map_cons, List.map_cons, List.count_cons, h0]; simp
      · exact h0
    · have hne : q.2.id ≠ p.2.id := (hq p hp').2
      rw [List.filter_cons]
      split
      · rw [List.map_cons, List.map_cons, List.count_cons]
        simp only [beq_iff_eq, hne, if_false, Nat.add_zero]; exact ih hp'
      · exact ih hp'

/-! ## one step -/

theorem Inv.wmap_key_ne {s : Sys} (h : Inv s) {p q : Nat × Entry} (hp : p ∈ s.cache.rmap)
    (hq : q ∈ s.cache.wmap) : q.1 ≠ p.1 := by
  have := h.pw; unfold ents at this; rw [List.pairwise_append] at this
  exact fun he => (this.2.2 p hp q hq).1 he.symm

/-- every step of the `.fixed` protocol other than `loadFail` preserves the invariant -/
theorem inv_step {s s' : Sys} {st : Step} (h : Inv s) (hn : ∀ i, st ≠ .loadFail i)
    (hs : step .fixed s st = some s') : Inv s' := by
  cases st with
  | hit k =>
    simp only [step] at hs
    cases hl : lookup s.cache.rmap k with
    | none => simp [Qv.Model.Lru.get, hl] at hs
    | some e =>
      simp only [Qv.Model.Lru.get, hl, Option.some.injEq] at hs
      subst hs
      have hm := lookup_some hl
      refine inv_addref h (k := k) (e := e) (mem_ents.2 (Or.inl hm))
        (fun e => { e with lru := s.cache.timer + 1, refs := e.refs + 1 }) (fun _ => ⟨rfl, rfl, rfl⟩) _ rfl ?_ rfl
      exact (map_keyCell_of_not_mem _ (fun q hq => h.wmap_key_ne hm hq)).symm
  | miss k =>
    simp only [step] at hs
    cases hl : lookup s.cache.rmap k with
    | some e =>
      simp [put, hl] at hs
      subst hs
      have hm := lookup_some hl
      refine inv_addref h (k := k) (e := e) (mem_ents.2 (Or.inl hm))
        (fun e => { e with refs := e.refs + 1 }) (fun _ => ⟨rfl, rfl, rfl⟩) _ rfl ?_ rfl
      exact (map_keyCell_of_not_mem _ (fun q hq => h.wmap_key_ne hm hq)).symm
    | none =>
      cases hl2 : lookup s.cache.wmap k with
      | some e =>
        simp [put, hl, hl2] at hs
        subst hs
        have hm := lookup_some hl2
        refine inv_addref h (k := k) (e := e) (mem_ents.2 (Or.inr hm))
          (fun e => { e with refs := e.refs + 1 }) (fun _ => ⟨rfl, rfl, rfl⟩) _ ?_ rfl rfl
        exact (map_keyCell_of_not_mem _ (lookup_none hl)).symm
      | none =>
        simp [put, hl, hl2] at hs
        subst hs
        refine inv_new h (k := k) ?_
        intro p hp
        rcases mem_ents.1 hp with hp | hp
        · exact lookup_none hl p hp
        · exact lookup_none hl2 p hp
  | load i vs =>
    simp only [step] at hs
    split at hs
    · cases hs
    · next hc =>
      split at hs
      · cases hs
      · next hlg =>
        simp only [Bool.or_eq_true, Bool.not_eq_true', not_or, Bool.not_eq_false, Bool.not_eq_true] at hc hlg
        obtain ⟨hnd, hv⟩ := legal_spec hlg
        rw [commit_eq h.pw] at hs
        simp only [Option.some.injEq] at hs
        subst hs
        have hkey : ∀ p ∈ s.cache.rmap, vs.contains p.1 = true → p.2.refs = 0 := by
          intro p hp hc
          obtain ⟨e, he, hr⟩ := hv p.1 (by simpa using hc)
          have := pw_key_inj h.pw (mem_ents.2 (Or.inl hp)) (mem_ents.2 (Or.inl he)) rfl
          rw [this]; exact hr
        have h1 := inv_evict h (fun p => !(vs.contains p.1) || p.2.dirty) (by
          intro p hp hk
          simp only [Bool.or_eq_false_iff, Bool.not_eq_false'] at hk
          exact ⟨hkey p hp hk.1, hk.2⟩)
        have h2 := inv_queue h1 (fun p => vs.contains p.1) (dirtyVs s.cache.rmap vs) (by
            intro q hq
            cases hcq : vs.contains q.1 with
            | false => rfl
            | true =>
              obtain ⟨e, he, _⟩ := hv q.1 (by simpa using hcq)
              exact absurd rfl (h.wmap_key_ne (p := (q.1, e)) (q := q) he hq))
          (by
            intro w hw
            obtain ⟨e, he, hwv, hd, hid⟩ := mem_dirtyVs hw
            refine ⟨(w.1, e), List.mem_filter.2 ⟨he, by simp [hd]⟩, by simpa using hwv, ?_⟩
            cases w; simp at hid ⊢; exact hid)
          (by
            intro p hp
            have hp' := List.mem_filter.1 hp
            have hpw : s.cache.rmap.Pairwise Distinct := by
              have := h.pw; unfold ents at this; rw [List.pairwise_append] at this; exact this.1
            rw [count_dirtyVs hpw hp'.1 vs hnd]
            have := hp'.2
            cases hcq : vs.contains p.1 <;> cases hdq : p.2.dirty <;> simp_all)
        exact inv_load h2 hc.1.2
  | loadFail i => exact absurd rfl (hn i)
  | modify i =>
    simp only [step] at hs
    split at hs
    · cases hs
    · next hc =>
      simp only [Bool.or_eq_true, Bool.not_eq_true', not_or, Bool.not_eq_false, List.any_eq_true,
        beq_iff_eq, not_exists, not_and, List.contains_iff_mem] at hc
      simp only [Option.some.injEq] at hs
      subst hs
      exact inv_modify h hc.1.1 hc.1.2 hc.2
  | wbStart i =>
    simp only [step] at hs
    split at hs
    · cases hs
    · next p hp =>
      split at hs
      · cases hs
      · next hc =>
        simp only [Bool.or_eq_true, Bool.not_eq_true', not_or, Bool.not_eq_false] at hc
        simp only [Option.some.injEq] at hs
        subst hs
        have hpi : p.2 = i := by simpa using List.find?_some hp
        subst hpi
        exact inv_wbStart h (List.mem_of_find?_eq_some hp) hc.1 hc.2
  | wbSkip i =>
    simp only [step] at hs
    split at hs
    · cases hs
    · next p hp =>
      split at hs
      · cases hs
      · simp only [Option.some.injEq] at hs
        subst hs
        have hpi : p.2 = i := by simpa using List.find?_some hp
        subst hpi
        exact inv_wbSkip h (List.mem_of_find?_eq_some hp)
  | wbDone i ok =>
    simp only [step] at hs
    split at hs
    · cases hs
    · next w hw =>
      simp only [Option.some.injEq] at hs
      subst hs
      have hwi : w.2.1 = i := by simpa using List.find?_some hw
      subst hwi
      cases ok with
      | true => exact inv_wbDone_ok h (List.mem_of_find?_eq_some hw)
      | false => exact inv_wbDone_fail h (List.mem_of_find?_eq_some hw)
  | flush a b =>
    simp only [step, Option.some.injEq] at hs
    subst hs
    have hpw : s.cache.rmap.Pairwise Distinct := by
      have := h.pw; unfold ents at this; rw [List.pairwise_append] at this; exact this.1
    refine inv_queue h (fun p => decide (p.1 ≥ a) && decide (p.1 < b) && p.2.dirty)
      ((s.cache.rmap.filter (fun p => decide (p.1 ≥ a) && decide (p.1 < b) && p.2.dirty)).map
        (fun p => (p.1, p.2.id))) ?_ ?_ ?_
    · intro q hq
      have := (h.unl q (mem_ents.2 (Or.inr hq)) (h.wmap_unl q hq)).2
      simp [this]
    · intro w hw
      obtain ⟨q, hq, rfl⟩ := List.mem_map.1 hw
      exact ⟨q, (List.mem_filter.1 hq).1, (List.mem_filter.1 hq).2, rfl⟩
    · intro q hq; exact count_filter_ids hpw _ hq
  | release i =>
    simp only [step] at hs
    split at hs
    · cases hs
    · next hc =>
      simp only [Bool.not_eq_true', Bool.not_eq_false, List.contains_iff_mem] at hc
      simp only [Option.some.injEq] at hs
      subst hs
      exact inv_release h hc
  | shrink =>
    simp only [step, Option.some.injEq] at hs
    subst hs
    refine inv_evict h (fun p => !(p.2.refs == 0 && !p.2.dirty)) ?_
    intro p _ hk
    simpa using hk

/-! ## traces -/

def isLoadFail : Step → Bool
  | .loadFail _ => true
  | _ => false

/-- the trace has no `Step.loadFail` -/
def NoLoadFail (tr : List Step) : Prop := tr.all (fun st => !isLoadFail st) = true

instance (tr : List Step) : Decidable (NoLoadFail tr) := inferInstanceAs (Decidable (_ = true))

theorem inv_run {tr : List Step} : ∀ {s s' : Sys}, Inv s → NoLoadFail tr → run .fixed s tr = some s' → Inv s' := by
  induction tr with
  | nil => intro s s' h _ hr; simp only [run, Option.some.injEq] at hr; exact hr ▸ h
  | cons st tr ih =>
    intro s s' h hn hr
    unfold NoLoadFail at hn
    rw [List.all_cons, Bool.and_eq_true] at hn
    simp only [run] at hr
    split at hr
    · next s1 hs1 =>
      refine ih (inv_step h ?_ hs1) hn.2 hr
      intro i he; rw [he] at hn; simp [isLoadFail] at hn
    · cases hr

/-- every state reachable from the initial one without `loadFail` satisfies the invariant -/
theorem inv_reachable {limit : Nat} {tr : List Step} {s : Sys} (hn : NoLoadFail tr)
    (hr : run .fixed (Sys.init limit) tr = some s) : Inv s :=
  inv_run (inv_init limit) hn hr

/-! ## what the invariant gives -/

theorem Inv.held_inCache {s : Sys} (h : Inv s) {i : Nat} (hi : i ∈ s.held) : inCache s.cache i = true := by
  obtain ⟨p, hp, hpi⟩ := h.ref_in i ((rc_pos_iff s i).2 (Or.inl hi))
  exact inCache_iff.2 ⟨p, hp, hpi⟩

theorem Inv.held_latest {s : Sys} (h : Inv s) {i : Nat} (hi : i ∈ s.held) (hl : s.loaded i = true) :
    observe s i = s.latest (s.keyOf i) := by
  obtain ⟨p, hp, hpi⟩ := h.ref_in i ((rc_pos_iff s i).2 (Or.inl hi))
  subst hpi
  rw [h.keyOf p hp]; exact h.ld p hp hl

theorem Inv.absent_disk {s : Sys} (h : Inv s) {k : Nat} (hr : lookup s.cache.rmap k = none)
    (hw : lookup s.cache.wmap k = none) : s.disk k = s.latest k := by
  apply h.absent k
  intro p hp
  rcases mem_ents.1 hp with hp | hp
  · exact lookup_none hr p hp
  · exact lookup_none hw p hp

theorem Inv.cached_latest {s : Sys} (h : Inv s) {k : Nat} {e : Entry}
    (he : lookup s.cache.rmap k = some e ∨ lookup s.cache.wmap k = some e) (hl : s.loaded e.id = true) :
    s.val e.id = s.latest k := by
  have : (k, e) ∈ ents s.cache := by
    rcases he with he | he
    · exact mem_ents.2 (Or.inl (lookup_some he))
    · exact mem_ents.2 (Or.inr (lookup_some he))
  exact h.ld (k, e) this hl

theorem Inv.flushed {s : Sys} (h : Inv s) (hi : s.inflight = [])
    (hd : ∀ p ∈ s.cache.rmap ++ s.cache.wmap, p.2.dirty = false) (k : Nat) : s.disk k = s.latest k := by
  by_cases hex : ∃ p ∈ ents s.cache, p.1 = k
  · obtain ⟨p, hp, rfl⟩ := hex
    cases hl : s.loaded p.2.id with
    | false => exact (h.unl p hp hl).1
    | true =>
      rw [← h.ld p hp hl]
      exact h.clean p hp hl (hd p hp) (by rw [hi]; intro w hw; cases hw)
  · exact h.absent k (fun p hp hpk => hex ⟨p, hp, hpk⟩)

end Qv.Proofs.SliceProto
