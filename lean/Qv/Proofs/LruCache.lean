import Qv.Proofs.SliceProto
/-
Helper lemmas about the LRU cache model `Qv.Model.Lru` (Qv/Model/LruCache.lean):
the well-formedness predicate `WFc`, its preservation by every operation, and
cell-level descriptions of what each operation does to `rmap` / `wmap`.
Used by `Qv/Props/C06Lru.lean`.
-/
namespace Qv.Proofs.LruCache
open Qv.Model.Lru Qv.Proofs.SliceProto

/-! ## well-formed caches -/

/-- A well-formed cache: each map has at most one cell per key, no key is in both maps,
    the entry ids of all cells are pairwise distinct and below the allocation counter. -/
structure WFc (c : Cache) : Prop where
  rkeys : (c.rmap.map (·.1)).Nodup
  wkeys : (c.wmap.map (·.1)).Nodup
  disj : ∀ p ∈ c.rmap, ∀ q ∈ c.wmap, p.1 ≠ q.1
  ids : ((c.rmap ++ c.wmap).map (·.2.id)).Nodup
  fresh : ∀ p ∈ c.rmap ++ c.wmap, p.2.id < c.nextId

/-- `WFc` in the form the list lemmas of `Qv.Proofs.SliceProto` use -/
theorem wfc_iff {c : Cache} :
    WFc c ↔ (ents c).Pairwise Distinct ∧ ∀ p ∈ ents c, p.2.id < c.nextId := by
  have hand := List.pairwise_and_iff (R := fun (p q : Nat × Entry) => p.1 ≠ q.1)
    (S := fun (p q : Nat × Entry) => p.2.id ≠ q.2.id) (l := ents c)
  constructor
  · intro h
    refine ⟨hand.2 ⟨?_, ?_⟩, h.fresh⟩
    · unfold ents; rw [List.pairwise_append]
      exact ⟨List.pairwise_map.1 h.rkeys, List.pairwise_map.1 h.wkeys, h.disj⟩
    · exact List.pairwise_map.1 h.ids
  · rintro ⟨h, hf⟩
    have h' := hand.1 h
    have hk := h'.1
    unfold ents at hk; rw [List.pairwise_append] at hk
    exact ⟨List.pairwise_map.2 hk.1, List.pairwise_map.2 hk.2.1, hk.2.2,
      List.pairwise_map.2 h'.2, hf⟩

theorem WFc.pd {c : Cache} (h : WFc c) : (ents c).Pairwise Distinct := (wfc_iff.1 h).1

theorem WFc.pdr {c : Cache} (h : WFc c) : c.rmap.Pairwise Distinct := by
  have := h.pd; unfold ents at this; exact (List.pairwise_append.1 this).1

theorem WFc.pdw {c : Cache} (h : WFc c) : c.wmap.Pairwise Distinct := by
  have := h.pd; unfold ents at this; exact (List.pairwise_append.1 this).2.1

theorem wfc_new (limit : Nat) : WFc (Cache.new limit) := by
  refine ⟨?_, ?_, ?_, ?_, ?_⟩ <;> simp [Cache.new]

/-- a cell map that keeps key and entry id -/
def KeepsKid (G : Nat × Entry → Nat × Entry) : Prop := ∀ p, (G p).1 = p.1 ∧ (G p).2.id = p.2.id

theorem pd_map {l : Map} (h : l.Pairwise Distinct) {G : Nat × Entry → Nat × Entry} (hG : KeepsKid G) :
    (l.map G).Pairwise Distinct := by
  rw [List.pairwise_map]
  exact h.imp (fun {a b} hab => by
    show (G a).1 ≠ (G b).1 ∧ (G a).2.id ≠ (G b).2.id
    rw [(hG a).1, (hG a).2, (hG b).1, (hG b).2]; exact hab)

/-- both maps rewritten cell by cell, key and id kept -/
theorem wfc_map {c c' : Cache} (h : WFc c) {G : Nat × Entry → Nat × Entry} (hG : KeepsKid G)
    (hr : c'.rmap = c.rmap.map G) (hw : c'.wmap = c.wmap.map G) (hn : c.nextId ≤ c'.nextId) :
    WFc c' := by
  rw [wfc_iff] at h ⊢
  have hE : ents c' = (ents c).map G := ents_map hr hw
  refine ⟨hE ▸ pd_map h.1 hG, ?_⟩
  intro p hp
  rw [hE] at hp
  obtain ⟨p0, hp0, rfl⟩ := List.mem_map.1 hp
  rw [(hG p0).2]; exact Nat.lt_of_lt_of_le (h.2 p0 hp0) hn

/-- cells removed from the maps -/
theorem wfc_sub {c c' : Cache} (h : WFc c) (hr : c'.rmap.Sublist c.rmap) (hw : c'.wmap.Sublist c.wmap)
    (hn : c.nextId ≤ c'.nextId) : WFc c' := by
  rw [wfc_iff] at h ⊢
  have hs : (ents c').Sublist (ents c) := List.Sublist.append hr hw
  exact ⟨h.1.sublist hs, fun p hp => Nat.lt_of_lt_of_le (h.2 p (hs.subset hp)) hn⟩

/-! ## cells: the pieces the operations are made of -/

theorem keepsKid_keyCell (k : Nat) {f : Entry → Entry} (hf : ∀ e, (f e).id = e.id) :
    KeepsKid (keyCell k f) := by
  intro p; unfold keyCell; split <;> simp [hf]

theorem keepsKid_updCell (i : Nat) {f : Entry → Entry} (hf : ∀ e, (f e).id = e.id) :
    KeepsKid (updCell i f) := fun p => ⟨updCell_key i f p, updCell_id hf p⟩

theorem keepsKid_bump (sel : Nat × Entry → Bool) : KeepsKid (bump sel) := by
  intro p; unfold bump; split <;> simp

theorem keyCell_of_ne {k : Nat} {f : Entry → Entry} {p : Nat × Entry} (h : p.1 ≠ k) :
    keyCell k f p = p := by simp [keyCell, h]

theorem keyCell_of_eq {k : Nat} {f : Entry → Entry} {p : Nat × Entry} (h : p.1 = k) :
    keyCell k f p = (p.1, f p.2) := by simp [keyCell, h]

theorem bump_of_true {sel : Nat × Entry → Bool} {p : Nat × Entry} (h : sel p = true) :
    bump sel p = (p.1, { p.2 with refs := p.2.refs + 1 }) := by simp [bump, h]

theorem bump_of_false {sel : Nat × Entry → Bool} {p : Nat × Entry} (h : sel p = false) :
    bump sel p = p := by simp [bump, h]

theorem lookup_mem_iff {m : Map} (hm : m.Pairwise Distinct) {k : Nat} {e : Entry} :
    lookup m k = some e ↔ (k, e) ∈ m :=
  ⟨lookup_some, fun h => lookup_eq_of_mem hm h⟩

theorem lookup_none_iff {m : Map} {k : Nat} : lookup m k = none ↔ ∀ e, (k, e) ∉ m := by
  constructor
  · intro h e he; exact lookup_none h _ he rfl
  · intro h
    cases hl : lookup m k with
    | none => rfl
    | some e => exact absurd (lookup_some hl) (h e)

/-! ## `put` -/

theorem put_hit_r {c : Cache} {k : Nat} {e : Entry} (h : lookup c.rmap k = some e) :
    put c k = ({ c with rmap := c.rmap.map (keyCell k (fun e => { e with refs := e.refs + 1 })) },
               e.id, false) := by
  unfold put; rw [h]; rfl

theorem put_hit_w {c : Cache} {k : Nat} {e : Entry} (hr : lookup c.rmap k = none)
    (h : lookup c.wmap k = some e) :
    put c k = ({ c with wmap := c.wmap.map (keyCell k (fun e => { e with refs := e.refs + 1 })) },
               e.id, false) := by
  unfold put; rw [hr, h]; rfl

/-- the entry `put` creates for a key in neither map -/
def freshEntry (c : Cache) : Entry := { id := c.nextId, lru := 0, dirty := false, refs := 1 }

theorem put_miss {c : Cache} {k : Nat} (hr : lookup c.rmap k = none) (hw : lookup c.wmap k = none) :
    put c k = ({ c with wmap := c.wmap ++ [(k, freshEntry c)], nextId := c.nextId + 1 }, c.nextId, true) := by
  unfold put; rw [hr, hw]; rfl

theorem map_id_of_forall {m : Map} {G : Nat × Entry → Nat × Entry} (h : ∀ p ∈ m, G p = p) : m.map G = m := by
  have : m.map G = m.map id := List.map_congr_left (by intro p hp; simp [h p hp])
  simpa using this

theorem wfc_put {c : Cache} (h : WFc c) (k : Nat) : WFc (put c k).1 := by
  have hf : ∀ e : Entry, ({ e with refs := e.refs + 1 } : Entry).id = e.id := fun _ => rfl
  cases hr : lookup c.rmap k with
  | some e =>
    rw [put_hit_r hr]
    refine wfc_map h (keepsKid_keyCell k hf) rfl ?_ (Nat.le_refl _)
    show c.wmap = c.wmap.map _
    rw [map_id_of_forall]
    intro p hp; apply keyCell_of_ne
    intro hk; exact h.disj _ (lookup_some hr) p hp hk.symm
  | none =>
    cases hw : lookup c.wmap k with
    | some e =>
      rw [put_hit_w hr hw]
      refine wfc_map h (keepsKid_keyCell k hf) ?_ rfl (Nat.le_refl _)
      show c.rmap = c.rmap.map _
      rw [map_id_of_forall]
      intro p hp; exact keyCell_of_ne (lookup_none hr p hp)
    | none =>
      rw [put_miss hr hw]
      rw [wfc_iff] at h ⊢
      have hE : ents { c with wmap := c.wmap ++ [(k, freshEntry c)], nextId := c.nextId + 1 }
          = ents c ++ [(k, freshEntry c)] := by
        simp [ents]
      rw [hE]
      refine ⟨?_, ?_⟩
      · rw [List.pairwise_append]
        refine ⟨h.1, by simp, ?_⟩
        intro p hp q hq
        simp only [List.mem_singleton] at hq; subst hq
        refine ⟨?_, ?_⟩
        · rcases mem_ents.1 hp with hp | hp
          · exact lookup_none hr p hp
          · exact lookup_none hw p hp
        · exact Nat.ne_of_lt (h.2 p hp)
      · intro p hp
        rcases List.mem_append.1 hp with hp | hp
        · exact Nat.lt_succ_of_lt (h.2 p hp)
        · simp only [List.mem_singleton] at hp; subst hp; exact Nat.lt_succ_self _

/-- what `put` does to a cell of the map the key is found in -/
def addRef (e : Entry) : Entry := { e with refs := e.refs + 1 }

/-! ## `removeFromWmap`, `shrink` -/

theorem wfc_removeFromWmap {c : Cache} (h : WFc c) (k : Nat) : WFc (removeFromWmap c k) :=
  wfc_sub h (List.Sublist.refl _) (List.filter_sublist) (Nat.le_refl _)

theorem wfc_shrink {c : Cache} (h : WFc c) : WFc (shrink c) :=
  wfc_sub h (List.filter_sublist) (List.Sublist.refl _) (Nat.le_refl _)

/-! ## `get` -/

theorem get_hit {c : Cache} {k : Nat} {e : Entry} (h : lookup c.rmap k = some e) :
    Model.Lru.get c k = ({ c with rmap := c.rmap.map (keyCell k (fun e => { e with lru := c.timer + 1, refs := e.refs + 1 })),
                                  timer := c.timer + 1 }, some e.id) := by
  unfold Model.Lru.get; rw [h]; rfl

theorem get_miss {c : Cache} {k : Nat} (h : lookup c.rmap k = none) : Model.Lru.get c k = (c, none) := by
  unfold Model.Lru.get; rw [h]

theorem wfc_get {c : Cache} (h : WFc c) (k : Nat) : WFc (Model.Lru.get c k).1 := by
  cases hr : lookup c.rmap k with
  | none => rw [get_miss hr]; exact h
  | some e =>
    rw [get_hit hr]
    refine wfc_map h (keepsKid_keyCell k (f := fun e => { e with lru := c.timer + 1, refs := e.refs + 1 })
      (fun _ => rfl)) rfl ?_ (Nat.le_refl _)
    show c.wmap = c.wmap.map _
    rw [map_id_of_forall]
    intro p hp; apply keyCell_of_ne
    intro hk; exact h.disj _ (lookup_some hr) p hp hk.symm

/-! ## `dirtyEntries`, `setDirty`, `release` -/

/-- the cells `dirtyEntries c s e` selects -/
def inRangeDirty (s e : Nat) (p : Nat × Entry) : Bool := p.1 ≥ s && p.1 < e && p.2.dirty

theorem dirtyEntries_eq (c : Cache) (s e : Nat) :
    dirtyEntries c s e =
      ({ c with rmap := c.rmap.map (bump (inRangeDirty s e)) },
       (c.rmap.filter (inRangeDirty s e)).map (fun p => (p.1, p.2.id))) := rfl

theorem wfc_dirtyEntries {c : Cache} (h : WFc c) (s e : Nat) : WFc (dirtyEntries c s e).1 := by
  rw [wfc_iff] at h ⊢
  rw [dirtyEntries_eq]
  have hE : ents { c with rmap := c.rmap.map (bump (inRangeDirty s e)) }
      = c.rmap.map (bump (inRangeDirty s e)) ++ c.wmap := rfl
  have hpa := List.pairwise_append.1 (show (c.rmap ++ c.wmap).Pairwise Distinct from h.1)
  rw [hE]
  refine ⟨?_, ?_⟩
  · rw [List.pairwise_append]
    refine ⟨pd_map hpa.1 (keepsKid_bump _), hpa.2.1, ?_⟩
    intro p hp q hq
    obtain ⟨p0, hp0, rfl⟩ := List.mem_map.1 hp
    show (bump _ p0).1 ≠ q.1 ∧ (bump _ p0).2.id ≠ q.2.id
    rw [(keepsKid_bump _ p0).1, (keepsKid_bump _ p0).2]; exact hpa.2.2 p0 hp0 q hq
  · intro p hp
    rcases List.mem_append.1 hp with hp | hp
    · obtain ⟨p0, hp0, rfl⟩ := List.mem_map.1 hp
      rw [(keepsKid_bump _ p0).2]; exact h.2 p0 (mem_ents.2 (Or.inl hp0))
    · exact h.2 p (mem_ents.2 (Or.inr hp))

theorem wfc_setDirty {c : Cache} (h : WFc c) (i : Nat) (b : Bool) : WFc (setDirty c i b) :=
  wfc_map h (keepsKid_updCell i (f := fun e => { e with dirty := b }) (fun _ => rfl))
    (setDirty_rmap c i b) (setDirty_wmap c i b) (Nat.le_refl _)

theorem wfc_release {c : Cache} (h : WFc c) (i : Nat) : WFc (release c i) :=
  wfc_map h (keepsKid_updCell i (f := fun e => { e with refs := e.refs - 1 }) (fun _ => rfl))
    (release_rmap c i) (release_wmap c i) (Nat.le_refl _)

/-! ## `commit` -/

/-- the cells of rmap a commit with victims `vs` keeps -/
def kept (vs : List Nat) (p : Nat × Entry) : Bool := !(vs.contains p.1) || p.2.dirty

/-- the victim cells -/
def isVictim (vs : List Nat) (p : Nat × Entry) : Bool := vs.contains p.1

theorem commit_eq' {c : Cache} (h : WFc c) (vs : List Nat) :
    commit c vs =
      ({ c with rmap := (c.rmap.filter (kept vs)).map (bump (isVictim vs)) ++ c.wmap, wmap := [] },
       dirtyVs c.rmap vs) := commit_eq h.pd

theorem commit_ret (c : Cache) (vs : List Nat) : (commit c vs).2 = dirtyVs c.rmap vs := rfl

theorem commit_wmap (c : Cache) (vs : List Nat) : (commit c vs).1.wmap = [] := rfl

theorem commit_rmap {c : Cache} (h : WFc c) (vs : List Nat) :
    (commit c vs).1.rmap = (c.rmap.filter (kept vs)).map (bump (isVictim vs)) ++ c.wmap := by
  rw [commit_eq' h]

/-- `commit` keeps well-formedness, whatever the victim list -/
theorem wfc_commit {c : Cache} (h : WFc c) (vs : List Nat) : WFc (commit c vs).1 := by
  have h0 := h
  rw [wfc_iff] at h ⊢
  rw [commit_eq' h0]
  have hE : ents { c with rmap := (c.rmap.filter (kept vs)).map (bump (isVictim vs)) ++ c.wmap, wmap := [] }
      = (c.rmap.filter (kept vs)).map (bump (isVictim vs)) ++ c.wmap := by simp [ents]
  have hpa := List.pairwise_append.1 (show (c.rmap ++ c.wmap).Pairwise Distinct from h.1)
  rw [hE]
  refine ⟨?_, ?_⟩
  · rw [List.pairwise_append]
    refine ⟨pd_map (hpa.1.filter _) (keepsKid_bump _), hpa.2.1, ?_⟩
    intro p hp q hq
    obtain ⟨p0, hp0, rfl⟩ := List.mem_map.1 hp
    show (bump _ p0).1 ≠ q.1 ∧ (bump _ p0).2.id ≠ q.2.id
    rw [(keepsKid_bump _ p0).1, (keepsKid_bump _ p0).2]
    exact hpa.2.2 p0 (List.mem_filter.1 hp0).1 q hq
  · intro p hp
    rcases List.mem_append.1 hp with hp | hp
    · obtain ⟨p0, hp0, rfl⟩ := List.mem_map.1 hp
      rw [(keepsKid_bump _ p0).2]; exact h.2 p0 (mem_ents.2 (Or.inl (List.mem_filter.1 hp0).1))
    · exact h.2 p (mem_ents.2 (Or.inr hp))

/-- where the cells of the new rmap come from -/
theorem mem_commit_rmap {c : Cache} (h : WFc c) (vs : List Nat) (q : Nat × Entry) :
    q ∈ (commit c vs).1.rmap ↔
      (∃ p ∈ c.rmap, (p.1 ∉ vs ∧ q = p) ∨ (p.1 ∈ vs ∧ p.2.dirty = true ∧ q = (p.1, addRef p.2)))
      ∨ q ∈ c.wmap := by
  rw [commit_rmap h, List.mem_append, List.mem_map]
  apply or_congr_left
  constructor
  · rintro ⟨p, hp, rfl⟩
    rw [List.mem_filter] at hp
    refine ⟨p, hp.1, ?_⟩
    by_cases hv : p.1 ∈ vs
    · right
      have hd : p.2.dirty = true := by simpa [kept, hv] using hp.2
      exact ⟨hv, hd, bump_of_true (by simpa [isVictim] using hv)⟩
    · left; exact ⟨hv, bump_of_false (by simpa [isVictim] using hv)⟩
  · rintro ⟨p, hp, ⟨hv, rfl⟩ | ⟨hv, hd, rfl⟩⟩
    · exact ⟨q, List.mem_filter.2 ⟨hp, by simp [kept, hv]⟩, bump_of_false (by simpa [isVictim] using hv)⟩
    · exact ⟨p, List.mem_filter.2 ⟨hp, by simp [kept, hd]⟩, bump_of_true (by simpa [isVictim] using hv)⟩

/-- what a legal victim list is made of -/
theorem legal_all {c : Cache} {vs : List Nat} (h : legalVictims c vs = true) :
    vs.length = min (over c) (unreferenced c).length ∧ vs.Nodup ∧
    (∀ k ∈ vs, ∃ e, lookup (unreferenced c) k = some e) ∧
    (∀ k ∈ vs, ∀ p ∈ unreferenced c, p.1 ∉ vs →
      ∃ e, lookup (unreferenced c) k = some e ∧ e.lru ≤ p.2.lru) := by
  unfold legalVictims at h
  simp only [Bool.and_eq_true, decide_eq_true_eq, List.all_eq_true, beq_iff_eq] at h
  obtain ⟨⟨⟨h1, h2⟩, h3⟩, h4⟩ := h
  refine ⟨h1, h2, ?_, ?_⟩
  · intro k hk
    have := h3 k hk
    cases hl : lookup (unreferenced c) k with
    | none => rw [hl] at this; cases this
    | some e => exact ⟨e, rfl⟩
  · intro k hk p hp hpv
    have := h4 k hk p hp
    have hc : vs.contains p.1 = false := by simpa using hpv
    rw [hc, Bool.false_or] at this
    cases hl : lookup (unreferenced c) k with
    | none => rw [hl] at this; cases this
    | some e => rw [hl] at this; exact ⟨e, rfl, by simpa using this⟩

theorem mem_unreferenced {c : Cache} {p : Nat × Entry} :
    p ∈ unreferenced c ↔ p ∈ c.rmap ∧ p.2.refs = 0 := by
  unfold unreferenced; rw [List.mem_filter]; simp

/-- under `WFc`, a legal victim is the key of exactly one rmap cell, and that cell is unreferenced -/
theorem legal_victim_unref {c : Cache} (hw : WFc c) {vs : List Nat} (h : legalVictims c vs = true)
    {k : Nat} (hk : k ∈ vs) {e : Entry} (he : (k, e) ∈ c.rmap) : e.refs = 0 := by
  obtain ⟨e0, he0, hr0⟩ := (legal_spec h).2 k hk
  have := pw_key_inj hw.pdr he0 he rfl
  cases this; exact hr0


/-! ## counting victims -/

/-- `k` is the key of a dirty rmap cell -/
def dirtyKey (c : Cache) (k : Nat) : Bool :=
  match lookup c.rmap k with
  | some e => e.dirty
  | none => false

/-- `k` is the key of a clean rmap cell -/
def cleanKey (c : Cache) (k : Nat) : Bool :=
  match lookup c.rmap k with
  | some e => !e.dirty
  | none => false

/-- the entry id of the rmap cell of key `k` (0 when there is none) -/
def idOfKey (c : Cache) (k : Nat) : Nat :=
  match lookup c.rmap k with
  | some e => e.id
  | none => 0

theorem dirtyVs_eq (c : Cache) (vs : List Nat) :
    dirtyVs c.rmap vs = (vs.filter (dirtyKey c)).map (fun k => (k, idOfKey c k)) := by
  induction vs with
  | nil => rfl
  | cons k vs ih =>
    have hstep : dirtyVs c.rmap (k :: vs) =
        (match lookup c.rmap k with
          | some e => if e.dirty then [(k, e.id)] else []
          | none => []) ++ dirtyVs c.rmap vs := by
      unfold dirtyVs
      rw [List.filterMap_cons]
      cases hl : lookup c.rmap k with
      | none => simp
      | some e => cases hd : e.dirty <;> simp [hd]
    rw [hstep, ih, List.filter_cons]
    cases hl : lookup c.rmap k with
    | none => simp [dirtyKey, hl]
    | some e =>
      cases hd : e.dirty
      · simp [dirtyKey, hl, hd]
      · simp [dirtyKey, idOfKey, hl, hd]

theorem clean_victims_perm {c : Cache} (h : WFc c) {vs : List Nat} (hnd : vs.Nodup) :
    ((c.rmap.filter (fun p => !(kept vs p))).map (·.1)).Perm (vs.filter (cleanKey c)) := by
  rw [List.perm_ext_iff_of_nodup]
  · intro a
    simp only [List.mem_map, List.mem_filter]
    constructor
    · rintro ⟨p, ⟨hp, hk⟩, rfl⟩
      have hk' : p.1 ∈ vs ∧ p.2.dirty = false := by simpa [kept] using hk
      refine ⟨hk'.1, ?_⟩
      unfold cleanKey; rw [lookup_eq_of_mem h.pdr hp]; simp [hk'.2]
    · rintro ⟨ha, hc⟩
      unfold cleanKey at hc
      split at hc
      · next e he =>
        have hd : e.dirty = false := by simpa using hc
        exact ⟨(a, e), ⟨lookup_some he, by simp [kept, ha, hd]⟩, rfl⟩
      · cases hc
  · exact h.rkeys.sublist ((List.filter_sublist).map _)
  · exact hnd.sublist List.filter_sublist

theorem length_filter_kept {c : Cache} (h : WFc c) {vs : List Nat} (hnd : vs.Nodup) :
    (c.rmap.filter (kept vs)).length + (vs.filter (cleanKey c)).length = c.rmap.length := by
  have h1 := List.length_eq_countP_add_countP (kept vs) (l := c.rmap)
  have h2 := (clean_victims_perm h hnd).length_eq
  rw [List.length_map] at h2
  rw [List.countP_eq_length_filter, List.countP_eq_length_filter] at h1
  have h3 : c.rmap.filter (fun a => decide (¬kept vs a = true)) = c.rmap.filter (fun p => !(kept vs p)) := by
    apply List.filter_congr; intro p _; cases kept vs p <;> rfl
  rw [h3, h2] at h1
  omega

/-- for a legal victim list, each victim is dirty or clean (it has an rmap cell) -/
theorem dirty_add_clean {c : Cache} {vs : List Nat} (h : legalVictims c vs = true) :
    (vs.filter (dirtyKey c)).length + (vs.filter (cleanKey c)).length = vs.length := by
  have h1 := List.length_eq_countP_add_countP (dirtyKey c) (l := vs)
  rw [List.countP_eq_length_filter, List.countP_eq_length_filter] at h1
  have h3 : vs.filter (fun a => decide (¬dirtyKey c a = true)) = vs.filter (cleanKey c) := by
    apply List.filter_congr; intro k hk
    obtain ⟨e, he, _⟩ := (legal_spec h).2 k hk
    obtain ⟨e', he'⟩ := lookup_isSome_of_mem he
    have he'' : lookup c.rmap k = some e' := he'
    unfold dirtyKey cleanKey; rw [he'']; cases hd : e'.dirty <;> simp [hd]
  rw [h3] at h1
  omega

/-! ## `updateId`, `update` cell by cell -/

theorem mem_updateId {m : Map} {i : Nat} {f : Entry → Entry} {q : Nat × Entry} :
    q ∈ updateId m i f ↔ ∃ p ∈ m, (p.2.id ≠ i ∧ q = p) ∨ (p.2.id = i ∧ q = (p.1, f p.2)) := by
  rw [updateId_eq, List.mem_map]
  constructor
  · rintro ⟨p, hp, rfl⟩
    refine ⟨p, hp, ?_⟩
    by_cases h : p.2.id = i
    · right; exact ⟨h, updCell_of_eq h⟩
    · left; exact ⟨h, updCell_of_ne h⟩
  · rintro ⟨p, hp, ⟨h, rfl⟩ | ⟨h, rfl⟩⟩
    · exact ⟨q, hp, updCell_of_ne h⟩
    · exact ⟨p, hp, updCell_of_eq h⟩

theorem updateId_keys (m : Map) (i : Nat) (f : Entry → Entry) :
    (updateId m i f).map (·.1) = m.map (·.1) := by
  rw [updateId_eq, List.map_map]
  apply List.map_congr_left; intro p _; exact updCell_key i f p

theorem updateId_of_absent {m : Map} {i : Nat} (f : Entry → Entry) (h : ∀ p ∈ m, p.2.id ≠ i) :
    updateId m i f = m := by
  rw [updateId_eq]; exact map_id_of_forall (fun p hp => updCell_of_ne (h p hp))

theorem mem_map_keyCell {m : Map} {k : Nat} {f : Entry → Entry} {q : Nat × Entry} :
    q ∈ m.map (keyCell k f) ↔ ∃ p ∈ m, (p.1 ≠ k ∧ q = p) ∨ (p.1 = k ∧ q = (p.1, f p.2)) := by
  rw [List.mem_map]
  constructor
  · rintro ⟨p, hp, rfl⟩
    refine ⟨p, hp, ?_⟩
    by_cases h : p.1 = k
    · right; exact ⟨h, keyCell_of_eq h⟩
    · left; exact ⟨h, keyCell_of_ne h⟩
  · rintro ⟨p, hp, ⟨h, rfl⟩ | ⟨h, rfl⟩⟩
    · exact ⟨q, hp, keyCell_of_ne h⟩
    · exact ⟨p, hp, keyCell_of_eq h⟩

theorem mem_map_bump {m : Map} {sel : Nat × Entry → Bool} {q : Nat × Entry} :
    q ∈ m.map (bump sel) ↔ ∃ p ∈ m, (sel p = false ∧ q = p) ∨ (sel p = true ∧ q = (p.1, addRef p.2)) := by
  rw [List.mem_map]
  constructor
  · rintro ⟨p, hp, rfl⟩
    refine ⟨p, hp, ?_⟩
    cases h : sel p
    · left; exact ⟨rfl, bump_of_false h⟩
    · right; exact ⟨rfl, bump_of_true h⟩
  · rintro ⟨p, hp, ⟨h, rfl⟩ | ⟨h, rfl⟩⟩
    · exact ⟨q, hp, bump_of_false h⟩
    · exact ⟨p, hp, bump_of_true h⟩

/-- under `WFc`, an entry id names at most one cell of the two maps -/
theorem WFc.id_unique {c : Cache} (h : WFc c) {p q : Nat × Entry} (hp : p ∈ c.rmap ++ c.wmap)
    (hq : q ∈ c.rmap ++ c.wmap) (hid : p.2.id = q.2.id) : p = q :=
  pw_id_inj h.pd hp hq hid

/-- under `WFc`, a key names at most one cell of the two maps -/
theorem WFc.key_unique {c : Cache} (h : WFc c) {p q : Nat × Entry} (hp : p ∈ c.rmap ++ c.wmap)
    (hq : q ∈ c.rmap ++ c.wmap) (hk : p.1 = q.1) : p = q :=
  pw_key_inj h.pd hp hq hk

theorem release_rmap' (c : Cache) (i : Nat) :
    (release c i).rmap = updateId c.rmap i (fun e => { e with refs := e.refs - 1 }) := rfl
theorem release_wmap' (c : Cache) (i : Nat) :
    (release c i).wmap = updateId c.wmap i (fun e => { e with refs := e.refs - 1 }) := rfl
theorem setDirty_rmap' (c : Cache) (i : Nat) (b : Bool) :
    (setDirty c i b).rmap = updateId c.rmap i (fun e => { e with dirty := b }) := rfl
theorem setDirty_wmap' (c : Cache) (i : Nat) (b : Bool) :
    (setDirty c i b).wmap = updateId c.wmap i (fun e => { e with dirty := b }) := rfl

theorem updateId_length (m : Map) (i : Nat) (f : Entry → Entry) : (updateId m i f).length = m.length := by
  rw [updateId_eq, List.length_map]

end Qv.Proofs.LruCache
