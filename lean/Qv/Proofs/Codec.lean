import Std.Tactic.BVDecide
import Qv.Codec.L2
import Qv.Codec.Refcount
import Qv.Codec.Info
/-
Helper lemmas for `Qv/Props/C15.lean` (codec properties: L2/L1 entry encoding,
refcount block entries, guest/host address arithmetic).  Nothing here is a
property statement of its own; the audited statements live in `Qv.Props.C15`.
-/

/-! ## Part C helpers: `tz`, `Info.new`, power-of-two arithmetic -/
namespace Qv.Codec

theorem tz_foldr_unique (P : Nat → Prop) [DecidablePred P] (j : Nat) :
    ∀ (l : List Nat), (∀ k ∈ l, P k ↔ k = j) → j ∈ l →
      l.foldr (fun k acc => if P k then k else acc) 0 = j := by
  intro l
  induction l with
  | nil => intro _ h; cases h
  | cons a l ih =>
    intro hP hj
    simp only [List.foldr_cons]
    by_cases ha : P a
    · simp only [ha, if_true]; exact (hP a (List.mem_cons_self)).1 ha
    · simp only [ha, if_false]
      have haj : a ≠ j := fun h => ha ((hP a (List.mem_cons_self)).2 h)
      have : j ∈ l := by
        rcases List.mem_cons.1 hj with h | h
        · exact absurd h.symm haj
        · exact h
      exact ih (fun k hk => hP k (List.mem_cons_of_mem _ hk)) this

theorem two_pow_mod_two_pow (j k : Nat) : 2^j % 2^k = if k ≤ j then 0 else 2^j := by
  split
  · rename_i h
    exact Nat.mod_eq_zero_of_dvd (Nat.pow_dvd_pow 2 h)
  · rename_i h
    exact Nat.mod_eq_of_lt (Nat.pow_lt_pow_right (by decide) (by omega))

theorem tz_two_pow (w k : Nat) (h : k < w) : tz w (2^k) = k := by
  unfold tz
  have hne : 2^k ≠ 0 := Nat.ne_of_gt (Nat.two_pow_pos k)
  rw [if_neg hne]
  apply tz_foldr_unique (fun m => 2^k % 2^(m+1) ≠ 0 ∧ 2^k % 2^m = 0) k
  · intro m _
    rw [two_pow_mod_two_pow, two_pow_mod_two_pow]
    constructor
    · rintro ⟨h1, h2⟩
      by_cases a : m + 1 ≤ k
      · simp [a] at h1
      · by_cases b : m ≤ k
        · omega
        · simp [b] at h2
    · rintro rfl
      simp
  · exact List.mem_range.2 h

theorem Info.new_ok {h : HdrGeo} {p : Params} {i : Info} (hn : Info.new h p = .ok i) :
    3 ≤ h.clusterBits ∧ h.clusterBits < 64 ∧ h.refcountOrder < 64 ∧
    ∃ l2sb l2cnt rbsb rbcnt,
      cacheGeometry p.l2Cache (min (h.size / 2^(h.clusterBits - 3)) (32 * 2^20)) p.bsBits h.clusterBits = .ok (l2sb, l2cnt) ∧
      cacheGeometry p.rbCache (256 * 2^10) p.bsBits h.clusterBits = .ok (rbsb, rbcnt) ∧
      l2sb ≤ h.clusterBits ∧ rbsb + 3 < 32 ∧
      i = { bsb := p.bsBits, cb := h.clusterBits,
            l2IndexShift := tz 64 (2^h.clusterBits / 8),
            l2SliceIndexShift := tz 32 ((2^h.clusterBits / 8 % 2^32) / 2^(h.clusterBits - l2sb)),
            l2SliceBits := l2sb, ro := h.refcountOrder, rbSliceBits := rbsb,
            rbIndexShift := tz 64 (2^h.clusterBits * 8 / 2^h.refcountOrder),
            rbSliceIndexShift := tz 32 (2^(rbsb + 3) / 2^h.refcountOrder),
            l2SliceEntries := (2^h.clusterBits / 8 % 2^32) / 2^(h.clusterBits - l2sb),
            l2CacheCnt := l2cnt, rbCacheCnt := rbcnt, vsize := h.size,
            readOnly := p.readOnly, hasBack := h.hasBackingName, isBack := p.backing } := by
  unfold Info.new at hn
  dsimp only at hn
  by_cases c1 : p.backing = true ∧ ¬p.readOnly = true
  · rw [if_pos c1] at hn; cases hn
  rw [if_neg c1] at hn
  by_cases c2 : h.clusterBits ≥ 256
  · rw [if_pos c2] at hn; cases hn
  rw [if_neg c2] at hn
  by_cases c3 : h.clusterBits ≥ 64
  · rw [if_pos c3] at hn; cases hn
  rw [if_neg c3] at hn
  by_cases c4 : h.refcountOrder ≥ 256
  · rw [if_pos c4] at hn; cases hn
  rw [if_neg c4] at hn
  by_cases c5 : h.clusterBits < 3
  · rw [if_pos c5] at hn; cases hn
  rw [if_neg c5] at hn
  cases h1 : cacheGeometry p.l2Cache (min (h.size / 2^(h.clusterBits - 3)) (32 * 2^20)) p.bsBits h.clusterBits with
  | err e => rw [h1] at hn; cases hn
  | panic s => rw [h1] at hn; cases hn
  | ok x1 =>
  cases h2 : cacheGeometry p.rbCache (256 * 2^10) p.bsBits h.clusterBits with
  | err e => rw [h1, h2] at hn; cases hn
  | panic s => rw [h1, h2] at hn; cases hn
  | ok x2 =>
  rw [h1, h2] at hn
  simp only [Outcome.bind_ok] at hn
  by_cases c6 : x1.fst > h.clusterBits
  · rw [if_pos c6] at hn; cases hn
  rw [if_neg c6] at hn
  by_cases c7 : h.refcountOrder ≥ 64
  · rw [if_pos c7] at hn; cases hn
  rw [if_neg c7] at hn
  by_cases c8 : x2.fst + 3 ≥ 32
  · rw [if_pos c8] at hn; cases hn
  rw [if_neg c8] at hn
  by_cases c9 : x1.snd ≥ 2 ^ 32
  · rw [if_pos c9] at hn; cases hn
  rw [if_neg c9] at hn
  by_cases c10 : x2.snd ≥ 2 ^ 32
  · rw [if_pos c10] at hn; cases hn
  rw [if_neg c10] at hn
  by_cases c11 : 2 ^ h.clusterBits / 8 = 0
  · rw [if_pos c11] at hn; cases hn
  rw [if_neg c11] at hn
  by_cases c12 : 2 ^ h.clusterBits * 8 / 2 ^ h.refcountOrder = 0
  · rw [if_pos c12] at hn; cases hn
  rw [if_neg c12] at hn
  cases hn
  refine ⟨by omega, by omega, by omega, x1.1, x1.2, x2.1, x2.2, rfl, rfl, by omega, by omega, rfl⟩


theorem Info.new_rbEntries_ne {h : HdrGeo} {p : Params} {i : Info} (hn : Info.new h p = .ok i) :
    2 ^ h.clusterBits * 8 / 2 ^ h.refcountOrder ≠ 0 := by
  unfold Info.new at hn
  dsimp only at hn
  by_cases c1 : p.backing = true ∧ ¬p.readOnly = true
  · rw [if_pos c1] at hn; cases hn
  rw [if_neg c1] at hn
  by_cases c2 : h.clusterBits ≥ 256
  · rw [if_pos c2] at hn; cases hn
  rw [if_neg c2] at hn
  by_cases c3 : h.clusterBits ≥ 64
  · rw [if_pos c3] at hn; cases hn
  rw [if_neg c3] at hn
  by_cases c4 : h.refcountOrder ≥ 256
  · rw [if_pos c4] at hn; cases hn
  rw [if_neg c4] at hn
  by_cases c5 : h.clusterBits < 3
  · rw [if_pos c5] at hn; cases hn
  rw [if_neg c5] at hn
  cases h1 : cacheGeometry p.l2Cache (min (h.size / 2^(h.clusterBits - 3)) (32 * 2^20)) p.bsBits h.clusterBits with
  | err e => rw [h1] at hn; cases hn
  | panic s => rw [h1] at hn; cases hn
  | ok x1 =>
  cases h2 : cacheGeometry p.rbCache (256 * 2^10) p.bsBits h.clusterBits with
  | err e => rw [h1, h2] at hn; cases hn
  | panic s => rw [h1, h2] at hn; cases hn
  | ok x2 =>
  rw [h1, h2] at hn
  simp only [Outcome.bind_ok] at hn
  by_cases c6 : x1.fst > h.clusterBits
  · rw [if_pos c6] at hn; cases hn
  rw [if_neg c6] at hn
  by_cases c7 : h.refcountOrder ≥ 64
  · rw [if_pos c7] at hn; cases hn
  rw [if_neg c7] at hn
  by_cases c8 : x2.fst + 3 ≥ 32
  · rw [if_pos c8] at hn; cases hn
  rw [if_neg c8] at hn
  by_cases c9 : x1.snd ≥ 2 ^ 32
  · rw [if_pos c9] at hn; cases hn
  rw [if_neg c9] at hn
  by_cases c10 : x2.snd ≥ 2 ^ 32
  · rw [if_pos c10] at hn; cases hn
  rw [if_neg c10] at hn
  by_cases c11 : 2 ^ h.clusterBits / 8 = 0
  · rw [if_pos c11] at hn; cases hn
  rw [if_neg c11] at hn
  by_cases c12 : 2 ^ h.clusterBits * 8 / 2 ^ h.refcountOrder = 0
  · rw [if_pos c12] at hn; cases hn
  rw [if_neg c12] at hn
  exact c12


theorem cacheGeometry_ok {param : Option (Nat × Nat)} {d bs cb b n : Nat}
    (h : cacheGeometry param d bs cb = .ok (b, n)) :
    ((param = none ∧ b = min 12 cb) ∨ (bs ≤ b ∧ b ≤ cb)) ∧ 2 ≤ n := by
  unfold cacheGeometry at h
  cases param with
  | none =>
    simp only [Outcome.ok.injEq, Prod.mk.injEq] at h
    exact ⟨Or.inl ⟨rfl, h.1.symm⟩, by omega⟩
  | some q =>
    obtain ⟨b', s⟩ := q
    dsimp only at h
    by_cases c1 : ¬(b' ≥ bs ∧ b' ≤ cb)
    · rw [if_pos c1] at h; cases h
    rw [if_neg c1] at h
    by_cases c2 : ¬(s / 2^b' ≥ 2)
    · rw [if_pos c2] at h; cases h
    rw [if_neg c2] at h
    simp only [Outcome.ok.injEq, Prod.mk.injEq] at h
    obtain ⟨rfl, rfl⟩ := h
    exact ⟨Or.inr (by omega), by omega⟩

end Qv.Codec

namespace Qv.Codec.Arith

theorem two_pow_div_eight {c : Nat} (h : 3 ≤ c) : 2^c / 8 = 2^(c-3) := by
  have : (8:Nat) = 2^3 := rfl
  rw [this, Nat.pow_div h (by decide)]

theorem two_pow_mul_eight_div {c r : Nat} (h : r ≤ c + 3) : 2^c * 8 / 2^r = 2^(c + 3 - r) := by
  have : (8:Nat) = 2^3 := rfl
  rw [this, ← Nat.pow_add, Nat.pow_div h (by decide)]

theorem two_pow_succ3_div {c r : Nat} (h : r ≤ c + 3) : 2^(c+3) / 2^r = 2^(c + 3 - r) :=
  Nat.pow_div h (by decide)

theorem l2_slice_entries_eq {c sb : Nat} (h3 : 3 ≤ sb) (hle : sb ≤ c) (hc : c < 35) :
    2^c / 8 % 2^32 / 2^(c - sb) = 2^(sb - 3) := by
  rw [two_pow_div_eight (by omega), Nat.mod_eq_of_lt (Nat.pow_lt_pow_right (by decide) (by omega)),
    Nat.pow_div (by omega) (by decide)]
  congr 1; omega

theorem div_two_pow_add (off c s : Nat) : off / 2^(c+s) = off / 2^c / 2^s := by
  rw [Nat.pow_add, Nat.div_div_eq_div_mul]

theorem div_two_pow_add' (off c s : Nat) : off / 2^(s+c) = off / 2^c / 2^s := by
  rw [Nat.add_comm, div_two_pow_add]

/-- recomposition of an offset from (outer index, inner index, in-cluster offset) -/
theorem recompose (off c s : Nat) :
    (off / 2^(c+s) * 2^s + off / 2^c % 2^s) * 2^c + off % 2^c = off := by
  rw [div_two_pow_add, Nat.div_add_mod', Nat.div_add_mod']

theorem recompose_cluster (off c s : Nat) :
    (off / 2^(c+s) * 2^s + off / 2^c % 2^s) = off / 2^c := by
  rw [div_two_pow_add, Nat.div_add_mod']

theorem round_down_le (off m : Nat) : off / m * m ≤ off := Nat.div_mul_le_self off m

theorem lt_round_down_add (off m : Nat) (hm : 0 < m) : off < off / m * m + m := by
  have := Nat.div_add_mod' off m
  have := Nat.mod_lt off hm
  omega

theorem slice_cluster (off c s : Nat) :
    off / 2^(c+s) * 2^(c+s) + (off / 2^c % 2^s) * 2^c = off / 2^c * 2^c := by
  rw [div_two_pow_add, Nat.pow_add, Nat.mul_comm (2^c) (2^s), ← Nat.mul_assoc, ← Nat.add_mul,
    Nat.div_add_mod']

theorem first_slice_key (k a c s : Nat) (h : s ≤ a) :
    k * 2^a * 2^c / 2^(c+s) = k * (2^a / 2^s) := by
  rw [Nat.pow_div h (by decide), div_two_pow_add, Nat.mul_div_cancel _ (Nat.two_pow_pos c)]
  have : a = (a - s) + s := by omega
  conv => lhs; rw [this, Nat.pow_add, ← Nat.mul_assoc]
  rw [Nat.mul_div_cancel _ (Nat.two_pow_pos s)]

theorem pow_le_of_two_pow_le {a b : Nat} (h : 2^a ≤ 2^b) : a ≤ b :=
  (Nat.pow_le_pow_iff_right (by decide)).1 h

end Qv.Codec.Arith

/-! ## Part B helpers: refcount block entries -/
namespace Qv.Codec.Rc

theorem getElem!_set!_same (buf : Buf) (i : Nat) (x : UInt8) (h : i < buf.size) : (buf.set! i x)[i]! = x := by
  simp [h]
theorem getElem!_set!_ne (buf : Buf) (i j : Nat) (x : UInt8) (h : i ≠ j) : (buf.set! i x)[j]! = buf[j]! := by
  simp [Array.getElem!_eq_getD, Array.getD_eq_getD_getElem?, Array.getElem?_setIfInBounds_ne h]
theorem size_set! (buf : Buf) (i : Nat) (x : UInt8) : (buf.set! i x).size = buf.size := by simp


theorem sub_byte (w per : Nat) (hw : (w = 1 ∧ per = 8) ∨ (w = 2 ∧ per = 4) ∨ (w = 4 ∧ per = 2))
    (b k v : Nat) (hb : b < 256) (hk : k < per) (hv : v < 2^w) :
    b - ((b >>> (k*w)) % 2^w) * 2^(k*w) + v * 2^(k*w) < 256 ∧
    ((b - ((b >>> (k*w)) % 2^w) * 2^(k*w) + v * 2^(k*w)) >>> (k*w)) % 2^w = v ∧
    ∀ t, t < per → t ≠ k →
      ((b - ((b >>> (k*w)) % 2^w) * 2^(k*w) + v * 2^(k*w)) >>> (t*w)) % 2^w = (b >>> (t*w)) % 2^w := by
  rcases hw with ⟨rfl, rfl⟩ | ⟨rfl, rfl⟩ | ⟨rfl, rfl⟩
  · have : k = 0 ∨ k = 1 ∨ k = 2 ∨ k = 3 ∨ k = 4 ∨ k = 5 ∨ k = 6 ∨ k = 7 := by omega
    rcases this with rfl | rfl | rfl | rfl | rfl | rfl | rfl | rfl <;>
    (refine ⟨?_, ?_, ?_⟩
     · simp only [Nat.shiftRight_eq_div_pow, Nat.reduceMul, Nat.reducePow] at hv ⊢; omega
     · simp only [Nat.shiftRight_eq_div_pow, Nat.reduceMul, Nat.reducePow] at hv ⊢; omega
     · intro t ht hne
       have : t = 0 ∨ t = 1 ∨ t = 2 ∨ t = 3 ∨ t = 4 ∨ t = 5 ∨ t = 6 ∨ t = 7 := by omega
       rcases this with rfl | rfl | rfl | rfl | rfl | rfl | rfl | rfl <;>
       first
       | exact absurd rfl hne
       | (simp only [Nat.shiftRight_eq_div_pow, Nat.reduceMul, Nat.reducePow] at hv ⊢; omega))
  · have : k = 0 ∨ k = 1 ∨ k = 2 ∨ k = 3 := by omega
    rcases this with rfl | rfl | rfl | rfl <;>
    (refine ⟨?_, ?_, ?_⟩
     · simp only [Nat.shiftRight_eq_div_pow, Nat.reduceMul, Nat.reducePow] at hv ⊢; omega
     · simp only [Nat.shiftRight_eq_div_pow, Nat.reduceMul, Nat.reducePow] at hv ⊢; omega
     · intro t ht hne
       have : t = 0 ∨ t = 1 ∨ t = 2 ∨ t = 3 := by omega
       rcases this with rfl | rfl | rfl | rfl <;>
       first
       | exact absurd rfl hne
       | (simp only [Nat.shiftRight_eq_div_pow, Nat.reduceMul, Nat.reducePow] at hv ⊢; omega))
  · have : k = 0 ∨ k = 1 := by omega
    rcases this with rfl | rfl <;>
    (refine ⟨?_, ?_, ?_⟩
     · simp only [Nat.shiftRight_eq_div_pow, Nat.reduceMul, Nat.reducePow] at hv ⊢; omega
     · simp only [Nat.shiftRight_eq_div_pow, Nat.reduceMul, Nat.reducePow] at hv ⊢; omega
     · intro t ht hne
       have : t = 0 ∨ t = 1 := by omega
       rcases this with rfl | rfl <;>
       first
       | exact absurd rfl hne
       | (simp only [Nat.shiftRight_eq_div_pow, Nat.reduceMul, Nat.reducePow] at hv ⊢; omega))

/-- the byte written by a sub-byte `__set` -/
def subByte (w per : Nat) (b i v : Nat) : Nat :=
  b - ((b >>> ((i % per) * w)) % 2^w) * 2^((i % per) * w) + v * 2^((i % per) * w)

def subSet (w per : Nat) (buf : Buf) (i v : Nat) : Buf :=
  buf.set! (i / per) (UInt8.ofNat (subByte w per (buf[i / per]!).toNat i v))

def IsSub (order w per : Nat) : Prop :=
  (order = 0 ∧ w = 1 ∧ per = 8) ∨ (order = 1 ∧ w = 2 ∧ per = 4) ∨ (order = 2 ∧ w = 4 ∧ per = 2)

def IsBytes (order n : Nat) : Prop :=
  (order = 3 ∧ n = 1) ∨ (order = 4 ∧ n = 2) ∨ (order = 5 ∧ n = 4) ∨ (order = 6 ∧ n = 8)

theorem get_sub {order w per : Nat} (h : IsSub order w per) (buf : Buf) (i : Nat) :
    get order buf i = if i / per < buf.size then .ok (((buf[i / per]!).toNat >>> ((i % per) * w)) % 2^w)
      else .panic "refcount.rs:__get:index" := by
  rcases h with ⟨rfl, rfl, rfl⟩ | ⟨rfl, rfl, rfl⟩ | ⟨rfl, rfl, rfl⟩
  · simp only [get, Nat.mul_one, Nat.pow_one]
  · rfl
  · rfl

theorem set_sub {order w per : Nat} (h : IsSub order w per) (buf : Buf) (i v : Nat) :
    set order buf i v = if 2^w ≤ v then .err .invalid else
      if i / per < buf.size then .ok (subSet w per buf i v) else .panic "refcount.rs:__set:index" := by
  rcases h with ⟨rfl, rfl, rfl⟩ | ⟨rfl, rfl, rfl⟩ | ⟨rfl, rfl, rfl⟩
  · by_cases hv : 2^1 ≤ v
    · rw [if_pos hv]; unfold set; rw [if_pos ⟨by decide, by simp only [Nat.reducePow] at hv ⊢; omega⟩]
    · rw [if_neg hv]; unfold set; rw [if_neg (by simp only [Nat.reducePow] at hv ⊢; omega)]
      simp only [subSet, subByte, Nat.mul_one, Nat.pow_one]
  · by_cases hv : 2^2 ≤ v
    · rw [if_pos hv]; unfold set; rw [if_pos ⟨by decide, by simp only [Nat.reducePow] at hv ⊢; omega⟩]
    · rw [if_neg hv]; unfold set; rw [if_neg (by simp only [Nat.reducePow] at hv ⊢; omega)]
      rfl
  · by_cases hv : 2^4 ≤ v
    · rw [if_pos hv]; unfold set; rw [if_pos ⟨by decide, by simp only [Nat.reducePow] at hv ⊢; omega⟩]
    · rw [if_neg hv]; unfold set; rw [if_neg (by simp only [Nat.reducePow] at hv ⊢; omega)]
      rfl

theorem uint8_ofNat_mod (v : Nat) : UInt8.ofNat (v % 256) = UInt8.ofNat v := by
  apply UInt8.toNat_inj.1
  simp [UInt8.toNat_ofNat']

theorem beRead_one (buf : Buf) (pos : Nat) : beRead buf pos 1 = (buf[pos]!).toNat := by
  simp [beRead, List.range_succ]

theorem beWrite_one (buf : Buf) (pos v : Nat) : beWrite buf pos 1 v = buf.set! pos (UInt8.ofNat v) := by
  simp [beWrite, List.range_succ, uint8_ofNat_mod]

theorem get_bytes {order n : Nat} (h : IsBytes order n) (buf : Buf) (i : Nat) :
    get order buf i = if i * n + n ≤ buf.size then .ok (beRead buf (i * n) n)
      else .panic "refcount.rs:__get:index" := by
  rcases h with ⟨rfl, rfl⟩ | ⟨rfl, rfl⟩ | ⟨rfl, rfl⟩ | ⟨rfl, rfl⟩
  · simp only [get, Nat.mul_one, beRead_one]
    by_cases c : i < buf.size
    · rw [if_pos c, if_pos (by omega)]
    · rw [if_neg c, if_neg (by omega)]
  · rfl
  · rfl
  · rfl

theorem set_bytes {order n : Nat} (h : IsBytes order n) (buf : Buf) (i v : Nat) :
    set order buf i v = if order < 6 ∧ 256^n ≤ v then .err .invalid else
      if i * n + n ≤ buf.size then .ok (beWrite buf (i * n) n v) else .panic "refcount.rs:__set:index" := by
  rcases h with ⟨rfl, rfl⟩ | ⟨rfl, rfl⟩ | ⟨rfl, rfl⟩ | ⟨rfl, rfl⟩
  · by_cases hv : 256^1 ≤ v
    · rw [if_pos ⟨by decide, hv⟩]; unfold set; rw [if_pos ⟨by decide, by simp only [Nat.reducePow] at hv ⊢; omega⟩]
    · rw [if_neg (fun h => hv h.2)]; unfold set; rw [if_neg (by simp only [Nat.reducePow] at hv ⊢; omega)]
      simp only [Nat.mul_one, beWrite_one]
      by_cases c : i < buf.size
      · rw [if_pos c, if_pos (by omega)]
      · rw [if_neg c, if_neg (by omega)]
  · by_cases hv : 256^2 ≤ v
    · rw [if_pos ⟨by decide, hv⟩]; unfold set; rw [if_pos ⟨by decide, by simp only [Nat.reducePow] at hv ⊢; omega⟩]
    · rw [if_neg (fun h => hv h.2)]; unfold set; rw [if_neg (by simp only [Nat.reducePow] at hv ⊢; omega)]
      rfl
  · by_cases hv : 256^4 ≤ v
    · rw [if_pos ⟨by decide, hv⟩]; unfold set; rw [if_pos ⟨by decide, by simp only [Nat.reducePow] at hv ⊢; omega⟩]
    · rw [if_neg (fun h => hv h.2)]; unfold set; rw [if_neg (by simp only [Nat.reducePow] at hv ⊢; omega)]
      rfl
  · rw [if_neg (fun h => absurd h.1 (by decide))]; unfold set; rw [if_neg (fun h => absurd h.1 (by decide))]
    rfl

/-! generic fold lemmas -/
def wr (pos : Nat) (g : Nat → UInt8) (l : List Nat) (b : Buf) : Buf :=
  l.foldl (fun b k => b.set! (pos + k) (g k)) b

theorem wr_size (pos g) : ∀ (l : List Nat) (b : Buf), (wr pos g l b).size = b.size := by
  intro l; induction l with
  | nil => intro b; rfl
  | cons a l ih => intro b; simp only [wr, List.foldl_cons] at ih ⊢; rw [ih, size_set!]

theorem wr_outside (pos g) (idx : Nat) : ∀ (l : List Nat) (b : Buf), (∀ k ∈ l, pos + k ≠ idx) →
    (wr pos g l b)[idx]! = b[idx]! := by
  intro l; induction l with
  | nil => intro b _; rfl
  | cons a l ih =>
    intro b h; simp only [wr, List.foldl_cons] at ih ⊢
    rw [ih _ (fun k hk => h k (List.mem_cons_of_mem _ hk)), getElem!_set!_ne _ _ _ _ (h a List.mem_cons_self)]

theorem wr_inside (pos g) : ∀ (l : List Nat) (b : Buf), l.Nodup → ∀ k ∈ l, pos + k < b.size →
    (wr pos g l b)[pos + k]! = g k := by
  intro l; induction l with
  | nil => intro b _ k hk; cases hk
  | cons a l ih =>
    intro b hnd k hk hlt
    have hnd' := List.nodup_cons.1 hnd
    simp only [wr, List.foldl_cons] at ih ⊢
    rcases List.mem_cons.1 hk with rfl | hk'
    · have := wr_outside pos g (pos + k) l (b.set! (pos + k) (g k))
        (fun j hj => by intro e; have : j = k := by omega
                        subst this; exact hnd'.1 hj)
      simp only [wr] at this
      rw [this, getElem!_set!_same _ _ _ hlt]
    · exact ih _ hnd'.2 k hk' (by rw [size_set!]; exact hlt)

theorem beWrite_eq (buf : Buf) (pos n v : Nat) :
    beWrite buf pos n v = wr pos (fun k => UInt8.ofNat (v / 256^(n - 1 - k) % 256)) (List.range n) buf := rfl

theorem beWrite_size (buf : Buf) (pos n v : Nat) : (beWrite buf pos n v).size = buf.size := by
  rw [beWrite_eq, wr_size]

theorem beWrite_outside (buf : Buf) (pos n v idx : Nat) (h : idx < pos ∨ pos + n ≤ idx) :
    (beWrite buf pos n v)[idx]! = buf[idx]! := by
  rw [beWrite_eq]; apply wr_outside
  intro k hk; have := List.mem_range.1 hk; omega

theorem beWrite_inside (buf : Buf) (pos n v k : Nat) (hk : k < n) (hsz : pos + n ≤ buf.size) :
    (beWrite buf pos n v)[pos + k]! = UInt8.ofNat (v / 256^(n - 1 - k) % 256) := by
  rw [beWrite_eq]
  exact wr_inside pos _ (List.range n) buf List.nodup_range k (List.mem_range.2 hk) (by omega)

theorem foldl_congr_acc (a b : Buf) (pos : Nat) : ∀ (l : List Nat) (acc : Nat),
    (∀ k ∈ l, a[pos + k]! = b[pos + k]!) →
    l.foldl (fun acc k => acc * 256 + (a[pos + k]!).toNat) acc
      = l.foldl (fun acc k => acc * 256 + (b[pos + k]!).toNat) acc := by
  intro l; induction l with
  | nil => intro acc _; rfl
  | cons x l ih =>
    intro acc h
    simp only [List.foldl_cons]
    rw [h x List.mem_cons_self]
    exact ih _ (fun k hk => h k (List.mem_cons_of_mem _ hk))

theorem beRead_congr (a b : Buf) (pos n : Nat) (h : ∀ k, k < n → a[pos + k]! = b[pos + k]!) :
    beRead a pos n = beRead b pos n :=
  foldl_congr_acc a b pos (List.range n) 0 (fun k hk => h k (List.mem_range.1 hk))

theorem mod_pow_succ_256 (q m : Nat) : (q / 256 % 256^m) * 256 + q % 256 = q % 256^(m+1) := by
  rw [Nat.pow_succ, Nat.mul_comm (256^m) 256, Nat.mod_mul]
  omega

/-- reading `m ≤ n` leading bytes of the big-endian encoding of `v` -/
theorem beRead_prefix (buf : Buf) (pos n v : Nat)
    (hb : ∀ k, k < n → (buf[pos + k]!).toNat = v / 256^(n - 1 - k) % 256) :
    ∀ m, m ≤ n → beRead buf pos m = v / 256^(n - m) % 256^m := by
  intro m
  induction m with
  | zero => intro _; simp [beRead, Nat.mod_one]
  | succ m ih =>
    intro hm
    have ih' := ih (by omega)
    unfold beRead at ih' ⊢
    rw [List.range_succ, List.foldl_append, ih']
    simp only [List.foldl_cons, List.foldl_nil]
    rw [hb m (by omega)]
    have e1 : n - m = (n - 1 - m) + 1 := by omega
    have e2 : n - (m + 1) = n - 1 - m := by omega
    rw [e1, e2, Nat.pow_succ, ← Nat.div_div_eq_div_mul]
    exact mod_pow_succ_256 _ m

theorem beRead_beWrite (buf : Buf) (pos n v : Nat) (hsz : pos + n ≤ buf.size) :
    beRead (beWrite buf pos n v) pos n = v % 256^n := by
  have := beRead_prefix (beWrite buf pos n v) pos n v
    (fun k hk => by rw [beWrite_inside buf pos n v k hk hsz, UInt8.toNat_ofNat']
                    exact Nat.mod_eq_of_lt (Nat.mod_lt _ (by decide))) n (Nat.le_refl n)
  rw [this, Nat.sub_self, Nat.pow_zero, Nat.div_one]

theorem beRead_lt (buf : Buf) (pos : Nat) : ∀ n, beRead buf pos n < 256^n := by
  intro n
  induction n with
  | zero => simp [beRead]
  | succ n ih =>
    unfold beRead at ih ⊢
    rw [List.range_succ, List.foldl_append]
    simp only [List.foldl_cons, List.foldl_nil]
    have := UInt8.toNat_lt_size (buf[pos + n]!)
    rw [Nat.pow_succ]
    have h256 : UInt8.size = 256 := rfl
    omega

theorem order_cases {order : Nat} (h : order ≤ 6) :
    (∃ w per, IsSub order w per) ∨ (∃ n, IsBytes order n) := by
  have : order = 0 ∨ order = 1 ∨ order = 2 ∨ order = 3 ∨ order = 4 ∨ order = 5 ∨ order = 6 := by omega
  rcases this with rfl | rfl | rfl | rfl | rfl | rfl | rfl
  · exact Or.inl ⟨1, 8, Or.inl ⟨rfl, rfl, rfl⟩⟩
  · exact Or.inl ⟨2, 4, Or.inr (Or.inl ⟨rfl, rfl, rfl⟩)⟩
  · exact Or.inl ⟨4, 2, Or.inr (Or.inr ⟨rfl, rfl, rfl⟩)⟩
  · exact Or.inr ⟨1, Or.inl ⟨rfl, rfl⟩⟩
  · exact Or.inr ⟨2, Or.inr (Or.inl ⟨rfl, rfl⟩)⟩
  · exact Or.inr ⟨4, Or.inr (Or.inr (Or.inl ⟨rfl, rfl⟩))⟩
  · exact Or.inr ⟨8, Or.inr (Or.inr (Or.inr ⟨rfl, rfl⟩))⟩

theorem IsSub.facts {order w per : Nat} (h : IsSub order w per) :
    order < 3 ∧ w = 2^order ∧ per = 8 / 2^order ∧ 0 < per ∧ 2^w = 2^(2^order) ∧
    ((w = 1 ∧ per = 8) ∨ (w = 2 ∧ per = 4) ∨ (w = 4 ∧ per = 2)) := by
  rcases h with ⟨rfl, rfl, rfl⟩ | ⟨rfl, rfl, rfl⟩ | ⟨rfl, rfl, rfl⟩ <;> decide

theorem IsBytes.facts {order n : Nat} (h : IsBytes order n) :
    3 ≤ order ∧ order ≤ 6 ∧ n = 2^order / 8 ∧ 0 < n ∧ 256^n = 2^(2^order) := by
  rcases h with ⟨rfl, rfl⟩ | ⟨rfl, rfl⟩ | ⟨rfl, rfl⟩ | ⟨rfl, rfl⟩ <;> decide

theorem get_gt6 {order : Nat} (h : 6 < order) (buf : Buf) (i : Nat) :
    get order buf i = .panic "refcount.rs:__get:unreachable" := by
  obtain ⟨k, rfl⟩ : ∃ k, order = k + 7 := ⟨order - 7, by omega⟩
  rfl

theorem set_gt6 {order : Nat} (h : 6 < order) (buf : Buf) (i v : Nat) :
    set order buf i v = .panic "refcount.rs:__set:unreachable" := by
  obtain ⟨k, rfl⟩ : ∃ k, order = k + 7 := ⟨order - 7, by omega⟩
  unfold set
  rw [if_neg (fun h => absurd h.1 (by omega))]
  rfl

theorem set_ok_order {order : Nat} {buf buf' : Buf} {i v : Nat} (h : set order buf i v = .ok buf') :
    order ≤ 6 := by
  apply Classical.byContradiction; intro hc
  rw [set_gt6 (by omega)] at h; cases h

theorem get_ok_order {order : Nat} {buf : Buf} {i v : Nat} (h : get order buf i = .ok v) :
    order ≤ 6 := by
  apply Classical.byContradiction; intro hc
  rw [get_gt6 (by omega)] at h; cases h

/-! sub-byte orders -/
section sub
variable {order w per : Nat} (hs : IsSub order w per) {buf buf' : Buf} {i v : Nat}
include hs

theorem set_sub_ok (h : set order buf i v = .ok buf') :
    v < 2^w ∧ i / per < buf.size ∧ buf' = subSet w per buf i v := by
  rw [set_sub hs] at h
  by_cases c1 : 2^w ≤ v
  · rw [if_pos c1] at h; cases h
  rw [if_neg c1] at h
  by_cases c2 : i / per < buf.size
  · rw [if_pos c2] at h; cases h; exact ⟨by omega, c2, rfl⟩
  · rw [if_neg c2] at h; cases h

omit hs in
theorem subSet_size : (subSet w per buf i v).size = buf.size := size_set! _ _ _

omit hs in
theorem subSet_other_byte (k : Nat) (hk : k ≠ i / per) : (subSet w per buf i v)[k]! = buf[k]! :=
  getElem!_set!_ne _ _ _ _ (Ne.symm hk)

omit hs in
theorem subSet_same_byte (hi : i / per < buf.size) :
    ((subSet w per buf i v)[i / per]!).toNat = subByte w per (buf[i / per]!).toNat i v % 2^8 := by
  unfold subSet; rw [getElem!_set!_same _ _ _ hi, UInt8.toNat_ofNat']

theorem sub_get_set_same (h : set order buf i v = .ok buf') : get order buf' i = .ok v := by
  obtain ⟨hv, hi, rfl⟩ := set_sub_ok hs h
  obtain ⟨_, _, _, hper, _, hw⟩ := hs.facts
  rw [get_sub hs, subSet_size, if_pos hi, subSet_same_byte hi]
  have hb := UInt8.toNat_lt_size (buf[i / per]!)
  obtain ⟨h1, h2, _⟩ := sub_byte w per hw (buf[i / per]!).toNat (i % per) v hb (Nat.mod_lt _ hper) hv
  unfold subByte
  rw [Nat.mod_eq_of_lt h1, h2]

theorem sub_get_set_other {j : Nat} (hij : i ≠ j) (h : set order buf i v = .ok buf') :
    get order buf' j = get order buf j := by
  obtain ⟨hv, hi, rfl⟩ := set_sub_ok hs h
  obtain ⟨_, _, _, hper, _, hw⟩ := hs.facts
  rw [get_sub hs, get_sub hs, subSet_size]
  by_cases hj : j / per < buf.size
  · rw [if_pos hj, if_pos hj]
    by_cases hb : j / per = i / per
    · rw [hb, subSet_same_byte hi]
      have hlt := UInt8.toNat_lt_size (buf[i / per]!)
      obtain ⟨h1, _, h3⟩ := sub_byte w per hw (buf[i / per]!).toNat (i % per) v hlt (Nat.mod_lt _ hper) hv
      have hne : j % per ≠ i % per := by
        intro e
        have := Nat.div_add_mod j per
        have := Nat.div_add_mod i per
        rw [hb, e] at *
        omega
      unfold subByte
      rw [Nat.mod_eq_of_lt h1, h3 (j % per) (Nat.mod_lt _ hper) hne]
    · rw [subSet_other_byte _ hb]
  · rw [if_neg hj, if_neg hj]
end sub

/-! byte orders -/
section bytes
variable {order n : Nat} (hb : IsBytes order n) {buf buf' : Buf} {i v : Nat}
include hb

theorem set_bytes_ok (h : set order buf i v = .ok buf') :
    (order < 6 → v < 256^n) ∧ i * n + n ≤ buf.size ∧ buf' = beWrite buf (i * n) n v := by
  rw [set_bytes hb] at h
  by_cases c1 : order < 6 ∧ 256^n ≤ v
  · rw [if_pos c1] at h; cases h
  rw [if_neg c1] at h
  by_cases c2 : i * n + n ≤ buf.size
  · rw [if_pos c2] at h; cases h; exact ⟨fun h6 => by omega, c2, rfl⟩
  · rw [if_neg c2] at h; cases h

theorem bytes_get_set_same (hv64 : v < 2^64) (h : set order buf i v = .ok buf') :
    get order buf' i = .ok v := by
  obtain ⟨hv, hi, rfl⟩ := set_bytes_ok hb h
  obtain ⟨_, hle, _, _, hpow⟩ := hb.facts
  rw [get_bytes hb, beWrite_size, if_pos hi, beRead_beWrite _ _ _ _ hi]
  have : v < 256^n := by
    by_cases c : order < 6
    · exact hv c
    · have : order = 6 := by omega
      subst this
      rw [hpow]; exact hv64
  rw [Nat.mod_eq_of_lt this]

theorem bytes_get_set_other {j : Nat} (hij : i ≠ j) (h : set order buf i v = .ok buf') :
    get order buf' j = get order buf j := by
  obtain ⟨hv, hi, rfl⟩ := set_bytes_ok hb h
  rw [get_bytes hb, get_bytes hb, beWrite_size]
  have : beRead (beWrite buf (i * n) n v) (j * n) n = beRead buf (j * n) n := by
    apply beRead_congr
    intro k hk
    apply beWrite_outside
    rcases Nat.lt_or_gt_of_ne hij with hlt | hgt
    · right
      have : (i + 1) * n ≤ j * n := Nat.mul_le_mul_right n hlt
      rw [Nat.add_mul, Nat.one_mul] at this; omega
    · left
      have : (j + 1) * n ≤ i * n := Nat.mul_le_mul_right n hgt
      rw [Nat.add_mul, Nat.one_mul] at this; omega
  rw [this]
end bytes

/-! more sub-byte / byte-order facts -/
section sub2
variable {order w per : Nat} (hs : IsSub order w per) {buf : Buf} {i v : Nat}
include hs

theorem get_sub_ok {x : Nat} (h : get order buf i = .ok x) :
    i / per < buf.size ∧ x < 2^w ∧ x = ((buf[i / per]!).toNat >>> ((i % per) * w)) % 2^w := by
  rw [get_sub hs] at h
  by_cases c : i / per < buf.size
  · rw [if_pos c] at h; cases h
    exact ⟨c, Nat.mod_lt _ (Nat.two_pow_pos _), rfl⟩
  · rw [if_neg c] at h; cases h

theorem set_sub_succeeds (hv : v < 2^w) (hi : i / per < buf.size) :
    set order buf i v = .ok (subSet w per buf i v) := by
  rw [set_sub hs, if_neg (by omega), if_pos hi]

theorem sub_frame {buf' : Buf} (h : set order buf i v = .ok buf') (k : Nat) (hk : k ≠ i / per) :
    buf'[k]! = buf[k]! := by
  obtain ⟨_, _, rfl⟩ := set_sub_ok hs h
  exact subSet_other_byte k hk

theorem sub_set_size {buf' : Buf} (h : set order buf i v = .ok buf') : buf'.size = buf.size := by
  obtain ⟨_, _, rfl⟩ := set_sub_ok hs h
  exact subSet_size
end sub2

section bytes2
variable {order n : Nat} (hb : IsBytes order n) {buf : Buf} {i v : Nat}
include hb

theorem get_bytes_ok {x : Nat} (h : get order buf i = .ok x) :
    i * n + n ≤ buf.size ∧ x < 256^n ∧ x = beRead buf (i * n) n := by
  rw [get_bytes hb] at h
  by_cases c : i * n + n ≤ buf.size
  · rw [if_pos c] at h; cases h
    exact ⟨c, beRead_lt _ _ _, rfl⟩
  · rw [if_neg c] at h; cases h

theorem set_bytes_succeeds (hv : order < 6 → v < 256^n) (hi : i * n + n ≤ buf.size) :
    set order buf i v = .ok (beWrite buf (i * n) n v) := by
  rw [set_bytes hb, if_neg (fun h => by have := hv h.1; omega), if_pos hi]

theorem bytes_frame {buf' : Buf} (h : set order buf i v = .ok buf') (k : Nat)
    (hk : k < i * n ∨ i * n + n ≤ k) : buf'[k]! = buf[k]! := by
  obtain ⟨_, _, rfl⟩ := set_bytes_ok hb h
  exact beWrite_outside _ _ _ _ _ hk

theorem bytes_set_size {buf' : Buf} (h : set order buf i v = .ok buf') : buf'.size = buf.size := by
  obtain ⟨_, _, rfl⟩ := set_bytes_ok hb h
  exact beWrite_size _ _ _ _
end bytes2

theorem beRead_two (buf : Buf) (pos : Nat) :
    beRead buf pos 2 = (buf[pos]!).toNat * 256 + (buf[pos + 1]!).toNat := by
  simp [beRead, List.range_succ]

theorem beRead_four (buf : Buf) (pos : Nat) :
    beRead buf pos 4 = (buf[pos]!).toNat * 256^3 + (buf[pos + 1]!).toNat * 256^2
      + (buf[pos + 2]!).toNat * 256 + (buf[pos + 3]!).toNat := by
  simp only [beRead, List.range_succ, List.range_zero, List.nil_append, List.cons_append,
    List.foldl_cons, List.foldl_nil, Nat.add_zero, Nat.reducePow]
  omega

theorem beRead_eight (buf : Buf) (pos : Nat) :
    beRead buf pos 8 = (buf[pos]!).toNat * 256^7 + (buf[pos + 1]!).toNat * 256^6
      + (buf[pos + 2]!).toNat * 256^5 + (buf[pos + 3]!).toNat * 256^4
      + (buf[pos + 4]!).toNat * 256^3 + (buf[pos + 5]!).toNat * 256^2
      + (buf[pos + 6]!).toNat * 256 + (buf[pos + 7]!).toNat := by
  simp only [beRead, List.range_succ, List.range_zero, List.nil_append, List.cons_append,
    List.foldl_cons, List.foldl_nil, Nat.add_zero, Nat.reducePow]
  omega

/-- bit-level reading of a sub-byte field -/
theorem field_testBit (b k w t : Nat) :
    (((b >>> (k * w)) % 2^w).testBit t) = (decide (t < w) && b.testBit (k * w + t)) := by
  rw [Nat.testBit_mod_two_pow, Nat.testBit_shiftRight]

theorem sub_in_range {order w per : Nat} (hs : IsSub order w per) (buf : Buf) (i : Nat) :
    i / per < buf.size ↔ i < entries order buf := by
  unfold entries
  rcases hs with ⟨rfl, rfl, rfl⟩ | ⟨rfl, rfl, rfl⟩ | ⟨rfl, rfl, rfl⟩ <;>
    simp only [Nat.reducePow] <;> omega

theorem bytes_in_range {order n : Nat} (hb : IsBytes order n) (buf : Buf) (i : Nat) :
    i * n + n ≤ buf.size ↔ i < entries order buf := by
  unfold entries
  rcases hb with ⟨rfl, rfl⟩ | ⟨rfl, rfl⟩ | ⟨rfl, rfl⟩ | ⟨rfl, rfl⟩ <;>
    simp only [Nat.reducePow] <;> omega

end Qv.Codec.Rc

/-! ## Part A helpers: L2 / L1 entries -/
namespace Qv.Codec.L2

/-- single-bit test, kernel-checked (no `bv_decide`) -/
theorem bit_test (e : BitVec 64) (i : Nat) (hi : i < 64) :
    ((e &&& (1#64 <<< i)) != 0#64) = (e.extractLsb' i 1 == 1#1) := by
  rw [← BitVec.getLsbD_eq_extractLsb', ← BitVec.twoPow_eq, BitVec.and_twoPow]
  have hne : (BitVec.twoPow 64 i != 0#64) = true := by
    rw [bne_iff_ne]
    intro h
    have := congrArg BitVec.toNat h
    rw [BitVec.toNat_twoPow_of_lt hi] at this
    have := Nat.two_pow_pos i
    simp at *
  cases e.getLsbD i
  · rfl
  · simpa using hne

theorem isCompressed_eq (e : E64) : isCompressed e = (e.extractLsb' 62 1 == 1#1) :=
  bit_test e 62 (by decide)
theorem isCopied_eq (e : E64) : isCopied e = (e.extractLsb' 63 1 == 1#1) :=
  bit_test e 63 (by decide)
theorem isZero_eq (e : E64) : isZero e = (e.extractLsb' 0 1 == 1#1) :=
  bit_test e 0 (by decide)

theorem nat_and_field (a : Nat) : a &&& ((2^47 - 1) <<< 9) = (a >>> 9 % 2^47) <<< 9 := by
  apply Nat.eq_of_testBit_eq
  intro j
  rw [Nat.testBit_and, Nat.testBit_shiftLeft, Nat.testBit_shiftLeft, Nat.testBit_two_pow_sub_one,
    Nat.testBit_mod_two_pow, Nat.testBit_shiftRight]
  by_cases hj : 9 ≤ j
  · have : 9 + (j - 9) = j := by omega
    rw [this]
    cases a.testBit j <;> cases decide (j - 9 < 47) <;> simp [hj]
  · simp [hj]

theorem clusterOffset_toNat (e : E64) : (clusterOffset e).toNat = (e.extractLsb' 9 47).toNat * 512 := by
  unfold clusterOffset
  rw [BitVec.toNat_and, BitVec.extractLsb'_toNat]
  have h := nat_and_field e.toNat
  rw [Nat.shiftLeft_eq, Nat.shiftLeft_eq] at h
  exact h
theorem clusterOffset_eq_zero_iff (e : E64) : clusterOffset e = 0#64 ↔ (e.extractLsb' 9 47).toNat * 512 = 0 := by
  rw [← clusterOffset_toNat]
  constructor
  · intro h; rw [h]; rfl
  · intro h; exact BitVec.eq_of_toNat_eq h

theorem mask_toNat (c : Nat) (hc : c < 64) : ((1#64 <<< c) - 1#64).toNat = 2^c - 1 := by
  have h1 : (1#64 <<< c).toNat = 2^c := by
    rw [BitVec.toNat_shiftLeft, Nat.shiftLeft_eq]
    simp only [BitVec.toNat_ofNat, Nat.reducePow, Nat.reduceMod, Nat.one_mul]
    exact Nat.mod_eq_of_lt (Nat.pow_lt_pow_right (by decide) hc)
  rw [BitVec.toNat_sub, h1]
  have := Nat.two_pow_pos c
  have hlt : 2^c < 2^64 := Nat.pow_lt_pow_right (by decide) hc
  simp only [BitVec.toNat_ofNat, Nat.reducePow, Nat.reduceMod] at hlt ⊢
  omega

theorem and_mask_toNat (a : E64) (c : Nat) (hc : c < 64) :
    (a &&& ((1#64 <<< c) - 1#64)).toNat = a.toNat % 2^c := by
  rw [BitVec.toNat_and, mask_toNat c hc, Nat.and_two_pow_sub_one_eq_mod]

theorem and_lit62_toNat (a : E64) : (a &&& 0x3fffffffffffffff#64).toNat = a.toNat % 2^62 :=
  and_mask_toNat a 62 (by decide)
theorem and_lit56_toNat (a : E64) : (a &&& 0x00ffffffffffffff#64).toNat = a.toNat % 2^56 :=
  and_mask_toNat a 56 (by decide)
theorem and_lit9_toNat (a : E64) : (a &&& 511#64).toNat = a.toNat % 512 :=
  and_mask_toNat a 9 (by decide)

/-- raw offset field (bits `0..c-1`, then masked to 56 bits) of the compressed descriptor -/
theorem comp_offset_toNat (e : E64) (c : Nat) (hc : c ≤ 62) :
    (compressedDescriptor e &&& ((1#64 <<< c) - 1#64) &&& 0x00ffffffffffffff#64).toNat
      = (e.extractLsb' 0 c).toNat % 2^56 := by
  unfold compressedDescriptor
  rw [and_lit56_toNat, and_mask_toNat _ c (by omega), and_lit62_toNat, BitVec.extractLsb'_toNat,
    Nat.shiftRight_zero, Nat.mod_mod_of_dvd _ (Nat.pow_dvd_pow 2 hc)]

theorem comp_sectors_toNat (e : E64) (c : Nat) (hc : c ≤ 62) :
    (compressedDescriptor e >>> c).toNat = (e.extractLsb' c (62 - c)).toNat := by
  unfold compressedDescriptor
  rw [BitVec.toNat_ushiftRight, and_lit62_toNat, BitVec.extractLsb'_toNat,
    Nat.shiftRight_eq_div_pow, Nat.shiftRight_eq_div_pow]
  have : 2^62 = 2^c * 2^(62 - c) := by rw [← Nat.pow_add]; congr 1; omega
  rw [this, Nat.mod_mul_right_div_self]

def encCompressed (cb off len : Nat) : E64 :=
  (1#64 <<< 62) ||| (BitVec.ofNat 64 ((len - 1 + off % 512) / 512) <<< (62 - (cb - 8))) ||| BitVec.ofNat 64 off

theorem fromMapping_compressed (cb off len : Nat) :
    fromMapping cb { source := .compressed, clusterOffset := some off, compressedLength := some len, copied := false }
    = if off > 0x00ffffffffffffff then .panic "l2.rs:from_mapping:offset-range" else
      if len = 0 then .panic "l2.rs:from_mapping:assert-length-positive" else
      if ¬ ((len - 1 + off % 512) / 512 < 2^(cb - 8)) then .panic "l2.rs:from_mapping:assert-sectors" else
      if reservedBits (encCompressed cb off len) ≠ 0#64 then .panic "l2.rs:from_mapping:reserved"
      else .ok (encCompressed cb off len) := by
  unfold fromMapping
  simp only [Option.getD_some, Bool.false_eq_true, if_false]
  by_cases c1 : off > 0x00ffffffffffffff
  · rw [if_pos c1, if_pos c1]
  rw [if_neg c1, if_neg c1]
  by_cases c2 : len = 0
  · rw [if_pos c2, if_pos c2]; rfl
  rw [if_neg c2, if_neg c2]
  by_cases c3 : ¬ ((len - 1 + off % 512) / 512 < 2^(cb - 8))
  · rw [if_pos c3, if_pos c3]; rfl
  rw [if_neg c3, if_neg c3]
  rfl

theorem fromMapping_dataFile (cb off : Nat) (c : Bool) :
    fromMapping cb { source := .dataFile, clusterOffset := some off, compressedLength := none, copied := c }
    = if off > 0x00ffffffffffffff then .panic "l2.rs:from_mapping:offset-range" else
      if reservedBits (if c then (1#64 <<< 63) ||| BitVec.ofNat 64 off else BitVec.ofNat 64 off) ≠ 0#64
      then .panic "l2.rs:from_mapping:reserved"
      else .ok (if c then (1#64 <<< 63) ||| BitVec.ofNat 64 off else BitVec.ofNat 64 off) := by
  unfold fromMapping
  simp only [Option.getD_some, Option.isSome_none, Bool.false_eq_true, if_false]
  by_cases c1 : off > 0x00ffffffffffffff
  · rw [if_pos c1, if_pos c1]
  rw [if_neg c1, if_neg c1]
  rfl

theorem fromMapping_zero (cb : Nat) (o : Option Nat) (c : Bool) :
    fromMapping cb { source := .zero, clusterOffset := o, compressedLength := none, copied := c }
    = if o.getD 0 > 0x00ffffffffffffff then .panic "l2.rs:from_mapping:offset-range" else
      if c then
        match o with
        | none => .panic "l2.rs:from_mapping:unwrap"
        | some off =>
          if reservedBits ((1#64 <<< 63) ||| BitVec.ofNat 64 off ||| 1#64) ≠ 0#64
          then .panic "l2.rs:from_mapping:reserved"
          else .ok ((1#64 <<< 63) ||| BitVec.ofNat 64 off ||| 1#64)
      else
        if reservedBits (BitVec.ofNat 64 (o.getD 0) ||| 1#64) ≠ 0#64
        then .panic "l2.rs:from_mapping:reserved"
        else .ok (BitVec.ofNat 64 (o.getD 0) ||| 1#64) := by
  unfold fromMapping
  simp only [Option.isSome_none, Bool.false_eq_true, if_false]
  by_cases c1 : o.getD 0 > 0x00ffffffffffffff
  · rw [if_pos c1, if_pos c1]
  rw [if_neg c1, if_neg c1]
  cases c
  · rfl
  · cases o <;> rfl

theorem fromMapping_backing (cb g : Nat) :
    fromMapping cb { source := .backing, clusterOffset := some g, compressedLength := none, copied := false }
    = if g > 0x00ffffffffffffff then .panic "l2.rs:from_mapping:offset-range" else .ok 0#64 := by
  unfold fromMapping
  simp only [Option.getD_some]
  by_cases c1 : g > 0x00ffffffffffffff
  · rw [if_pos c1, if_pos c1]
  rw [if_neg c1, if_neg c1]
  rfl

theorem fromMapping_unallocated (cb : Nat) (o : Option Nat) (l : Option Nat) (c : Bool) :
    fromMapping cb { source := .unallocated, clusterOffset := o, compressedLength := l, copied := c }
    = if o.getD 0 > 0x00ffffffffffffff then .panic "l2.rs:from_mapping:offset-range" else .ok 0#64 := by
  unfold fromMapping
  by_cases c1 : o.getD 0 > 0x00ffffffffffffff
  · rw [if_pos c1, if_pos c1]
  rw [if_neg c1, if_neg c1]
  rfl

theorem clusterOffset_le (e : E64) : ¬ (clusterOffset e).toNat > 0x00ffffffffffffff := by
  rw [clusterOffset_toNat]
  have := (e.extractLsb' 9 47).isLt
  simp only [Nat.reducePow] at this
  omega

theorem ofNat_clusterOffset (e : E64) : BitVec.ofNat 64 (clusterOffset e).toNat = clusterOffset e := by
  simp

/-- normalised standard entry: what `from_mapping ∘ into_mapping` produces -/
def stdNormalize (e : BitVec 64) : BitVec 64 :=
  if clusterOffset e = 0#64 then e &&& 1#64 else e &&& 0x80fffffffffffe01#64

theorem finish_ok {s : String} {v w : BitVec 64} (hr : reservedBits v = 0#64) (hvw : v = w) :
    (if reservedBits v ≠ 0#64 then Outcome.panic s else Outcome.ok v) = Outcome.ok w := by
  rw [if_neg (by rw [hr]; exact fun h => h rfl), hvw]

theorem roundtrip_standard (cb : Nat) (hb : Bool) (g : Nat) (e : BitVec 64)
    (hc : isCompressed e = false) (hg : g ≤ 0x00ffffffffffffff) :
    fromMapping cb (intoMapping cb hb g e) = .ok (stdNormalize e) := by
  have hcr : compressedRange cb e = none := by unfold compressedRange; rw [hc]; rfl
  unfold intoMapping stdNormalize
  rw [hcr]
  simp only []
  by_cases hz : isZero e = true
  · rw [if_pos hz]
    by_cases ho : clusterOffset e = 0#64
    · rw [if_pos ho, if_pos ho]
      simp only [Option.isSome_none, Bool.false_and]
      rw [fromMapping_zero]
      simp only [Option.getD_none]
      rw [if_neg (by decide)]
      simp only [Bool.false_eq_true, if_false]
      apply finish_ok
      · unfold reservedBits isCompressed; bv_decide
      · unfold isZero at hz; bv_decide
    · rw [if_neg ho, if_neg ho]
      simp only [Option.isSome_some, Bool.true_and]
      rw [fromMapping_zero]
      simp only [Option.getD_some, ofNat_clusterOffset]
      rw [if_neg (clusterOffset_le e)]
      by_cases hcp : isCopied e = true
      · rw [if_pos hcp]
        apply finish_ok
        · unfold reservedBits isCompressed clusterOffset; bv_decide
        · unfold isZero at hz; unfold isCopied at hcp; unfold clusterOffset; bv_decide
      · rw [if_neg hcp]
        apply finish_ok
        · unfold reservedBits isCompressed clusterOffset; bv_decide
        · unfold isZero at hz; unfold isCopied at hcp; unfold isCompressed at hc; unfold clusterOffset
          bv_decide
  · rw [if_neg hz]
    by_cases ho : clusterOffset e = 0#64
    · rw [if_pos ho, if_pos ho]
      have hv : (0#64 : BitVec 64) = e &&& 1#64 := by unfold isZero at hz; bv_decide
      by_cases hbk : (isCopied e || hb) = true
      · rw [if_pos hbk, fromMapping_backing, if_neg (by omega), hv]
      · rw [if_neg hbk, fromMapping_unallocated]
        simp only [Option.getD_some]
        rw [if_neg (by decide), hv]
    · rw [if_neg ho, if_neg ho, fromMapping_dataFile]
      simp only [ofNat_clusterOffset]
      rw [if_neg (clusterOffset_le e)]
      apply finish_ok
      · unfold reservedBits isCompressed isCopied clusterOffset; bv_decide
      · unfold isZero at hz; unfold isCompressed at hc; unfold isCopied clusterOffset; bv_decide

theorem one_shiftLeft_toNat (c : Nat) (hc : c < 64) : (1#64 <<< c).toNat = 2^c := by
  rw [BitVec.toNat_shiftLeft, Nat.shiftLeft_eq]
  simp only [BitVec.toNat_ofNat, Nat.reducePow, Nat.reduceMod, Nat.one_mul]
  exact Nat.mod_eq_of_lt (Nat.pow_lt_pow_right (by decide) hc)

theorem lt_one_shiftLeft (o : BitVec 64) (k : Nat) (hk : k < 64) (h : o.toNat < 2^k) :
    o < 1#64 <<< k := by
  rw [BitVec.lt_def, one_shiftLeft_toNat k hk]; exact h

theorem cb_cases {cb : Nat} (h9 : 9 ≤ cb) (h21 : cb ≤ 21) :
    cb = 9 ∨ cb = 10 ∨ cb = 11 ∨ cb = 12 ∨ cb = 13 ∨ cb = 14 ∨ cb = 15 ∨ cb = 16 ∨ cb = 17 ∨
    cb = 18 ∨ cb = 19 ∨ cb = 20 ∨ cb = 21 := by omega

theorem compressed_reassemble (cb : Nat) (h9 : 9 ≤ cb) (h21 : cb ≤ 21) (e : BitVec 64)
    (hc : isCompressed e = true) (hcp : isCopied e = false)
    (h56 : compressedDescriptor e &&& ((1#64 <<< (62 - (cb - 8))) - 1#64) &&& 0x00ffffffffffffff#64
      = compressedDescriptor e &&& ((1#64 <<< (62 - (cb - 8))) - 1#64)) :
    (1#64 <<< 62) ||| ((compressedDescriptor e >>> (62 - (cb - 8))) <<< (62 - (cb - 8)))
      ||| (compressedDescriptor e &&& ((1#64 <<< (62 - (cb - 8))) - 1#64) &&& 0x00ffffffffffffff#64) = e := by
  unfold isCompressed at hc; unfold isCopied at hcp; unfold compressedDescriptor at h56 ⊢
  rcases cb_cases h9 h21 with rfl | rfl | rfl | rfl | rfl | rfl | rfl | rfl | rfl | rfl | rfl | rfl | rfl <;>
    (simp only [Nat.reduceSub] at h56 ⊢; delta E64 at *; bv_decide)

theorem compressed_fields_of_enc (cb : Nat) (h9 : 9 ≤ cb) (h21 : cb ≤ 21) (o s : BitVec 64)
    (ho : o < 1#64 <<< 56) (ho' : o < 1#64 <<< (62 - (cb - 8))) (hs : s < 1#64 <<< (cb - 8)) :
    isCompressed ((1#64 <<< 62) ||| (s <<< (62 - (cb - 8))) ||| o) = true ∧
    (compressedDescriptor ((1#64 <<< 62) ||| (s <<< (62 - (cb - 8))) ||| o)
      &&& ((1#64 <<< (62 - (cb - 8))) - 1#64) &&& 0x00ffffffffffffff#64) = o ∧
    compressedDescriptor ((1#64 <<< 62) ||| (s <<< (62 - (cb - 8))) ||| o) >>> (62 - (cb - 8)) = s ∧
    reservedBits ((1#64 <<< 62) ||| (s <<< (62 - (cb - 8))) ||| o) = 0#64 := by
  unfold reservedBits isCompressed compressedDescriptor
  rcases cb_cases h9 h21 with rfl | rfl | rfl | rfl | rfl | rfl | rfl | rfl | rfl | rfl | rfl | rfl | rfl <;>
    (simp only [Nat.reduceSub] at ho' hs ⊢; delta E64 at *; bv_decide)

theorem compressedRange_some (cb : Nat) (e : BitVec 64) (hc : isCompressed e = true) :
    compressedRange cb e = some
      ((compressedDescriptor e &&& ((1#64 <<< (62 - (cb - 8))) - 1#64) &&& 0x00ffffffffffffff#64).toNat,
       ((compressedDescriptor e >>> (62 - (cb - 8))).toNat + 1) * 512
         - (compressedDescriptor e &&& ((1#64 <<< (62 - (cb - 8))) - 1#64) &&& 0x00ffffffffffffff#64).toNat % 512) := by
  unfold compressedRange
  rw [hc, if_pos rfl]
  simp only []
  rw [and_lit9_toNat]

theorem comp_offset_raw_toNat (e : BitVec 64) (c : Nat) (hc : c ≤ 62) :
    (compressedDescriptor e &&& ((1#64 <<< c) - 1#64)).toNat = (e.extractLsb' 0 c).toNat := by
  unfold compressedDescriptor
  rw [and_mask_toNat _ c (by omega), and_lit62_toNat, BitVec.extractLsb'_toNat,
    Nat.shiftRight_zero, Nat.mod_mod_of_dvd _ (Nat.pow_dvd_pow 2 hc)]

theorem reservedBits_compressed (e : BitVec 64) (hc : isCompressed e = true) (hcp : isCopied e = false) :
    reservedBits e = 0#64 := by
  unfold reservedBits; rw [hc, if_pos rfl]
  unfold isCopied at hcp
  delta E64 at *; bv_decide

/-- compressed entries (COPIED clear, offset below 2^56) re-encode exactly, whatever their
    decoded length: the sector count read from a `cb-8` bit field always fits it again -/
theorem roundtrip_compressed (cb : Nat) (h9 : 9 ≤ cb) (h21 : cb ≤ 21) (hb : Bool) (g : Nat)
    (e : BitVec 64) (hc : isCompressed e = true) (hcp : isCopied e = false)
    (h56 : (e.extractLsb' 0 (62 - (cb - 8))).toNat < 2^56)
    (off len : Nat) (hcr : compressedRange cb e = some (off, len)) :
    fromMapping cb (intoMapping cb hb g e) = .ok e := by
  have hx : 62 - (cb - 8) ≤ 62 := Nat.sub_le _ _
  rw [compressedRange_some cb e hc] at hcr
  simp only [Option.some.injEq, Prod.mk.injEq] at hcr
  obtain ⟨hoff, hlen'⟩ := hcr
  have hsecLt : (compressedDescriptor e >>> (62 - (cb - 8))).toNat < 2^(cb - 8) := by
    rw [comp_sectors_toNat e _ hx, BitVec.extractLsb'_toNat,
      show 62 - (62 - (cb - 8)) = cb - 8 by omega]
    exact Nat.mod_lt _ (Nat.two_pow_pos _)
  have hoffM : ¬ off > 0x00ffffffffffffff := by
    rw [← hoff, and_lit56_toNat]
    have := Nat.mod_lt (compressedDescriptor e &&& ((1#64 <<< (62 - (cb - 8))) - 1#64)).toNat
      (show 0 < 2^56 by decide)
    simp only [Nat.reducePow] at this ⊢
    omega
  have hbv56 : compressedDescriptor e &&& ((1#64 <<< (62 - (cb - 8))) - 1#64) &&& 0x00ffffffffffffff#64
      = compressedDescriptor e &&& ((1#64 <<< (62 - (cb - 8))) - 1#64) := by
    apply BitVec.eq_of_toNat_eq
    rw [and_lit56_toNat, comp_offset_raw_toNat e _ hx, Nat.mod_eq_of_lt h56]
  have hre := compressed_reassemble cb h9 h21 e hc hcp hbv56
  unfold intoMapping
  rw [compressedRange_some cb e hc]
  simp only []
  rw [hoff] at hlen' ⊢
  have hs : (len - 1 + off % 512) / 512 = (compressedDescriptor e >>> (62 - (cb - 8))).toNat := by
    have := Nat.mod_lt off (show 0 < 512 by decide)
    omega
  have hlen0 : ¬ len = 0 := by
    have := Nat.mod_lt off (show 0 < 512 by decide)
    omega
  rw [hlen', fromMapping_compressed, if_neg hoffM, if_neg hlen0,
    if_neg (by rw [hs]; exact fun h => h hsecLt)]
  have henc : encCompressed cb off len = e := by
    unfold encCompressed
    rw [hs, ← hoff]
    simp only [BitVec.ofNat_toNat, BitVec.setWidth_eq]
    exact hre
  rw [henc, if_neg (by rw [reservedBits_compressed e hc hcp]; exact fun h => h rfl)]

/-- `from_mapping` on a compressed mapping (non-empty, offset in range) hits
    `assert!(sectors < 1 << (cluster_bits - 8))` exactly when the sector count does
    not fit its `cb-8` bit field -/
theorem fromMapping_compressed_sectors_panics_iff (cb off len : Nat)
    (hoff : off ≤ 0x00ffffffffffffff) (hlen1 : 1 ≤ len) :
    fromMapping cb { source := .compressed, clusterOffset := some off, compressedLength := some len,
                     copied := false } = .panic "l2.rs:from_mapping:assert-sectors"
      ↔ 2^(cb - 8) ≤ (len - 1 + off % 512) / 512 := by
  rw [fromMapping_compressed, if_neg (by omega), if_neg (by omega)]
  by_cases hs : (len - 1 + off % 512) / 512 < 2^(cb - 8)
  · rw [if_neg (fun h => h hs)]
    constructor
    · intro h
      by_cases hr : reservedBits (encCompressed cb off len) ≠ 0#64
      · rw [if_pos hr] at h
        exact absurd (Outcome.panic.inj h) (by decide)
      · rw [if_neg hr] at h; cases h
    · intro h; omega
  · rw [if_pos hs]
    exact ⟨fun _ => by omega, fun _ => rfl⟩

theorem ofNat_toNat_of_lt (n : Nat) (h : n < 2^64) : (BitVec.ofNat 64 n).toNat = n := by
  rw [BitVec.toNat_ofNat]; exact Nat.mod_eq_of_lt h

/-- decode ∘ encode on a consistent compressed mapping -/
theorem encode_decode_compressed (cb : Nat) (h9 : 9 ≤ cb) (h21 : cb ≤ 21) (hb : Bool) (g : Nat)
    (off len : Nat) (hoff56 : off < 2^56) (hoffx : off < 2^(62 - (cb - 8)))
    (hlen1 : 1 ≤ len) (hS : (len - 1 + off % 512) / 512 < 2^(cb - 8)) (hcons : (len + off % 512) % 512 = 0) :
    fromMapping cb { source := .compressed, clusterOffset := some off, compressedLength := some len,
                     copied := false } = .ok (encCompressed cb off len) ∧
    intoMapping cb hb g (encCompressed cb off len)
      = { source := .compressed, clusterOffset := some off, compressedLength := some len,
          copied := false } := by
  have hr := Nat.mod_lt off (show 0 < 512 by decide)
  have hS64 : (len - 1 + off % 512) / 512 < 2^64 :=
    Nat.lt_of_lt_of_le hS (Nat.pow_le_pow_right (by decide) (by omega))
  have ho64 : off < 2^64 := Nat.lt_of_lt_of_le hoff56 (by decide)
  have hoT := ofNat_toNat_of_lt off ho64
  have hsT := ofNat_toNat_of_lt _ hS64
  obtain ⟨f1, f2, f3, f4⟩ := compressed_fields_of_enc cb h9 h21 (BitVec.ofNat 64 off)
    (BitVec.ofNat 64 ((len - 1 + off % 512) / 512))
    (lt_one_shiftLeft _ 56 (by decide) (by rw [hoT]; exact hoff56))
    (lt_one_shiftLeft _ _ (by omega) (by rw [hoT]; exact hoffx))
    (lt_one_shiftLeft _ _ (by omega) (by rw [hsT]; exact hS))
  have henc : encCompressed cb off len = (1#64 <<< 62) |||
      (BitVec.ofNat 64 ((len - 1 + off % 512) / 512) <<< (62 - (cb - 8))) ||| BitVec.ofNat 64 off := rfl
  refine ⟨?_, ?_⟩
  · rw [fromMapping_compressed, if_neg (by simp only [Nat.reducePow] at hoff56; omega),
      if_neg (by omega), if_neg (fun h => h hS), henc, f4, if_neg (fun h => h rfl)]
  · unfold intoMapping
    rw [henc, compressedRange_some cb _ f1, f2, f3, hoT, hsT]
    simp only []
    have : ((len - 1 + off % 512) / 512 + 1) * 512 - off % 512 = len := by omega
    rw [this]

/-- bit-level facts about an encoded standard descriptor -/
theorem std_fields_of_enc (o : BitVec 64) (ho9 : o &&& 511#64 = 0#64) (ho56 : o < 1#64 <<< 56) :
    (isCompressed o = false ∧ isZero o = false ∧ clusterOffset o = o ∧ isCopied o = false ∧
      reservedBits o = 0#64) ∧
    (isCompressed ((1#64 <<< 63) ||| o) = false ∧ isZero ((1#64 <<< 63) ||| o) = false ∧
      clusterOffset ((1#64 <<< 63) ||| o) = o ∧ isCopied ((1#64 <<< 63) ||| o) = true ∧
      reservedBits ((1#64 <<< 63) ||| o) = 0#64) ∧
    (isCompressed (o ||| 1#64) = false ∧ isZero (o ||| 1#64) = true ∧
      clusterOffset (o ||| 1#64) = o ∧ isCopied (o ||| 1#64) = false ∧
      reservedBits (o ||| 1#64) = 0#64) ∧
    (isCompressed ((1#64 <<< 63) ||| o ||| 1#64) = false ∧ isZero ((1#64 <<< 63) ||| o ||| 1#64) = true ∧
      clusterOffset ((1#64 <<< 63) ||| o ||| 1#64) = o ∧ isCopied ((1#64 <<< 63) ||| o ||| 1#64) = true ∧
      reservedBits ((1#64 <<< 63) ||| o ||| 1#64) = 0#64) := by
  unfold reservedBits isCompressed isZero isCopied clusterOffset
  delta E64 at *
  refine ⟨⟨?_, ?_, ?_, ?_, ?_⟩, ⟨?_, ?_, ?_, ?_, ?_⟩, ⟨?_, ?_, ?_, ?_, ?_⟩, ⟨?_, ?_, ?_, ?_, ?_⟩⟩ <;>
    bv_decide

theorem std_offset_bv (off : Nat) (h512 : off % 512 = 0) (h56 : off < 2^56) :
    (BitVec.ofNat 64 off) &&& 511#64 = 0#64 ∧ BitVec.ofNat 64 off < 1#64 <<< 56 ∧
    (BitVec.ofNat 64 off).toNat = off := by
  have hoT := ofNat_toNat_of_lt off (Nat.lt_of_lt_of_le h56 (by decide))
  refine ⟨?_, lt_one_shiftLeft _ 56 (by decide) (by rw [hoT]; exact h56), hoT⟩
  apply BitVec.eq_of_toNat_eq
  rw [and_lit9_toNat, hoT, h512]; rfl

theorem stdNormalize_fixed_iff (e : BitVec 64) (hc : isCompressed e = false) :
    stdNormalize e = e ↔
      ((e.extractLsb' 1 8 = 0#8 ∧ e.extractLsb' 56 6 = 0#6) ∧
       ((e.extractLsb' 63 1 == 1#1) = true → (e.extractLsb' 9 47).toNat * 512 ≠ 0)) := by
  rw [show ((e.extractLsb' 9 47).toNat * 512 ≠ 0) = ¬ (clusterOffset e = 0#64) from by
    rw [clusterOffset_eq_zero_iff]]
  unfold stdNormalize
  unfold isCompressed at hc
  by_cases ho : clusterOffset e = 0#64
  · rw [if_pos ho]
    have ho' := ho
    unfold clusterOffset at ho
    delta E64 at *
    constructor
    · intro h
      refine ⟨⟨?_, ?_⟩, ?_⟩
      · bv_decide
      · bv_decide
      · intro h1 _; bv_decide
    · rintro ⟨⟨h1, h2⟩, h3⟩
      have h4 : (e.extractLsb' 63 1 == 1#1) = false := by
        cases hh : (e.extractLsb' 63 1 == 1#1)
        · rfl
        · exact absurd ho' (h3 hh)
      bv_decide
  · rw [if_neg ho]
    unfold clusterOffset at ho
    delta E64 at *
    constructor
    · intro h
      refine ⟨⟨?_, ?_⟩, fun _ => ho⟩
      · bv_decide
      · bv_decide
    · rintro ⟨⟨h1, h2⟩, _⟩
      bv_decide

theorem backing_highguest_panics (cb : Nat) (hb : Bool) (g : Nat) (e : BitVec 64)
    (hc : isCompressed e = false) (hz : isZero e = false) (ho : clusterOffset e = 0#64)
    (hbk : (isCopied e || hb) = true) (hg : g > 0x00ffffffffffffff) :
    fromMapping cb (intoMapping cb hb g e) = .panic "l2.rs:from_mapping:offset-range" := by
  have hcr : compressedRange cb e = none := by unfold compressedRange; rw [hc]; rfl
  unfold intoMapping
  rw [hcr]
  simp only []
  rw [if_neg (by rw [hz]; exact Bool.false_ne_true), if_pos ho, if_pos hbk, fromMapping_backing, if_pos hg]

theorem clusterOffset_props (e : BitVec 64) (h : ¬ clusterOffset e = 0#64) :
    (clusterOffset e).toNat % 512 = 0 ∧ 0 < (clusterOffset e).toNat ∧ (clusterOffset e).toNat < 2^56 := by
  have hne : (clusterOffset e).toNat ≠ 0 := fun h0 => h (BitVec.eq_of_toNat_eq h0)
  have hle := clusterOffset_le e
  rw [clusterOffset_toNat] at *
  simp only [Nat.reducePow]
  omega

/-- shape of `into_mapping` on a compressed entry -/
theorem intoMapping_compressed_shape (cb : Nat) (hb : Bool) (g : Nat) (v : BitVec 64)
    (hc : isCompressed v = true) :
    ∃ off len, intoMapping cb hb g v = { source := .compressed, clusterOffset := some off, compressedLength := some len, copied := false } ∧
      off < 2^56 ∧ off < 2^(62 - (cb - 8)) ∧ 1 ≤ len ∧ (len + off % 512) % 512 = 0 := by
  have hx : 62 - (cb - 8) ≤ 62 := Nat.sub_le _ _
  refine ⟨_, _, by unfold intoMapping; rw [compressedRange_some cb v hc], ?_, ?_, ?_, ?_⟩
  · rw [and_lit56_toNat]; exact Nat.mod_lt _ (by decide)
  · rw [and_lit56_toNat, comp_offset_raw_toNat v _ hx]
    exact Nat.lt_of_le_of_lt (Nat.mod_le _ _) (BitVec.isLt _)
  · have := Nat.mod_lt (compressedDescriptor v &&& ((1#64 <<< (62 - (cb - 8))) - 1#64)
      &&& 0x00ffffffffffffff#64).toNat (show 0 < 512 by decide)
    omega
  · have := Nat.mod_lt (compressedDescriptor v &&& ((1#64 <<< (62 - (cb - 8))) - 1#64)
      &&& 0x00ffffffffffffff#64).toNat (show 0 < 512 by decide)
    omega

/-- shape of `into_mapping` on a standard entry -/
theorem intoMapping_standard_shape (cb : Nat) (hb : Bool) (g : Nat) (v : BitVec 64)
    (hc : isCompressed v = false) :
    (intoMapping cb hb g v = { source := .zero, clusterOffset := none, compressedLength := none, copied := false }) ∨
    (∃ off c, intoMapping cb hb g v = { source := .zero, clusterOffset := some off, compressedLength := none, copied := c } ∧ off % 512 = 0 ∧ 0 < off ∧ off < 2^56) ∨
    (intoMapping cb hb g v = { source := .backing, clusterOffset := some g, compressedLength := none, copied := false } ∧ (isCopied v || hb) = true) ∨
    (intoMapping cb hb g v = { source := .unallocated, clusterOffset := some 0, compressedLength := none, copied := false } ∧ hb = false) ∨
    (∃ off c, intoMapping cb hb g v = { source := .dataFile, clusterOffset := some off, compressedLength := none, copied := c } ∧ off % 512 = 0 ∧ 0 < off ∧ off < 2^56) := by
  have hcr : compressedRange cb v = none := by unfold compressedRange; rw [hc]; rfl
  unfold intoMapping
  rw [hcr]
  simp only []
  by_cases hz : isZero v = true
  · rw [if_pos hz]
    by_cases ho : clusterOffset v = 0#64
    · left; rw [if_pos ho]; rfl
    · right; left
      rw [if_neg ho]
      exact ⟨_, _, rfl, clusterOffset_props v ho⟩
  · rw [if_neg hz]
    by_cases ho : clusterOffset v = 0#64
    · rw [if_pos ho]
      by_cases hbk : (isCopied v || hb) = true
      · right; right; left; rw [if_pos hbk]; exact ⟨rfl, hbk⟩
      · right; right; right; left; rw [if_neg hbk]
        refine ⟨rfl, ?_⟩
        cases hb
        · rfl
        · exact absurd (Bool.or_true _) hbk
    · right; right; right; right
      rw [if_neg ho]
      exact ⟨_, _, rfl, clusterOffset_props v ho⟩

theorem reservedBits_zero_iff (e : BitVec 64) :
    reservedBits e = 0#64 ↔
      (if (e.extractLsb' 62 1 == 1#1) = true then (e.extractLsb' 63 1 == 1#1) = false
       else (e.extractLsb' 1 8 = 0#8 ∧ e.extractLsb' 56 6 = 0#6)) := by
  unfold reservedBits
  rw [isCompressed_eq]
  by_cases hc : (e.extractLsb' 62 1 == 1#1) = true
  · rw [if_pos hc, if_pos hc]
    constructor
    · intro h; bv_decide
    · intro h; bv_decide
  · rw [if_neg hc, if_neg hc]
    constructor
    · intro h; refine ⟨?_, ?_⟩ <;> bv_decide
    · rintro ⟨h1, h2⟩; bv_decide

end Qv.Codec.L2

namespace Qv.Codec.L1

theorem mapEntry_fields (o : BitVec 64) (ho9 : o &&& 511#64 = 0#64) (ho56 : o < 1#64 <<< 56) :
    l2Offset ((1#64 <<< 63) ||| o) = o ∧ isCopied ((1#64 <<< 63) ||| o) = true ∧
    reservedBits ((1#64 <<< 63) ||| o) = 0#64 := by
  unfold l2Offset isCopied reservedBits
  delta E64 at *
  refine ⟨?_, ?_, ?_⟩ <;> bv_decide

end Qv.Codec.L1

