import Qv.Model.UsedSet
import Qv.Proofs.QSortPerm
/-
Helper lemmas for the used-cluster set of the leak check (`Qv.Model.UsedSet`):
the well-formedness invariant of the repaired range map, the specification of
`floor?`, membership of `insert`, and the fact that `Array.qsort` only permutes
its input.  The property statements are in `Qv/Props/C20.lean`.
-/
namespace Qv.Model.UsedSet

/-- two ranges are disjoint and not adjacent -/
def Sep (a b : Nat × Nat) : Prop := a.2 + 1 < b.1 ∨ b.2 + 1 < a.1

/-- the invariant of the repaired range map -/
structure WF (m : SMap) : Prop where
  /-- the keys (range starts) are pairwise distinct -/
  nodup : (m.map (·.1)).Nodup
  /-- every range is non-empty: start ≤ end -/
  le : ∀ r ∈ m, r.1 ≤ r.2
  /-- two different ranges are disjoint and not even adjacent -/
  sep : ∀ r1 ∈ m, ∀ r2 ∈ m, r1 ≠ r2 → r1.2 + 1 < r2.1 ∨ r2.2 + 1 < r1.1

/-- list-structural form of the invariant, used in the proofs -/
def WFp (m : SMap) : Prop := m.Pairwise Sep ∧ ∀ r ∈ m, r.1 ≤ r.2

theorem Sep.symm {a b : Nat × Nat} (h : Sep a b) : Sep b a := Or.symm h

theorem pairwise_sep_forall {m : SMap} (h : m.Pairwise Sep) :
    ∀ a ∈ m, ∀ b ∈ m, a ≠ b → Sep a b := by
  induction m with
  | nil => intro a ha; simp at ha
  | cons x m ih =>
    rw [List.pairwise_cons] at h
    intro a ha b hb hne
    rw [List.mem_cons] at ha hb
    rcases ha with rfl | ha <;> rcases hb with rfl | hb
    · exact absurd rfl hne
    · exact h.1 b hb
    · exact (h.1 a ha).symm
    · exact ih h.2 a ha b hb hne

theorem WFp.sep {m : SMap} (h : WFp m) {a b : Nat × Nat} (ha : a ∈ m) (hb : b ∈ m) (hne : a ≠ b) :
    Sep a b := pairwise_sep_forall h.1 a ha b hb hne

theorem WFp.eq_of_fst {m : SMap} (h : WFp m) {a b : Nat × Nat} (ha : a ∈ m) (hb : b ∈ m)
    (e : a.1 = b.1) : a = b := by
  apply Classical.byContradiction
  intro hne
  have := h.sep ha hb hne
  have := h.2 a ha
  have := h.2 b hb
  unfold Sep at *
  omega

theorem WF.toWFp {m : SMap} (h : WF m) : WFp m := by
  refine ⟨?_, h.le⟩
  have nd := h.nodup
  have sp := h.sep
  clear h
  induction m with
  | nil => exact List.Pairwise.nil
  | cons x m ih =>
    rw [List.map_cons, List.nodup_cons] at nd
    rw [List.pairwise_cons]
    refine ⟨?_, ih nd.2 (fun a ha b hb => sp a (List.mem_cons_of_mem _ ha) b (List.mem_cons_of_mem _ hb))⟩
    intro b hb
    apply sp x List.mem_cons_self b (List.mem_cons_of_mem _ hb)
    intro e
    exact nd.1 (e ▸ List.mem_map_of_mem hb)

theorem WFp.toWF {m : SMap} (h : WFp m) : WF m := by
  refine ⟨?_, h.2, fun a ha b hb hne => h.sep ha hb hne⟩
  rw [List.Nodup, List.pairwise_map]
  apply List.Pairwise.imp_of_mem _ h.1
  intro a b ha hb hs
  have := h.2 a ha
  have := h.2 b hb
  unfold Sep at hs
  omega

theorem WF_iff_WFp {m : SMap} : WF m ↔ WFp m := ⟨WF.toWFp, WFp.toWF⟩

/-! ### `scovers`, `sget?`, `serase`, `sput` -/

theorem scovers_iff (m : SMap) (c : Nat) :
    scovers m c = true ↔ ∃ r ∈ m, r.1 ≤ c ∧ c ≤ r.2 := by
  simp [scovers, List.any_eq_true]

theorem inUse_eq_scovers (m : SMap) (c : Nat) : inUse m c = scovers m c := rfl

theorem mem_serase (m : SMap) (k : Nat) (r : Nat × Nat) : r ∈ serase m k ↔ r ∈ m ∧ r.1 ≠ k := by
  simp [serase]

theorem mem_sput (m : SMap) (k v : Nat) (r : Nat × Nat) :
    r ∈ sput m k v ↔ (r ∈ m ∧ r.1 ≠ k) ∨ r = (k, v) := by
  simp [sput, mem_serase]

theorem sget?_some_mem {m : SMap} {k e : Nat} (h : sget? m k = some e) : (k, e) ∈ m := by
  unfold sget? at h
  rw [Option.map_eq_some_iff] at h
  obtain ⟨a, ha, rfl⟩ := h
  have h1 := List.mem_of_find?_eq_some ha
  have h2 := List.find?_some ha
  simp at h2
  rw [← h2]; exact h1

theorem sget?_none {m : SMap} {k : Nat} (h : sget? m k = none) : ∀ r ∈ m, r.1 ≠ k := by
  unfold sget? at h
  rw [Option.map_eq_none_iff, List.find?_eq_none] at h
  intro r hr; simpa using h r hr

/-! ### `floor?` -/

/-- the loop body of `floor?` -/
def floorStep (c : Nat) (acc : Option (Nat × Nat)) (r : Nat × Nat) : Option (Nat × Nat) :=
  if r.1 ≤ c then (match acc with
    | some a => if a.1 ≤ r.1 then some r else some a
    | none => some r) else acc

theorem floor?_eq (m : SMap) (c : Nat) : floor? m c = m.foldl (floorStep c) none := rfl

/-- what `floor?` returns: the range with the greatest start `≤ c`, if any -/
def FloorSpec (c : Nat) (m : SMap) : Option (Nat × Nat) → Prop
  | some r => r ∈ m ∧ r.1 ≤ c ∧ ∀ r' ∈ m, r'.1 ≤ c → r'.1 ≤ r.1
  | none => ∀ r' ∈ m, ¬ r'.1 ≤ c

theorem floorFoldr_spec (c : Nat) (l : SMap) :
    FloorSpec c l (l.foldr (fun r acc => floorStep c acc r) none) := by
  induction l with
  | nil => simp [FloorSpec]
  | cons x l ih =>
    rw [List.foldr_cons]
    generalize l.foldr (fun r acc => floorStep c acc r) none = res at ih
    unfold floorStep
    cases res with
    | none =>
      simp only [FloorSpec] at ih
      by_cases hx : x.1 ≤ c
      · rw [if_pos hx]; simp only [FloorSpec]
        refine ⟨List.mem_cons_self, hx, ?_⟩
        intro r' hr' hc
        rw [List.mem_cons] at hr'
        rcases hr' with rfl | hr'
        · exact Nat.le_refl _
        · exact absurd hc (ih r' hr')
      · rw [if_neg hx]; simp only [FloorSpec]
        intro r' hr'
        rw [List.mem_cons] at hr'
        rcases hr' with rfl | hr'
        · exact hx
        · exact ih r' hr'
    | some a =>
      simp only [FloorSpec] at ih
      obtain ⟨h1, h2, h3⟩ := ih
      by_cases hx : x.1 ≤ c
      · rw [if_pos hx]; dsimp only
        by_cases hax : a.1 ≤ x.1
        · rw [if_pos hax]; simp only [FloorSpec]
          refine ⟨List.mem_cons_self, hx, ?_⟩
          intro r' hr' hc
          rw [List.mem_cons] at hr'
          rcases hr' with rfl | hr'
          · exact Nat.le_refl _
          · exact Nat.le_trans (h3 r' hr' hc) hax
        · rw [if_neg hax]; simp only [FloorSpec]
          refine ⟨List.mem_cons_of_mem _ h1, h2, ?_⟩
          intro r' hr' hc
          rw [List.mem_cons] at hr'
          rcases hr' with rfl | hr'
          · omega
          · exact h3 r' hr' hc
      · rw [if_neg hx]; simp only [FloorSpec]
        refine ⟨List.mem_cons_of_mem _ h1, h2, ?_⟩
        intro r' hr' hc
        rw [List.mem_cons] at hr'
        rcases hr' with rfl | hr'
        · exact absurd hc hx
        · exact h3 r' hr' hc

theorem floor?_spec (m : SMap) (c : Nat) : FloorSpec c m (floor? m c) := by
  rw [floor?_eq, List.foldl_eq_foldr_reverse]
  have := floorFoldr_spec c m.reverse
  revert this
  generalize m.reverse.foldr (fun r acc => floorStep c acc r) none = res
  cases res <;> simp [FloorSpec]

/-! ### `insert` -/

theorem serase_eq_self {m : SMap} {k : Nat} (h : ∀ r ∈ m, r.1 ≠ k) : serase m k = m := by
  unfold serase
  rw [List.filter_eq_self]
  intro r hr; simpa using h r hr

/-- the two outcomes of `insert` on a well-formed map: `num` is already covered and
    nothing changes, or it is not covered and the new range `[start, end_]` absorbs the
    range ending at `num - 1` (stored under `start`) and the one starting at `num + 1` -/
theorem insert_cases {m : SMap} (h : WFp m) (num : Nat) :
    ((∃ r ∈ m, r.1 ≤ num ∧ num ≤ r.2) ∧ insert m num = m) ∨
    ((∀ r ∈ m, ¬ (r.1 ≤ num ∧ num ≤ r.2)) ∧ ∃ start end_,
      ((start = num ∧ ∀ r ∈ m, r.2 + 1 ≠ num) ∨ (∃ e, (start, e) ∈ m ∧ e + 1 = num)) ∧
      ((end_ = num ∧ ∀ r ∈ m, r.1 ≠ num + 1) ∨ (num + 1, end_) ∈ m) ∧
      insert m num = sput (serase m (num + 1)) start end_) := by
  have hfl := floor?_spec m num
  unfold insert
  generalize floor? m num = fl at hfl
  -- `num` is covered only by the floor range
  have key : ∀ r ∈ m, r.1 ≤ num → num ≤ r.2 → ∃ s e, fl = some (s, e) ∧ num ≤ e := by
    intro r hr h1 h2
    cases fl with
    | none => exact absurd h1 (hfl r hr)
    | some a =>
      obtain ⟨a1, a2, a3⟩ := hfl
      refine ⟨a.1, a.2, rfl, ?_⟩
      have := a3 r hr h1
      by_cases e : r = a
      · subst e; exact h2
      · have := h.sep hr a1 e
        have := h.2 a a1
        unfold Sep at *
        omega
  have hend : ∀ st, ∃ end_, ((end_ = num ∧ ∀ r ∈ m, r.1 ≠ num + 1) ∨ (num + 1, end_) ∈ m) ∧
      sput (match sget? m (num + 1) with
          | some e => (e, serase m (num + 1))
          | none => (num, m)).2 st
        (match sget? m (num + 1) with
          | some e => (e, serase m (num + 1))
          | none => (num, m)).1 = sput (serase m (num + 1)) st end_ := by
    intro st
    cases hg : sget? m (num + 1) with
    | none =>
      refine ⟨num, Or.inl ⟨rfl, sget?_none hg⟩, ?_⟩
      dsimp only; rw [serase_eq_self (sget?_none hg)]
    | some e => exact ⟨e, Or.inr (sget?_some_mem hg), rfl⟩
  cases fl with
  | none =>
    right
    have hnc : ∀ r ∈ m, ¬ (r.1 ≤ num ∧ num ≤ r.2) := by
      intro r hr ⟨h1, h2⟩
      obtain ⟨s, e, h0, he⟩ := key r hr h1 h2
      simp at h0
    refine ⟨hnc, ?_⟩
    obtain ⟨end_, he1, he2⟩ := hend num
    refine ⟨num, end_, ?_, he1, ?_⟩
    · left
      refine ⟨rfl, ?_⟩
      intro r hr e
      have := hfl r hr
      have := h.2 r hr
      omega
    · simp only [Bool.false_eq_true, if_false]
      exact he2
  | some a =>
    obtain ⟨a1, a2, a3⟩ := hfl
    obtain ⟨s, e⟩ := a
    dsimp only at a2 a3 ⊢
    have hse := h.2 _ a1
    dsimp only at hse
    by_cases hc : e ≥ num
    · left
      refine ⟨⟨(s, e), a1, a2, hc⟩, ?_⟩
      rw [if_pos (by simpa using hc)]
    · right
      have hnc : ∀ r ∈ m, ¬ (r.1 ≤ num ∧ num ≤ r.2) := by
        intro r hr ⟨h1, h2⟩
        obtain ⟨s', e', h0, he⟩ := key r hr h1 h2
        simp at h0
        omega
      refine ⟨hnc, ?_⟩
      rw [if_neg (by simpa using hc)]
      obtain ⟨end_, he1, he2⟩ := hend (if e + 1 = num then s else num)
      refine ⟨_, end_, ?_, he1, he2⟩
      by_cases he : e + 1 = num
      · right; rw [if_pos he]; exact ⟨e, a1, he⟩
      · left; rw [if_neg he]
        refine ⟨rfl, ?_⟩
        intro r hr hr2
        have := h.2 r hr
        have := a3 r hr (by omega)
        by_cases e' : r = (s, e)
        · subst e'; exact he hr2
        · have := h.sep hr a1 e'
          unfold Sep at this
          dsimp only at this
          omega

/-- the new range is separated from every range that stays -/
theorem new_range_sep {m : SMap} (h : WFp m) {num start end_ : Nat}
    (hnc : ∀ r ∈ m, ¬ (r.1 ≤ num ∧ num ≤ r.2))
    (hS : (start = num ∧ ∀ r ∈ m, r.2 + 1 ≠ num) ∨ (∃ e, (start, e) ∈ m ∧ e + 1 = num))
    (hE : (end_ = num ∧ ∀ r ∈ m, r.1 ≠ num + 1) ∨ (num + 1, end_) ∈ m)
    {a : Nat × Nat} (ha : a ∈ m) (h1 : a.1 ≠ num + 1) (h2 : a.1 ≠ start) :
    Sep a (start, end_) := by
  have hle := h.2 a ha
  have hn := hnc a ha
  unfold Sep; dsimp only
  by_cases hlt : a.2 < num
  · left
    rcases hS with ⟨rfl, hS⟩ | ⟨e, he, rfl⟩
    · have := hS a ha; omega
    · have hne : a ≠ (start, e) := fun e => h2 (by rw [e])
      have := h.sep ha he hne
      have := h.2 _ he
      unfold Sep at *
      dsimp only at *
      omega
  · right
    rcases hE with ⟨rfl, hE⟩ | he
    · omega
    · have hne : a ≠ (num + 1, end_) := fun e => h1 (by rw [e])
      have := h.sep ha he hne
      unfold Sep at *
      dsimp only at *
      omega

theorem start_le_end {m : SMap} (h : WFp m) {num start end_ : Nat}
    (hS : (start = num ∧ ∀ r ∈ m, r.2 + 1 ≠ num) ∨ (∃ e, (start, e) ∈ m ∧ e + 1 = num))
    (hE : (end_ = num ∧ ∀ r ∈ m, r.1 ≠ num + 1) ∨ (num + 1, end_) ∈ m) :
    start ≤ num ∧ num ≤ end_ := by
  constructor
  · rcases hS with ⟨rfl, _⟩ | ⟨e, he, rfl⟩
    · exact Nat.le_refl _
    · have := h.2 _ he; dsimp only at this; omega
  · rcases hE with ⟨rfl, _⟩ | he
    · exact Nat.le_refl _
    · have := h.2 _ he; dsimp only at this; omega

theorem WFp_nil : WFp [] := ⟨List.Pairwise.nil, by simp⟩

theorem WFp_insert {m : SMap} (h : WFp m) (num : Nat) : WFp (insert m num) := by
  rcases insert_cases h num with ⟨_, e⟩ | ⟨hnc, start, end_, hS, hE, e⟩
  · rw [e]; exact h
  · rw [e]
    have hse := start_le_end h hS hE
    constructor
    · unfold sput serase
      rw [List.pairwise_append]
      refine ⟨(h.1.filter _).filter _, List.pairwise_singleton _ _, ?_⟩
      intro a ha b hb
      simp only [List.mem_filter, bne_iff_ne, ne_eq, List.mem_singleton] at ha hb
      subst hb
      exact new_range_sep h hnc hS hE ha.1.1 ha.1.2 ha.2
    · intro r hr
      rw [mem_sput, mem_serase] at hr
      rcases hr with ⟨⟨hr, _⟩, _⟩ | rfl
      · exact h.2 r hr
      · dsimp only; omega

theorem WFp_build (nums : List Nat) : WFp (build nums) := by
  unfold build
  suffices ∀ m, WFp m → WFp (nums.foldl insert m) from this [] WFp_nil
  induction nums with
  | nil => intro m h; exact h
  | cons x xs ih => intro m h; exact ih _ (WFp_insert h x)

/-- what `insert` does to the set of covered clusters -/
theorem insert_covers_p {m : SMap} (h : WFp m) (num c : Nat) :
    (∃ r ∈ insert m num, r.1 ≤ c ∧ c ≤ r.2) ↔ ((∃ r ∈ m, r.1 ≤ c ∧ c ≤ r.2) ∨ c = num) := by
  rcases insert_cases h num with ⟨hc, e⟩ | ⟨hnc, start, end_, hS, hE, e⟩
  · rw [e]
    constructor
    · exact Or.inl
    · rintro (h1 | rfl)
      · exact h1
      · exact hc
  · rw [e]
    have hse := start_le_end h hS hE
    constructor
    · rintro ⟨r, hr, h1, h2⟩
      rw [mem_sput, mem_serase] at hr
      rcases hr with ⟨⟨hr, _⟩, _⟩ | rfl
      · exact Or.inl ⟨r, hr, h1, h2⟩
      · dsimp only at h1 h2
        by_cases hlt : c < num
        · rcases hS with ⟨rfl, _⟩ | ⟨e, he, rfl⟩
          · omega
          · exact Or.inl ⟨_, he, h1, by dsimp only; omega⟩
        · by_cases hgt : num < c
          · rcases hE with ⟨rfl, _⟩ | he
            · omega
            · exact Or.inl ⟨_, he, by dsimp only; omega, h2⟩
          · right; omega
    · rintro (⟨r, hr, h1, h2⟩ | rfl)
      · by_cases e1 : r.1 = num + 1
        · refine ⟨(start, end_), by rw [mem_sput]; exact Or.inr rfl, ?_⟩
          rcases hE with ⟨_, hE⟩ | he
          · exact absurd e1 (hE r hr)
          · have := h.eq_of_fst hr he e1
            subst this
            dsimp only at *; omega
        · by_cases e2 : r.1 = start
          · refine ⟨(start, end_), by rw [mem_sput]; exact Or.inr rfl, ?_⟩
            rcases hS with ⟨rfl, _⟩ | ⟨e, he, rfl⟩
            · have := hnc r hr
              have := h.2 r hr
              dsimp only; omega
            · have := h.eq_of_fst hr he e2
              subst this
              dsimp only at *; omega
          · exact ⟨r, by rw [mem_sput, mem_serase]; exact Or.inl ⟨⟨hr, e1⟩, e2⟩, h1, h2⟩
      · exact ⟨(start, end_), by rw [mem_sput]; exact Or.inr rfl, hse.1, hse.2⟩

/-! ### sorting -/

theorem sortedS_perm (m : SMap) : (sortedS m).Perm m := Array.qsort_toList_perm m _

theorem any_eraseDups {α : Type} [BEq α] [LawfulBEq α] (l : List α) (p : α → Bool) :
    l.eraseDups.any p = l.any p := by
  rw [Bool.eq_iff_iff, List.any_eq_true, List.any_eq_true]
  simp only [List.mem_eraseDups]

/-- `sorted_ranges` of the old code stands for the same clusters as the map it is made from -/
theorem inUse_sortedRanges (m : RMap) (c : Nat) : inUse (sortedRanges m) c = covers m c := by
  unfold inUse sortedRanges covers
  dsimp only
  rw [any_eraseDups, (Array.qsort_toList_perm _ _).any_eq, List.any_map]
  rfl

end Qv.Model.UsedSet
