import Qv.Proofs.RefineOwnWrite
import Qv.Props.C10
/-
Helper lemmas for `Qv/Props/C01RefineMore.lean`, part C (backing file): the refinement of
a copy-on-write from the backing image (`do_write_cow`, single-cluster request).

1. the guest view of a device with a backing image (`backSec`, `guestSec_backing`);
2. well-formedness of a device with backing image (`WFB`), based on the accounting
   invariant `WInv` of C03Write (which does not presuppose "no backing file");
3. the allocator step under `WInv` (`alloc_stepW`), frames of `ensure_l2_offset`;
4. the state after `do_write_cow` from the backing source (`doWriteCow_backing_state`).
-/
namespace Qv.Proofs.RefineCow
open Qv Qv.Codec Qv.Model
open Qv.Props.C15 (Geom)
open Qv.Props.C11 (L1Distinct)
open Qv.Proofs.RefineDiscard
open Qv.Spec (Flat)

/-! ## 1. the guest view with a backing image -/

/-- guest sector `s` of the backing chain as the top device reads it: its content, zeros
    beyond the end of a shorter backing image -/
def backSec (b : Back) (s : Nat) : Nat := if s * 512 + 512 ≤ b.vsize then b.sec s else 0

/-- a cluster that is not mapped by the top device (source `backing`: unallocated entry of an
    image with a backing file) shows the backing content -/
theorem guestSec_backing (d : Dev) (b : Back) (s : Nat) (hb : d.back = some b)
    (hs : (d.mapping (s * 512)).source = .backing) : guestSec d s = backSec b s := by
  unfold guestSec doRead
  dsimp only
  rw [doRead_mapping, hs]
  dsimp only
  rw [hb]
  show (backRead b (s * 512) 1).getD 0 0 = backSec b s
  rw [getD_backRead]
  unfold backSec
  simp only [Nat.zero_mul, Nat.add_zero, Nat.lt_one_iff, true_and, Nat.mul_div_cancel _ (show 0 < 512 by decide)]

/-! ## 2. well-formedness with a backing image -/

/-- a device with the backing image `b`:
    * `winv`: the accounting invariant of C03Write — geometry (`Shape`), every host cluster's
      refcount is its number of references (`Acct`), refcounts exist only where refblocks do;
    * the block size is at least a sector; the image names a backing file and `b` is its content;
    * `ent`: no compressed cluster inside the virtual disk; data-file entries are COPIED and
      their hosts cluster aligned;
    * `inj`: distinct guest clusters map to distinct host clusters;
    * `new`: no mapped cluster is still in the new-cluster list. -/
structure WFB (d : Dev) (b : Back) : Prop where
  winv : WInv d
  bsb9 : 9 ≤ d.info.bsb
  hasBack : d.info.hasBack = true
  back : d.back = some b
  ent : ∀ o, o < d.info.vsize → (d.mapping o).source ≠ .compressed ∧
    ∀ h, (d.mapping o).source = .dataFile → (d.mapping o).clusterOffset = some h →
      (d.mapping o).copied = true ∧ h % d.info.clusterSize = 0
  inj : MapInj d
  new : RW.NewOK d

/-! ## 3. allocator and `ensure_l2_offset` under `WInv` -/

/-- `RW.alloc_step` with the accounting invariant instead of `Static` / `MapOK` -/
theorem alloc_stepW {d d1 : Dev} {count h n : Nat} (w : WInv d)
    (ha : allocateClusters count d = (d1, .ok (some (h, n)))) (hng : d1.rtLen = d.rtLen) :
    AllocFrame d d1 ∧ h % d.info.clusterSize = 0 ∧ 1 ≤ n ∧ 0 < h ∧
    h + n * d.info.clusterSize ≤ 2^56 ∧
    (∀ c, h / d.info.clusterSize ≤ c → c < h / d.info.clusterSize + n →
      d.rc.get c = 0 ∧ d1.rc.get c = 1) := by
  have post := allocateClusters_post count d (by rw [ha]; exact hng)
  rw [ha] at post
  obtain ⟨⟨fr, _⟩, n1, _, hal, hrun, _⟩ := post
  dsimp only at hrun
  have hrange := allocateClusters_run_end count d d1 w.shape.geo w.shape.hsl h n ha
  rw [hng] at hrange
  have hcs := cs_pos d.info
  have hpos : 0 < h := by
    apply Nat.pos_of_ne_zero
    intro h0
    subst h0
    have := (hrun 0 (by simp) (by simp; omega)).1
    exact winv_hdr w this
  refine ⟨fr, hal, n1, hpos, ?_, hrun⟩
  have : d.rtLen * d.info.rbEntries * d.info.clusterSize ≤ 2^56 := w.shape.cap56
  omega

/-- `ensure_l2_offset` never touches the data plane or the new-cluster list -/
theorem ensureL2_dataFrame (off : Nat) (d : Dev) :
    (ensureL2 off d).1.data = d.data ∧ (ensureL2 off d).1.newData = d.newData := by
  rw [RW.ensureL2_eq]
  split
  · exact ⟨rfl, rfl⟩
  · obtain ⟨a, b, hfr⟩ := RW.hdrStep_frame d off
    generalize RW.hdrStep d off = r at hfr
    obtain ⟨d0, (_ | e | p)⟩ := r
    · dsimp only at hfr ⊢
      have h0 : d0.data = d.data ∧ d0.newData = d.newData := by rw [hfr]; exact ⟨rfl, rfl⟩
      split
      · exact h0
      · generalize hra : allocateClusters 1 d0 = ra
        obtain ⟨d1, ra⟩ := ra
        have hm := (Qv.Props.C01Model.allocateClusters_frame 1 d0 d1 ra hra).1
        obtain ((_ | ⟨l2off, n⟩) | e | p) := ra
        all_goals (dsimp only; exact ⟨hm.2.2.1.trans h0.1, hm.2.2.2.1.trans h0.2⟩)
    · dsimp only at hfr ⊢; rw [hfr]; exact ⟨rfl, rfl⟩
    · dsimp only at hfr ⊢; rw [hfr]; exact ⟨rfl, rfl⟩

/-- `need_make_mapping` is false for a cluster that reads from the backing image -/
theorem needMake_backing {i : Info} {m : Mapping} (hb : i.hasBack = true) (h : m.source = .backing) :
    needMakeMapping i m = false := by
  unfold needMakeMapping L2.plainOffset
  rw [h, hb]
  simp

/-- a backing (unallocated) entry has no allocation -/
theorem backing_no_alloc {d : Dev} {o : Nat} (h : (d.mapping o).source = .backing) :
    L2.allocation d.info.cb (d.l2Entry o) = none :=
  allocation_none_of_backing h

/-! ## 4. the state after a COW from the backing image -/

/-- the state `d'` after a successful `do_write_cow` of `toks` at `off` from the backing
    source, into the fresh host cluster `x` -/
structure CowState (d d' : Dev) (b : Back) (off x : Nat) (toks : List Nat) : Prop where
  aligned : x % d.info.clusterSize = 0
  pos : 0 < x
  lt56 : x < 2^56
  info : d'.info = d.info
  back : d'.back = d.back
  comp : d'.comp = d.comp
  version : d'.version = d.version
  /-- the guest cluster of `off` is mapped (COPIED, data file) to `x` -/
  mapped : ∀ o, o / d.info.clusterSize = off / d.info.clusterSize → d'.mapping o = RW.plainMapping x
  /-- no other entry changes -/
  other : ∀ o, o / d.info.clusterSize ≠ off / d.info.clusterSize → d'.l2Entry o = d.l2Entry o
  /-- `x` was not a data cluster -/
  fresh : ∀ o h', o < d.info.vsize → (d.mapping o).source = .dataFile →
    (d.mapping o).clusterOffset = some h' → h' / d.info.clusterSize ≠ x / d.info.clusterSize
  /-- the new cluster holds the request laid over the backing content of the guest cluster -/
  dataIn : ∀ k, k < d.spc → d'.data.get (x / 512 + k) =
    if off % d.info.clusterSize / 512 ≤ k ∧ k < off % d.info.clusterSize / 512 + toks.length
    then toks.getD (k - off % d.info.clusterSize / 512) 0
    else (backRead b (off - off % d.info.clusterSize) d.spc).getD k 0
  dataOut : ∀ j, j < x / 512 ∨ x / 512 + d.spc ≤ j → d'.data.get j = d.data.get j
  newData : ∀ c, c ∈ d'.newData → c ∈ d.newData ∧ c ≠ x / d.info.clusterSize

theorem doWriteCow_backing_state {d d' : Dev} {b : Back} {off : Nat} {toks : List Nat}
    (wf : WFB d b) (hov : off < d.info.vsize) (hsrc : (d.mapping off).source = .backing)
    (h : doWriteCow off (d.mapping off) toks d = (d', .ok ())) (hng : d'.rtLen = d.rtLen) :
    ∃ x, CowState d d' b off x toks := by
  have w := wf.winv
  have hcs := cs_pos d.info
  have hidx : Split.l1Index d.info off < d.hdrL1Entries := w.shape.l1cov off hov
  rw [doWriteCow_eq_plain off _ toks d (by rw [hsrc]; decide)] at h
  have hmA := RW.ensureL2_rtLen off d
  have hdA := ensureL2_dataFrame off d
  have hsA := Qv.Props.C10.ensureL2_sameBack off d
  generalize hen : ensureL2 off d = rA at h hmA hdA hsA
  obtain ⟨dA, (_ | e | p)⟩ := rA
  · dsimp only at h hmA hdA hsA
    by_cases hcA : (dA.mapping off).source = .compressed ∨ (dA.mapping off).source = .backing
    · rw [if_pos hcA] at h
      have hmB := RW.allocAndMap_rtLen off dA
      generalize ham : allocAndMap off dA = rB at h hmB
      obtain ⟨dB, (_ | e | p)⟩ := rB
      · dsimp only at h hmB
        have hfr3 := (doWriteDataFile_mframe off (({ dB with needFlush := true } : Dev).mapping off)
          (some (d.mapping off)) toks { dB with needFlush := true }).1
        rw [h] at hfr3
        dsimp only at hfr3
        have hrt3 : d'.rtLen = dB.rtLen := hfr3.rtLen
        have hrtA : dA.rtLen = d.rtLen := by omega
        have hrtB : dB.rtLen = dA.rtLen := by omega
        obtain ⟨hbA, hcA', hiA, hvA⟩ := hsA
        have hcapA : Cap dA := by
          unfold Cap; rw [hrtA, hiA]; exact w.shape.cap56
        obtain ⟨wA, vA, _, _, _, zA⟩ := ensureL2_winv w hidx hen hcapA
        have hl1A := zA rfl
        rw [RW.allocAndMap_eq] at ham
        generalize hal : allocateClusters 1 dA = ra at ham
        obtain ⟨dC, ((_ | ⟨x, n⟩) | e | p)⟩ := ra
        · simp at ham
        · dsimp only at ham
          simp only [Prod.mk.injEq, and_true] at ham
          subst ham
          have hrtC : dC.rtLen = dA.rtLen := hrtB
          obtain ⟨fr, hal', n1, hpos, h56, hrun⟩ := alloc_stepW wA hal hrtC
          obtain ⟨c1, c2, c3, c4, _⟩ := alloc_view hal
          have hfrC : dC.data = dA.data ∧ dC.newData = dA.newData ∧ dC.back = dA.back ∧ dC.comp = dA.comp := by
            obtain ⟨_, _, _, _, rfl⟩ := fr; exact ⟨rfl, rfl, rfl, rfl⟩
          have hverC : dC.version = dA.version := by
            obtain ⟨_, _, _, _, rfl⟩ := fr; rfl
          obtain ⟨r0, _⟩ := hrun (x / dA.info.clusterSize) (Nat.le_refl _) (by omega)
          rw [hiA] at hal' h56 r0
          have hx56 : x < 2^56 := by
            have := Nat.mul_pos (show 0 < n from n1) hcs; omega
          have hx512 : x % 512 = 0 := mod512_of_mod_cs w.shape.cb9 hal'
          -- the state the data write starts from
          generalize hD2 : ({ RW.mappedAt dC off x with needFlush := true } : Dev) = D2
          have hw2 : doWriteDataFile off (D2.mapping off) (some (d.mapping off)) toks D2 = (d', .ok ()) := by
            rw [← hD2]; exact h
          have e_info : D2.info = dC.info := by rw [← hD2]; rfl
          have e_l1 : D2.l1 = dC.l1 := by rw [← hD2]; rfl
          have e_l1Len : D2.l1Len = dC.l1Len := by rw [← hD2]; rfl
          have e_l2 : D2.l2 = (dC.setL2 off (L2.mapClusterEntry x)).l2 := by rw [← hD2]; rfl
          have e_data : D2.data = dC.data := by rw [← hD2]; rfl
          have e_back : D2.back = dC.back := by rw [← hD2]; rfl
          have e_comp : D2.comp = dC.comp := by rw [← hD2]; rfl
          have e_ver : D2.version = dC.version := by rw [← hD2]; rfl
          have e_new : D2.newData = (x / dC.info.clusterSize) :: dC.newData := by rw [← hD2]; rfl
          have hiC : dC.info = d.info := c1.trans hiA
          have hi2 : D2.info = d.info := e_info.trans hiC
          have hdistC : L1Distinct dC := l1Distinct_congr c1 c2 c3 wA.shape.l1d
          have hl1C : L1.isZero (dC.l1Entry off) = false := by
            rw [RW.l1Entry_congr_fields c1 c2 c3]; exact hl1A
          obtain ⟨he2, hf2⟩ := l2Entry_setL2_distinct hdistC hl1C e_info e_l1 e_l1Len e_l2
          have hmap2 : ∀ o, o / d.info.clusterSize = off / d.info.clusterSize →
              D2.mapping o = RW.plainMapping x := by
            intro o ho
            have : D2.l2Entry o = L2.mapClusterEntry x := by
              rw [← he2]
              apply l2Entry_congr
              rw [hi2]; exact ho
            unfold Dev.mapping
            rw [this]
            exact L2.mapClusterEntry_intoMapping _ _ _ x hx512 hpos hx56
          have hnew2 : D2.newData.contains (x / D2.cs) = true := by
            have : D2.cs = dC.info.clusterSize := by unfold Dev.cs; rw [e_info]
            rw [this, e_new]
            simp
          obtain ⟨m1, m2, m3, m4, _⟩ := Qv.Props.C10.cow_merge D2 off x (D2.mapping off) (d.mapping off) toks
            (by rw [hmap2 off rfl]; rfl) hnew2 (Or.inr hsrc)
          rw [hw2] at m1 m2 m3 m4
          dsimp only at m1 m2 m3 m4
          have hds : RW.DataStep D2 d' := m4
          have hb2 : D2.back = some b := by
            rw [e_back, hfrC.2.2.1, hbA]; exact wf.back
          have hbase : cowBase D2 off (d.mapping off) =
              backRead b (off - D2.info.inClusterOffset off) D2.spc := by
            unfold cowBase
            rw [hsrc, hb2]; rfl
          rw [hbase] at m1
          have hspc2 : D2.spc = d.spc := by unfold Dev.spc; rw [hi2]
          have hin2 : D2.info.inClusterOffset off = off % d.info.clusterSize := by
            unfold Info.inClusterOffset; rw [hi2]
          rw [hspc2, hin2] at m1
          rw [hspc2] at m2
          refine ⟨x, ⟨hal', hpos, hx56, hds.info.trans hi2, ?_, ?_, ?_, ?_, ?_, ?_, m1, ?_, ?_⟩⟩
          · rw [hds.back, e_back, hfrC.2.2.1, hbA]
          · have : d'.comp = D2.comp := by rw [m4]
            rw [this, e_comp, hfrC.2.2.2, hcA']
          · have : d'.version = D2.version := by rw [m4]
            rw [this, e_ver, hverC, hvA]
          · intro o ho
            rw [hds.mapping]; exact hmap2 o ho
          · intro o ho
            rw [hds.l2Entry, hf2 o (RW.index_ne_of_cluster_ne dC.info (by rw [hiC]; exact ho)),
              RW.l2Entry_congr_fields c1 c2 c3 c4, vA]
          · intro o h' ho hs hco
            have hmA' : dA.mapping o = d.mapping o := RW.mapping_of_l2Entry hiA (vA o)
            have := winv_datarc wA (o := o) (h := h') (by rw [hiA]; exact ho)
              (by rw [hmA']; exact hs) (by rw [hmA']; exact hco)
            rw [hiA] at this
            intro e
            rw [e, r0] at this
            omega
          · intro j hj
            rw [m2 j hj, e_data, hfrC.1, hdA.1]
          · intro c hc
            rw [m3, List.mem_filter, e_new] at hc
            obtain ⟨hc1, hc2⟩ := hc
            have hne : c ≠ x / d.info.clusterSize := by
              have : D2.cs = d.info.clusterSize := by unfold Dev.cs; rw [hi2]
              rw [this] at hc2
              simpa using hc2
            refine ⟨?_, hne⟩
            rcases List.mem_cons.1 hc1 with e | e
            · rw [hiC] at e; exact absurd e hne
            · rw [hfrC.2.1, hdA.2] at e; exact e
        · simp at ham
        · simp at ham
      · simp at h
      · simp at h
    · rw [if_neg hcA] at h
      simp at h
  · simp at h
  · simp at h

/-! ## 5. refinement and well-formedness from the state description -/

theorem cs512W {d : Dev} (w : WInv d) : d.info.clusterSize = 512 * d.spc := by
  have h := mod512_of_mod_cs w.shape.cb9 (Nat.mod_self d.info.clusterSize)
  unfold Dev.spc
  omega

/-- the device after the COW shows the flat disk with the request written: inside the
    cluster the request over the backing content, every other cluster as before -/
theorem cow_refines {d d' : Dev} {b : Back} {f : Flat} {off x : Nat} {toks : List Nat}
    (wf : WFB d b) (hr : Refines d f) (st : CowState d d' b off x toks) (ho512 : off % 512 = 0)
    (hfit : off % d.info.clusterSize + toks.length * 512 ≤ d.info.clusterSize)
    (hsrc : (d.mapping off).source = .backing) :
    Refines d' (f.write off toks) := by
  have w := wf.winv
  have hcs := cs_pos d.info
  have hspc := cs512W w
  have hcs512 : d.info.clusterSize % 512 = 0 := by omega
  have hx512 : x % 512 = 0 := mod512_of_mod_cs w.shape.cb9 st.aligned
  intro s hsv
  rw [st.info] at hsv
  have hlt : s * 512 < d.info.vsize := by omega
  rw [flat_write_sec]
  have hrp5 : s * 512 % d.info.clusterSize % 512 = 0 := by
    rw [Nat.mod_mod_of_dvd _ (Nat.dvd_of_mod_eq_zero hcs512)]; exact Nat.mul_mod_left _ _
  have hro5 : off % d.info.clusterSize % 512 = 0 := by
    rw [Nat.mod_mod_of_dvd _ (Nat.dvd_of_mod_eq_zero hcs512)]; exact ho512
  have hrplt := Nat.mod_lt (s * 512) hcs
  have hrolt := Nat.mod_lt off hcs
  by_cases hc : s * 512 / d.info.clusterSize = off / d.info.clusterSize
  · -- inside the cluster of the request
    have hm := st.mapped (s * 512) hc
    rw [guestSec_dataFile d' s x (by rw [hm]; rfl) (by rw [hm]; rfl), st.info]
    have e1 := Nat.div_add_mod (s * 512) d.info.clusterSize
    have e2 := Nat.div_add_mod off d.info.clusterSize
    rw [hc] at e1
    have hsb : (d.mapping (s * 512)).source = .backing := by rw [mapping_congr d hc]; exact hsrc
    have hold : f.sec.get s = backSec b s := by
      rw [← hr s hsv]; exact guestSec_backing d b s wf.back hsb
    generalize d.info.clusterSize * (off / d.info.clusterSize) = B at e1 e2
    generalize hrp : s * 512 % d.info.clusterSize = rp at *
    generalize hro : off % d.info.clusterSize = ro at *
    have hk : (x + rp) / 512 = x / 512 + rp / 512 := by omega
    rw [hk, st.dataIn (rp / 512) (by omega), hro]
    by_cases hin : off / 512 ≤ s ∧ s < off / 512 + toks.length
    · rw [if_pos hin, if_pos (by omega)]
      congr 1
      omega
    · rw [if_neg hin, if_neg (by omega), hold, getD_backRead]
      unfold backSec
      have hB : off - ro = B := by omega
      rw [hB]
      have hsB : B / 512 + rp / 512 = s := by omega
      rw [hsB]
      by_cases hv : s * 512 + 512 ≤ b.vsize
      · rw [if_pos hv, if_pos ⟨by omega, by omega⟩]
      · rw [if_neg hv, if_neg (by omega)]
  · -- another cluster
    have hout : ¬ (off / 512 ≤ s ∧ s < off / 512 + toks.length) := by
      intro hin
      exact hc (RW.piece_sector_cluster hfit hin.1 hin.2 ho512)
    rw [if_neg hout, ← hr s hsv]
    have he := st.other _ hc
    have hm : d'.mapping (s * 512) = d.mapping (s * 512) := RW.mapping_of_l2Entry st.info he
    by_cases hsd : (d.mapping (s * 512)).source = .dataFile
    · obtain ⟨h', hco'⟩ := RW.mapping_dataFile_offset hsd
      have hal' := ((wf.ent _ hlt).2 h' hsd hco').2
      have h5' : h' % 512 = 0 := mod512_of_mod_cs w.shape.cb9 hal'
      have hne := st.fresh _ h' hlt hsd hco'
      rw [guestSec_dataFile d' s h' (by rw [hm]; exact hsd) (by rw [hm]; exact hco'),
        guestSec_dataFile d s h' hsd hco', st.info]
      apply st.dataOut
      have hdis : h' + d.info.clusterSize ≤ x ∨ x + d.info.clusterSize ≤ h' := by
        have a1 := Nat.div_add_mod h' d.info.clusterSize
        have a2 := Nat.div_add_mod x d.info.clusterSize
        rw [hal', Nat.add_zero] at a1
        rw [st.aligned, Nat.add_zero] at a2
        rcases Nat.lt_or_gt_of_ne hne with hl | hl
        · left
          have : d.info.clusterSize * (h' / d.info.clusterSize + 1) ≤
              d.info.clusterSize * (x / d.info.clusterSize) := Nat.mul_le_mul_left _ hl
          rw [Nat.mul_add, Nat.mul_one] at this
          omega
        · right
          have : d.info.clusterSize * (x / d.info.clusterSize + 1) ≤
              d.info.clusterSize * (h' / d.info.clusterSize) := Nat.mul_le_mul_left _ hl
          rw [Nat.mul_add, Nat.mul_one] at this
          omega
      generalize s * 512 % d.info.clusterSize = rp at *
      omega
    · -- a read-only source: zeros or the backing image, not the data plane
      unfold guestSec
      rw [he]
      rw [Qv.Props.C10.doRead_readonly_source_stable d d' ⟨st.back, st.comp, st.info, st.version⟩ _ _ _
        (by rw [doRead_mapping]; exact hsd)]

/-- two different aligned host clusters do not overlap -/
theorem aligned_disjoint {cs a b : Nat} (ha : a % cs = 0) (hb : b % cs = 0) (hne : a / cs ≠ b / cs) :
    a + cs ≤ b ∨ b + cs ≤ a := by
  have a1 := Nat.div_add_mod a cs
  have a2 := Nat.div_add_mod b cs
  rw [ha, Nat.add_zero] at a1
  rw [hb, Nat.add_zero] at a2
  rcases Nat.lt_or_gt_of_ne hne with hl | hl
  · left
    have : cs * (a / cs + 1) ≤ cs * (b / cs) := Nat.mul_le_mul_left _ hl
    rw [Nat.mul_add, Nat.mul_one] at this
    omega
  · right
    have : cs * (b / cs + 1) ≤ cs * (a / cs) := Nat.mul_le_mul_left _ hl
    rw [Nat.mul_add, Nat.mul_one] at this
    omega

/-- the device after the COW is well-formed again (given the accounting invariant, which
    `doWriteCow_plain_winv` of C03Write provides) -/
theorem cow_wfb {d d' : Dev} {b : Back} {off x : Nat} {toks : List Nat}
    (wf : WFB d b) (st : CowState d d' b off x toks) (w' : WInv d') : WFB d' b := by
  refine ⟨w', by rw [st.info]; exact wf.bsb9, by rw [st.info]; exact wf.hasBack,
    by rw [st.back]; exact wf.back, ?_, ?_, ?_⟩
  · intro o ho
    rw [st.info] at ho ⊢
    by_cases hc : o / d.info.clusterSize = off / d.info.clusterSize
    · rw [st.mapped o hc]
      refine ⟨by simp [RW.plainMapping], fun h _ hco => ?_⟩
      have : h = x := by simp [RW.plainMapping] at hco; exact hco.symm
      rw [this]; exact ⟨rfl, st.aligned⟩
    · rw [RW.mapping_of_l2Entry st.info (st.other o hc)]
      exact wf.ent o ho
  · intro p q hp hq hpv hqv hne sp cp sq cq
    rw [st.info] at hpv hqv hne ⊢
    by_cases hcp : p / d.info.clusterSize = off / d.info.clusterSize
    · have hcq : ¬ q / d.info.clusterSize = off / d.info.clusterSize := fun e => hne (hcp.trans e.symm)
      rw [st.mapped p hcp] at cp
      have e : hp = x := by simp [RW.plainMapping] at cp; exact cp.symm
      subst e
      rw [RW.mapping_of_l2Entry st.info (st.other q hcq)] at sq cq
      have hal := ((wf.ent q hqv).2 hq sq cq).2
      exact (aligned_disjoint hal st.aligned (st.fresh q hq hqv sq cq)).symm
    · rw [RW.mapping_of_l2Entry st.info (st.other p hcp)] at sp cp
      by_cases hcq : q / d.info.clusterSize = off / d.info.clusterSize
      · rw [st.mapped q hcq] at cq
        have e : hq = x := by simp [RW.plainMapping] at cq; exact cq.symm
        subst e
        have hal := ((wf.ent p hpv).2 hp sp cp).2
        exact aligned_disjoint hal st.aligned (st.fresh p hp hpv sp cp)
      · rw [RW.mapping_of_l2Entry st.info (st.other q hcq)] at sq cq
        exact wf.inj p q hp hq hpv hqv hne sp cp sq cq
  · intro o ho hn
    rw [st.info] at ho
    obtain ⟨h, hs, hco, hmem⟩ := hn
    rw [st.info] at hmem
    obtain ⟨hm1, hm2⟩ := st.newData _ hmem
    by_cases hc : o / d.info.clusterSize = off / d.info.clusterSize
    · rw [st.mapped o hc] at hco
      have : h = x := by simp [RW.plainMapping] at hco; exact hco.symm
      rw [this] at hm2
      exact hm2 rfl
    · rw [RW.mapping_of_l2Entry st.info (st.other o hc)] at hs hco
      exact wf.new o ho ⟨h, hs, hco, hm1⟩

/-! ## 6. a success criterion -/

/-- when the L2 table of the target exists and `allocate_clusters(1)` succeeds without
    growing the reftable, a single-cluster write into a cluster that still reads from the
    backing image returns `Ok` and does not grow the reftable: the hypotheses "returned `Ok`,
    did not grow" of the COW step follow from the allocator alone -/
theorem write_cow_backing_succeeds {d dB : Dev} {b : Back} {off len h n : Nat} (toks : List Nat)
    (wf : WFB d b)
    (hc : writeCheck d.info off len = none) (hl : len ≠ 0)
    (hsingle : off / d.info.clusterSize = (off + len - 1) / d.info.clusterSize)
    (hsrc : (d.mapping off).source = .backing)
    (hl1 : L1.isZero (d.l1Entry off) = false)
    (hal : allocateClusters 1 d = (dB, .ok (some (h, n)))) (hngB : dB.rtLen = d.rtLen) :
    ∃ d', writeAt off len toks d = (d', .ok ()) ∧ d'.rtLen = d.rtLen := by
  have w := wf.winv
  have hcs := cs_pos d.info
  obtain ⟨fr, hal', n1, hpos, h56, _⟩ := alloc_stepW w hal hngB
  obtain ⟨c1, c2, c3, c4, _⟩ := alloc_view hal
  have hbB : dB.back = d.back := by obtain ⟨_, _, _, _, rfl⟩ := fr; rfl
  have hx56 : h < 2^56 := by
    have := Nat.mul_pos (show 0 < n from n1) hcs; omega
  have hx512 : h % 512 = 0 := mod512_of_mod_cs w.shape.cb9 hal'
  generalize hD2 : ({ RW.mappedAt dB off h with needFlush := true } : Dev) = D2
  have e_info : D2.info = dB.info := by rw [← hD2]; rfl
  have e_l1 : D2.l1 = dB.l1 := by rw [← hD2]; rfl
  have e_l1Len : D2.l1Len = dB.l1Len := by rw [← hD2]; rfl
  have e_l2 : D2.l2 = (dB.setL2 off (L2.mapClusterEntry h)).l2 := by rw [← hD2]; rfl
  have e_back : D2.back = dB.back := by rw [← hD2]; rfl
  have e_rt : D2.rtLen = dB.rtLen := by rw [← hD2]; rfl
  have e_new : D2.newData = (h / dB.info.clusterSize) :: dB.newData := by rw [← hD2]; rfl
  have hdistB : L1Distinct dB := l1Distinct_congr c1 c2 c3 w.shape.l1d
  have hl1B : L1.isZero (dB.l1Entry off) = false := by
    rw [RW.l1Entry_congr_fields c1 c2 c3]; exact hl1
  obtain ⟨he2, _⟩ := l2Entry_setL2_distinct hdistB hl1B e_info e_l1 e_l1Len e_l2
  have hmap2 : D2.mapping off = RW.plainMapping h := by
    unfold Dev.mapping
    rw [he2]
    exact L2.mapClusterEntry_intoMapping _ _ _ h hx512 hpos hx56
  have hnew2 : D2.newData.contains (h / D2.info.clusterSize) = true := by
    rw [e_info, e_new]; simp
  have hst := doWriteDataFile_cow_state D2 off h (D2.mapping off) (d.mapping off) toks
    (by rw [hmap2]; rfl) hnew2 (Or.inr hsrc)
  have hb2 : D2.back = some b := by rw [e_back, hbB]; exact wf.back
  rw [if_neg (by rw [hb2]; simp)] at hst
  have hgoal : writeAt off len toks d =
      doWriteDataFile off (D2.mapping off) (some (d.mapping off)) toks D2 := by
    unfold writeAt
    dsimp only
    rw [hc]
    dsimp only
    rw [if_neg hl, if_pos hsingle, RW.populateSingle_eq, needMake_backing wf.hasBack hsrc]
    simp only [Bool.false_eq_true, if_false]
    unfold doWrite
    dsimp only
    have hm : L2.intoMapping d.info.cb d.info.hasBack
        (Split.clusterOffset d.info (d.info.clusterRoundDown off)) (d.l2Entry off) = d.mapping off := rfl
    rw [hm, hsrc]
    dsimp only
    rw [if_pos wf.hasBack, doWriteCow_eq_plain off _ toks d (by rw [hsrc]; decide), ensureL2_noop off d hl1]
    dsimp only
    rw [if_pos (Or.inr hsrc), RW.allocAndMap_eq, hal]
    dsimp only
    rw [← hD2]
    rfl
  rw [hgoal, hst]
  refine ⟨_, rfl, ?_⟩
  show D2.rtLen = d.rtLen
  rw [e_rt, hngB]

/-! ## 7. in-place writes on a device with a backing image -/

/-- replacing the data plane keeps well-formedness -/
theorem withData_wfb {d : Dev} {b : Back} (wf : WFB d b) (D : FMap Nat) : WFB (d.withData D) b := by
  have fr : MFrame d (d.withData D) := ⟨rfl, rfl, rfl, rfl, rfl, rfl, rfl, rfl, rfl, rfl, rfl⟩
  exact ⟨fr.winv rfl wf.winv, wf.bsb9, wf.hasBack, wf.back, wf.ent, wf.inj, wf.new⟩

/-- **in-place step with a backing image.**  A request (one or several clusters) all of
    whose bytes lie in clusters that are already mapped to the data file: the write returns
    `Ok`, changes only the data plane, and the device shows `f.write off toks`
    (`inplace_write_refines` of C01Model, which does not depend on the backing file). -/
theorem write_inplace_backing {d : Dev} {b : Back} {f : Flat} {off len : Nat} {toks : List Nat}
    (wf : WFB d b) (hr : Refines d f)
    (hc : writeCheck d.info off len = none) (hl : len ≠ 0) (htoks : toks.length = len / 512)
    (hmapped : ∀ o, off ≤ o → o < off + len → (d.mapping o).source = .dataFile) :
    ∃ d', writeAt off len toks d = (d', .ok ()) ∧ WFB d' b ∧ Refines d' (f.write off toks) ∧
      d'.rtLen = d.rtLen ∧ d'.info = d.info := by
  obtain ⟨hv, hlb, hob, _⟩ := writeCheck_none hc
  have ho512 := Qv.Props.C01Refine.mod512_of_mod_bs wf.bsb9 hob
  have hl512 := Qv.Props.C01Refine.mod512_of_mod_bs wf.bsb9 hlb
  have H : PlainRange d off len := by
    intro o o1 o2
    have hov : o < d.info.vsize := by omega
    have hs := hmapped o o1 o2
    obtain ⟨h, hco⟩ := RW.mapping_dataFile_offset hs
    obtain ⟨hcop, _⟩ := (wf.ent o hov).2 h hs hco
    refine ⟨h, ?_, fun hmem => wf.new o hov ⟨h, hs, hco, hmem⟩⟩
    unfold L2.plainOffset
    rw [if_pos ⟨hs, hcop⟩, hco]
    simp
  obtain ⟨hw, hr'⟩ := Qv.Props.C01Model.inplace_write_refines d f off len toks hc hl H wf.inj
    wf.winv.shape.cb9 ho512 hl512 htoks hr
  exact ⟨_, hw, withData_wfb wf _, hr', rfl, rfl⟩

end Qv.Proofs.RefineCow
