import Qv.Proofs.Alloc
import Qv.Proofs.Flat
/-
Helper lemmas for C11 on the device model: the literal L2 entries a discard
stores (`0`, `1`), the case analysis of `discardOne`, the view after `setL2`,
and the fuel-free description of `discardLoop` (`discardAll`).
-/
namespace Qv.Codec.L2

theorem isCompressed_zero : isCompressed 0#64 = false := by decide
theorem isCompressed_one : isCompressed 1#64 = false := by decide
theorem isZero_zero : isZero 0#64 = false := by decide
theorem isZero_one : isZero 1#64 = true := by decide
theorem isCopied_zero : isCopied 0#64 = false := by decide
theorem clusterOffset_zero : clusterOffset 0#64 = 0#64 := by decide
theorem clusterOffset_one : clusterOffset 1#64 = 0#64 := by decide

theorem compressedRange_of_not_compressed (cb : Nat) (e : E64) (h : isCompressed e = false) :
    compressedRange cb e = none := by
  simp [compressedRange, h]

theorem allocation_of_not_compressed (cb : Nat) (e : E64) (h : isCompressed e = false) :
    allocation cb e = if clusterOffset e = 0#64 then none else some ((clusterOffset e).toNat, 1) := by
  simp [allocation, compressedRange_of_not_compressed cb e h]

theorem allocation_zero (cb : Nat) : allocation cb 0#64 = none := by
  rw [allocation_of_not_compressed cb _ isCompressed_zero, clusterOffset_zero]; rfl

theorem allocation_one (cb : Nat) : allocation cb 1#64 = none := by
  rw [allocation_of_not_compressed cb _ isCompressed_one, clusterOffset_one]; rfl

/-- the entry a discard stores without a backing file: unallocated -/
theorem intoMapping_zero (cb gc : Nat) :
    intoMapping cb false gc 0#64 =
      { source := .unallocated, clusterOffset := some 0, compressedLength := none, copied := false } := by
  simp [intoMapping, compressedRange_of_not_compressed cb _ isCompressed_zero, isZero_zero,
    clusterOffset_zero, isCopied_zero]

/-- the entry a discard stores with a backing file (version ≥ 3): reads as zeros -/
theorem intoMapping_one (cb : Nat) (hb : Bool) (gc : Nat) :
    intoMapping cb hb gc 1#64 =
      { source := .zero, clusterOffset := none, compressedLength := none, copied := false } := by
  simp [intoMapping, compressedRange_of_not_compressed cb _ isCompressed_one, isZero_one,
    clusterOffset_one]

/-- an uncompressed zero-flagged entry reads as zeros, with or without backing file -/
theorem intoMapping_zeroflag (cb : Nat) (hb : Bool) (gc : Nat) (e : E64)
    (hc : isCompressed e = false) (hz : isZero e = true) :
    (intoMapping cb hb gc e).source = .zero := by
  simp [intoMapping, compressedRange_of_not_compressed cb e hc, hz]

/-- an uncompressed entry with a host offset and no zero flag is a plain data cluster -/
theorem intoMapping_plain (cb : Nat) (hb : Bool) (gc : Nat) (e : E64)
    (hc : isCompressed e = false) (hz : isZero e = false) (hne : clusterOffset e ≠ 0#64) :
    intoMapping cb hb gc e =
      { source := .dataFile, clusterOffset := some (clusterOffset e).toNat, compressedLength := none,
        copied := isCopied e } := by
  simp [intoMapping, compressedRange_of_not_compressed cb e hc, hz, hne]

/-- shape of the allocation of an uncompressed entry: exactly one cluster at
    the entry's (non-zero) host offset -/
theorem allocation_uncompressed {cb : Nat} {e : E64} {host cnt : Nat}
    (hc : isCompressed e = false) (ha : allocation cb e = some (host, cnt)) :
    cnt = 1 ∧ host = (clusterOffset e).toNat ∧ clusterOffset e ≠ 0#64 := by
  rw [allocation_of_not_compressed cb e hc] at ha
  split at ha
  · cases ha
  · rename_i hne
    simp only [Option.some.injEq, Prod.mk.injEq] at ha
    exact ⟨ha.2.symm, ha.1.symm, hne⟩

end Qv.Codec.L2

namespace Qv.Model
open Qv Qv.Codec

theorem l2Entry_of_l1_zero (d : Dev) (g : Nat) (h : L1.isZero (d.l1Entry g) = true) :
    d.l2Entry g = 0#64 := by
  unfold Dev.l2Entry; simp [h]

/-- a cluster with an allocation has a mapped L2 table -/
theorem l1_nonzero_of_allocation {d : Dev} {g host cnt : Nat}
    (ha : L2.allocation d.info.cb (d.l2Entry g) = some (host, cnt)) :
    L1.isZero (d.l1Entry g) = false := by
  cases h : L1.isZero (d.l1Entry g) with
  | false => rfl
  | true =>
    rw [l2Entry_of_l1_zero d g h, L2.allocation_zero] at ha
    cases ha

/-- the state a successful `discardOne` of an allocated cluster leaves when the
    mapping is cleared (every case except "backing file and version 2") -/
def released (d : Dev) (host cnt : Nat) (d2 : Dev) : Dev :=
  { d2 with data := d2.data.setRange (host / 512) (cnt * d2.spc) (fun _ => 0),
            newData := d2.newData.filter
              (fun c => ¬ (host / d.info.clusterSize ≤ c ∧ c < host / d.info.clusterSize + cnt)) }

/-- `discardOne` on a cluster that has nothing to release -/
theorem discardOne_noop (g : Nat) (d : Dev)
    (h : L1.isZero (d.l1Entry g) = true ∨ L2.isCompressed (d.l2Entry g) = true ∨
      L2.allocation d.info.cb (d.l2Entry g) = none) :
    discardOne g d = (d, .ok ()) := by
  unfold discardOne; dsimp only
  by_cases h1 : L1.isZero (d.l1Entry g) = true
  · rw [if_pos h1]
  · rw [if_neg h1]
    by_cases h2 : L2.isCompressed (d.l2Entry g) = true
    · rw [if_pos h2]
    · rw [if_neg h2]
      rcases h with h | h | h
      · exact absurd h h1
      · exact absurd h h2
      · rw [h]

/-- `discardOne` on an uncompressed allocated cluster -/
theorem discardOne_alloc (g : Nat) (d : Dev) (host cnt : Nat)
    (hc : L2.isCompressed (d.l2Entry g) = false)
    (ha : L2.allocation d.info.cb (d.l2Entry g) = some (host, cnt)) :
    discardOne g d =
      if d.info.hasBack = true ∧ d.version < 3 then
        ({ d with data := d.data.setRange (host / 512) (cnt * d.spc) (fun _ => 0) }, .ok ())
      else
        match freeClusters host cnt true
            { d.setL2 g (if d.info.hasBack = true then 1#64 else 0#64) with needFlush := true } with
        | (d2, .ok ()) => (released d host cnt d2, .ok ())
        | (d2, .err x) => (d2, .err x)
        | (d2, .panic p) => (d2, .panic p) := by
  have hl1 := l1_nonzero_of_allocation ha
  unfold discardOne; dsimp only
  rw [if_neg (by simp [hl1]), if_neg (by simp [hc]), ha]
  rfl

/-- what no `discardOne` ever changes (any outcome) -/
def SameFrame (d d' : Dev) : Prop :=
  d'.info = d.info ∧ d'.version = d.version ∧ d'.l1 = d.l1 ∧ d'.l1Len = d.l1Len ∧
  d'.l1HdrEntries = d.l1HdrEntries ∧ d'.rt = d.rt ∧ d'.rtLen = d.rtLen ∧ d'.back = d.back ∧
  d'.comp = d.comp ∧ d'.hdrL1Off = d.hdrL1Off ∧ d'.hdrL1Entries = d.hdrL1Entries ∧
  d'.hdrRtOff = d.hdrRtOff ∧ d'.hdrRtClusters = d.hdrRtClusters

theorem SameFrame.refl (d : Dev) : SameFrame d d :=
  ⟨rfl, rfl, rfl, rfl, rfl, rfl, rfl, rfl, rfl, rfl, rfl, rfl, rfl⟩

theorem SameFrame.trans {a b c : Dev} (h1 : SameFrame a b) (h2 : SameFrame b c) : SameFrame a c := by
  obtain ⟨a1, a2, a3, a4, a5, a6, a7, a8, a9, a10, a11, a12, a13⟩ := h1
  obtain ⟨b1, b2, b3, b4, b5, b6, b7, b8, b9, b10, b11, b12, b13⟩ := h2
  exact ⟨b1.trans a1, b2.trans a2, b3.trans a3, b4.trans a4, b5.trans a5, b6.trans a6, b7.trans a7,
    b8.trans a8, b9.trans a9, b10.trans a10, b11.trans a11, b12.trans a12, b13.trans a13⟩

theorem discardOne_sameFrame (g : Nat) (d : Dev) : SameFrame d (discardOne g d).1 := by
  by_cases h : L1.isZero (d.l1Entry g) = true ∨ L2.isCompressed (d.l2Entry g) = true ∨
      L2.allocation d.info.cb (d.l2Entry g) = none
  · rw [discardOne_noop g d h]; exact SameFrame.refl d
  · have hc : L2.isCompressed (d.l2Entry g) = false := by
      cases hx : L2.isCompressed (d.l2Entry g) with
      | false => rfl
      | true => exact absurd (Or.inr (Or.inl hx)) h
    cases ha : L2.allocation d.info.cb (d.l2Entry g) with
    | none => exact absurd (Or.inr (Or.inr ha)) h
    | some x =>
      obtain ⟨host, cnt⟩ := x
      rw [discardOne_alloc g d host cnt hc ha]
      split
      · exact SameFrame.refl d
      · have hfr := (freeClusters_frame host cnt true
          { d.setL2 g (if d.info.hasBack = true then 1#64 else 0#64) with needFlush := true }).1
        generalize freeClusters host cnt true
          { d.setL2 g (if d.info.hasBack = true then 1#64 else 0#64) with needFlush := true } = r at hfr ⊢
        obtain ⟨d2, o⟩ := r
        dsimp only at hfr
        cases o with
        | ok u => dsimp only; rw [hfr]; exact SameFrame.refl d
        | err e => dsimp only; rw [hfr]; exact SameFrame.refl d
        | panic p => dsimp only; rw [hfr]; exact SameFrame.refl d

theorem discardOne_info (g : Nat) (d : Dev) : (discardOne g d).1.info = d.info :=
  (discardOne_sameFrame g d).1

/-- the only `Err`s a `discardOne` can return are the ones of `free_clusters`.
    CHANGED (was `discardOne_err_other : e = .other`): `free_clusters` on a refcount
    that is already 0 now returns `Err invalid` (it used to panic). -/
theorem discardOne_err_cases {g : Nat} {d d' : Dev} {e : Err}
    (h : discardOne g d = (d', .err e)) : e = .other ∨ e = .invalid := by
  by_cases hn : L1.isZero (d.l1Entry g) = true ∨ L2.isCompressed (d.l2Entry g) = true ∨
      L2.allocation d.info.cb (d.l2Entry g) = none
  · rw [discardOne_noop g d hn] at h; cases h
  · have hc : L2.isCompressed (d.l2Entry g) = false := by
      cases hx : L2.isCompressed (d.l2Entry g) with
      | false => rfl
      | true => exact absurd (Or.inr (Or.inl hx)) hn
    cases ha : L2.allocation d.info.cb (d.l2Entry g) with
    | none => exact absurd (Or.inr (Or.inr ha)) hn
    | some x =>
      obtain ⟨host, cnt⟩ := x
      rw [discardOne_alloc g d host cnt hc ha] at h
      split at h
      · cases h
      · split at h
        · cases h
        · rename_i d2 x hfc
          simp only [Prod.mk.injEq, Outcome.err.injEq] at h
          rw [← h.2]; exact freeClusters_err hfc
        · cases h

/-- a successful `discardOne` that clears the mapping: the release succeeded and
    the final state is the initial one with six fields replaced -/
theorem discardOne_release {g : Nat} {d d' : Dev} {host cnt : Nat}
    (hc : L2.isCompressed (d.l2Entry g) = false)
    (ha : L2.allocation d.info.cb (d.l2Entry g) = some (host, cnt))
    (hv : ¬ (d.info.hasBack = true ∧ d.version < 3))
    (h : discardOne g d = (d', .ok ())) :
    ∃ d2, freeClusters host cnt true
        { d.setL2 g (if d.info.hasBack = true then 1#64 else 0#64) with needFlush := true } = (d2, .ok ()) ∧
      d' = { d with
        l2 := (d.setL2 g (if d.info.hasBack = true then 1#64 else 0#64)).l2,
        rc := d2.rc, hint := d2.hint, needFlush := true,
        data := d.data.setRange (host / 512) (cnt * d.spc) (fun _ => 0),
        newData := d.newData.filter
          (fun c => ¬ (host / d.info.clusterSize ≤ c ∧ c < host / d.info.clusterSize + cnt)) } := by
  rw [discardOne_alloc g d host cnt hc ha, if_neg hv] at h
  split at h
  · rename_i d2 hfc
    refine ⟨d2, hfc, ?_⟩
    simp only [Prod.mk.injEq, and_true] at h
    have hfr := (freeClusters_frame host cnt true
      { d.setL2 g (if d.info.hasBack = true then 1#64 else 0#64) with needFlush := true }).1
    rw [hfc] at hfr
    dsimp only at hfr
    have hnf : d2.needFlush = true := by
      cases cnt with
      | zero =>
        simp only [freeClusters, M.pure, Prod.mk.injEq, and_true] at hfc
        rw [← hfc]
      | succ n => exact (freeClusters_ok hfc).2.2.2.2.2 (Nat.succ_pos n)
    rw [← h, released, hfr, hnf]
    rfl
  · cases h
  · cases h

/-! ### the view after `setL2` -/

/-- the L2 view of a state that differs from `d` by one `setL2 g c` -/
theorem l2Entry_after_setL2 (d d' : Dev) (g : Nat) (c : E64) (o : Nat)
    (hi : d'.info = d.info) (h1 : d'.l1 = d.l1) (hlen : d'.l1Len = d.l1Len)
    (h2 : d'.l2 = (d.setL2 g c).l2) :
    d'.l2Entry o =
      if L1.isZero (d.l1Entry o) = true then 0#64
      else if (L1.l2Offset (d.l1Entry o)).toNat = (L1.l2Offset (d.l1Entry g)).toNat ∧
          Split.l2Index d.info o = Split.l2Index d.info g then c
      else d.l2Entry o := by
  have hl1 : d'.l1Entry o = d.l1Entry o := by
    unfold Dev.l1Entry; rw [hi, h1, hlen]
  unfold Dev.l2Entry
  dsimp only
  rw [hl1, h2, hi]
  by_cases hz : L1.isZero (d.l1Entry o) = true
  · rw [if_pos hz, if_pos hz]
  · rw [if_neg hz, if_neg hz]
    unfold Dev.setL2; dsimp only
    rw [FMap.get_set]
    by_cases ht : (L1.l2Offset (d.l1Entry g)).toNat = (L1.l2Offset (d.l1Entry o)).toNat
    · rw [if_pos ht, FMap.get_set]
      by_cases hx : Split.l2Index d.info g = Split.l2Index d.info o
      · rw [if_pos hx, if_pos ⟨ht.symm, hx.symm⟩]
      · rw [if_neg hx, if_neg (fun x => hx x.2.symm), ht, if_neg hz]
    · rw [if_neg ht, if_neg (fun x => ht x.1.symm), if_neg hz]

/-! ### the cluster loop -/

/-- `discardOne` over a list of guest offsets, stopping at the first failure -/
def discardAll : List Nat → M Unit
  | [] => M.pure ()
  | g :: gs => fun d =>
    match discardOne g d with
    | (d1, .ok ()) => discardAll gs d1
    | (d1, .err e) => (d1, .err e)
    | (d1, .panic p) => (d1, .panic p)

theorem discardAll_cons (g : Nat) (gs : List Nat) (d : Dev) :
    discardAll (g :: gs) d =
      match discardOne g d with
      | (d1, .ok ()) => discardAll gs d1
      | (d1, .err e) => (d1, .err e)
      | (d1, .panic p) => (d1, .panic p) := rfl

/-- number of iterations of `discardLoop stop _ g` on cluster size `cs` -/
def loopCount (cs stop g : Nat) : Nat := (stop - g + cs - 1) / cs

theorem loopCount_zero {cs stop g : Nat} (hcs : 0 < cs) (h : ¬ g < stop) : loopCount cs stop g = 0 := by
  unfold loopCount
  exact Nat.div_eq_of_lt (by omega)

theorem loopCount_succ {cs stop g : Nat} (hcs : 0 < cs) (h : g < stop) :
    loopCount cs stop g = loopCount cs stop (g + cs) + 1 := by
  unfold loopCount
  by_cases h2 : g + cs ≤ stop
  · have : stop - g + cs - 1 = (stop - (g + cs) + cs - 1) + cs := by omega
    rw [this, Nat.add_div_right _ hcs]
  · have e1 : stop - (g + cs) + cs - 1 = cs - 1 := by omega
    have e2 : (cs - 1) / cs = 0 := Nat.div_eq_of_lt (by omega)
    have e3 : (stop - g + cs - 1) / cs = 1 :=
      (Spec.Flat.div_eq_iff_bounds _ 1 cs hcs).2 ⟨by omega, by omega⟩
    rw [e1, e2, e3]

theorem offsets_succ (cs g n : Nat) :
    (List.range (n + 1)).map (fun k => g + k * cs) =
      g :: (List.range n).map (fun k => (g + cs) + k * cs) := by
  rw [List.range_succ_eq_map, List.map_cons, List.map_map]
  congr 1
  · simp
  · apply List.map_congr_left
    intro k _
    simp only [Function.comp, Nat.succ_eq_add_one, Nat.add_mul]
    omega

theorem discardLoop_succ (stop fuel g : Nat) (d : Dev) :
    discardLoop stop (fuel + 1) g d =
      if ¬ (g < stop) then (d, .ok ()) else
      match discardOne g d with
      | (d1, .ok ()) => discardLoop stop fuel (g + d1.info.clusterSize) d1
      | (d1, .err e) => (d1, .err e)
      | (d1, .panic p) => (d1, .panic p) := rfl

/-- with enough fuel the loop visits exactly `g, g + cs, g + 2 cs, … < stop` -/
theorem discardLoop_eq_all (stop : Nat) (fuel : Nat) :
    ∀ (g : Nat) (d : Dev), loopCount d.info.clusterSize stop g ≤ fuel →
      discardLoop stop fuel g d =
        discardAll ((List.range (loopCount d.info.clusterSize stop g)).map
          (fun k => g + k * d.info.clusterSize)) d := by
  induction fuel with
  | zero =>
    intro g d h
    have : loopCount d.info.clusterSize stop g = 0 := by omega
    rw [this]; rfl
  | succ fuel ih =>
    intro g d h
    have hcs : 0 < d.info.clusterSize := Nat.two_pow_pos _
    rw [discardLoop_succ]
    by_cases hg : g < stop
    · rw [if_neg (by omega), loopCount_succ hcs hg, offsets_succ]
      rw [loopCount_succ hcs hg] at h
      show _ = (match discardOne g d with
        | (d1, .ok ()) => discardAll _ d1
        | (d1, .err e) => (d1, .err e)
        | (d1, .panic p) => (d1, .panic p))
      have hinfo := discardOne_info g d
      generalize discardOne g d = r at hinfo ⊢
      obtain ⟨d1, o⟩ := r
      dsimp only at hinfo
      cases o with
      | ok u =>
        dsimp only
        have := ih (g + d1.info.clusterSize) d1 (by rw [hinfo]; omega)
        rw [this, hinfo]
      | err e => rfl
      | panic p => rfl
    · rw [if_pos hg, loopCount_zero hcs hg]; rfl

theorem discardAll_sameFrame (gs : List Nat) (d : Dev) : SameFrame d (discardAll gs d).1 := by
  induction gs generalizing d with
  | nil => exact SameFrame.refl d
  | cons g gs ih =>
    rw [discardAll_cons]
    have h1 := discardOne_sameFrame g d
    generalize discardOne g d = r at h1 ⊢
    obtain ⟨d1, o⟩ := r
    cases o with
    | ok u => exact SameFrame.trans h1 (ih d1)
    | err e => exact h1
    | panic p => exact h1

/-- CHANGED (was `discardAll_err_other : e = .other`), see `discardOne_err_cases` -/
theorem discardAll_err_cases {gs : List Nat} {d d' : Dev} {e : Err}
    (h : discardAll gs d = (d', .err e)) : e = .other ∨ e = .invalid := by
  induction gs generalizing d with
  | nil => cases h
  | cons g gs ih =>
    rw [discardAll_cons] at h
    split at h
    · exact ih h
    · rename_i d1 x hx
      simp only [Prod.mk.injEq, Outcome.err.injEq] at h
      rw [← h.2]; exact discardOne_err_cases hx
    · cases h

/-- an invariant under which every `discardOne` succeeds makes the whole list succeed -/
theorem discardAll_ok_of_inv (P : Dev → Prop)
    (hP : ∀ d g, P d → ∃ d', discardOne g d = (d', .ok ()) ∧ P d')
    (gs : List Nat) (d : Dev) (h : P d) : ∃ d', discardAll gs d = (d', .ok ()) ∧ P d' := by
  induction gs generalizing d with
  | nil => exact ⟨d, rfl, h⟩
  | cons g gs ih =>
    obtain ⟨d1, h1, p1⟩ := hP d g h
    obtain ⟨d2, h2, p2⟩ := ih d1 p1
    refine ⟨d2, ?_, p2⟩
    rw [discardAll_cons, h1]; exact h2

/-- a property preserved by every successful `discardOne` is preserved by the loop -/
theorem discardAll_ok_preserves {gs : List Nat} {d d' : Dev} (Q : Dev → Prop)
    (hpres : ∀ g d d1, discardOne g d = (d1, .ok ()) → Q d → Q d1)
    (h : discardAll gs d = (d', .ok ())) (q : Q d) : Q d' := by
  induction gs generalizing d with
  | nil => simp only [discardAll, M.pure, Prod.mk.injEq, and_true] at h; rw [← h]; exact q
  | cons g0 gs ih =>
    rw [discardAll_cons] at h
    split at h
    · rename_i d1 h1
      exact ih h (hpres g0 d d1 h1 q)
    · cases h
    · cases h

/-- a property established by each successful `discardOne` of its own cluster and
    preserved by the others holds for every visited cluster at the end -/
theorem discardAll_ok_each {gs : List Nat} {d d' : Dev} (Q : Nat → Dev → Prop)
    (hest : ∀ g d d1, discardOne g d = (d1, .ok ()) → Q g d1)
    (hpres : ∀ g g' d d1, discardOne g' d = (d1, .ok ()) → Q g d → Q g d1)
    (h : discardAll gs d = (d', .ok ())) : ∀ g ∈ gs, Q g d' := by
  induction gs generalizing d with
  | nil => intro g hg; cases hg
  | cons g0 gs ih =>
    rw [discardAll_cons] at h
    split at h
    · rename_i d1 h1
      intro g hg
      rcases List.mem_cons.1 hg with rfl | hg
      · exact discardAll_ok_preserves (Q g) (hpres g) h (hest g d d1 h1)
      · exact ih h g hg
    · cases h
    · cases h

end Qv.Model
