import Qv.Proofs.AcctWriteMulti
/-
Discard under the write-path invariant, and sequential histories
(helpers for `Qv/Props/C03Write.lean`).
-/
namespace Qv.Model
open Qv Qv.Codec
open Qv.Props.C15 (Geom)
open Qv.Props.C11 (L1Distinct Discarded)

/-! ### `__discard_one_cluster` -/

theorem rtIndex_eq_of_cluster {i : Info} {a b : Nat} (h : a / i.clusterSize = b / i.clusterSize) :
    Host.rtIndex i a = Host.rtIndex i b := by
  unfold Host.rtIndex
  rw [Nat.add_comm, Nat.pow_add, ← Nat.div_div_eq_div_mul, ← Nat.div_div_eq_div_mul]
  show a / i.clusterSize / _ = b / i.clusterSize / _
  rw [h]

/-- an allocation reachable through the L1 table is counted -/
theorem refs_ge_of_allocation {d : Dev} (g : Geom d.info) {o host cnt c : Nat}
    (hidx : Split.l1Index d.info o < d.hdrL1Entries)
    (ha : L2.allocation d.info.cb (d.l2Entry o) = some (host, cnt))
    (hc : host / d.info.clusterSize ≤ c ∧ c < host / d.info.clusterSize + cnt) : 1 ≤ d.refs c := by
  have hle := le_sumTo (n := d.hdrL1Entries)
    (f := fun i => sumTo d.info.l2Entries fun j => covers d.cs (L2.allocation d.info.cb (d.slot i j)) c) hidx
  have hle2 := le_sumTo (n := d.info.l2Entries)
    (f := fun j => covers d.cs (L2.allocation d.info.cb (d.slot (Split.l1Index d.info o) j)) c)
    (Qv.Props.C15.split_bounds g o).1
  rw [← d.l2Entry_eq_slot, ha, covers_some,
    if_pos (show host / d.cs ≤ c ∧ c < host / d.cs + cnt from hc)] at hle2
  have : d.refsData c = _ := refsData_eq_slots d c
  unfold Dev.refs
  omega

/-- how `discard` changes the view: an entry is kept or cleared (`0`, or `1` = zero flag
    when the image has a backing file) -/
def ClearStep (d d' : Dev) : Prop :=
  ∀ o, d'.l2Entry o = d.l2Entry o ∨ d'.l2Entry o = 0#64 ∨ d'.l2Entry o = 1#64

theorem ClearStep.refl (d : Dev) : ClearStep d d := fun _ => Or.inl rfl

theorem ClearStep.trans {a b c : Dev} (h1 : ClearStep a b) (h2 : ClearStep b c) : ClearStep a c := by
  intro o
  rcases h2 o with e2 | e2
  · rcases h1 o with e1 | e1
    · exact Or.inl (e2.trans e1)
    · right; rw [e2]; exact e1
  · exact Or.inr e2

/-- what `discard` keeps besides the invariant -/
structure DFrame (d d' : Dev) : Prop where
  info : d'.info = d.info
  hdrL1Entries : d'.hdrL1Entries = d.hdrL1Entries
  rtLen : d'.rtLen = d.rtLen
  view : ClearStep d d'

theorem DFrame.refl (d : Dev) : DFrame d d := ⟨rfl, rfl, rfl, ClearStep.refl d⟩
theorem DFrame.trans {a b c : Dev} (h1 : DFrame a b) (h2 : DFrame b c) : DFrame a c :=
  ⟨h2.info.trans h1.info, h2.hdrL1Entries.trans h1.hdrL1Entries, h2.rtLen.trans h1.rtLen,
    h1.view.trans h2.view⟩

/-- **`__discard_one_cluster`** on a state satisfying the invariant: it succeeds, keeps the
    invariant, and changes the view at most by clearing entries -/
theorem discardOne_winv {g : Nat} {d d' : Dev} {r : Outcome Unit} (w : WInv d)
    (hidx : Split.l1Index d.info g < d.hdrL1Entries) (h : discardOne g d = (d', r)) :
    WInv d' ∧ r = .ok () ∧ DFrame d d' := by
  have geo := w.shape.geo
  by_cases hn : L1.isZero (d.l1Entry g) = true ∨ L2.isCompressed (d.l2Entry g) = true ∨
      L2.allocation d.info.cb (d.l2Entry g) = none
  · rw [discardOne_noop g d hn] at h
    simp only [Prod.mk.injEq] at h
    obtain ⟨rfl, rfl⟩ := h
    exact ⟨w, rfl, DFrame.refl _⟩
  · have hc : L2.isCompressed (d.l2Entry g) = false := by
      cases hx : L2.isCompressed (d.l2Entry g) with
      | false => rfl
      | true => exact absurd (Or.inr (Or.inl hx)) hn
    cases ha : L2.allocation d.info.cb (d.l2Entry g) with
    | none => exact absurd (Or.inr (Or.inr ha)) hn
    | some x =>
      obtain ⟨host, cnt⟩ := x
      obtain ⟨a1, _, _⟩ := L2.allocation_uncompressed hc ha
      subst a1
      have hrefs : 1 ≤ d.refs (host / d.info.clusterSize) :=
        refs_ge_of_allocation geo hidx ha ⟨Nat.le_refl _, by omega⟩
      have hrc : 1 ≤ d.rc.get (host / d.info.clusterSize) := by rw [w.acct]; exact hrefs
      have hrt : ¬ RT.isZero (rtEntryAt d host) = true := by
        have := w.dom.nz (c := host / d.info.clusterSize) (by omega)
        rw [rtEntryAt_of_index (rtIndex_eq_of_cluster (i := d.info) (a := host)
          (b := host / d.info.clusterSize * d.info.clusterSize)
          (by rw [Nat.mul_div_cancel _ (cs_pos _)]))]
        exact this
      obtain ⟨d2, hok⟩ := Qv.Props.C11.discardOne_ok_of_refcounted g d host 1 hc ha hrt hrc
      rw [hok] at h
      simp only [Prod.mk.injEq] at h
      obtain ⟨rfl, rfl⟩ := h
      have hA := discardOne_acct geo w.acct w.shape.l1d hidx hok
      have hsf := discardOne_sameFrame g d
      rw [hok] at hsf
      obtain ⟨s1, _, s3, s4, s5, s6, s7, _, _, _, s11, _, hsf13⟩ := hsf
      dsimp only at s1 s3 s4 s5 s6 s7 s11 hsf13
      have hS : Shape d2 := w.shape.congr s1 s3 s4 s11 s5 s7
      by_cases hv : d.info.hasBack = true ∧ d.version < 3
      · rw [discardOne_alloc g d host 1 hc ha, if_pos hv] at hok
        simp only [Prod.mk.injEq, and_true] at hok
        subst hok
        exact ⟨⟨hS, ⟨w.dom.zero, w.dom.sync, w.dom.tail⟩, hA⟩, rfl, ⟨rfl, rfl, rfl, ClearStep.refl _⟩⟩
      · have hdis := Qv.Props.C11.discardOne_clear_spec g d d2 host 1 hc ha hv hok
        have hD : RcDom d2 := by
          refine ⟨?_, by rw [s7, hsf13, s1]; exact w.dom.sync,
            fun i hi => by rw [s6]; exact w.dom.tail i (by rw [← s7]; exact hi)⟩
          intro c hz
          rw [s1, rtEntryAt_congr s1 s6 s7] at hz
          have h0 := w.dom.zero c hz
          by_cases hin : host / d.info.clusterSize ≤ c ∧ c < host / d.info.clusterSize + 1
          · have hce : c = host / d.info.clusterSize + 0 := by omega
            have := (hdis.rc_released 0 (by omega)).2
            rw [← hce] at this
            rw [this, h0]
          · rw [hdis.rc_frame c hin]; exact h0
        refine ⟨⟨hS, hD, hA⟩, rfl, ⟨s1, s11, s7, ?_⟩⟩
        intro o
        by_cases hp : Split.l1Index d.info o = Split.l1Index d.info g ∧
            Split.l2Index d.info o = Split.l2Index d.info g
        · right
          have e2 : d2.l2Entry o = d2.l2Entry g := by
            rw [d2.l2Entry_eq_slot, d2.l2Entry_eq_slot, s1, hp.1, hp.2]
          rw [e2, hdis.entry]
          split
          · exact Or.inr rfl
          · exact Or.inl rfl
        · left
          apply Qv.Props.C11.discardOne_l2_frame hdis w.shape.l1d
          by_cases hx : Split.l1Index d.info o = Split.l1Index d.info g
          · right; intro hy; exact hp ⟨hx, hy⟩
          · left; exact hx

/-! ### `discard` -/

theorem discardLoop_winv (stop : Nat) (fuel : Nat) :
    ∀ (g : Nat) (d d' : Dev) (r : Outcome Unit), WInv d → stop ≤ d.info.vsize →
      discardLoop stop fuel g d = (d', r) → WInv d' ∧ r = .ok () ∧ DFrame d d' := by
  induction fuel with
  | zero =>
    intro g d d' r w _ h
    simp only [discardLoop, M.pure, Prod.mk.injEq] at h
    obtain ⟨rfl, rfl⟩ := h
    exact ⟨w, rfl, DFrame.refl _⟩
  | succ fuel ih =>
    intro g d d' r w hstop h
    rw [discardLoop] at h
    dsimp only at h
    by_cases hg : g < stop
    · rw [if_neg (not_not_intro hg)] at h
      generalize h1 : discardOne g d = r1 at h
      obtain ⟨d1, o1⟩ := r1
      have hidx : Split.l1Index d.info g < d.hdrL1Entries := by
        apply l1Index_lt_of_cluster w.shape
        have := Nat.div_mul_le_self g d.info.clusterSize
        omega
      obtain ⟨w1, rfl, f1⟩ := discardOne_winv w hidx h1
      dsimp only at h
      obtain ⟨w2, hr, f2⟩ := ih _ d1 d' r w1 (by rw [f1.info]; exact hstop) h
      exact ⟨w2, hr, f1.trans f2⟩
    · rw [if_pos hg] at h
      simp only [Prod.mk.injEq] at h
      obtain ⟨rfl, rfl⟩ := h
      exact ⟨w, rfl, DFrame.refl _⟩

/-- **`discard`**, any arguments, any outcome: the invariant is kept; the view changes at
    most by clearing entries; the refcount table does not grow -/
theorem discard_winv {d d' : Dev} {off len : Nat} {r : Outcome Unit} (w : WInv d)
    (h : discard off len d = (d', r)) : WInv d' ∧ DFrame d d' := by
  unfold discard at h
  dsimp only at h
  split at h
  · simp only [Prod.mk.injEq] at h; obtain ⟨rfl, _⟩ := h; exact ⟨w, DFrame.refl _⟩
  · split at h
    · simp only [Prod.mk.injEq] at h; obtain ⟨rfl, _⟩ := h; exact ⟨w, DFrame.refl _⟩
    · simp only [Prod.mk.injEq] at h; obtain ⟨rfl, _⟩ := h; exact ⟨w, DFrame.refl _⟩
    · simp only [Prod.mk.injEq] at h; obtain ⟨rfl, _⟩ := h; exact ⟨w, DFrame.refl _⟩
    · rename_i start stop hr
      have hstop : stop ≤ d.info.vsize := by
        unfold discardRange at hr
        dsimp only at hr
        repeat' split at hr
        all_goals (try (cases hr; done))
        simp only [Outcome.ok.injEq, Option.some.injEq, Prod.mk.injEq] at hr
        obtain ⟨_, rfl⟩ := hr
        have h1 : d.info.clusterRoundDown (clipEnd d.info.vsize off len) ≤ clipEnd d.info.vsize off len :=
          Nat.div_mul_le_self _ _
        have h2 : clipEnd d.info.vsize off len ≤ d.info.vsize := Nat.min_le_right _ _
        omega
      obtain ⟨a, _, c⟩ := discardLoop_winv stop _ start d d' r w hstop h
      exact ⟨a, c⟩

/-! ### histories -/

/-- no compressed cluster, and no entry of the known-leak shape, anywhere in the view -/
def PlainView (d : Dev) : Prop := ∀ o, NoPre d o ∧ L2.isCompressed (d.l2Entry o) = false

theorem PlainView.of_viewStep {d d' : Dev} (h : PlainView d) (v : ViewStep d d') (hi : d'.info = d.info) :
    PlainView d' :=
  fun o => ⟨v.noPre hi (h o).1, v.notCompressed (h o).2⟩

theorem noPre_of_entry_zero {d : Dev} {o : Nat} (h : d.l2Entry o = 0#64) : NoPre d o := by
  intro _; rw [h]; exact L2.allocation_zero _

theorem noPre_of_entry_one {d : Dev} {o : Nat} (h : d.l2Entry o = 1#64) : NoPre d o := by
  intro _; rw [h]; exact L2.allocation_one _

theorem PlainView.of_clearStep {d d' : Dev} (h : PlainView d) (v : ClearStep d d') (hi : d'.info = d.info) :
    PlainView d' := by
  intro o
  rcases v o with e | e | e
  · refine ⟨?_, by rw [e]; exact (h o).2⟩
    unfold NoPre
    rw [mapping_congr' hi e, hi, e]; exact (h o).1
  · exact ⟨noPre_of_entry_zero e, by rw [e]; decide⟩
  · exact ⟨noPre_of_entry_one e, by rw [e]; decide⟩

/-- the invariant of sequential histories -/
structure HInv (d : Dev) : Prop where
  winv : WInv d
  plain : PlainView d

/-- operations of a sequential history; every argument is arbitrary (invalid requests
    return an error and change nothing) -/
inductive HOp where
  | write (off len : Nat) (toks : List Nat)
  | discard (off len : Nat)
  | flush
  | read (off len : Nat)

/-- the state after one operation (whatever it returned) -/
def hstep (d : Dev) : HOp → Dev
  | .write off len toks => (writeAt off len toks d).1
  | .discard off len => (discard off len d).1
  | .flush => (flushMeta d).1
  | .read _ _ => d          -- `readAt` is a function of the state

def hrun (d : Dev) (ops : List HOp) : Dev := ops.foldl hstep d

theorem hrun_nil (d : Dev) : hrun d [] = d := rfl
theorem hrun_cons (d : Dev) (op : HOp) (ops : List HOp) : hrun d (op :: ops) = hrun (hstep d op) ops := rfl

theorem hrun_append (d : Dev) (a b : List HOp) : hrun d (a ++ b) = hrun (hrun d a) b := by
  unfold hrun; rw [List.foldl_append]

theorem hstep_mono (d : Dev) (op : HOp) : d.rtLen ≤ (hstep d op).rtLen := by
  cases op with
  | write off len toks => exact (writeAt_mn off len toks).mono d
  | discard off len => exact Nat.le_of_eq (discard_rtLen off len d).symm
  | flush => exact Nat.le_refl _
  | read off len => exact Nat.le_refl _

theorem hrun_mono (ops : List HOp) : ∀ d, d.rtLen ≤ (hrun d ops).rtLen := by
  induction ops with
  | nil => intro d; exact Nat.le_refl _
  | cons op ops ih => intro d; exact Nat.le_trans (hstep_mono d op) (ih (hstep d op))

theorem hstep_rm (d : Dev) (op : HOp) : RM d (hstep d op) := by
  cases op with
  | write off len toks => exact (writeAt_mn off len toks).rm d
  | discard off len => exact discard_rm off len d
  | flush => exact RM.of_same rfl rfl rfl
  | read off len => exact RM.refl _

theorem hrun_rm (ops : List HOp) : ∀ d, RM d (hrun d ops) := by
  induction ops with
  | nil => intro d; exact RM.refl _
  | cons op ops ih => intro d; exact (hstep_rm d op).trans (ih (hstep d op))

/-- a device whose refcount table cannot grow keeps its length along every history -/
theorem hrun_rtLen_of_noGrow {d : Dev} (hn : NoGrow d) (ops : List HOp) :
    (hrun d ops).rtLen = d.rtLen :=
  (hrun_rm ops d).rtLen_eq hn

/-- one step of a history keeps the invariant, provided the refcount table still describes
    host offsets below 2^56 only afterwards -/
theorem hstep_hinv {d : Dev} (hI : HInv d) (op : HOp) (hl : Cap (hstep d op)) :
    HInv (hstep d op) := by
  cases op with
  | write off len toks =>
    obtain ⟨w, i, _, v⟩ := writeAt_winv (d := d) (d' := (writeAt off len toks d).1)
      (r := (writeAt off len toks d).2) hI.winv (fun o _ _ => (hI.plain o).1)
      (fun o _ _ => (hI.plain o).2) rfl hl
    exact ⟨w, hI.plain.of_viewStep v i⟩
  | discard off len =>
    obtain ⟨w, f⟩ := discard_winv (d := d) (d' := (discard off len d).1) (r := (discard off len d).2)
      hI.winv rfl
    exact ⟨w, hI.plain.of_clearStep f.view f.info⟩
  | flush =>
    have f : MFrame d (flushMeta d).1 := ⟨rfl, rfl, rfl, rfl, rfl, rfl, rfl, rfl, rfl, rfl, rfl⟩
    exact ⟨f.winv rfl hI.winv, hI.plain.of_viewStep (ViewStep.of_eq (f.l2Entry rfl)) rfl⟩
  | read off len => exact hI

/-- **histories**: from a state satisfying the invariant, every state reached by a
    history after which the refcount table still describes host offsets below 2^56 only
    satisfies it -/
theorem hrun_hinv (ops : List HOp) : ∀ d, HInv d → Cap (hrun d ops) →
    ∀ pre, pre <+: ops → HInv (hrun d pre) := by
  induction ops with
  | nil =>
    intro d hI _ pre hp
    rw [List.prefix_nil.1 hp]; exact hI
  | cons op ops ih =>
    intro d hI hl pre hp
    cases pre with
    | nil => exact hI
    | cons q pre' =>
      obtain ⟨rfl, hp'⟩ := List.cons_prefix_cons.1 hp
      have hl' : Cap (hrun (hstep d q) ops) := hl
      exact ih (hstep d q) (hstep_hinv hI q ((hrun_rm ops (hstep d q)).cap hl')) hl' pre' hp'

/-! ### a freshly formatted image satisfies the invariant -/

/-- every field of a successfully formatted device -/
theorem formatDev_fields {size cb ro fmtBs : Nat} {p : Params} {d : Dev}
    (h : formatDev size cb ro fmtBs p = .ok d) :
    ∃ rc info, formatRefcounts (metaParams size cb ro fmtBs) cb ro = some rc ∧
      Info.new { clusterBits := cb, refcountOrder := ro, size := size, hasBackingName := false } p = .ok info ∧
      d = { info := info, version := 3,
            hdrL1Off := (metaParams size cb ro fmtBs).l1Off,
            hdrL1Entries := (metaParams size cb ro fmtBs).l1Entries,
            hdrRtOff := (metaParams size cb ro fmtBs).rtOff,
            hdrRtClusters := (metaParams size cb ro fmtBs).rtClusters,
            l1 := FMap.empty 0#64, l1Len := ramL1Len size cb p.bsBits,
            l1HdrEntries := (metaParams size cb ro fmtBs).l1Entries,
            l2 := FMap.empty (FMap.empty 0#64),
            rt := (FMap.empty 0#64).set 0 (BitVec.ofNat 64 (metaParams size cb ro fmtBs).rbOff),
            rtLen := (metaParams size cb ro fmtBs).rtClusters * 2^cb / 8,
            rc := rc, newData := [], hint := 0, needFlush := false,
            data := FMap.empty 0, comp := FMap.empty (FMap.empty 0), back := none } := by
  unfold formatDev at h
  cases hr : formatRefcounts (metaParams size cb ro fmtBs) cb ro with
  | none => simp [hr] at h
  | some rc =>
    cases hn : Info.new { clusterBits := cb, refcountOrder := ro, size := size, hasBackingName := false } p with
    | ok info =>
      simp only [hr, hn, Outcome.bind_ok] at h
      split at h
      · cases h
      · simp only [Outcome.ok.injEq] at h
        exact ⟨rc, info, rfl, rfl, h.symm⟩
    | err e => simp [hr, hn] at h
    | panic s => simp [hr, hn] at h

/-- **a fresh image satisfies the invariant of histories.**  Hypotheses: those of
    `format_acct` (cluster_bits 9..21, refcount_order ≤ 6, block size a power of two not
    above the cluster size, size > 0, L1 table within the 32 MiB cap); the device is opened
    with a block size of at least 8 bytes (for the geometry equations); and the refcount
    table of the fresh image describes at most 2^56 bytes of host space (what an L2
    entry can address). -/
theorem formatDev_hinv {size cb ro k : Nat} {p : Params} {d : Dev}
    (h : formatDev size cb ro (2^k) p = .ok d)
    (h9 : 9 ≤ cb) (h21 : cb ≤ 21) (hro : ro ≤ 6) (hk : k ≤ cb) (hsz : 0 < size)
    (hcap : (size + 2^cb / 8 * 2^cb - 1) / (2^cb / 8 * 2^cb) ≤ 32 * 2^20 / 8)
    (hbs : 3 ≤ p.bsBits)
    (h56 : d.rtLen * d.info.rbEntries * d.info.clusterSize ≤ 2^56) : HInv d := by
  have hA : Acct d := format_acct_general h h9 h21 hro hk hsz hcap
  obtain ⟨rc, info, hrc, hinfo, hd⟩ := formatDev_fields h
  obtain ⟨geo, ecb, ero, _, _, hsl, _⟩ :=
    Qv.Props.C15.info_geometry_of_params hinfo h9 h21 hro hbs
  have hvs : info.vsize = size := by
    obtain ⟨_, _, _, _, _, _, _, _, _, _, _, hi⟩ := Info.new_ok hinfo
    rw [hi]
  dsimp only at ecb ero
  have hi : d.info = info := by rw [hd]
  have hcs : d.info.clusterSize = 2^cb := by rw [hi]; unfold Info.clusterSize; rw [ecb]
  have hpos : 0 < 2^cb := Nat.two_pow_pos _
  have hz : ∀ i, d.l1At i = 0#64 := by
    intro i; unfold Dev.l1At; rw [hd]; dsimp only; rw [FMap.get_empty]; split <;> rfl
  have hl2z : ∀ o, d.l2Entry o = 0#64 := by
    intro o
    apply l2Entry_of_l1_zero
    rw [d.l1Entry_eq, hz]; decide
  generalize hmp : metaParams size cb ro (2^k) = mp at hd hrc
  have hE : mp.l1Entries = (size + 2^cb / 8 * 2^cb - 1) / (2^cb / 8 * 2^cb) := by rw [← hmp]; rfl
  -- shape
  have hshape : Shape d := by
    refine ⟨hi ▸ geo, by rw [hi, ecb]; exact h9, hi ▸ hsl, ?_, ?_, by rw [hd], ?_, ?_, h56⟩
    · exact l1Distinct_of_single 0 (fun i _ => by rw [hz]; decide)
    · intro i _; rw [hz]; decide
    · -- header entries ≤ RAM table
      have e1 : d.hdrL1Entries = mp.l1Entries := by rw [hd]
      have e2 : d.l1Len = ramL1Len size cb p.bsBits := by rw [hd]
      rw [e1, e2, hE]
      unfold ramL1Len Info.maxL1Size Info.maxL1EntriesOf
      dsimp only
      rw [Nat.min_eq_left hcap]
      have := Arith16.alignUp_ge ((size + 2^cb / 8 * 2^cb - 1) / (2^cb / 8 * 2^cb) * 8) (2^p.bsBits)
        (Nat.two_pow_pos _)
      omega
    · intro off hoff
      have e1 : d.hdrL1Entries = mp.l1Entries := by rw [hd]
      rw [e1, hE, hi]
      rw [hi, hvs] at hoff
      unfold Split.l1Index
      have hper : 2^(info.cb + info.l2IndexShift) = 2^cb / 8 * 2^cb := by
        rw [Nat.pow_add, geo.l2IndexShift_eq, geo.l2Entries_eq, ecb, Nat.mul_comm]
      rw [hper]
      have hperpos : 0 < 2^cb / 8 * 2^cb := by
        apply Nat.mul_pos _ hpos
        apply Nat.div_pos _ (by decide)
        calc 8 ≤ 2^9 := by decide
          _ ≤ 2^cb := Nat.pow_le_pow_right (by decide) h9
      rw [Nat.div_lt_iff_lt_mul hperpos]
      have := Arith16.alignUp_ge size (2^cb / 8 * 2^cb) hperpos
      unfold Info.alignUp at this
      omega
  -- refcounts only where the first refblock is
  have hrbe : info.rbEntries = 2^cb * 8 / 2^ro := by
    unfold Info.rbEntries Info.clusterSize; rw [ecb, ero]
  have hdom : RcDom d := by
    refine ⟨?_, ?_, ?_⟩
    rotate_left
    · -- the RAM table is as long as the table on disk
      have e1 : d.rtLen = mp.rtClusters * 2^cb / 8 := by rw [hd]
      have e2 : d.hdrRtClusters = mp.rtClusters := by rw [hd]
      rw [e1, e2, hcs]
      have h8 : mp.rtClusters * 2^cb % 8 = 0 :=
        Arith16.mul_mod_zero_right _ (Arith16.two_pow_mod (a := 3) (by omega))
      have := Nat.div_add_mod (mp.rtClusters * 2^cb) 8
      omega
    · intro i hi
      have e1 : d.rtLen = mp.rtClusters * 2^cb / 8 := by rw [hd]
      have hR := metaParams_rtClusters_pos size cb ro (2^k) h9 hro (Nat.two_pow_pos _) hsz
      rw [hmp] at hR
      have hlen : 0 < d.rtLen := by
        rw [e1]
        apply Nat.div_pos _ (by decide)
        calc 8 ≤ 2^9 := by decide
          _ ≤ 2^cb := Nat.pow_le_pow_right (by decide) h9
          _ ≤ mp.rtClusters * 2^cb := Nat.le_mul_of_pos_left _ hR
      rw [hd]
      dsimp only
      rw [FMap.get_set_other _ _ _ _ (by omega), FMap.get_empty]
    intro c hzc
    rw [formatDev_rc_get h c]
    split
    · rename_i hc
      exfalso
      have hused : 1 + mp.rtClusters + 1 + mp.l1Clusters ≤ info.rbEntries := by
        unfold formatRefcounts at hrc
        dsimp only at hrc
        split at hrc
        · cases hrc
        · rw [hrbe]; omega
      rw [hmp] at hc
      have hR := metaParams_rtClusters_pos size cb ro (2^k) h9 hro (Nat.two_pow_pos _) hsz
      rw [hmp] at hR
      have hrbOff : mp.rbOff = (mp.rtClusters + 1) * 2^cb := by
        have : mp.rbOff = 2^cb + mp.rtClusters * 2^cb := by rw [← hmp]; rfl
        rw [this, Nat.add_mul, Nat.one_mul, Nat.add_comm]
      have h64 := metaParams_rbOff_lt size cb ro (2^k) h21
      rw [hmp] at h64
      have hnz : RT.isZero (BitVec.ofNat 64 mp.rbOff) = false := by
        apply rt_isZero_ofNat _ h64
        · rw [hrbOff]; exact Nat.mul_pos (by omega) hpos
        · rw [hrbOff]
          exact Arith16.mul_mod_zero_right _ (Arith16.two_pow_mod (a := 9) h9)
      have hlen : 0 < d.rtLen := by
        have : d.rtLen = mp.rtClusters * 2^cb / 8 := by rw [hd]
        rw [this]
        apply Nat.div_pos _ (by decide)
        calc 8 ≤ 2^9 := by decide
          _ ≤ 2^cb := Nat.pow_le_pow_right (by decide) h9
          _ ≤ mp.rtClusters * 2^cb := Nat.le_mul_of_pos_left _ hR
      unfold rtEntryAt at hzc
      rw [rtIndex_cluster hshape.geo, hi, Nat.div_eq_of_lt (by omega), if_pos hlen] at hzc
      have : d.rt.get 0 = BitVec.ofNat 64 mp.rbOff := by rw [hd]; dsimp only; rw [FMap.get_set_same]
      rw [this, hnz] at hzc
      cases hzc
    · rfl
  refine ⟨⟨hshape, hdom, hA⟩, ?_⟩
  intro o
  exact ⟨noPre_of_entry_zero (hl2z o), by rw [hl2z]; decide⟩

end Qv.Model
